/-
C02 — Pauli strings: linear independence of canonical strings in `Spec.melQ`, every canonical
string is Hermitian, hence a QubitOperator is Hermitian iff all its coefficients are real.
-/
import OFV.Proofs.C02Pauli
import OFV.Proofs.C03Fock
import OFV.Proofs.C03Adjoint
import OFV.Model.C02

namespace OFV
namespace Proofs
namespace C02
open Finset Spec Model

theorem melQ_eq_sum (A : Op) (t s : Nat) :
    melQ A t s = (A.map (fun e => e.2 * melA actPTerm e.1 s t)).sum := by
  unfold melQ applyQ
  have : ∀ (acc : SV), SV.coeff (A.foldl (fun acc (x : List (Nat × Nat) × GQ) =>
        let r := actPTerm x.1 s; SV.addEntry acc r.2 (x.2 * GQ.ipow r.1)) acc) t =
      SV.coeff acc t + (A.map (fun e => e.2 * melA actPTerm e.1 s t)).sum := by
    induction A with
    | nil => intro acc; simp
    | cons e r ih =>
      intro acc
      rw [List.foldl_cons, ih, List.map_cons, List.sum_cons, ← add_assoc]
      congr 1
      simp only [C03.coeff_addEntry]
      unfold melA
      by_cases h : (actPTerm e.1 s).2 = t <;> simp [h]
  have h0 := this []
  simp only [SV.coeff, Dict.getD, Dict.get?, Option.getD_none, zero_add] at h0 ⊢
  exact h0

/-- **canonical Pauli strings are linearly independent** (all qubits `< n`) -/
theorem pauli_independent (D : Op) (n : Nat) (hwf : Dict.WF D) (hc : ∀ e ∈ D, PauliCanonical e.1)
    (hb : ∀ e ∈ D, ∀ f ∈ e.1, f.1 < n) (hz : ∀ s t, s < 2 ^ n → melQ D t s = 0) : ∀ e ∈ D, e.2 = 0 := by
  apply independent_of_orthogonal actPTerm n D hwf
  · intro e he e' he' hne
    exact pauli_canonical_orthogonal e.1 e'.1 n (hc e he) (hc e' he') (hb e he) (hb e' he') hne
  · intro s t hs
    rw [← melQ_eq_sum]; exact hz s t hs

/-! ### every Pauli string is Hermitian -/

theorem actP_phase_lt (j p s : Nat) : (actP j p s).1 < 4 := by
  unfold actP; split <;> (try split) <;> omega

theorem actP_adjoint (j p s : Nat) :
    actP j p (actP j p s).2 = ((4 - (actP j p s).1) % 4, s) := by
  have h1 := testBit_xflip s j
  have h2 := xflip_xflip s j
  unfold actP
  split <;> cases hb : s.testBit j <;> simp [h1, h2, hb]

theorem actPTerm_phase_lt (t : Term) (s : Nat) : (actPTerm t s).1 < 4 := by
  cases t with
  | nil => simp [actPTerm]
  | cons f r => rw [actPTerm_cons]; simp only [stepP]; exact Nat.mod_lt _ (by omega)

/-- `⟨t| τ |s⟩ = conj ⟨s| rev τ |t⟩` on the level of actions -/
theorem actPTerm_reverse (τ : Term) : ∀ s, actPTerm τ.reverse (actPTerm τ s).2 = ((4 - (actPTerm τ s).1) % 4, s) := by
  induction τ with
  | nil => intro s; simp [actPTerm]
  | cons f r ih =>
    intro s
    rw [actPTerm_cons]
    set y := actPTerm r s with hy
    have hstep : stepP f y = ((y.1 + (actP f.1 f.2 y.2).1) % 4, (actP f.1 f.2 y.2).2) := rfl
    rw [hstep]
    simp only
    rw [List.reverse_cons, actPTerm_eq, List.foldr_append]
    have h1 : List.foldr stepP (0, (actP f.1 f.2 y.2).2) [f] = ((0 + (4 - (actP f.1 f.2 y.2).1) % 4) % 4, y.2) := by
      simp only [List.foldr, stepP, actP_adjoint]
    rw [h1]
    obtain ⟨k1, k2⟩ := foldr_stepP_from r.reverse ((0 + (4 - (actP f.1 f.2 y.2).1) % 4) % 4, y.2)
    have hih := ih s
    rw [← hy] at hih
    have hlt : (List.foldr stepP ((0 + (4 - (actP f.1 f.2 y.2).1) % 4) % 4, y.2) r.reverse).1 < 4 := by
      cases hr : r.reverse with
      | nil => simp; exact Nat.mod_lt _ (by omega)
      | cons g r' => simp only [List.foldr, stepP]; exact Nat.mod_lt _ (by omega)
    apply Prod.ext
    · simp only
      simp only at k2
      rw [hih] at k2
      simp only at k2
      have hp2 := actP_phase_lt f.1 f.2 y.2
      have hp1 : y.1 < 4 := by rw [hy]; exact actPTerm_phase_lt r s
      generalize (List.foldr stepP ((0 + (4 - (actP f.1 f.2 y.2).1) % 4) % 4, y.2) r.reverse).1 = R at k2 hlt ⊢
      generalize (actP f.1 f.2 y.2).1 = p2 at k2 hp2 ⊢
      generalize y.1 = p1 at k2 hp1 ⊢
      omega
    · simp only
      rw [k1]; simp only; rw [hih]

theorem ipow_conj_neg (a : Nat) (ha : a < 4) : GQ.ipow ((4 - a) % 4) = (GQ.ipow a).conj := by
  have : a = 0 ∨ a = 1 ∨ a = 2 ∨ a = 3 := by omega
  rcases this with rfl | rfl | rfl | rfl <;> simp [GQ.ipow, GQ.conj, GQ.I] <;> apply GQ.ext <;> simp

theorem melA_reverse (τ : Term) (s t : Nat) :
    melA actPTerm τ.reverse t s = (melA actPTerm τ s t).conj := by
  unfold melA
  by_cases h : (actPTerm τ s).2 = t
  · subst h
    have := actPTerm_reverse τ s
    rw [this]
    simp only [if_true]
    exact ipow_conj_neg _ (actPTerm_phase_lt τ s)
  · rw [if_neg h]
    have : (actPTerm τ.reverse t).2 ≠ s := by
      intro h2
      have := actPTerm_reverse τ.reverse t
      rw [List.reverse_reverse, h2] at this
      exact h (by rw [this])
    rw [if_neg this]; exact C03.gq_conj_zero.symm

theorem sortF_reverse_canonical (P : Term) (hp : PauliCanonical P) : sortF P.reverse = P := by
  have hperm : (sortF P.reverse).Perm P := (sortF_perm P.reverse).trans (List.reverse_perm P)
  have hs : (sortF P.reverse).Pairwise (fun a b => a.1 ≤ b.1) := sortF_sorted P.reverse
  have hp' : P.Pairwise (fun a b => a.1 ≤ b.1) := hp.1.imp (fun h => Nat.le_of_lt h)
  apply List.Perm.eq_of_pairwise _ hs hp' hperm
  intro a b ha hb hab hba
  have ha' : a ∈ P := hperm.mem_iff.1 ha
  have hidx : a.1 = b.1 := by omega
  -- strictly increasing indices: equal index ⇒ equal factor
  by_contra hne
  have hpw := hp.1
  rw [List.pairwise_iff_forall_sublist] at hpw
  rcases List.mem_iff_getElem.1 ha' with ⟨i, hi, rfl⟩
  rcases List.mem_iff_getElem.1 hb with ⟨k, hk, rfl⟩
  have hik : i ≠ k := fun e => hne (by subst e; rfl)
  have hpw2 := List.pairwise_iff_getElem.1 hp.1
  rcases Nat.lt_or_gt_of_ne hik with h | h
  · have := hpw2 i k hi hk h; omega
  · have := hpw2 k i hk hi h; omega

/-- a canonical Pauli string is a Hermitian operator -/
theorem pauli_string_hermitian (P : Term) (hp : PauliCanonical P) (s t : Nat) :
    melA actPTerm P t s = (melA actPTerm P s t).conj := by
  rw [← melA_reverse]
  unfold melA
  rw [← actPTerm_sortF P.reverse t, sortF_reverse_canonical P hp]

/-! ### `hermitian_conjugated(QubitOperator)` and the Hermiticity criterion -/

theorem hcQubit_eq_map (a : Op) (wa : Dict.WF a) :
    Model.C02.hcQubit a = a.map (fun e => (e.1, e.2.conj)) := by
  unfold Model.C02.hcQubit
  have := C03.foldl_set_fresh a (fun e => (e.1, e.2.conj)) [] (by
    simp only [List.nil_append, Dict.keys, List.map_map]
    exact wa)
  simp only [List.nil_append] at this
  exact this

/-- `⟨t| A† |s⟩ = conj ⟨s| A |t⟩` for `A† = hermitian_conjugated(A)`, canonical strings -/
theorem melQ_hcQubit (a : Op) (wa : Dict.WF a) (hc : ∀ e ∈ a, PauliCanonical e.1) (t s : Nat) :
    melQ (Model.C02.hcQubit a) t s = (melQ a s t).conj := by
  rw [hcQubit_eq_map a wa, melQ_eq_sum, melQ_eq_sum, C03.conj_sum, List.map_map, List.map_map]
  congr 1
  apply List.map_congr_left
  intro e he
  simp only [Function.comp]
  rw [C03.gq_conj_mul, pauli_string_hermitian e.1 (hc e he) t s]

/-- **a QubitOperator (canonical strings on `n` qubits) is Hermitian in `Spec.melQ` iff all its
coefficients are real** -/
theorem hermitian_qubit_iff_real (a : Op) (n : Nat) (wa : Dict.WF a) (hc : ∀ e ∈ a, PauliCanonical e.1)
    (hb : ∀ e ∈ a, ∀ f ∈ e.1, f.1 < n) :
    (∀ s t, melQ a t s = (melQ a s t).conj) ↔ ∀ e ∈ a, e.2.conj = e.2 := by
  constructor
  · intro h
    -- the difference dictionary has vanishing matrix elements
    let D : Op := a.map (fun e => (e.1, e.2 - e.2.conj))
    have hDk : Dict.keys D = Dict.keys a := by
      show (a.map _).map _ = a.map _
      rw [List.map_map]; rfl
    have hDwf : Dict.WF D := by unfold Dict.WF; rw [hDk]; exact wa
    have hDc : ∀ e ∈ D, PauliCanonical e.1 := by
      intro e he; obtain ⟨x, hx, rfl⟩ := List.mem_map.1 he; exact hc x hx
    have hDb : ∀ e ∈ D, ∀ f ∈ e.1, f.1 < n := by
      intro e he; obtain ⟨x, hx, rfl⟩ := List.mem_map.1 he; exact hb x hx
    have hDz : ∀ s t, s < 2 ^ n → melQ D t s = 0 := by
      intro s t _
      have h1 := h s t
      rw [← melQ_hcQubit a wa hc t s, hcQubit_eq_map a wa, melQ_eq_sum, melQ_eq_sum] at h1
      rw [melQ_eq_sum]
      show ((a.map _).map _).sum = 0
      rw [List.map_map]
      have : (a.map ((fun e => e.2 * melA actPTerm e.1 s t) ∘ fun e => (e.1, e.2 - e.2.conj))) =
          a.map (fun e => e.2 * melA actPTerm e.1 s t + (-(e.2.conj * melA actPTerm e.1 s t))) := by
        apply List.map_congr_left; intro e _; simp only [Function.comp]; ring
      rw [this, List.sum_map_add, h1, List.map_map]
      have e2 : (a.map (fun e => -(e.2.conj * melA actPTerm e.1 s t))).sum =
          -((a.map ((fun e => e.2 * melA actPTerm e.1 s t) ∘ fun e => (e.1, e.2.conj))).sum) := by
        generalize a = l
        induction l with
        | nil => simp
        | cons x r ih => simp only [List.map_cons, List.sum_cons, ih, Function.comp]; ring
      rw [e2]; ring
    have hzero := pauli_independent D n hDwf hDc hDb hDz
    intro e he
    have := hzero (e.1, e.2 - e.2.conj) (List.mem_map.2 ⟨e, he, rfl⟩)
    simp only at this
    exact (sub_eq_zero.1 this).symm
  · intro h s t
    rw [← melQ_hcQubit a wa hc t s, hcQubit_eq_map a wa]
    have : a.map (fun e => (e.1, e.2.conj)) = a := by
      conv_rhs => rw [← List.map_id a]
      apply List.map_congr_left
      intro e he
      exact Prod.ext rfl (h e he)
    rw [this]

theorem get?_map_conj (a : Op) (t : Term) :
    Dict.get? (a.map (fun e => (e.1, e.2.conj))) t = (Dict.get? a t).map GQ.conj := by
  induction a with
  | nil => rfl
  | cons e r ih =>
    obtain ⟨k, v⟩ := e
    by_cases h : k = t <;> simp [Dict.get?, h, ih]

/-- the coded test, term by term: `is_hermitian(QubitOperator)` is true iff every coefficient is
within the `==` tolerance of its complex conjugate -/
theorem isHermitianQubit_iff_termwise (tol : Rat) (a : Op) (wa : Dict.WF a) :
    Model.C02.isHermitianQubit tol a = true ↔
      ∀ e ∈ a, Model.C02.closeRel tol e.2 e.2.conj = true := by
  unfold Model.C02.isHermitianQubit
  rw [isclose_iff_spec, hcQubit_eq_map a wa]
  unfold Spec.C02.Isclose
  constructor
  · intro h e he
    have := h e.1
    rw [get?_map_conj, (get?_eq_some_iff_mem a wa e.1 e.2).2 he] at this
    simp only [Option.map_some, Spec.C02.coefClose] at this
    rw [closeRel_eq]; exact this
  · intro h t
    rw [get?_map_conj]
    cases hg : Dict.get? a t with
    | none => rfl
    | some v =>
      have hm : (t, v) ∈ a := (get?_eq_some_iff_mem a wa t v).1 hg
      have := h (t, v) hm
      simp only [Option.map_some, Spec.C02.coefClose]
      rw [← closeRel_eq]; exact this

end C02
end Proofs
end OFV
