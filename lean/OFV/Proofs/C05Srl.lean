/- `_seeley_richard_love`: the `elif` chain of cases 0-10 covers every pair `i, j < n`. -/
import OFV.Proofs.C05Ladder
import Mathlib.Tactic.SplitIfs

namespace OFV
namespace BK
open Model Model.C05 Spec Sem

theorem clearLow_even (i : Nat) : clearLow i % 2 = 0 := by
  rw [clearLow_eq]
  by_cases h0 : i = 0
  · subst h0; simp
  · by_cases h : i % 2 = 1
    · rw [lowbitW_odd h]; omega
    · have := lowbitW_even (by omega : 0 < i) (by omega)
      have hp := lowbitW_pos i (by omega)
      omega

/-- in the parity loop only the first qubit visited can have an even index -/
theorem down_even_head : ∀ fuel idx k, k ∈ downLoop 0 fuel idx → k % 2 = 0 → k + 1 = idx := by
  intro fuel
  induction fuel with
  | zero => intro idx k h; simp [downLoop] at h
  | succ f ih =>
    intro idx k h hk
    by_cases hc : idx ≠ 0 ∧ 0 < idx
    · rw [downLoop_step 0 f idx hc.1 hc.2] at h
      rcases List.mem_cons.1 h with rfl | h
      · omega
      · have := ih _ _ h hk
        have := clearLow_even idx
        omega
    · simp [downLoop, hc] at h

/-- Fenwick lemma behind the missing branch: an even `i` in `P(j)` forces `j = i + 1`, hence `j ∈ U(i)` -/
theorem even_in_parity (i j n : Nat) (hj : j < n) (hi : i % 2 = 0) (h : i ∈ paritySet j) : j ∈ updateSet i n := by
  unfold paritySet at h
  rw [ofList_mem] at h
  have hij := down_even_head _ _ _ h hi
  rw [updateSet_mem]
  refine ⟨by omega, hj, ?_⟩
  unfold loM
  rw [clearLow_eq, ← hij]
  have := lowbitW_even (i := i + 1 + 1) (by omega) (by omega)
  have hp := lowbitW_pos ((i + 1 + 1) / 2) (by omega)
  omega

theorem contains_iff (l : List Nat) (x : Nat) : l.contains x = true ↔ x ∈ l := by
  simp

theorem tag_aux (eq ie je p u : Bool) (h : ie = true → p = true → u = true) :
    (if eq then 0
     else if ie && je then 1
     else if !ie && je && !p then 2
     else if !ie && je && p then 3
     else if ie && !je && !p && !u then 4
     else if ie && !je && !p && u then 5
     else if ie && !je && p && u then 6
     else if !ie && !je && !p && !u then 7
     else if !ie && !je && p && !u then 8
     else if !ie && !je && !p && u then 9
     else if !ie && !je && p && u then 10
     else 11) ≤ 10 := by
  cases eq <;> cases ie <;> cases je <;> cases p <;> cases u <;> simp_all

/-- **the ten guards of `_seeley_richard_love` are exhaustive**: for all `i` and `j < n` one of the cases
0-10 fires (the Model's tag 11 = "no branch, two empty lists returned" is unreachable) -/
theorem srlTag_le (i j n : Nat) (hj : j < n) : srlTag i j n ≤ 10 := by
  unfold srlTag
  apply tag_aux
  intro h1 h3
  rw [contains_iff] at h3 ⊢
  exact even_in_parity i j n hj (by simpa using h1) h3

theorem srl_tag (i j n : Nat) (coef : GQ) : (srl i j coef n).1 = srlTag i j n := rfl

end BK
end OFV
