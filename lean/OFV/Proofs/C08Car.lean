/-
C08 helper lemmas: the rotated ladder operators of general_basis_change and the canonical
anticommutation relations (for a unitary rotation they satisfy the CAR again).
-/
import OFV.Proofs.C08Fock

namespace OFV
namespace C08P
open Spec Spec.C08 Model Model.C08 Proofs.C03

theorem sumNA_add (n : Nat) (F G : Nat → FEnd) : sumNA n (fun P => F P + G P) = sumNA n F + sumNA n G := by
  induction n with
  | zero => simp [sumNA]
  | succ n ih => simp only [sumNA, ih]; abel

theorem sumNA_congr (n : Nat) (F G : Nat → FEnd) (h : ∀ P, P < n → F P = G P) : sumNA n F = sumNA n G := by
  induction n with
  | zero => rfl
  | succ n ih => simp only [sumNA]; rw [ih (fun P hP => h P (by omega)), h n (by omega)]

theorem sumNA_mul (n : Nat) (F : Nat → FEnd) (X : FEnd) : sumNA n F * X = sumNA n (fun P => F P * X) := by
  induction n with
  | zero => simp [sumNA]
  | succ n ih => simp only [sumNA, add_mul, ih]

theorem mul_sumNA (n : Nat) (F : Nat → FEnd) (X : FEnd) : X * sumNA n F = sumNA n (fun P => X * F P) := by
  induction n with
  | zero => simp [sumNA]
  | succ n ih => simp only [sumNA, mul_add, ih]

theorem sumNA_smul_one (n : Nat) (c : Nat → GQ) : sumNA n (fun P => c P • (1 : FEnd)) = sumN n c • (1 : FEnd) := by
  induction n with
  | zero => simp [sumNA, sumN]
  | succ n ih => simp only [sumNA, sumN, ih, add_smul]

theorem sumNA_zero (n : Nat) : sumNA n (fun _ => (0 : FEnd)) = 0 := by
  induction n with
  | zero => rfl
  | succ n ih => simp [sumNA, ih]

theorem sumNA_indicator (n Q : Nat) (hQ : Q < n) (f : Nat → GQ) :
    sumNA n (fun P => f P • (if P = Q then (1 : FEnd) else 0)) = f Q • (1 : FEnd) := by
  induction n with
  | zero => omega
  | succ n ih =>
    simp only [sumNA]
    by_cases h : Q = n
    · subst h
      have : sumNA Q (fun P => f P • (if P = Q then (1 : FEnd) else 0)) = 0 := by
        rw [sumNA_congr Q _ (fun _ => 0) (fun P hP => by simp [Nat.ne_of_lt hP]), sumNA_zero]
      rw [this]; simp
    · have hn : ¬ n = Q := fun e => h e.symm
      rw [ih (by omega)]
      simp [hn]

/-- expansion of the anticommutator of two rotated ladder operators -/
theorem rot_anticomm (n : Nat) (c d : Nat → GQ) (x y : Nat) :
    sumNA n (fun Q => d Q • gF (Q, y)) * sumNA n (fun P => c P • gF (P, x))
      + sumNA n (fun P => c P • gF (P, x)) * sumNA n (fun Q => d Q • gF (Q, y))
    = sumNA n (fun Q => sumNA n (fun P =>
        (d Q * c P) • (gF (Q, y) * gF (P, x) + gF (P, x) * gF (Q, y)))) := by
  rw [sumNA_mul, mul_sumNA, ← sumNA_add]
  apply sumNA_congr
  intro Q _
  rw [mul_sumNA, sumNA_mul, ← sumNA_add]
  apply sumNA_congr
  intro P _
  simp only [smul_mul_assoc, mul_smul_comm, smul_smul, smul_add]
  rw [mul_comm (c P) (d Q)]

/-- `{ã_b, ã†_a} = (R R^†)_{ba}` for arbitrary `R` -/
theorem rot_car_mixed_aux (n : Nat) (R : Mat) (a b : Nat) :
    rotLadder n R b 0 * rotLadder n R a 1 + rotLadder n R a 1 * rotLadder n R b 0
      = sumN n (fun P => matGet R b P * matGet (conjMat R) a P) • (1 : FEnd) := by
  simp only [rotLadder, ne_eq, not_true_eq_false, if_false, one_ne_zero, not_false_eq_true, if_true]
  rw [rot_anticomm, ← sumNA_smul_one]
  apply sumNA_congr
  intro Q hQ
  rw [← sumNA_indicator n Q hQ (fun P => matGet R b Q * matGet (conjMat R) a P)]
  apply sumNA_congr
  intro P _
  have := fock_car_mixed (P, 1) (Q, 0) (by simp) rfl
  simp only at this
  rw [this]

theorem rot_car_same_aux (n : Nat) (R : Mat) (a b x : Nat) :
    rotLadder n R b x * rotLadder n R a x + rotLadder n R a x * rotLadder n R b x = 0 := by
  simp only [rotLadder]
  rw [rot_anticomm]
  rw [sumNA_congr n _ (fun _ => 0), sumNA_zero]
  intro Q _
  rw [sumNA_congr n _ (fun _ => 0), sumNA_zero]
  intro P _
  by_cases h : P = Q
  · subst h
    rw [fock_car_sq (P, x) (P, x) rfl rfl]; simp
  · rw [fock_car_same (P, x) (Q, x) rfl h]; simp

end C08P
end OFV
