/-
C08 helper lemmas for `tensor_denote_iter`: `__iter__` / `__getitem__` /
`_polynomial_tensor_to_fermion_operator` (Model.C08.iter, getitem, toFermion).
-/
import OFV.Proofs.C08Rot
import Mathlib.Data.List.Perm.Subperm
import Mathlib.Data.List.Nodup
import Mathlib.Data.List.Lattice

namespace OFV
namespace C08P
open Spec Spec.C08 Model Model.C08

/-! ### finite sums over lists -/

def lsum {α : Type} (f : α → GQ) : List α → GQ
  | [] => 0
  | a :: r => f a + lsum f r

theorem lsum_append {α} (f : α → GQ) (l m : List α) : lsum f (l ++ m) = lsum f l + lsum f m := by
  induction l with
  | nil => simp [lsum]
  | cons a r ih => simp only [List.cons_append, lsum, ih]; ring

theorem lsum_flatMap {α β} (f : β → GQ) (g : α → List β) (l : List α) :
    lsum f (l.flatMap g) = lsum (fun a => lsum f (g a)) l := by
  induction l with
  | nil => simp [lsum]
  | cons a r ih => simp only [List.flatMap_cons, lsum_append, lsum, ih]

theorem lsum_map {α β} (f : β → GQ) (g : α → β) (l : List α) : lsum f (l.map g) = lsum (fun a => f (g a)) l := by
  induction l with
  | nil => simp [lsum]
  | cons a r ih => simp only [List.map_cons, lsum, ih]

theorem lsum_congr {α} (f g : α → GQ) (l : List α) (h : ∀ a ∈ l, f a = g a) : lsum f l = lsum g l := by
  induction l with
  | nil => rfl
  | cons a r ih =>
    simp only [lsum]
    rw [h a (by simp), ih (fun b hb => h b (by simp [hb]))]

theorem lsum_perm {α} (f : α → GQ) {l m : List α} (h : l.Perm m) : lsum f l = lsum f m := by
  induction h with
  | nil => rfl
  | cons a _ ih => simp only [lsum, ih]
  | swap a b l => simp only [lsum]; ring
  | trans _ _ ih1 ih2 => rw [ih1, ih2]

theorem lsum_filterMap_zero {α β} (f : β → GQ) (g : α → Option β) (h : α → GQ) (l : List α)
    (hs : ∀ a ∈ l, ∀ b, g a = some b → f b = h a) (hn : ∀ a ∈ l, g a = none → h a = 0) :
    lsum f (l.filterMap g) = lsum h l := by
  induction l with
  | nil => rfl
  | cons a r ih =>
    have ih' := ih (fun b hb => hs b (by simp [hb])) (fun b hb => hn b (by simp [hb]))
    cases hg : g a with
    | none =>
      rw [List.filterMap_cons_none hg]
      simp only [lsum, ih', hn a (by simp) hg, zero_add]
    | some b =>
      rw [List.filterMap_cons_some hg]
      simp only [lsum, ih', hs a (by simp) b hg]

theorem evalW_eq_lsum (w : List (Nat × Nat) → GQ) (L : FOp) : evalW w L = lsum (fun e => e.2 * w e.1) L := by
  induction L with
  | nil => rfl
  | cons e r ih => obtain ⟨t, c⟩ := e; simp only [evalW, lsum, ih]

/-! ### `evalT` as a sum over `itertools.product(range(n), repeat=k)` -/

theorem sumIdx_eq_lsum (F : Nat → Tensor → GQ) (l : List Tensor) (i : Nat) (dflt : Tensor) :
    sumIdx F i l = lsum (fun j => F (i + j) (l[j]?.getD dflt)) (List.range l.length) := by
  induction l generalizing i with
  | nil => simp [sumIdx, lsum]
  | cons t r ih =>
    simp only [sumIdx, List.length_cons, List.range_succ_eq_map, lsum, lsum_map]
    rw [ih (i + 1)]
    simp only [List.getElem?_cons_zero, Option.getD_some, Nat.add_zero]
    congr 1
    apply lsum_congr
    intro j _
    simp only [Nat.succ_eq_add_one, List.getElem?_cons_succ]
    rw [show i + 1 + j = i + (j + 1) by omega]

theorem mem_indices_length (n : Nat) : ∀ (k : Nat) (idx : List Nat), idx ∈ indices n k → idx.length = k := by
  intro k
  induction k with
  | zero => intro idx h; simp [indices] at h; simp [h]
  | succ k ih =>
    intro idx h
    simp only [indices, List.mem_flatMap, List.mem_map] at h
    obtain ⟨i, _, r, hr, rfl⟩ := h
    simp [ih r hr]

theorem evalT_eq_lsum (n : Nat) : ∀ (k : Nat) (w : List Nat → GQ) (T : Tensor), Shaped n k T →
    evalT k w T = lsum (fun idx => (tget idx T).getD 0 * w idx) (indices n k) := by
  intro k
  induction k with
  | zero =>
    intro w T h
    cases T with
    | s c => simp [evalT, indices, lsum, tget]
    | v l => simp [Shaped] at h
  | succ k ih =>
    intro w T h
    cases T with
    | s c => simp [Shaped] at h
    | v l =>
      simp only [Shaped] at h
      simp only [evalT, indices, lsum_flatMap, lsum_map]
      rw [sumIdx_eq_lsum _ l 0 (.s 0), h.1]
      apply lsum_congr
      intro i hi
      simp only [List.mem_range] at hi
      have hli : i < l.length := by omega
      have hget : l[i]? = some l[i] := List.getElem?_eq_getElem hli
      simp only [Nat.zero_add, hget, Option.getD_some]
      rw [ih _ l[i] (h.2 _ (List.getElem_mem hli))]
      apply lsum_congr
      intro idx _
      simp [tget, hget]

/-! ### structure of `__iter__` -/

/-- the terms `__iter__` yields for one key -/
def perKey (a : PT) (k : Key) : List Term :=
  match k with
  | [] => [[]]
  | _ =>
    match Dict.get? a.d k with
    | none => []
    | some t =>
      (indices a.n k.length).filterMap fun idx =>
        match tget idx t with
        | some c => if c != 0 then some (idx.zip k) else none
        | none => none

theorem iter_eq (a : PT) : iter a = (sortKeys (Dict.keys a.d)).flatMap (perKey a) := by
  unfold iter
  congr 1

/-- `operator[term]` paired with the term; terms whose lookup fails are dropped (never happens) -/
def withCoeff (a : PT) (t : Term) : Option (Term × GQ) :=
  match getitem a t with
  | .ok c => some (t, c)
  | .error _ => none

def iterE (a : PT) : FOp := (iter a).filterMap (withCoeff a)

theorem toFermion_fold (tol : Rat) (a : PT) (L : List Term) (acc : Op) :
    L.foldl (fun acc t => match getitem a t with
      | .ok c => Model.iadd tol acc (mk .fermion t c)
      | .error _ => acc) acc
    = (L.filterMap (withCoeff a)).foldl (fun acc e => Model.iadd tol acc (mk .fermion e.1 e.2)) acc := by
  induction L generalizing acc with
  | nil => rfl
  | cons t r ih =>
    simp only [List.foldl_cons]
    cases h : getitem a t with
    | ok c =>
      have hw : withCoeff a t = some (t, c) := by simp [withCoeff, h]
      rw [List.filterMap_cons_some hw, List.foldl_cons, ih]
    | error e =>
      have hw : withCoeff a t = none := by simp [withCoeff, h]
      rw [List.filterMap_cons_none hw, ih]

theorem toFermion_eq (tol : Rat) (a : PT) :
    toFermion tol a = (iterE a).foldl (fun acc e => Model.iadd tol acc (mk .fermion e.1 e.2)) [] := by
  unfold toFermion iterE
  exact toFermion_fold tol a (iter a) []

theorem tget_some_length (n : Nat) : ∀ (k : Nat) (T : Tensor) (idx : List Nat) (c : GQ), Shaped n k T →
    tget idx T = some c → idx.length = k := by
  intro k
  induction k with
  | zero =>
    intro T idx c h ht
    cases T with
    | s x => cases idx with
      | nil => rfl
      | cons i r => simp [tget] at ht
    | v l => simp [Shaped] at h
  | succ k ih =>
    intro T idx c h ht
    cases T with
    | s x => simp [Shaped] at h
    | v l =>
      cases idx with
      | nil => simp [tget] at ht
      | cons i r =>
        simp only [tget] at ht
        cases hl : l[i]? with
        | none => simp [hl] at ht
        | some t =>
          simp only [hl] at ht
          simp only [Shaped] at h
          have hm : t ∈ l := List.mem_of_getElem? hl
          simp [ih t r c (h.2 t hm) ht]

theorem getitem_zip (a : PT) (k : Key) (T : Tensor) (idx : List Nat) (hk : k ≠ []) (hl : idx.length = k.length)
    (hg : Dict.get? a.d k = some T) :
    getitem a (idx.zip k) = match tget idx T with
      | some c => .ok c
      | none => .error .indexError := by
  have h1 : (idx.zip k).map Prod.snd = k := List.map_snd_zip (by omega)
  have h2 : (idx.zip k).map Prod.fst = idx := List.map_fst_zip (by omega)
  cases hz : idx.zip k with
  | nil =>
    have : (idx.zip k).length = 0 := by rw [hz]; rfl
    rw [List.length_zip, hl, Nat.min_self] at this
    exact absurd (List.eq_nil_of_length_eq_zero this) hk
  | cons f r =>
    unfold getitem
    rw [hz] at h1 h2
    simp only [h1, h2, hg]
    cases tget idx T <;> rfl

/-- value of the terms of one key -/
theorem perKey_sum (w : List (Nat × Nat) → GQ) (a : PT) (k : Key) (T : Tensor)
    (hg : Dict.get? a.d k = some T) (hs : Shaped a.n k.length T) :
    lsum (fun e => e.2 * w e.1) ((perKey a k).filterMap (withCoeff a)) = evK w k T := by
  cases k with
  | nil =>
    cases T with
    | v l => simp [Shaped] at hs
    | s c =>
      have : withCoeff a [] = some ([], c) := by simp [withCoeff, getitem, hg]
      simp [perKey, List.filterMap_cons_some this, lsum, evK, evalT]
  | cons x ks =>
    simp only [perKey, hg, List.filterMap_filterMap]
    rw [lsum_filterMap_zero (α := List Nat) (β := Term × GQ) (fun e => e.2 * w e.1) _
      (fun idx => (tget idx T).getD 0 * w (idx.zip (x :: ks))) (indices a.n (x :: ks).length)]
    · rw [evK, evalT_eq_lsum a.n _ _ T hs]
    · intro idx hidx b hb
      have hl := mem_indices_length a.n _ idx hidx
      cases ht : tget idx T with
      | none => simp [ht] at hb
      | some c =>
        simp only [ht, Option.bind] at hb
        by_cases hc : c = 0
        · simp [hc] at hb
        · have hc' : (c != 0) = true := by simp [hc]
          simp only [hc', if_true] at hb
          have hgi := getitem_zip a (x :: ks) T idx (by simp) hl hg
          simp only [ht] at hgi
          simp only [withCoeff, hgi, Option.some.injEq] at hb
          subst hb
          simp
    · intro idx hidx hb
      cases ht : tget idx T with
      | none => simp
      | some c =>
        simp only [ht, Option.bind] at hb
        by_cases hc : c = 0
        · simp [hc]
        · exfalso
          have hc' : (c != 0) = true := by simp [hc]
          have hl := mem_indices_length a.n _ idx hidx
          have hgi := getitem_zip a (x :: ks) T idx (by simp) hl hg
          simp only [ht] at hgi
          simp [hc', withCoeff, hgi] at hb

/-! ### sorted keys are a permutation of the keys -/

theorem insertKey_perm (k : Key) (l : List Key) : (insertKey k l).Perm (k :: l) := by
  induction l with
  | nil => simp [insertKey]
  | cons x r ih =>
    simp only [insertKey]
    split
    · exact (List.Perm.cons x ih).trans (List.Perm.swap k x r)
    · exact List.Perm.refl _

theorem sortKeys_perm (l : List Key) : (sortKeys l).Perm l := by
  unfold sortKeys
  suffices h : ∀ acc : List Key, (l.foldl (fun acc k => insertKey k acc) acc).Perm (acc ++ l) by simpa using h []
  induction l with
  | nil => intro acc; simp
  | cons k r ih =>
    intro acc
    simp only [List.foldl_cons]
    refine (ih _).trans ?_
    refine ((insertKey_perm k acc).append_right r).trans ?_
    simpa using (List.perm_middle (a := k) (l₁ := acc) (l₂ := r)).symm

theorem get?_of_mem_nodup {d : List (Key × Tensor)} (hn : (Dict.keys d).Nodup) {k : Key} {T : Tensor}
    (hm : (k, T) ∈ d) : Dict.get? d k = some T := by
  induction d with
  | nil => simp at hm
  | cons e r ih =>
    obtain ⟨k', T'⟩ := e
    simp only [Dict.keys, List.map_cons, List.nodup_cons] at hn
    rcases List.mem_cons.mp hm with h | h
    · cases h; simp [Dict.get?]
    · have hne : k' ≠ k := by
        intro e; subst e
        exact hn.1 (List.mem_map_of_mem (f := Prod.fst) h)
      simp only [Dict.get?, hne, if_false]
      exact ih hn.2 h

theorem evD_eq_lsum_keys (w) (d : List (Key × Tensor)) (hn : (Dict.keys d).Nodup) :
    evD w d = lsum (fun k => evK w k ((Dict.get? d k).getD (.s 0))) (Dict.keys d) := by
  have h1 : evD w d = lsum (fun e => evK w e.1 e.2) d := by
    induction d with
    | nil => rfl
    | cons e r ih =>
      obtain ⟨k, T⟩ := e
      simp only [evD, lsum]
      rw [ih (by simp only [Dict.keys, List.map_cons, List.nodup_cons] at hn; exact hn.2)]
  rw [h1, Dict.keys, lsum_map]
  apply lsum_congr
  intro e he
  rw [get?_of_mem_nodup hn (k := e.1) (T := e.2) he]
  rfl

/-- **the value of everything `__iter__` / `__getitem__` produce is the value of the arrays** -/
theorem iterE_sum (w : List (Nat × Nat) → GQ) (a : PT) (hn : (Dict.keys a.d).Nodup)
    (hs : ∀ e ∈ a.d, Shaped a.n e.1.length e.2) :
    lsum (fun e => e.2 * w e.1) (iterE a) = evD w a.d := by
  unfold iterE
  rw [iter_eq, List.filterMap_flatMap, lsum_flatMap, lsum_perm _ (sortKeys_perm _), evD_eq_lsum_keys w a.d hn]
  apply lsum_congr
  intro k hk
  simp only [Dict.keys, List.mem_map] at hk
  obtain ⟨e, he, rfl⟩ := hk
  have hg := get?_of_mem_nodup hn (k := e.1) (T := e.2) he
  rw [hg]
  exact perKey_sum w a e.1 e.2 hg (hs e he)

/-! ### the `+=` loop over pairwise distinct terms -/

theorem get?_none_of_not_mem {d : Op} {t : Term} (h : t ∉ d.map Prod.fst) : Dict.get? d t = none := by
  induction d with
  | nil => rfl
  | cons e r ih =>
    obtain ⟨k, v⟩ := e
    simp only [List.map_cons, List.mem_cons, not_or] at h
    have hk : ¬ k = t := fun e => h.1 e.symm
    simp only [Dict.get?, hk, if_false]
    exact ih h.2

theorem set_none_eq_append {d : Op} {t : Term} (c : GQ) (h : Dict.get? d t = none) :
    Dict.set d t c = d ++ [(t, c)] := by
  induction d with
  | nil => rfl
  | cons e r ih =>
    obtain ⟨k, v⟩ := e
    simp only [Dict.get?] at h
    by_cases hk : k = t
    · simp [hk] at h
    · simp only [hk, if_false] at h
      simp only [Dict.set, hk, if_false, List.cons_append, ih h]

theorem erase_none_eq {d : Op} {t : Term} (h : Dict.get? d t = none) : Dict.erase d t = d := by
  induction d with
  | nil => rfl
  | cons e r ih =>
    obtain ⟨k, v⟩ := e
    simp only [Dict.get?] at h
    by_cases hk : k = t
    · simp [hk] at h
    · simp only [hk, if_false] at h
      simp only [Dict.erase, hk, if_false, ih h]

theorem iadd_single_fresh (tol : Rat) (acc : Op) (t : Term) (c : GQ) (h : t ∉ acc.map Prod.fst) :
    Model.iadd tol acc (mk .fermion t c) = if GQ.isSmall tol c then acc else acc ++ [(t, c)] := by
  have hg := get?_none_of_not_mem h
  have hv : Dict.getD acc t 0 + c * 1 = c := by simp only [Dict.getD, hg, Option.getD]; ring
  simp only [Model.iadd, mk, simplify, List.foldl_cons, List.foldl_nil, hv]
  split
  · exact erase_none_eq hg
  · exact set_none_eq_append c hg

theorem fold_fresh (tol : Rat) (w : List (Nat × Nat) → GQ) :
    ∀ (L : FOp) (acc : Op), (L.map Prod.fst).Nodup → (∀ e ∈ L, e.1 ∉ acc.map Prod.fst) →
    (∀ e ∈ L, GQ.isSmall tol e.2 = true → e.2 = 0) →
    evalW w (L.foldl (fun acc e => Model.iadd tol acc (mk .fermion e.1 e.2)) acc)
      = evalW w acc + lsum (fun e => e.2 * w e.1) L := by
  intro L
  induction L with
  | nil => intro acc _ _ _; simp [lsum]
  | cons e r ih =>
    intro acc hn hd hz
    obtain ⟨t, c⟩ := e
    simp only [List.map_cons, List.nodup_cons] at hn
    simp only [List.foldl_cons]
    rw [iadd_single_fresh tol acc t c (hd (t, c) (by simp))]
    by_cases hsm : GQ.isSmall tol c = true
    · have hc : c = 0 := hz (t, c) (by simp) hsm
      simp only [hsm, if_true]
      rw [ih acc hn.2 (fun e he => hd e (by simp [he])) (fun e he => hz e (by simp [he]))]
      simp [lsum, hc]
    · have hsm' : GQ.isSmall tol c = false := by simpa using hsm
      simp only [hsm', Bool.false_eq_true, if_false]
      rw [ih (acc ++ [(t, c)]) hn.2 (by
          intro e he
          simp only [List.map_append, List.map_cons, List.map_nil, List.mem_append, List.mem_singleton, not_or]
          refine ⟨hd e (by simp [he]), ?_⟩
          intro heq
          exact hn.1 (heq ▸ List.mem_map_of_mem (f := Prod.fst) he))
        (fun e he => hz e (by simp [he]))]
      simp only [evalW_append, evalW, lsum]; ring

/-! ### the yielded terms are pairwise distinct -/

theorem indices_nodup (n : Nat) : ∀ k, (indices n k).Nodup := by
  intro k
  induction k with
  | zero => simp [indices]
  | succ k ih =>
    simp only [indices]
    rw [List.nodup_flatMap]
    refine ⟨fun i _ => ih.map (fun a b h => by simpa using h), ?_⟩
    apply List.nodup_range.pairwise_of_forall_ne
    intro i _ j _ hij
    simp only [Function.onFun]
    intro x hx hy
    simp only [List.mem_map] at hx hy
    obtain ⟨r, _, rfl⟩ := hx
    obtain ⟨r', _, h⟩ := hy
    simp at h
    exact hij h.1.symm

theorem perKey_snd (a : PT) (hs : ∀ e ∈ a.d, Shaped a.n e.1.length e.2) (k : Key) (t : Term) (ht : t ∈ perKey a k) :
    t.map Prod.snd = k := by
  cases k with
  | nil => simp [perKey] at ht; simp [ht]
  | cons x ks =>
    simp only [perKey] at ht
    cases hg : Dict.get? a.d (x :: ks) with
    | none => simp [hg] at ht
    | some T =>
      simp only [hg, List.mem_filterMap] at ht
      obtain ⟨idx, hidx, h⟩ := ht
      have hl := mem_indices_length a.n _ idx hidx
      cases htg : tget idx T with
      | none => simp [htg] at h
      | some c =>
        simp only [htg] at h
        split at h
        · simp only [Option.some.injEq] at h
          subst h
          exact List.map_snd_zip (by omega)
        · simp at h

theorem perKey_nodup (a : PT) (k : Key) : (perKey a k).Nodup := by
  cases k with
  | nil => simp [perKey]
  | cons x ks =>
    simp only [perKey]
    cases hg : Dict.get? a.d (x :: ks) with
    | none => simp
    | some T =>
      simp only
      -- restrict to the indices of the right length, on which `zip` is injective
      have : ∀ idx ∈ indices a.n (x :: ks).length, ∀ idx' ∈ indices a.n (x :: ks).length,
          idx.zip (x :: ks) = idx'.zip (x :: ks) → idx = idx' := by
        intro idx h1 idx' h2 he
        have l1 := mem_indices_length a.n _ idx h1
        have l2 := mem_indices_length a.n _ idx' h2
        have := congrArg (List.map Prod.fst) he
        rwa [List.map_fst_zip (by omega), List.map_fst_zip (by omega)] at this
      have hnd := indices_nodup a.n (x :: ks).length
      generalize indices a.n (x :: ks).length = I at this hnd
      induction I with
      | nil => simp
      | cons i r ih =>
        simp only [List.nodup_cons] at hnd
        have ihr := ih (fun a ha b hb => this a (by simp [ha]) b (by simp [hb])) hnd.2
        cases hf : (match tget i T with
            | some c => if (c != 0) = true then some (i.zip (x :: ks)) else none
            | none => none) with
        | none => simp only [List.filterMap_cons, hf]; exact ihr
        | some b =>
          simp only [List.filterMap_cons, hf, List.nodup_cons]
          refine ⟨?_, ihr⟩
          intro hb
          simp only [List.mem_filterMap] at hb
          obtain ⟨j, hj, hjb⟩ := hb
          have hbi : b = i.zip (x :: ks) := by
            cases htg : tget i T with
            | none => simp [htg] at hf
            | some c => simp only [htg] at hf; split at hf <;> simp at hf; exact hf.symm
          have hbj : b = j.zip (x :: ks) := by
            cases htg : tget j T with
            | none => simp [htg] at hjb
            | some c => simp only [htg] at hjb; split at hjb <;> simp at hjb; exact hjb.symm
          have : i = j := this i (by simp) j (by simp [hj]) (hbi ▸ hbj)
          exact hnd.1 (this ▸ hj)

theorem iter_nodup (a : PT) (hn : (Dict.keys a.d).Nodup) (hs : ∀ e ∈ a.d, Shaped a.n e.1.length e.2) :
    (iter a).Nodup := by
  rw [iter_eq, List.nodup_flatMap]
  refine ⟨fun k _ => perKey_nodup a k, ?_⟩
  have hsn : (sortKeys (Dict.keys a.d)).Nodup := (sortKeys_perm _).nodup_iff.mpr hn
  apply hsn.pairwise_of_forall_ne
  intro k _ k' _ hkk
  simp only [Function.onFun]
  intro t ht ht'
  exact hkk ((perKey_snd a hs k t ht).symm.trans (perKey_snd a hs k' t ht'))

theorem iterE_fst_sublist (a : PT) (L : List Term) :
    ((L.filterMap (withCoeff a)).map Prod.fst).Sublist L := by
  induction L with
  | nil => simp
  | cons t r ih =>
    cases h : withCoeff a t with
    | none => rw [List.filterMap_cons_none h]; exact ih.cons t
    | some b =>
      rw [List.filterMap_cons_some h, List.map_cons]
      have : b.1 = t := by
        unfold withCoeff at h
        split at h <;> simp at h
        rw [← h]
      rw [this]
      exact ih.cons₂ t

theorem iterE_coeff (a : PT) (e : Term × GQ) (he : e ∈ iterE a) : getitem a e.1 = .ok e.2 := by
  unfold iterE at he
  simp only [List.mem_filterMap] at he
  obtain ⟨t, _, h⟩ := he
  unfold withCoeff at h
  split at h
  · rename_i c hc
    simp only [Option.some.injEq] at h
    subst h
    exact hc
  · simp at h

end C08P
end OFV
