/- C02 — `is_hermitian` on dense / sparse matrices: the coded max-abs test is the entry-wise
statement `|M[p,q] - conj M[q,p]| < tol` for all `p, q`. -/
import OFV.Proofs.C02Tensor
import OFV.Proofs.C02HermIO

namespace OFV
namespace Proofs
namespace C02
open Model Model.C02

theorem getD_flatMap_range (n : Nat) (f : Nat → Nat → GQ) :
    ∀ (m p q : Nat), p < m → q < n →
      ((List.range m).flatMap (fun a => (List.range n).map (f a))).getD (p * n + q) 0 = f p q := by
  intro m
  induction m with
  | zero => intro p q hp _; omega
  | succ m ih =>
    intro p q hp hq
    rw [List.range_succ, List.flatMap_append]
    have hlen : ((List.range m).flatMap (fun a => (List.range n).map (f a))).length = m * n := by
      rw [C03.length_flatMap_map (List.range m) (List.range n) f]; simp
    by_cases hpm : p < m
    · have hidx : p * n + q < m * n := by
        have : (p + 1) * n ≤ m * n := Nat.mul_le_mul_right n hpm
        nlinarith
      have := ih p q hpm hq
      simp only [List.getD, List.getElem?_append_left (by rw [hlen]; exact hidx)] at this ⊢
      exact this
    · have hpe : p = m := by omega
      subst hpe
      simp only [List.getD, List.flatMap_cons, List.flatMap_nil, List.append_nil]
      rw [List.getElem?_append_right (by rw [hlen]; omega), hlen]
      have : p * n + q - p * n = q := by omega
      rw [this]
      simp [hq]

theorem getD_hcMatrix (n : Nat) (M : List GQ) (p q : Nat) (hp : p < n) (hq : q < n) :
    (hcMatrix n M).getD (p * n + q) 0 = (M.getD (q * n + p) 0).conj := by
  unfold hcMatrix hcOneBody
  exact getD_flatMap_range n (fun a b => (M.getD (b * n + a) 0).conj) n p q hp hq

/-- **`is_hermitian(matrix)` is the entry-wise test** -/
theorem isHermitianMatrix_iff (tol : Rat) (n : Nat) (M : List GQ) (hlen : M.length = n * n) :
    isHermitianMatrix tol n M = true ↔
      (0 < tol ∧ ∀ p q, p < n → q < n →
        (M.getD (p * n + q) 0 - (M.getD (q * n + p) 0).conj).normSq < tol * tol) := by
  unfold isHermitianMatrix
  simp only [Bool.and_eq_true, decide_eq_true_eq]
  have hl2 : (hcMatrix n M).length = n * n := C03.length_hcOneBody n M
  constructor
  · rintro ⟨ht, h⟩
    refine ⟨ht, fun p q hp hq => ?_⟩
    rw [amaxSq_lt] at h
    have hT : 0 < tol * tol := mul_pos ht ht
    have := (all_lt_iff_getD _ _ hT).1 h.2 (p * n + q)
    rw [getD_diffEntries M (hcMatrix n M) (by rw [hlen, hl2]), getD_hcMatrix n M p q hp hq] at this
    exact this
  · rintro ⟨ht, h⟩
    refine ⟨ht, ?_⟩
    have hT : 0 < tol * tol := mul_pos ht ht
    rw [amaxSq_lt]
    refine ⟨hT, ?_⟩
    rw [all_lt_iff_getD _ _ hT]
    intro i
    rw [getD_diffEntries M (hcMatrix n M) (by rw [hlen, hl2])]
    by_cases hi : i < n * n
    · have hn : 0 < n := by
        rcases Nat.eq_zero_or_pos n with h0 | h0
        · subst h0; simp at hi
        · exact h0
      have hq : i % n < n := Nat.mod_lt _ hn
      have hp : i / n < n := by
        rw [Nat.div_lt_iff_lt_mul hn]; exact hi
      have hdecomp : i = i / n * n + i % n := by
        rw [Nat.mul_comm]; exact (Nat.div_add_mod i n).symm
      have := h (i / n) (i % n) hp hq
      rw [← getD_hcMatrix n M (i / n) (i % n) hp hq, ← hdecomp] at this
      exact this
    · rw [getD_of_ge M i 0 (by rw [hlen]; omega), getD_of_ge _ i 0 (by rw [hl2]; omega), sub_self_normSq]
      exact hT

end C02
end Proofs
end OFV
