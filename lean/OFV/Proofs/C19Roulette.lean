/- C19 — the alias-table construction (`_preprocess_for_efficient_roulette_selection`) is exact:
invariants of the two scanning passes. -/
import OFV.Model.C19
import OFV.Spec.C19
import Mathlib.Algebra.BigOperators.Group.List.Basic
import Mathlib.Tactic.Ring
import Mathlib.Tactic.Linarith

namespace OFV.Proofs.C19
open OFV.Model.C19 List

/-! ### sums over `range n` and list updates -/

/-- `Σ_{i<n} f i` -/
def rs (n : Nat) (f : Nat → Int) : Int := ((range n).map f).sum

theorem rs_succ (n : Nat) (f : Nat → Int) : rs (n + 1) f = rs n f + f n := by
  simp [rs, range_succ]

theorem rs_congr (n : Nat) (f g : Nat → Int) (h : ∀ j < n, f j = g j) : rs n f = rs n g := by
  induction n with
  | zero => rfl
  | succ n ih => rw [rs_succ, rs_succ, ih (fun j hj => h j (by omega)), h n (by omega)]

theorem rs_update1 (n : Nat) (f g : Nat → Int) (a : Nat) (ha : a < n)
    (h : ∀ j < n, j ≠ a → f j = g j) : rs n f = rs n g + (f a - g a) := by
  induction n with
  | zero => omega
  | succ n ih =>
    rw [rs_succ, rs_succ]
    by_cases e : a = n
    · rw [rs_congr n f g (fun j hj => h j (by omega) (by omega)), e]; ring
    · rw [ih (by omega) (fun j hj => h j (by omega)), h n (by omega) (fun e' => e e'.symm)]; ring

/-- two functions that differ only at `a` and `b` -/
theorem rs_update2 (n : Nat) (f g : Nat → Int) (a b : Nat) (ha : a < n) (hb : b < n) (hab : a ≠ b)
    (h : ∀ j < n, j ≠ a → j ≠ b → f j = g j) :
    rs n f = rs n g + (f a - g a) + (f b - g b) := by
  have h1 := rs_update1 n f (fun j => if j = a then g j else f j) a ha
    (fun j _ hja => by simp [hja])
  have h2 := rs_update1 n (fun j => if j = a then g j else f j) g b hb
    (fun j hj hjb => by by_cases hja : j = a <;> simp [hja, h j hj, hjb])
  simp only [if_true, if_neg (Ne.symm hab)] at h1 h2
  rw [h1, h2]; ring


theorem rs_zero (n : Nat) : rs n (fun _ => (0 : Int)) = 0 := by
  induction n with
  | zero => rfl
  | succ m ih => rw [rs_succ, ih]; simp

theorem rs_single (n k : Nat) (hk : k < n) (c : Nat → Int) :
    rs n (fun i => if i = k then c i else 0) = c k := by
  have := rs_update1 n (fun i => if i = k then c i else 0) (fun _ => 0) k hk
    (fun j _ hjk => by simp [hjk])
  rw [this, rs_zero]; simp

theorem rs_le (n : Nat) (f : Nat → Int) (T : Int) (h : ∀ j < n, f j ≤ T) : rs n f ≤ n * T := by
  induction n with
  | zero => simp [rs]
  | succ m ih =>
    rw [rs_succ]; push_cast
    have := ih (fun j hj => h j (by omega))
    have := h m (by omega)
    nlinarith

theorem rs_lt (n : Nat) (f : Nat → Int) (T : Int) (h : ∀ j < n, f j ≤ T) (i : Nat) (hi : i < n)
    (hlt : f i < T) : rs n f < n * T := by
  induction n with
  | zero => omega
  | succ n ih =>
    rw [rs_succ]
    push_cast
    by_cases e : i = n
    · have hle := rs_le n f T (fun j hj => h j (by omega))
      subst e; nlinarith
    · have := ih (fun j hj => h j (by omega)) (by omega)
      have := h n (by omega)
      nlinarith

theorem rs_all_eq (n : Nat) (f : Nat → Int) (T : Int) (h : ∀ j < n, T ≤ f j) (hs : rs n f = n * T) :
    ∀ j < n, f j = T := by
  intro j hj
  by_contra hne
  have hlt : -(f j) < -T := by have := h j hj; omega
  have := rs_lt n (fun i => -(f i)) (-T) (fun i hi => by have := h i hi; omega) j hj hlt
  have hneg : rs n (fun i => -(f i)) = -(rs n f) := by
    clear this hlt hne hj h hs
    induction n with
    | zero => rfl
    | succ m ih => rw [rs_succ, rs_succ, ih]; ring
  rw [hneg, hs] at this
  nlinarith

theorem getD_set_int (l : List Int) (a : Nat) (v : Int) (j : Nat) (ha : a < l.length) :
    (l.set a v).getD j 0 = if j = a then v else l.getD j 0 := by
  simp only [getD_eq_getElem?_getD, getElem?_set]
  by_cases e : a = j
  · subst e; simp [ha]
  · simp [e, Ne.symm e]

theorem getD_set_nat (l : List Nat) (a : Nat) (v : Nat) (j : Nat) (ha : a < l.length) :
    (l.set a v).getD j 0 = if j = a then v else l.getD j 0 := by
  simp only [getD_eq_getElem?_getD, getElem?_set]
  by_cases e : a = j
  · subst e; simp [ha]
  · simp [e, Ne.symm e]

/-! ### the donor search -/

theorem findDonorAux_spec (w : List Int) (T : Int) : ∀ (fuel pos : Nat), pos + fuel = w.length →
    (∃ j, pos ≤ j ∧ j < w.length ∧ T < w.getD j 0) →
    ∃ d, findDonorAux w T fuel pos = some d ∧ pos ≤ d ∧ d < w.length ∧ T < w.getD d 0 ∧
      ∀ j, pos ≤ j → j < d → w.getD j 0 ≤ T := by
  intro fuel
  induction fuel with
  | zero => rintro pos h ⟨j, h1, h2, _⟩; omega
  | succ fuel ih =>
    rintro pos h ⟨j, h1, h2, h3⟩
    have hpos : pos < w.length := by omega
    have hg : w.getD pos T = w.getD pos 0 := by
      simp [getD_eq_getElem?_getD, getElem?_eq_getElem hpos]
    unfold findDonorAux
    by_cases hc : T < w.getD pos T
    · simp only [hc, if_true]
      exact ⟨pos, rfl, Nat.le_refl _, hpos, hg ▸ hc, fun j a b => by omega⟩
    · simp only [hc, if_false]
      have hne : j ≠ pos := by
        intro e; subst e; rw [hg] at hc; exact hc h3
      obtain ⟨d, e1, e2, e3, e4, e5⟩ := ih (pos + 1) (by omega) ⟨j, by omega, h2, h3⟩
      refine ⟨d, e1, by omega, e3, e4, ?_⟩
      intro j' a b
      by_cases e : j' = pos
      · subst e; rw [hg] at hc; omega
      · exact e5 j' (by omega) b


/-! ### the invariant of the scanning passes -/

/-- contribution of table row `i` to the (unnormalised) probability of returning `k` -/
def contrib (st : RState) (k i : Nat) : Int :=
  (if i = k then st.keep.getD i 0 else 0) +
    (if st.alternates.getD i 0 = k then st.weights.getD i 0 - st.keep.getD i 0 else 0)

structure Inv (n : Nat) (T : Int) (w0 : List Int) (vis : Nat) (st : RState) : Prop where
  lw : st.weights.length = n
  la : st.alternates.length = n
  lk : st.keep.length = n
  sumW : rs n (fun i => st.weights.getD i 0) = n * T
  settled : ∀ i < n, (st.alternates.getD i 0 = i ∧ st.keep.getD i 0 = 0) ∨ st.weights.getD i 0 = T
  ptr : ∀ j < st.donor, j < n → st.weights.getD j 0 ≤ T
  dist : ∀ k < n, rs n (contrib st k) = w0.getD k 0
  nonneg : ∀ i < n, 0 ≤ st.weights.getD i 0
  keepB : ∀ i < n, 0 ≤ st.keep.getD i 0 ∧ st.keep.getD i 0 ≤ T
  altB : ∀ i < n, st.alternates.getD i 0 < n
  seen : ∀ j < vis, j < n → T ≤ st.weights.getD j 0 ∨ j ≤ st.donor

/-- one iteration of the inner loop keeps the invariant; in the second pass (everything seen) it also
extends the prefix of items that are no longer needy -/
theorem step_inv (n : Nat) (T : Int) (w0 : List Int) (vis : Nat) (st : RState) (i : Nat) (hi : i < n)
    (hT : 0 ≤ T) (hvis : i ≤ vis) (I : Inv n T w0 vis st) :
    ∃ st', rouletteStep T st i = some st' ∧ Inv n T w0 (max vis (i + 1)) st' ∧
      (vis = n → (∀ j < i, T ≤ st.weights.getD j 0) → ∀ j < i + 1, T ≤ st'.weights.getD j 0) := by
  unfold rouletteStep
  by_cases hge : st.weights.getD i 0 ≥ T
  · simp only [hge, if_true]
    refine ⟨st, rfl, { I with seen := ?_ }, ?_⟩
    · intro j hj hjn
      by_cases e : j = i
      · subst e; exact Or.inl hge
      · exact I.seen j (by omega) hjn
    · intro _ hP j hj
      by_cases e : j = i
      · subst e; exact hge
      · exact hP j (by omega)
  · simp only [hge, if_false]
    have hlt : st.weights.getD i 0 < T := by omega
    -- a donor exists at or after the pointer
    have hex : ∃ j, st.donor ≤ j ∧ j < st.weights.length ∧ T < st.weights.getD j 0 := by
      by_contra hno
      have hall : ∀ j < n, st.weights.getD j 0 ≤ T := by
        intro j hj
        by_cases hjd : j < st.donor
        · exact I.ptr j hjd hj
        · by_contra hgt
          exact hno ⟨j, by omega, by rw [I.lw]; exact hj, by omega⟩
      have := rs_lt n (fun j => st.weights.getD j 0) T hall i hi hlt
      rw [I.sumW] at this; omega
    obtain ⟨d, hd, hd1, hd2, hd3, hd4⟩ :=
      findDonorAux_spec st.weights T (st.weights.length - st.donor) st.donor
        (by obtain ⟨j, a, b, _⟩ := hex; omega) hex
    rw [I.lw] at hd2
    have hdi : d ≠ i := by intro e; subst e; omega
    simp only [findDonor, hd]
    -- the settled disjunction for `i` and `d`
    have hsi : st.alternates.getD i 0 = i ∧ st.keep.getD i 0 = 0 := by
      rcases I.settled i hi with h | h
      · exact h
      · omega
    have hsd : st.alternates.getD d 0 = d ∧ st.keep.getD d 0 = 0 := by
      rcases I.settled d hd2 with h | h
      · exact h
      · omega
    -- lookups in the new state
    have hw : ∀ j, ((st.weights.set d (st.weights.getD d 0 - (T - st.weights.getD i 0))).set i T).getD j 0 =
        if j = i then T else if j = d then st.weights.getD d 0 - (T - st.weights.getD i 0)
        else st.weights.getD j 0 := by
      intro j
      rw [getD_set_int _ _ _ _ (by rw [length_set, I.lw]; exact hi),
        getD_set_int _ _ _ _ (by rw [I.lw]; exact hd2)]
    have ha : ∀ j, (st.alternates.set i d).getD j 0 = if j = i then d else st.alternates.getD j 0 :=
      fun j => getD_set_nat _ _ _ _ (by rw [I.la]; exact hi)
    have hk : ∀ j, (st.keep.set i (st.weights.getD i 0)).getD j 0 =
        if j = i then st.weights.getD i 0 else st.keep.getD j 0 :=
      fun j => getD_set_int _ _ _ _ (by rw [I.lk]; exact hi)
    refine ⟨_, rfl, ?_, ?_⟩
    · refine ⟨by simp [I.lw], by simp [I.la], by simp [I.lk], ?_, ?_, ?_, ?_, ?_, ?_, ?_, ?_⟩
      · -- the total weight is unchanged
        have := rs_update2 n (fun j => ((st.weights.set d (st.weights.getD d 0 - (T - st.weights.getD i 0))).set i T).getD j 0)
          (fun j => st.weights.getD j 0) i d hi hd2 (Ne.symm hdi)
          (fun j _ h1 h2 => by simp only [hw, h1, h2, if_false])
        simp only [hw, if_true, if_neg hdi] at this
        simp only [hw]
        rw [this, I.sumW]; ring
      · intro j hj
        simp only [hw, ha, hk]
        by_cases e1 : j = i
        · simp [e1]
        · by_cases e2 : j = d
          · subst e2; simp only [e1, if_false, if_true]; exact Or.inl hsd
          · simp only [e1, e2, if_false]; exact I.settled j hj
      · intro j hj hjn
        simp only [hw]
        by_cases e1 : j = i
        · simp [e1]
        · have e2 : j ≠ d := by simp at hj; omega
          simp only [e1, e2, if_false]
          by_cases hjd : j < st.donor
          · exact I.ptr j hjd hjn
          · exact hd4 j (by omega) (by simpa using hj)
      · -- the distribution is unchanged
        intro k hk'
        have := rs_update2 n
          (contrib ⟨(st.weights.set d (st.weights.getD d 0 - (T - st.weights.getD i 0))).set i T,
            st.alternates.set i d, st.keep.set i (st.weights.getD i 0), d⟩ k)
          (contrib st k) i d hi hd2 (Ne.symm hdi)
          (fun j _ h1 h2 => by simp only [contrib, hw, ha, hk, h1, h2, if_false])
        rw [this, I.dist k hk']
        simp only [contrib, hw, ha, hk, if_true, if_neg hdi, hsi.1, hsi.2, hsd.1, hsd.2]
        by_cases e1 : i = k <;> by_cases e2 : d = k <;> simp [e1, e2] <;> ring
      · intro j hj
        simp only [hw]
        by_cases e1 : j = i
        · simp [e1, hT]
        · by_cases e2 : j = d
          · subst e2; simp only [e1, if_false, if_true]
            have := I.nonneg i hi; omega
          · simp only [e1, e2, if_false]; exact I.nonneg j hj
      · intro j hj
        simp only [hk]
        by_cases e1 : j = i
        · simp only [e1, if_true]; have := I.nonneg i hi; omega
        · simp only [e1, if_false]; exact I.keepB j hj
      · intro j hj
        simp only [ha]
        by_cases e1 : j = i
        · simp [e1, hd2]
        · simp only [e1, if_false]; exact I.altB j hj
      · intro j hj hjn
        simp only [hw]
        by_cases e1 : j = i
        · simp [e1]
        · by_cases e2 : j = d
          · exact Or.inr (show j ≤ d by omega)
          · simp only [e1, e2, if_false]
            rcases I.seen j (by omega) hjn with h | h
            · exact Or.inl h
            · exact Or.inr (show j ≤ d by omega)
    · intro hv hP j hj
      simp only [hw]
      have hid : i < d := by
        rcases I.seen i (by omega) hi with h | h
        · omega
        · omega
      by_cases e1 : j = i
      · simp [e1]
      · have e2 : j ≠ d := by omega
        simp only [e1, e2, if_false]; exact hP j (by omega)


theorem pass1_inv (n : Nat) (T : Int) (w0 : List Int) (hT : 0 ≤ T) (st : RState) (I : Inv n T w0 0 st) :
    ∀ m ≤ n, ∃ st', (range m).foldlM (rouletteStep T) st = some st' ∧ Inv n T w0 m st' := by
  intro m
  induction m with
  | zero => intro _; exact ⟨st, rfl, I⟩
  | succ m ih =>
    intro hm
    obtain ⟨st1, h1, I1⟩ := ih (by omega)
    obtain ⟨st2, h2, I2, _⟩ := step_inv n T w0 m st1 m (by omega) hT (Nat.le_refl _) I1
    refine ⟨st2, ?_, ?_⟩
    · rw [range_succ, foldlM_append, h1]; simpa using h2
    · have e : max m (m + 1) = m + 1 := by omega
      rw [e] at I2; exact I2

theorem pass2_inv (n : Nat) (T : Int) (w0 : List Int) (hT : 0 ≤ T) (st : RState) (I : Inv n T w0 n st) :
    ∀ m ≤ n, ∃ st', (range m).foldlM (rouletteStep T) st = some st' ∧ Inv n T w0 n st' ∧
      ∀ j < m, T ≤ st'.weights.getD j 0 := by
  intro m
  induction m with
  | zero => intro _; exact ⟨st, rfl, I, fun j hj => by omega⟩
  | succ m ih =>
    intro hm
    obtain ⟨st1, h1, I1, P1⟩ := ih (by omega)
    obtain ⟨st2, h2, I2, P2⟩ := step_inv n T w0 n st1 m (by omega) hT (by omega) I1
    refine ⟨st2, ?_, ?_, P2 rfl P1⟩
    · rw [range_succ, foldlM_append, h1]; simpa using h2
    · have e : max n (m + 1) = n := by omega
      rw [e] at I2; exact I2

theorem isum_eq_sum (l : List Int) : Spec.C19.isum l = l.sum := by
  unfold Spec.C19.isum
  have : ∀ (l : List Int) (a : Int), l.foldl (· + ·) a = a + l.sum := by
    intro l
    induction l with
    | nil => intro a; simp
    | cons x r ih => intro a; rw [foldl_cons, ih, sum_cons]; ring
  rw [this]; simp

theorem sum_eq_rs (l : List Int) : l.sum = rs l.length (fun i => l.getD i 0) := by
  have : (range l.length).map (fun i => l.getD i 0) = l := by
    apply ext_getElem
    · simp
    · intro i h1 h2; simp [getD_eq_getElem?_getD, getElem?_eq_getElem h2]
  unfold rs; rw [this]

/-- `_preprocess_for_efficient_roulette_selection` on non-negative weights whose sum is a multiple of
their number: the donor search never runs past the end, and the table satisfies the Spec -/
theorem roulette_ok (ws : List Int) (hne : ws ≠ []) (hpos : ∀ w ∈ ws, 0 ≤ w)
    (hmul : Spec.C19.isum ws = (ws.length : Int) * (Spec.C19.isum ws / (ws.length : Int))) :
    ∃ alt keep, roulette ws = .ok (alt, keep) ∧ Spec.C19.aliasOk ws alt keep = true := by
  have hn : ws.length ≠ 0 := fun e => hne (length_eq_zero_iff.mp e)
  have hfold : ws.foldl (· + ·) 0 = Spec.C19.isum ws := rfl
  obtain ⟨T, hTdef⟩ : ∃ T, T = Spec.C19.isum ws / (ws.length : Int) := ⟨_, rfl⟩
  have hsum : rs ws.length (fun i => ws.getD i 0) = ws.length * T := by
    rw [← sum_eq_rs, ← isum_eq_sum, hTdef]; exact hmul
  have hnn : ∀ i < ws.length, 0 ≤ ws.getD i 0 := by
    intro i hi
    rw [getD_eq_getElem?_getD, getElem?_eq_getElem hi]; exact hpos _ (getElem_mem hi)
  have hT : 0 ≤ T := by
    by_contra hneg
    have h0 : rs ws.length (fun i => ws.getD i 0) ≥ 0 := by
      have := rs_le ws.length (fun i => -(ws.getD i 0)) 0 (fun j hj => by have := hnn j hj; omega)
      have hneg' : rs ws.length (fun i => -(ws.getD i 0)) = -(rs ws.length (fun i => ws.getD i 0)) := by
        generalize ws.length = n
        induction n with
        | zero => rfl
        | succ m ih => rw [rs_succ, rs_succ, ih]; ring
      rw [hneg'] at this; omega
    have hlen : (0 : Int) < ws.length := by omega
    rw [hsum] at h0
    nlinarith
  -- initial state
  have I0 : Inv ws.length T ws 0 ⟨ws, range ws.length, replicate ws.length 0, 0⟩ := by
    refine ⟨rfl, by simp, by simp, hsum, ?_, ?_, ?_, hnn, ?_, ?_, ?_⟩
    · intro i hi; left; simp [getD_eq_getElem?_getD, hi]
    · intro j hj; simp at hj
    · intro k hk
      have : ∀ i < ws.length, contrib ⟨ws, range ws.length, replicate ws.length 0, 0⟩ k i =
          if i = k then ws.getD i 0 else 0 := by
        intro i hi
        simp only [contrib, getD_eq_getElem?_getD, getElem?_range hi, getElem?_replicate, hi, if_true,
          Option.getD_some]
        by_cases e : i = k <;> simp [e]
      rw [rs_congr _ _ _ this, rs_single _ _ hk]
    · intro i hi; simp [getD_eq_getElem?_getD, hi, hT]
    · intro i hi; simp [getD_eq_getElem?_getD, hi]
    · intro j hj; omega
  obtain ⟨st1, h1, I1⟩ := pass1_inv ws.length T ws hT _ I0 ws.length (Nat.le_refl _)
  obtain ⟨st2, h2, I2, P2⟩ := pass2_inv ws.length T ws hT st1 I1 ws.length (Nat.le_refl _)
  have hallT : ∀ j < ws.length, st2.weights.getD j 0 = T := rs_all_eq _ _ T P2 I2.sumW
  refine ⟨st2.alternates, st2.keep, ?_, ?_⟩
  · unfold roulette
    simp only [hn, if_false, hfold, ← hTdef]
    have hmul' : ¬ Spec.C19.isum ws ≠ (ws.length : Int) * T := by rw [hTdef]; exact not_not.mpr hmul
    simp only [hmul', if_false, roulettePass, h1, Option.bind_some, h2]
  · simp only [Spec.C19.aliasOk, ← hTdef, Bool.and_eq_true, beq_iff_eq, all_eq_true, decide_eq_true_eq,
      mem_range]
    refine ⟨⟨⟨⟨I2.la, I2.lk⟩, ?_⟩, ?_⟩, ?_⟩
    · intro a ha
      obtain ⟨i, hi, rfl⟩ := getElem_of_mem ha
      have := I2.altB i (by rw [← I2.la]; exact hi)
      simpa [getD_eq_getElem?_getD, hi] using this
    · intro a ha
      obtain ⟨i, hi, rfl⟩ := getElem_of_mem ha
      have := I2.keepB i (by rw [← I2.lk]; exact hi)
      simpa [getD_eq_getElem?_getD, hi] using this
    · intro k hk
      rw [Spec.C19.twoStageWeight, isum_eq_sum, I2.la]
      have := I2.dist k hk
      rw [← this]
      apply rs_congr
      intro i hi
      simp only [contrib, hallT i hi]

end OFV.Proofs.C19
