/- C09: every constructor of binary_codes.py yields a well-shaped code (`Shaped`: encoder n_qubits x n_modes,
one decoder component per mode, decoder variables below n_qubits). -/
import OFV.Proofs.C09Struct

namespace OFV.C09
open OFV.Model OFV.Model.C09 OFV.Spec.C09

theorem rows_of_getD (M : Mat) (N W : Nat) (hl : M.length = N) (h : ∀ r, r < N → (M.getD r []).length = W) :
    ∀ row ∈ M, row.length = W := by
  intro row hrow
  obtain ⟨r, hr, rfl⟩ := List.getElem_of_mem hrow
  have := h r (by rw [← hl]; exact hr)
  rwa [List.getD_eq_getElem?_getD, List.getElem?_eq_getElem hr] at this

theorem jw_shaped (n : Nat) (c : Code) (h : jordanWignerCode n = .ok c) : Shaped c := by
  unfold jordanWignerCode at h
  obtain ⟨ps, hps, _, _⟩ := linearizeDecoder_sound (identity n)
  simp only [hps, bind, Except.bind] at h
  exact shaped_mk' _ _ _ _ _ h (by simp [identity]) (by
    intro row hrow
    simp only [identity, List.mem_map] at hrow
    obtain ⟨i, _, rfl⟩ := hrow
    simp)

theorem parity_shaped (n : Nat) (c : Code) (h : parityCode n = .ok c) : Shaped c := by
  unfold parityCode at h
  obtain ⟨ps, hps, _, _⟩ := linearizeDecoder_sound (parityDec n)
  simp only [hps, bind, Except.bind] at h
  exact shaped_mk' _ _ _ _ _ h (by simp [tril]) (by
    intro row hrow
    simp only [tril, List.mem_map] at hrow
    obtain ⟨i, _, rfl⟩ := hrow
    simp)

theorem checksum_shaped (n : Nat) (odd : Bool) (c : Code) (h : checksumCode n odd = .ok c) : Shaped c := by
  unfold checksumCode at h
  split at h
  · cases h
  · cases hd : decoderChecksum n odd with
    | error e => simp [hd, bind, Except.bind] at h
    | ok ps =>
      simp only [hd, bind, Except.bind] at h
      exact shaped_mk' _ _ _ _ _ h (by simp [encoderChecksum]) (by
        intro row hrow
        simp only [encoderChecksum, List.mem_map] at hrow
        obtain ⟨i, _, rfl⟩ := hrow
        simp)

theorem w1ba_shaped (e : Nat) (c : Code) (h : weightOneBinaryAddressingCode e = .ok c) : Shaped c := by
  unfold weightOneBinaryAddressingCode at h
  cases hd : (List.range (2 ^ e)).mapM (binaryAddress e) with
  | error x => simp [hd, bind, Except.bind] at h
  | ok dec =>
    simp only [hd, bind, Except.bind] at h
    exact shaped_mk' _ _ _ _ _ h (by simp [transpose]) (by
      intro row hrow
      simp only [transpose, List.mem_map] at hrow
      obtain ⟨i, _, rfl⟩ := hrow
      simp)

theorem interleaved_shaped (hh : Nat) (c : Code) (h : interleavedCode (2 * hh) = .ok c) : Shaped c := by
  unfold interleavedCode at h
  split at h
  · cases h
  · split at h
    · cases h
    · obtain ⟨ps, hps, _, _⟩ := linearizeDecoder_sound (transpose (2 * hh) (interleavedMat (2 * hh)))
      simp only [hps, bind, Except.bind] at h
      obtain ⟨s1, s2⟩ := interK_shape hh hh
      exact shaped_mk' _ _ _ _ _ h (by rw [interleavedMat_eq]; exact s1)
        (by rw [interleavedMat_eq]; exact rows_of_getD _ _ _ s1 s2)

theorem bk_shaped (n : Nat) (c : Code) (h : bravyiKitaevCode n = .ok c) : Shaped c := by
  have hinv := bkInv_iter (ceilLog2 n)
  have hnN : n ≤ 2 ^ (ceilLog2 n + 1) := by
    have := ceilLog2_spec n
    rw [Nat.pow_succ]; omega
  have hE : encoderBk n = slice (encIter (ceilLog2 n)) n := rfl
  unfold bravyiKitaevCode at h
  obtain ⟨ps, hps, _, _⟩ := linearizeDecoder_sound (decoderBk n)
  simp only [hps, bind, Except.bind] at h
  have hlen : (encoderBk n).length = n := by rw [hE]; exact length_slice _ _ (by rw [hinv.sqE.1]; exact hnN)
  refine shaped_mk' _ _ _ _ _ h hlen (rows_of_getD _ n n hlen ?_)
  intro r hr
  rw [hE, getD_slice _ _ _ hr (by rw [hinv.sqE.1]; exact hnN), List.length_take, hinv.sqE.2 r (by omega)]
  omega

theorem literal_shaped (enc : Mat) (toks : List (List (List (Nat × Nat)))) (c : Code)
    (h : literalCode enc toks = .ok c) (hrows : ∀ row ∈ enc, row.length = (enc.headD []).length) : Shaped c := by
  unfold literalCode at h
  cases hd : toks.mapM (fun comp => ofString (comp.map (·.map tokOf))) with
  | error e => simp [hd, bind, Except.bind] at h
  | ok dec =>
    simp only [hd, bind, Except.bind] at h
    exact shaped_mk' _ _ _ _ _ h rfl hrows

theorem w1seg_shaped (c : Code) (h : weightOneSegmentCode = .ok c) : Shaped c :=
  literal_shaped _ _ c h (by decide)

theorem w2seg_shaped (c : Code) (h : weightTwoSegmentCode = .ok c) : Shaped c :=
  literal_shaped _ _ c h (by decide)

theorem imulInt_shaped (a : Code) (ha : Shaped a) (m : Nat) (c : Code)
    (h : a.imulInt ((m + 1 : Nat) : Int) = .ok c) : Shaped c := by
  induction m generalizing c with
  | zero =>
    rw [imulInt_eq a 0] at h
    simp only [repeatDecoder, List.range_zero, List.foldlM_nil, bind, Except.bind, pure, Except.pure,
      Except.ok.injEq] at h
    subst h
    have henc : (kronEye (0 + 1) a.enc a.nm).1 = a.enc := by
      simp [kronEye, blockDiag, zeros]
    refine ⟨by simp [henc, ha.rows], by intro row hrow; simp [henc] at hrow ⊢; exact ha.cols row hrow,
      by simp [ha.ndec], ?_⟩
    intro e he k hk
    have := ha.qub e he k hk
    show k < a.nq * 1
    omega
  | succ m ih =>
    obtain ⟨c', hc', hadd⟩ := imulInt_succ a m c h
    exact append_shaped' c' a c hadd (ih c' hc') ha

/-- **every code expression the driver builds** (constructors combined with `+`, integer `*` and concatenation) is
well shaped and has the decoder structure `binary_code_transform` needs -/
theorem cexpr_shaped_struct (e : CExpr) : ∀ c, e.build = .ok c → Shaped c ∧ Struct c := by
  induction e with
  | jw n => intro c h; exact ⟨jw_shaped n c h, (jw_structure n c h).2.2⟩
  | bk n => intro c h; exact ⟨bk_shaped n c h, (bk_structure n c h).2⟩
  | parity n => intro c h; exact ⟨parity_shaped n c h, (parity_structure n c h).2⟩
  | checksum n odd => intro c h; exact ⟨checksum_shaped n odd c h, (checksum_structure n odd c h).2⟩
  | w1ba e => intro c h; exact ⟨w1ba_shaped e c h, w1ba_struct e c h⟩
  | w1seg => intro c h; exact ⟨w1seg_shaped c h, w1seg_struct c h⟩
  | w2seg => intro c h; exact ⟨w2seg_shaped c h, w2seg_struct c h⟩
  | interleaved n =>
    intro c h
    have h' : interleavedCode n = .ok c := h
    have hev : n = 2 * (n / 2) := by
      unfold interleavedCode at h'
      split at h'
      · cases h'
      · omega
    refine ⟨?_, (interleaved_structure n c h').2⟩
    rw [hev] at h'
    exact interleaved_shaped (n / 2) c h'
  | add a b iha ihb =>
    intro c h
    simp only [CExpr.build, bind, Except.bind] at h
    cases ha : a.build with
    | error x => simp [ha] at h
    | ok ca =>
      cases hb : b.build with
      | error x => simp [ha, hb] at h
      | ok cb =>
        simp only [ha, hb] at h
        obtain ⟨sa, ta⟩ := iha ca ha
        obtain ⟨sb, tb⟩ := ihb cb hb
        exact ⟨append_shaped' ca cb c h sa sb, iadd_struct ca cb c h ta tb⟩
  | mulInt a k iha =>
    intro c h
    simp only [CExpr.build, bind, Except.bind] at h
    cases ha : a.build with
    | error x => simp [ha] at h
    | ok ca =>
      simp only [ha] at h
      obtain ⟨sa, ta⟩ := iha ca ha
      have hk : 1 ≤ k := by
        unfold Code.imulInt at h
        by_cases hk : k < 1
        · simp [hk] at h
        · omega
      obtain ⟨m, rfl⟩ : ∃ m : Nat, k = ((m + 1 : Nat) : Int) := ⟨(k - 1).toNat, by omega⟩
      exact ⟨imulInt_shaped ca sa m c h, imulInt_struct ca m c h ta⟩
  | concat a b iha ihb =>
    intro c h
    simp only [CExpr.build, bind, Except.bind] at h
    cases ha : a.build with
    | error x => simp [ha] at h
    | ok ca =>
      cases hb : b.build with
      | error x => simp [ha, hb] at h
      | ok cb =>
        simp only [ha, hb] at h
        obtain ⟨sa, ta⟩ := iha ca ha
        obtain ⟨sb, _⟩ := ihb cb hb
        exact ⟨concat_shaped' ca cb c h sa sb, imulCode_struct ca cb c h ta⟩

end OFV.C09
