/-
`reverse_jordan_wigner` returns a FermionOperator of creation / annihilation factors, hence
`jordan_wigner(reverse_jordan_wigner(Q))` acts like `Q`.
-/
import OFV.Proofs.C04Rev4
import OFV.Proofs.C04JFinal

set_option linter.unusedSimpArgs false
set_option linter.unusedVariables false

namespace OFV
namespace Jel
open Model Model.C04 Spec Sem

theorem accum_keys {P : List (Nat × Nat) → Prop} {d : Model.Op} {k : List (Nat × Nat)} (v : GQ) (hd : KeysP P d)
    (hk : P k) : KeysP P (accum d k v) := by
  unfold accum; split <;> exact set_keys _ hd hk

theorem ladder_append {a b : List (Nat × Nat)} (ha : Ladder a) (hb : Ladder b) : Ladder (a ++ b) := by
  intro f hf
  rcases List.mem_append.1 hf with h | h
  · exact ha f h
  · exact hb f h

theorem mulOpF_inner_keys (lt : List (Nat × Nat)) (lc : GQ) (b acc : Model.Op) (hl : Ladder lt) (hb : KeysP Ladder b)
    (hacc : KeysP Ladder acc) :
    KeysP Ladder (b.foldl (fun acc2 (r : List (Nat × Nat) × GQ) =>
      accum acc2 (simplify .fermion (lt ++ r.1)).2 (lc * r.2 * (simplify .fermion (lt ++ r.1)).1)) acc) := by
  induction b generalizing acc with
  | nil => exact hacc
  | cons r b ih =>
    simp only [List.foldl_cons]
    apply ih _ (fun tc h => hb tc (List.mem_cons_of_mem _ h))
    apply accum_keys _ hacc
    simp only [simplify]
    exact ladder_append hl (hb r List.mem_cons_self)

theorem mulOpF_keys {a b : Model.Op} (ha : KeysP Ladder a) (hb : KeysP Ladder b) : KeysP Ladder (mulOp .fermion a b) := by
  unfold mulOp
  suffices h : ∀ acc, KeysP Ladder acc → KeysP Ladder (a.foldl (fun acc (l : List (Nat × Nat) × GQ) =>
      b.foldl (fun acc2 (r : List (Nat × Nat) × GQ) =>
        accum acc2 (simplify .fermion (l.1 ++ r.1)).2 (l.2 * r.2 * (simplify .fermion (l.1 ++ r.1)).1)) acc) acc) from
    h [] (fun tc h => by simp at h)
  induction a with
  | nil => intro acc h; exact h
  | cons l a ih =>
    intro acc hacc
    simp only [List.foldl_cons]
    apply ih (fun tc h => ha tc (List.mem_cons_of_mem _ h))
    exact mulOpF_inner_keys l.1 l.2 b acc (ha l List.mem_cons_self) hb hacc

theorem smul_keys {P : List (Nat × Nat) → Prop} (c : GQ) {a : Model.Op} (ha : KeysP P a) : KeysP P (smul c a) := by
  intro tc h
  simp only [smul, List.mem_map] at h
  obtain ⟨tc', h', rfl⟩ := h
  exact ha tc' h'

theorem mkF_keys (t : List (Nat × Nat)) (c : GQ) (ht : Ladder t) : KeysP Ladder (mk .fermion t c) := by
  intro tc h
  simp only [mk, simplify, List.mem_singleton] at h
  subst h; exact ht

theorem ladder_nil : Ladder [] := fun f h => by simp at h
theorem ladder_one (j a : Nat) (ha : a ≤ 1) : Ladder [(j, a)] := by
  intro f h; simp at h; subst h; exact ha

theorem revLoop_keys (tol : Rat) : ∀ (fuel : Nat) (pauli : Nat × Nat) (working acc : Model.Op),
    KeysP Ladder acc → KeysP Ladder (revLoop tol fuel pauli working acc) := by
  intro fuel
  induction fuel with
  | zero => intro pauli working acc h; exact h
  | succ fuel ih =>
    intro pauli working acc hacc
    have hZ : KeysP Ladder (iadd tol (mk .fermion [] 1) (mk .fermion [(pauli.1, 1), (pauli.1, 0)] (rl (-2)))) := by
      refine iadd_keys (P := Ladder) tol (mkF_keys _ _ ladder_nil) ?_
      apply mkF_keys
      intro f h; simp at h; rcases h with rfl | rfl <;> simp
    have hXY : KeysP Ladder (iadd tol
        (if pauli.2 == 2 then smul GQ.I (mk .fermion [(pauli.1, 1)] 1) else mk .fermion [(pauli.1, 1)] 1)
        (if pauli.2 == 2 then smul (-GQ.I) (mk .fermion [(pauli.1, 0)] 1) else mk .fermion [(pauli.1, 0)] 1)) := by
      refine iadd_keys (P := Ladder) tol ?_ ?_
      · split
        · exact smul_keys _ (mkF_keys _ _ (ladder_one _ _ (by omega)))
        · exact mkF_keys _ _ (ladder_one _ _ (by omega))
      · split
        · exact smul_keys _ (mkF_keys _ _ (ladder_one _ _ (by omega)))
        · exact mkF_keys _ _ (ladder_one _ _ (by omega))
    unfold revLoop
    simp only
    have hP : KeysP Ladder (if (pauli.2 == 3) = true then
          (iadd tol (mk .fermion [] 1) (mk .fermion [(pauli.1, 1), (pauli.1, 0)] (rl (-2))), working)
        else
          match (List.range pauli.1).reverse.foldl (fun w j' => mulOp .qubit (mk .qubit [(j', 3)] 1) w) working with
          | (key, coeff) :: rest =>
            (smul coeff (iadd tol
              (if pauli.2 == 2 then smul GQ.I (mk .fermion [(pauli.1, 1)] 1) else mk .fermion [(pauli.1, 1)] 1)
              (if pauli.2 == 2 then smul (-GQ.I) (mk .fermion [(pauli.1, 0)] 1) else mk .fermion [(pauli.1, 0)] 1)),
              (key, 1) :: rest)
          | [] =>
            (iadd tol
              (if pauli.2 == 2 then smul GQ.I (mk .fermion [(pauli.1, 1)] 1) else mk .fermion [(pauli.1, 1)] 1)
              (if pauli.2 == 2 then smul (-GQ.I) (mk .fermion [(pauli.1, 0)] 1) else mk .fermion [(pauli.1, 0)] 1),
              (List.range pauli.1).reverse.foldl (fun w j' => mulOp .qubit (mk .qubit [(j', 3)] 1) w) working)).1 := by
      split
      · exact hZ
      · split
        · exact smul_keys _ hXY
        · exact hXY
    generalize (if (pauli.2 == 3) = true then
          (iadd tol (mk .fermion [] 1) (mk .fermion [(pauli.1, 1), (pauli.1, 0)] (rl (-2))), working)
        else
          match (List.range pauli.1).reverse.foldl (fun w j' => mulOp .qubit (mk .qubit [(j', 3)] 1) w) working with
          | (key, coeff) :: rest =>
            (smul coeff (iadd tol
              (if pauli.2 == 2 then smul GQ.I (mk .fermion [(pauli.1, 1)] 1) else mk .fermion [(pauli.1, 1)] 1)
              (if pauli.2 == 2 then smul (-GQ.I) (mk .fermion [(pauli.1, 0)] 1) else mk .fermion [(pauli.1, 0)] 1)),
              (key, 1) :: rest)
          | [] =>
            (iadd tol
              (if pauli.2 == 2 then smul GQ.I (mk .fermion [(pauli.1, 1)] 1) else mk .fermion [(pauli.1, 1)] 1)
              (if pauli.2 == 2 then smul (-GQ.I) (mk .fermion [(pauli.1, 0)] 1) else mk .fermion [(pauli.1, 0)] 1),
              (List.range pauli.1).reverse.foldl (fun w j' => mulOp .qubit (mk .qubit [(j', 3)] 1) w) working)) = PP at hP ⊢
    have hacc' := mulOpF_keys hacc hP
    split
    · exact ih _ _ _ hacc'
    · exact hacc'

theorem revTerm_keys (tol : Rat) (term : List (Nat × Nat)) : KeysP Ladder (revTerm tol term) := by
  unfold revTerm
  split
  · exact mkF_keys _ _ ladder_nil
  · exact revLoop_keys tol _ _ _ _ (mkF_keys _ _ ladder_nil)

theorem reverseJW_keys (tol : Rat) (Q : Model.Op) : KeysP Ladder (reverseJW tol Q) := by
  unfold reverseJW
  have : ∀ (L : List (List (Nat × Nat) × GQ)) (acc : Model.Op), KeysP Ladder acc →
      KeysP Ladder (L.foldl (fun res (tc : List (Nat × Nat) × GQ) => iadd tol res (smul tc.2 (revTerm tol tc.1))) acc) := by
    intro L
    induction L with
    | nil => intro acc h; exact h
    | cons tc L ih =>
      intro acc h
      simp only [List.foldl_cons]
      exact ih _ (iadd_keys tol h (smul_keys _ (revTerm_keys tol tc.1)))
  exact this Q [] (fun tc h => by simp at h)

end Jel
end OFV
