/-
C03 — bridge from the Weyl instance (occupation functions) to the executable polynomial Spec
(`Spec.actB` / `Spec.actQuad` on exponent vectors, `Spec.applyOp`, `GV.coeff`).
-/
import OFV.Proofs.C03Weyl
import OFV.Proofs.C03Valid
import OFV.Proofs.C01Sort

namespace OFV
namespace Proofs
namespace C03
open Model Model.C03 Spec

/-- canonical exponent vectors (no trailing zero) -/
def Trimmed (e : Mono) : Prop := trimZeros e = e

theorem trimmed_trimZeros (e : Mono) : Trimmed (trimZeros e) := by
  unfold Trimmed
  apply trimZeros_ext
  intro i
  rw [expGet_trimZeros]

theorem trimmed_expSet (e : Mono) (j v : Nat) : Trimmed (expSet e j v) := by
  unfold expSet; exact trimmed_trimZeros _

theorem trimmed_ext (a b : Mono) (ha : Trimmed a) (hb : Trimmed b) (h : expGet a = expGet b) : a = b := by
  rw [← ha, ← hb]
  exact trimZeros_ext a b (fun i => congrFun h i)

theorem expGet_expSet_update (e : Mono) (j v : Nat) :
    expGet (expSet e j v) = Function.update (expGet e) j v := by
  funext i
  rw [expGet_expSet]
  by_cases h : i = j
  · subst h; simp
  · simp [h, Function.update_of_ne h]

/-- the occupation-function action follows the exponent-vector action -/
theorem actFun_actL (g : Rule) (f : Factor) (e : Mono) :
    actFun g f (expGet e) = (actL g f.1 f.2 e).map (fun p => (p.1, expGet p.2)) := by
  unfold actFun actL
  cases g f.2 (expGet e f.1) with
  | none => rfl
  | some p => obtain ⟨c, v⟩ := p; simp [expGet_expSet_update]

theorem foldW_actTermWith (g : Rule) (t : Term) (e : Mono) :
    foldW g t (expGet e) = (actTermWith (actL g) t e).map (fun p => (p.1, expGet p.2)) := by
  induction t with
  | nil => simp [foldW, actTermWith]
  | cons f r ih =>
    rw [foldW_cons, ih]
    have : actTermWith (actL g) (f :: r) e =
        match actTermWith (actL g) r e with
        | none => none
        | some (c, e') => match actL g f.1 f.2 e' with
          | none => none
          | some (c', e'') => some (c' * c, e'') := rfl
    rw [this]
    cases actTermWith (actL g) r e with
    | none => rfl
    | some p =>
      obtain ⟨c, e'⟩ := p
      simp only [Option.map_some]
      rw [actFun_actL]
      cases actL g f.1 f.2 e' with
      | none => rfl
      | some q => rfl

/-- results of a term on a canonical exponent vector are canonical -/
theorem actTermWith_trimmed (g : Rule) (t : Term) (e : Mono) (he : Trimmed e) (c : GQ) (e' : Mono)
    (h : actTermWith (actL g) t e = some (c, e')) : Trimmed e' := by
  cases t with
  | nil =>
    simp [actTermWith] at h
    rw [← h.2]; exact he
  | cons f r =>
    have : actTermWith (actL g) (f :: r) e =
        match actTermWith (actL g) r e with
        | none => none
        | some (c, e') => match actL g f.1 f.2 e' with
          | none => none
          | some (c', e'') => some (c' * c, e'') := rfl
    rw [this] at h
    cases h1 : actTermWith (actL g) r e with
    | none => rw [h1] at h; cases h
    | some p =>
      obtain ⟨c1, e1⟩ := p
      rw [h1] at h
      simp only [actL] at h
      cases h2 : g f.2 (expGet e1 f.1) with
      | none => rw [h2] at h; cases h
      | some q =>
        obtain ⟨c2, v⟩ := q
        rw [h2] at h
        simp only [Option.some.injEq, Prod.mk.injEq] at h
        rw [← h.2]
        exact trimmed_expSet _ _ _

/-! ### executable matrix elements -/

/-- contribution of one dictionary entry to the coefficient of `out` in `A · x^s` -/
def contribW (act : Nat → Nat → Mono → Option (GQ × Mono)) (s out : Mono) (e : Term × GQ) : GQ :=
  match actTermWith act e.1 s with
  | none => 0
  | some (k, s') => if s' = out then e.2 * k else 0

theorem gv_coeff_addEntry (v : GV) (s t : St) (c : GQ) :
    GV.coeff (GV.addEntry v s c) t = GV.coeff v t + (if s = t then c else 0) := by
  induction v with
  | nil =>
    by_cases h : s = t <;> simp [GV.addEntry, GV.coeff, Dict.getD, Dict.get?, h]
  | cons e r ih =>
    obtain ⟨s', c'⟩ := e
    unfold GV.coeff at ih ⊢
    by_cases h1 : s' = s
    · subst h1
      by_cases h2 : s' = t <;> simp [GV.addEntry, Dict.getD, Dict.get?, h2]
    · by_cases h2 : s' = t
      · subst h2
        have h3 : ¬ s = s' := fun e => h1 e.symm
        simp [GV.addEntry, Dict.getD, Dict.get?, h1, h3]
      · simp only [GV.addEntry, h1, if_false, Dict.getD, Dict.get?, h2] at ih ⊢
        exact ih

theorem applyOp_coeff (alg : Alg) (act : Nat → Nat → Mono → Option (GQ × Mono))
    (hact : ∀ t s, actTerm alg t s = actTermWith act t s) (A : Op) (s out : Mono) :
    GV.coeff (applyOp alg A s) out = (A.map (contribW act s out)).sum := by
  unfold applyOp
  have : ∀ (acc : GV), GV.coeff (A.foldl (fun acc (x : List (Nat × Nat) × GQ) =>
        match actTerm alg x.1 s with
        | none => acc
        | some (k, s') => GV.addEntry acc s' (x.2 * k)) acc) out =
      GV.coeff acc out + (A.map (contribW act s out)).sum := by
    induction A with
    | nil => intro acc; simp
    | cons e r ih =>
      intro acc
      rw [List.foldl_cons, ih, List.map_cons, List.sum_cons, ← add_assoc]
      congr 1
      unfold contribW
      rw [hact]
      cases h : actTermWith act e.1 s with
      | none => simp
      | some p =>
        obtain ⟨k, s'⟩ := p
        simp only [gv_coeff_addEntry]
  have h0 := this []
  simp only [GV.coeff, Dict.getD, Dict.get?, Option.getD_none, zero_add] at h0 ⊢
  exact h0

/-- the lifted denotation has the executable coefficients -/
theorem weyl_evalOp_apply (g : Rule) (A : Op) (s out : Mono) (hs : Trimmed s) (ho : Trimmed out) :
    ((weylInterp g).evalOp A (Finsupp.single (expGet s) 1)) (expGet out) =
      (A.map (contribW (actL g) s out)).sum := by
  induction A with
  | nil => simp
  | cons e r ih =>
    rw [Interp.evalOp_cons, LinearMap.add_apply, Finsupp.add_apply, ih, List.map_cons, List.sum_cons]
    congr 1
    show ((e.2 • (1 : Module.End GQ W)) * (weylInterp g).evalT e.1) (Finsupp.single (expGet s) 1) (expGet out) = _
    rw [smul_mul_assoc, one_mul, LinearMap.smul_apply]
    have hev : (weylInterp g).evalT e.1 (Finsupp.single (expGet s) 1) = imgW g e.1 (expGet s) := by
      generalize e.1 = t
      induction t with
      | nil => simp [Interp.evalT, imgW, foldW]
      | cons f r ih2 =>
        rw [Interp.evalT_cons, Module.End.mul_apply, ih2]
        exact gW_imgW g f r _
    rw [hev]
    unfold contribW imgW
    rw [foldW_actTermWith]
    cases h : actTermWith (actL g) e.1 s with
    | none => simp
    | some p =>
      obtain ⟨k, s'⟩ := p
      have ht : Trimmed s' := actTermWith_trimmed g e.1 s hs k s' h
      simp only [Option.map_some, Finsupp.smul_apply, smul_eq_mul]
      by_cases h2 : s' = out
      · subst h2; simp
      · have : expGet s' ≠ expGet out := fun e => h2 (trimmed_ext s' out ht ho e)
        simp [h2, Finsupp.single_apply, this]

/-! ### the Spec rules are the rules of the instance -/

theorem actQuad_eq (hbar : GQ) : actQuad hbar = actL (gQn hbar) := by
  funext j a e
  rw [actQuad_local]
  unfold actL gQuad gQn
  by_cases ha : a = 0 <;> simp [ha]

theorem actB_eq_valid (j a : Nat) (ha : a < 2) (e : Mono) : actB j a e = actL gBn j a e := by
  rw [actB_local]
  unfold actL gB gBn
  have : a = 0 ∨ a = 1 := by omega
  rcases this with rfl | rfl <;> simp

theorem actTermWith_actB_valid (t : Term) (hv : ∀ f ∈ t, f.2 < 2) (e : Mono) :
    actTermWith actB t e = actTermWith (actL gBn) t e := by
  induction t with
  | nil => rfl
  | cons f r ih =>
    have hr : ∀ g ∈ r, g.2 < 2 := fun g hg => hv g (List.mem_cons_of_mem _ hg)
    have e1 : ∀ (act : Nat → Nat → Mono → Option (GQ × Mono)), actTermWith act (f :: r) e =
        match actTermWith act r e with
        | none => none
        | some (c, e') => match act f.1 f.2 e' with
          | none => none
          | some (c', e'') => some (c' * c, e'') := fun _ => rfl
    rw [e1, e1, ih hr]
    cases actTermWith (actL gBn) r e with
    | none => rfl
    | some p =>
      obtain ⟨c, e'⟩ := p
      simp only [actB_eq_valid f.1 f.2 (hv f (by simp))]

theorem contribW_actB_valid (A : Op) (hv : ∀ e ∈ A, ∀ f ∈ e.1, f.2 < 2) (s out : Mono) :
    (A.map (contribW actB s out)).sum = (A.map (contribW (actL gBn) s out)).sum := by
  congr 1
  apply List.map_congr_left
  intro e he
  unfold contribW
  rw [actTermWith_actB_valid e.1 (hv e he)]

/-- **bosons, executable Spec**: every coefficient of `normal_ordered(A) · x^s` equals that of
`A · x^s`, for all canonical exponent vectors `s`, `out`. -/
theorem normalOrdered_sound_boson_spec (a : Op) (hv : ∀ e ∈ a, ∀ f ∈ e.1, f.2 < 2) (s out : Mono)
    (hs : Trimmed s) (ho : Trimmed out) :
    GV.coeff (applyOp .boson (normalOrdered 0 .boson a) s) out = GV.coeff (applyOp .boson a s) out := by
  have hv' : ∀ e ∈ normalOrdered 0 .boson a, ∀ f ∈ e.1, f.2 < 2 :=
    normalOrdered_valid 0 .boson (fun f => f.2 < 2)
      (fun t ht f hf => ht f ((sortF_perm t).mem_iff.1 hf)) a hv
  rw [applyOp_coeff .boson actB (fun _ _ => rfl), applyOp_coeff .boson actB (fun _ _ => rfl),
    contribW_actB_valid _ hv', contribW_actB_valid _ hv,
    ← weyl_evalOp_apply gBn _ s out hs ho, ← weyl_evalOp_apply gBn _ s out hs ho,
    normalOrdered_sound (weylInterp gBn) .boson relations_weyl_boson]

/-- **quadratures, executable Spec, every ħ** -/
theorem normalOrdered_sound_quad_spec (hbar : GQ) (a : Op) (s out : Mono)
    (hs : Trimmed s) (ho : Trimmed out) :
    GV.coeff (applyOp (.quad hbar) (normalOrdered 0 (.quad hbar) a) s) out =
      GV.coeff (applyOp (.quad hbar) a s) out := by
  rw [applyOp_coeff (.quad hbar) (actQuad hbar) (fun _ _ => rfl),
    applyOp_coeff (.quad hbar) (actQuad hbar) (fun _ _ => rfl), actQuad_eq,
    ← weyl_evalOp_apply (gQn hbar) _ s out hs ho, ← weyl_evalOp_apply (gQn hbar) _ s out hs ho,
    normalOrdered_sound (weylInterp (gQn hbar)) (.quad hbar) (relations_weyl_quad hbar)]

end C03
end Proofs
end OFV
