/- C19 — `compute_cost` (THC): the per-step Toffoli cost is positive whenever `M ≥ 1` and `beta ≥ 2`; hence the total
is monotone in `lam` and `1/dE` without a side condition on the cost itself. -/
import OFV.Proofs.C19Mono

namespace OFV.Proofs.C19M
open OFV.Model.C19 OFV.Proofs.C19C OFV.Proofs.C19D

theorem one_le_clog2 (q : Nat) (h : 2 ≤ q) : 1 ≤ clog2 q := by
  unfold clog2; split <;> omega

theorem rat_ceil_nonneg (x : Rat) (h : 0 ≤ x) : 0 ≤ x.ceil := by
  rw [ceil_eq]; exact Int.ceil_nonneg h

theorem thcStepCost_pos (n chi beta M br : Nat) (hM : 1 ≤ M) (hb : 2 ≤ beta) : 0 < thcStepCost n chi beta M br := by
  unfold thcStepCost
  simp only
  have key : ∀ E : Int, 4 ≤ E → (0 : Rat) < (E : Rat) + ((M : Rat) + (n : Rat) / 2 - 2) := by
    intro E hE
    have h1 : (4 : Rat) ≤ (E : Rat) := by exact_mod_cast hE
    have h2 : (1 : Rat) ≤ (M : Rat) := by exact_mod_cast hM
    have h3 : (0 : Rat) ≤ (n : Rat) / 2 := by positivity
    linarith
  apply key
  have hc1 := rat_ceil_nonneg ((M : Rat) / ((2 ^ qiK (M + n / 2) : Nat) : Rat)) (by positivity)
  have hc2 := rat_ceil_nonneg ((n : Rat) / 2 / ((2 ^ qiK (M + n / 2) : Nat) : Rat)) (by positivity)
  generalize ((M : Rat) / ((2 ^ qiK (M + n / 2) : Nat) : Rat)).ceil = c1 at hc1 ⊢
  generalize ((n : Rat) / 2 / ((2 ^ qiK (M + n / 2) : Nat) : Rat)).ceil = c2 at hc2 ⊢
  have hnM : (1 : Int) ≤ (clog2 (M + 1) : Int) := by exact_mod_cast one_le_clog2 (M + 1) (by omega)
  generalize (clog2 (M + 1) : Int) = nM at hnM ⊢
  have hsq : (1 : Int) ≤ nM * nM := by nlinarith
  have hbeta : (0 : Int) ≤ 4 * (n : Int) * ((beta : Int) - 2) := by
    have h1 : (0 : Int) ≤ (beta : Int) - 2 := by omega
    have h2 : (0 : Int) ≤ 4 * (n : Int) := by positivity
    exact mul_nonneg h2 h1
  generalize 4 * (n : Int) * ((beta : Int) - 2) = cs3 at hbeta ⊢
  have h4 : (1 : Int) ≤ (M : Int) := by exact_mod_cast hM
  have hm : (0 : Int) ≤ ((2 ^ qiK (M + n / 2) : Nat) : Int) := Int.natCast_nonneg _
  generalize ((2 ^ qiK (M + n / 2) : Nat) : Int) = pw at hm ⊢
  omega

end OFV.Proofs.C19M

namespace OFV.Proofs.C19M
open OFV.Model.C19 OFV.Proofs.C19C OFV.Proofs.C19D

theorem thc_step_pos (n chi beta M br : Nat) (lam dE : ℚ) (c : Costs) (hn : n % 2 = 0) (hM : 1 ≤ M) (hb : 2 ≤ beta)
    (h : thcCost n lam dE chi beta M br = some c) : 0 < c.step := by
  unfold thcCost at h
  cases hi : iters lam dE with
  | none => simp [hi] at h
  | some it =>
    simp only [hi] at h
    injection h with h
    rw [← h]
    simp only
    obtain ⟨z, hz⟩ := thcStepCost_int n chi beta M br hn
    have hpos := thcStepCost_pos n chi beta M br hM hb
    rw [hz] at hpos ⊢
    rw [truncInt_int]
    exact_mod_cast hpos

end OFV.Proofs.C19M
