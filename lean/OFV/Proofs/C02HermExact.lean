/-
C02 — the exact regime of `==` on lattice dictionaries: for coefficients on `(1/D)ℤ[i]` of
magnitude `≤ M` and `tol·D·M ≤ 1`, "close" (the relative / absolute test of
`SymbolicOperator.isclose`) implies "equal".  This discharges the per-input exactness hypothesis
of the `is_hermitian_*_iff_tol` theorems from a magnitude bound.
-/
import OFV.Proofs.C02HermBoson

namespace OFV
namespace Proofs
namespace C02
open Model Model.C02
open Proofs.C03 (Lat lat_add lat_neg lat_small_zero lat_Fn)

theorem lat_tiny_zero (D M : Nat) (hD : 0 < D) (tol : Rat) (ht : 0 < tol)
    (h1 : tol * ((D * M : Nat) : Rat) ≤ 1) (z : GQ) (lz : Lat D z)
    (hz : z.normSq < tol * tol * ((M : Rat) * M)) : z = 0 := by
  apply lat_small_zero D hD (tol * M) (by positivity)
    (by rw [show tol * (M : Rat) * D = tol * ((D * M : Nat) : Rat) by push_cast; ring]; exact h1) z lz
  unfold GQ.isSmall
  rw [decide_eq_true_eq]
  calc z.normSq < tol * tol * ((M : Rat) * M) := hz
    _ = tol * M * (tol * M) := by ring

/-- close ⟹ equal on the lattice (both magnitudes `≤ M`, `tol·D·M ≤ 1`) -/
theorem coefClose_lat_eq (D M : Nat) (hD : 0 < D) (hM : 0 < M) (tol : Rat) (ht : 0 < tol)
    (h1 : tol * ((D * M : Nat) : Rat) ≤ 1) (ox oy : Option GQ)
    (lx : Lat D (ox.getD 0)) (ly : Lat D (oy.getD 0))
    (bx : (ox.getD 0).normSq ≤ (M : Rat) * M) (bY : (oy.getD 0).normSq ≤ (M : Rat) * M)
    (h : Spec.C02.coefClose tol ox oy = true) : ox.getD 0 = oy.getD 0 := by
  have hM1 : (1 : Rat) ≤ M := by exact_mod_cast hM
  have hMM : (1 : Rat) ≤ (M : Rat) * M := by nlinarith
  have htt : 0 < tol * tol := mul_pos ht ht
  cases ox with
  | none =>
    cases oy with
    | none => rfl
    | some y =>
      simp only [Option.getD] at ly ⊢
      simp only [Spec.C02.coefClose] at h
      rw [spec_absLt_iff] at h
      exact (lat_tiny_zero D M hD tol ht h1 y ly (by nlinarith [h.2])).symm
  | some x =>
    cases oy with
    | none =>
      simp only [Option.getD] at lx ⊢
      simp only [Spec.C02.coefClose] at h
      rw [spec_absLt_iff] at h
      exact lat_tiny_zero D M hD tol ht h1 x lx (by nlinarith [h.2])
    | some y =>
      simp only [Option.getD] at lx ly bx bY ⊢
      simp only [Spec.C02.coefClose] at h
      rw [spec_relClose_iff] at h
      have lz : Lat D (x - y) := by
        rw [sub_eq_add_neg]; exact lat_add D _ _ lx (lat_neg D _ ly)
      have hz : (x - y).normSq < tol * tol * ((M : Rat) * M) := by
        rcases h.2 with h | h | h
        · nlinarith
        · nlinarith
        · nlinarith
      exact sub_eq_zero.1 (lat_tiny_zero D M hD tol ht h1 _ lz hz)

/-- dictionary form: lattice dictionaries with bounded coefficient functions that `==` calls close
have equal coefficient functions -/
theorem isclose_lat_eq (D M : Nat) (hD : 0 < D) (hM : 0 < M) (tol : Rat) (ht : 0 < tol)
    (h1 : tol * ((D * M : Nat) : Rat) ≤ 1) (X Y : Op)
    (lX : ∀ e ∈ X, Lat D e.2) (lY : ∀ e ∈ Y, Lat D e.2)
    (bX : ∀ t, (Dict.getD X t 0).normSq ≤ (M : Rat) * M) (bY : ∀ t, (Dict.getD Y t 0).normSq ≤ (M : Rat) * M)
    (t : Term) (h : Spec.C02.coefClose tol (Dict.get? X t) (Dict.get? Y t) = true) :
    Dict.getD X t 0 = Dict.getD Y t 0 := by
  have l1 := lat_Fn D X lX t
  have l2 := lat_Fn D Y lY t
  have b1 := bX t
  have b2 := bY t
  unfold Proofs.C03.Fn at l1 l2
  unfold Dict.getD at l1 l2 b1 b2 ⊢
  exact coefClose_lat_eq D M hD hM tol ht h1 _ _ l1 l2 b1 b2 h

/-! ### `hermitian_conjugated(QuadOperator)` -/

theorem wf_foldl_set (f : Term × GQ → Term) (g : Term × GQ → GQ) (l : Op) :
    ∀ init : Op, Dict.WF init → Dict.WF (l.foldl (fun acc x => Dict.set acc (f x) (g x)) init) := by
  induction l with
  | nil => intro init h; exact h
  | cons y r ih => intro init h; rw [List.foldl_cons]; exact ih _ (Proofs.C03.wf_set _ _ _ h)

theorem wf_hcQuad (a : Op) : Dict.WF (hcQuad a) := by
  unfold hcQuad
  exact wf_foldl_set (fun x => sortF x.1.reverse) (fun x => x.2.conj) a [] (by simp [Dict.WF, Dict.keys])

theorem hcQuad_lat (D : Nat) (a : Op) (la : ∀ e ∈ a, Lat D e.2) : ∀ e ∈ hcQuad a, Lat D e.2 := by
  intro e he
  unfold hcQuad at he
  rcases mem_foldl_set (fun x => sortF x.1.reverse) (fun x => x.2.conj) a [] e he with h | ⟨x, hx, rfl⟩
  · simp at h
  · obtain ⟨m, n, h1', h2'⟩ := la x hx
    exact ⟨m, -n, by simp [GQ.conj, h1'], by simp [GQ.conj, h2']; ring⟩

/-- `tol·D·M ≤ 1`, `M ≥ 1` ⟹ `tol·D ≤ 1` -/
theorem tolD_le (D M : Nat) (hM : 0 < M) (tol : Rat) (ht : 0 < tol)
    (h1 : tol * ((D * M : Nat) : Rat) ≤ 1) : tol * D ≤ 1 := by
  have hM1 : (1 : Rat) ≤ M := by exact_mod_cast hM
  have hD0 : (0 : Rat) ≤ D := by positivity
  push_cast at h1
  nlinarith [mul_nonneg (le_of_lt ht) hD0]

end C02
end Proofs
end OFV
