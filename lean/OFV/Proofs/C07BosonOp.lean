/-
C07 — `hermitian_conjugated(BosonOperator)` at operator level: with the Fock inner product of the
polynomial representation, `⟨x^{e1}, A x^{e0}⟩ = ⟨A† x^{e1}, x^{e0}⟩` for the operator `A†` the Model
returns (conjugated coefficients on the re-sorted reversed-and-flipped keys).  Core Lean only.
-/
import OFV.Proofs.C07BosonAdj
import OFV.Proofs.C07BosonKey
import OFV.Proofs.C01Hom

namespace OFV
namespace Proofs
namespace C07A
open OFV.Spec OFV.Model OFV.Model.C07 OFV.Proofs.C06B

theorem conj_ofInt (z : Int) : GQ.conj (GQ.ofInt z) = GQ.ofInt z := by
  apply GQ.ext <;> simp [GQ.conj, GQ.ofInt]

theorem conj_conj (a : GQ) : GQ.conj (GQ.conj a) = a := by
  apply GQ.ext <;> simp [GQ.conj]

theorem conj_add' (a b : GQ) : GQ.conj (a + b) = GQ.conj a + GQ.conj b := by
  apply GQ.ext <;> simp [GQ.conj] <;> grind

theorem conj_mul' (a b : GQ) : GQ.conj (a * b) = GQ.conj a * GQ.conj b := by
  apply GQ.ext <;> simp [GQ.conj] <;> grind

theorem actB_coef_int (j a : Nat) (e : Mono) (c : GQ) (e' : Mono) (h : actB j a e = some (c, e')) :
    ∃ z : Int, c = GQ.ofInt z := by
  unfold actB at h
  by_cases ha : (a == 1) = true
  · simp only [ha, if_true, Option.some.injEq, Prod.mk.injEq] at h
    exact ⟨1, by rw [← h.1, ofInt_one]⟩
  · have ha' : (a == 1) = false := by simpa using ha
    cases hl : lowerX j e with
    | none => simp [ha', hl] at h
    | some q =>
      simp only [ha', hl, Bool.false_eq_true, if_false, Option.some.injEq, Prod.mk.injEq] at h
      exact ⟨q.1, h.1.symm⟩

/-- the coefficient of a ladder word on a monomial is an integer -/
theorem actB_word_int (t : List (Nat × Nat)) (e : Mono) :
    ∀ c e', actTermWith actB t e = some (c, e') → ∃ z : Int, c = GQ.ofInt z := by
  induction t with
  | nil =>
    intro c e' h
    simp only [actTermWith, List.foldr_nil, Option.some.injEq, Prod.mk.injEq] at h
    exact ⟨1, by rw [← h.1, ofInt_one]⟩
  | cons f t ih =>
    intro c e' h
    rw [actTermWith_cons] at h
    cases hp : actTermWith actB t e with
    | none => rw [hp] at h; simp at h
    | some p =>
      obtain ⟨c1, e1⟩ := p
      rw [hp] at h
      obtain ⟨z1, rfl⟩ := ih c1 e1 hp
      simp only at h
      cases hq : actB f.1 f.2 e1 with
      | none => rw [hq] at h; simp at h
      | some q =>
        obtain ⟨cf, ef⟩ := q
        rw [hq] at h
        simp only [Option.some.injEq, Prod.mk.injEq] at h
        obtain ⟨zf, rfl⟩ := actB_coef_int f.1 f.2 e1 cf ef hq
        exact ⟨zf * z1, by rw [← h.1, ofInt_mul]⟩

theorem conj_zero' : GQ.conj (0 : GQ) = 0 := by apply GQ.ext <;> simp [GQ.conj]

theorem melB_real (t : List (Nat × Nat)) (e0 e1 : Mono) : GQ.conj (melB t e0 e1) = melB t e0 e1 := by
  unfold melB
  cases h : actTermWith actB t e0 with
  | none => exact conj_zero'
  | some p =>
    obtain ⟨c, e⟩ := p
    obtain ⟨z, rfl⟩ := actB_word_int t e0 c e h
    simp only
    split
    · exact conj_ofInt z
    · exact conj_zero'

/-- **operator level**: `Σ_t c_t ⟨x^{e1}, t x^{e0}⟩ = conj Σ_{t'} c'_{t'} ⟨x^{e0}, t' x^{e1}⟩` over the image
dictionary `(sorted(reverse-and-flip(t)), conj c)` -/
theorem hcBoson_image_adjoint (A : Op) (hl : ∀ e ∈ A, ∀ f ∈ e.1, f.2 ≤ 1) (e0 e1 : Mono) (h0 : Canon e0) (h1 : Canon e1) :
    den (fun t => melB t e0 e1) A * GQ.ofInt (wfact e1 : Int) =
      GQ.conj (den (fun t => melB t e1 e0) (A.map fun e => (sortF (hcTermF e.1), e.2.conj))) *
        GQ.ofInt (wfact e0 : Int) := by
  induction A with
  | nil => simp only [List.map_nil, den_nil, conj_zero', GQ.zero_mul']
  | cons e A ih =>
    have ihA := ih (fun e' he' => hl e' (by simp [he']))
    simp only [List.map_cons, den_cons]
    rw [conj_add', conj_mul', conj_conj, melB_real, GQ.add_mul', GQ.add_mul', ihA]
    congr 1
    have hk : melB (sortF (hcTermF e.1)) e1 e0 = melB (hcTermF e.1) e1 e0 := by
      unfold melB; rw [OFV.Proofs.C07.hcBoson_key_sound e.1 e1]
    rw [hk, GQ.mul_assoc', GQ.mul_assoc', melB_adjoint e.1 (hl e (by simp)) e0 e1 h0 h1]

end C07A
end Proofs
end OFV
