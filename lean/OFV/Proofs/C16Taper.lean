/-
C16 helper lemmas: the last loop of `taper_off_qubits` against the qubit Spec.

When the reduced operator carries only `I` or `X` on the removed qubits (stabilizers with `Z` on their
fixed positions), dropping those Paulis gives the restriction of the operator to the invariant subspace
`(kept register) ⊗ |+…+⟩`: for every assignment `m` of the removed qubits, the matrix elements of the
reduced operator summed over the assignments `m'` of the removed qubits in the outgoing state are the
matrix elements of the tapered operator.
-/
import OFV.Proofs.C16Scbk

namespace OFV
namespace C16P
open Spec Model Model.C16

/-! ### `qbit_order` -/

theorem insertAt_get (L : List (Option Nat)) (x : Nat) (hx : x ≤ L.length) (p : Nat) :
    (insertAt L x none)[p]? = if p < x then L[p]? else if p = x then some none else L[p - 1]? := by
  unfold insertAt
  have hlen : (L.take x).length = x := by simp [List.length_take, hx]
  by_cases h1 : p < x
  · rw [if_pos h1, List.getElem?_append_left (by omega), List.getElem?_take_of_lt h1]
  · rw [if_neg h1, List.getElem?_append_right (by omega), hlen]
    by_cases h2 : p = x
    · subst h2; simp
    · rw [if_neg h2]
      have : p - x = (p - x - 1) + 1 := by omega
      rw [this, List.getElem?_cons_succ, List.getElem?_drop]
      congr 1; omega

theorem sorted_bound (n : Nat) : ∀ (l : List Nat), l.Pairwise (· < ·) → (∀ x ∈ l, x < n) →
    ∀ i (hi : i < l.length), l[i] + (l.length - i) ≤ n := by
  intro l
  induction l with
  | nil => intro _ _ i hi; simp at hi
  | cons a r ih =>
    intro hp hb i hi
    obtain ⟨h1, h2⟩ := List.pairwise_cons.mp hp
    have IH := ih h2 (fun x hx => hb x (by simp [hx]))
    cases i with
    | zero =>
      simp only [List.getElem_cons_zero, List.length_cons]
      cases r with
      | nil => have := hb a (by simp); simp; omega
      | cons b r' =>
        have hab := h1 b (by simp)
        have := IH 0 (by simp)
        simp only [List.getElem_cons_zero, List.length_cons] at this ⊢
        omega
    | succ j =>
      simp only [List.length_cons] at hi
      have := IH j (by omega)
      simp only [List.getElem_cons_succ, List.length_cons]
      omega

theorem fold_insert_get (m : Nat) : ∀ (r d : List Nat) (L : List (Option Nat)),
    (d ++ r).Pairwise (· < ·) → L.length = m + d.length →
    (∀ i (hi : i < r.length), r[i] ≤ L.length + i) →
    (∀ p, p < L.length → L[p]? = some (if p ∈ d then none else some (shiftDown d p))) →
    (r.foldl (fun o x => insertAt o x none) L).length = m + d.length + r.length ∧
    ∀ p, p < m + d.length + r.length → (r.foldl (fun o x => insertAt o x none) L)[p]?
      = some (if p ∈ d ++ r then none else some (shiftDown (d ++ r) p)) := by
  intro r
  induction r with
  | nil => intro d L _ hl _ hg; simpa [hl] using hg
  | cons x r' ih =>
    intro d L hp hl hb hg
    rw [List.foldl_cons]
    have hx : x ≤ L.length := by have := hb 0 (by simp); simpa using this
    have hdx : ∀ y ∈ d, y < x := by
      intro y hy
      exact (List.pairwise_append.mp hp).2.2 y hy x (by simp)
    have happ : d ++ x :: r' = (d ++ [x]) ++ r' := by simp
    have := ih (d ++ [x]) (insertAt L x none) (by rw [← happ]; exact hp)
      (by rw [insertAt_length, hl]; simp; omega)
      (fun i hi => by
        have := hb (i + 1) (by simp; omega)
        rw [insertAt_length]
        simp only [List.getElem_cons_succ] at this
        omega)
      (fun p hpl => by
        rw [insertAt_length] at hpl
        rw [insertAt_get L x hx p]
        by_cases h1 : p < x
        · rw [if_pos h1, hg p (by omega)]
          have e1 : (p ∈ d ++ [x]) ↔ p ∈ d := by simp; omega
          have e2 : shiftDown (d ++ [x]) p = shiftDown d p := by
            unfold shiftDown
            rw [List.filter_append]
            have : ([x].filter fun q => decide (q < p)) = [] := by simp; omega
            rw [this, List.append_nil]
          simp only [e1, e2]
        · rw [if_neg h1]
          by_cases h2 : p = x
          · subst h2; simp
          · rw [if_neg h2, hg (p - 1) (by omega)]
            have n1 : p - 1 ∉ d := fun h => by have := hdx _ h; omega
            have n2 : p ∉ d ++ [x] := by
              intro h
              rcases List.mem_append.mp h with h | h
              · have := hdx _ h; omega
              · simp at h; exact h2 h
            rw [if_neg n1, if_neg n2]
            congr 2
            unfold shiftDown
            have f1 : (d.filter fun q => decide (q < p - 1)) = d :=
              List.filter_eq_self.mpr (fun y hy => by have := hdx y hy; simp; omega)
            have f2 : ((d ++ [x]).filter fun q => decide (q < p)) = d ++ [x] :=
              List.filter_eq_self.mpr (fun y hy => by
                rcases List.mem_append.mp hy with h | h
                · have := hdx y h; simp; omega
                · simp at h; subst h; simp; omega)
            rw [f1, f2]; simp; omega)
    rw [← happ] at this
    simp only [List.length_append, List.length_cons, List.length_nil] at this ⊢
    constructor
    · rw [this.1]; omega
    · intro p hpl
      exact this.2 p (by omega)

/-- `qbit_order[p]` is `'remove'` at the removed positions and the shifted index elsewhere -/
theorem qbitOrder_get (n : Nat) (rm : List Nat) (hs : rm.Pairwise (· < ·)) (hb : ∀ r ∈ rm, r < n) (p : Nat)
    (hp : p < n) : (qbitOrder n rm)[p]? = some (if p ∈ rm then none else some (shiftDown rm p)) := by
  have hk : rm.length ≤ n := by
    cases rm with
    | nil => simp
    | cons a r => have := sorted_bound n (a :: r) hs hb 0 (by simp); simp at this ⊢; omega
  unfold qbitOrder
  have := fold_insert_get (n - rm.length) rm [] ((List.range (n - rm.length)).map some)
    (by simpa using hs) (by simp)
    (fun i hi => by
      have := sorted_bound n rm hs hb i hi
      simp; omega)
    (fun p hpl => by
      simp only [List.length_map, List.length_range] at hpl
      simp [shiftDown, hpl])
  simp only [List.nil_append, List.length_nil, Nat.add_zero] at this
  exact this.2 p (by omega)

/-! ### the full register as kept ⊗ removed -/

theorem keptList_sorted (n : Nat) (rm : List Nat) : (keptList n rm).Pairwise (· < ·) :=
  List.Pairwise.filter _ List.pairwise_lt_range

/-- the basis state with the kept qubits in `s` and the removed qubits in `m` -/
def joinF (n : Nat) (rm : List Nat) (m s : Nat) : Nat := spread (keptList n rm) s ^^^ spread rm m

theorem kept_get_not_rm (n : Nat) (rm : List Nat) (j : Nat) (hj : j < (keptList n rm).length) :
    (keptList n rm)[j] ∉ rm := ((mem_keptList n rm _).mp (List.getElem_mem hj)).2

theorem rm_get_not_kept (n : Nat) (rm : List Nat) (i : Nat) (hi : i < rm.length) :
    rm[i] ∉ keptList n rm := fun h => ((mem_keptList n rm _).mp h).2 (List.getElem_mem hi)

theorem joinF_bit_kept (n : Nat) (rm : List Nat) (m s j : Nat) (hj : j < (keptList n rm).length) :
    (joinF n rm m s).testBit (keptList n rm)[j] = s.testBit j := by
  unfold joinF
  rw [Nat.testBit_xor, spread_testBit_get _ (keptList_nodup n rm) s j _ (List.getElem?_eq_getElem hj),
    spread_testBit_not_mem rm m _ (kept_get_not_rm n rm j hj)]
  simp

theorem joinF_bit_rm (n : Nat) (rm : List Nat) (hrm : rm.Nodup) (m s i : Nat) (hi : i < rm.length) :
    (joinF n rm m s).testBit rm[i] = m.testBit i := by
  unfold joinF
  rw [Nat.testBit_xor, spread_testBit_get rm hrm m i _ (List.getElem?_eq_getElem hi),
    spread_testBit_not_mem _ s _ (rm_get_not_kept n rm i hi)]
  simp

theorem joinF_flip_kept (n : Nat) (rm : List Nat) (m s j : Nat) (hj : j < (keptList n rm).length) :
    joinF n rm m s ^^^ (1 <<< (keptList n rm)[j]) = joinF n rm m (s ^^^ (1 <<< j)) := by
  unfold joinF
  rw [spread_xflip _ (keptList_nodup n rm) s j hj, Nat.xor_assoc, Nat.xor_comm (spread rm m), ← Nat.xor_assoc]

theorem joinF_flip_rm (n : Nat) (rm : List Nat) (hrm : rm.Nodup) (m s i : Nat) (hi : i < rm.length) :
    joinF n rm m s ^^^ (1 <<< rm[i]) = joinF n rm (m ^^^ (1 <<< i)) s := by
  unfold joinF
  rw [spread_xflip rm hrm m i hi, Nat.xor_assoc]

theorem joinF_inj (n : Nat) (rm : List Nat) (hrm : rm.Nodup) (m m' s s' : Nat)
    (hm : m < 2 ^ rm.length) (hm' : m' < 2 ^ rm.length)
    (hs : s < 2 ^ (keptList n rm).length) (hs' : s' < 2 ^ (keptList n rm).length)
    (h : joinF n rm m s = joinF n rm m' s') : m = m' ∧ s = s' := by
  constructor
  · apply Nat.eq_of_testBit_eq
    intro i
    by_cases hi : i < rm.length
    · rw [← joinF_bit_rm n rm hrm m s i hi, ← joinF_bit_rm n rm hrm m' s' i hi, h]
    · have h2 : 2 ^ rm.length ≤ 2 ^ i := Nat.pow_le_pow_right (by omega) (by omega)
      rw [Nat.testBit_lt_two_pow (by omega), Nat.testBit_lt_two_pow (by omega)]
  · apply Nat.eq_of_testBit_eq
    intro j
    by_cases hj : j < (keptList n rm).length
    · rw [← joinF_bit_kept n rm m s j hj, ← joinF_bit_kept n rm m' s' j hj, h]
    · have h2 : 2 ^ (keptList n rm).length ≤ 2 ^ j := Nat.pow_le_pow_right (by omega) (by omega)
      rw [Nat.testBit_lt_two_pow (by omega), Nat.testBit_lt_two_pow (by omega)]

theorem indexOf_get (S : List Nat) (hS : S.Nodup) (j : Nat) (hj : j < S.length) : indexOf S S[j] = j := by
  have h1 := indexOf_spec S S[j] (List.getElem_mem hj)
  have h2 := indexOf_lt S S[j] (List.getElem_mem hj)
  rw [List.getElem?_eq_getElem h2] at h1
  exact hS.getElem_inj_iff.mp (Option.some.inj h1)

/-! ### one term -/

theorem actPTerm_cons2 (f : Factor) (r : Term) (x : Nat) :
    actPTerm (f :: r) x
      = (((actPTerm r x).1 + (actP f.1 f.2 (actPTerm r x).2).1) % 4, (actP f.1 f.2 (actPTerm r x).2).2) := rfl

/-- the term with the Paulis on the removed qubits dropped and the kept qubits renumbered -/
def stripT (n : Nat) (rm : List Nat) (τ : Term) : Term :=
  (τ.filter fun f => !rm.contains f.1).map fun f => (indexOf (keptList n rm) f.1, f.2)

/-- the removed qubits a term flips -/
def maskS (rm : List Nat) (τ : Term) : Nat :=
  τ.foldr (fun f acc => if rm.contains f.1 && f.2 == 1 then acc ^^^ (1 <<< indexOf rm f.1) else acc) 0

theorem maskS_lt (rm : List Nat) (τ : Term) : maskS rm τ < 2 ^ rm.length := by
  induction τ with
  | nil => simp [maskS]
  | cons f r ih =>
    simp only [maskS, List.foldr_cons] at ih ⊢
    split
    · rename_i hc
      have hm : f.1 ∈ rm := by
        simp only [Bool.and_eq_true] at hc
        simpa using hc.1
      rw [Nat.one_shiftLeft]
      exact Nat.xor_lt_two_pow ih (Nat.pow_lt_pow_right (by omega) (indexOf_lt rm f.1 hm))
    · exact ih

theorem actP_kept (n : Nat) (rm : List Nat) (m s j P : Nat) (hj : j < (keptList n rm).length) :
    actP (keptList n rm)[j] P (joinF n rm m s) = ((actP j P s).1, joinF n rm m (actP j P s).2) := by
  unfold actP
  split
  · simp only; rw [joinF_flip_kept n rm m s j hj]
  · simp only; rw [joinF_bit_kept n rm m s j hj, joinF_flip_kept n rm m s j hj]
  · simp only; rw [joinF_bit_kept n rm m s j hj]
  · rfl

theorem maskS_bit_false (rm : List Nat) (p : Nat) (hp : p ∈ rm) : ∀ (r : Term), (∀ g ∈ r, g.1 ≠ p) →
    (maskS rm r).testBit (indexOf rm p) = false := by
  intro r
  induction r with
  | nil => intro _; simp [maskS]
  | cons g r' ih =>
    intro h
    have IH := ih (fun x hx => h x (by simp [hx]))
    simp only [maskS, List.foldr_cons] at IH ⊢
    split
    · rename_i hc
      simp only [Bool.and_eq_true] at hc
      have hg : g.1 ∈ rm := by simpa using hc.1
      have hne : indexOf rm g.1 ≠ indexOf rm p := fun e => h g (by simp) (indexOf_inj rm g.1 p hg hp e)
      rw [Nat.testBit_xor, IH, Nat.one_shiftLeft, Nat.testBit_two_pow]
      simp [hne]
    · exact IH

/-- a term with `I`, `X` or `Z` on the removed qubits — `Z` only where the removed register `m` holds
`0` — acts on `|s; m⟩` as the stripped term acts on `|s⟩`, flipping the removed qubits it has `X` on -/
theorem actPTerm_join (n : Nat) (rm : List Nat) (hrm : rm.Nodup) (m s : Nat) :
    ∀ (τ : Term), (∀ f ∈ τ, f.1 < n) → τ.Pairwise (fun a b => a.1 ≠ b.1) →
    (∀ f ∈ τ, f.1 ∈ rm → f.2 = 1 ∨ (f.2 = 3 ∧ m.testBit (indexOf rm f.1) = false)) →
    actPTerm τ (joinF n rm m s)
      = ((actPTerm (stripT n rm τ) s).1, joinF n rm (m ^^^ maskS rm τ) (actPTerm (stripT n rm τ) s).2) := by
  intro τ
  induction τ with
  | nil => intro _ _ _; simp [stripT, maskS, actPTerm]
  | cons f r ih =>
    intro hn hd hx
    obtain ⟨hd1, hd2⟩ := List.pairwise_cons.mp hd
    have IH := ih (fun g hg => hn g (by simp [hg])) hd2 (fun g hg => hx g (by simp [hg]))
    rw [actPTerm_cons2, IH]
    simp only
    by_cases hf : f.1 ∈ rm
    · have hc : rm.contains f.1 = true := by simpa using hf
      have hs : stripT n rm (f :: r) = stripT n rm r := by simp [stripT, List.filter_cons, hf]
      have hi := indexOf_lt rm f.1 hf
      have hget : rm[indexOf rm f.1] = f.1 := by
        have := indexOf_spec rm f.1 hf
        rw [List.getElem?_eq_getElem hi] at this
        exact Option.some.inj this
      rcases hx f (by simp) hf with h1 | ⟨h3, hbit⟩
      · have hmk : maskS rm (f :: r) = maskS rm r ^^^ (1 <<< indexOf rm f.1) := by
          simp only [maskS, List.foldr_cons, hc, h1]; simp
        rw [hs, hmk, h1]
        have : actP f.1 1 (joinF n rm (m ^^^ maskS rm r) (actPTerm (stripT n rm r) s).2)
            = (0, joinF n rm ((m ^^^ maskS rm r) ^^^ (1 <<< indexOf rm f.1)) (actPTerm (stripT n rm r) s).2) := by
          unfold actP
          simp only
          rw [← hget, joinF_flip_rm n rm hrm _ _ _ hi, hget]
        rw [this]
        simp only [Nat.add_zero, Sem.actPTerm_phase_mod, Nat.xor_assoc]
      · have hmk : maskS rm (f :: r) = maskS rm r := by
          simp only [maskS, List.foldr_cons, hc, h3]; simp
        rw [hs, hmk, h3]
        have hb : (joinF n rm (m ^^^ maskS rm r) (actPTerm (stripT n rm r) s).2).testBit f.1 = false := by
          rw [← hget, joinF_bit_rm n rm hrm _ _ _ hi, Nat.testBit_xor, hbit,
            maskS_bit_false rm f.1 hf r (fun g hg e => hd1 g hg e.symm)]
          rfl
        have : actP f.1 3 (joinF n rm (m ^^^ maskS rm r) (actPTerm (stripT n rm r) s).2)
            = (0, joinF n rm (m ^^^ maskS rm r) (actPTerm (stripT n rm r) s).2) := by
          unfold actP
          simp only [hb]; rfl
        rw [this]
        simp only [Nat.add_zero, Sem.actPTerm_phase_mod]
    · have hc : rm.contains f.1 = false := by simpa using hf
      have hk : f.1 ∈ keptList n rm := (mem_keptList n rm f.1).mpr ⟨hn f (by simp), hf⟩
      have hj := indexOf_lt (keptList n rm) f.1 hk
      have hget : (keptList n rm)[indexOf (keptList n rm) f.1] = f.1 := by
        have := indexOf_spec (keptList n rm) f.1 hk
        rw [List.getElem?_eq_getElem hj] at this
        exact Option.some.inj this
      have hs : stripT n rm (f :: r) = (indexOf (keptList n rm) f.1, f.2) :: stripT n rm r := by
        simp [stripT, List.filter_cons, hf]
      have hmk : maskS rm (f :: r) = maskS rm r := by
        simp only [maskS, List.foldr_cons, hc]; simp
      rw [hs, hmk, actPTerm_cons2]
      simp only
      have := actP_kept n rm (m ^^^ maskS rm r) (actPTerm (stripT n rm r) s).2 (indexOf (keptList n rm) f.1) f.2 hj
      rw [hget] at this
      rw [this]

/-! ### sums over the assignments of the removed qubits -/

theorem sum_range_single (N a : Nat) (ha : a < N) (v : GQ) :
    ((List.range N).map fun m' => if m' = a then v else 0).sum = v := by
  induction N with
  | zero => omega
  | succ N ih =>
    rw [List.range_succ, List.map_append, List.sum_append]
    by_cases h : a = N
    · subst h
      have : ((List.range a).map fun m' => if m' = a then v else (0 : GQ)).sum = 0 := by
        apply List.sum_eq_zero
        intro x hx
        obtain ⟨y, hy, rfl⟩ := List.mem_map.mp hx
        have : y ≠ a := by have := List.mem_range.mp hy; omega
        simp [this]
      rw [this]; simp
    · rw [ih (by omega)]
      have : ¬ N = a := fun e => h e.symm
      simp [this]

theorem stripT_lt (n : Nat) (rm : List Nat) (τ : Term) (hn : ∀ f ∈ τ, f.1 < n) :
    ∀ f ∈ stripT n rm τ, f.1 < (keptList n rm).length := by
  intro f hf
  unfold stripT at hf
  obtain ⟨g, hg, rfl⟩ := List.mem_map.mp hf
  obtain ⟨hg1, hg2⟩ := List.mem_filter.mp hg
  have : g.1 ∉ rm := by simpa using hg2
  exact indexOf_lt _ _ ((mem_keptList n rm g.1).mpr ⟨hn g hg1, this⟩)

theorem termCoef_join_sum (n : Nat) (rm : List Nat) (hrm : rm.Nodup) (τ : Term) (hn : ∀ f ∈ τ, f.1 < n)
    (hd : τ.Pairwise (fun a b => a.1 ≠ b.1)) (m s t : Nat)
    (hx : ∀ f ∈ τ, f.1 ∈ rm → f.2 = 1 ∨ (f.2 = 3 ∧ m.testBit (indexOf rm f.1) = false)) (hm : m < 2 ^ rm.length)
    (hs : s < 2 ^ (keptList n rm).length) (ht : t < 2 ^ (keptList n rm).length) :
    ((List.range (2 ^ rm.length)).map fun m' =>
        Sem.termCoef .qubit τ [joinF n rm m s] [joinF n rm m' t]).sum
      = Sem.termCoef .qubit (stripT n rm τ) [s] [t] := by
  have hact := actPTerm_join n rm hrm m s τ hn hd hx
  have hlt := actPTerm_state_lt (keptList n rm).length (stripT n rm τ) s hs (stripT_lt n rm τ hn)
  have hmlt : m ^^^ maskS rm τ < 2 ^ rm.length := Nat.xor_lt_two_pow hm (maskS_lt rm τ)
  have hterm : ∀ m' ∈ List.range (2 ^ rm.length),
      Sem.termCoef .qubit τ [joinF n rm m s] [joinF n rm m' t]
        = if m' = m ^^^ maskS rm τ then Sem.termCoef .qubit (stripT n rm τ) [s] [t] else 0 := by
    intro m' hm'
    have hm'lt := List.mem_range.mp hm'
    rw [Sem.termCoef_qubit, Sem.termCoef_qubit, hact]
    simp only
    by_cases e1 : m' = m ^^^ maskS rm τ
    · subst e1
      rw [if_pos rfl]
      by_cases e2 : (actPTerm (stripT n rm τ) s).2 = t
      · rw [if_pos e2, e2, if_pos rfl]
      · rw [if_neg e2, if_neg]
        intro h
        exact e2 (joinF_inj n rm hrm _ _ _ _ hmlt hmlt hlt ht h).2
    · rw [if_neg e1, if_neg]
      intro h
      exact e1 (joinF_inj n rm hrm _ _ _ _ hmlt hm'lt hlt ht h).1.symm
  rw [List.map_congr_left hterm, sum_range_single _ _ hmlt]

theorem den_sum (N : Nat) (φ : Nat → Term → GQ) (A : Model.Op) :
    ((List.range N).map fun m' => Model.den (φ m') A).sum
      = Model.den (fun τ => ((List.range N).map fun m' => φ m' τ).sum) A := by
  induction A with
  | nil => simp [Model.den]
  | cons e r ih =>
    simp only [Model.den_cons]
    rw [← ih]
    generalize List.range N = L
    induction L with
    | nil => simp
    | cons a l ihl =>
      simp only [List.map_cons, List.sum_cons, ihl]
      ring

/-! ### the loop -/

theorem shift_eq_indexOf (n : Nat) (rm : List Nat) (hrm : rm.Nodup) (p : Nat) (hp : p < n) (hnot : p ∉ rm) :
    shiftDown rm p = indexOf (keptList n rm) p := by
  have h1 := kept_position rm hrm n p hp hnot
  have hlt : shiftDown rm p < (keptList n rm).length := (List.getElem?_eq_some_iff.mp h1).1
  have h2 : (keptList n rm)[shiftDown rm p] = p := by
    rw [List.getElem?_eq_getElem hlt] at h1
    exact Option.some.inj h1
  have := indexOf_get (keptList n rm) (keptList_nodup n rm) (shiftDown rm p) hlt
  rw [h2] at this
  exact this.symm

theorem taperTerm_eq (n : Nat) (rm : List Nat) (hs : rm.Pairwise (· < ·)) (hb : ∀ r ∈ rm, r < n) (τ : Term)
    (hn : ∀ f ∈ τ, f.1 < n) : taperTerm (qbitOrder n rm) τ = .ok (stripT n rm τ) := by
  have hrm := pairwise_lt_nodup rm hs
  unfold taperTerm
  have gen : ∀ (τ : Term) (acc : Term), (∀ f ∈ τ, f.1 < n) →
      τ.foldlM (taperTermStep (qbitOrder n rm)) acc = .ok (acc ++ stripT n rm τ) := by
    intro τ
    induction τ with
    | nil => intro acc _; simp [stripT, pure, Except.pure]
    | cons f r ih =>
      intro acc hn
      rw [List.foldlM_cons]
      unfold taperTermStep
      rw [qbitOrder_get n rm hs hb f.1 (hn f (by simp))]
      by_cases hf : f.1 ∈ rm
      · simp only [hf, if_true, bind, Except.bind]
        have := ih acc (fun g hg => hn g (by simp [hg]))
        unfold taperTermStep at this
        rw [this]
        simp [stripT, List.filter_cons, hf]
      · simp only [hf, if_false, bind, Except.bind]
        have := ih (acc ++ [(shiftDown rm f.1, f.2)]) (fun g hg => hn g (by simp [hg]))
        unfold taperTermStep at this
        rw [this, shift_eq_indexOf n rm hrm f.1 (hn f (by simp)) hf]
        simp [stripT, List.filter_cons, hf]
  have := gen τ [] hn
  simpa using this

theorem taperStep_eq (tol : Rat) (n : Nat) (rm : List Nat) (hs : rm.Pairwise (· < ·)) (hb : ∀ r ∈ rm, r < n)
    (acc : Model.Op × Bool) (e : Term × GQ) (hn : ∀ f ∈ e.1, f.1 < n) :
    taperStep tol (qbitOrder n rm) acc e
      = .ok (Model.iadd tol acc.1 (mk .qubit (stripT n rm e.1) e.2),
          acc.2 && exactAddB tol acc.1 (mk .qubit (stripT n rm e.1) e.2)) := by
  unfold taperStep
  by_cases h : e.1 = []
  · rw [if_pos h, h]; rfl
  · rw [if_neg h, taperTerm_eq n rm hs hb e.1 hn]; rfl

theorem stripT_valid (n : Nat) (rm : List Nat) (τ : Term) (hp : Pauli123 τ) : Sem.ValidQ (stripT n rm τ) := by
  intro f hf
  unfold stripT at hf
  obtain ⟨g, hg, rfl⟩ := List.mem_map.mp hf
  have := hp g (List.mem_filter.mp hg).1
  simp only
  omega

theorem taper_fold (tol : Rat) (n : Nat) (rm : List Nat) (hs : rm.Pairwise (· < ·)) (hb : ∀ r ∈ rm, r < n)
    (s t : Nat) : ∀ (A : Model.Op) (acc out : Model.Op × Bool),
    (∀ e ∈ A, Pauli123 e.1 ∧ ∀ f ∈ e.1, f.1 < n) →
    A.foldlM (taperStep tol (qbitOrder n rm)) acc = .ok out → out.2 = true →
    acc.2 = true ∧
    Sem.den .qubit out.1 [s] [t] = Sem.den .qubit acc.1 [s] [t]
      + Model.den (fun τ => Sem.termCoef .qubit (stripT n rm τ) [s] [t]) A := by
  intro A
  induction A with
  | nil =>
    intro acc out _ h ho
    simp only [List.foldlM_nil, pure, Except.pure, Except.ok.injEq] at h
    subst h
    exact ⟨ho, by simp [Model.den]⟩
  | cons e r ih =>
    intro acc out hA h ho
    rw [List.foldlM_cons, taperStep_eq tol n rm hs hb acc e (hA e (by simp)).2] at h
    simp only [bind, Except.bind] at h
    obtain ⟨h1, h2⟩ := ih _ out (fun x hx => hA x (by simp [hx])) h ho
    simp only [Bool.and_eq_true] at h1
    refine ⟨h1.1, ?_⟩
    rw [h2, den_iadd_exact tol _ _ h1.2, den_mk_qubit _ _ (stripT_valid n rm e.1 (hA e (by simp)).1),
      Model.den_cons]
    ring

/-- **the last loop of `taper_off_qubits`**: row sums over the removed register -/
theorem taperStrip_den (tol : Rat) (n : Nat) (ham : Model.Op) (rm : List Nat) (out : Model.Op)
    (hs : rm.Pairwise (· < ·)) (hb : ∀ r ∈ rm, r < n)
    (m : Nat)
    (hA : ∀ e ∈ ham, Pauli123 e.1 ∧ (∀ f ∈ e.1, f.1 < n) ∧ e.1.Pairwise (fun a b => a.1 ≠ b.1) ∧
      ∀ f ∈ e.1, f.1 ∈ rm → f.2 = 1 ∨ (f.2 = 3 ∧ m.testBit (indexOf rm f.1) = false))
    (h : taperStrip tol n ham rm = .ok (out, true)) (s t : Nat) (hm : m < 2 ^ rm.length)
    (hst : s < 2 ^ (n - rm.length)) (htt : t < 2 ^ (n - rm.length)) :
    ((List.range (2 ^ rm.length)).map fun m' =>
        Sem.den .qubit ham [joinF n rm m s] [joinF n rm m' t]).sum
      = Sem.den .qubit out [s] [t] := by
  have hrm := pairwise_lt_nodup rm hs
  have hlen := keptList_length n rm hrm hb
  unfold taperStrip at h
  obtain ⟨_, hden⟩ := taper_fold tol n rm hs hb s t ham ([], true) (out, true)
    (fun e he => ⟨(hA e he).1, (hA e he).2.1⟩) h rfl
  simp only [Sem.den_nil, zero_add] at hden
  rw [hden]
  have e1 : ∀ m', Sem.den .qubit ham [joinF n rm m s] [joinF n rm m' t]
      = Model.den (fun τ => Sem.termCoef .qubit τ [joinF n rm m s] [joinF n rm m' t]) ham :=
    fun m' => semDen_eq_modelDen ham _ _
  simp only [e1]
  rw [den_sum]
  apply den_congr_mem
  intro e he
  exact termCoef_join_sum n rm hrm e.1 (hA e he).2.1 (hA e he).2.2.1 m s t (hA e he).2.2.2 hm (by rw [hlen]; exact hst)
    (by rw [hlen]; exact htt)

end C16P
end OFV
