/-
C06 — helper lemmas: ring laws of `GQ`, operator groups (chunking), permutation invariance of
the parallel reduction, `count_qubits`, the big-endian index.  Core Lean only.
-/
import OFV.Model.C06
import OFV.Spec.C06

namespace OFV
namespace Proofs
namespace C06
open OFV.Model OFV.Model.C06 OFV.Spec.C06

/-! ### ring laws of the Gaussian rationals -/

theorem gq_add_comm (a b : GQ) : a + b = b + a := by apply GQ.ext <;> simp <;> grind
theorem gq_add_assoc (a b c : GQ) : a + b + c = a + (b + c) := by apply GQ.ext <;> simp <;> grind
theorem gq_mul_add (a b c : GQ) : a * (b + c) = a * b + a * c := by apply GQ.ext <;> simp <;> grind
theorem gq_add_mul (a b c : GQ) : (a + b) * c = a * c + b * c := by apply GQ.ext <;> simp <;> grind
theorem gq_mul_assoc (a b c : GQ) : a * b * c = a * (b * c) := by apply GQ.ext <;> simp <;> grind
theorem gq_mul_comm (a b : GQ) : a * b = b * a := by apply GQ.ext <;> simp <;> grind
theorem gq_zero_mul (a : GQ) : 0 * a = 0 := by apply GQ.ext <;> simp <;> grind
theorem gq_mul_zero (a : GQ) : a * 0 = 0 := by apply GQ.ext <;> simp <;> grind
theorem gq_zero_add (a : GQ) : 0 + a = a := by apply GQ.ext <;> simp <;> grind
theorem gq_add_zero (a : GQ) : a + 0 = a := by apply GQ.ext <;> simp <;> grind
theorem gq_one_mul (a : GQ) : 1 * a = a := by apply GQ.ext <;> simp <;> grind
theorem gq_mul_one (a : GQ) : a * 1 = a := by apply GQ.ext <;> simp <;> grind

/-! ### chunking -/

theorem chunks_flatten {α : Type} (sizes : List Nat) (l : List α) :
    (chunks sizes l).flatten = l.take sizes.sum := by
  induction sizes generalizing l with
  | nil => simp [chunks]
  | cons s r ih =>
    simp only [chunks, List.flatten_cons, ih, List.sum_cons]
    rw [List.take_add]

/-- `Σ_{i<k} ⌈(L - i)/k⌉`-style chunk sizes: the `i`-th size is `L / k` plus one for `i < L % k` -/
theorem groupSize_eq (L k i : Nat) (hk : 0 < k) (hi : i < k) (hL : k ≤ L) :
    (L - i + k - 1) / k = L / k + (if i < L % k then 1 else 0) := by
  have hdm := Nat.div_add_mod L k
  have hr := Nat.mod_lt L hk
  generalize L / k = q at *
  generalize L % k = r at *
  have hq : 1 ≤ q := by
    cases q with
    | zero => simp at hdm; omega
    | succ q => omega
  subst hdm
  split
  · rename_i hlt
    have e : k * q + r - i + k - 1 = k * (q + 1) + (r - i - 1) := by
      rw [Nat.mul_add_one]; omega
    rw [e, Nat.mul_add_div hk, Nat.div_eq_of_lt (by omega)]
  · rename_i hge
    have hkq : k ≤ k * q := Nat.le_mul_of_pos_right k hq
    have e : k * q + r - i + k - 1 = k * q + (r + k - 1 - i) := by omega
    rw [e, Nat.mul_add_div hk, Nat.div_eq_of_lt (by omega)]

theorem sum_indicator (q r k : Nat) :
    ((List.range k).map fun i => q + (if i < r then 1 else 0)).sum = k * q + min r k := by
  induction k with
  | zero => simp
  | succ k ih =>
    rw [List.range_succ, List.map_append, List.sum_append, ih]
    by_cases hr : k < r <;> simp [hr, Nat.succ_mul] <;> omega

theorem groupSizes_sum (L k : Nat) (hk : 0 < k) (hL : k ≤ L) : (groupSizes L k).sum = L := by
  have h1 : groupSizes L k = (List.range k).map fun i => L / k + (if i < L % k then 1 else 0) := by
    unfold groupSizes
    apply List.map_congr_left
    intro i hi
    exact groupSize_eq L k i hk (List.mem_range.mp hi) hL
  rw [h1, sum_indicator, Nat.min_eq_left (Nat.le_of_lt (Nat.mod_lt L hk))]
  exact Nat.div_add_mod L k

theorem chunks_length {α : Type} (sizes : List Nat) (l : List α) : (chunks sizes l).length = sizes.length := by
  induction sizes generalizing l with
  | nil => rfl
  | cons s r ih => simp [chunks, ih]

theorem operatorGroups_flatten (k : Nat) (a : Op) : (operatorGroups k a).flatten = a := by
  unfold operatorGroups
  rw [chunks_flatten]
  by_cases h0 : a.length = 0
  · have : a = [] := List.eq_nil_of_length_eq_zero h0
    subst this; simp
  · have hk : 0 < min (max k 1) a.length := by omega
    rw [groupSizes_sum _ _ hk (Nat.min_le_right _ _), List.take_length]

theorem operatorGroups_length (k : Nat) (a : Op) : (operatorGroups k a).length = min (max k 1) a.length := by
  unfold operatorGroups
  rw [chunks_length]; simp [groupSizes]

/-! ### the parallel reduction does not depend on the completion order -/

theorem vadd_comm : ∀ (a b : Vec), vadd a b = vadd b a
  | [], [] => rfl
  | [], _ :: _ => rfl
  | _ :: _, [] => rfl
  | x :: r, y :: s => by simp only [vadd, gq_add_comm x y, vadd_comm r s]

theorem vadd_assoc : ∀ (a b c : Vec), vadd (vadd a b) c = vadd a (vadd b c)
  | [], _, _ => by simp [vadd]
  | _ :: _, [], _ => by simp [vadd]
  | _ :: _, _ :: _, [] => by simp [vadd]
  | x :: r, y :: s, z :: t => by simp only [vadd, gq_add_assoc x y z, vadd_assoc r s t]

theorem reduceAdd_perm (zero : Vec) {l₁ l₂ : List Vec} (h : l₁.Perm l₂) : reduceAdd zero l₁ = reduceAdd zero l₂ := by
  induction h with
  | nil => rfl
  | cons x h _ =>
    simp only [reduceAdd]
    exact h.foldl_eq' (fun a _ b _ z => by rw [vadd_assoc, vadd_comm a b, ← vadd_assoc]) x
  | swap x y l =>
    simp only [reduceAdd, List.foldl_cons, vadd_comm y x]
  | trans _ _ ih1 ih2 => rw [ih1, ih2]

/-! ### count_qubits -/

theorem foldl_max_ge (t : Term) (n : Nat) :
    n ≤ t.foldl (fun n f => if f.1 + 1 > n then f.1 + 1 else n) n ∧
    ∀ f ∈ t, f.1 < t.foldl (fun n f => if f.1 + 1 > n then f.1 + 1 else n) n := by
  induction t generalizing n with
  | nil => simp
  | cons g t ih =>
    simp only [List.foldl_cons]
    have hm : n ≤ (if g.1 + 1 > n then g.1 + 1 else n) ∧ g.1 < (if g.1 + 1 > n then g.1 + 1 else n) := by
      split <;> omega
    generalize (if g.1 + 1 > n then g.1 + 1 else n) = m at hm
    have := ih m
    refine ⟨by omega, ?_⟩
    intro f hf
    rcases List.mem_cons.mp hf with rfl | hf
    · omega
    · exact this.2 f hf

theorem countFermion_aux (a : Op) (n : Nat) :
    n ≤ a.foldl (fun n (e : Term × GQ) => e.1.foldl (fun n f => if f.1 + 1 > n then f.1 + 1 else n) n) n ∧
    ∀ e ∈ a, ∀ f ∈ e.1, f.1 <
      a.foldl (fun n (e : Term × GQ) => e.1.foldl (fun n f => if f.1 + 1 > n then f.1 + 1 else n) n) n := by
  induction a generalizing n with
  | nil => simp
  | cons e a ih =>
    simp only [List.foldl_cons]
    have h0 := foldl_max_ge e.1 n
    have := ih (e.1.foldl (fun n f => if f.1 + 1 > n then f.1 + 1 else n) n)
    refine ⟨by omega, ?_⟩
    intro e' he' f hf
    rcases List.mem_cons.mp he' with rfl | he'
    · have := h0.2 f hf; omega
    · exact this.2 e' he' f hf

/-- the maximum is attained (or the count is the start value) -/
theorem foldl_max_attained (t : Term) (n : Nat) :
    t.foldl (fun n f => if f.1 + 1 > n then f.1 + 1 else n) n = n ∨
    ∃ f ∈ t, t.foldl (fun n f => if f.1 + 1 > n then f.1 + 1 else n) n = f.1 + 1 := by
  induction t generalizing n with
  | nil => left; rfl
  | cons g t ih =>
    simp only [List.foldl_cons]
    rcases ih (if g.1 + 1 > n then g.1 + 1 else n) with h | ⟨f, hf, h⟩
    · rw [h]
      split
      · right; exact ⟨g, by simp, rfl⟩
      · left; rfl
    · right; exact ⟨f, by simp [hf], h⟩

theorem countFermion_attained (a : Op) (n : Nat) :
    a.foldl (fun n (e : Term × GQ) => e.1.foldl (fun n f => if f.1 + 1 > n then f.1 + 1 else n) n) n = n ∨
    ∃ e ∈ a, ∃ f ∈ e.1,
      a.foldl (fun n (e : Term × GQ) => e.1.foldl (fun n f => if f.1 + 1 > n then f.1 + 1 else n) n) n = f.1 + 1 := by
  induction a generalizing n with
  | nil => left; rfl
  | cons e a ih =>
    simp only [List.foldl_cons]
    rcases ih (e.1.foldl (fun n f => if f.1 + 1 > n then f.1 + 1 else n) n) with h | ⟨e', he', f, hf, h⟩
    · rw [h]
      rcases foldl_max_attained e.1 n with h' | ⟨f, hf, h'⟩
      · left; exact h'
      · right; exact ⟨e, by simp, f, hf, h'⟩
    · right; exact ⟨e', by simp [he'], f, hf, h⟩

theorem getLast_ge (t : Term) (h : t.Pairwise (fun f g => f.1 < g.1)) :
    ∀ l, t.getLast? = some l → ∀ f ∈ t, f.1 ≤ l.1 := by
  induction t with
  | nil => intro l hl; simp at hl
  | cons g t ih =>
    intro l hl f hf
    have hp := List.pairwise_cons.mp h
    cases t with
    | nil =>
      simp at hl hf; subst hl; subst hf; exact Nat.le_refl _
    | cons g' t' =>
      have hl' : (g' :: t').getLast? = some l := by simpa [List.getLast?_cons_cons] using hl
      rcases List.mem_cons.mp hf with rfl | hf
      · have hmem : l ∈ g' :: t' := List.mem_of_getLast? hl'
        exact Nat.le_of_lt (hp.1 l hmem)
      · exact ih hp.2 l hl' f hf

theorem countQubit_aux (a : Op) (n : Nat) (hs : ∀ e ∈ a, e.1.Pairwise (fun f g => f.1 < g.1)) :
    n ≤ a.foldl (fun n (e : Term × GQ) => match e.1.getLast? with
        | some f => if f.1 + 1 > n then f.1 + 1 else n
        | none => n) n ∧
    ∀ e ∈ a, ∀ f ∈ e.1, f.1 < a.foldl (fun n (e : Term × GQ) => match e.1.getLast? with
        | some f => if f.1 + 1 > n then f.1 + 1 else n
        | none => n) n := by
  induction a generalizing n with
  | nil => simp
  | cons e a ih =>
    simp only [List.foldl_cons]
    have hse := hs e (by simp)
    have hm : n ≤ (match e.1.getLast? with
        | some f => if f.1 + 1 > n then f.1 + 1 else n
        | none => n) ∧ ∀ f ∈ e.1, f.1 < (match e.1.getLast? with
        | some f => if f.1 + 1 > n then f.1 + 1 else n
        | none => n) := by
      cases hl : e.1.getLast? with
      | none =>
        have : e.1 = [] := List.getLast?_eq_none_iff.mp hl
        simp [this]
      | some l =>
        have hge := getLast_ge e.1 hse l hl
        simp only
        refine ⟨by split <;> omega, fun f hf => ?_⟩
        have := hge f hf
        split <;> omega
    generalize (match e.1.getLast? with
        | some f => if f.1 + 1 > n then f.1 + 1 else n
        | none => n) = m at hm
    have := ih m (fun e' he' => hs e' (by simp [he']))
    refine ⟨by omega, ?_⟩
    intro e' he' f hf
    rcases List.mem_cons.mp he' with rfl | he'
    · have := hm.2 f hf; omega
    · exact this.2 e' he' f hf

/-! ### the big-endian index is bit reversal -/

theorem beIndex_lt (n s : Nat) : beIndex n s < 2 ^ n := by
  induction n generalizing s with
  | zero => simp [beIndex]
  | succ n ih =>
    have := ih (s / 2)
    simp only [beIndex, Nat.pow_succ]
    split <;> omega

theorem beIndex_testBit (n s j : Nat) (hj : j < n) : (beIndex n s).testBit (n - 1 - j) = s.testBit j := by
  induction n generalizing s j with
  | zero => omega
  | succ n ih =>
    have hlt := beIndex_lt n (s / 2)
    simp only [beIndex]
    cases j with
    | zero =>
      simp only [Nat.add_sub_cancel, Nat.sub_zero]
      cases hb : s.testBit 0
      · simp [Nat.testBit_lt_two_pow hlt]
      · simp [Nat.testBit_two_pow_add_eq, Nat.testBit_lt_two_pow hlt]
    | succ j =>
      have hj' : j < n := by omega
      have e : n + 1 - 1 - (j + 1) = n - 1 - j := by omega
      rw [e]
      have hpos : n - 1 - j < n := by omega
      cases hb : s.testBit 0
      · simp only [Bool.false_eq_true, if_false, Nat.zero_add]
        rw [ih (s / 2) j hj', Nat.testBit_div_two]
      · simp only [if_true]
        rw [Nat.testBit_two_pow_add_gt hpos, ih (s / 2) j hj', Nat.testBit_div_two]

theorem beIndex_injective (n s s' : Nat) (hs : s < 2 ^ n) (hs' : s' < 2 ^ n)
    (h : beIndex n s = beIndex n s') : s = s' := by
  apply Nat.eq_of_testBit_eq
  intro j
  by_cases hj : j < n
  · rw [← beIndex_testBit n s j hj, ← beIndex_testBit n s' j hj, h]
  · have hle : n ≤ j := by omega
    have h1 : s < 2 ^ j := Nat.lt_of_lt_of_le hs (Nat.pow_le_pow_right (by omega) hle)
    have h2 : s' < 2 ^ j := Nat.lt_of_lt_of_le hs' (Nat.pow_le_pow_right (by omega) hle)
    rw [Nat.testBit_lt_two_pow h1, Nat.testBit_lt_two_pow h2]

end C06
end Proofs
end OFV
