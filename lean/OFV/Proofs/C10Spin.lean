/- C10: `_iterate_basis_` with spin_preserving=True: the alpha (even) and beta (odd) orbitals are
excited separately; each admissible determinant is produced exactly once. -/
import OFV.Proofs.C10Two

namespace OFV.C10
open OFV.Model OFV.Model.C10 OFV.Spec OFV.Spec.C10

/-- the four index pools of `_iterate_basis_spin_order_` (occupied / empty, alpha / beta) -/
structure Quad (ref : Det) (A1 A0 B1 B0 : List Nat) : Prop where
  ndA1 : A1.Nodup
  ndA0 : A0.Nodup
  ndB1 : B1.Nodup
  ndB0 : B0.Nodup
  lt : ∀ i, i ∈ A1 ∨ i ∈ A0 ∨ i ∈ B1 ∨ i ∈ B0 → i < ref.length
  occ : ∀ i, i ∈ A1 ∨ i ∈ B1 → ref.getD i false = true
  emp : ∀ i, i ∈ A0 ∨ i ∈ B0 → ref.getD i false = false
  dis1 : ∀ i, i ∈ A1 → i ∉ B1
  dis0 : ∀ i, i ∈ A0 → i ∉ B0
  cov1 : ∀ i, i < ref.length → ref.getD i false = true → i ∈ A1 ∨ i ∈ B1
  cov0 : ∀ i, i < ref.length → ref.getD i false = false → i ∈ A0 ∨ i ∈ B0

def build4 (ref : Det) (ao au bo bu : List Nat) : Det :=
  setAll (setAll (setAll (setAll ref ao false) au true) bo false) bu true

section quad
variable {ref : Det} {A1 A0 B1 B0 : List Nat} (q : Quad ref A1 A0 B1 B0)
include q

theorem getD_build4 {ao au bo bu : List Nat} (h1 : ao.Sublist A1) (h2 : au.Sublist A0) (h3 : bo.Sublist B1)
    (h4 : bu.Sublist B0) (i : Nat) :
    (build4 ref ao au bo bu).getD i false
      = if i ∈ bu then true else if i ∈ bo then false else if i ∈ au then true else if i ∈ ao then false
        else ref.getD i false := by
  unfold build4
  simp only [getD_setAll, length_setAll]
  by_cases c4 : i ∈ bu
  · have := q.lt i (Or.inr (Or.inr (Or.inr (h4.subset c4)))); simp [c4, this]
  · by_cases c3 : i ∈ bo
    · have := q.lt i (Or.inr (Or.inr (Or.inl (h3.subset c3)))); simp [c4, c3, this]
    · by_cases c2 : i ∈ au
      · have := q.lt i (Or.inr (Or.inl (h2.subset c2))); simp [c4, c3, c2, this]
      · by_cases c1 : i ∈ ao
        · have := q.lt i (Or.inl (h1.subset c1)); simp [c4, c3, c2, c1, this]
        · simp [c4, c3, c2, c1]

theorem decode4 {ao au bo bu : List Nat} (h1 : ao.Sublist A1) (h2 : au.Sublist A0) (h3 : bo.Sublist B1)
    (h4 : bu.Sublist B0) :
    A1.filter (fun i => !(build4 ref ao au bo bu).getD i false) = ao ∧
    A0.filter (fun i => (build4 ref ao au bo bu).getD i false) = au ∧
    B1.filter (fun i => !(build4 ref ao au bo bu).getD i false) = bo ∧
    B0.filter (fun i => (build4 ref ao au bo bu).getD i false) = bu := by
  have key : ∀ i, (build4 ref ao au bo bu).getD i false = _ := getD_build4 q h1 h2 h3 h4
  refine ⟨?_, ?_, ?_, ?_⟩
  · suffices hc : A1.filter (fun i => !(build4 ref ao au bo bu).getD i false) = A1.filter (fun i => decide (i ∈ ao)) by
      rw [hc, filter_mem_of_sublist q.ndA1 h1]
    apply List.filter_congr
    intro i hi
    rw [key i]
    have r := q.occ i (Or.inl hi)
    have n4 : i ∉ bu := fun h => by have := q.emp i (Or.inr (h4.subset h)); rw [r] at this; cases this
    have n3 : i ∉ bo := fun h => q.dis1 i hi (h3.subset h)
    have n2 : i ∉ au := fun h => by have := q.emp i (Or.inl (h2.subset h)); rw [r] at this; cases this
    by_cases c : i ∈ ao <;> simp [-List.getD_eq_getElem?_getD, n4, n3, n2, c, r]
  · suffices hc : A0.filter (fun i => (build4 ref ao au bo bu).getD i false) = A0.filter (fun i => decide (i ∈ au)) by
      rw [hc, filter_mem_of_sublist q.ndA0 h2]
    apply List.filter_congr
    intro i hi
    rw [key i]
    have r := q.emp i (Or.inl hi)
    have n4 : i ∉ bu := fun h => q.dis0 i hi (h4.subset h)
    have n3 : i ∉ bo := fun h => by have := q.occ i (Or.inr (h3.subset h)); rw [r] at this; cases this
    have n1 : i ∉ ao := fun h => by have := q.occ i (Or.inl (h1.subset h)); rw [r] at this; cases this
    by_cases c : i ∈ au <;> simp [-List.getD_eq_getElem?_getD, n4, n3, n1, c, r]
  · suffices hc : B1.filter (fun i => !(build4 ref ao au bo bu).getD i false) = B1.filter (fun i => decide (i ∈ bo)) by
      rw [hc, filter_mem_of_sublist q.ndB1 h3]
    apply List.filter_congr
    intro i hi
    rw [key i]
    have r := q.occ i (Or.inr hi)
    have n4 : i ∉ bu := fun h => by have := q.emp i (Or.inr (h4.subset h)); rw [r] at this; cases this
    have n2 : i ∉ au := fun h => by have := q.emp i (Or.inl (h2.subset h)); rw [r] at this; cases this
    have n1 : i ∉ ao := fun h => q.dis1 i (h1.subset h) hi
    by_cases c : i ∈ bo <;> simp [-List.getD_eq_getElem?_getD, n4, n2, n1, c, r]
  · suffices hc : B0.filter (fun i => (build4 ref ao au bo bu).getD i false) = B0.filter (fun i => decide (i ∈ bu)) by
      rw [hc, filter_mem_of_sublist q.ndB0 h4]
    apply List.filter_congr
    intro i hi
    rw [key i]
    have r := q.emp i (Or.inr hi)
    have n3 : i ∉ bo := fun h => by have := q.occ i (Or.inr (h3.subset h)); rw [r] at this; cases this
    have n2 : i ∉ au := fun h => q.dis0 i (h2.subset h) hi
    have n1 : i ∉ ao := fun h => by have := q.occ i (Or.inl (h1.subset h)); rw [r] at this; cases this
    by_cases c : i ∈ bu <;> simp [-List.getD_eq_getElem?_getD, n3, n2, n1, c, r]

theorem rebuild4 (d : Det) (hl : d.length = ref.length) :
    build4 ref (A1.filter fun i => !d.getD i false) (A0.filter fun i => d.getD i false)
      (B1.filter fun i => !d.getD i false) (B0.filter fun i => d.getD i false) = d := by
  apply det_ext
  · simp [build4, length_setAll, hl]
  · intro i hi
    have hi' : i < ref.length := by simpa [build4, length_setAll] using hi
    rw [getD_build4 q List.filter_sublist List.filter_sublist List.filter_sublist List.filter_sublist]
    simp only [List.mem_filter]
    cases hr : ref.getD i false <;> cases hd : d.getD i false
    · have n1 : i ∉ A1 := fun h => by have := q.occ i (Or.inl h); rw [hr] at this; cases this
      have n3 : i ∉ B1 := fun h => by have := q.occ i (Or.inr h); rw [hr] at this; cases this
      simp [-List.getD_eq_getElem?_getD, hd, n1, n3]
    · rcases q.cov0 i hi' hr with h | h
      · have n4 : i ∉ B0 := q.dis0 i h
        have n3 : i ∉ B1 := fun h' => by have := q.occ i (Or.inr h'); rw [hr] at this; cases this
        simp [-List.getD_eq_getElem?_getD, hd, h, n4, n3]
      · simp [-List.getD_eq_getElem?_getD, hd, h]
    · rcases q.cov1 i hi' hr with h | h
      · have n3 : i ∉ B1 := q.dis1 i h
        have n4 : i ∉ B0 := fun h' => by have := q.emp i (Or.inr h'); rw [hr] at this; cases this
        have n2 : i ∉ A0 := fun h' => by have := q.emp i (Or.inl h'); rw [hr] at this; cases this
        simp [-List.getD_eq_getElem?_getD, hd, h, n4, n3, n2]
      · have n4 : i ∉ B0 := fun h' => by have := q.emp i (Or.inr h'); rw [hr] at this; cases this
        simp [-List.getD_eq_getElem?_getD, hd, h, n4]
    · have n2 : i ∉ A0 := fun h => by have := q.emp i (Or.inl h); rw [hr] at this; cases this
      have n4 : i ∉ B0 := fun h => by have := q.emp i (Or.inr h); rw [hr] at this; cases this
      simp [-List.getD_eq_getElem?_getD, hd, n2, n4]

end quad

end OFV.C10

namespace OFV.C10
open OFV.Model OFV.Model.C10 OFV.Spec OFV.Spec.C10

/-! ### generic: no duplicates when the element determines the index it came from -/

theorem nodup_flatMap_key {α β : Type} (l : List α) (f : α → List β) (key : β → α) (hl : l.Nodup)
    (hf : ∀ a ∈ l, (f a).Nodup) (hkey : ∀ a ∈ l, ∀ b ∈ f a, key b = a) : (l.flatMap f).Nodup := by
  show List.Pairwise (· ≠ ·) _
  rw [List.pairwise_flatMap]
  refine ⟨hf, ?_⟩
  apply List.Pairwise.imp_of_mem _ hl
  intro a1 a2 h1 h2 hne x hx y hy hxy
  subst hxy
  exact hne ((hkey a1 h1 x hx).symm.trans (hkey a2 h2 x hy))

theorem nodup_map_key {α β : Type} (l : List α) (g : α → β) (key : β → α) (hl : l.Nodup)
    (hkey : ∀ a ∈ l, key (g a) = a) : (l.map g).Nodup := by
  show List.Pairwise (· ≠ ·) _
  rw [List.pairwise_map]
  apply List.Pairwise.imp_of_mem _ hl
  intro a1 a2 h1 h2 hne heq
  exact hne ((hkey a1 h1).symm.trans (heq ▸ hkey a2 h2))

/-! ### the concrete pools -/

def occA (ref : Det) : List Nat := (whereTrue (evens ref)).map (· * 2)
def unoccA (ref : Det) : List Nat := (whereFalse (evens ref)).map (· * 2)
def occB (ref : Det) : List Nat := (whereTrue (odds ref)).map (· * 2 + 1)
def unoccB (ref : Det) : List Nat := (whereFalse (odds ref)).map (· * 2 + 1)

theorem getD_map_range_bool (n : Nat) (f : Nat → Bool) (k : Nat) (h : k < n) :
    ((List.range n).map f).getD k false = f k := by
  simp [List.getD_eq_getElem?_getD, h]

theorem mem_occA (ref : Det) (i : Nat) :
    i ∈ occA ref ↔ i % 2 = 0 ∧ i < ref.length ∧ ref.getD i false = true := by
  unfold occA
  simp only [List.mem_map, mem_whereTrue]
  constructor
  · rintro ⟨k, ⟨hk, hv⟩, rfl⟩
    have hk' : k < (ref.length + 1) / 2 := by simpa [evens] using hk
    rw [evens, getD_map_range_bool _ _ k hk'] at hv
    refine ⟨by omega, by omega, ?_⟩
    rw [Nat.mul_comm]; exact hv
  · rintro ⟨h1, h2, h3⟩
    refine ⟨i / 2, ⟨?_, ?_⟩, by omega⟩
    · simp [evens]; omega
    · rw [evens, getD_map_range_bool _ _ _ (by omega)]
      have : 2 * (i / 2) = i := by omega
      rw [this]; exact h3

theorem mem_unoccA (ref : Det) (i : Nat) :
    i ∈ unoccA ref ↔ i % 2 = 0 ∧ i < ref.length ∧ ref.getD i false = false := by
  unfold unoccA
  simp only [List.mem_map, mem_whereFalse]
  constructor
  · rintro ⟨k, ⟨hk, hv⟩, rfl⟩
    have hk' : k < (ref.length + 1) / 2 := by simpa [evens] using hk
    rw [evens, getD_map_range_bool _ _ k hk'] at hv
    refine ⟨by omega, by omega, ?_⟩
    rw [Nat.mul_comm]; exact hv
  · rintro ⟨h1, h2, h3⟩
    refine ⟨i / 2, ⟨?_, ?_⟩, by omega⟩
    · simp [evens]; omega
    · rw [evens, getD_map_range_bool _ _ _ (by omega)]
      have : 2 * (i / 2) = i := by omega
      rw [this]; exact h3

theorem mem_occB (ref : Det) (i : Nat) :
    i ∈ occB ref ↔ i % 2 = 1 ∧ i < ref.length ∧ ref.getD i false = true := by
  unfold occB
  simp only [List.mem_map, mem_whereTrue]
  constructor
  · rintro ⟨k, ⟨hk, hv⟩, rfl⟩
    have hk' : k < ref.length / 2 := by simpa [odds] using hk
    rw [odds, getD_map_range_bool _ _ k hk'] at hv
    refine ⟨by omega, by omega, ?_⟩
    rw [Nat.mul_comm]; exact hv
  · rintro ⟨h1, h2, h3⟩
    refine ⟨i / 2, ⟨?_, ?_⟩, by omega⟩
    · simp [odds]; omega
    · rw [odds, getD_map_range_bool _ _ _ (by omega)]
      have : 2 * (i / 2) + 1 = i := by omega
      rw [this]; exact h3

theorem mem_unoccB (ref : Det) (i : Nat) :
    i ∈ unoccB ref ↔ i % 2 = 1 ∧ i < ref.length ∧ ref.getD i false = false := by
  unfold unoccB
  simp only [List.mem_map, mem_whereFalse]
  constructor
  · rintro ⟨k, ⟨hk, hv⟩, rfl⟩
    have hk' : k < ref.length / 2 := by simpa [odds] using hk
    rw [odds, getD_map_range_bool _ _ k hk'] at hv
    refine ⟨by omega, by omega, ?_⟩
    rw [Nat.mul_comm]; exact hv
  · rintro ⟨h1, h2, h3⟩
    refine ⟨i / 2, ⟨?_, ?_⟩, by omega⟩
    · simp [odds]; omega
    · rw [odds, getD_map_range_bool _ _ _ (by omega)]
      have : 2 * (i / 2) + 1 = i := by omega
      rw [this]; exact h3

theorem nodup_map_inj (l : List Nat) (f : Nat → Nat) (hl : l.Nodup) (hf : ∀ a b, f a = f b → a = b) :
    (l.map f).Nodup := by
  show List.Pairwise (· ≠ ·) _
  rw [List.pairwise_map]
  exact hl.imp (fun {a b} hab h => hab (hf a b h))

theorem quad_pools (ref : Det) : Quad ref (occA ref) (unoccA ref) (occB ref) (unoccB ref) := by
  refine ⟨nodup_map_inj _ _ (nodup_whereTrue _) (by intro a b h; omega),
    nodup_map_inj _ _ (nodup_whereFalse _) (by intro a b h; omega),
    nodup_map_inj _ _ (nodup_whereTrue _) (by intro a b h; omega),
    nodup_map_inj _ _ (nodup_whereFalse _) (by intro a b h; omega), ?_, ?_, ?_, ?_, ?_, ?_, ?_⟩
  · intro i h
    rcases h with h | h | h | h
    · exact ((mem_occA ref i).mp h).2.1
    · exact ((mem_unoccA ref i).mp h).2.1
    · exact ((mem_occB ref i).mp h).2.1
    · exact ((mem_unoccB ref i).mp h).2.1
  · intro i h
    rcases h with h | h
    · exact ((mem_occA ref i).mp h).2.2
    · exact ((mem_occB ref i).mp h).2.2
  · intro i h
    rcases h with h | h
    · exact ((mem_unoccA ref i).mp h).2.2
    · exact ((mem_unoccB ref i).mp h).2.2
  · intro i h h'
    have := ((mem_occA ref i).mp h).1
    have := ((mem_occB ref i).mp h').1
    omega
  · intro i h h'
    have := ((mem_unoccA ref i).mp h).1
    have := ((mem_unoccB ref i).mp h').1
    omega
  · intro i hi hr
    by_cases he : i % 2 = 0
    · exact Or.inl ((mem_occA ref i).mpr ⟨he, hi, hr⟩)
    · exact Or.inr ((mem_occB ref i).mpr ⟨by omega, hi, hr⟩)
  · intro i hi hr
    by_cases he : i % 2 = 0
    · exact Or.inl ((mem_unoccA ref i).mpr ⟨he, hi, hr⟩)
    · exact Or.inr ((mem_unoccB ref i).mpr ⟨by omega, hi, hr⟩)

/-- alpha / beta orbitals of the reference vacated / filled by `d` -/
def vacA (ref d : Det) : List Nat := (occA ref).filter fun i => !d.getD i false
def filA (ref d : Det) : List Nat := (unoccA ref).filter fun i => d.getD i false
def vacB (ref d : Det) : List Nat := (occB ref).filter fun i => !d.getD i false
def filB (ref d : Det) : List Nat := (unoccB ref).filter fun i => d.getD i false

theorem spinOrder_eq (ref : Det) (a b : Nat) :
    iterateBasisSpinOrder ref a b =
      (combinations (occA ref) a).flatMap fun ao => (combinations (unoccA ref) a).flatMap fun au =>
        (combinations (occB ref) b).flatMap fun bo => (combinations (unoccB ref) b).map fun bu =>
          build4 ref ao au bo bu := rfl

theorem mem_spinOrder (ref d : Det) (a b : Nat) :
    d ∈ iterateBasisSpinOrder ref a b ↔
      d.length = ref.length ∧ (vacA ref d).length = a ∧ (filA ref d).length = a ∧
        (vacB ref d).length = b ∧ (filB ref d).length = b := by
  have q := quad_pools ref
  rw [spinOrder_eq]
  simp only [List.mem_flatMap, List.mem_map]
  constructor
  · rintro ⟨ao, hao, au, hau, bo, hbo, bu, hbu, rfl⟩
    obtain ⟨s1, l1⟩ := (mem_combinations _ ao a).mp hao
    obtain ⟨s2, l2⟩ := (mem_combinations _ au a).mp hau
    obtain ⟨s3, l3⟩ := (mem_combinations _ bo b).mp hbo
    obtain ⟨s4, l4⟩ := (mem_combinations _ bu b).mp hbu
    obtain ⟨d1, d2, d3, d4⟩ := decode4 q s1 s2 s3 s4
    refine ⟨by simp [build4, length_setAll], ?_, ?_, ?_, ?_⟩
    · unfold vacA; rw [d1, l1]
    · unfold filA; rw [d2, l2]
    · unfold vacB; rw [d3, l3]
    · unfold filB; rw [d4, l4]
  · rintro ⟨hl, h1, h2, h3, h4⟩
    exact ⟨vacA ref d, (mem_combinations _ _ a).mpr ⟨List.filter_sublist, h1⟩,
      filA ref d, (mem_combinations _ _ a).mpr ⟨List.filter_sublist, h2⟩,
      vacB ref d, (mem_combinations _ _ b).mpr ⟨List.filter_sublist, h3⟩,
      filB ref d, (mem_combinations _ _ b).mpr ⟨List.filter_sublist, h4⟩, rebuild4 q d hl⟩

theorem nodup_spinOrder (ref : Det) (a b : Nat) : (iterateBasisSpinOrder ref a b).Nodup := by
  have q := quad_pools ref
  rw [spinOrder_eq]
  apply nodup_flatMap_key _ _ (vacA ref) (nodup_combinations _ a q.ndA1)
  · intro ao hao
    have s1 := ((mem_combinations _ ao a).mp hao).1
    apply nodup_flatMap_key _ _ (filA ref) (nodup_combinations _ a q.ndA0)
    · intro au hau
      have s2 := ((mem_combinations _ au a).mp hau).1
      apply nodup_flatMap_key _ _ (vacB ref) (nodup_combinations _ b q.ndB1)
      · intro bo hbo
        have s3 := ((mem_combinations _ bo b).mp hbo).1
        apply nodup_map_key _ _ (filB ref) (nodup_combinations _ b q.ndB0)
        intro bu hbu
        exact (decode4 q s1 s2 s3 ((mem_combinations _ bu b).mp hbu).1).2.2.2
      · intro bo hbo x hx
        rcases List.mem_map.mp hx with ⟨bu, hbu, rfl⟩
        exact (decode4 q s1 s2 ((mem_combinations _ bo b).mp hbo).1 ((mem_combinations _ bu b).mp hbu).1).2.2.1
    · intro au hau x hx
      rcases List.mem_flatMap.mp hx with ⟨bo, hbo, hx⟩
      rcases List.mem_map.mp hx with ⟨bu, hbu, rfl⟩
      exact (decode4 q s1 ((mem_combinations _ au a).mp hau).1 ((mem_combinations _ bo b).mp hbo).1
        ((mem_combinations _ bu b).mp hbu).1).2.1
  · intro ao hao x hx
    rcases List.mem_flatMap.mp hx with ⟨au, hau, hx⟩
    rcases List.mem_flatMap.mp hx with ⟨bo, hbo, hx⟩
    rcases List.mem_map.mp hx with ⟨bu, hbu, rfl⟩
    exact (decode4 q ((mem_combinations _ ao a).mp hao).1 ((mem_combinations _ au a).mp hau).1
      ((mem_combinations _ bo b).mp hbo).1 ((mem_combinations _ bu b).mp hbu).1).1

end OFV.C10

namespace OFV.C10
open OFV.Model OFV.Model.C10 OFV.Spec OFV.Spec.C10

theorem length_whereTrue (d : Det) : (whereTrue d).length = countTrue d := (countTrue_eq_range d).symm

theorem length_vacA_le (ref d : Det) : (vacA ref d).length ≤ countTrue (evens ref) := by
  have := List.length_filter_le (fun i => !d.getD i false) (occA ref)
  unfold vacA
  rw [show (occA ref).length = countTrue (evens ref) by simp [occA, length_whereTrue]] at this
  exact this

theorem length_vacB_le (ref d : Det) : (vacB ref d).length ≤ countTrue (odds ref) := by
  have := List.length_filter_le (fun i => !d.getD i false) (occB ref)
  unfold vacB
  rw [show (occB ref).length = countTrue (odds ref) by simp [occB, length_whereTrue]] at this
  exact this

theorem iterateBasis_spin_def (ref : Det) (level : Nat) :
    iterateBasis ref level true =
      (List.range (level + 1)).flatMap fun order =>
        (List.range (min (countTrue (evens ref)) level + 1)).flatMap fun ao =>
          if ao > order || order - ao > min (countTrue (odds ref)) level then []
          else iterateBasisSpinOrder ref ao (order - ao) := by
  simp [iterateBasis]

/-- `_iterate_basis_(ref, level, spin_preserving=True)` -/
theorem iterateBasis_spin (ref : Det) (level : Nat) :
    (iterateBasis ref level true).Nodup ∧ ∀ d, d ∈ iterateBasis ref level true ↔
      d.length = ref.length ∧ (vacA ref d).length = (filA ref d).length ∧
        (vacB ref d).length = (filB ref d).length ∧ (vacA ref d).length + (vacB ref d).length ≤ level := by
  rw [iterateBasis_spin_def]
  have inner : ∀ order ao d, d ∈ (if ao > order || order - ao > min (countTrue (odds ref)) level then []
      else iterateBasisSpinOrder ref ao (order - ao)) →
      ao ≤ order ∧ d.length = ref.length ∧ (vacA ref d).length = ao ∧ (filA ref d).length = ao ∧
        (vacB ref d).length = order - ao ∧ (filB ref d).length = order - ao := by
    intro order ao d hd
    split at hd
    · cases hd
    · next hg =>
      simp only [Bool.or_eq_true, decide_eq_true_eq, not_or, Nat.not_lt] at hg
      exact ⟨hg.1, (mem_spinOrder ref d ao (order - ao)).mp hd⟩
  refine ⟨?_, ?_⟩
  · apply nodup_flatMap_key _ _ (fun d => (vacA ref d).length + (vacB ref d).length) List.nodup_range
    · intro order _
      apply nodup_flatMap_key _ _ (fun d => (vacA ref d).length) List.nodup_range
      · intro ao _
        split
        · exact List.nodup_nil
        · exact nodup_spinOrder ref ao (order - ao)
      · intro ao _ d hd
        exact (inner order ao d hd).2.2.1
    · intro order _ d hd
      rcases List.mem_flatMap.mp hd with ⟨ao, _, hd⟩
      obtain ⟨h0, _, h1, _, h3, _⟩ := inner order ao d hd
      show (vacA ref d).length + (vacB ref d).length = order
      omega
  · intro d
    simp only [List.mem_flatMap, List.mem_range]
    constructor
    · rintro ⟨order, ho, ao, _, hd⟩
      obtain ⟨h0, hl, h1, h2, h3, h4⟩ := inner order ao d hd
      exact ⟨hl, by omega, by omega, by omega⟩
    · rintro ⟨hl, h1, h2, h3⟩
      have hA := length_vacA_le ref d
      have hB := length_vacB_le ref d
      refine ⟨(vacA ref d).length + (vacB ref d).length, by omega, (vacA ref d).length,
        by have := Nat.le_min.mpr ⟨hA, (by omega : (vacA ref d).length ≤ level)⟩; omega, ?_⟩
      have hg : ¬ ((vacA ref d).length > (vacA ref d).length + (vacB ref d).length ∨
          (vacA ref d).length + (vacB ref d).length - (vacA ref d).length > min (countTrue (odds ref)) level) := by
        have := Nat.le_min.mpr ⟨hB, (by omega : (vacB ref d).length ≤ level)⟩
        omega
      rw [if_neg (by simpa using hg)]
      have e : (vacA ref d).length + (vacB ref d).length - (vacA ref d).length = (vacB ref d).length := by omega
      rw [e]
      exact (mem_spinOrder ref d _ _).mpr ⟨hl, rfl, h1.symm, rfl, h2.symm⟩

end OFV.C10
