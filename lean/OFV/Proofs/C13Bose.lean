/-
C13 — operator-level soundness of the `bose_hubbard` Model.
-/
import OFV.Proofs.C13Sound
set_option linter.unusedSimpArgs false
set_option linter.unusedVariables false
namespace OFV.C13
open OFV.Model OFV.Model.C13 OFV.Spec.C13 OFV.GQ

/-- the operators `bose_hubbard` adds for one site, in order (`a.u` = on-site `U`, `a.h` = dipole `V`) -/
def bosePieces (tol : Rat) (a : HubbardArgs) (site : Nat) : List Op :=
  (siteBonds a.x a.y a.periodic site).flatMap (fun b =>
    [hoppingTerm tol .boson b.1 b.2 (-a.t), coulombTerm tol .boson b.1 b.2 a.h false])
  ++ [mulOp .boson (numberOp .boson site (half * a.u)) (isub tol (numberOp .boson site 1) (Model.mk .boson [] 1)),
      numberOp .boson site (-a.mu)]

theorem bose_eq_sumOps (tol : Rat) (a : HubbardArgs) :
    boseHubbard tol a = sumOps tol ((List.range (a.x * a.y)).flatMap (bosePieces tol a)) [] := by
  unfold boseHubbard sumOps
  rw [List.foldl_flatMap]
  congr 1
  funext H site
  unfold bosePieces siteBonds
  cases h1 : (siteNeighbors site a.x a.y a.periodic).1 <;> cases h2 : (siteNeighbors site a.x a.y a.periodic).2 <;>
    simp [List.foldl_append, h1, h2]

def boseBondDen (tol : Rat) (φ : Term → GQ) (a : HubbardArgs) (b : Nat × Nat) : GQ :=
  den φ (hoppingTerm tol .boson b.1 b.2 (-a.t)) + den φ (coulombTerm tol .boson b.1 b.2 a.h false)

def boseSiteDen (tol : Rat) (φ : Term → GQ) (a : HubbardArgs) (s : Nat) : GQ :=
  den φ (mulOp .boson (numberOp .boson s (half * a.u)) (isub tol (numberOp .boson s 1) (Model.mk .boson [] 1))) +
  den φ (numberOp .boson s (-a.mu))

/-- **hubbard_sound (`bose_hubbard`, every lattice size)**: in the exact regime, for every term functional `φ` whose
bond contribution is orientation independent, the Model's output denotes the sum over the Spec edge set of
(hopping + dipole repulsion) plus the on-site `U/2 n(n-1) - μ n` terms of every site -/
theorem bose_den_spec_edges (tol : Rat) (φ : Term → GQ) (a : HubbardArgs)
    (hex : ExactSum tol [] ((List.range (a.x * a.y)).flatMap (bosePieces tol a)))
    (hsym : ∀ i j, boseBondDen tol φ a (i, j) = boseBondDen tol φ a (j, i)) :
    den φ (boseHubbard tol a) =
      gsumL ((edges adjNN a.x a.y a.periodic).map (boseBondDen tol φ a)) +
      gsumL ((List.range (a.x * a.y)).map (boseSiteDen tol φ a)) := by
  rw [bose_eq_sumOps, den_sumOps tol φ _ _ hex, den_nil, zero_add', List.map_flatMap, gsumL_flatMap]
  have hsite : ∀ s, gsumL ((bosePieces tol a s).map (den φ)) =
      gsumL ((siteBonds a.x a.y a.periodic s).map (boseBondDen tol φ a)) + boseSiteDen tol φ a s := by
    intro s
    unfold bosePieces
    rw [List.map_append, gsumL_append, List.map_flatMap, gsumL_flatMap]
    simp [gsumL, add_zero']
    rfl
  simp only [hsite]
  rw [gsumL_map_add]
  congr 1
  have hnorm : ∀ b, boseBondDen tol φ a (norm b) = boseBondDen tol φ a b := by
    intro b
    unfold norm
    split
    · rfl
    · exact hsym b.2 b.1
  have h0 : gsumL ((List.range (a.x * a.y)).map fun s => gsumL ((siteBonds a.x a.y a.periodic s).map (boseBondDen tol φ a))) =
      gsumL ((bonds a.x a.y a.periodic).map (boseBondDen tol φ a)) := by
    unfold bonds
    rw [List.map_flatMap, gsumL_flatMap]
  rw [h0]
  have h1 : (bonds a.x a.y a.periodic).map (boseBondDen tol φ a) =
      ((bonds a.x a.y a.periodic).map norm).map (boseBondDen tol φ a) := by
    rw [List.map_map]; exact List.map_congr_left (fun b _ => (hnorm b).symm)
  rw [h1]
  exact gsumL_perm ((bonds_perm_edges a.x a.y a.periodic).map _)


/-- `n_i n_j` as BosonOperator stores it: factors sorted by mode -/
def nnKey (i j : Nat) : Term := if i ≤ j then [(i, 1), (i, 0), (j, 1), (j, 0)] else [(j, 1), (j, 0), (i, 1), (i, 0)]

/-- `b†_i b_j` as BosonOperator stores it -/
def hopKey (i j : Nat) : Term := if i ≤ j then [(i, 1), (j, 0)] else [(j, 0), (i, 1)]

theorem den_bose_coulomb (tol : Rat) (φ : Term → GQ) {i j : Nat} (hij : i ≠ j) (v : GQ) :
    den φ (coulombTerm tol .boson i j v false) = v * φ (nnKey i j) := by
  by_cases h : i ≤ j
  · have h' : i < j := Nat.lt_of_le_of_ne h hij
    have h2 : ¬ (j ≤ i) := by omega
    simp [coulombTerm, numberOp, Model.mk, simplify, sortF, insertF, mulOp, Model.smul, accum, Dict.get?, Dict.set, den,
      mul_one', one_mul', add_zero', nnKey, h, h2, Nat.le_refl]
  · have h2 : j ≤ i := by omega
    simp [coulombTerm, numberOp, Model.mk, simplify, sortF, insertF, mulOp, Model.smul, accum, Dict.get?, Dict.set, den,
      mul_one', one_mul', add_zero', nnKey, h, h2, Nat.le_refl]

theorem nnKey_comm {i j : Nat} (hij : i ≠ j) : nnKey i j = nnKey j i := by
  unfold nnKey
  by_cases h : i ≤ j
  · have : ¬ (j ≤ i) := by omega
    simp [h, this]
  · have : j ≤ i := by omega
    simp [h, this]

theorem den_bose_hopping (tol : Rat) (φ : Term → GQ) {i j : Nat} (hij : i ≠ j) (c : GQ)
    (hreg : GQ.isSmall tol c.conj = true → c.conj = 0) :
    den φ (hoppingTerm tol .boson i j c) = c * φ (hopKey i j) + c.conj * φ (hopKey j i) := by
  unfold hoppingTerm
  have hs : ∀ a b : Nat, (simplify .boson [(a, 1), (b, 0)]) = (1, hopKey a b) := by
    intro a b
    by_cases h : a ≤ b <;> simp [simplify, sortF, insertF, hopKey, h]
  have hk : hopKey i j ≠ hopKey j i := by
    unfold hopKey
    by_cases h : i ≤ j
    · have : ¬ (j ≤ i) := by omega
      simp [h, this]
    · have : j ≤ i := by omega
      simp [h, this]
  rw [den_iadd]
  · simp [Model.mk, hs, den, mul_one', add_zero']
  · simp only [Model.mk, hs, ExactAdd, Dict.getD, Dict.get?, hk, if_false, Option.getD, and_true, mul_one', zero_add']
    exact hreg

/-- for bosons the bond contribution is orientation independent for EVERY term functional (real hopping amplitude):
both orientations produce the same stored keys -/
theorem boseBondDen_symm (tol : Rat) (φ : Term → GQ) (a : HubbardArgs) (ht : a.t.conj = a.t)
    (hreg : GQ.isSmall tol (-a.t) = true → -a.t = 0) (i j : Nat) :
    boseBondDen tol φ a (i, j) = boseBondDen tol φ a (j, i) := by
  by_cases hij : i = j
  · rw [hij]
  · have hc : (-a.t).conj = -a.t := by rw [conj_neg', ht]
    have hreg' : GQ.isSmall tol (-a.t).conj = true → (-a.t).conj = 0 := by rw [hc]; exact hreg
    simp only [boseBondDen, den_bose_coulomb tol φ hij, den_bose_coulomb tol φ (Ne.symm hij),
      den_bose_hopping tol φ hij _ hreg', den_bose_hopping tol φ (Ne.symm hij) _ hreg', hc, nnKey_comm hij]
    rw [add_comm' ((-a.t) * φ (hopKey i j))]

/-- **hubbard_sound (`bose_hubbard`)** for every term functional `φ` -/
theorem bose_hubbard_sound' (tol : Rat) (φ : Term → GQ) (a : HubbardArgs)
    (hex : ExactSum tol [] ((List.range (a.x * a.y)).flatMap (bosePieces tol a)))
    (ht : a.t.conj = a.t) (hreg : GQ.isSmall tol (-a.t) = true → -a.t = 0) :
    den φ (boseHubbard tol a) =
      gsumL ((edges adjNN a.x a.y a.periodic).map fun e =>
        ((-a.t) * φ (hopKey e.1 e.2) + (-a.t) * φ (hopKey e.2 e.1)) + a.h * φ (nnKey e.1 e.2)) +
      gsumL ((List.range (a.x * a.y)).map (boseSiteDen tol φ a)) := by
  rw [bose_den_spec_edges tol φ a hex (boseBondDen_symm tol φ a ht hreg)]
  congr 2
  apply List.map_congr_left
  intro e he
  have hlt : e.1 < e.2 := by
    simp only [edges, List.mem_filter, mem_pairs] at he
    exact he.1.1
  have hij : e.1 ≠ e.2 := Nat.ne_of_lt hlt
  have hc : (-a.t).conj = -a.t := by rw [conj_neg', ht]
  have hreg' : GQ.isSmall tol (-a.t).conj = true → (-a.t).conj = 0 := by rw [hc]; exact hreg
  simp only [boseBondDen, den_bose_coulomb tol φ hij, den_bose_hopping tol φ hij _ hreg', hc]


end OFV.C13
