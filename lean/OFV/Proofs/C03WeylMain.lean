/- C03 — canonicity for bosons and quadratures: the assembled statements. -/
import OFV.Proofs.C03WeylCanon3

namespace OFV
namespace Proofs
namespace C03
open Model Model.C03 Spec
open Proofs.C02 (Adj)

/-! ### the two ladder rules -/

theorem ofInt_ne_zero (k : Nat) (hk : 0 < k) : GQ.ofInt (k : Int) ≠ 0 := by
  intro h
  have := congrArg GQ.re h
  simp [GQ.ofInt] at this
  omega

def LB : LadderRule := ⟨fun a => a != 0, fun k => GQ.ofInt (k : Int), ofInt_ne_zero⟩

theorem LB_rule : LB.rule = gBn := by
  funext a k
  unfold LadderRule.rule LB gBn
  by_cases ha : a = 0 <;> simp [ha]

theorem gq_I_ne_zero : (-GQ.I) ≠ 0 := by
  intro h; have := congrArg GQ.im h; simp at this

def LQ (hbar : GQ) (hh : hbar ≠ 0) : LadderRule :=
  ⟨fun a => a == 0, fun k => (-GQ.I) * hbar * GQ.ofInt (k : Int),
    fun k hk => gq_mul_ne_zero _ _ (gq_mul_ne_zero _ _ gq_I_ne_zero hh) (ofInt_ne_zero k hk)⟩

theorem LQ_rule (hbar : GQ) (hh : hbar ≠ 0) : (LQ hbar hh).rule = gQn hbar := by
  funext a k
  unfold LadderRule.rule LQ gQn
  by_cases ha : a = 0 <;> simp [ha]

theorem LB_sep : Separates LB := by unfold Separates LB; simp
theorem LQ_sep (hbar : GQ) (hh : hbar ≠ 0) : Separates (LQ hbar hh) := by unfold Separates LQ; simp

/-! ### the stored terms of a normal-ordered Boson / QuadOperator are normal -/

def NoLowHighK (k : Kind) (l x : Factor) : Prop := ¬ (k.high x.2 = true ∧ k.high l.2 = false)

theorem noLowHighK_trans (k : Kind) (a b c : Factor) (_ : True) (_ : True) (_ : True)
    (h1 : NoLowHighK k a b) (h2 : NoLowHighK k b c) : NoLowHighK k a c := by
  unfold NoLowHighK at *
  intro ⟨hc, ha⟩
  cases hb : k.high b.2
  · exact h2 ⟨hc, hb⟩
  · exact h1 ⟨hb, ha⟩

theorem final_okW (k : Kind) (L : LadderRule) (hhigh : ∀ a, L.high a = k.high a) (t : Term)
    (ha : Adj (okK k) t) : (sortF t).Pairwise (okW L) := by
  have h1 : Adj (NoLowHighK k) t := Proofs.C02.adj_mono _ _ (fun l x h => h.1) t ha
  have h2 : t.Pairwise (NoLowHighK k) :=
    (Proofs.C02.adj_iff_pairwise (NoLowHighK k) (fun _ => True) (noLowHighK_trans k) t
      (fun _ _ => trivial)).1 h1
  refine (sortF_stable (NoLowHighK k) t h2).imp ?_
  rintro l r (hlt | ⟨heq, hp⟩)
  · exact ⟨by omega, fun e => by omega⟩
  · refine ⟨by omega, fun _ hr => ?_⟩
    rw [hhigh] at hr ⊢
    cases hl : k.high l.2
    · exact absurd ⟨hr, hl⟩ hp
    · rfl

theorem normalOrdered_okW (tol : Rat) (k : Kind) (hk : k.cls = .boson ∨ k.cls = .quad) (L : LadderRule)
    (hhigh : ∀ a, L.high a = k.high a) (a : Op) :
    ∀ e ∈ normalOrdered tol k a, e.1.Pairwise (okW L) := by
  apply normalOrdered_norm tol k (fun t => t.Pairwise (okW L))
  intro t ht
  have : (simplify k.cls t).2 = sortF t := by
    rcases hk with h | h <;> rw [h] <;> rfl
  rw [this]
  exact final_okW k L hhigh t ht

theorem normalOrdered_valid_sorted (tol : Rat) (k : Kind) (hk : k.cls = .boson ∨ k.cls = .quad) (a : Op)
    (hv : ∀ e ∈ a, ∀ f ∈ e.1, f.2 < 2) : ∀ e ∈ normalOrdered tol k a, ∀ f ∈ e.1, f.2 < 2 := by
  apply normalOrdered_valid tol k (fun f => f.2 < 2) _ a hv
  intro t ht f hf
  have : (simplify k.cls t).2 = sortF t := by
    rcases hk with h | h <;> rw [h] <;> rfl
  rw [this] at hf
  exact ht f ((sortF_perm t).mem_iff.1 hf)

/-! ### coefficients depend only on the coefficient function -/

theorem contribW_eq (act : Nat → Nat → Mono → Option (GQ × Mono)) (s out : Mono) (e : Term × GQ) :
    contribW act s out e = e.2 * contribW act s out (e.1, 1) := by
  unfold contribW
  cases actTermWith act e.1 s with
  | none => simp
  | some p =>
    obtain ⟨k, s'⟩ := p
    by_cases h : s' = out <;> simp [h]

theorem applyOp_coeff_congr (alg : Alg) (act : Nat → Nat → Mono → Option (GQ × Mono))
    (hact : ∀ t s, actTerm alg t s = actTermWith act t s) (X Y : Op) (wx : Dict.WF X) (wy : Dict.WF Y)
    (h : ∀ t, Dict.getD X t 0 = Dict.getD Y t 0) (s out : Mono) :
    GV.coeff (applyOp alg X s) out = GV.coeff (applyOp alg Y s) out := by
  classical
  let Lk : List Term := Dict.keys X ++ (Dict.keys Y).filter (fun t => t ∉ Dict.keys X)
  have hLn : Lk.Nodup := by
    apply List.Nodup.append wx (List.Nodup.filter _ wy)
    intro t ht1 ht2
    have := (List.mem_filter.1 ht2).2
    simp at this
    exact this ht1
  have hLX : ∀ e ∈ X, e.1 ∈ Lk := fun e he => List.mem_append_left _ (List.mem_map.2 ⟨e, he, rfl⟩)
  have hLY : ∀ e ∈ Y, e.1 ∈ Lk := by
    intro e he
    have hk : e.1 ∈ Dict.keys Y := List.mem_map.2 ⟨e, he, rfl⟩
    by_cases hA : e.1 ∈ Dict.keys X
    · exact List.mem_append_left _ hA
    · exact List.mem_append_right _ (List.mem_filter.2 ⟨hk, by simpa using hA⟩)
  rw [applyOp_coeff alg act hact, applyOp_coeff alg act hact]
  have cX : (X.map (contribW act s out)) = X.map (fun e => e.2 * contribW act s out (e.1, 1)) :=
    List.map_congr_left (fun e _ => contribW_eq act s out e)
  have cY : (Y.map (contribW act s out)) = Y.map (fun e => e.2 * contribW act s out (e.1, 1)) :=
    List.map_congr_left (fun e _ => contribW_eq act s out e)
  rw [cX, cY, ← sum_getD X wx Lk hLn hLX (fun t => contribW act s out (t, 1)),
    ← sum_getD Y wy Lk hLn hLY (fun t => contribW act s out (t, 1))]
  congr 1
  apply List.map_congr_left
  intro t _
  rw [h t]

/-! ### canonicity -/

theorem canonicity_boson_iff (a b : Op) (va : ∀ e ∈ a, ∀ f ∈ e.1, f.2 < 2) (vb : ∀ e ∈ b, ∀ f ∈ e.1, f.2 < 2) :
    (∀ s out, Trimmed s → Trimmed out →
      GV.coeff (applyOp .boson a s) out = GV.coeff (applyOp .boson b s) out) ↔
    ∀ t, Dict.getD (normalOrdered 0 .boson a) t 0 = Dict.getD (normalOrdered 0 .boson b) t 0 := by
  have wa := wf_normalOrdered 0 .boson a
  have wb := wf_normalOrdered 0 .boson b
  constructor
  · intro h
    apply weyl_canonicity LB LB_sep .boson actB (fun _ _ => rfl)
      (fun X hX s out => by rw [LB_rule]; exact contribW_actB_valid X hX s out)
      _ _ wa wb (normalOrdered_valid_sorted 0 .boson (Or.inl rfl) a va)
      (normalOrdered_valid_sorted 0 .boson (Or.inl rfl) b vb)
      (normalOrdered_okW 0 .boson (Or.inl rfl) LB (fun _ => rfl) a)
      (normalOrdered_okW 0 .boson (Or.inl rfl) LB (fun _ => rfl) b)
    intro s out hs ho
    rw [normalOrdered_sound_boson_spec a va s out hs ho, normalOrdered_sound_boson_spec b vb s out hs ho]
    exact h s out hs ho
  · intro h s out hs ho
    rw [← normalOrdered_sound_boson_spec a va s out hs ho, ← normalOrdered_sound_boson_spec b vb s out hs ho]
    exact applyOp_coeff_congr .boson actB (fun _ _ => rfl) _ _ wa wb h s out

theorem canonicity_quad_iff (hbar : GQ) (hh : hbar ≠ 0) (a b : Op)
    (va : ∀ e ∈ a, ∀ f ∈ e.1, f.2 < 2) (vb : ∀ e ∈ b, ∀ f ∈ e.1, f.2 < 2) :
    (∀ s out, Trimmed s → Trimmed out →
      GV.coeff (applyOp (.quad hbar) a s) out = GV.coeff (applyOp (.quad hbar) b s) out) ↔
    ∀ t, Dict.getD (normalOrdered 0 (.quad hbar) a) t 0 = Dict.getD (normalOrdered 0 (.quad hbar) b) t 0 := by
  have wa := wf_normalOrdered 0 (.quad hbar) a
  have wb := wf_normalOrdered 0 (.quad hbar) b
  constructor
  · intro h
    apply weyl_canonicity (LQ hbar hh) (LQ_sep hbar hh) (.quad hbar) (actQuad hbar) (fun _ _ => rfl)
      (fun X _ s out => by rw [LQ_rule, actQuad_eq])
      _ _ wa wb (normalOrdered_valid_sorted 0 (.quad hbar) (Or.inr rfl) a va)
      (normalOrdered_valid_sorted 0 (.quad hbar) (Or.inr rfl) b vb)
      (normalOrdered_okW 0 (.quad hbar) (Or.inr rfl) (LQ hbar hh) (fun _ => rfl) a)
      (normalOrdered_okW 0 (.quad hbar) (Or.inr rfl) (LQ hbar hh) (fun _ => rfl) b)
    intro s out hs ho
    rw [normalOrdered_sound_quad_spec hbar a s out hs ho, normalOrdered_sound_quad_spec hbar b s out hs ho]
    exact h s out hs ho
  · intro h s out hs ho
    rw [← normalOrdered_sound_quad_spec hbar a s out hs ho, ← normalOrdered_sound_quad_spec hbar b s out hs ho]
    exact applyOp_coeff_congr (.quad hbar) (actQuad hbar) (fun _ _ => rfl) _ _ wa wb h s out

end C03
end Proofs
end OFV
