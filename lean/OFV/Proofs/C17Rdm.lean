/- Helper lemmas for C17: algebra of the RDM mapping functions over the Gaussian rationals. -/
import OFV.Model.C17
import Mathlib.Tactic.Ring
import Mathlib.Algebra.Order.Field.Rat

namespace OFV
namespace Model
namespace C17

theorem delta_comm (i j : Nat) : delta i j = delta j i := by
  unfold delta
  by_cases h : i = j
  · subst h; rfl
  · have : ¬ j = i := fun h' => h h'.symm
    simp [h, this]

theorem gq_sub_sub_cancel (a b : GQ) : (a - b) + b = a := by
  refine GQ.ext ?_ ?_ <;> simp <;> ring

theorem gq_sub_of_sub (a b : GQ) : a - (a - b) = b := by
  refine GQ.ext ?_ ?_ <;> simp <;> ring

theorem gq_add_comm (a b : GQ) : a + b = b + a := by
  refine GQ.ext ?_ ?_ <;> simp <;> ring

/-- `term1 + term2 + term3` is invariant under the simultaneous exchange `p ↔ q`, `r ↔ s` -/
theorem term123_symm (opdm : C2) (p q r s : Nat) : term123 opdm q p s r = term123 opdm p q r s := by
  unfold term123
  rw [delta_comm p s, delta_comm q r, delta_comm q s, delta_comm p r]
  generalize delta s p = d1
  generalize delta r q = d2
  generalize delta s q = d3
  generalize delta r p = d4
  generalize opdm q r = x1
  generalize opdm p s = x2
  generalize opdm p r = x3
  generalize opdm q s = x4
  refine GQ.ext ?_ ?_ <;> simp <;> ring

/-- particle-hole maps are mutually inverse for ALL tensors -/
theorem ph_roundtrip (tpdm : C4) (opdm : C2) (p q r s : Nat) :
    phToTwoPdm (twoPdmToPh tpdm opdm) opdm p q r s = tpdm p q r s := by
  unfold phToTwoPdm twoPdmToPh
  exact gq_sub_of_sub _ _

theorem ph_roundtrip' (phdm : C4) (opdm : C2) (a b c d : Nat) :
    twoPdmToPh (phToTwoPdm phdm opdm) opdm a b c d = phdm a b c d := by
  unfold phToTwoPdm twoPdmToPh
  exact gq_sub_of_sub _ _

theorem oneMinus_involution (m : C2) (p q : Nat) : oneMinus (oneMinus m) p q = m p q := by
  unfold oneMinus
  rw [delta_comm q p]
  exact gq_sub_of_sub _ _

/-- two-hole maps: the round trip returns `tpdm[q, p, s, r]` -/
theorem two_hole_roundtrip_raw (tpdm : C4) (opdm : C2) (p q r s : Nat) :
    twoHoleToTwoPdm (twoPdmToTwoHole tpdm opdm) opdm p q r s = tpdm q p s r := by
  unfold twoHoleToTwoPdm twoPdmToTwoHole
  rw [term123_symm opdm p q r s]
  exact gq_sub_sub_cancel _ _

end C17
end Model
end OFV
