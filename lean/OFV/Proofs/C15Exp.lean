/-
C15 — exactness for commuting generators, with Mathlib's matrix exponential.
`stepU G τ` is the product of `exp (τ • g)` over the generator list `G` of one Trotter step.
-/
import OFV.Proofs.C15
import Mathlib.Analysis.Normed.Algebra.MatrixExponential
import Mathlib.Analysis.SpecialFunctions.Exponential

namespace OFV.C15
open OFV.Model.C15 Matrix NormedSpace

variable {d : Nat}

/-- the unitary of one Trotter step with generator list `G` and (complex) time `τ` -/
noncomputable def stepU (G : List (Matrix (Fin d) (Fin d) ℂ)) (τ : ℂ) : Matrix (Fin d) (Fin d) ℂ :=
  (G.map fun g => exp (τ • g)).prod

theorem stepU_eq_exp (G : List (Matrix (Fin d) (Fin d) ℂ)) (hc : G.Pairwise Commute) (τ : ℂ) :
    stepU G τ = exp (τ • G.sum) := by
  induction G with
  | nil => simp [stepU]
  | cons g G ih =>
    rw [List.pairwise_cons] at hc
    have hcomm : Commute (τ • g) (τ • G.sum) :=
      ((Commute.list_sum_right g G hc.1).smul_left τ).smul_right τ
    have : stepU (g :: G) τ = exp (τ • g) * stepU G τ := by simp [stepU]
    rw [this, ih hc.2, ← Matrix.exp_add_of_commute _ _ hcomm, List.sum_cons, smul_add]

theorem prod_stepU (G : List (Matrix (Fin d) (Fin d) ℂ)) (hc : G.Pairwise Commute) (ts : List ℂ) :
    (ts.map fun τ => stepU G τ).prod = exp (ts.sum • G.sum) := by
  induction ts with
  | nil => simp
  | cons τ ts ih =>
    have hcomm : Commute (τ • G.sum) (ts.sum • G.sum) :=
      ((Commute.refl G.sum).smul_left τ).smul_right ts.sum
    rw [List.map_cons, List.prod_cons, ih, stepU_eq_exp G hc, ← Matrix.exp_add_of_commute _ _ hcomm,
      List.sum_cons, add_smul]

/-- leaf times of the whole simulation add up to the evolution time -/
theorem simulateLoop_times_sum (perm : List Nat → List Nat) (r : Nat → Rat) (order : Nat) (st : Rat) :
    ∀ m q, ((simulateLoop perm r order st m q).1.map (·.time)).sum = m * st
  | 0, q => by simp [simulateLoop]
  | m + 1, q => by
    have h1 := times_sum perm r order q st
    unfold times at h1
    simp only [simulateLoop, List.map_append, List.sum_append, h1, simulateLoop_times_sum perm r order st m]
    push_cast; ring

theorem simulate_times_sum (perm : List Nat → List Nat) (r : Nat → Rat) (order nSteps : Nat)
    (hn : nSteps ≠ 0) (q : List Nat) (time : Rat) :
    ((simulate perm r order nSteps q time).1.map (·.time)).sum = time := by
  unfold simulate
  rw [simulateLoop_times_sum]
  have : (nSteps : Rat) ≠ 0 := by exact_mod_cast hn
  field_simp

/-- the Suzuki leaf-time recursion over an arbitrary commutative ring -/
def leafTimesK {K : Type} [CommRing K] (r : Nat → K) : Nat → K → List K
  | 0, t => [t]
  | 1, t => [t]
  | k + 2, t =>
    leafTimesK r (k + 1) (t * r (k + 2)) ++ leafTimesK r (k + 1) (t * r (k + 2))
      ++ leafTimesK r (k + 1) (t - 4 * (t * r (k + 2)))
      ++ leafTimesK r (k + 1) (t * r (k + 2)) ++ leafTimesK r (k + 1) (t * r (k + 2))

/-- `∏_{j=2}^{k} (4 r_j^p + (1 - 4 r_j)^p)` -/
def suzukiFactor {K : Type} [CommRing K] (r : Nat → K) (p : Nat) : Nat → K
  | 0 => 1
  | 1 => 1
  | k + 2 => (4 * r (k + 2) ^ p + (1 - 4 * r (k + 2)) ^ p) * suzukiFactor r p (k + 1)

theorem times_eq_leafTimesK (perm : List Nat → List Nat) (r : Nat → Rat) :
    ∀ k q t, (performStep perm r k q t).map (·.time) = leafTimesK r k t
  | 0, _, _ => rfl
  | 1, _, _ => rfl
  | k + 2, q, t => by
    simp only [performStep, List.map_append, times_eq_leafTimesK perm r (k + 1), leafTimesK]

theorem leafTimesK_power_sums {K : Type} [CommRing K] (r : Nat → K) (p : Nat) :
    ∀ k t, ((leafTimesK r k t).map (· ^ p)).sum = t ^ p * suzukiFactor r p k
  | 0, _ => by simp [leafTimesK, suzukiFactor]
  | 1, _ => by simp [leafTimesK, suzukiFactor]
  | k + 2, t => by
    simp only [leafTimesK, List.map_append, List.sum_append, leafTimesK_power_sums r p (k + 1), suzukiFactor]
    have : t - 4 * (t * r (k + 2)) = t * (1 - 4 * r (k + 2)) := by ring
    rw [this, mul_pow, mul_pow]
    ring

end OFV.C15
