/- C09, Bravyi-Kitaev code, part 1: rows of the matrices built by `_encoder_bk` / `_decoder_bk`
and the dot-product lemmas for block rows. -/
import OFV.Proofs.C09Inter

namespace OFV.C09
open OFV.Model.C09 OFV.Spec.C09

def ones (k : Nat) : List Nat := List.replicate k 1

/-- square `N x N` matrix -/
def Sq (M : Mat) (N : Nat) : Prop := M.length = N ∧ ∀ r, r < N → (M.getD r []).length = N

/-! ### dot products with block rows -/

theorem dot_comm (a b : List Nat) : dot a b = dot b a := by
  induction a generalizing b with
  | nil => simp
  | cons x a ih =>
    cases b with
    | nil => simp
    | cons y b => simp only [dot_cons, ih b, Nat.mul_comm]

theorem dot_zeros_right (a : List Nat) (n : Nat) : dot a (zeros n) = 0 := by
  rw [dot_comm, dot_zeros]

theorem dot_ones (x : List Nat) : dot (ones x.length) x = x.sum := by
  induction x with
  | nil => simp [ones]
  | cons b x ih =>
    simp only [ones, List.length_cons, List.replicate_succ, dot_cons, List.sum_cons] at ih ⊢
    rw [ih]; omega

theorem take_append_drop' (v : List Nat) (k : Nat) : v = v.take k ++ v.drop k := (List.take_append_drop k v).symm

/-- `(a ++ 0…0) · v = a · v[:|a|]` -/
theorem dot_append_zeros (a v : List Nat) (m : Nat) (h : a.length ≤ v.length) :
    dot (a ++ zeros m) v = dot a (v.take a.length) := by
  conv => lhs; rw [take_append_drop' v a.length]
  rw [dot_append _ _ _ _ (by simp [Nat.min_eq_left h]), dot_zeros]; simp

/-- `(0…0 ++ a) · v = a · v[N:]` -/
theorem dot_zeros_append (a v : List Nat) (N : Nat) (h : N ≤ v.length) :
    dot (zeros N ++ a) v = dot a (v.drop N) := by
  conv => lhs; rw [take_append_drop' v N]
  rw [dot_append _ _ _ _ (by simp [zeros, Nat.min_eq_left h]), dot_zeros]; simp

theorem dot_ones_append (a v : List Nat) (N : Nat) (h : N ≤ v.length) :
    dot (ones N ++ a) v = (v.take N).sum + dot a (v.drop N) := by
  conv => lhs; rw [take_append_drop' v N]
  rw [dot_append _ _ _ _ (by simp [ones, Nat.min_eq_left h])]
  have : ones N = ones (v.take N).length := by simp [Nat.min_eq_left h]
  rw [this, dot_ones]

theorem dot_unit_last (x : List Nat) (N : Nat) (hN : 0 < N) :
    dot (zeros (N - 1) ++ [1]) x = x.getD (N - 1) 0 := by
  induction N generalizing x with
  | zero => omega
  | succ k ih =>
    cases x with
    | nil => simp
    | cons b x =>
      cases k with
      | zero => simp [zeros]
      | succ k' =>
        have := ih x (by omega)
        simp only [Nat.add_sub_cancel] at this ⊢
        simp only [zeros, List.replicate_succ, List.cons_append, dot_cons] at this ⊢
        rw [this]; simp

theorem dot_unit_append (a v : List Nat) (N : Nat) (hN : 0 < N) (h : N ≤ v.length) :
    dot ((zeros (N - 1) ++ [1]) ++ a) v = v.getD (N - 1) 0 + dot a (v.drop N) := by
  conv => lhs; rw [take_append_drop' v N]
  rw [dot_append _ _ _ _ (by simp [zeros, Nat.min_eq_left h]; omega), dot_unit_last _ N hN]
  congr 1
  simp [List.getD_eq_getElem?_getD, List.getElem?_take, show N - 1 < N by omega]

theorem dot_add_right (d a b : List Nat) (h : a.length = b.length) :
    dot d (List.zipWith (· + ·) a b) = dot d a + dot d b := by
  rw [dot_comm, dot_zipWith_add a b d h, dot_comm a, dot_comm b]

/-! ### rows after `setEntry` and after the loops -/

theorem getD_setEntry (M : Mat) (i j v r : Nat) :
    (setEntry M i j v).getD r [] = if r = i then (M.getD i []).set j v else M.getD r [] := by
  unfold setEntry
  simp only [List.getD_eq_getElem?_getD, List.getElem?_modify]
  by_cases hr : r = i
  · subst hr
    cases hM : M[r]? <;> simp
  · have : ¬ i = r := fun e => hr e.symm
    cases hM : M[r]? <;> simp [hr, this]

/-- `row[c] = 1` for `c = 0 … m-1` -/
def setFirst (m : Nat) (row : List Nat) : List Nat := (List.range m).foldl (fun row c => row.set c 1) row

theorem getD_fold_setEntry (M : Mat) (i m r : Nat) :
    ((List.range m).foldl (fun M c => setEntry M i c 1) M).getD r []
      = if r = i then setFirst m (M.getD i []) else M.getD r [] := by
  induction m with
  | zero =>
    by_cases hr : r = i
    · subst hr; simp [setFirst]
    · simp [setFirst, hr]
  | succ k ih =>
    rw [List.range_succ, List.foldl_append, List.foldl_cons, List.foldl_nil, getD_setEntry]
    by_cases hr : r = i
    · subst hr
      simp only [if_true] at ih ⊢
      rw [ih]
      simp [setFirst, List.range_succ, List.foldl_append]
    · simp only [hr, if_false] at ih ⊢
      exact ih

theorem length_fold_setEntry (M : Mat) (i m : Nat) :
    ((List.range m).foldl (fun M c => setEntry M i c 1) M).length = M.length := by
  induction m with
  | zero => rfl
  | succ k ih => rw [List.range_succ, List.foldl_append, List.foldl_cons, List.foldl_nil, length_setEntry, ih]

theorem setFirst_eq (m : Nat) (row : List Nat) (h : m ≤ row.length) : setFirst m row = ones m ++ row.drop m := by
  induction m with
  | zero => simp [setFirst, ones]
  | succ k ih =>
    have hk := ih (by omega)
    simp only [setFirst] at hk
    simp only [setFirst, List.range_succ, List.foldl_append, List.foldl_cons, List.foldl_nil]
    rw [hk]
    apply List.ext_getElem?
    intro c
    rw [List.getElem?_set]
    by_cases hc : c < k
    · have : ¬ k = c := by omega
      simp [this, ones, List.getElem?_append_left, hc, Nat.lt_succ_of_lt hc]
    · by_cases hck : c = k
      · subst hck
        simp [ones, List.getElem?_append_right, List.getElem?_append_left]
        omega
      · have h1 : ¬ k = c := fun e => hck e.symm
        have h2 : k + 1 ≤ c := by omega
        simp only [h1, if_false]
        rw [List.getElem?_append_right (by simp [ones]; omega), List.getElem?_append_right (by simp [ones]; omega)]
        simp only [ones, List.length_replicate, List.getElem?_drop]
        congr 1; omega

/-- rows of `numpy.kron(numpy.eye(2), M)` -/
theorem getD_kronEye2 (M : Mat) (N : Nat) (hM : M.length = N) (r : Nat) :
    (kronEye2 M).getD r []
      = if r < N then M.getD r [] ++ zeros N else if r < 2 * N then zeros N ++ M.getD (r - N) [] else [] := by
  unfold kronEye2
  simp only [List.getD_eq_getElem?_getD, hM]
  by_cases h1 : r < N
  · rw [List.getElem?_append_left (by simp [hM]; exact h1)]
    simp [h1, List.getElem?_map, hM, List.getElem?_eq_getElem (show r < M.length by omega)]
  · rw [List.getElem?_append_right (by simp [hM]; omega)]
    simp only [List.length_map, hM, List.getElem?_map, h1, if_false]
    by_cases h2 : r < 2 * N
    · have : r - N < M.length := by omega
      simp [h2, List.getElem?_eq_getElem this]
    · have : M.length ≤ r - N := by omega
      simp [h2, List.getElem?_eq_none this]

theorem length_kronEye2 (M : Mat) : (kronEye2 M).length = 2 * M.length := by
  simp [kronEye2]; omega

end OFV.C09
