/- C09: interleaved_code(n): the permutation matrix built by the loop and its transpose. -/
import OFV.Proofs.C09Parse

namespace OFV.C09
open OFV.Model.C09 OFV.Spec.C09

/-- entry `(r, c)` of a matrix (0 outside) -/
def ent (M : Mat) (r c : Nat) : Nat := (M.getD r []).getD c 0

theorem ent_setEntry (M : Mat) (i j v r c : Nat) (hi : i < M.length) (hj : j < (M.getD i []).length) :
    ent (setEntry M i j v) r c = if r = i ∧ c = j then v else ent M r c := by
  unfold ent setEntry
  simp only [List.getD_eq_getElem?_getD, List.getElem?_modify]
  by_cases hr : r = i
  · subst hr
    have hrow : M[r]? = some M[r] := List.getElem?_eq_getElem hi
    have hj' : j < M[r].length := by
      simpa [List.getD_eq_getElem?_getD, hrow] using hj
    simp only [hrow, Option.map_some, if_true, Option.getD_some, true_and, List.getElem?_set]
    by_cases hc : c = j
    · subst hc; simp [hj']
    · have : ¬ j = c := fun e => hc e.symm
      simp [hc, this]
  · have : ¬ i = r := fun e => hr e.symm
    cases hM : M[r]? with
    | none => simp [hr]
    | some row => simp [hr, this]

theorem length_setEntry (M : Mat) (i j v : Nat) : (setEntry M i j v).length = M.length := by
  simp [setEntry]

theorem rowlen_setEntry (M : Mat) (i j v r : Nat) :
    ((setEntry M i j v).getD r []).length = (M.getD r []).length := by
  unfold setEntry
  simp only [List.getD_eq_getElem?_getD, List.getElem?_modify]
  cases hM : M[r]? with
  | none => simp
  | some row =>
    by_cases h : i = r <;> simp [h]

/-- the matrix after `k` iterations of the loop of `interleaved_code(2h)` -/
def interK (h k : Nat) : Mat :=
  (List.range k).foldl (fun M i => setEntry (setEntry M i (2 * i) 1) (h + i) (2 * i + 1) 1)
    (List.replicate (2 * h) (zeros (2 * h)))

theorem interK_shape (h k : Nat) :
    (interK h k).length = 2 * h ∧ ∀ r, r < 2 * h → ((interK h k).getD r []).length = 2 * h := by
  induction k with
  | zero =>
    refine ⟨by simp [interK], ?_⟩
    intro r hr
    simp [interK, List.getD_eq_getElem?_getD, hr, zeros]
  | succ k ih =>
    have hstep : interK h (k + 1)
        = setEntry (setEntry (interK h k) k (2 * k) 1) (h + k) (2 * k + 1) 1 := by
      simp [interK, List.range_succ, List.foldl_append]
    rw [hstep]
    refine ⟨by rw [length_setEntry, length_setEntry]; exact ih.1, ?_⟩
    intro r hr
    rw [rowlen_setEntry, rowlen_setEntry]
    exact ih.2 r hr

theorem interK_ent (h k : Nat) (hk : k ≤ h) (r c : Nat) :
    ent (interK h k) r c
      = if (r < k ∧ c = 2 * r) ∨ (h ≤ r ∧ r - h < k ∧ c = 2 * (r - h) + 1) then 1 else 0 := by
  induction k with
  | zero =>
    simp only [interK, List.range_zero, List.foldl_nil, ent]
    have : ¬ ((r < 0 ∧ c = 2 * r) ∨ (h ≤ r ∧ r - h < 0 ∧ c = 2 * (r - h) + 1)) := by omega
    rw [if_neg this]
    simp only [List.getD_eq_getElem?_getD]
    by_cases hr : r < 2 * h
    · simp [hr, zeros]
      by_cases hc : c < 2 * h <;> simp [hc]
    · simp [hr]
  | succ k ih =>
    have hstep : interK h (k + 1)
        = setEntry (setEntry (interK h k) k (2 * k) 1) (h + k) (2 * k + 1) 1 := by
      simp [interK, List.range_succ, List.foldl_append]
    have hshape := interK_shape h k
    rw [hstep]
    have h1len : k < (interK h k).length := by rw [hshape.1]; omega
    have h1row : 2 * k < ((interK h k).getD k []).length := by rw [hshape.2 k (by omega)]; omega
    have h2len : h + k < (setEntry (interK h k) k (2 * k) 1).length := by
      rw [length_setEntry, hshape.1]; omega
    have h2row : 2 * k + 1 < ((setEntry (interK h k) k (2 * k) 1).getD (h + k) []).length := by
      rw [rowlen_setEntry, hshape.2 (h + k) (by omega)]; omega
    rw [ent_setEntry _ _ _ _ _ _ h2len h2row, ent_setEntry _ _ _ _ _ _ h1len h1row, ih (by omega)]
    by_cases c1 : r = h + k ∧ c = 2 * k + 1
    · have : (r < k + 1 ∧ c = 2 * r) ∨ (h ≤ r ∧ r - h < k + 1 ∧ c = 2 * (r - h) + 1) := by
        right; obtain ⟨a, b⟩ := c1; subst a; refine ⟨by omega, by omega, ?_⟩
        have : h + k - h = k := by omega
        rw [this]; exact b
      rw [if_pos c1, if_pos this]
    · rw [if_neg c1]
      by_cases c2 : r = k ∧ c = 2 * k
      · have : (r < k + 1 ∧ c = 2 * r) ∨ (h ≤ r ∧ r - h < k + 1 ∧ c = 2 * (r - h) + 1) := by
          left; obtain ⟨a, b⟩ := c2; subst a; exact ⟨by omega, b⟩
        rw [if_pos c2, if_pos this]
      · rw [if_neg c2]
        by_cases c3 : (r < k ∧ c = 2 * r) ∨ (h ≤ r ∧ r - h < k ∧ c = 2 * (r - h) + 1)
        · have : (r < k + 1 ∧ c = 2 * r) ∨ (h ≤ r ∧ r - h < k + 1 ∧ c = 2 * (r - h) + 1) := by
            rcases c3 with ⟨a, b⟩ | ⟨a, b, d⟩
            · left; exact ⟨by omega, b⟩
            · right; exact ⟨a, by omega, d⟩
          rw [if_pos c3, if_pos this]
        · have : ¬ ((r < k + 1 ∧ c = 2 * r) ∨ (h ≤ r ∧ r - h < k + 1 ∧ c = 2 * (r - h) + 1)) := by
            intro hh
            rcases hh with ⟨a, b⟩ | ⟨a, b, d⟩
            · by_cases hrk : r = k
              · exact c2 ⟨hrk, by rw [b, hrk]⟩
              · exact c3 (Or.inl ⟨by omega, b⟩)
            · by_cases hrk : r - h = k
              · exact c1 ⟨by omega, by rw [d, hrk]⟩
              · exact c3 (Or.inr ⟨a, by omega, d⟩)
          rw [if_neg c3, if_neg this]

/-- the qubit of mode... : row `r` of the encoder has its 1 in column `sigma h r` -/
def sigma (h r : Nat) : Nat := if r < h then 2 * r else 2 * (r - h) + 1

/-- column `j` of the encoder has its 1 in row `tau h j` -/
def tau (h j : Nat) : Nat := if j % 2 = 0 then j / 2 else h + j / 2

theorem interleavedMat_eq (h : Nat) : interleavedMat (2 * h) = interK h h := by
  unfold interleavedMat interK
  have : 2 * h / 2 = h := by omega
  rw [this]

theorem interleaved_row (h r : Nat) (hr : r < 2 * h) :
    (interleavedMat (2 * h)).getD r [] = (List.range (2 * h)).map fun c => if sigma h r = c then 1 else 0 := by
  rw [interleavedMat_eq]
  apply List.ext_getElem
  · rw [(interK_shape h h).2 r hr]; simp
  · intro c h1 h2
    have hc : c < 2 * h := by rw [(interK_shape h h).2 r hr] at h1; exact h1
    have e := interK_ent h h (Nat.le_refl h) r c
    unfold ent at e
    have hget : ((interK h h).getD r []).getD c 0 = ((interK h h).getD r [])[c] := by
      generalize (interK h h).getD r [] = row at h1
      rw [List.getD_eq_getElem?_getD, List.getElem?_eq_getElem h1]; rfl
    rw [← hget, e]
    simp only [List.getElem_map, List.getElem_range]
    unfold sigma
    by_cases hrh : r < h
    · rw [if_pos hrh]
      by_cases hcc : c = 2 * r
      · have h3 : (r < h ∧ c = 2 * r) ∨ (h ≤ r ∧ r - h < h ∧ c = 2 * (r - h) + 1) := Or.inl ⟨hrh, hcc⟩
        rw [if_pos h3, if_pos hcc.symm]
      · have : ¬ 2 * r = c := fun e => hcc e.symm
        have h3 : ¬ ((r < h ∧ c = 2 * r) ∨ (h ≤ r ∧ r - h < h ∧ c = 2 * (r - h) + 1)) := by omega
        rw [if_neg h3, if_neg this]
    · rw [if_neg hrh]
      by_cases hcc : c = 2 * (r - h) + 1
      · have h3 : (r < h ∧ c = 2 * r) ∨ (h ≤ r ∧ r - h < h ∧ c = 2 * (r - h) + 1) := by
          right; exact ⟨by omega, by omega, hcc⟩
        rw [if_pos h3, if_pos hcc.symm]
      · have h3 : ¬ ((r < h ∧ c = 2 * r) ∨ (h ≤ r ∧ r - h < h ∧ c = 2 * (r - h) + 1)) := by omega
        have : ¬ 2 * (r - h) + 1 = c := fun e => hcc e.symm
        rw [if_neg h3, if_neg this]

theorem interleaved_col (h j : Nat) (hj : j < 2 * h) :
    (transpose (2 * h) (interleavedMat (2 * h))).getD j []
      = (List.range (2 * h)).map fun r => if tau h j = r then 1 else 0 := by
  unfold transpose
  rw [List.getD_eq_getElem?_getD]
  simp only [List.getElem?_map, List.getElem?_range hj, Option.map_some, Option.getD_some]
  rw [interleavedMat_eq]
  apply List.ext_getElem
  · simp [(interK_shape h h).1]
  · intro r h1 h2
    have hr : r < 2 * h := by simpa using h2
    simp only [List.getElem_map, List.getElem_range]
    have hrow : (interK h h)[r]'(by rw [(interK_shape h h).1]; exact hr) = (interK h h).getD r [] := by
      simp [List.getD_eq_getElem?_getD, (interK_shape h h).1, hr]
    rw [hrow]
    have e := interK_ent h h (Nat.le_refl h) r j
    unfold ent at e
    rw [e]
    unfold tau
    by_cases hev : j % 2 = 0
    · rw [if_pos hev]
      by_cases hrr : j / 2 = r
      · have h3 : (r < h ∧ j = 2 * r) ∨ (h ≤ r ∧ r - h < h ∧ j = 2 * (r - h) + 1) := by left; omega
        rw [if_pos h3, if_pos hrr]
      · have h3 : ¬ ((r < h ∧ j = 2 * r) ∨ (h ≤ r ∧ r - h < h ∧ j = 2 * (r - h) + 1)) := by omega
        rw [if_neg h3, if_neg hrr]
    · rw [if_neg hev]
      by_cases hrr : h + j / 2 = r
      · have h3 : (r < h ∧ j = 2 * r) ∨ (h ≤ r ∧ r - h < h ∧ j = 2 * (r - h) + 1) := by right; omega
        rw [if_pos h3, if_pos hrr]
      · have h3 : ¬ ((r < h ∧ j = 2 * r) ∨ (h ≤ r ∧ r - h < h ∧ j = 2 * (r - h) + 1)) := by omega
        rw [if_neg h3, if_neg hrr]

theorem sigma_tau (h j : Nat) (hj : j < 2 * h) : sigma h (tau h j) = j ∧ tau h j < 2 * h := by
  unfold sigma tau
  by_cases hev : j % 2 = 0
  · simp only [hev, if_true]
    have : j / 2 < h := by omega
    simp only [this, if_true]
    omega
  · simp only [hev, if_false]
    have : ¬ h + j / 2 < h := by omega
    simp only [this, if_false]
    omega

theorem interleaved_valid' (h : Nat) (c : Code) (hc : interleavedCode (2 * h) = .ok c) (v : List Nat)
    (hb : ∀ x ∈ v, x ≤ 1) : ValidOn c v := by
  unfold interleavedCode at hc
  split at hc
  · cases hc
  · split at hc
    · cases hc
    · obtain ⟨ps, hps, _, hev⟩ := linearizeDecoder_sound (transpose (2 * h) (interleavedMat (2 * h)))
      simp only [hps, bind, Except.bind] at hc
      obtain ⟨rfl, _, _⟩ := mk'_ok _ _ _ _ _ hc
      intro j hj
      have hj' : j < 2 * h := hj
      obtain ⟨hst, htl⟩ := sigma_tau h j hj'
      show decFn (ps.map .poly) _ j = _
      have hlenM : (interleavedMat (2 * h)).length = 2 * h := by
        rw [interleavedMat_eq]; exact (interK_shape h h).1
      rw [decFn_map_poly, hev, interleaved_col h j hj', onesOf_unit (2 * h) (tau h j) htl, xorCols_single,
        encFn_eq _ _ _ (by rw [hlenM]; exact htl)]
      show (dot ((interleavedMat (2 * h)).getD (tau h j) []) v % 2 == 1) = _
      rw [interleaved_row h (tau h j) htl, dot_unit, hst, if_pos hj', bit_eq _ (getD_le_one v hb j)]

end OFV.C09
