/-
C13 — helper lemmas for the lattice bond theorems (sites are decomposed as `x * r + c`,
`c < x`: row `r`, column `c`).
-/
import OFV.Model.C13Lattice
import OFV.Spec.C13
import Mathlib.Data.List.Nodup
import Mathlib.Data.List.Range
import Mathlib.Data.List.Perm.Basic

set_option linter.unusedSimpArgs false
set_option linter.unusedVariables false

namespace OFV.C13
open OFV.Model.C13 OFV.Spec.C13 OFV.Model.C13.Lattice List

theorem div_of {x r c : Nat} (hc : c < x) : (x * r + c) / x = r := by
  have hx : 0 < x := by omega
  rw [Nat.mul_add_div hx, Nat.div_eq_of_lt hc]; simp

theorem mod_of {x r c : Nat} (hc : c < x) : (x * r + c) % x = c := by
  rw [Nat.mul_add_mod, Nat.mod_eq_of_lt hc]

theorem lt_mul_iff {x y r c : Nat} (hc : c < x) : x * r + c < x * y ↔ r < y := by
  constructor
  · intro h
    by_contra hn
    have : x * y ≤ x * r := Nat.mul_le_mul_left x (by omega)
    omega
  · intro h
    have : x * (r + 1) ≤ x * y := Nat.mul_le_mul_left x (by omega)
    rw [Nat.mul_succ] at this
    omega

theorem right_char {x y : Nat} (p : Bool) {r c : Nat} (hc : c < x) :
    (siteNeighbors (x * r + c) x y p).1 =
      if c + 1 < x then some (x * r + c + 1) else if p = true ∧ 2 < x then some (x * r) else none := by
  have hm : (x * r + c) % x = c := mod_of hc
  by_cases h1 : c + 1 < x
  · have hm1 : (x * r + c + 1) % x = c + 1 := by
      rw [Nat.add_assoc]; exact mod_of h1
    have h2 : (x * r + c) % 2 = 1 → x ≠ 2 := by
      intro h hx2; subst hx2; omega
    simp only [siteNeighbors, rightNeighbor, hm1, h1, if_true]
    have hx1 : x ≠ 1 := by omega
    simp [hx1]
    intro hx2 hp
    subst hx2
    omega
  · have hcx : c + 1 = x := by omega
    have hm1 : (x * r + c + 1) % x = 0 := by
      rw [Nat.add_assoc, hcx]; simp
    simp only [siteNeighbors, rightNeighbor, hm1, h1, if_false]
    by_cases hx1 : x = 1
    · simp [hx1]
    · by_cases hp : p = true
      · by_cases hx2 : x = 2
        · subst hx2
          have : (2 * r + c) % 2 = 1 := by omega
          simp [hp, this]
        · have h3 : 2 < x := by omega
          have : x * r + c + 1 - x = x * r := by omega
          simp [hx1, hp, hx2, h3, this]
      · simp [hx1, hp]

theorem bottom_char {x y : Nat} (p : Bool) {r c : Nat} (hc : c < x) (hr : r < y) :
    (siteNeighbors (x * r + c) x y p).2 =
      if r + 1 < y then some (x * (r + 1) + c) else if p = true ∧ 2 < y then some c else none := by
  have e1 : x * (r + 1) = x * r + x := Nat.mul_succ x r
  have hlt : x * (r + 1) + c < x * y ↔ r + 1 < y := lt_mul_iff hc
  by_cases h1 : r + 1 < y
  · have hy1 : y ≠ 1 := by omega
    have h2 : ¬ (x * r + c + x + 1 > x * y) := by have := hlt.2 h1; omega
    have h3 : ¬ (y = 2 ∧ p = true ∧ x * r + c ≥ x) := by
      rintro ⟨hy2, _, hge⟩
      have : r = 0 := by omega
      subst this; omega
    have h4 : x * r + c + x = x * (r + 1) + c := by omega
    simp [siteNeighbors, bottomNeighbor, hy1, h3, h1, h4]
    intro h; omega
  · have hry : r + 1 = y := by omega
    have h2 : x * r + c + x + 1 > x * y := by
      have := mt hlt.1 h1; omega
    by_cases hy1 : y = 1
    · simp [siteNeighbors, bottomNeighbor, hy1, h1]
    · by_cases hp : p = true
      · by_cases hy2 : y = 2
        · have : r = 1 := by omega
          subst this
          have : x * 1 + c ≥ x := by omega
          simp [siteNeighbors, bottomNeighbor, hy2, hp, this]
        · have h3 : 2 < y := by omega
          have h4 : x * r + c + x - x * y = c := by rw [← hry, e1]; omega
          simp [siteNeighbors, bottomNeighbor, hy1, hy2, hp, h2, h1, h3, h4]
      · simp [siteNeighbors, bottomNeighbor, hy1, hp, h2, h1]

/-- `e` is the (normalised) right bond of the site in row `r`, column `c` -/
def IsRight (x : Nat) (p : Bool) (r c : Nat) (e : Nat × Nat) : Prop :=
  (c + 1 < x ∧ e = (x * r + c, x * r + c + 1)) ∨ (p = true ∧ 2 < x ∧ c + 1 = x ∧ e = (x * r, x * r + c))

/-- `e` is the (normalised) bottom bond of the site in row `r`, column `c` -/
def IsBottom (x y : Nat) (p : Bool) (r c : Nat) (e : Nat × Nat) : Prop :=
  (r + 1 < y ∧ e = (x * r + c, x * (r + 1) + c)) ∨ (p = true ∧ 2 < y ∧ r + 1 = y ∧ e = (c, x * r + c))

theorem decomp_unique {x r c r' c' : Nat} (hc : c < x) (hc' : c' < x) (h : x * r + c = x * r' + c') :
    r = r' ∧ c = c' := by
  have h1 := div_of (r := r) hc
  have h2 := div_of (r := r') hc'
  have h3 := mod_of (r := r) hc
  have h4 := mod_of (r := r') hc'
  rw [h] at h1 h3
  exact ⟨h1.symm.trans h2, h3.symm.trans h4⟩

theorem isRight_unique {x : Nat} {p : Bool} {r c r' c' : Nat} {e : Nat × Nat} (hc : c < x) (hc' : c' < x)
    (h : IsRight x p r c e) (h' : IsRight x p r' c' e) : r = r' ∧ c = c' := by
  rcases h with ⟨h1, rfl⟩ | ⟨_, h2, h3, rfl⟩ <;> rcases h' with ⟨h1', he⟩ | ⟨_, h2', h3', he⟩
  · simp only [Prod.mk.injEq] at he
    exact decomp_unique hc hc' he.1
  · simp only [Prod.mk.injEq] at he
    omega
  · simp only [Prod.mk.injEq] at he
    omega
  · simp only [Prod.mk.injEq] at he
    have : x * r + c = x * r' + c' := by omega
    exact decomp_unique hc hc' this

theorem isBottom_unique {x y : Nat} {p : Bool} {r c r' c' : Nat} {e : Nat × Nat} (hc : c < x) (hc' : c' < x)
    (h : IsBottom x y p r c e) (h' : IsBottom x y p r' c' e) : r = r' ∧ c = c' := by
  have e1 : x * (r + 1) = x * r + x := Nat.mul_succ x r
  have e2 : x * (r' + 1) = x * r' + x := Nat.mul_succ x r'
  rcases h with ⟨h1, rfl⟩ | ⟨_, h2, h3, rfl⟩ <;> rcases h' with ⟨h1', he⟩ | ⟨_, h2', h3', he⟩
  · simp only [Prod.mk.injEq] at he
    exact decomp_unique hc hc' he.1
  · simp only [Prod.mk.injEq] at he
    -- (x r + c, x (r+1) + c) = (c', x r' + c'): then r = 0 and r' = 1, so y = 2
    obtain ⟨ha, hb⟩ := he
    have hr0 : r = 0 ∧ c = c' := by
      have := decomp_unique (r := r) (r' := 0) hc hc' (by simpa using ha)
      exact this
    obtain ⟨rfl, rfl⟩ := hr0
    have := decomp_unique (r := 0 + 1) (r' := r') hc hc' hb
    omega
  · simp only [Prod.mk.injEq] at he
    obtain ⟨ha, hb⟩ := he
    have hr0 : r' = 0 ∧ c' = c := by
      have := decomp_unique (r := r') (r' := 0) hc' hc (by simpa using ha.symm)
      exact this
    obtain ⟨rfl, rfl⟩ := hr0
    have := decomp_unique (r := r) (r' := 0 + 1) hc hc' hb
    omega
  · simp only [Prod.mk.injEq] at he
    exact decomp_unique hc hc' he.2

theorem isRight_row {x : Nat} {p : Bool} {r c : Nat} {e : Nat × Nat} (hc : c < x) (h : IsRight x p r c e) :
    e.1 / x = r ∧ e.2 / x = r ∧ e.1 < e.2 := by
  rcases h with ⟨h1, rfl⟩ | ⟨_, h2, h3, rfl⟩
  · refine ⟨div_of hc, ?_, by simp⟩
    show (x * r + c + 1) / x = r
    rw [Nat.add_assoc]; exact div_of h1
  · refine ⟨?_, div_of hc, by simp; omega⟩
    have := div_of (x := x) (r := r) (c := 0) (by omega)
    simpa using this

theorem isBottom_col {x y : Nat} {p : Bool} {r c : Nat} {e : Nat × Nat} (hc : c < x) (h : IsBottom x y p r c e) :
    e.1 % x = c ∧ e.2 % x = c ∧ e.1 < e.2 := by
  have e1 : x * (r + 1) = x * r + x := Nat.mul_succ x r
  rcases h with ⟨h1, rfl⟩ | ⟨_, h2, h3, rfl⟩
  · exact ⟨mod_of hc, mod_of hc, by simp; omega⟩
  · refine ⟨Nat.mod_eq_of_lt hc, mod_of hc, ?_⟩
    have : x * 1 ≤ x * r := Nat.mul_le_mul_left x (by omega)
    simp; omega

theorem right_ne_bottom {x y : Nat} {p : Bool} {r c r' c' : Nat} {e : Nat × Nat} (hc : c < x) (hc' : c' < x)
    (h : IsRight x p r c e) (h' : IsBottom x y p r' c' e) : False := by
  obtain ⟨a1, a2, a3⟩ := isRight_row hc h
  obtain ⟨b1, b2, b3⟩ := isBottom_col hc' h'
  have := Nat.div_add_mod e.1 x
  have := Nat.div_add_mod e.2 x
  rw [a1, b1] at *
  rw [a2, b2] at *
  omega

theorem mem_siteBonds_norm {x y : Nat} {p : Bool} {r c : Nat} {e : Nat × Nat} (hc : c < x) (hr : r < y) :
    e ∈ (siteBonds x y p (x * r + c)).map norm ↔ IsRight x p r c e ∨ IsBottom x y p r c e := by
  have e1 : x * (r + 1) = x * r + x := Nat.mul_succ x r
  simp only [siteBonds, right_char p hc, bottom_char p hc hr, List.map_append, List.mem_append, List.map_map]
  have hR : e ∈ List.map (norm ∘ fun n => (x * r + c, n))
      (if c + 1 < x then some (x * r + c + 1) else if p = true ∧ 2 < x then some (x * r) else none).toList
      ↔ IsRight x p r c e := by
    unfold IsRight
    by_cases h1 : c + 1 < x
    · have : ¬ (c + 1 = x) := by omega
      simp [h1, norm, this, eq_comm]
    · have h3 : c + 1 = x := by omega
      by_cases h2 : p = true ∧ 2 < x
      · have : ¬ (x * r + c ≤ x * r) := by omega
        simp [h1, h2, norm, this, h3, eq_comm]
      · simp [h1, h2]
        intro hp hx; exact absurd ⟨hp, hx⟩ h2
  have hB : e ∈ List.map (norm ∘ fun n => (x * r + c, n))
      (if r + 1 < y then some (x * (r + 1) + c) else if p = true ∧ 2 < y then some c else none).toList
      ↔ IsBottom x y p r c e := by
    unfold IsBottom
    by_cases h1 : r + 1 < y
    · have : ¬ (r + 1 = y) := by omega
      have h5 : x * r + c ≤ x * (r + 1) + c := by omega
      simp [h1, norm, this, h5, eq_comm]
    · have h3 : r + 1 = y := by omega
      by_cases h2 : p = true ∧ 2 < y
      · have h4 : x * 1 ≤ x * r := Nat.mul_le_mul_left x (by omega)
        have : ¬ (x * r + c ≤ c) := by omega
        simp [h1, h2, norm, this, h3, eq_comm]
      · simp [h1, h2]
        intro hp hx; exact absurd ⟨hp, hx⟩ h2
  rw [hR, hB]

theorem nodup_flatMap_of_inj {α β : Type} {l : List α} {f : α → List β} (hl : l.Nodup)
    (hf : ∀ a ∈ l, (f a).Nodup)
    (hinj : ∀ a ∈ l, ∀ a' ∈ l, ∀ b, b ∈ f a → b ∈ f a' → a = a') : (l.flatMap f).Nodup := by
  rw [List.nodup_flatMap]
  refine ⟨hf, ?_⟩
  apply hl.pairwise_of_forall_ne
  intro a ha a' ha' hne
  simp only [Function.onFun]
  intro b hb hb'
  exact hne (hinj a ha a' ha' b hb hb')

/-- a site `s < x * y` is `x * r + c` with `c < x`, `r < y` -/
theorem site_decomp {x y s : Nat} (hx : 0 < x) (hs : s < x * y) :
    ∃ r c, c < x ∧ r < y ∧ s = x * r + c :=
  ⟨s / x, s % x, Nat.mod_lt _ hx, (Nat.div_lt_iff_lt_mul hx).2 (by rwa [Nat.mul_comm] at hs),
    (Nat.div_add_mod s x).symm⟩

def IsBond (x y : Nat) (p : Bool) (e : Nat × Nat) : Prop :=
  ∃ r c, c < x ∧ r < y ∧ (IsRight x p r c e ∨ IsBottom x y p r c e)

theorem mem_normBonds {x y : Nat} {p : Bool} {e : Nat × Nat} (hx : 0 < x) :
    e ∈ (bonds x y p).map norm ↔ IsBond x y p e := by
  unfold bonds IsBond
  rw [List.map_flatMap, List.mem_flatMap]
  constructor
  · rintro ⟨s, hs, he⟩
    obtain ⟨r, c, hc, hr, rfl⟩ := site_decomp hx (List.mem_range.1 hs)
    exact ⟨r, c, hc, hr, (mem_siteBonds_norm hc hr).1 he⟩
  · rintro ⟨r, c, hc, hr, h⟩
    exact ⟨x * r + c, List.mem_range.2 ((lt_mul_iff hc).2 hr), (mem_siteBonds_norm hc hr).2 h⟩

theorem siteBonds_norm_nodup {x y : Nat} {p : Bool} {r c : Nat} (hc : c < x) (hr : r < y) :
    ((siteBonds x y p (x * r + c)).map norm).Nodup := by
  have key := @mem_siteBonds_norm x y p r c
  -- at most one right and one bottom bond, and they differ
  have hlen : ∀ (o : Option Nat) (f : Nat → Nat × Nat), (o.toList.map f).Nodup := by
    intro o f; cases o <;> simp
  unfold siteBonds
  simp only [List.map_append, List.map_map]
  rw [List.nodup_append]
  refine ⟨hlen _ _, hlen _ _, ?_⟩
  intro a ha b hb hab
  subst hab
  -- `a` is both the right and the bottom bond
  have hR : IsRight x p r c a := by
    have := right_char (y := y) p (r := r) hc
    rw [this] at ha
    unfold IsRight
    by_cases h1 : c + 1 < x
    · simp [h1, norm] at ha; left; exact ⟨h1, ha⟩
    · by_cases h2 : p = true ∧ 2 < x
      · have : ¬ (x * r + c ≤ x * r) := by omega
        simp [h1, h2, norm, this] at ha
        right; exact ⟨h2.1, h2.2, by omega, ha⟩
      · simp [h1, h2] at ha
  have hB : IsBottom x y p r c a := by
    have := bottom_char p (r := r) hc hr
    rw [this] at hb
    have e1 : x * (r + 1) = x * r + x := Nat.mul_succ x r
    unfold IsBottom
    by_cases h1 : r + 1 < y
    · have h5 : x * r + c ≤ x * (r + 1) + c := by omega
      simp [h1, norm, h5] at hb; left; exact ⟨h1, hb⟩
    · by_cases h2 : p = true ∧ 2 < y
      · have h4 : x * 1 ≤ x * r := Nat.mul_le_mul_left x (by omega)
        have : ¬ (x * r + c ≤ c) := by omega
        simp [h1, h2, norm, this] at hb
        right; exact ⟨h2.1, h2.2, by omega, hb⟩
      · simp [h1, h2] at hb
  exact right_ne_bottom hc hc hR hB

theorem normBonds_nodup {x y : Nat} {p : Bool} (hx : 0 < x) : ((bonds x y p).map norm).Nodup := by
  unfold bonds
  rw [List.map_flatMap]
  apply nodup_flatMap_of_inj List.nodup_range
  · intro s hs
    obtain ⟨r, c, hc, hr, rfl⟩ := site_decomp hx (List.mem_range.1 hs)
    exact siteBonds_norm_nodup hc hr
  · intro s hs s' hs' e he he'
    obtain ⟨r, c, hc, hr, rfl⟩ := site_decomp hx (List.mem_range.1 hs)
    obtain ⟨r', c', hc', hr', rfl⟩ := site_decomp hx (List.mem_range.1 hs')
    rw [mem_siteBonds_norm hc hr] at he
    rw [mem_siteBonds_norm hc' hr'] at he'
    rcases he with h | h <;> rcases he' with h' | h'
    · obtain ⟨rfl, rfl⟩ := isRight_unique hc hc' h h'; rfl
    · exact (right_ne_bottom hc hc' h h').elim
    · exact (right_ne_bottom hc' hc h' h).elim
    · obtain ⟨rfl, rfl⟩ := isBottom_unique hc hc' h h'; rfl

theorem mem_pairs {n : Nat} {e : Nat × Nat} : e ∈ pairs n ↔ e.1 < e.2 ∧ e.2 < n := by
  unfold pairs
  simp only [List.mem_flatMap, List.mem_range, List.mem_map]
  constructor
  · rintro ⟨b, hb, a, ha, rfl⟩; exact ⟨ha, hb⟩
  · rintro ⟨h1, h2⟩; exact ⟨e.2, h2, e.1, h1, rfl⟩

theorem pairs_nodup (n : Nat) : (pairs n).Nodup := by
  unfold pairs
  apply nodup_flatMap_of_inj List.nodup_range
  · intro b _
    exact (List.nodup_range).map (fun a a' h => by simpa using h)
  · intro b _ b' _ e he he'
    simp only [List.mem_map, List.mem_range] at he he'
    obtain ⟨a, _, rfl⟩ := he
    obtain ⟨a', _, h⟩ := he'
    simp only [Prod.mk.injEq] at h
    exact h.2.symm

theorem dist1_iff {n : Nat} {p : Bool} {u v : Nat} :
    dist1 n p u v = true ↔ (u + 1 = v ∨ v + 1 = u ∨ (p = true ∧ 2 < n ∧ (u + 1 = v + n ∨ v + 1 = u + n))) := by
  simp [dist1, or_assoc, and_assoc]

/-- Spec adjacency of `a < b < x * y` is exactly "is a normalised bond of the site loop" -/
theorem adjNN_iff {x y : Nat} {p : Bool} {a b : Nat} (hx : 0 < x) (hab : a < b) (hb : b < x * y) :
    adjNN x y p a b = true ↔ IsBond x y p (a, b) := by
  obtain ⟨ra, ca, hca, hra, rfl⟩ := site_decomp hx (Nat.lt_trans hab hb)
  obtain ⟨rb, cb, hcb, hrb, rfl⟩ := site_decomp hx hb
  have da := div_of (r := ra) hca
  have db := div_of (r := rb) hcb
  have ma := mod_of (r := ra) hca
  have mb := mod_of (r := rb) hcb
  have e1 : x * (ra + 1) = x * ra + x := Nat.mul_succ x ra
  simp only [adjNN, adjH, adjV, row, col, da, db, ma, mb, Bool.or_eq_true, Bool.and_eq_true, beq_iff_eq,
    dist1_iff]
  unfold IsBond IsRight IsBottom
  constructor
  · rintro (⟨hrow, hd⟩ | ⟨hcol, hd⟩)
    · subst hrow
      have hlt : ca < cb := by omega
      rcases hd with h | h | ⟨hp, hx2, h | h⟩
      · exact ⟨ra, ca, hca, hra, Or.inl (Or.inl ⟨by omega, by simp; omega⟩)⟩
      · omega
      · omega
      · have : ca = 0 := by omega
        subst this
        exact ⟨ra, cb, hcb, hra, Or.inl (Or.inr ⟨hp, hx2, by omega, by simp⟩)⟩
    · subst hcol
      have hlt : ra < rb := by
        by_contra hn
        have : x * rb ≤ x * ra := Nat.mul_le_mul_left x (by omega)
        omega
      rcases hd with h | h | ⟨hp, hy2, h | h⟩
      · subst h
        exact ⟨ra, ca, hca, hra, Or.inr (Or.inl ⟨hrb, rfl⟩)⟩
      · omega
      · omega
      · have : ra = 0 := by omega
        subst this
        exact ⟨rb, ca, hca, hrb, Or.inr (Or.inr ⟨hp, hy2, by omega, by simp⟩)⟩
  · rintro ⟨r, c, hc, hr, (⟨h1, he⟩ | ⟨hp, hx2, h3, he⟩) | (⟨h1, he⟩ | ⟨hp, hy2, h3, he⟩)⟩
    · simp only [Prod.mk.injEq] at he
      obtain ⟨rfl, rfl⟩ := decomp_unique hca hc he.1
      obtain ⟨rfl, rfl⟩ := decomp_unique hcb h1 (by omega : x * rb + cb = x * ra + (ca + 1))
      exact Or.inl ⟨rfl, Or.inl rfl⟩
    · simp only [Prod.mk.injEq] at he
      obtain ⟨rfl, rfl⟩ := decomp_unique hcb hc he.2
      obtain ⟨rfl, rfl⟩ := decomp_unique (r := ra) (r' := rb) (c' := 0) hca hx (by omega)
      exact Or.inl ⟨rfl, Or.inr (Or.inr ⟨hp, hx2, Or.inr (by omega)⟩)⟩
    · simp only [Prod.mk.injEq] at he
      obtain ⟨rfl, rfl⟩ := decomp_unique hca hc he.1
      obtain ⟨rfl, rfl⟩ := decomp_unique hcb hc he.2
      exact Or.inr ⟨rfl, Or.inl rfl⟩
    · simp only [Prod.mk.injEq] at he
      obtain ⟨rfl, rfl⟩ := decomp_unique hcb hc he.2
      obtain ⟨rfl, rfl⟩ := decomp_unique (r := ra) (r' := 0) (c' := cb) hca hc (by omega)
      exact Or.inr ⟨rfl, Or.inr (Or.inr ⟨hp, hy2, Or.inr (by omega)⟩)⟩

theorem isBond_lt {x y : Nat} {p : Bool} {e : Nat × Nat} (h : IsBond x y p e) : e.1 < e.2 ∧ e.2 < x * y := by
  obtain ⟨r, c, hc, hr, h | h⟩ := h
  · refine ⟨(isRight_row hc h).2.2, ?_⟩
    rcases h with ⟨h1, rfl⟩ | ⟨_, _, _, rfl⟩
    · show x * r + c + 1 < x * y
      rw [Nat.add_assoc]; exact (lt_mul_iff h1).2 hr
    · exact (lt_mul_iff hc).2 hr
  · refine ⟨(isBottom_col hc h).2.2, ?_⟩
    rcases h with ⟨h1, rfl⟩ | ⟨_, _, _, rfl⟩
    · exact (lt_mul_iff hc).2 h1
    · exact (lt_mul_iff hc).2 hr

theorem mem_edges_adjNN {x y : Nat} {p : Bool} {e : Nat × Nat} (hx : 0 < x) :
    e ∈ edges adjNN x y p ↔ IsBond x y p e := by
  unfold edges
  rw [List.mem_filter, mem_pairs]
  constructor
  · rintro ⟨⟨h1, h2⟩, h3⟩
    exact (adjNN_iff hx h1 h2).1 h3
  · intro h
    obtain ⟨h1, h2⟩ := isBond_lt h
    exact ⟨⟨h1, h2⟩, (adjNN_iff hx h1 h2).2 h⟩

theorem dwaveNeighbors_eq {x y : Nat} (p : Bool) {r c : Nat} (hc : c < x) (hr : r < y) :
    dwaveNeighbors (x * r + c) x y p = siteNeighbors (x * r + c) x y p := by
  have e1 : x * (r + 1) = x * r + x := Nat.mul_succ x r
  have hlt : x * (r + 1) + c < x * y ↔ r + 1 < y := lt_mul_iff hc
  apply Prod.ext
  · rw [right_char p hc]
    by_cases h1 : c + 1 < x
    · have hm1 : (x * r + c + 1) % x = c + 1 := by rw [Nat.add_assoc]; exact mod_of h1
      simp [dwaveNeighbors, hm1, h1]
    · have hcx : c + 1 = x := by omega
      have hm1 : (x * r + c + 1) % x = 0 := by rw [Nat.add_assoc, hcx]; simp
      by_cases h2 : p = true ∧ 2 < x
      · have : x * r + c + 1 - x = x * r := by omega
        simp [dwaveNeighbors, hm1, h1, h2, this]
      · simp [dwaveNeighbors, hm1, h1, h2]
  · rw [bottom_char p hc hr]
    by_cases h1 : r + 1 < y
    · have h2 : x * r + c + x + 1 ≤ x * y := by have := hlt.2 h1; omega
      have h3 : ¬ (x * y < x * r + c + x + 1) := by omega
      have h4 : x * r + c + x = x * (r + 1) + c := by omega
      simp [dwaveNeighbors, h1, h2, h3, h4]
      refine ⟨Or.inl (by omega), ?_⟩
      intro _ _ h; omega
    · have hry : r + 1 = y := by omega
      have h2 : ¬ (x * r + c + x + 1 ≤ x * y) := by have := mt hlt.1 h1; omega
      have h3 : x * y < x * r + c + x + 1 := by omega
      by_cases h5 : p = true ∧ 2 < y
      · have h4 : x * r + c + x - x * y = c := by rw [← hry, e1]; omega
        simp [dwaveNeighbors, h1, h2, h3, h5, h4]
      · simp [dwaveNeighbors, h1, h2, h5]

theorem dwaveBonds_eq_bonds {x y : Nat} (p : Bool) (hx : 0 < x) : dwaveBonds x y p = bonds x y p := by
  unfold dwaveBonds bonds
  apply List.flatMap_congr
  intro s hs
  obtain ⟨r, c, hc, hr, rfl⟩ := site_decomp hx (List.mem_range.1 hs)
  simp only [dwaveSiteBonds, siteBonds, dwaveNeighbors_eq p hc hr]

theorem isRight_fun {x : Nat} {p : Bool} {r c : Nat} {e e' : Nat × Nat}
    (h : IsRight x p r c e) (h' : IsRight x p r c e') : e = e' := by
  rcases h with ⟨h1, rfl⟩ | ⟨_, _, h3, rfl⟩ <;> rcases h' with ⟨h1', rfl⟩ | ⟨_, _, h3', rfl⟩ <;>
    first | rfl | omega

theorem isBottom_fun {x y : Nat} {p : Bool} {r c : Nat} {e e' : Nat × Nat}
    (h : IsBottom x y p r c e) (h' : IsBottom x y p r c e') : e = e' := by
  rcases h with ⟨h1, rfl⟩ | ⟨_, _, h3, rfl⟩ <;> rcases h' with ⟨h1', rfl⟩ | ⟨_, _, h3', rfl⟩ <;>
    first | rfl | omega

theorem lt_of_lt_edgesPer {d : Nat} {p : Bool} {k : Nat} (h : k < edgesPer d p) : k < d := by
  unfold edgesPer at h; omega

/-- the pair emitted by `horizontal_neighbors_iter` for `(cx, cy)`, normalised -/
theorem hpair_isRight {x : Nat} {p : Bool} {cx cy : Nat} (h : cx < edgesPer x p) :
    IsRight x p cy cx (norm (cx + cy * x, (cx + 1) % x + cy * x)) := by
  have hcx : cx < x := lt_of_lt_edgesPer h
  rw [Nat.mul_comm cy x]
  unfold IsRight
  by_cases h1 : cx + 1 < x
  · left
    refine ⟨h1, ?_⟩
    rw [Nat.mod_eq_of_lt h1]
    simp only [norm]
    rw [if_pos (by omega)]
    simp only [Prod.mk.injEq]; omega
  · right
    have h3 : cx + 1 = x := by omega
    have hp : p = true ∧ 2 < x := by
      unfold edgesPer at h
      by_cases hq : x ≤ 2 ∨ p = false
      · simp [hq] at h; omega
      · simp only [not_or] at hq
        exact ⟨by simpa using hq.2, by omega⟩
    refine ⟨hp.1, hp.2, h3, ?_⟩
    rw [h3, Nat.mod_self]
    simp only [norm]
    rw [if_neg (by omega)]
    simp only [Prod.mk.injEq]; omega

theorem isRight_lt_edgesPer {x : Nat} {p : Bool} {r c : Nat} {e : Nat × Nat} (hc : c < x)
    (h : IsRight x p r c e) : c < edgesPer x p := by
  unfold edgesPer
  rcases h with ⟨h1, _⟩ | ⟨hp, h2, _, _⟩
  · split <;> omega
  · have : ¬ (x ≤ 2 ∨ p = false) := by simp [hp]; omega
    simp [this]; exact hc

/-- the pair emitted by `vertical_neighbors_iter` for `(cx, cy)`, normalised -/
theorem vpair_isBottom {x y : Nat} {p : Bool} {cx cy : Nat} (hx : 0 < x) (h : cy < edgesPer y p) :
    IsBottom x y p cy cx (norm (cx + cy * x, cx + (cy + 1) % y * x)) := by
  have hcy : cy < y := lt_of_lt_edgesPer h
  have e1 : x * (cy + 1) = x * cy + x := Nat.mul_succ x cy
  unfold IsBottom
  by_cases h1 : cy + 1 < y
  · left
    refine ⟨h1, ?_⟩
    rw [Nat.mod_eq_of_lt h1, Nat.mul_comm cy x, Nat.mul_comm (cy + 1) x]
    simp only [norm]
    rw [if_pos (by omega)]
    simp only [Prod.mk.injEq]; omega
  · right
    have h3 : cy + 1 = y := by omega
    have hp : p = true ∧ 2 < y := by
      unfold edgesPer at h
      by_cases hq : y ≤ 2 ∨ p = false
      · simp [hq] at h; omega
      · simp only [not_or] at hq
        exact ⟨by simpa using hq.2, by omega⟩
    refine ⟨hp.1, hp.2, h3, ?_⟩
    rw [h3, Nat.mod_self, Nat.mul_comm cy x]
    have h4 : x * 1 ≤ x * cy := Nat.mul_le_mul_left x (by omega)
    simp only [norm]
    rw [if_neg (by omega)]
    simp only [Prod.mk.injEq]; omega

theorem isBottom_lt_edgesPer {x y : Nat} {p : Bool} {r c : Nat} {e : Nat × Nat} (hr : r < y)
    (h : IsBottom x y p r c e) : r < edgesPer y p := by
  unfold edgesPer
  rcases h with ⟨h1, _⟩ | ⟨hp, h2, _, _⟩
  · split <;> omega
  · have : ¬ (y ≤ 2 ∨ p = false) := by simp [hp]; omega
    simp [this]; exact hr

theorem mem_horizontal_norm {l : Lattice} {e : Nat × Nat} :
    e ∈ (l.horizontalNeighbors false).map norm ↔
      ∃ r c, c < l.x ∧ r < l.y ∧ IsRight l.x l.periodic r c e := by
  simp only [horizontalNeighbors, emit, toSiteIndex, List.map_flatMap, List.mem_flatMap, List.mem_range,
    Bool.false_eq_true, if_false, List.map_cons, List.map_nil, List.mem_singleton]
  constructor
  · rintro ⟨cx, hcx, cy, hcy, rfl⟩
    exact ⟨cy, cx, lt_of_lt_edgesPer hcx, hcy, hpair_isRight hcx⟩
  · rintro ⟨r, c, hc, hr, h⟩
    have hc' := isRight_lt_edgesPer hc h
    exact ⟨c, hc', r, hr, isRight_fun h (hpair_isRight hc')⟩

theorem mem_vertical_norm {l : Lattice} {e : Nat × Nat} (hx : 0 < l.x) :
    e ∈ (l.verticalNeighbors false).map norm ↔
      ∃ r c, c < l.x ∧ r < l.y ∧ IsBottom l.x l.y l.periodic r c e := by
  simp only [verticalNeighbors, emit, toSiteIndex, List.map_flatMap, List.mem_flatMap, List.mem_range,
    Bool.false_eq_true, if_false, List.map_cons, List.map_nil, List.mem_singleton]
  constructor
  · rintro ⟨cy, hcy, cx, hcx, rfl⟩
    exact ⟨cy, cx, hcx, lt_of_lt_edgesPer hcy, vpair_isBottom hx hcy⟩
  · rintro ⟨r, c, hc, hr, h⟩
    have hr' := isBottom_lt_edgesPer hr h
    exact ⟨r, hr', c, hc, isBottom_fun h (vpair_isBottom hx hr')⟩

theorem horizontal_norm_nodup (l : Lattice) : ((l.horizontalNeighbors false).map norm).Nodup := by
  simp only [horizontalNeighbors, emit, toSiteIndex, List.map_flatMap,
    Bool.false_eq_true, if_false, List.map_cons, List.map_nil]
  apply nodup_flatMap_of_inj List.nodup_range
  · intro cx hcx
    have hcx := List.mem_range.1 hcx
    apply nodup_flatMap_of_inj List.nodup_range
    · intro cy _; simp
    · intro cy _ cy' _ e he he'
      simp only [List.mem_singleton] at he he'
      have h1 := hpair_isRight (cy := cy) hcx
      have h2 := hpair_isRight (cy := cy') hcx
      rw [← he] at h1; rw [← he'] at h2
      exact (isRight_unique (lt_of_lt_edgesPer hcx) (lt_of_lt_edgesPer hcx) h1 h2).1
  · intro cx hcx cx' hcx' e he he'
    have hcx := List.mem_range.1 hcx
    have hcx' := List.mem_range.1 hcx'
    simp only [List.mem_flatMap, List.mem_range, List.mem_singleton] at he he'
    obtain ⟨cy, _, rfl⟩ := he
    obtain ⟨cy', _, he'⟩ := he'
    have h1 := hpair_isRight (cy := cy) hcx
    have h2 := hpair_isRight (cy := cy') hcx'
    rw [← he'] at h2
    exact (isRight_unique (lt_of_lt_edgesPer hcx) (lt_of_lt_edgesPer hcx') h1 h2).2

theorem vertical_norm_nodup (l : Lattice) (hx : 0 < l.x) : ((l.verticalNeighbors false).map norm).Nodup := by
  simp only [verticalNeighbors, emit, toSiteIndex, List.map_flatMap,
    Bool.false_eq_true, if_false, List.map_cons, List.map_nil]
  apply nodup_flatMap_of_inj List.nodup_range
  · intro cy hcy
    have hcy := List.mem_range.1 hcy
    apply nodup_flatMap_of_inj List.nodup_range
    · intro cx _; simp
    · intro cx hcx cx' hcx' e he he'
      simp only [List.mem_singleton] at he he'
      have h1 := vpair_isBottom (cx := cx) hx hcy
      have h2 := vpair_isBottom (cx := cx') hx hcy
      rw [← he] at h1; rw [← he'] at h2
      exact (isBottom_unique (List.mem_range.1 hcx) (List.mem_range.1 hcx') h1 h2).2
  · intro cy hcy cy' hcy' e he he'
    have hcy := List.mem_range.1 hcy
    have hcy' := List.mem_range.1 hcy'
    simp only [List.mem_flatMap, List.mem_range, List.mem_singleton] at he he'
    obtain ⟨cx, hcx, rfl⟩ := he
    obtain ⟨cx', hcx', he'⟩ := he'
    have h1 := vpair_isBottom (cx := cx) hx hcy
    have h2 := vpair_isBottom (cx := cx') hx hcy'
    rw [← he'] at h2
    exact (isBottom_unique hcx hcx' h1 h2).1

theorem mem_neighbors_norm {l : Lattice} {e : Nat × Nat} (hx : 0 < l.x) :
    e ∈ (l.neighbors false).map norm ↔ IsBond l.x l.y l.periodic e := by
  unfold neighbors IsBond
  rw [List.map_append, List.mem_append, mem_horizontal_norm, mem_vertical_norm hx]
  constructor
  · rintro (⟨r, c, hc, hr, h⟩ | ⟨r, c, hc, hr, h⟩)
    · exact ⟨r, c, hc, hr, Or.inl h⟩
    · exact ⟨r, c, hc, hr, Or.inr h⟩
  · rintro ⟨r, c, hc, hr, h | h⟩
    · exact Or.inl ⟨r, c, hc, hr, h⟩
    · exact Or.inr ⟨r, c, hc, hr, h⟩

theorem neighbors_norm_nodup (l : Lattice) (hx : 0 < l.x) : ((l.neighbors false).map norm).Nodup := by
  unfold neighbors
  rw [List.map_append, List.nodup_append]
  refine ⟨horizontal_norm_nodup l, vertical_norm_nodup l hx, ?_⟩
  intro a ha b hb hab
  subst hab
  obtain ⟨r, c, hc, _, h⟩ := mem_horizontal_norm.1 ha
  obtain ⟨r', c', hc', _, h'⟩ := (mem_vertical_norm hx).1 hb
  exact right_ne_bottom hc hc' h h'

theorem flatMap_emit_perm {α : Type} (l : List α) (i j : α → Nat) :
    (l.flatMap fun a => emit true (i a) (j a)) ~
      (l.flatMap fun a => emit false (i a) (j a)) ++ (l.flatMap fun a => emit false (i a) (j a)).map Prod.swap := by
  have h1 : (l.flatMap fun a => emit false (i a) (j a)).map Prod.swap = l.flatMap fun a => [(j a, i a)] := by
    simp [List.map_flatMap, emit]
  rw [h1]
  have := (List.flatMap_append_perm l (fun a => [(i a, j a)]) (fun a => [(j a, i a)])).symm
  simpa [emit] using this

/-- a doubly nested ordered enumeration is the unordered one followed by its mirror image -/
theorem flatMap2_emit_perm {α β : Type} (l1 : List α) (l2 : α → List β) (i j : α → β → Nat) :
    (l1.flatMap fun a => (l2 a).flatMap fun b => emit true (i a b) (j a b)) ~
      (l1.flatMap fun a => (l2 a).flatMap fun b => emit false (i a b) (j a b)) ++
      (l1.flatMap fun a => (l2 a).flatMap fun b => emit false (i a b) (j a b)).map Prod.swap := by
  have step : (l1.flatMap fun a => (l2 a).flatMap fun b => emit true (i a b) (j a b)) ~
      l1.flatMap fun a => ((l2 a).flatMap fun b => emit false (i a b) (j a b)) ++
        ((l2 a).flatMap fun b => emit false (i a b) (j a b)).map Prod.swap :=
    List.Perm.flatMap_left _ (fun a _ => flatMap_emit_perm (l2 a) (i a) (j a))
  refine step.trans ?_
  refine (List.flatMap_append_perm l1 _ _).symm.trans ?_
  rw [List.map_flatMap]

theorem horizontal_ordered_perm (l : Lattice) :
    l.horizontalNeighbors true ~ l.horizontalNeighbors false ++ (l.horizontalNeighbors false).map Prod.swap :=
  flatMap2_emit_perm _ _ _ _

theorem vertical_ordered_perm (l : Lattice) :
    l.verticalNeighbors true ~ l.verticalNeighbors false ++ (l.verticalNeighbors false).map Prod.swap :=
  flatMap2_emit_perm _ _ _ _

theorem neighbors_ordered_perm' (l : Lattice) :
    l.neighbors true ~ l.neighbors false ++ (l.neighbors false).map Prod.swap := by
  unfold neighbors
  rw [List.map_append]
  have h := (horizontal_ordered_perm l).append (vertical_ordered_perm l)
  refine h.trans ?_
  -- (H ++ Hs) ++ (V ++ Vs) ~ (H ++ V) ++ (Hs ++ Vs)
  rw [List.append_assoc, List.append_assoc]
  refine List.Perm.append_left _ ?_
  rw [← List.append_assoc, ← List.append_assoc]
  exact List.perm_append_comm.append_right _

end OFV.C13
