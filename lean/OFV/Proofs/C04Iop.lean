/-
`jordan_wigner(InteractionOperator)`: the loops over index combinations with symmetrised coefficients denote
the tensor formula `const + Σ T1[p,q] a†_p a_q + Σ T2[p,q,r,s] a†_p a†_q a_r a_s` for Hermitian tensors.
Part 1: sums over pairs, antisymmetry of the fermionic four-factor terms.
-/
import OFV.Proofs.C04TwoBodyAll

namespace OFV
namespace Sem
open Spec Model Model.C04

/-! ### sums -/

theorem sum_flatMap {α β : Type} (l : List α) (f : α → List β) (g : β → GQ) :
    ((l.flatMap f).map g).sum = (l.map fun a => ((f a).map g).sum).sum := by
  induction l with
  | nil => simp
  | cons a l ih => simp [List.flatMap_cons, ih]

theorem sum_add_map {α : Type} (l : List α) (f g : α → GQ) :
    (l.map fun a => f a + g a).sum = (l.map f).sum + (l.map g).sum := by
  induction l with
  | nil => simp
  | cons a l ih => simp [ih]; ring

theorem sum_zero_map {α : Type} (l : List α) (f : α → GQ) (h : ∀ a ∈ l, f a = 0) : (l.map f).sum = 0 := by
  induction l with
  | nil => simp
  | cons a l ih =>
    simp only [List.map_cons, List.sum_cons, h a List.mem_cons_self, zero_add]
    exact ih (fun b hb => h b (List.mem_cons_of_mem _ hb))

/-- a double sum over a list = diagonal + both orders of every unordered pair -/
theorem sum_pairs_split {α : Type} (l : List α) (F : α → α → GQ) :
    (l.map fun a => (l.map fun b => F a b).sum).sum
      = (l.map fun a => F a a).sum + ((combs2 l).map fun ab => F ab.1 ab.2 + F ab.2 ab.1).sum := by
  induction l with
  | nil => simp [combs2]
  | cons x r ih =>
    simp only [List.map_cons, List.sum_cons, combs2, List.map_append, List.sum_append, List.map_map]
    have e1 : (r.map fun a => F a x + (r.map fun b => F a b).sum).sum
        = (r.map fun a => F a x).sum + (r.map fun a => (r.map fun b => F a b).sum).sum := sum_add_map r _ _
    have e2 : (r.map ((fun ab : α × α => F ab.1 ab.2 + F ab.2 ab.1) ∘ fun y => (x, y))).sum
        = (r.map fun b => F x b).sum + (r.map fun a => F a x).sum := by
      rw [← sum_add_map]; rfl
    rw [e1, e2, ih]; ring

theorem mem_combs2 {α : Type} (l : List α) (a b : α) (h : (a, b) ∈ combs2 l) : a ∈ l ∧ b ∈ l := by
  induction l with
  | nil => simp [combs2] at h
  | cons x r ih =>
    simp only [combs2, List.mem_append, List.mem_map] at h
    rcases h with ⟨y, hy, he⟩ | h
    · simp only [Prod.mk.injEq] at he
      obtain ⟨rfl, rfl⟩ := he
      exact ⟨List.mem_cons_self, List.mem_cons_of_mem _ hy⟩
    · have := ih h
      exact ⟨List.mem_cons_of_mem _ this.1, List.mem_cons_of_mem _ this.2⟩

theorem combs2_range_lt (n p q : Nat) (h : (p, q) ∈ combs2 (List.range n)) : p < q ∧ q < n := by
  induction n with
  | zero => simp [combs2] at h
  | succ n ih =>
    rw [List.range_succ] at h
    -- combs2 (l ++ [x]) = combs2 l ++ l.map (·, x)
    have key : ∀ (l : List Nat) (x : Nat), combs2 (l ++ [x]) = combs2 l ++ l.map (fun a => (a, x)) ∨ True := fun _ _ => Or.inr trivial
    clear key
    have hsplit : ∀ (l : List Nat) (x : Nat) (a b : Nat), (a, b) ∈ combs2 (l ++ [x]) → (a, b) ∈ combs2 l ∨ (a ∈ l ∧ b = x) := by
      intro l x
      induction l with
      | nil => intro a b h; simp [combs2] at h
      | cons y r ihr =>
        intro a b h
        simp only [List.cons_append, combs2, List.mem_append, List.mem_map] at h ⊢
        rcases h with ⟨z, hz, he⟩ | h
        · simp only [Prod.mk.injEq] at he
          obtain ⟨rfl, rfl⟩ := he
          rcases hz with h1 | h1
          · left; left; exact ⟨z, h1, rfl⟩
          · simp at h1; right; exact ⟨List.mem_cons_self, h1⟩
        · rcases ihr a b h with h1 | ⟨h1, h2⟩
          · left; right; exact h1
          · right; exact ⟨List.mem_cons_of_mem _ h1, h2⟩
    rcases hsplit (List.range n) n p q h with h1 | ⟨h1, h2⟩
    · have := ih h1; omega
    · rw [List.mem_range] at h1; omega

/-! ### antisymmetry of the four-factor terms -/

theorem two_create_swap (p q m : Nat) (h : p ≠ q) :
    (match actF q 1 m with
      | none => (none : Option (Nat × Nat))
      | some (k2, m2) => match actF p 1 m2 with
        | none => none
        | some (k1, m1) => some ((k2 + k1) % 2, m1))
    = (match actF p 1 m with
      | none => none
      | some (k2, m2) => match actF q 1 m2 with
        | none => none
        | some (k1, m1) => some ((k2 + k1 + 1) % 2, m1)) := by
  have b1 : (m ^^^ (1 <<< q)).testBit p = m.testBit p := testBit_xflip_ne m q p (Ne.symm h)
  have b2 : (m ^^^ (1 <<< p)).testBit q = m.testBit q := testBit_xflip_ne m p q h
  have e1 := cb_xflip_parity m q p (Ne.symm h)
  have e2 := cb_xflip_parity m p q h
  rw [actF_cre q m, actF_cre p m]
  cases hq : m.testBit q <;> cases hp : m.testBit p <;>
    simp only [Bool.false_eq_true, if_false, if_true, actF_cre, b1, b2, hq, hp]
  rw [xflip_comm m q p]
  have : (countBelow m q % 2 + countBelow (m ^^^ (1 <<< q)) p % 2) % 2
      = (countBelow m p % 2 + countBelow (m ^^^ (1 <<< p)) q % 2 + 1) % 2 := by
    by_cases hlt : p < q
    · have : ¬ q < p := by omega
      simp only [hlt, this, if_true, if_false] at e1 e2; omega
    · have : q < p := by omega
      simp only [hlt, this, if_true, if_false] at e1 e2; omega
  rw [this]

theorem two_ann_swap (r s m : Nat) (h : r ≠ s) :
    (match actF s 0 m with
      | none => (none : Option (Nat × Nat))
      | some (k2, m2) => match actF r 0 m2 with
        | none => none
        | some (k1, m1) => some ((k2 + k1) % 2, m1))
    = (match actF r 0 m with
      | none => none
      | some (k2, m2) => match actF s 0 m2 with
        | none => none
        | some (k1, m1) => some ((k2 + k1 + 1) % 2, m1)) := by
  have b1 : (m ^^^ (1 <<< s)).testBit r = m.testBit r := testBit_xflip_ne m s r (Ne.symm h)
  have b2 : (m ^^^ (1 <<< r)).testBit s = m.testBit s := testBit_xflip_ne m r s h
  have e1 := cb_xflip_parity m s r (Ne.symm h)
  have e2 := cb_xflip_parity m r s h
  rw [actF_ann s m, actF_ann r m]
  cases hq : m.testBit s <;> cases hp : m.testBit r <;>
    simp only [Bool.false_eq_true, if_false, if_true, actF_ann, b1, b2, hq, hp]
  rw [xflip_comm m s r]
  have : (countBelow m s % 2 + countBelow (m ^^^ (1 <<< s)) r % 2) % 2
      = (countBelow m r % 2 + countBelow (m ^^^ (1 <<< r)) s % 2 + 1) % 2 := by
    by_cases hlt : r < s
    · have : ¬ s < r := by omega
      simp only [hlt, this, if_true, if_false] at e1 e2; omega
    · have : s < r := by omega
      simp only [hlt, this, if_true, if_false] at e1 e2; omega
  rw [this]

end Sem
end OFV

namespace OFV
namespace Sem
open Spec Model Model.C04

/-- two ladder operators in a row: `g2` first, then `g1` -/
def twoStep (g2 g1 : Nat × Nat) (m : Nat) : Option (Nat × Nat) :=
  match actF g2.1 g2.2 m with
  | none => none
  | some (k2, m2) => match actF g1.1 g1.2 m2 with
    | none => none
    | some (k1, m1) => some ((k2 + k1) % 2, m1)

def bump (o : Option (Nat × Nat)) : Option (Nat × Nat) :=
  match o with
  | none => none
  | some (k, m) => some ((k + 1) % 2, m)

theorem twoStep_swap_create (p q m : Nat) (h : p ≠ q) :
    twoStep (q, 1) (p, 1) m = bump (twoStep (p, 1) (q, 1) m) := by
  have := two_create_swap p q m h
  unfold twoStep bump
  simp only at this ⊢
  rw [this]
  cases actF p 1 m with
  | none => rfl
  | some km =>
    obtain ⟨k2, m2⟩ := km
    simp only
    cases actF q 1 m2 with
    | none => rfl
    | some km1 => obtain ⟨k1, m1⟩ := km1; simp only; congr 2; omega

theorem twoStep_swap_ann (r s m : Nat) (h : r ≠ s) :
    twoStep (s, 0) (r, 0) m = bump (twoStep (r, 0) (s, 0) m) := by
  have := two_ann_swap r s m h
  unfold twoStep bump
  simp only at this ⊢
  rw [this]
  cases actF r 0 m with
  | none => rfl
  | some km =>
    obtain ⟨k2, m2⟩ := km
    simp only
    cases actF s 0 m2 with
    | none => rfl
    | some km1 => obtain ⟨k1, m1⟩ := km1; simp only; congr 2; omega

theorem tC_pairs (f1 f2 f3 f4 : Nat × Nat) (m x : Nat) :
    termCoef .fermion [f1, f2, f3, f4] [m] [x]
      = match twoStep f4 f3 m with
        | none => 0
        | some (ka, ma) => match twoStep f2 f1 ma with
          | none => 0
          | some (kb, mb) => if mb = x then GQ.sgn (ka + kb) else 0 := by
  rw [tC_four]
  unfold twoStep
  cases actF f4.1 f4.2 m with
  | none => rfl
  | some km4 =>
    obtain ⟨k4, m4⟩ := km4
    simp only
    cases actF f3.1 f3.2 m4 with
    | none => rfl
    | some km3 =>
      obtain ⟨k3, m3⟩ := km3
      simp only
      cases actF f2.1 f2.2 m3 with
      | none => rfl
      | some km2 =>
        obtain ⟨k2, m2⟩ := km2
        simp only
        cases actF f1.1 f1.2 m2 with
        | none => rfl
        | some km1 =>
          obtain ⟨k1, m1⟩ := km1
          simp only
          split
          · apply sgn_congr; omega
          · rfl

/-- `a†_p a†_q = - a†_q a†_p` inside a two-body term -/
theorem tC_swap12 (p q : Nat) (f3 f4 : Nat × Nat) (m x : Nat) (h : p ≠ q) :
    termCoef .fermion [(p, 1), (q, 1), f3, f4] [m] [x] = -termCoef .fermion [(q, 1), (p, 1), f3, f4] [m] [x] := by
  rw [tC_pairs, tC_pairs]
  cases twoStep f4 f3 m with
  | none => simp
  | some kma =>
    obtain ⟨ka, ma⟩ := kma
    simp only
    rw [twoStep_swap_create p q ma h]
    cases twoStep (p, 1) (q, 1) ma with
    | none => simp [bump]
    | some kmb =>
      obtain ⟨kb, mb⟩ := kmb
      simp only [bump]
      split
      · rw [← sgn_succ]; apply sgn_congr; omega
      · simp

/-- `a_r a_s = - a_s a_r` inside a two-body term -/
theorem tC_swap34 (f1 f2 : Nat × Nat) (r s m x : Nat) (h : r ≠ s) :
    termCoef .fermion [f1, f2, (r, 0), (s, 0)] [m] [x] = -termCoef .fermion [f1, f2, (s, 0), (r, 0)] [m] [x] := by
  rw [tC_pairs, tC_pairs, twoStep_swap_ann r s m h]
  cases twoStep (r, 0) (s, 0) m with
  | none => simp [bump]
  | some kma =>
    obtain ⟨ka, ma⟩ := kma
    simp only [bump]
    cases twoStep f2 f1 ma with
    | none => simp
    | some kmb =>
      obtain ⟨kb, mb⟩ := kmb
      simp only
      split
      · rw [← sgn_succ]; apply sgn_congr; omega
      · simp

end Sem
end OFV
