/- C09: the encoder of bravyi_kitaev_code is the Fenwick-tree encoding of the C05 Spec (row k has ones exactly on
[k + 1 - lowbit (k + 1), k]), hence binary_code_transform with the BK code and bravyi_kitaev (C05 Model) are the
same operator on the encoded states. -/
import OFV.Proofs.C09Jw
import OFV.Proofs.C09JwEq
import OFV.Properties.C05

namespace OFV.C09
open OFV.Model OFV.Model.C09 OFV.Spec.C09
open OFV.Spec (melF)
open OFV.Sem (den cnt cnt_succ cnt_self)
open OFV.BK (lowbitW loM clearLow_eq lowbitW_add lowbitW_pos lowbitW_even lowbitW_odd)
open OFV.Model.C05 (clearLow)

theorem lowbitW_pow2 (m : Nat) : lowbitW (2 ^ m) = 2 ^ m := by
  induction m with
  | zero => exact lowbitW_odd (by decide)
  | succ m ih =>
    have hpos : 0 < 2 ^ (m + 1) := Nat.pow_pos (by omega)
    have hev : 2 ^ (m + 1) % 2 = 0 := by rw [Nat.pow_succ]; omega
    rw [lowbitW_even hpos hev]
    have : 2 ^ (m + 1) / 2 = 2 ^ m := by rw [Nat.pow_succ]; omega
    rw [this, ih, Nat.pow_succ]; omega

theorem loM_eq (k : Nat) : loM k = k + 1 - lowbitW (k + 1) := by unfold loM; rw [clearLow_eq]

theorem loM_last (m : Nat) : loM (2 ^ m - 1) = 0 := by
  have hpos : 0 < 2 ^ m := Nat.pow_pos (by omega)
  rw [loM_eq, show 2 ^ m - 1 + 1 = 2 ^ m by omega, lowbitW_pow2]; omega

theorem loM_upper (m k : Nat) (h1 : 2 ^ m ≤ k) (h2 : k < 2 * 2 ^ m - 1) : loM k = 2 ^ m + loM (k - 2 ^ m) := by
  rw [loM_eq, loM_eq]
  have e : k + 1 = 2 ^ m + (k - 2 ^ m + 1) := by omega
  have hl := lowbitW_add (k - 2 ^ m + 1) (2 ^ m) (by omega) (by rw [lowbitW_pow2]; omega)
  rw [e, hl]
  have := (lowbitW_pos (k - 2 ^ m + 1) (by omega)).2
  omega

theorem getD_ones (N c : Nat) : (ones N).getD c 0 = if c < N then 1 else 0 := by
  unfold ones
  by_cases h : c < N
  · simp [List.getD_eq_getElem?_getD, List.getElem?_replicate, h]
  · simp [List.getD_eq_getElem?_getD, List.getElem?_replicate, h]

/-- the entries of the doubled encoder matrix: ones exactly on the Fenwick interval of the row -/
theorem encIter_entry (r : Nat) : ∀ k c, k < 2 ^ (r + 1) →
    ((encIter r).getD k []).getD c 0 = if loM k ≤ c ∧ c ≤ k then 1 else 0 := by
  induction r with
  | zero =>
    intro k c hk
    have hk2 : k = 0 ∨ k = 1 := by omega
    have l0 : loM 0 = 0 := loM_last 0
    have l1 : loM 1 = 0 := loM_last 1
    rcases hk2 with rfl | rfl
    · rw [l0]
      match c with
      | 0 => rfl
      | 1 => rfl
      | c + 2 => simp [encIter, bkSeed]
    · rw [l1]
      match c with
      | 0 => rfl
      | 1 => rfl
      | c + 2 => simp [encIter, bkSeed]
  | succ r ih =>
    intro k c hk
    have hinv := bkInv_iter r
    have hN : 0 < 2 ^ (r + 1) := Nat.pow_pos (by omega)
    rw [encIter_succ, rows_encStep hinv.sqE (r + 1) rfl k]
    have hk' : k < 2 * 2 ^ (r + 1) := by rw [Nat.pow_succ] at hk; omega
    by_cases c1 : k < 2 ^ (r + 1)
    · rw [if_pos c1]
      have hlen : ((encIter r).getD k []).length = 2 ^ (r + 1) := hinv.sqE.2 k c1
      by_cases hc : c < 2 ^ (r + 1)
      · rw [getD_append_left_nat _ _ c (by rw [hlen]; exact hc), ih k c c1]
      · rw [getD_append_right_nat _ _ c (by rw [hlen]; omega), getD_zeros]
        rw [if_neg (by omega)]
    · rw [if_neg c1]
      by_cases c2 : k < 2 * 2 ^ (r + 1) - 1
      · rw [if_pos c2]
        have hlo := loM_upper (r + 1) k (by omega) c2
        have hzl : (zeros (2 ^ (r + 1))).length = 2 ^ (r + 1) := by simp [zeros]
        by_cases hc : c < 2 ^ (r + 1)
        · rw [getD_append_left_nat _ _ c (by rw [hzl]; exact hc), getD_zeros, if_neg (by omega)]
        · rw [getD_append_right_nat _ _ c (by rw [hzl]; omega), hzl, ih (k - 2 ^ (r + 1)) (c - 2 ^ (r + 1)) (by omega), hlo]
          by_cases hh : loM (k - 2 ^ (r + 1)) ≤ c - 2 ^ (r + 1) ∧ c - 2 ^ (r + 1) ≤ k - 2 ^ (r + 1)
          · rw [if_pos hh, if_pos (by omega)]
          · rw [if_neg hh, if_neg (by omega)]
      · rw [if_neg c2]
        have hkl : k = 2 * 2 ^ (r + 1) - 1 := by omega
        rw [if_pos hkl, hinv.lastRow]
        have hl0 : loM k = 0 := by
          rw [hkl, show 2 * 2 ^ (r + 1) = 2 ^ (r + 1 + 1) by rw [Nat.pow_succ]; omega]; exact loM_last _
        have hol : (ones (2 ^ (r + 1))).length = 2 ^ (r + 1) := by simp [ones]
        rw [hl0]
        by_cases hc : c < 2 ^ (r + 1)
        · rw [getD_append_left_nat _ _ c (by rw [hol]; exact hc), getD_ones, if_pos hc, if_pos (by omega)]
        · rw [getD_append_right_nat _ _ c (by rw [hol]; omega), hol, getD_ones]
          by_cases hc2 : c - 2 ^ (r + 1) < 2 ^ (r + 1)
          · rw [if_pos hc2, if_pos (by omega)]
          · rw [if_neg hc2, if_neg (by omega)]

/-! ### the encoding of a Fock state is the vector of interval parities -/

theorem dot_map_range (f g : Nat → Nat) (n : Nat) :
    dot ((List.range n).map f) ((List.range n).map g) = ((List.range n).map fun c => f c * g c).sum := by
  induction n with
  | zero => simp
  | succ m ih =>
    rw [List.range_succ, List.map_append, List.map_append, List.map_append,
      dot_append _ _ _ _ (by simp), ih, List.sum_append]
    simp [dot]

theorem sum_interval_bits (s lo k : Nat) (hlo : lo ≤ k) (n : Nat) :
    ((List.range n).map fun c => (if lo ≤ c ∧ c ≤ k then 1 else 0) * (if s.testBit c then 1 else 0)).sum =
      if n ≤ lo then 0 else if n ≤ k + 1 then cnt s lo n else cnt s lo (k + 1) := by
  induction n with
  | zero => simp
  | succ m ih =>
    rw [List.range_succ, List.map_append, List.sum_append, ih]
    simp only [List.map_cons, List.map_nil, List.sum_cons, List.sum_nil, Nat.add_zero]
    by_cases h1 : m + 1 ≤ lo
    · have : ¬ (lo ≤ m ∧ m ≤ k) := by omega
      simp [h1, show m ≤ lo by omega, this]
    · by_cases h2 : m ≤ lo
      · have hm : m = lo := by omega
        subst hm
        have : m ≤ m ∧ m ≤ k := ⟨Nat.le_refl _, hlo⟩
        have h3 : m + 1 ≤ k + 1 := by omega
        rw [if_pos (Nat.le_refl _), if_neg h1, if_pos h3, if_pos this, cnt_succ s m m (Nat.le_refl _), cnt_self]
        simp
      · rw [if_neg h2, if_neg h1]
        by_cases h3 : m + 1 ≤ k + 1
        · have : lo ≤ m ∧ m ≤ k := by omega
          rw [if_pos (by omega), if_pos h3, if_pos this, cnt_succ s lo m (by omega)]
          simp
        · have : ¬ (lo ≤ m ∧ m ≤ k) := by omega
          have hx : (if m ≤ k + 1 then cnt s lo m else cnt s lo (k + 1)) = cnt s lo (k + 1) := by
            split
            · have : m = k + 1 := by omega
              rw [this]
            · rfl
          rw [hx, if_neg h3, if_neg this]
          simp

theorem sum_interval_bits' (s lo k : Nat) (hlo : lo ≤ k) (n : Nat) (hk : k < n) :
    ((List.range n).map fun c => (if lo ≤ c ∧ c ≤ k then 1 else 0) * (if s.testBit c then 1 else 0)).sum =
      cnt s lo (k + 1) := by
  rw [sum_interval_bits s lo k hlo n, if_neg (by omega)]
  split
  · have : n = k + 1 := by omega
    rw [this]
  · rfl

theorem occList_eq_map (s n : Nat) : occList s n = (List.range n).map fun j => if s.testBit j then 1 else 0 := rfl

/-- the BK code encodes a Fock state as the C05 Spec does: qubit `k` holds the parity of the Fenwick interval -/
theorem bk_encoding_is_spec (n : Nat) (c : Code) (hc : bravyiKitaevCode n = .ok c) (s : Nat) (hs : s < 2 ^ n) :
    bitsOf (Spec.C05.enc .bk n s) = encFn c (occList s n) := by
  have hinv := bkInv_iter (ceilLog2 n)
  have hnN : n ≤ 2 ^ (ceilLog2 n + 1) := by
    have := ceilLog2_spec n
    rw [Nat.pow_succ]; omega
  have hE : encoderBk n = slice (encIter (ceilLog2 n)) n := rfl
  unfold bravyiKitaevCode at hc
  obtain ⟨ps, hps, _, _⟩ := linearizeDecoder_sound (decoderBk n)
  simp only [hps, bind, Except.bind] at hc
  obtain ⟨rfl, _, _⟩ := mk'_ok _ _ _ _ _ hc
  have hlenE : (encoderBk n).length = n := by rw [hE]; exact length_slice _ _ (by rw [hinv.sqE.1]; exact hnN)
  funext k
  show (Spec.C05.enc .bk n s).testBit k = _
  rw [OFV.BK.enc_testBit]
  by_cases hk : k < n
  · rw [if_pos hk, encFn_eq _ _ _ (by show k < (encoderBk n).length; rw [hlenE]; exact hk)]
    show _ = (dot ((encoderBk n).getD k []) (occList s n) % 2 == 1)
    rw [hE, getD_slice _ _ _ hk (by rw [hinv.sqE.1]; exact hnN)]
    have hkN : k < 2 ^ (ceilLog2 n + 1) := by omega
    have hrow : ((encIter (ceilLog2 n)).getD k []).take n =
        (List.range n).map fun c => if loM k ≤ c ∧ c ≤ k then 1 else 0 := by
      apply list_ext_getD
      · rw [List.length_take, hinv.sqE.2 k hkN]; simp; omega
      · intro c hcl
        have hcn : c < n := by
          rw [List.length_take, hinv.sqE.2 k hkN] at hcl; omega
        rw [getD_take _ _ _ hcn, encIter_entry _ k c hkN, getD_map_range n _ c hcn]
    rw [hrow, occList_eq_map, dot_map_range, sum_interval_bits' s (loM k) k (OFV.BK.loM_le k) n hk]
    unfold OFV.BK.blk
    by_cases hp : cnt s (loM k) (k + 1) % 2 = 1 <;> simp [hp]
  · rw [if_neg hk]
    have h1 : s.testBit k = false :=
      Nat.testBit_lt_two_pow (Nat.lt_of_lt_of_le hs (Nat.pow_le_pow_right (by omega) (by omega)))
    rw [h1]
    unfold encFn encode matVec
    rw [List.getD_eq_getElem?_getD, List.getElem?_eq_none (by simp; show (encoderBk n).length ≤ k; rw [hlenE]; omega)]
    rfl

/-- `binary_code_transform(h, bravyi_kitaev_code(n))` and `bravyi_kitaev(h, n)` (the C05 Model) have the same
matrix elements between all encoded Fock states -/
theorem bct_bk_eq_bk' (n : Nat) (c : Code) (hc : bravyiKitaevCode n = .ok c) (h R : Op)
    (hwf : ∀ tc ∈ h, ∀ f ∈ tc.1, f.2 ≤ 1 ∧ f.1 < n) (hR : binaryCodeTransform 0 h c = .ok R)
    (s out : Nat) (hs : s < 2 ^ n) (ho : out < 2 ^ n) :
    den .qubit R [Spec.C05.enc .bk n s] [Spec.C05.enc .bk n out] =
      den .qubit (Model.C05.bkFermion 0 n h) [Spec.C05.enc .bk n s] [Spec.C05.enc .bk n out] := by
  rw [bct_bk_matrix' n c hc h R hwf hR s out _ _ hs ho (bk_encoding_is_spec n c hc s hs)
    (bk_encoding_is_spec n c hc out ho)]
  have hj := OFV.C05.bk_exact 0 (by decide +kernel) n h (fun tc htc f hf => ⟨(hwf tc htc f hf).2, (hwf tc htc f hf).1⟩)
    (by unfold Model.C05.bkFermionOk; exact sumOk_zero _) s out
  change den .qubit _ _ _ = den .fermion _ _ _ at hj
  rw [hj]
  exact OFV.C19P.melF_eq_den h s out

end OFV.C09
