/- C09: the structural hypotheses of binary_code_transform_sound (decoder components are polynomials without
empty monomial, one per mode) for every constructor of binary_codes.py and their closure under `c + d`, `k * c`;
binary_code_transform_sound for appended codes on the product domain. -/
import OFV.Proofs.C09Jw
import OFV.Proofs.C09IntMul
import OFV.Proofs.C09Addr

namespace OFV.C09
open OFV.Model OFV.Model.C09 OFV.Spec.C09
open OFV.Spec (actF actFTerm melF)
open OFV.Sem (den)

/-- what `binary_code_transform` needs from the decoder: one polynomial per mode, no empty monomial -/
def Struct (c : Code) : Prop :=
  c.dec.length = c.nm ∧ (∀ e ∈ c.dec, ∃ p, e = .poly p) ∧ (∀ e ∈ c.dec, ∀ t ∈ e.toPoly, t ≠ [])

/-! ### polynomials built by the constructors have no empty monomial -/

theorem checkTerms_ne (ts : Poly) : ∀ t ∈ checkTerms ts, t ≠ [] := by
  unfold checkTerms
  suffices H : ∀ (l acc : Poly), (∀ t ∈ acc, t ≠ []) →
      ∀ t ∈ l.foldl (fun acc item => if item.isEmpty then acc else sumRule acc (canonTerm item)) acc, t ≠ [] from
    H ts [] (by simp)
  intro l
  induction l with
  | nil => intro acc h; exact h
  | cons item r ih =>
    intro acc h
    rw [List.foldl_cons]
    apply ih
    intro t ht
    split at ht
    · exact h t ht
    · rename_i hemp
      rcases mem_sumRule acc (canonTerm item) t ht with h1 | h1
      · exact h t h1
      · rw [h1]
        exact canonTerm_ne_nil item (fun e => hemp (by rw [e]; rfl))

theorem ofString_ne (sm : List (List Tok)) (p : Poly) (h : ofString sm = .ok p) : ∀ t ∈ p, t ≠ [] := by
  unfold ofString at h
  cases hm : sm.mapM parseString with
  | error e => simp [hm, bind, Except.bind] at h
  | ok ts =>
    simp only [hm, bind, Except.bind, pure, Except.pure, Except.ok.injEq] at h
    subst h
    exact checkTerms_ne ts

theorem shift_ne (p : Poly) (c : Nat) (h : ∀ t ∈ p, t ≠ []) : ∀ t ∈ shift p c, t ≠ [] := by
  intro t ht
  unfold shift at ht
  obtain ⟨s, hs, rfl⟩ := List.mem_map.mp ht
  apply canonTerm_ne_nil
  intro e
  exact h s hs (List.map_eq_nil_iff.mp e)

theorem imul_ne (p q : Poly) : ∀ t ∈ imul p q, t ≠ [] :=
  fun t ht => canonMono_ne_nil ((wf_imul' p q).2 t ht)

/-! ### closure under `+` and integer `*` -/

theorem shiftDecoder_struct (d sd : List DEntry) (c : Nat) (h : shiftDecoder d c = .ok sd)
    (hne : ∀ e ∈ d, ∀ t ∈ e.toPoly, t ≠ []) :
    sd.length = d.length ∧ (∀ e ∈ sd, ∃ p, e = .poly p) ∧ (∀ e ∈ sd, ∀ t ∈ e.toPoly, t ≠ []) := by
  unfold shiftDecoder at h
  induction d generalizing sd with
  | nil =>
    simp only [List.mapM_nil, pure, Except.pure, Except.ok.injEq] at h
    subst h; simp
  | cons e r ih =>
    rw [List.mapM_cons] at h
    cases e with
    | int0 => simp [bind, Except.bind] at h
    | poly p =>
      simp only [bind, Except.bind] at h
      split at h
      · cases h
      · rename_i rest hr
        simp only [pure, Except.pure, Except.ok.injEq] at h
        subst h
        obtain ⟨i1, i2, i3⟩ := ih rest hr (fun e he => hne e (List.mem_cons_of_mem _ he))
        refine ⟨by simp [i1], ?_, ?_⟩
        · intro e he
          rcases List.mem_cons.mp he with rfl | he
          · exact ⟨_, rfl⟩
          · exact i2 e he
        · intro e he
          rcases List.mem_cons.mp he with rfl | he
          · exact shift_ne p c (hne (.poly p) (by simp))
          · exact i3 e he

theorem iadd_struct (a b c : Code) (h : a.iadd b = .ok c) (ha : Struct a) (hb : Struct b) : Struct c := by
  unfold Code.iadd at h
  cases hs : shiftDecoder b.dec a.nq with
  | error e => simp [hs, bind, Except.bind] at h
  | ok sd =>
    simp only [hs, bind, Except.bind, pure, Except.pure, Except.ok.injEq] at h
    subst h
    obtain ⟨s1, s2, s3⟩ := shiftDecoder_struct b.dec sd a.nq hs hb.2.2
    refine ⟨by simp [ha.1, s1, hb.1], ?_, ?_⟩
    · intro e he
      rcases List.mem_append.mp he with he | he
      · exact ha.2.1 e he
      · exact s2 e he
    · intro e he
      rcases List.mem_append.mp he with he | he
      · exact ha.2.2 e he
      · exact s3 e he

theorem imulInt_struct (a : Code) (m : Nat) (c : Code) (h : a.imulInt ((m + 1 : Nat) : Int) = .ok c) (ha : Struct a) :
    Struct c := by
  induction m generalizing c with
  | zero =>
    rw [imulInt_eq a 0] at h
    simp only [repeatDecoder, List.range_zero, List.foldlM_nil, bind, Except.bind, pure, Except.pure,
      Except.ok.injEq] at h
    subst h
    exact ⟨by show a.dec.length = a.nm * (0 + 1); rw [ha.1]; simp, ha.2.1, ha.2.2⟩
  | succ k ih =>
    obtain ⟨c', h1, h2⟩ := imulInt_succ a k c h
    exact iadd_struct c' a c h2 (ih c' h1) ha

/-! ### every constructor of binary_codes.py -/

theorem mk'_struct (enc : Mat) (nq nm : Nat) (ps : List Poly) (c : Code) (h : Code.mk' enc nq nm ps = .ok c)
    (hne : ∀ p ∈ ps, ∀ t ∈ p, t ≠ []) : Struct c := by
  obtain ⟨rfl, hnm, _⟩ := mk'_ok enc nq nm ps c h
  refine ⟨by simp [hnm], ?_, ?_⟩
  · intro e he
    simp only [List.mem_map] at he
    obtain ⟨p, _, rfl⟩ := he
    exact ⟨p, rfl⟩
  · intro e he
    simp only [List.mem_map] at he
    obtain ⟨p, hp, rfl⟩ := he
    exact hne p hp

theorem mapM_forall {α β : Type} (f : α → Except Err β) (P : β → Prop) (hf : ∀ x y, f x = .ok y → P y)
    (l : List α) (out : List β) (h : l.mapM f = .ok out) : ∀ y ∈ out, P y := by
  induction l generalizing out with
  | nil =>
    simp only [List.mapM_nil, pure, Except.pure, Except.ok.injEq] at h
    subst h; simp
  | cons x r ih =>
    rw [List.mapM_cons] at h
    cases h1 : f x with
    | error e => simp [h1, bind, Except.bind] at h
    | ok y =>
      cases h2 : r.mapM f with
      | error e => simp [h1, h2, bind, Except.bind] at h
      | ok rest =>
        simp only [h1, h2, bind, Except.bind, pure, Except.pure, Except.ok.injEq] at h
        subst h
        intro z hz
        rcases List.mem_cons.mp hz with rfl | hz
        · exact hf x z h1
        · exact ih rest h2 z hz

theorem literalCode_struct (enc : Mat) (toks : List (List (List (Nat × Nat)))) (c : Code)
    (h : literalCode enc toks = .ok c) : Struct c := by
  unfold literalCode at h
  cases hd : toks.mapM (fun comp => ofString (comp.map (·.map tokOf))) with
  | error e => simp [hd, bind, Except.bind] at h
  | ok dec =>
    simp only [hd, bind, Except.bind] at h
    exact mk'_struct _ _ _ _ _ h
      (mapM_forall _ (fun p => ∀ t ∈ p, t ≠ []) (fun x y hxy => ofString_ne _ y hxy) toks dec hd)

theorem w1seg_struct (c : Code) (h : weightOneSegmentCode = .ok c) : Struct c := literalCode_struct _ _ c h
theorem w2seg_struct (c : Code) (h : weightTwoSegmentCode = .ok c) : Struct c := literalCode_struct _ _ c h

theorem binaryAddress_ne (digits address : Nat) (p : Poly) (h : binaryAddress digits address = .ok p) :
    ∀ t ∈ p, t ≠ [] := by
  unfold binaryAddress at h
  cases h1 : ofString [[Tok.const 1]] with
  | error e => simp [h1, bind, Except.bind] at h
  | ok one =>
    rw [h1] at h
    change (List.range digits).foldlM (fun acc i => do
      let f ← addressFactor digits address i
      pure (imul acc f)) one = .ok p at h
    have hone := ofString_ne _ one h1
    suffices H : ∀ (l : List Nat) (acc out : Poly), (∀ t ∈ acc, t ≠ []) →
        l.foldlM (fun acc i => do
          let f ← addressFactor digits address i
          pure (imul acc f)) acc = .ok out → ∀ t ∈ out, t ≠ [] from H _ one p hone h
    intro l
    induction l with
    | nil =>
      intro acc out hacc hout
      simp only [List.foldlM_nil, pure, Except.pure, Except.ok.injEq] at hout
      subst hout; exact hacc
    | cons i r ih =>
      intro acc out hacc hout
      rw [List.foldlM_cons] at hout
      cases hf : addressFactor digits address i with
      | error e => simp [hf, bind, Except.bind] at hout
      | ok f =>
        simp only [hf, bind, Except.bind, pure, Except.pure] at hout
        exact ih (imul acc f) out (imul_ne acc f) hout

theorem w1ba_struct (e : Nat) (c : Code) (h : weightOneBinaryAddressingCode e = .ok c) : Struct c := by
  unfold weightOneBinaryAddressingCode at h
  cases hd : (List.range (2 ^ e)).mapM (binaryAddress e) with
  | error x => simp [hd, bind, Except.bind] at h
  | ok dec =>
    simp only [hd, bind, Except.bind] at h
    exact mk'_struct _ _ _ _ _ h
      (mapM_forall _ (fun p => ∀ t ∈ p, t ≠ []) (fun x y hxy => binaryAddress_ne e x y hxy) _ dec hd)

/-! ### binary_code_transform_sound for derived codes -/

theorem iadd_nm (a b c : Code) (h : a.iadd b = .ok c) : c.nm = a.nm + b.nm := by
  unfold Code.iadd at h
  cases hs : shiftDecoder b.dec a.nq with
  | error e => simp [hs, bind, Except.bind] at h
  | ok sd =>
    simp only [hs, bind, Except.bind, pure, Except.pure, Except.ok.injEq] at h
    subst h; rfl

/-- `c = a + b`: when `a`, `b` decode what they encode on `domA`, `domB`, the transform with `c` is sound on the
product domain `{va ++ vb}` -/
theorem bct_append_sound' (a b c : Code) (h : a.iadd b = .ok c) (ha : Shaped a) (sa : Struct a) (sb : Struct b)
    (domA domB : List Nat → Prop)
    (hA : ∀ v, domA v → v.length = a.nm ∧ (∀ x ∈ v, x ≤ 1) ∧ ValidOn a v)
    (hB : ∀ v, domB v → v.length = b.nm ∧ (∀ x ∈ v, x ≤ 1) ∧ ValidOn b v)
    (H R : Op) (hwf : ∀ tc ∈ H, ∀ f ∈ tc.1, f.2 ≤ 1 ∧ f.1 < a.nm + b.nm)
    (v u : List Nat) (hv : ∃ va vb, v = va ++ vb ∧ domA va ∧ domB vb) (hu : ∃ ua ub, u = ua ++ ub ∧ domA ua ∧ domB ub)
    (wq xq s out : Nat) (hw : bitsOf wq = encFn c v) (hx : bitsOf xq = encFn c u)
    (hs : ∀ j, s.testBit j = (v.getD j 0 == 1)) (ho : ∀ j, out.testBit j = (u.getD j 0 == 1))
    (hpres : ∀ tc ∈ H, ∀ k s', actFTerm tc.1 s = some (k, s') →
      ∃ wa wb, occList s' (a.nm + b.nm) = wa ++ wb ∧ domA wa ∧ domB wb)
    (hR : binaryCodeTransform 0 H c = .ok R) :
    den .qubit R [wq] [xq] = melF H out s := by
  have hnm := iadd_nm a b c h
  have sc := iadd_struct a b c h sa sb
  refine bct_sound_encoded c H R (fun v => ∃ va vb, v = va ++ vb ∧ domA va ∧ domB vb) sc.1 sc.2.1 sc.2.2 ?_
    (by rw [hnm]; exact hwf) v u hv hu wq xq s out hw hx hs ho (by rw [hnm]; exact hpres) hR
  rintro w ⟨wa, wb, rfl, h1, h2⟩
  obtain ⟨la, ba, va⟩ := hA wa h1
  obtain ⟨lb, bb, vb⟩ := hB wb h2
  refine ⟨by rw [List.length_append, la, lb, hnm], ?_, append_valid' a b c wa wb h ha la va vb⟩
  intro x hx
  rcases List.mem_append.mp hx with hx | hx
  · exact ba x hx
  · exact bb x hx

/-- `c = (m + 1) * a`: sound on the `(m + 1)`-fold product domain -/
theorem bct_int_mul_sound' (a : Code) (ha : Shaped a) (sa : Struct a) (m : Nat) (c : Code)
    (h : a.imulInt ((m + 1 : Nat) : Int) = .ok c) (dom : List Nat → Prop)
    (hA : ∀ v, dom v → v.length = a.nm ∧ (∀ x ∈ v, x ≤ 1) ∧ ValidOn a v)
    (H R : Op) (hwf : ∀ tc ∈ H, ∀ f ∈ tc.1, f.2 ≤ 1 ∧ f.1 < a.nm * (m + 1))
    (v u : List Nat) (hv : ∃ vs : List (List Nat), vs.length = m + 1 ∧ v = vs.flatten ∧ ∀ x ∈ vs, dom x)
    (hu : ∃ us : List (List Nat), us.length = m + 1 ∧ u = us.flatten ∧ ∀ x ∈ us, dom x)
    (wq xq s out : Nat) (hw : bitsOf wq = encFn c v) (hx : bitsOf xq = encFn c u)
    (hs : ∀ j, s.testBit j = (v.getD j 0 == 1)) (ho : ∀ j, out.testBit j = (u.getD j 0 == 1))
    (hpres : ∀ tc ∈ H, ∀ k s', actFTerm tc.1 s = some (k, s') →
      ∃ ws : List (List Nat), ws.length = m + 1 ∧ occList s' (a.nm * (m + 1)) = ws.flatten ∧ ∀ x ∈ ws, dom x)
    (hR : binaryCodeTransform 0 H c = .ok R) :
    den .qubit R [wq] [xq] = melF H out s := by
  have sc := imulInt_struct a m c h sa
  have hnm : c.nm = a.nm * (m + 1) := by
    rw [imulInt_eq a m] at h
    cases hr : repeatDecoder a.dec a.nq m with
    | error e => simp [hr, bind, Except.bind] at h
    | ok dec =>
      simp only [hr, bind, Except.bind, pure, Except.pure, Except.ok.injEq] at h
      subst h; rfl
  refine bct_sound_encoded c H R
    (fun v => ∃ vs : List (List Nat), vs.length = m + 1 ∧ v = vs.flatten ∧ ∀ x ∈ vs, dom x) sc.1 sc.2.1 sc.2.2 ?_
    (by rw [hnm]; exact hwf) v u hv hu wq xq s out hw hx hs ho (by rw [hnm]; exact hpres) hR
  rintro w ⟨ws, hl, rfl, hd⟩
  refine ⟨?_, ?_, (int_mul_valid' a ha m c h ws hl (fun x hx => ⟨(hA x (hd x hx)).1, (hA x (hd x hx)).2.2⟩)).1⟩
  · rw [length_flatten_const ws a.nm (fun x hx => (hA x (hd x hx)).1), hl, hnm]
  · intro x hx
    obtain ⟨l, hl', hxl⟩ := List.mem_flatten.mp hx
    exact (hA l (hd l hl')).2.1 x hxl

/-! ### concatenation `a * f` (double_decoding) -/

theorem foldlM_inv {α β : Type} (Q : β → Prop) (step : β → α → Except Err β)
    (hstep : ∀ acc x acc', Q acc → step acc x = .ok acc' → Q acc') (l : List α) (init out : β) (hinit : Q init)
    (h : l.foldlM step init = .ok out) : Q out := by
  induction l generalizing init with
  | nil =>
    simp only [List.foldlM_nil, pure, Except.pure, Except.ok.injEq] at h
    subst h; exact hinit
  | cons x r ih =>
    rw [List.foldlM_cons] at h
    cases h1 : step init x with
    | error e => simp [h1, bind, Except.bind] at h
    | ok acc1 =>
      simp only [h1, bind, Except.bind] at h
      exact ih acc1 (hstep init x acc1 hinit h1) h

theorem ddTerm_ne (d2 : List DEntry) (summand : Mono) (t : Poly) (h : ddTerm d2 summand = .ok t) :
    ∀ m ∈ t, m ≠ [] := by
  unfold ddTerm at h
  refine foldlM_inv (fun (p : Poly) => ∀ m ∈ p, m ≠ []) _ ?_ _ _ _ (by simp) h
  intro acc f acc' hacc hs
  cases hd : (d2[f]? : Option DEntry) with
  | none => simp [hd] at hs
  | some e =>
    cases e with
    | poly q =>
      simp only [hd, Except.ok.injEq] at hs
      subst hs; exact imul_ne acc q
    | int0 =>
      simp only [hd, Except.ok.injEq] at hs
      subst hs
      simp [imulInt]

theorem doubleDecoding_struct (d1 d2 dd : List DEntry) (h : doubleDecoding d1 d2 = .ok dd) :
    dd.length = d1.length ∧ (∀ e ∈ dd, ∃ p, e = .poly p) ∧ (∀ e ∈ dd, ∀ t ∈ e.toPoly, t ≠ []) := by
  unfold doubleDecoding at h
  have hP := mapM_forall _ (fun (e : DEntry) => (∃ p, e = .poly p) ∧ ∀ t ∈ e.toPoly, t ≠ []) ?_ d1 dd h
  · refine ⟨?_, fun e he => (hP e he).1, fun e he => (hP e he).2⟩
    clear hP
    induction d1 generalizing dd with
    | nil =>
      simp only [List.mapM_nil, pure, Except.pure, Except.ok.injEq] at h
      subst h; rfl
    | cons x r ih =>
      rw [List.mapM_cons] at h
      simp only [bind, Except.bind] at h
      split at h
      · cases h
      · split at h
        · cases h
        · rename_i y _ rest hr
          simp only [pure, Except.pure, Except.ok.injEq] at h
          subst h
          rw [List.length_cons, List.length_cons, ih rest hr]
  · intro x y hxy
    cases x with
    | int0 => cases hxy
    | poly p =>
      simp only at hxy
      refine foldlM_inv (fun (e : DEntry) => (∃ p, e = .poly p) ∧ ∀ t ∈ e.toPoly, t ≠ []) _ ?_ _ _ _
        ⟨⟨[], rfl⟩, by simp [DEntry.toPoly]⟩ hxy
      intro acc summand acc' hacc hs
      cases ht : ddTerm d2 summand with
      | error e => simp [ht, bind, Except.bind] at hs
      | ok t =>
        simp only [ht, bind, Except.bind, pure, Except.pure, Except.ok.injEq] at hs
        subst hs
        refine ⟨⟨_, rfl⟩, ?_⟩
        intro m hm
        simp only [DEntry.toPoly] at hm
        rcases mem_iadd t acc.toPoly m hm with h1 | h1
        · exact ddTerm_ne d2 summand t ht m h1
        · exact hacc.2 m h1

theorem imulCode_struct (a f c : Code) (h : a.imulCode f = .ok c) (ha : Struct a) : Struct c := by
  unfold Code.imulCode at h
  split at h
  · cases h
  · cases hd : doubleDecoding a.dec f.dec with
    | error e => simp [hd, bind, Except.bind] at h
    | ok dd =>
      simp only [hd, bind, Except.bind, pure, Except.pure, Except.ok.injEq] at h
      subst h
      obtain ⟨d1, d2, d3⟩ := doubleDecoding_struct a.dec f.dec dd hd
      exact ⟨by show dd.length = a.nm; rw [d1, ha.1], d2, d3⟩

/-- `c = a * f` (concatenation): when `a` decodes what it encodes on `dom` and `f` on the encodings of `dom`, the
transform with `c` is sound on `dom` -/
theorem bct_concat_sound' (a f c : Code) (h : a.imulCode f = .ok c) (ha : Shaped a) (sa : Struct a)
    (dom : List Nat → Prop)
    (hA : ∀ v, dom v → v.length = a.nm ∧ (∀ x ∈ v, x ≤ 1) ∧ ValidOn a v ∧ ValidOn f (encode a v))
    (H R : Op) (hwf : ∀ tc ∈ H, ∀ g ∈ tc.1, g.2 ≤ 1 ∧ g.1 < a.nm)
    (v u : List Nat) (hv : dom v) (hu : dom u)
    (wq xq s out : Nat) (hw : bitsOf wq = encFn c v) (hx : bitsOf xq = encFn c u)
    (hs : ∀ j, s.testBit j = (v.getD j 0 == 1)) (ho : ∀ j, out.testBit j = (u.getD j 0 == 1))
    (hpres : ∀ tc ∈ H, ∀ k s', actFTerm tc.1 s = some (k, s') → dom (occList s' a.nm))
    (hR : binaryCodeTransform 0 H c = .ok R) :
    den .qubit R [wq] [xq] = melF H out s := by
  have sc := imulCode_struct a f c h sa
  have hnm : c.nm = a.nm := by
    unfold Code.imulCode at h
    split at h
    · cases h
    · cases hd : doubleDecoding a.dec f.dec with
      | error e => simp [hd, bind, Except.bind] at h
      | ok dd =>
        simp only [hd, bind, Except.bind, pure, Except.pure, Except.ok.injEq] at h
        subst h; rfl
  refine bct_sound_encoded c H R dom sc.1 sc.2.1 sc.2.2 ?_ (by rw [hnm]; exact hwf) v u hv hu wq xq s out hw hx hs ho
    (by rw [hnm]; exact hpres) hR
  intro w hwd
  obtain ⟨l, b, va, vf⟩ := hA w hwd
  exact ⟨by rw [hnm]; exact l, b, concat_valid' a f c w h ha va vf⟩

end OFV.C09
