/-
C16 helper lemmas: the reduction step of `symmetry_conserving_bravyi_kitaev`
(`edit_hamiltonian_for_spin` twice, `remove_indices`) against the qubit Spec: the reduced operator has
the matrix elements of the Bravyi-Kitaev-tree Hamiltonian in the sector of the two removed qubits
fixed by `N mod 4`.
-/
import OFV.Proofs.C16Proj
import OFV.Proofs.C16Embed
import OFV.Proofs.C16Prune

namespace OFV
namespace C16P
open Spec Model Model.C16

/-! ### `compress` in its exact regime -/

theorem den_compress (tol : Rat) (φ : Term → GQ) (A : Model.Op) (h : compressExactB tol A = true) :
    Model.den φ (compress tol A) = Model.den φ A := by
  induction A with
  | nil => rfl
  | cons e r ih =>
    obtain ⟨t, c⟩ := e
    have hall := List.all_eq_true.mp h
    have he := hall (t, c) (by simp)
    have hr : compressExactB tol r = true :=
      List.all_eq_true.mpr (fun x hx => hall x (List.mem_cons_of_mem _ hx))
    have ih' := ih hr
    simp only [Bool.and_eq_true, Bool.or_eq_true, beq_iff_eq, decide_eq_true_eq] at he
    obtain ⟨him, hre⟩ := he
    have hsq : (0 : Rat) ≤ tol * tol := mul_self_nonneg tol
    have c1 : (if c.im * c.im ≤ tol * tol then (⟨c.re, 0⟩ : GQ) else c) = c := by
      rcases him with h0 | hbig
      · rw [h0]; simp only [mul_zero, hsq, if_true]
        apply GQ.ext <;> simp [h0]
      · rw [if_neg (by linarith)]
    have c2 : (if c.re * c.re ≤ tol * tol then (⟨0, c.im⟩ : GQ) else c) = c := by
      rcases hre with h0 | hbig
      · rw [h0]; simp only [mul_zero, hsq, if_true]
        apply GQ.ext <;> simp [h0]
      · rw [if_neg (by linarith)]
    have hstep : compress tol ((t, c) :: r)
        = (if c.normSq > tol * tol then [(t, c)] else []) ++ compress tol r := by
      unfold compress
      rw [List.filterMap_cons]
      simp only [c1, c2]
      by_cases hn : c.normSq > tol * tol
      · simp [hn]
      · simp [hn]
    rw [hstep, den_append, ih', Model.den_cons]
    by_cases hn : c.normSq > tol * tol
    · rw [if_pos hn]; simp [Model.den]
    · rw [if_neg hn]
      have hz : c = 0 := by
        unfold GQ.normSq at hn
        have h1 : c.re = 0 := by
          rcases hre with h0 | hbig
          · exact h0
          · have := mul_self_nonneg c.im; linarith
        have h2 : c.im = 0 := by
          rcases him with h0 | hbig
          · exact h0
          · have := mul_self_nonneg c.re; linarith
        apply GQ.ext <;> simp [h1, h2]
      rw [hz]; simp [Model.den]

theorem ite_some_fst {P : Prop} [Decidable P] (t : Term) (x : GQ) (b : Term × GQ)
    (h : (if P then some (t, x) else none) = some b) : b.1 = t := by
  by_cases hp : P
  · rw [if_pos hp] at h; simp only [Option.some.injEq] at h; rw [← h]
  · rw [if_neg hp] at h; cases h

theorem compress_sub (tol : Rat) (A : Model.Op) : ∀ e ∈ compress tol A, ∃ e0 ∈ A, e.1 = e0.1 := by
  intro e he
  unfold compress at he
  obtain ⟨e0, h0, h1⟩ := List.mem_filterMap.mp he
  refine ⟨e0, h0, ?_⟩
  obtain ⟨t, c⟩ := e0
  simp only at h1
  exact ite_some_fst _ _ _ h1

theorem wf_compress (tol : Rat) (A : Model.Op) (h : Dict.WF A) : Dict.WF (compress tol A) := by
  unfold Dict.WF Dict.keys at *
  induction A with
  | nil => simp [compress]
  | cons e r ih =>
    obtain ⟨hx, hr⟩ := List.nodup_cons.mp h
    have ihr := ih hr
    unfold compress at ihr ⊢
    rw [List.filterMap_cons]
    split
    · exact ihr
    · rename_i b hb
      rw [List.map_cons, List.nodup_cons]
      refine ⟨?_, ihr⟩
      intro hm
      obtain ⟨e', he', hk⟩ := List.mem_map.mp hm
      obtain ⟨e0, h0, h1⟩ := compress_sub tol r e' he'
      obtain ⟨t, c⟩ := e
      simp only at hb
      have hb1 : b.1 = t := ite_some_fst _ _ _ hb
      apply hx
      rw [List.map_cons] at *
      exact List.mem_map.mpr ⟨e0, h0, by rw [← h1, hk, hb1]⟩

/-! ### `edit_hamiltonian_for_spin` -/

/-- the term `edit_hamiltonian_for_spin` files a term under -/
def editKey (so : Nat) (τ : Term) : Term :=
  if so ≥ 1 ∧ τ.contains (so - 1, 3) then τ.filter fun f => f ≠ (so - 1, 3) else τ

theorem editRaw_den (φ : Term → GQ) (so : Nat) (par : GQ) (A : Model.Op) :
    Model.den φ (editRaw A so par)
      = Model.den (fun τ => (if so ≥ 1 ∧ τ.contains (so - 1, 3) then par else 1) * φ (editKey so τ)) A := by
  unfold editRaw
  have gen : ∀ (A acc : Model.Op), Model.den φ (A.foldl (fun (acc : Model.Op) (e : Term × GQ) =>
      if so ≥ 1 ∧ e.1.contains (so - 1, 3) then
        accum acc (e.1.filter fun f => f ≠ (so - 1, 3)) (e.2 * par)
      else accum acc e.1 e.2) acc)
      = Model.den φ acc
        + Model.den (fun τ => (if so ≥ 1 ∧ τ.contains (so - 1, 3) then par else 1) * φ (editKey so τ)) A := by
    intro A
    induction A with
    | nil => intro acc; simp [Model.den]
    | cons e r ih =>
      intro acc
      rw [List.foldl_cons, ih, Model.den_cons]
      unfold editKey
      by_cases hc : so ≥ 1 ∧ e.1.contains (so - 1, 3) = true
      · simp only [hc, and_self, if_true]
        rw [den_accum]; ring
      · simp only [hc, if_false]
        rw [den_accum]; ring
  have := gen A []
  simpa [Model.den] using this

theorem accum_all (P : Term → Prop) (d : Model.Op) (k : Term) (c : GQ) (hd : ∀ e ∈ d, P e.1) (hk : P k) :
    ∀ e ∈ accum d k c, P e.1 := by
  unfold accum
  split
  · exact set_all P _ hd hk
  · exact set_all P _ hd hk

theorem wf_accum (d : Model.Op) (k : Term) (c : GQ) (h : Dict.WF d) : Dict.WF (accum d k c) := by
  unfold accum
  split
  · exact Proofs.C03.wf_set _ _ _ h
  · exact Proofs.C03.wf_set _ _ _ h

theorem editRaw_all (P Q : Term → Prop) (so : Nat) (par : GQ) (hPQ : ∀ τ, P τ → Q (editKey so τ))
    (A : Model.Op) (hA : ∀ e ∈ A, P e.1) :
    Dict.WF (editRaw A so par) ∧ ∀ e ∈ editRaw A so par, Q e.1 := by
  unfold editRaw
  have gen : ∀ (A acc : Model.Op), (∀ e ∈ A, P e.1) → Dict.WF acc → (∀ e ∈ acc, Q e.1) →
      Dict.WF (A.foldl (fun (acc : Model.Op) (e : Term × GQ) =>
        if so ≥ 1 ∧ e.1.contains (so - 1, 3) then
          accum acc (e.1.filter fun f => f ≠ (so - 1, 3)) (e.2 * par)
        else accum acc e.1 e.2) acc) ∧
      ∀ e ∈ (A.foldl (fun (acc : Model.Op) (e : Term × GQ) =>
        if so ≥ 1 ∧ e.1.contains (so - 1, 3) then
          accum acc (e.1.filter fun f => f ≠ (so - 1, 3)) (e.2 * par)
        else accum acc e.1 e.2) acc), Q e.1 := by
    intro A
    induction A with
    | nil => intro acc _ h1 h2; exact ⟨h1, h2⟩
    | cons e r ih =>
      intro acc hA h1 h2
      rw [List.foldl_cons]
      have hq := hPQ e.1 (hA e (by simp))
      unfold editKey at hq
      apply ih _ (fun x hx => hA x (by simp [hx]))
      · split
        · exact wf_accum _ _ _ h1
        · exact wf_accum _ _ _ h1
      · by_cases hc : so ≥ 1 ∧ e.1.contains (so - 1, 3) = true
        · rw [if_pos hc] at hq ⊢
          exact accum_all Q _ _ _ h2 hq
        · rw [if_neg hc] at hq ⊢
          exact accum_all Q _ _ _ h2 hq
  exact gen A [] hA (by simp [Dict.WF, Dict.keys]) (fun e he => by simp at he)

/-! ### `remove_indices` -/

theorem mapKeys_den (g : Term → Term) (φ : Term → GQ) :
    ∀ (A : Model.Op) (acc : Model.Op), Dict.WF A →
    (∀ e1 ∈ A, ∀ e2 ∈ A, g e1.1 = g e2.1 → e1.1 = e2.1) →
    (∀ k ∈ Dict.keys acc, ∀ e ∈ A, k ≠ g e.1) →
    Model.den φ (A.foldl (fun acc (e : Term × GQ) => Dict.set acc (g e.1) e.2) acc)
      = Model.den φ acc + Model.den (fun t => φ (g t)) A := by
  intro A
  induction A with
  | nil => intro acc _ _ _; simp [Model.den]
  | cons e r ih =>
    intro acc hwf hinj hdis
    rw [List.foldl_cons]
    have hwf' : Dict.WF r := (List.nodup_cons.mp hwf).2
    have hnot : e.1 ∉ Dict.keys r := (List.nodup_cons.mp hwf).1
    have habs : g e.1 ∉ Dict.keys acc := fun hk => hdis _ hk e (by simp) rfl
    rw [ih _ hwf' (fun a ha b hb => hinj a (by simp [ha]) b (by simp [hb])) ?_, Model.den_cons,
      den_set_absent φ acc _ e.2 (get?_none_of_not_mem acc _ habs)]
    · ring
    · intro k hk e' he'
      rw [Proofs.C03.keys_set, if_neg habs] at hk
      rcases List.mem_append.mp hk with hk | hk
      · exact hdis k hk e' (by simp [he'])
      · simp only [List.mem_singleton] at hk
        subst hk
        intro heq
        have := hinj e (by simp) e' (by simp [he']) heq
        exact hnot (this ▸ List.mem_map.mpr ⟨e', he', rfl⟩)

/-! ### the terms -/

/-- what the Bravyi-Kitaev-tree Hamiltonian of a number- and spin-conserving operator looks like:
Pauli strings on distinct qubits below `n`, with `I` or `Z` only on the two qubits to be removed -/
structure Good (n q1 q2 : Nat) (τ : Term) : Prop where
  pauli : Pauli123 τ
  distinct : τ.Pairwise (fun a b => a.1 ≠ b.1)
  lt : ∀ f ∈ τ, f.1 < n
  zonly : ∀ f ∈ τ, f.1 = q1 ∨ f.1 = q2 → f.2 = 3

theorem Good.filter {n q1 q2 : Nat} {τ : Term} (h : Good n q1 q2 τ) (P : Factor → Bool) :
    Good n q1 q2 (τ.filter P) :=
  ⟨fun f hf => h.pauli f (List.mem_filter.mp hf).1, h.distinct.filter _,
   fun f hf => h.lt f (List.mem_filter.mp hf).1, fun f hf => h.zonly f (List.mem_filter.mp hf).1⟩

theorem editKey_eq (so q : Nat) (hso : so ≥ 1) (hq : q = so - 1) (τ : Term) (hz : ∀ f ∈ τ, f.1 = q → f.2 = 3) :
    editKey so τ = τ.filter fun f => f.1 ≠ q := by
  unfold editKey
  subst hq
  by_cases hc : τ.contains (so - 1, 3) = true
  · rw [if_pos ⟨hso, hc⟩]
    apply List.filter_congr
    intro f hf
    by_cases h1 : f.1 = so - 1
    · have : f = (so - 1, 3) := Prod.ext h1 (hz f hf h1)
      simp [h1, this]
    · have : f ≠ (so - 1, 3) := fun e => h1 (by rw [e])
      simp [h1, this]
  · rw [if_neg (fun h => hc h.2)]
    symm
    apply List.filter_eq_self.mpr
    intro f hf
    have : f.1 ≠ so - 1 := by
      intro h1
      have : f = (so - 1, 3) := Prod.ext h1 (hz f hf h1)
      exact hc (by rw [← this]; simpa using hf)
    simpa using this

theorem contains_filter_ne (τ : Term) (q q' : Nat) (h : q ≠ q') :
    (τ.filter fun f => f.1 ≠ q').contains (q, 3) = τ.contains (q, 3) := by
  rw [Bool.eq_iff_iff]
  simp only [List.contains_iff_mem, List.mem_filter]
  constructor
  · exact fun h => h.1
  · exact fun hm => ⟨hm, by simpa using h⟩

theorem expo_two (q1 q2 σ1 σ2 : Nat) (hne : q1 ≠ q2) :
    ∀ (τ : Term), τ.Pairwise (fun a b => a.1 ≠ b.1) → (∀ f ∈ τ, f.1 = q1 ∨ f.1 = q2 → f.2 = 3) →
    expo [q2, q1] [σ2, σ1] τ
      = (if τ.contains (q2, 3) then σ2 else 0) + (if τ.contains (q1, 3) then σ1 else 0) := by
  intro τ
  induction τ with
  | nil => intro _ _; simp [expo]
  | cons f r ih =>
    intro hd hz
    obtain ⟨hf, hr⟩ := List.pairwise_cons.mp hd
    have IH := ih hr (fun g hg => hz g (List.mem_cons_of_mem _ hg))
    have hnot : ∀ q, f.1 = q → r.contains (q, 3) = false := by
      intro q hq
      rw [Bool.eq_false_iff]
      intro hc
      have hm : (q, 3) ∈ r := by simpa using hc
      exact hf (q, 3) hm hq
    by_cases h2 : f.1 = q2
    · have hf3 : f = (q2, 3) := Prod.ext h2 (hz f (by simp) (Or.inr h2))
      have e1 : expo [q2, q1] [σ2, σ1] (f :: r) = σ2 + expo [q2, q1] [σ2, σ1] r := by
        simp [expo, hf3, indexOf]
      have c2 : (f :: r).contains (q2, 3) = true := by simp [hf3]
      have c1 : (f :: r).contains (q1, 3) = r.contains (q1, 3) := by
        have : ¬ ((q1, 3) = f) := by rw [hf3]; simp [hne]
        simp [List.contains_cons, this]
      rw [e1, IH, c2, c1, hnot q2 h2]; simp
    · by_cases h1 : f.1 = q1
      · have hf3 : f = (q1, 3) := Prod.ext h1 (hz f (by simp) (Or.inl h1))
        have hne' : ¬ q2 = q1 := fun e => hne e.symm
        have e1 : expo [q2, q1] [σ2, σ1] (f :: r) = σ1 + expo [q2, q1] [σ2, σ1] r := by
          simp [expo, hf3, indexOf, hne']
        have c1 : (f :: r).contains (q1, 3) = true := by simp [hf3]
        have c2 : (f :: r).contains (q2, 3) = r.contains (q2, 3) := by
          have : ¬ ((q2, 3) = f) := by rw [hf3]; simp [hne']
          simp [List.contains_cons, this]
        rw [e1, IH, c1, c2, hnot q1 h1]; simp; omega
      · have e1 : expo [q2, q1] [σ2, σ1] (f :: r) = expo [q2, q1] [σ2, σ1] r := by
          have : ¬ (f.1 = q2 ∨ f.1 = q1) := fun h => h.elim h2 h1
          simp [expo, List.filter_cons, h2, h1]
        have c1 : (f :: r).contains (q1, 3) = r.contains (q1, 3) := by
          have : ¬ ((q1, 3) = f) := fun e => h1 (by rw [← e])
          simp [List.contains_cons, this]
        have c2 : (f :: r).contains (q2, 3) = r.contains (q2, 3) := by
          have : ¬ ((q2, 3) = f) := fun e => h2 (by rw [← e])
          simp [List.contains_cons, this]
        rw [e1, IH, c1, c2]

theorem map_newIndex_inj (R : List Nat) (hR : R.Nodup) : ∀ (t1 t2 : Term),
    (∀ f ∈ t1, f.1 ∉ R) → (∀ f ∈ t2, f.1 ∉ R) →
    t1.map (fun f => (shiftDown R f.1, f.2)) = t2.map (fun f => (shiftDown R f.1, f.2)) → t1 = t2 := by
  intro t1
  induction t1 with
  | nil =>
    intro t2 _ _ h
    cases t2 with
    | nil => rfl
    | cons _ _ => simp at h
  | cons g r ih =>
    intro t2 h1 h2 h
    cases t2 with
    | nil => simp at h
    | cons g' r' =>
      simp only [List.map_cons, List.cons.injEq, Prod.mk.injEq] at h
      obtain ⟨⟨e1, e2⟩, e3⟩ := h
      have a1 := h1 g (by simp)
      have a2 := h2 g' (by simp)
      have : g.1 = g'.1 := by
        rcases Nat.lt_trichotomy g.1 g'.1 with hl | he | hl
        · have := shiftDown_strictMono R hR a1 hl; omega
        · exact he
        · have := shiftDown_strictMono R hR a2 hl; omega
      have hg : g = g' := Prod.ext this e2
      rw [hg, ih r' (fun x hx => h1 x (by simp [hx])) (fun x hx => h2 x (by simp [hx])) e3]

/-! ### the reduction -/

/-- the sector bits fixed by `N mod 4` (`1` = the removed qubit is in `|1⟩`, parity factor `-1`) -/
def sigmaF (N : Nat) : Nat := if N % 4 = 0 ∨ N % 4 = 2 then 0 else 1
def sigmaM (N : Nat) : Nat := if N % 4 = 0 ∨ N % 4 = 3 then 0 else 1

theorem sgn_ite (c : Bool) (σ : Nat) : GQ.sgn (if c = true then σ else 0) = if c = true then GQ.sgn σ else 1 := by
  cases c <;> simp [GQ.sgn]

/-- **the reduction of `symmetry_conserving_bravyi_kitaev`** against the Spec embedding -/
theorem scbk_den (tol : Rat) (n N : Nat) (Q : Model.Op) (hn : 2 ≤ n)
    (hQ : ∀ e ∈ Q, Good n (n - 1) (n / 2 - 1) e.1) (hex : scbkExact tol Q n N = true) (s t : Nat)
    (hs : s < 2 ^ (n - 2)) (ht : t < 2 ^ (n - 2)) :
    Sem.den .qubit (scbkReduce tol Q n N) [s] [t]
      = Sem.den .qubit Q
          [Spec.C16.embed (keptList n [n / 2 - 1, n - 1]) (onesList [n / 2 - 1, n - 1] [sigmaM N, sigmaF N]) s]
          [Spec.C16.embed (keptList n [n / 2 - 1, n - 1]) (onesList [n / 2 - 1, n - 1] [sigmaM N, sigmaF N]) t] := by
  have hne : n - 1 ≠ n / 2 - 1 := by omega
  have hqnd : [n / 2 - 1, n - 1].Nodup := by simp; omega
  have hqn : ∀ q ∈ [n / 2 - 1, n - 1], q < n := by
    intro q hq; simp at hq; rcases hq with rfl | rfl <;> omega
  have hE := embed_emb n [n / 2 - 1, n - 1] [sigmaM N, sigmaF N] hqnd hqn rfl
  have hsec : ∀ q, [sigmaM N, sigmaF N][indexOf [n / 2 - 1, n - 1] q]?.getD 0 = 0 ∨
      [sigmaM N, sigmaF N][indexOf [n / 2 - 1, n - 1] q]?.getD 0 = 1 := by
    intro q
    have hM : sigmaM N = 0 ∨ sigmaM N = 1 := by unfold sigmaM; split <;> simp
    have hF : sigmaF N = 0 ∨ sigmaF N = 1 := by unfold sigmaF; split <;> simp
    by_cases h2 : n / 2 - 1 = q
    · simp [indexOf, h2]; exact hM
    · by_cases h1 : n - 1 = q
      · simp [indexOf, h2, h1]; exact hF
      · simp [indexOf, h2, h1]
  -- the parity factors
  generalize hpF : (if N % 4 = 0 ∨ N % 4 = 2 then (1 : GQ) else -1) = pF
  generalize hpM : (if N % 4 = 0 ∨ N % 4 = 3 then (1 : GQ) else -1) = pM
  have hsF : GQ.sgn (sigmaF N) = pF := by
    rw [← hpF]; unfold sigmaF; split <;> simp [GQ.sgn]
  have hsM : GQ.sgn (sigmaM N) = pM := by
    rw [← hpM]; unfold sigmaM; split <;> simp [GQ.sgn]
  have hdef : scbkReduce tol Q n N
      = removeIndices (editHamiltonianForSpin tol (editHamiltonianForSpin tol Q n pF) (n / 2) pM) [n / 2, n] := by
    rw [← hpF, ← hpM]; rfl
  have hexd : compressExactB tol (editRaw Q n pF) = true ∧
      compressExactB tol (editRaw (editHamiltonianForSpin tol Q n pF) (n / 2) pM) = true := by
    have : scbkExact tol Q n N = (compressExactB tol (editRaw Q n pF) &&
        compressExactB tol (editRaw (editHamiltonianForSpin tol Q n pF) (n / 2) pM)) := by
      rw [← hpF, ← hpM]; rfl
    rw [this, Bool.and_eq_true] at hex
    exact hex
  obtain ⟨ex1, ex2⟩ := hexd
  -- the terms of the intermediate dictionaries
  have hPQ1 : ∀ τ, Good n (n - 1) (n / 2 - 1) τ →
      (Good n (n - 1) (n / 2 - 1) (editKey n τ) ∧ ∀ f ∈ editKey n τ, f.1 ≠ n - 1) := by
    intro τ hτ
    rw [editKey_eq n (n - 1) (by omega) rfl τ (fun f hf h => hτ.zonly f hf (Or.inl h))]
    exact ⟨hτ.filter _, fun f hf => by simpa using (List.mem_filter.mp hf).2⟩
  obtain ⟨_, all1⟩ := editRaw_all (Good n (n - 1) (n / 2 - 1))
    (fun τ => Good n (n - 1) (n / 2 - 1) τ ∧ ∀ f ∈ τ, f.1 ≠ n - 1) n pF hPQ1 Q hQ
  have allA1 : ∀ e ∈ editHamiltonianForSpin tol Q n pF,
      Good n (n - 1) (n / 2 - 1) e.1 ∧ ∀ f ∈ e.1, f.1 ≠ n - 1 := by
    intro e he
    obtain ⟨e0, h0, h1⟩ := compress_sub tol _ e he
    rw [h1]; exact all1 e0 h0
  have hPQ2 : ∀ τ, (Good n (n - 1) (n / 2 - 1) τ ∧ ∀ f ∈ τ, f.1 ≠ n - 1) →
      ((Good n (n - 1) (n / 2 - 1) (editKey (n / 2) τ) ∧ ∀ f ∈ editKey (n / 2) τ, f.1 ≠ n - 1) ∧
        ∀ f ∈ editKey (n / 2) τ, f.1 ≠ n / 2 - 1) := by
    intro τ hτ
    rw [editKey_eq (n / 2) (n / 2 - 1) (by omega) rfl τ (fun f hf h => hτ.1.zonly f hf (Or.inr h))]
    exact ⟨⟨hτ.1.filter _, fun f hf => hτ.2 f (List.mem_filter.mp hf).1⟩,
      fun f hf => by simpa using (List.mem_filter.mp hf).2⟩
  obtain ⟨wf2, all2⟩ := editRaw_all (fun τ => Good n (n - 1) (n / 2 - 1) τ ∧ ∀ f ∈ τ, f.1 ≠ n - 1)
    (fun τ => (Good n (n - 1) (n / 2 - 1) τ ∧ ∀ f ∈ τ, f.1 ≠ n - 1) ∧ ∀ f ∈ τ, f.1 ≠ n / 2 - 1)
    (n / 2) pM hPQ2 (editHamiltonianForSpin tol Q n pF) allA1
  have wfA2 : Dict.WF (editHamiltonianForSpin tol (editHamiltonianForSpin tol Q n pF) (n / 2) pM) :=
    wf_compress tol _ wf2
  have allA2 : ∀ e ∈ editHamiltonianForSpin tol (editHamiltonianForSpin tol Q n pF) (n / 2) pM,
      ∀ f ∈ e.1, f.1 ∉ [n / 2 - 1, n - 1] := by
    intro e he f hf
    obtain ⟨e0, h0, h1⟩ := compress_sub tol _ e he
    have := all2 e0 h0
    rw [← h1] at this
    simp only [List.mem_cons, List.mem_nil_iff, or_false, not_or]
    exact ⟨this.2 f hf, this.1.2 f hf⟩
  -- the relabelling of `remove_indices`
  have hidx : ∀ j, newIndex [n / 2, n] j = shiftDown [n / 2 - 1, n - 1] j := by
    intro j
    rw [newIndex_eq_shiftDown [n / 2, n] (by intro i hi; simp at hi; rcases hi with rfl | rfl <;> omega) j]
    rfl
  have hrem : ∀ (A : Model.Op), removeIndices A [n / 2, n]
      = A.foldl (fun acc (e : Term × GQ) =>
          Dict.set acc (e.1.map fun f => (shiftDown [n / 2 - 1, n - 1] f.1, f.2)) e.2) [] := by
    intro A
    unfold removeIndices
    congr 1
    funext acc e
    obtain ⟨t, c⟩ := e
    simp only
    congr 1
    apply List.map_congr_left
    intro f _
    rw [hidx]
  rw [hdef, semDen_eq_modelDen, semDen_eq_modelDen, hrem,
    mapKeys_den (fun τ => τ.map fun f => (shiftDown [n / 2 - 1, n - 1] f.1, f.2)) _ _ [] wfA2
      (fun e1 h1 e2 h2 heq => map_newIndex_inj _ hqnd e1.1 e2.1 (allA2 e1 h1) (allA2 e2 h2) heq)
      (fun k hk => by simp [Dict.keys] at hk)]
  simp only [Model.den_nil, zero_add]
  have eA2 : editHamiltonianForSpin tol (editHamiltonianForSpin tol Q n pF) (n / 2) pM
      = compress tol (editRaw (editHamiltonianForSpin tol Q n pF) (n / 2) pM) := rfl
  rw [eA2, den_compress tol _ _ ex2, editRaw_den]
  have eA1 : editHamiltonianForSpin tol Q n pF = compress tol (editRaw Q n pF) := rfl
  rw [eA1, den_compress tol _ _ ex1, editRaw_den]
  apply den_congr_mem
  intro e he
  have hτ := hQ e he
  -- one term
  have k1 := editKey_eq n (n - 1) (by omega) rfl e.1 (fun f hf h => hτ.zonly f hf (Or.inl h))
  have hτ' := hτ.filter (fun f => decide (f.1 ≠ n - 1))
  have k2 := editKey_eq (n / 2) (n / 2 - 1) (by omega) rfl (e.1.filter fun f => f.1 ≠ n - 1)
    (fun f hf h => hτ'.zonly f hf (Or.inr h))
  have hc2 := contains_filter_ne e.1 (n / 2 - 1) (n - 1) (fun h => hne h.symm)
  have hnt : ((e.1.filter fun f => f.1 ≠ n - 1).filter fun f => f.1 ≠ n / 2 - 1).map
      (fun f => (shiftDown [n / 2 - 1, n - 1] f.1, f.2)) = newTerm [n / 2 - 1, n - 1] e.1 := by
    unfold newTerm
    rw [List.filter_filter]
    congr 1
    apply List.filter_congr
    intro f _
    by_cases a : f.1 = n / 2 - 1 <;> by_cases b : f.1 = n - 1 <;> simp [a, b, List.contains_cons]
  have hkept := termCoef_kept n [n / 2 - 1, n - 1] [sigmaM N, sigmaF N] _ hE hqnd hqn hsec e.1 hτ.pauli
    (fun f hf hm => hτ.zonly f hf (by simp at hm; tauto)) hτ.lt s t (by simpa using hs) (by simpa using ht)
  rw [hkept, expo_two (n - 1) (n / 2 - 1) (sigmaF N) (sigmaM N) hne e.1 hτ.distinct hτ.zonly, sgn_add',
    sgn_ite, sgn_ite, hsM, hsF]
  simp only [k1, k2, hc2, hnt]
  have g1 : (n ≥ 1 ∧ e.1.contains (n - 1, 3) = true) ↔ e.1.contains (n - 1, 3) = true :=
    ⟨fun h => h.2, fun h => ⟨by omega, h⟩⟩
  have g2 : (n / 2 ≥ 1 ∧ e.1.contains (n / 2 - 1, 3) = true) ↔ e.1.contains (n / 2 - 1, 3) = true :=
    ⟨fun h => h.2, fun h => ⟨by omega, h⟩⟩
  simp only [g1, g2]
  ring

end C16P
end OFV
