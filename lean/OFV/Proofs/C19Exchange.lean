/-
C19 — the four-distinct-index part of the exchange class of `get_one_norm_int`: for one pair of spatial orbitals with
spin orbitals `a, a+1` and `c, c+1` (`a + 1 < c`), the opposite-spin exchange operator
`K (a†_a a†_{c+1} a_{a+1} a_c + a†_a a†_{a+1} a_{c+1} a_c + h.c.)` (spin flip + pair hopping) has the Pauli form
`K/4 (X Y Y X − X X Y Y − Y Y X X + Y X X Y)` on the qubits `a, a+1, c, c+1`.
-/
import OFV.Proofs.C19PauliAct
import OFV.Proofs.C04Four
import OFV.Proofs.C19JwNorm3

namespace OFV
namespace C19P
open Spec Spec.C19 Sem

def rlq (r : Rat) : GQ := ⟨r, 0⟩

/-- the four surviving words -/
def wXYYX (a c : Nat) : PStr := [(a, 1), (a + 1, 2), (c, 2), (c + 1, 1)]
def wXXYY (a c : Nat) : PStr := [(a, 1), (a + 1, 1), (c, 2), (c + 1, 2)]
def wYYXX (a c : Nat) : PStr := [(a, 2), (a + 1, 2), (c, 1), (c + 1, 1)]
def wYXXY (a c : Nat) : PStr := [(a, 2), (a + 1, 1), (c, 1), (c + 1, 2)]

/-- the Pauli form of the opposite-spin exchange of one orbital pair -/
def exchangePauli (a c : Nat) (K : Rat) : Model.Op :=
  [(wXYYX a c, rlq (K / 4)), (wXXYY a c, rlq (-(K / 4))), (wYYXX a c, rlq (-(K / 4))), (wYXXY a c, rlq (K / 4))]

/-- spin flip + pair hopping with their Hermitian conjugates -/
def exchangeFermi (a c : Nat) (K : Rat) : Model.Op :=
  [([(a, 1), (c + 1, 1), (a + 1, 0), (c, 0)], rlq K), ([(c, 1), (a + 1, 1), (c + 1, 0), (a, 0)], rlq K),
   ([(a, 1), (a + 1, 1), (c + 1, 0), (c, 0)], rlq K), ([(c, 1), (c + 1, 1), (a + 1, 0), (a, 0)], rlq K)]

theorem canon_word (a c o1 o2 o3 o4 : Nat) (h : a + 1 < c) (h1 : o1 = 1 ∨ o1 = 2) (h2 : o2 = 1 ∨ o2 = 2)
    (h3 : o3 = 1 ∨ o3 = 2) (h4 : o4 = 1 ∨ o4 = 2) :
    Canon (c + 2) [(a, o1), (a + 1, o2), (c, o3), (c + 1, o4)] := by
  refine ⟨?_, ?_⟩
  · simp only [List.pairwise_cons, List.mem_cons, List.not_mem_nil, or_false, forall_eq_or_imp, forall_eq,
      List.Pairwise.nil, and_true, IsEmpty.forall_iff, implies_true]
    omega
  · intro f hf
    simp only [List.mem_cons, List.not_mem_nil, or_false] at hf
    rcases hf with rfl | rfl | rfl | rfl <;> simp <;> omega

/-- sign of a bit: `(-1)^{m_j}` -/
def sb (m j : Nat) : GQ := if m.testBit j then -1 else 1

theorem sg_cons (n : Nat) (f : Nat × Nat) (r : PStr) (m : Nat) (hf : f.1 < n) :
    sg n (zmask (f :: r) &&& m) = sg n (zmask r &&& m) * (if f.2 = 2 ∨ f.2 = 3 then sb m f.1 else 1) := by
  rw [zmask_cons]
  split
  · rw [sg_zmask_flip n (zmask r) f.1 m hf]; rfl
  · rw [mul_one]

/-- a four-letter word `X/Y` on `a, a+1, c, c+1` flips the four bits and multiplies by `i^{#Y}` times the signs of the
bits under the `Y`s -/
theorem word_coef (a c o1 o2 o3 o4 : Nat) (h : a + 1 < c) (h1 : o1 = 1 ∨ o1 = 2) (h2 : o2 = 1 ∨ o2 = 2)
    (h3 : o3 = 1 ∨ o3 = 2) (h4 : o4 = 1 ∨ o4 = 2) (m x : Nat) :
    termCoef .qubit [(a, o1), (a + 1, o2), (c, o3), (c + 1, o4)] [m] [x]
      = if m ^^^ ((((0 ^^^ (1 <<< (c + 1))) ^^^ (1 <<< c)) ^^^ (1 <<< (a + 1))) ^^^ (1 <<< a)) = x then
          GQ.ipow ((if o1 = 2 then 1 else 0) + (if o2 = 2 then 1 else 0) + (if o3 = 2 then 1 else 0) + (if o4 = 2 then 1 else 0))
            * ((if o1 = 2 then sb m a else 1) * (if o2 = 2 then sb m (a + 1) else 1)
                * (if o3 = 2 then sb m c else 1) * (if o4 = 2 then sb m (c + 1) else 1))
        else 0 := by
  obtain ⟨e1, e2⟩ := act_canon (c + 2) _ (canon_word a c o1 o2 o3 o4 h h1 h2 h3 h4) m
  rw [termCoef_qubit, e1, e2]
  have hx : xmask [(a, o1), (a + 1, o2), (c, o3), (c + 1, o4)]
      = (((0 ^^^ (1 <<< (c + 1))) ^^^ (1 <<< c)) ^^^ (1 <<< (a + 1))) ^^^ (1 <<< a) := by
    rcases h1 with rfl | rfl <;> rcases h2 with rfl | rfl <;> rcases h3 with rfl | rfl <;> rcases h4 with rfl | rfl <;>
      simp [xmask]
  rw [hx]
  split
  · congr 1
    · rcases h1 with rfl | rfl <;> rcases h2 with rfl | rfl <;> rcases h3 with rfl | rfl <;> rcases h4 with rfl | rfl <;>
        simp [ycount]
    · rw [sg_cons _ _ _ _ (by show a < c + 2; omega), sg_cons _ _ _ _ (by show a + 1 < c + 2; omega),
        sg_cons _ _ _ _ (by show c < c + 2; omega), sg_cons _ _ _ _ (by show c + 1 < c + 2; omega)]
      have z0 : sg (c + 2) (zmask [] &&& m) = 1 := by
        show sg (c + 2) (0 &&& m) = 1
        rw [Nat.zero_and, sg_zero]
      rw [z0]
      rcases h1 with rfl | rfl <;> rcases h2 with rfl | rfl <;> rcases h3 with rfl | rfl <;> rcases h4 with rfl | rfl <;>
        simp <;> ring
  · rfl

theorem cb_succ (m j : Nat) : countBelow m (j + 1) = countBelow m j + (if m.testBit j then 1 else 0) := by
  rw [countBelow_eq_cnt, countBelow_eq_cnt, cnt_succ m 0 j (Nat.zero_le _)]

end C19P
end OFV

namespace OFV
namespace C19P
open Spec Spec.C19 Sem

theorem nat_xor_left_comm (a b c : Nat) : a ^^^ (b ^^^ c) = b ^^^ (a ^^^ c) := by
  rw [← Nat.xor_assoc, Nat.xor_comm a b, Nat.xor_assoc]

theorem xor4_a (m a c : Nat) :
    m ^^^ ((((0 ^^^ (1 <<< (c + 1))) ^^^ (1 <<< c)) ^^^ (1 <<< (a + 1))) ^^^ (1 <<< a))
      = m ^^^ (1 <<< c) ^^^ (1 <<< (a + 1)) ^^^ (1 <<< (c + 1)) ^^^ (1 <<< a) := by
  simp only [Nat.zero_xor, Nat.xor_assoc]
  congr 1
  simp only [Nat.xor_comm, nat_xor_left_comm]

theorem xor4_b (m a c : Nat) :
    m ^^^ ((((0 ^^^ (1 <<< (c + 1))) ^^^ (1 <<< c)) ^^^ (1 <<< (a + 1))) ^^^ (1 <<< a))
      = m ^^^ (1 <<< a) ^^^ (1 <<< (c + 1)) ^^^ (1 <<< (a + 1)) ^^^ (1 <<< c) := by
  simp only [Nat.zero_xor, Nat.xor_assoc]
  congr 1
  simp only [Nat.xor_comm, nat_xor_left_comm]

theorem xor4_c (m a c : Nat) :
    m ^^^ ((((0 ^^^ (1 <<< (c + 1))) ^^^ (1 <<< c)) ^^^ (1 <<< (a + 1))) ^^^ (1 <<< a))
      = m ^^^ (1 <<< c) ^^^ (1 <<< (c + 1)) ^^^ (1 <<< (a + 1)) ^^^ (1 <<< a) := by
  simp only [Nat.zero_xor, Nat.xor_assoc]
  congr 1
  simp only [Nat.xor_comm, nat_xor_left_comm]

theorem xor4_d (m a c : Nat) :
    m ^^^ ((((0 ^^^ (1 <<< (c + 1))) ^^^ (1 <<< c)) ^^^ (1 <<< (a + 1))) ^^^ (1 <<< a))
      = m ^^^ (1 <<< a) ^^^ (1 <<< (a + 1)) ^^^ (1 <<< (c + 1)) ^^^ (1 <<< c) := by
  simp only [Nat.zero_xor, Nat.xor_assoc]
  congr 1
  simp only [Nat.xor_comm, nat_xor_left_comm]

theorem sgn_even (k : Nat) (h : k % 2 = 0) : GQ.sgn k = 1 := by
  rw [sgn_congr (b := 0) (by omega)]; rfl

theorem sgn_odd (k : Nat) (h : k % 2 = 1) : GQ.sgn k = -1 := by
  rw [sgn_congr (b := 1) (by omega)]; rfl

/-- **Pauli form of the opposite-spin exchange of one orbital pair** -/
theorem exchange_pair_den (a c : Nat) (h : a + 1 < c) (K : Rat) (m x : Nat) :
    den .qubit (exchangePauli a c K) [m] [x] = den .fermion (exchangeFermi a c K) [m] [x] := by
  unfold exchangePauli exchangeFermi wXYYX wXXYY wYYXX wYXXY
  simp only [den_cons, den_nil, add_zero]
  rw [word_coef a c 1 2 2 1 h (Or.inl rfl) (Or.inr rfl) (Or.inr rfl) (Or.inl rfl),
    word_coef a c 1 1 2 2 h (Or.inl rfl) (Or.inl rfl) (Or.inr rfl) (Or.inr rfl),
    word_coef a c 2 2 1 1 h (Or.inr rfl) (Or.inr rfl) (Or.inl rfl) (Or.inl rfl),
    word_coef a c 2 1 1 2 h (Or.inr rfl) (Or.inl rfl) (Or.inl rfl) (Or.inr rfl)]
  rw [tC_T a (c + 1) (a + 1) c m x (by omega) (by omega) (by omega) (by omega) (by omega) (by omega),
    tC_T c (a + 1) (c + 1) a m x (by omega) (by omega) (by omega) (by omega) (by omega) (by omega),
    tC_T a (a + 1) (c + 1) c m x (by omega) (by omega) (by omega) (by omega) (by omega) (by omega),
    tC_T c (c + 1) (a + 1) a m x (by omega) (by omega) (by omega) (by omega) (by omega) (by omega)]
  rw [← xor4_a m a c, ← xor4_b m a c, ← xor4_c m a c, ← xor4_d m a c]
  generalize m ^^^ ((((0 ^^^ (1 <<< (c + 1))) ^^^ (1 <<< c)) ^^^ (1 <<< (a + 1))) ^^^ (1 <<< a)) = tgt
  have i1 : ¬ c < a + 1 := by omega
  have i2 : c < c + 1 := by omega
  have i3 : a + 1 < c + 1 := by omega
  have i4 : ¬ c < a := by omega
  have i5 : ¬ a + 1 < a := by omega
  have i6 : ¬ c + 1 < a := by omega
  have i7 : a < c + 1 := by omega
  have i8 : a < a + 1 := by omega
  have i9 : ¬ c + 1 < a + 1 := by omega
  have i10 : a < c := by omega
  have i11 : ¬ c + 1 < c := by omega
  have i12 : a + 1 < c := h
  have i13 : ¬ a + 1 < a := by omega
  have ca := cb_succ m a
  have cc := cb_succ m c
  by_cases hx : tgt = x
  · simp only [hx, if_true, if_false, i1, i2, i3, i4, i5, i6, i7, i8, i9, i10, i11, i12, sb,
      show ¬ ((1 : Nat) = 2) by decide]
    cases hb1 : m.testBit a <;> cases hb2 : m.testBit (a + 1) <;> cases hb3 : m.testBit c <;>
      cases hb4 : m.testBit (c + 1) <;>
      simp only [hb1, hb2, hb3, hb4, Bool.true_and, Bool.and_true, Bool.false_and, Bool.and_false, Bool.not_true,
        Bool.not_false, Bool.and_self, if_true, if_false, Bool.false_eq_true, mul_zero, add_zero, zero_add] at ca cc ⊢
    all_goals first
      | (rw [sgn_odd _ (by omega)]; apply GQ.ext <;> simp [rlq, GQ.ipow] <;> ring)
      | (rw [sgn_even _ (by omega)]; apply GQ.ext <;> simp [rlq, GQ.ipow] <;> ring)
      | (apply GQ.ext <;> simp [rlq, GQ.ipow] <;> ring)
  · simp [hx]

end C19P
end OFV

namespace OFV
namespace C19P
open Spec Spec.C19 Sem

theorem exchangePauli_wf (a c : Nat) (K : Rat) : Dict.WF (exchangePauli a c K) := by
  unfold Dict.WF Dict.keys exchangePauli wXYYX wXXYY wYYXX wYXXY
  simp

theorem exchangePauli_canon (a c : Nat) (h : a + 1 < c) (K : Rat) :
    ∀ tc ∈ exchangePauli a c K, Canon (c + 2) tc.1 := by
  intro tc htc
  unfold exchangePauli at htc
  simp only [List.mem_cons, List.not_mem_nil, or_false] at htc
  rcases htc with rfl | rfl | rfl | rfl
  · exact canon_word a c 1 2 2 1 h (Or.inl rfl) (Or.inr rfl) (Or.inr rfl) (Or.inl rfl)
  · exact canon_word a c 1 1 2 2 h (Or.inl rfl) (Or.inl rfl) (Or.inr rfl) (Or.inr rfl)
  · exact canon_word a c 2 2 1 1 h (Or.inr rfl) (Or.inr rfl) (Or.inl rfl) (Or.inl rfl)
  · exact canon_word a c 2 1 1 2 h (Or.inr rfl) (Or.inl rfl) (Or.inl rfl) (Or.inr rfl)

/-- the 1-norm of the Pauli decomposition of the opposite-spin exchange operator of one orbital pair is `|K|` -/
theorem exchange_pair_norm (a c : Nat) (h : a + 1 < c) (K : Rat) :
    jwOneNorm (c + 2) (exchangeFermi a c K) false = some (rabs K) := by
  rw [jwOneNorm_pauli (c + 2) (exchangeFermi a c K) (exchangePauli a c K) (exchangePauli_wf a c K)
    (exchangePauli_canon a c h K)
    (fun tc htc _ => by
      unfold exchangePauli at htc
      simp only [List.mem_cons, List.not_mem_nil, or_false] at htc
      rcases htc with rfl | rfl | rfl | rfl <;> rfl)
    (fun m u => exchange_pair_den a c h K m u)]
  congr 1
  unfold pauliListNorm exchangePauli wXYYX wXXYY wYYXX wYXXY rlq
  simp only [List.map_cons, List.map_nil, List.sum_cons, List.sum_nil]
  have n1 : ¬ (([(a, 1), (a + 1, 2), (c, 2), (c + 1, 1)] : PStr) = [] ∧ True) := by simp
  have n2 : ¬ (([(a, 1), (a + 1, 1), (c, 2), (c + 1, 2)] : PStr) = [] ∧ True) := by simp
  have n3 : ¬ (([(a, 2), (a + 1, 2), (c, 1), (c + 1, 1)] : PStr) = [] ∧ True) := by simp
  have n4 : ¬ (([(a, 2), (a + 1, 1), (c, 1), (c + 1, 2)] : PStr) = [] ∧ True) := by simp
  rw [if_neg n1, if_neg n2, if_neg n3, if_neg n4, add_zero]
  unfold rabs
  by_cases hK : K < 0
  · have h1 : K / 4 < 0 := by linarith
    have h2 : ¬ (-(K / 4) < 0) := by linarith
    simp only [if_pos h1, if_neg h2, if_pos hK]; ring
  · have h1 : ¬ (K / 4 < 0) := by intro hh; apply hK; linarith
    by_cases h0 : K = 0
    · subst h0; simp
    · have h2 : -(K / 4) < 0 := by
        have : 0 < K := lt_of_le_of_ne (le_of_not_gt hK) (Ne.symm h0)
        linarith
      simp only [if_neg h1, if_pos h2, if_neg hK]; ring

end C19P
end OFV
