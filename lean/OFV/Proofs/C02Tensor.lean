/- C02 — helper lemmas for `PolynomialTensor.__eq__` (max-abs < tol ⇔ every entry) and
`MajoranaOperator.__eq__`. -/
import Mathlib.Tactic.Linarith
import Mathlib.Tactic.Ring
import OFV.Proofs.C02

namespace OFV
namespace Proofs
namespace C02
open Model Model.C02

theorem rmax_lt (a b T : Rat) : rmax a b < T ↔ a < T ∧ b < T := by
  unfold rmax
  split
  · rename_i h; constructor
    · intro h'; exact ⟨lt_of_le_of_lt h h', h'⟩
    · exact fun h' => h'.2
  · rename_i h
    have h : b ≤ a := le_of_lt (not_le.1 h)
    constructor
    · intro h'; exact ⟨h', lt_of_le_of_lt h h'⟩
    · exact fun h' => h'.1

theorem foldl_rmax_lt {β : Type} (g : β → Rat) (l : List β) (m T : Rat) :
    l.foldl (fun m c => rmax m (g c)) m < T ↔ (m < T ∧ ∀ c ∈ l, g c < T) := by
  induction l generalizing m with
  | nil => simp
  | cons c r ih =>
    rw [List.foldl_cons, ih, rmax_lt]
    simp only [List.mem_cons, forall_eq_or_imp]
    tauto

theorem amaxSq_lt (l : List GQ) (T : Rat) : amaxSq l < T ↔ (0 < T ∧ ∀ c ∈ l, c.normSq < T) := by
  unfold amaxSq; exact foldl_rmax_lt GQ.normSq l 0 T

theorem gq_sub_zero (x : GQ) : x - 0 = x := by apply GQ.ext <;> simp
theorem gq_zero_sub_normSq (x : GQ) : ((0 : GQ) - x).normSq = x.normSq := by simp [GQ.normSq]
theorem normSq_zero : (0 : GQ).normSq = 0 := by simp [GQ.normSq]

theorem getD_of_lt {α : Type} (l : List α) (i : Nat) (d : α) (h : i < l.length) : l.getD i d = l[i] := by
  simp [List.getD, h]

theorem getD_of_ge {α : Type} (l : List α) (i : Nat) (d : α) (h : l.length ≤ i) : l.getD i d = d := by
  simp [List.getD, h]

theorem all_lt_iff_getD (x : List GQ) (T : Rat) (hT : 0 < T) :
    (∀ c ∈ x, c.normSq < T) ↔ ∀ i, (x.getD i 0).normSq < T := by
  constructor
  · intro h i
    by_cases hi : i < x.length
    · rw [getD_of_lt _ _ _ hi]; exact h _ (List.getElem_mem hi)
    · rw [getD_of_ge _ _ _ (by omega), normSq_zero]; exact hT
  · intro h c hc
    obtain ⟨i, hi, rfl⟩ := List.getElem_of_mem hc
    have := h i
    rwa [getD_of_lt _ _ _ hi] at this

theorem getD_diffEntries (x y : List GQ) (hl : x.length = y.length) (i : Nat) :
    (diffEntries x y).getD i 0 = x.getD i 0 - y.getD i 0 := by
  unfold diffEntries
  by_cases hi : i < x.length
  · have hi' : i < y.length := by omega
    rw [getD_of_lt _ _ _ (by simp [hi, hi']), getD_of_lt _ _ _ hi,
      getD_of_lt _ _ _ hi']
    simp
  · rw [getD_of_ge _ _ _ (by simp; omega), getD_of_ge _ _ _ (by omega),
      getD_of_ge _ _ _ (by omega)]
    apply GQ.ext <;> simp

/-- one key: `discrepancy² < T` iff every entry differs by less -/
theorem discrepancySq_lt (a b : Tensors) (k : List Nat) (T : Rat) (hT : 0 < T)
    (hshape : ∀ x y, Dict.get? a k = some x → Dict.get? b k = some y → x.length = y.length) :
    discrepancySq a b k < T ↔
      ∀ i, (Spec.C02.entry a k i - Spec.C02.entry b k i).normSq < T := by
  unfold discrepancySq Spec.C02.entry
  cases ha : Dict.get? a k <;> cases hb : Dict.get? b k <;> simp only [Option.getD]
  · simp [sub_self_normSq, hT]
  · rename_i y
    rw [amaxSq_lt, all_lt_iff_getD y T hT]
    simp [gq_zero_sub_normSq, hT]
  · rename_i x
    rw [amaxSq_lt, all_lt_iff_getD x T hT]
    simp [gq_sub_zero, hT]
  · rename_i x y
    rw [amaxSq_lt, all_lt_iff_getD _ T hT]
    simp only [getD_diffEntries x y (hshape x y ha hb), hT, true_and]

theorem mem_tensorUnionKeys (a b : Tensors) (k : List Nat) :
    k ∈ tensorUnionKeys a b ↔ (Dict.contains a k = true ∨ Dict.contains b k = true) := by
  simp only [tensorUnionKeys, List.mem_append, List.mem_filter, contains_iff_mem]
  by_cases h : k ∈ Dict.keys a
  · simp [h]
  · have : Dict.contains a k = false := by
      cases hc : Dict.contains a k
      · rfl
      · exact absurd ((contains_iff_mem a k).1 hc) h
    simp [h, this]

theorem tensorEqWith_iff (tol : Rat) (na nb : Nat) (a b : Tensors) (order : List (List Nat))
    (hp : order.Perm (tensorUnionKeys a b))
    (hshape : ∀ k x y, Dict.get? a k = some x → Dict.get? b k = some y → x.length = y.length) :
    tensorEqWith order tol na a nb b = true ↔ Spec.C02.TensorEq tol na a nb b := by
  unfold tensorEqWith Spec.C02.TensorEq
  by_cases hn : na = nb
  · subst hn
    simp only [bne_self_eq_false, Bool.false_eq_true, if_false, Bool.and_eq_true, decide_eq_true_eq, true_and]
    constructor
    · rintro ⟨ht, hd⟩
      refine ⟨ht, ?_⟩
      have hT : 0 < tol * tol := mul_pos ht ht
      unfold tensorDiffSq at hd
      rw [foldl_rmax_lt] at hd
      intro k i
      by_cases hk : k ∈ order
      · exact (discrepancySq_lt a b k _ hT (hshape k)).1 (hd.2 k hk) i
      · have hk' : ¬ (Dict.contains a k = true ∨ Dict.contains b k = true) := by
          rw [← mem_tensorUnionKeys, ← hp.mem_iff]; exact hk
        have h1 : Dict.get? a k = none := (contains_false_iff a k).1 (by simpa using fun h => hk' (Or.inl h))
        have h2 : Dict.get? b k = none := (contains_false_iff b k).1 (by simpa using fun h => hk' (Or.inr h))
        show (Spec.C02.entry a k i - Spec.C02.entry b k i).normSq < tol * tol
        simp [Spec.C02.entry, h1, h2, sub_self_normSq, hT]
    · rintro ⟨ht, hd⟩
      refine ⟨ht, ?_⟩
      have hT : 0 < tol * tol := mul_pos ht ht
      unfold tensorDiffSq
      rw [foldl_rmax_lt]
      refine ⟨hT, fun k _ => ?_⟩
      exact (discrepancySq_lt a b k _ hT (hshape k)).2 (fun i => hd k i)
  · have : (na != nb) = true := by simpa using hn
    simp [this, hn]

end C02
end Proofs
end OFV
