/-
C02/C03 — the adjoint in the fermionic Spec: reversing a term and exchanging creation and
annihilation transposes its action on Fock basis states (signs are real), hence
`hermitian_conjugated` conjugate-transposes all matrix elements.
-/
import Mathlib.Tactic.Linarith
import OFV.Proofs.C03Spec
import OFV.Proofs.C03Fock
import OFV.Proofs.C03Canon
import OFV.Proofs.C03Canon2
import OFV.Model.C02

namespace OFV
namespace Proofs
namespace C03
open Spec Model

/-- `(index, 1 - action)` -/
def flipF (f : Nat × Nat) : Nat × Nat := (f.1, 1 - f.2)

/-- the conjugate term of `hermitian_conjugated(FermionOperator)` -/
def conjT (t : List (Nat × Nat)) : List (Nat × Nat) := t.reverse.map flipF

theorem conjT_cons (f : Nat × Nat) (r : List (Nat × Nat)) : conjT (f :: r) = conjT r ++ [flipF f] := by
  simp [conjT]

theorem flipF_flipF (f : Nat × Nat) (h : f.2 < 2) : flipF (flipF f) = f := by
  obtain ⟨i, a⟩ := f
  simp only [flipF]
  have : a = 0 ∨ a = 1 := by simp at h; omega
  rcases this with rfl | rfl <;> rfl

theorem conjT_conjT (t : List (Nat × Nat)) (hv : ∀ f ∈ t, f.2 < 2) : conjT (conjT t) = t := by
  unfold conjT
  rw [← List.map_reverse, List.reverse_reverse, List.map_map]
  conv_rhs => rw [← List.map_id t]
  apply List.map_congr_left
  intro f hf
  exact flipF_flipF f (hv f hf)

theorem conjT_valid (t : List (Nat × Nat)) : ∀ f ∈ conjT t, f.2 < 2 := by
  intro f hf
  unfold conjT at hf
  obtain ⟨g, _, rfl⟩ := List.mem_map.1 hf
  simp only [flipF]; omega

/-- one ladder operator: `⟨s'| a |s⟩ = ⟨s| a^† |s'⟩` with the same sign -/
theorem actF_adjoint (j a s k s' : Nat) (ha : a < 2) (h : actF j a s = some (k, s')) :
    actF j (1 - a) s' = some (k, s) := by
  unfold actF at h ⊢
  by_cases hc : ((a == 1) == s.testBit j) = true
  · simp [hc] at h
  · simp only [hc, Bool.false_eq_true, if_false, Option.some.injEq, Prod.mk.injEq] at h
    obtain ⟨hk, hs⟩ := h
    subst hs
    have hcb := countBelow_xflip s j j
    simp only [Nat.lt_irrefl, if_false, Nat.add_zero] at hcb
    have hne : ¬ (((1 - a == 1) == (s ^^^ (1 <<< j)).testBit j) = true) := by
      rw [testBit_xflip]
      have : a = 0 ∨ a = 1 := by omega
      rcases this with rfl | rfl <;> cases hb : s.testBit j <;> simp [hb] at hc ⊢
    simp only [hne, Bool.false_eq_true, if_false, xflip_xflip, hcb, hk]

/-- accumulated sign: starting a term from an already signed state -/
def foldF (t : List (Nat × Nat)) (x : Option (Nat × Nat)) : Option (Nat × Nat) :=
  t.foldr (fun f acc => match acc with
    | none => none
    | some (k, s') => match actF f.1 f.2 s' with
      | none => none
      | some (k', s'') => some ((k + k') % 2, s'')) x

theorem actFTerm_eq_foldF (t : List (Nat × Nat)) (s : Nat) : actFTerm t s = foldF t (some (0, s)) := rfl

theorem foldF_none (t : List (Nat × Nat)) : foldF t none = none := by
  induction t with
  | nil => rfl
  | cons f r ih => simp only [foldF, List.foldr] at ih ⊢; rw [ih]

theorem foldF_shift (t : List (Nat × Nat)) (k0 s : Nat) (hk0 : k0 < 2) :
    foldF t (some (k0, s)) = (foldF t (some (0, s))).map (fun p => ((k0 + p.1) % 2, p.2)) := by
  induction t with
  | nil => simp [foldF]; omega
  | cons f r ih =>
    have e : ∀ x, foldF (f :: r) x = match foldF r x with
        | none => none
        | some (k, s') => match actF f.1 f.2 s' with
          | none => none
          | some (k', s'') => some ((k + k') % 2, s'') := fun _ => rfl
    rw [e, e, ih]
    cases foldF r (some (0, s)) with
    | none => rfl
    | some p =>
      obtain ⟨k, s'⟩ := p
      simp only [Option.map_some]
      cases actF f.1 f.2 s' with
      | none => rfl
      | some q =>
        obtain ⟨k', s''⟩ := q
        simp only [Option.map_some, Option.some.injEq, Prod.mk.injEq, and_true]
        omega

theorem foldF_append (l1 l2 : List (Nat × Nat)) (x : Option (Nat × Nat)) :
    foldF (l1 ++ l2) x = foldF l1 (foldF l2 x) := by
  simp [foldF, List.foldr_append]

/-- **transposition**: `⟨out| t |s⟩ = ⟨s| t^† |out⟩` (same sign) for every valid term -/
theorem actFTerm_adjoint (t : List (Nat × Nat)) (hv : ∀ f ∈ t, f.2 < 2) :
    ∀ (s k out : Nat), actFTerm t s = some (k, out) → actFTerm (conjT t) out = some (k, s) := by
  induction t with
  | nil =>
    intro s k out h
    simp only [actFTerm, List.foldr, Option.some.injEq, Prod.mk.injEq] at h
    obtain ⟨rfl, rfl⟩ := h
    rfl
  | cons f r ih =>
    intro s k out h
    have hr : ∀ g ∈ r, g.2 < 2 := fun g hg => hv g (List.mem_cons_of_mem _ hg)
    rw [actFTerm_cons'] at h
    cases h1 : actFTerm r s with
    | none => rw [h1] at h; cases h
    | some p =>
      obtain ⟨k1, s1⟩ := p
      rw [h1] at h
      simp only at h
      cases h2 : actF f.1 f.2 s1 with
      | none => rw [h2] at h; cases h
      | some q =>
        obtain ⟨k2, s2⟩ := q
        rw [h2] at h
        simp only [Option.some.injEq, Prod.mk.injEq] at h
        obtain ⟨hk, hs⟩ := h
        subst hs
        have hadj := actF_adjoint f.1 f.2 s1 k2 s2 (hv f (by simp)) h2
        have hih := ih hr s k1 s1 h1
        rw [conjT_cons, actFTerm_eq_foldF, foldF_append]
        have e1 : foldF [flipF f] (some (0, s2)) = some ((0 + k2) % 2, s1) := by
          simp only [foldF, List.foldr, flipF, hadj]
        rw [e1, foldF_shift _ _ _ (Nat.mod_lt _ (by omega)), ← actFTerm_eq_foldF, hih]
        simp only [Option.map_some, Option.some.injEq, Prod.mk.injEq, and_true]
        omega

/-! ### `hermitian_conjugated(FermionOperator)` conjugate-transposes the matrix elements -/

theorem conjTermF_eq (t : Term) : Model.C02.conjTermF t = conjT t := rfl

theorem gq_conj_mul (a b : GQ) : (a * b).conj = a.conj * b.conj := by
  apply GQ.ext <;> simp [GQ.conj] <;> ring

theorem gq_conj_add (a b : GQ) : (a + b).conj = a.conj + b.conj := by
  apply GQ.ext <;> simp [GQ.conj] <;> ring

theorem gq_conj_zero : (0 : GQ).conj = 0 := by apply GQ.ext <;> simp [GQ.conj]

theorem gq_conj_sgn (k : Nat) : (GQ.sgn k).conj = GQ.sgn k := by
  unfold GQ.sgn; split <;> apply GQ.ext <;> simp [GQ.conj]

theorem conj_sum (l : List GQ) : (l.sum).conj = (l.map GQ.conj).sum := by
  induction l with
  | nil => simpa using gq_conj_zero
  | cons x r ih => rw [List.sum_cons, gq_conj_add, ih, List.map_cons, List.sum_cons]

/-- entry-wise: `⟨out| c̄ t^† |s⟩ = conj ⟨s| c t |out⟩` -/
theorem contrib_adjoint (t : Term) (hv : ∀ f ∈ t, f.2 < 2) (c : GQ) (s out : Nat) :
    contrib s out (conjT t, c.conj) = (contrib out s (t, c)).conj := by
  unfold contrib
  cases h1 : actFTerm t out with
  | none =>
    simp only [gq_conj_zero]
    cases h2 : actFTerm (conjT t) s with
    | none => rfl
    | some p =>
      obtain ⟨k, s'⟩ := p
      simp only
      by_cases hs : s' = out
      · subst hs
        have := actFTerm_adjoint (conjT t) (conjT_valid t) s k s' h2
        rw [conjT_conjT t hv, h1] at this
        cases this
      · simp [hs]
  | some p =>
    obtain ⟨k, s'⟩ := p
    simp only
    by_cases hs : s' = s
    · subst hs
      have := actFTerm_adjoint t hv out k s' h1
      rw [this]
      simp [gq_conj_mul, gq_conj_sgn]
    · simp only [hs, if_false, gq_conj_zero]
      cases h2 : actFTerm (conjT t) s with
      | none => rfl
      | some q =>
        obtain ⟨k', s''⟩ := q
        simp only
        by_cases hs2 : s'' = out
        · subst hs2
          have := actFTerm_adjoint (conjT t) (conjT_valid t) s k' s'' h2
          rw [conjT_conjT t hv, h1] at this
          simp only [Option.some.injEq, Prod.mk.injEq] at this
          exact absurd this.2 hs
        · simp [hs2]

theorem set_fresh (d : Op) (k : Term) (v : GQ) (h : k ∉ Dict.keys d) : Dict.set d k v = d ++ [(k, v)] := by
  induction d with
  | nil => rfl
  | cons e r ih =>
    obtain ⟨k', v'⟩ := e
    have h1 : k' ≠ k := fun e => h (by simp [Dict.keys, e])
    have h2 : k ∉ Dict.keys r := fun e => h (by simp only [Dict.keys, List.map_cons, List.mem_cons]; exact Or.inr e)
    simp [Dict.set, h1, ih h2]

/-- building a dictionary by assignment from entries with distinct keys yields those entries -/
theorem foldl_set_fresh (l : List (Term × GQ)) (g : Term × GQ → Term × GQ) :
    ∀ (acc : Op), (Dict.keys (acc ++ l.map g)).Nodup →
      l.foldl (fun acc e => Dict.set acc (g e).1 (g e).2) acc = acc ++ l.map g := by
  induction l with
  | nil => intro acc _; simp
  | cons e r ih =>
    intro acc hn
    rw [List.foldl_cons]
    have hfresh : (g e).1 ∉ Dict.keys acc := by
      simp only [Dict.keys, List.map_append, List.map_cons] at hn
      have := (List.nodup_append.1 hn).2.2
      intro hmem
      exact this _ hmem _ (by simp) rfl
    rw [set_fresh acc _ _ hfresh, ih]
    · simp
    · simpa using hn

theorem conjT_injective (t t' : Term) (hv : ∀ f ∈ t, f.2 < 2) (hv' : ∀ f ∈ t', f.2 < 2)
    (h : conjT t = conjT t') : t = t' := by
  rw [← conjT_conjT t hv, ← conjT_conjT t' hv', h]

theorem hcFermion_eq_map (a : Op) (wa : Dict.WF a) (hv : ∀ e ∈ a, ∀ f ∈ e.1, f.2 < 2) :
    Model.C02.hcFermion a = a.map (fun e => (conjT e.1, e.2.conj)) := by
  unfold Model.C02.hcFermion
  have := foldl_set_fresh a (fun e => (conjT e.1, e.2.conj)) [] (by
    simp only [List.nil_append, Dict.keys, List.map_map]
    unfold Dict.WF Dict.keys at wa
    rw [List.nodup_map_iff_inj_on (wf_entries_nodup a wa)]
    intro x hx y hy hxy
    simp only [Function.comp] at hxy
    exact wf_key_inj a wa x y hx hy (conjT_injective x.1 y.1 (hv x hx) (hv y hy) hxy))
  simp only [List.nil_append] at this
  exact this

/-- `⟨out| A^† |s⟩ = conj ⟨s| A |out⟩` for `A^† = hermitian_conjugated(A)` -/
theorem melF_hcFermion (a : Op) (wa : Dict.WF a) (hv : ∀ e ∈ a, ∀ f ∈ e.1, f.2 < 2) (out s : Nat) :
    melF (Model.C02.hcFermion a) out s = (melF a s out).conj := by
  rw [hcFermion_eq_map a wa hv, melF_eq_sum, melF_eq_sum, conj_sum, List.map_map, List.map_map]
  congr 1
  apply List.map_congr_left
  intro e he
  simp only [Function.comp]
  exact contrib_adjoint e.1 (hv e he) e.2 s out

theorem hcFermion_valid (a : Op) (wa : Dict.WF a) (hv : ∀ e ∈ a, ∀ f ∈ e.1, f.2 < 2) :
    ∀ e ∈ Model.C02.hcFermion a, ∀ f ∈ e.1, f.2 < 2 := by
  rw [hcFermion_eq_map a wa hv]
  intro e he
  obtain ⟨x, _, rfl⟩ := List.mem_map.1 he
  exact conjT_valid x.1

end C03
end Proofs
end OFV
