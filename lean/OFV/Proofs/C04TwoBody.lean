/-
`jordan_wigner_two_body`: generic semantics of a `+=` / `-=` sequence, and the branch of two distinct
indices (`{p, q} = {r, s}`): the result is `∓ c n_p n_q`.
-/
import OFV.Proofs.C04OneBody
import OFV.Proofs.C05Hom

namespace OFV
namespace Sem
open Spec Model Model.C04

theorem den_neg (alg : Alg) (A : Op) (s x : St) :
    den alg (A.map fun tc => (tc.1, -tc.2)) s x = - den alg A s x := by
  induction A with
  | nil => simp [den_nil]
  | cons tc A ih =>
    obtain ⟨t, c⟩ := tc
    rw [List.map_cons, den_cons, den_cons, ih]; ring

theorem foldSigned_eq (tol : Rat) (ops : List (Bool × Op)) :
    foldSigned tol ops = (ops.map plain).foldl (fun acc img => iadd tol acc img) [] := by
  unfold foldSigned
  rw [List.foldl_map]
  congr 1
  funext acc so
  unfold plain
  split
  · rfl
  · rw [isub_eq_iadd]

/-- a `+=` / `-=` sequence denotes the signed sum of its operands on every exact run -/
theorem den_foldSigned (alg : Alg) (tol : Rat) (ops : List (Bool × Op)) (s x : St)
    (hok : sumOk tol (ops.map plain) = true) :
    den alg (foldSigned tol ops) s x
      = (ops.map fun so => (if so.1 then (1 : GQ) else -1) * den alg so.2 s x).sum := by
  rw [foldSigned_eq, den_sum_ok alg tol _ s x hok, List.map_map]
  congr 1
  apply List.map_congr_left
  intro so _
  simp only [Function.comp, plain]
  split
  · simp
  · rw [den_neg]; simp

/-! ### diagonal strings -/

theorem tC_nil (m x : Nat) : termCoef .qubit [] [m] [x] = if m = x then 1 else 0 := by
  simp [termCoef_qubit, actPTerm_nil, GQ.ipow]

theorem tC_z (p m x : Nat) :
    termCoef .qubit [(p, 3)] [m] [x] = if m = x then (if m.testBit p then -1 else 1) else 0 := by
  simp only [termCoef_qubit, actPTerm_cons, actPTerm_nil, stepP, actP]
  by_cases h : m = x
  · subst h; by_cases hb : m.testBit p = true <;> simp [hb, GQ.ipow]
  · simp [h]

theorem tC_zz (p q m x : Nat) :
    termCoef .qubit [(p, 3), (q, 3)] [m] [x]
      = if m = x then (if m.testBit p then -1 else 1) * (if m.testBit q then -1 else 1) else 0 := by
  simp only [termCoef_qubit, actPTerm_cons, actPTerm_nil, stepP, actP]
  by_cases h : m = x
  · subst h
    by_cases hb : m.testBit p = true <;> by_cases hc : m.testBit q = true <;> simp [hb, hc, GQ.ipow]
  · simp [h]

theorem valid_z (p : Nat) : ValidQ [(p, 3)] := by intro f hf; simp at hf; subst hf; simp
theorem valid_zz (p q : Nat) : ValidQ [(p, 3), (q, 3)] := by
  intro f hf; simp at hf; rcases hf with rfl | rfl <;> simp
theorem valid_nil : ValidQ [] := by intro f hf; simp at hf

/-! ### the number-number term on the fermionic side -/

theorem cb_xflip_parity (m y x : Nat) (h : y ≠ x) :
    countBelow (m ^^^ (1 <<< y)) x % 2
      = (countBelow m x + (if y < x then 1 else 0)) % 2 := by
  by_cases hlt : y < x
  · rw [cb_xflip_lo m y x hlt, cb_split m y x hlt]
    simp only [hlt, if_true]
    by_cases hb : m.testBit y <;> simp [hb] <;> omega
  · rw [cb_xflip_hi m x y (by omega)]; simp [hlt]

/-- `a†_p a†_q a_p a_q = - n_p n_q` on basis states (`p ≠ q`) -/
theorem nn_fermion_pq (p q m x : Nat) (h : p ≠ q) :
    termCoef .fermion [(p, 1), (q, 1), (p, 0), (q, 0)] [m] [x]
      = if m = x then (if m.testBit p && m.testBit q then -1 else 0) else 0 := by
  have hpq : (m ^^^ (1 <<< q)).testBit p = m.testBit p := testBit_xflip_ne m q p (Ne.symm h)
  have hqp : (m ^^^ (1 <<< q) ^^^ (1 <<< p)).testBit q = !m.testBit q := by
    rw [testBit_xflip_ne _ p q h, testBit_xflip]
  have hpp : (m ^^^ (1 <<< q) ^^^ (1 <<< p) ^^^ (1 <<< q)).testBit p = !m.testBit p := by
    rw [testBit_xflip_ne _ q p (Ne.symm h), testBit_xflip, hpq]
  have hst : m ^^^ (1 <<< q) ^^^ (1 <<< p) ^^^ (1 <<< q) ^^^ (1 <<< p) = m := by
    rw [xflip_comm (m ^^^ (1 <<< q)) p q, xflip_xflip, xflip_xflip]
  rw [termCoef_fermion]
  simp only [actFTerm, List.foldr_cons, List.foldr_nil, actF_ann, actF_cre]
  cases hq : m.testBit q
  · simp
  · simp only [if_true, hpq]
    cases hp : m.testBit p
    · simp
    · simp only [if_true, hqp, hq, Bool.not_true, Bool.false_eq_true, if_false, hpp, hp, hst]
      have e1 := cb_xflip_parity m q p (Ne.symm h)
      have e2 := cb_xflip_parity (m ^^^ (1 <<< q)) p q h
      have e2' := cb_xflip_parity m q q
      have e3 : countBelow (m ^^^ (1 <<< q) ^^^ (1 <<< p) ^^^ (1 <<< q)) p % 2
          = (countBelow (m ^^^ (1 <<< q) ^^^ (1 <<< p)) p + (if q < p then 1 else 0)) % 2 :=
        cb_xflip_parity _ q p (Ne.symm h)
      have e4 : countBelow (m ^^^ (1 <<< q) ^^^ (1 <<< p)) p = countBelow (m ^^^ (1 <<< q)) p :=
        cb_xflip_hi _ p p (Nat.le_refl _)
      have e5 : countBelow (m ^^^ (1 <<< q)) q = countBelow m q := cb_xflip_hi _ q q (Nat.le_refl _)
      rw [e4] at e3
      rw [e5] at e2
      by_cases hx : m = x
      · simp only [hx, if_true] at *
        rw [sgn_congr (b := 1)]
        · simp [GQ.sgn]
        · by_cases hlt : q < p
          · have : ¬ p < q := by omega
            simp only [hlt, this, if_true, if_false] at e1 e2 e3; omega
          · have : p < q := by omega
            simp only [hlt, this, if_true, if_false] at e1 e2 e3; omega
      · simp [hx]

end Sem
end OFV

namespace OFV
namespace Sem
open Spec Model Model.C04

/-- `a†_p a†_q a_q a_p = + n_p n_q` on basis states (`p ≠ q`) -/
theorem nn_fermion_qp (p q m x : Nat) (h : p ≠ q) :
    termCoef .fermion [(p, 1), (q, 1), (q, 0), (p, 0)] [m] [x]
      = if m = x then (if m.testBit p && m.testBit q then 1 else 0) else 0 := by
  have hqp : (m ^^^ (1 <<< p)).testBit q = m.testBit q := testBit_xflip_ne m p q h
  have hqq : (m ^^^ (1 <<< p) ^^^ (1 <<< q)).testBit q = !m.testBit q := by
    rw [testBit_xflip, hqp]
  have hpp : (m ^^^ (1 <<< p) ^^^ (1 <<< q) ^^^ (1 <<< q)).testBit p = !m.testBit p := by
    rw [xflip_xflip, testBit_xflip]
  have hst : m ^^^ (1 <<< p) ^^^ (1 <<< q) ^^^ (1 <<< q) ^^^ (1 <<< p) = m := by
    rw [xflip_xflip, xflip_xflip]
  rw [termCoef_fermion]
  simp only [actFTerm, List.foldr_cons, List.foldr_nil, actF_ann, actF_cre]
  cases hp : m.testBit p
  · simp
  · simp only [if_true, hqp]
    cases hq : m.testBit q
    · simp
    · simp only [if_true, hqq, hq, Bool.not_true, Bool.false_eq_true, if_false, hpp, hp, hst]
      have e1 : countBelow (m ^^^ (1 <<< p) ^^^ (1 <<< q)) q = countBelow (m ^^^ (1 <<< p)) q :=
        cb_xflip_hi _ q q (Nat.le_refl _)
      have e2 : countBelow (m ^^^ (1 <<< p) ^^^ (1 <<< q) ^^^ (1 <<< q)) p = countBelow m p := by
        rw [xflip_xflip, cb_xflip_hi _ p p (Nat.le_refl _)]
      rw [e1, e2]
      by_cases hx : m = x
      · simp only [hx, if_true] at *
        rw [sgn_congr (b := 0)]
        · simp [GQ.sgn]
        · omega
      · simp [hx]

theorem nDistinct_pqpq (p q : Nat) (h : p ≠ q) : nDistinct [p, q, p, q] = 2 := by
  have h' : q ≠ p := Ne.symm h
  simp [nDistinct, List.eraseDups_cons, h, h']

theorem nDistinct_pqqp (p q : Nat) (h : p ≠ q) : nDistinct [p, q, q, p] = 2 := by
  have h' : q ≠ p := Ne.symm h
  simp [nDistinct, List.eraseDups_cons, h, h']

theorem nn_qubit (p q : Nat) (coeff : GQ) (m x : Nat) (h : p ≠ q) :
    ([(false, mk .qubit [] coeff), (true, mk .qubit [(p, 3)] coeff), (true, mk .qubit [(q, 3)] coeff),
      (false, mk .qubit [(min q p, 3), (max q p, 3)] coeff)].map
        fun so => (if so.1 then (1 : GQ) else -1) * den .qubit so.2 [m] [x]).sum
      = if m = x then (if m.testBit p && m.testBit q then -(coeff + coeff + coeff + coeff) else 0) else 0 := by
  simp only [List.map_cons, List.map_nil, List.sum_cons, List.sum_nil, den_mk _ valid_nil, den_mk _ (valid_z _),
    den_mk _ (valid_zz _ _), tC_nil, tC_z, tC_zz]
  have hmm : (m.testBit (min q p) = m.testBit p ∧ m.testBit (max q p) = m.testBit q) ∨
      (m.testBit (min q p) = m.testBit q ∧ m.testBit (max q p) = m.testBit p) := by
    by_cases hlt : q ≤ p
    · right; rw [Nat.min_eq_left hlt, Nat.max_eq_right hlt]; exact ⟨rfl, rfl⟩
    · left; rw [Nat.min_eq_right (by omega), Nat.max_eq_left (by omega)]; exact ⟨rfl, rfl⟩
  by_cases hx : m = x
  · simp only [hx, if_true]
    subst hx
    rcases hmm with ⟨h1, h2⟩ | ⟨h1, h2⟩ <;> rw [h1, h2] <;>
      cases m.testBit p <;> cases m.testBit q <;> simp <;> ring
  · simp [hx]

/-- **two distinct indices**: `jordan_wigner_two_body(p, q, r, s, c)` with `{p, q} = {r, s}` denotes
`c a†_p a†_q a_r a_s` (`= ∓ c n_p n_q`) on every exact run -/
theorem jwTwoBody_diag (tol : Rat) (p q r s : Nat) (c : GQ) (hpq : p ≠ q)
    (h : (r = p ∧ s = q) ∨ (r = q ∧ s = p)) (hok : jwTwoBodyOk tol p q r s c = true) (m x : Nat) :
    den .qubit (jwTwoBody tol p q r s c) [m] [x] = den .fermion (Spec.C04.twoBodyOp p q r s c) [m] [x] := by
  have hqp : q ≠ p := Ne.symm hpq
  unfold jwTwoBody
  rw [den_foldSigned .qubit tol _ [m] [x] hok]
  rcases h with ⟨rfl, rfl⟩ | ⟨rfl, rfl⟩
  · have hb : (r == s || r == s) = false := by simp [hpq]
    have hs : (r == s) = false := by simp [hpq]
    simp only [twoBodyOps, hs, Bool.or_self, Bool.false_eq_true, if_false, nDistinct_pqpq r s hpq]
    rw [show ((2 : Nat) == 4) = false from rfl, show ((2 : Nat) == 3) = false from rfl]
    simp only [Bool.false_eq_true, if_false]
    rw [nn_qubit r s _ m x hpq]
    simp only [Spec.C04.twoBodyOp, true_and, and_self, true_or, if_true, den_cons, den_nil, add_zero,
      nn_fermion_pq r s m x hpq]
    by_cases hx : m = x <;> cases m.testBit r <;> cases m.testBit s <;> simp [hx, rl] <;>
      apply GQ.ext <;> simp <;> norm_num [Rat.mkRat_eq_div] <;> ring
  · have hb : (s == r || r == s) = false := by simp [hpq, hqp]
    simp only [twoBodyOps, hb, Bool.false_eq_true, if_false, nDistinct_pqqp s r hpq, beq_self_eq_true, if_true]
    rw [show ((2 : Nat) == 4) = false from rfl, show ((2 : Nat) == 3) = false from rfl]
    simp only [Bool.false_eq_true, if_false]
    rw [nn_qubit s r _ m x hpq]
    simp only [Spec.C04.twoBodyOp, and_self, or_true, if_true, den_cons, den_nil, add_zero,
      nn_fermion_qp s r m x hpq]
    by_cases hx : m = x <;> cases m.testBit s <;> cases m.testBit r <;> simp [hx, rl] <;>
      apply GQ.ext <;> simp <;> norm_num [Rat.mkRat_eq_div] <;> ring

end Sem
end OFV
