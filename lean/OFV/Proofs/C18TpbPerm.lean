/- C18 — `group_into_tensor_product_basis_sets`: the hypothesis "every shuffle lists each current basis" of
`tpb_groups_spec` holds whenever every recorded shuffle is a genuine permutation of the indices of the bases present at
that step. -/
import OFV.Proofs.C18Tpb

namespace OFV.Proofs.C18Tpb
open OFV.Model OFV.Model.C18 List

/-- every recorded shuffle is a permutation of `0 … (number of bases at that step) − 1` -/
def GenuinePerms (tol : Rat) : Groups → Op → List (List Nat) → Prop
  | _, [], _ => True
  | sub, (t, c) :: r, perms =>
    (perms.headD []).Perm (List.range sub.length) ∧
      GenuinePerms tol (tpbStep tol sub (perms.headD []) t c) r perms.tail

theorem permsCover_of_genuine (tol : Rat) : ∀ (op : Op) (sub : Groups) (perms : List (List Nat)),
    GenuinePerms tol sub op perms → PermsCover tol sub op perms := by
  intro op
  induction op with
  | nil => intro sub perms _; trivial
  | cons tc r ih =>
    intro sub perms h
    obtain ⟨t, c⟩ := tc
    unfold GenuinePerms at h
    unfold PermsCover
    exact ⟨fun i hi => h.1.symm.subset (List.mem_range.2 hi), ih _ _ h.2⟩

end OFV.Proofs.C18Tpb
