/-
The three Fenwick loops of bravyi_kitaev.py walk the tree: facts about `_parity_set`,
`_occupation_set`, `_update_set` for every index and every number of qubits, in terms of the blocks
`[lo k, k]`, `lo k = clearLow (k + 1) = (k + 1) & k`.
-/
import OFV.Proofs.C05Lowbit
import OFV.Proofs.C05Sets
import OFV.Proofs.C04OneBody

namespace OFV
namespace BK
open Model.C05 Spec Sem

/-- start of the block stored on qubit `k` as the code computes it -/
def loM (k : Nat) : Nat := clearLow (k + 1)

theorem loM_le (k : Nat) : loM k ≤ k := by
  have := clearLow_lt (i := k + 1) (by omega); unfold loM; omega

/-- number of occupied modes in the block of qubit `k` -/
def blk (s k : Nat) : Nat := cnt s (loM k) (k + 1)

/-! ### the downward loop -/

theorem downLoop_zero (stop idx : Nat) : downLoop stop 0 idx = [] := rfl

theorem downLoop_stop (stop fuel : Nat) : downLoop stop fuel stop = [] := by
  cases fuel <;> simp [downLoop]

theorem downLoop_step (stop fuel idx : Nat) (h1 : idx ≠ stop) (h2 : 0 < idx) :
    downLoop stop (fuel + 1) idx = (idx - 1) :: downLoop stop fuel (clearLow idx) := by
  simp [downLoop, h1, h2]

/-- every element of the loop started at `idx` is below `idx`, and at least `stop` if the walk stays
above `stop` -/
theorem downLoop_lt (stop : Nat) : ∀ fuel idx k, k ∈ downLoop stop fuel idx → k < idx := by
  intro fuel
  induction fuel with
  | zero => intro idx k h; simp [downLoop] at h
  | succ f ih =>
    intro idx k h
    by_cases hc : idx ≠ stop ∧ 0 < idx
    · rw [downLoop_step stop f idx hc.1 hc.2] at h
      rcases List.mem_cons.1 h with rfl | h
      · omega
      · have := ih _ _ h; have := clearLow_lt hc.2; omega
    · simp [downLoop, hc] at h

theorem downLoop_sorted (stop : Nat) : ∀ fuel idx, (downLoop stop fuel idx).Pairwise (· > ·) := by
  intro fuel
  induction fuel with
  | zero => intro idx; simp [downLoop]
  | succ f ih =>
    intro idx
    by_cases hc : idx ≠ stop ∧ 0 < idx
    · rw [downLoop_step stop f idx hc.1 hc.2, List.pairwise_cons]
      refine ⟨?_, ih _⟩
      intro a ha
      have := downLoop_lt stop f _ a ha; have := clearLow_lt hc.2; omega
    · simp [downLoop, hc]

theorem downLoop_nodup (stop fuel idx : Nat) : (downLoop stop fuel idx).Nodup :=
  (downLoop_sorted stop fuel idx).imp (fun h => Nat.ne_of_gt h)

/-- **parity loop**: the blocks of the qubits visited from `idx` down to 0 tile `[0, idx)` -/
theorem down_parity_sum (s : Nat) : ∀ fuel idx, idx ≤ fuel →
    ((downLoop 0 fuel idx).map (blk s)).sum = cnt s 0 idx := by
  intro fuel
  induction fuel with
  | zero => intro idx h; have : idx = 0 := by omega
            subst this; simp [downLoop, cnt_self]
  | succ f ih =>
    intro idx h
    by_cases h0 : idx = 0
    · subst h0; simp [downLoop, cnt_self]
    · have hpos : 0 < idx := by omega
      have hlt := clearLow_lt hpos
      rw [downLoop_step 0 f idx h0 hpos, List.map_cons, List.sum_cons, ih _ (by omega)]
      have e : blk s (idx - 1) = cnt s (clearLow idx) idx := by
        unfold blk loM; rw [show idx - 1 + 1 = idx by omega]
      rw [e, cnt_split s 0 (clearLow idx) idx (Nat.zero_le _) (by omega)]; omega

/-- **occupation loop**: walking down from `idx ≤ j` the loop reaches the block start of `j` exactly,
and the blocks visited tile `[lo j, idx)` -/
theorem down_occ_sum (s j : Nat) : ∀ fuel idx, idx ≤ fuel → loM j ≤ idx → idx ≤ j →
    ((downLoop (loM j) fuel idx).map (blk s)).sum = cnt s (loM j) idx := by
  intro fuel
  induction fuel with
  | zero => intro idx h h1 h2
            have : idx = 0 := by omega
            subst this
            have : loM j = 0 := by omega
            simp [downLoop, this, cnt_self]
  | succ f ih =>
    intro idx h h1 h2
    by_cases h0 : idx = loM j
    · rw [h0, downLoop_stop]; simp [cnt_self]
    · have hgt : loM j < idx := by omega
      have hpos : 0 < idx := by omega
      have hlt := clearLow_lt hpos
      have hge : loM j ≤ clearLow idx := clearLow_ge (j + 1) idx hgt (by omega)
      rw [downLoop_step (loM j) f idx h0 hpos, List.map_cons, List.sum_cons, ih _ (by omega) hge (by omega)]
      have e : blk s (idx - 1) = cnt s (clearLow idx) idx := by
        unfold blk loM; rw [show idx - 1 + 1 = idx by omega]
      rw [e, cnt_split s (loM j) (clearLow idx) idx hge (by omega)]; omega

theorem down_occ_ge (j : Nat) : ∀ fuel idx k, loM j ≤ idx → idx ≤ j → k ∈ downLoop (loM j) fuel idx → loM j ≤ k := by
  intro fuel
  induction fuel with
  | zero => intro idx k _ _ h; simp [downLoop] at h
  | succ f ih =>
    intro idx k h1 h2 h
    by_cases h0 : idx = loM j
    · rw [h0, downLoop_stop] at h; simp at h
    · have hgt : loM j < idx := by omega
      have hpos : 0 < idx := by omega
      have hge : loM j ≤ clearLow idx := clearLow_ge (j + 1) idx hgt (by omega)
      rw [downLoop_step (loM j) f idx h0 hpos] at h
      rcases List.mem_cons.1 h with rfl | h
      · omega
      · have hlt := clearLow_lt hpos
        exact ih _ _ hge (by omega) h

/-! ### the upward loop -/

theorem updateLoop_step (n fuel idx : Nat) (h : idx ≤ n ∧ 0 < idx) :
    updateLoop n (fuel + 1) idx = (idx - 1) :: updateLoop n fuel (idx + lowbit idx) := by
  simp [updateLoop, h]

theorem updateLoop_ge (n : Nat) : ∀ fuel idx k, 0 < idx → k ∈ updateLoop n fuel idx → idx ≤ k + 1 ∧ k < n := by
  intro fuel
  induction fuel with
  | zero => intro idx k _ h; simp [updateLoop] at h
  | succ f ih =>
    intro idx k hpos h
    by_cases hc : idx ≤ n ∧ 0 < idx
    · rw [updateLoop_step n f idx hc] at h
      rcases List.mem_cons.1 h with rfl | h
      · omega
      · have := ih (idx + lowbit idx) k (by omega) h; omega
    · simp [updateLoop, hc] at h

/-- **update loop**: started from an index `idx` whose block contains `K` (`clearLow idx < K ≤ idx`), the
loop visits exactly the qubits above `idx` (below `n`) whose block contains `K` -/
theorem update_chain (n K : Nat) (hK : 0 < K) : ∀ fuel idx, n + 1 ≤ fuel + idx → clearLow idx < K → K ≤ idx →
    ∀ K'', idx < K'' → K'' ≤ n →
      ((K'' - 1) ∈ updateLoop n fuel (idx + lowbit idx) ↔ clearLow K'' < K) := by
  intro fuel
  induction fuel with
  | zero => intro idx h _ _ K'' h1 h2; omega
  | succ f ih =>
    intro idx hf hlo hle K'' h1 h2
    have hpos : 0 < idx := by omega
    have hl := lowbit_eq idx hpos
    have hlp := lowbitW_pos idx hpos
    rw [hl]
    by_cases hnx : idx + lowbitW idx ≤ n
    · rw [updateLoop_step n f _ ⟨hnx, by omega⟩]
      by_cases hlt : K'' < idx + lowbitW idx
      · -- strictly between idx and its parent: block does not reach down to K
        have hr : K'' = idx + (K'' - idx) := by omega
        have := lowbitW_add (K'' - idx) idx (by omega) (by omega)
        rw [← hr] at this
        have hp := lowbitW_pos (K'' - idx) (by omega)
        have hcl : ¬ clearLow K'' < K := by rw [clearLow_eq]; omega
        simp only [hcl, iff_false, List.mem_cons, not_or]
        constructor
        · omega
        · intro hm
          have := updateLoop_ge n f _ _ (by omega) hm
          omega
      · by_cases heq : K'' = idx + lowbitW idx
        · have hcl : clearLow K'' < K := by
            rw [heq, clearLow_eq]
            have := lowbitW_parent idx hpos
            rw [clearLow_eq] at hlo; omega
          simp only [hcl, iff_true, List.mem_cons]
          left; omega
        · have hgt : idx + lowbitW idx < K'' := by omega
          have hne : K'' - 1 ≠ idx + lowbitW idx - 1 := by omega
          simp only [List.mem_cons, hne, false_or]
          have hcl' : clearLow (idx + lowbitW idx) < K := by
            rw [clearLow_eq]
            have := lowbitW_parent idx hpos
            rw [clearLow_eq] at hlo; omega
          have := ih (idx + lowbitW idx) (by omega) hcl' (by omega) K'' hgt h2
          rw [lowbit_eq _ (by omega)] at this
          rw [lowbit_eq _ (by omega)]
          exact this
    · -- the parent is beyond n: the loop is empty and nothing below n above idx contains K
      have hemp : updateLoop n (f + 1) (idx + lowbitW idx) = [] := by
        simp [updateLoop]; omega
      rw [hemp]
      have hr : K'' = idx + (K'' - idx) := by omega
      have := lowbitW_add (K'' - idx) idx (by omega) (by omega)
      rw [← hr] at this
      have hp := lowbitW_pos (K'' - idx) (by omega)
      have hcl : ¬ clearLow K'' < K := by rw [clearLow_eq]; omega
      simp [hcl]

end BK
end OFV
