/-
C19 — closed form of the double loop of `lambda_norm` (`Model.C19.lambdaNorm`): the accumulated scalar is the
sum of the off-diagonal contributions and `z_vector[j]` is minus the sum of everything subtracted from it.
-/
import OFV.Model.C19
import Mathlib.Algebra.BigOperators.Group.List.Basic
import Mathlib.Algebra.Order.Field.Rat
import Mathlib.Tactic.Ring
import Mathlib.Tactic.Linarith

namespace OFV
namespace C19Jw
open Model.C19

theorem getD_set_rat (l : List Rat) (i j : Nat) (v : Rat) :
    (l.set i v).getD j 0 = if i = j ∧ i < l.length then v else l.getD j 0 := by
  simp only [List.getD_eq_getElem?_getD, List.getElem?_set]
  by_cases h : i = j
  · subst h
    by_cases h2 : i < l.length
    · simp [h2]
    · simp [h2]
  · simp [h]

/-- a state update that adds `a` to the scalar and subtracts `d j` from entry `j` -/
structure AddSt (n : Nat) (st0 st : Rat × List Rat) (a : Rat) (d : Nat → Rat) : Prop where
  len : st.2.length = n
  lam : st.1 = st0.1 + a
  z : ∀ j, st.2.getD j 0 = st0.2.getD j 0 - d j

theorem addSt_fold {ι : Type} (n : Nat) (L : List ι) (f : Rat × List Rat → ι → Rat × List Rat)
    (a : ι → Rat) (d : ι → Nat → Rat)
    (hf : ∀ st i, i ∈ L → st.2.length = n → AddSt n st (f st i) (a i) (d i))
    (st0 : Rat × List Rat) (h0 : st0.2.length = n) :
    AddSt n st0 (L.foldl f st0) ((L.map a).sum) (fun j => (L.map fun i => d i j).sum) := by
  induction L generalizing st0 with
  | nil => exact ⟨h0, by simp, fun j => by simp⟩
  | cons i L ih =>
    simp only [List.foldl_cons, List.map_cons, List.sum_cons]
    have h1 := hf st0 i List.mem_cons_self h0
    have h2 := ih (fun st i' hi' hl => hf st i' (List.mem_cons_of_mem _ hi') hl) (f st0 i) h1.len
    refine ⟨h2.len, ?_, fun j => ?_⟩
    · rw [h2.lam, h1.lam]; ring
    · rw [h2.z j, h1.z j]; ring

/-- the body of the inner loop of `lambda_norm` -/
def lamStep (oneBody twoBody : List (List Rat)) (p : Nat) (st : Rat × List Rat) (q : Nat) : Rat × List Rat :=
  if p = q then
    (st.1, st.2.set p (st.2.getD p 0 - mat oneBody p p / 2 - mat twoBody p p / 2))
  else
    let lam := st.1 + rabs (mat oneBody p q) / 2 + rabs (mat twoBody p q) / 4
    let z1 := st.2.set p (st.2.getD p 0 - mat twoBody p q / 4)
    let z2 := z1.set q (z1.getD q 0 - mat twoBody p q / 4)
    (lam, z2)

/-- scalar contribution of the iteration `(p, q)` -/
def lamA (T V : List (List Rat)) (p q : Nat) : Rat :=
  if p = q then 0 else rabs (mat T p q) / 2 + rabs (mat V p q) / 4

/-- what the iteration `(p, q)` subtracts from `z_vector[j]` -/
def lamD (T V : List (List Rat)) (p q j : Nat) : Rat :=
  if p = q then (if j = p then mat T p p / 2 + mat V p p / 2 else 0)
  else (if j = p then mat V p q / 4 else 0) + (if j = q then mat V p q / 4 else 0)

theorem lamStep_add (T V : List (List Rat)) (n p q : Nat) (hp : p < n) (hq : q < n) (st : Rat × List Rat)
    (hl : st.2.length = n) : AddSt n st (lamStep T V p st q) (lamA T V p q) (lamD T V p q) := by
  unfold lamStep lamA lamD
  by_cases h : p = q
  · subst h
    simp only [if_true]
    refine ⟨by simp [hl], by simp, fun j => ?_⟩
    rw [getD_set_rat]
    by_cases hj : p = j
    · subst hj; simp [hl, hp]; ring
    · have : ¬ j = p := fun e => hj e.symm
      simp [hj, this]
  · simp only [if_neg h]
    refine ⟨by simp [hl], by ring, fun j => ?_⟩
    rw [getD_set_rat, getD_set_rat, getD_set_rat]
    simp only [List.length_set, hl, hp, hq, and_true]
    by_cases hjq : q = j
    · subst hjq
      have : ¬ q = p := fun e => h e.symm
      simp only [h, this, if_true, if_false]
      ring
    · by_cases hjp : p = j
      · subst hjp
        simp only [hjq, h, if_true, if_false]
        ring
      · have h1 : ¬ j = p := fun e => hjp e.symm
        have h2 : ¬ j = q := fun e => hjq e.symm
        simp only [hjq, hjp, h1, h2, if_false]
        ring

theorem lambdaNorm_unfold (T V : List (List Rat)) :
    lambdaNorm T V =
      let n := T.length
      let st := (List.range n).foldl (fun st p => (List.range n).foldl (lamStep T V p) st)
        ((0 : Rat), List.replicate n (0 : Rat))
      st.1 + (st.2.map rabs).foldl (· + ·) 0 := rfl

theorem list_eq_map_range (l : List Rat) : l = (List.range l.length).map (fun j => l.getD j 0) := by
  apply List.ext_getElem
  · simp
  · intro i h1 h2
    simp [List.getD_eq_getElem?_getD, List.getElem?_eq_getElem h1]

theorem foldl_add_eq_sum (l : List Rat) : l.foldl (· + ·) 0 = l.sum := by
  rw [List.sum_eq_foldl]

/-- **closed form of `lambda_norm`** -/
theorem lambdaNorm_closed (T V : List (List Rat)) :
    lambdaNorm T V =
      ((List.range T.length).map fun p => ((List.range T.length).map fun q => lamA T V p q).sum).sum
      + ((List.range T.length).map fun j =>
          rabs (-(((List.range T.length).map fun p => ((List.range T.length).map fun q => lamD T V p q j).sum).sum))).sum := by
  rw [lambdaNorm_unfold]
  simp only
  have inner : ∀ p, p ∈ List.range T.length → ∀ st : Rat × List Rat, st.2.length = T.length →
      AddSt T.length st ((List.range T.length).foldl (lamStep T V p) st)
        (((List.range T.length).map fun q => lamA T V p q).sum)
        (fun j => ((List.range T.length).map fun q => lamD T V p q j).sum) := by
    intro p hp st hl
    exact addSt_fold T.length (List.range T.length) (lamStep T V p) (lamA T V p) (lamD T V p)
      (fun st q hq hl => lamStep_add T V T.length p q (List.mem_range.1 hp) (List.mem_range.1 hq) st hl) st hl
  have outer := addSt_fold T.length (List.range T.length)
    (fun st p => (List.range T.length).foldl (lamStep T V p) st)
    (fun p => ((List.range T.length).map fun q => lamA T V p q).sum)
    (fun p j => ((List.range T.length).map fun q => lamD T V p q j).sum)
    (fun st p hp hl => inner p hp st hl) ((0 : Rat), List.replicate T.length (0 : Rat)) (by simp)
  rw [outer.lam, zero_add, foldl_add_eq_sum]
  congr 1
  generalize hst : (List.range T.length).foldl (fun st p => (List.range T.length).foldl (lamStep T V p) st)
    ((0 : Rat), List.replicate T.length (0 : Rat)) = st at outer
  have hz := outer.z
  have hlen := outer.len
  conv_lhs => rw [list_eq_map_range st.2]
  rw [List.map_map, hlen]
  congr 1
  apply List.map_congr_left
  intro j hj
  simp only [Function.comp]
  rw [hz j]
  have : (List.replicate T.length (0 : Rat)).getD j 0 = 0 := by
    simp only [List.getD_eq_getElem?_getD, List.getElem?_replicate]
    split <;> rfl
  simp only [this, zero_sub]

end C19Jw
end OFV
