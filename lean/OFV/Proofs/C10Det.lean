/- C10: determinants as occupation lists vs. Fock masks; the parity loop of `_build_term_op_`;
`_iterate_basis_` starts with the reference; vector / list convention of the expectation value. -/
import OFV.Proofs.C10Num

namespace OFV.C10
open OFV.Model OFV.Model.C10 OFV.Spec OFV.Spec.C10

/-- the mask `s` has exactly the bits of the occupation list `d` -/
def Agree (d : Det) (s : Nat) : Prop := ∀ j, s.testBit j = d.getD j false

theorem countBelow_succ (s i : Nat) : countBelow s (i + 1) = countBelow s i + (if s.testBit i then 1 else 0) := by
  unfold countBelow
  rw [List.range_succ, List.filter_append, List.length_append]
  by_cases h : s.testBit i <;> simp [h]

theorem countTrue_append (a b : Det) : countTrue (a ++ b) = countTrue a + countTrue b := by
  simp [countTrue, List.filter_append]

theorem countTrue_take_succ (d : Det) (i : Nat) :
    countTrue (d.take (i + 1)) = countTrue (d.take i) + (if d.getD i false then 1 else 0) := by
  rw [List.take_succ, countTrue_append]
  congr 1
  rw [List.getD_eq_getElem?_getD]
  cases h : d[i]? with
  | none => simp [countTrue]
  | some b => cases b <;> simp [countTrue]

theorem countBelow_eq_countTrue (d : Det) (s : Nat) (h : Agree d s) (i : Nat) :
    countBelow s i = countTrue (d.take i) := by
  induction i with
  | zero => simp [countBelow, countTrue]
  | succ i ih => rw [countBelow_succ, countTrue_take_succ, ih, h i]

theorem agree_flip (d : Det) (s : Nat) (h : Agree d s) (j : Nat) (hj : j < d.length) :
    Agree (d.set j (!(d.getD j false))) (s ^^^ (1 <<< j)) := by
  intro k
  by_cases hk : k = j
  · subst hk
    rw [testBit_xflip, h k]
    simp [List.getD_eq_getElem?_getD, hj]
  · rw [testBit_xflip_ne s j k (fun e => hk e.symm), h k]
    simp [List.getD_eq_getElem?_getD, List.getElem?_set_ne (fun e => hk e.symm)]

def specStep (acc : Option (Nat × Nat)) (f : Nat × Nat) : Option (Nat × Nat) :=
  match acc with
  | none => none
  | some (k, s') => match actF f.1 f.2 s' with
    | none => none
    | some (k', s'') => some ((k + k') % 2, s'')

def modelStep (acc : Nat × Det) (f : Nat × Nat) : Nat × Det :=
  (acc.1 + countTrue (acc.2.take f.1), acc.2.set f.1 (!(acc.2.getD f.1 false)))

theorem actFTerm_eq_foldl (t : Term) (s : Nat) : actFTerm t s = t.reverse.foldl specStep (some (0, s)) := by
  unfold actFTerm
  rw [List.foldl_reverse]
  rfl

theorem applyTermDet_eq_foldl (t : Term) (d : Det) : applyTermDet t d = t.reverse.foldl modelStep (0, d) := rfl

theorem foldl_specStep_none (r : List (Nat × Nat)) : r.foldl specStep none = none := by
  induction r with
  | nil => rfl
  | cons f r ih => simpa [List.foldl_cons, specStep] using ih

theorem parity_loop_go (r : List (Nat × Nat)) (m : Nat × Det) (k s : Nat)
    (hlen : ∀ f ∈ r, f.1 < m.2.length) (hk : m.1 % 2 = k % 2) (hag : Agree m.2 s)
    (k' s' : Nat) (hres : r.foldl specStep (some (k, s)) = some (k', s')) :
    (r.foldl modelStep m).1 % 2 = k' % 2 ∧ Agree (r.foldl modelStep m).2 s' := by
  induction r generalizing m k s with
  | nil =>
    simp only [List.foldl_nil, Option.some.injEq, Prod.mk.injEq] at hres
    obtain ⟨rfl, rfl⟩ := hres
    exact ⟨hk, hag⟩
  | cons f r ih =>
    rw [List.foldl_cons] at hres ⊢
    have hf : f.1 < m.2.length := hlen f (by simp)
    cases hact : actF f.1 f.2 s with
    | none =>
      simp only [specStep, hact] at hres
      rw [foldl_specStep_none] at hres
      cases hres
    | some ks =>
      obtain ⟨k1, s1⟩ := ks
      simp only [specStep, hact] at hres
      have hact' := hact
      unfold actF at hact'
      split at hact'
      · cases hact'
      · simp only [Option.some.injEq, Prod.mk.injEq] at hact'
        obtain ⟨rfl, rfl⟩ := hact'
        apply ih (modelStep m f) ((k + countBelow s f.1 % 2) % 2) (s ^^^ (1 <<< f.1))
        · intro g hg
          simp only [modelStep, List.length_set]
          exact hlen g (List.mem_cons_of_mem _ hg)
        · simp only [modelStep]
          rw [← countBelow_eq_countTrue m.2 s hag f.1]
          omega
        · exact agree_flip m.2 s hag f.1 hf
        · exact hres

/-- The sign loop of `_build_term_op_` agrees with the Spec: whenever the Spec action of the
term on the basis state is non-zero, the accumulated exponent has the parity of the Spec sign
and the target determinant is the Spec image. -/
theorem applyTermDet_sound (t : Term) (d : Det) (s : Nat) (hag : Agree d s)
    (hlen : ∀ f ∈ t, f.1 < d.length) (k' s' : Nat) (h : actFTerm t s = some (k', s')) :
    (applyTermDet t d).1 % 2 = k' % 2 ∧ Agree (applyTermDet t d).2 s' := by
  rw [actFTerm_eq_foldl] at h
  rw [applyTermDet_eq_foldl]
  exact parity_loop_go t.reverse (0, d) 0 s (fun f hf => hlen f (List.mem_reverse.mp hf)) rfl hag k' s' h

/-! ### `_iterate_basis_` yields the reference determinant first -/

theorem setAll_nil (d : Det) (v : Bool) : setAll d [] v = d := rfl

theorem iterateBasisOrder_zero (ref : Det) : iterateBasisOrder ref 0 = [ref] := by
  simp [iterateBasisOrder, combinations_zero, setAll_nil]

theorem iterateBasisSpinOrder_zero (ref : Det) : iterateBasisSpinOrder ref 0 0 = [ref] := by
  simp [iterateBasisSpinOrder, combinations_zero, setAll_nil]

theorem iterateBasis_head (ref : Det) (level : Nat) (spin : Bool) :
    (iterateBasis ref level spin).head? = some ref := by
  unfold iterateBasis
  cases spin with
  | false =>
    simp only [Bool.not_false, if_true]
    rw [List.range_succ_eq_map, List.flatMap_cons, iterateBasisOrder_zero]
    rfl
  | true =>
    simp only [Bool.not_true, Bool.false_eq_true, if_false]
    have h1 : List.range (level + 1) = 0 :: (List.range level).map Nat.succ := List.range_succ_eq_map
    have h2 : List.range (min (countTrue (evens ref)) level + 1)
        = 0 :: (List.range (min (countTrue (evens ref)) level)).map Nat.succ := List.range_succ_eq_map
    rw [h1, h2, List.flatMap_cons, List.flatMap_cons]
    simp [iterateBasisSpinOrder_zero]

/-! ### vector and list input of expectation_computational_basis_state use one convention -/

theorem bitsOfIndex_config (occ : List Nat) (n : Nat) (h : occ.Nodup) (hlt : ∀ i ∈ occ, i < n) :
    bitsOfIndex n (configIndex occ n) = (List.range n).map fun j => decide (j ∈ occ) := by
  unfold bitsOfIndex
  apply List.map_congr_left
  intro j hj
  exact (configIndex_bits occ n h hlt).2 j (List.mem_range.mp hj)

end OFV.C10
