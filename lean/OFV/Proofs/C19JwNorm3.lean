/-
C19 — uniqueness of the Pauli decomposition in the form the Spec oracle evaluates:
`jwOneNorm n A false = some (Σ_{non-identity strings of R} |c|)` for every Pauli form `R` of `A`.
-/
import OFV.Proofs.C19JwNorm2
import Mathlib.Algebra.BigOperators.Group.Finset.Sigma

namespace OFV
namespace C19P
open Spec Spec.C19 Sem

theorem im_sum {α : Type} (l : List α) (f : α → GQ) : ((l.map f).sum).im = (l.map fun a => (f a).im).sum := by
  induction l with
  | nil => simp
  | cons a l ih => simp [ih]

theorem rsum_zero_map' {α : Type} (l : List α) (f : α → Rat) (h : ∀ a ∈ l, f a = 0) : (l.map f).sum = 0 := by
  induction l with
  | nil => simp
  | cons a l ih =>
    simp only [List.map_cons, List.sum_cons, h a List.mem_cons_self, zero_add]
    exact ih (fun b hb => h b (List.mem_cons_of_mem _ hb))

theorem rsum_mul_left {α : Type} (c : Rat) (l : List α) (f : α → Rat) : (l.map fun a => c * f a).sum = c * (l.map f).sum := by
  induction l with
  | nil => simp
  | cons a l ih => simp [mul_add, ih]

/-- the mask pair of a string -/
def masks (t : PStr) : Nat × Nat := (xmask t, zmask t)

theorem masks_nil_iff (n : Nat) (t : PStr) (h : Canon n t) : masks t = (0, 0) ↔ t = [] := by
  constructor
  · intro e
    unfold masks at e
    simp only [Prod.mk.injEq] at e
    exact canon_ext n t [] h (canon_nil n) (by rw [e.1]; rfl) (by rw [e.2]; rfl)
  · rintro rfl; rfl

theorem maskCoef_eq (R : Model.Op) (p : Nat × Nat) :
    maskCoef R p.1 p.2 = (R.map fun tc => if masks tc.1 = p then tc.2 else 0).sum := by
  unfold maskCoef masks
  apply congrArg
  apply List.map_congr_left
  intro tc _
  obtain ⟨x, z⟩ := p
  simp only [Prod.mk.injEq]

theorem maskCoef_im (n : Nat) (R : Model.Op) (hcanon : ∀ tc ∈ R, Canon n tc.1)
    (hreal : ∀ tc ∈ R, tc.1 ≠ [] → tc.2.im = 0) (x z : Nat) (hne : ¬ (x = 0 ∧ z = 0)) :
    (maskCoef R x z).im = 0 := by
  unfold maskCoef
  rw [im_sum]
  apply rsum_zero_map'
  intro tc htc
  by_cases hm : xmask tc.1 = x ∧ zmask tc.1 = z
  · rw [if_pos hm]
    apply hreal tc htc
    intro e
    apply hne
    rw [e] at hm
    exact ⟨hm.1.symm, hm.2.symm⟩
  · rw [if_neg hm]; rfl

/-- **uniqueness of the Pauli decomposition** as evaluated by the Spec oracle (identity excluded) -/
theorem jwOneNorm_pauli (n : Nat) (A R : Model.Op) (wf : Dict.WF R) (hcanon : ∀ tc ∈ R, Canon n tc.1)
    (hreal : ∀ tc ∈ R, tc.1 ≠ [] → tc.2.im = 0)
    (heq : ∀ m u, den .qubit R [m] [u] = den .fermion A [m] [u]) :
    jwOneNorm n A false = some (pauliListNorm R false) := by
  have hN : ((2 ^ n : Nat) : Rat) ≠ 0 := by
    have : 0 < 2 ^ n := Nat.two_pow_pos n
    exact_mod_cast (Nat.pos_iff_ne_zero.1 this)
  unfold jwOneNorm
  simp only
  rw [optFold2 (List.range (2 ^ n)) (List.range (2 ^ n))
    (fun x z => x = 0 ∧ z = 0 ∧ (!false) = true)
    (fun x z => pauliTrace n ((List.range (2 ^ n)).map (applyF A)) x z) _ (fun x a z => rfl) 0
    (by
      intro x _ z hz hsk
      rw [pauliTrace_eq n A R hcanon heq x z (List.mem_range.1 hz), mul_nat_im,
        maskCoef_im n R hcanon hreal x z (fun h => hsk ⟨h.1, h.2, rfl⟩), mul_zero])]
  simp only [Option.map_some, zero_add]
  congr 1
  -- the double sum
  have e1 : ((List.range (2 ^ n)).map fun x => ((List.range (2 ^ n)).map fun z =>
        if x = 0 ∧ z = 0 ∧ (!false) = true then (0 : Rat)
        else rabs (pauliTrace n ((List.range (2 ^ n)).map (applyF A)) x z).re).sum)
      = (List.range (2 ^ n)).map fun x => ((2 ^ n : Nat) : Rat) * ((List.range (2 ^ n)).map fun z =>
        if (x, z) = (0, 0) then (0 : Rat) else rabs (maskCoef R x z).re).sum := by
    apply List.map_congr_left
    intro x _
    rw [← rsum_mul_left]
    apply congrArg
    apply List.map_congr_left
    intro z hz
    rw [pauliTrace_eq n A R hcanon heq x z (List.mem_range.1 hz), rabs_mul_nat]
    by_cases h : x = 0 ∧ z = 0
    · have h' : (x, z) = (0, 0) := by rw [h.1, h.2]
      simp [h.1, h.2]
    · have h' : ¬ ((x, z) = (0, 0)) := by
        intro e; simp only [Prod.mk.injEq] at e; exact h e
      have h'' : ¬ (x = 0 ∧ z = 0 ∧ (!false) = true) := fun e => h ⟨e.1, e.2.1⟩
      rw [if_neg h', if_neg h'']
  rw [e1, rsum_mul_left, mul_div_assoc, mul_comm, div_mul_cancel₀ _ hN]
  -- to a sum over the product of the ranges
  have e2 : ((List.range (2 ^ n)).map fun x => ((List.range (2 ^ n)).map fun z =>
        if (x, z) = (0, 0) then (0 : Rat) else rabs (maskCoef R x z).re).sum).sum
      = ∑ p ∈ Finset.range (2 ^ n) ×ˢ Finset.range (2 ^ n),
          (fun (p : Nat × Nat) (c : GQ) => if p = (0, 0) then (0 : Rat) else rabs c.re) p
            ((R.map fun tc => if masks tc.1 = p then tc.2 else 0).sum) := by
    rw [rlist_sum_range_eq, Finset.sum_product]
    apply Finset.sum_congr rfl
    intro x _
    rw [rlist_sum_range_eq]
    apply Finset.sum_congr rfl
    intro z _
    simp only
    rw [← maskCoef_eq R (x, z)]
  rw [e2, mask_sum (Finset.range (2 ^ n) ×ˢ Finset.range (2 ^ n)) R masks ?_ ?_
    (fun p c => if p = (0, 0) then (0 : Rat) else rabs c.re) (fun p => by simp [rabs])]
  · unfold pauliListNorm
    apply congrArg
    apply List.map_congr_left
    intro tc htc
    simp only
    by_cases h : tc.1 = []
    · rw [if_pos ((masks_nil_iff n tc.1 (hcanon tc htc)).2 h), if_pos ⟨h, trivial⟩]
    · rw [if_neg (fun e => h ((masks_nil_iff n tc.1 (hcanon tc htc)).1 e)), if_neg (fun e => h e.1)]
  · -- different keys have different masks
    have hk : R.Pairwise (fun a b => a.1 ≠ b.1) := by
      have : (R.map Prod.fst).Nodup := wf
      exact (List.pairwise_map.1 this)
    refine hk.imp_of_mem ?_
    intro a b ha hb hab e
    apply hab
    unfold masks at e
    simp only [Prod.mk.injEq] at e
    exact canon_ext n a.1 b.1 (hcanon a ha) (hcanon b hb) e.1 e.2
  · intro tc htc
    unfold masks
    exact Finset.mem_product.2 ⟨Finset.mem_range.2 (xmask_lt n tc.1 (hcanon tc htc)),
      Finset.mem_range.2 (zmask_lt n tc.1 (hcanon tc htc))⟩

end C19P
end OFV
