/-
C19 — coefficients of an operator accumulated by exact `+=` (`iadd`): the coefficient stored under a key
is the initial coefficient plus the sum of all contributions with that key; keys stay pairwise distinct.
Used to read off the Pauli coefficients of the Model's Jordan-Wigner images (`jwDCH`, `jwInteractionOp`).
-/
import OFV.Model.C04
import OFV.Proofs.GQRing
import OFV.Proofs.C04Sum
import Mathlib.Algebra.BigOperators.Group.List.Basic

namespace OFV
namespace C19Jw
open Model Model.C04

abbrev Key := List (Nat × Nat)

/-- the coefficient stored under `k` (0 when absent) -/
def coef (A : Op) (k : Key) : GQ := Dict.getD A k 0

/-- sum of the contributions of an operand to the key `k` -/
def csum (b : Op) (k : Key) : GQ := (b.map fun tc => if tc.1 = k then tc.2 else 0).sum

/-! ### dictionary lemmas -/

theorem get?_set (d : Op) (k k' : Key) (v : GQ) :
    Dict.get? (Dict.set d k v) k' = if k = k' then some v else Dict.get? d k' := by
  induction d with
  | nil => simp [Dict.set, Dict.get?]
  | cons e r ih =>
    obtain ⟨k0, v0⟩ := e
    by_cases h0 : k0 = k
    · subst h0
      simp only [Dict.set, if_true, Dict.get?]
      by_cases h1 : k0 = k' <;> simp [h1]
    · simp only [Dict.set, if_neg h0, Dict.get?, ih]
      by_cases h1 : k0 = k'
      · subst h1
        simp [Ne.symm h0]
      · simp [h1]

theorem mem_keys_of_get? (d : Op) (k : Key) (v : GQ) (h : Dict.get? d k = some v) : k ∈ Dict.keys d := by
  induction d with
  | nil => simp [Dict.get?] at h
  | cons e r ih =>
    obtain ⟨k0, v0⟩ := e
    simp only [Dict.get?] at h
    by_cases h0 : k0 = k
    · subst h0; simp [Dict.keys]
    · rw [if_neg h0] at h
      have := ih h
      simp only [Dict.keys, List.map_cons, List.mem_cons] at this ⊢
      exact Or.inr this

theorem get?_none_of_not_mem (d : Op) (k : Key) (h : k ∉ Dict.keys d) : Dict.get? d k = none := by
  cases hg : Dict.get? d k with
  | none => rfl
  | some v => exact absurd (mem_keys_of_get? d k v hg) h

theorem get?_erase (d : Op) (wd : Dict.WF d) (k k' : Key) :
    Dict.get? (Dict.erase d k) k' = if k = k' then none else Dict.get? d k' := by
  induction d with
  | nil => simp [Dict.erase, Dict.get?]
  | cons e r ih =>
    obtain ⟨k0, v0⟩ := e
    have wr : Dict.WF r := by
      unfold Dict.WF Dict.keys at wd ⊢
      simp only [List.map_cons, List.nodup_cons] at wd
      exact wd.2
    have hk0 : k0 ∉ Dict.keys r := by
      unfold Dict.WF Dict.keys at wd
      simp only [List.map_cons, List.nodup_cons] at wd
      exact wd.1
    by_cases h0 : k0 = k
    · subst h0
      simp only [Dict.erase, if_true, Dict.get?]
      by_cases h1 : k0 = k'
      · subst h1
        simp [get?_none_of_not_mem r k0 hk0]
      · simp [h1]
    · simp only [Dict.erase, if_neg h0, Dict.get?, ih wr]
      by_cases h1 : k0 = k'
      · subst h1
        simp [Ne.symm h0]
      · simp [h1]

theorem keys_set (d : Op) (k : Key) (v : GQ) (k' : Key) (h : k' ∈ Dict.keys (Dict.set d k v)) :
    k' = k ∨ k' ∈ Dict.keys d := by
  induction d with
  | nil => simp [Dict.set, Dict.keys] at h; exact Or.inl h
  | cons e r ih =>
    obtain ⟨k0, v0⟩ := e
    by_cases h0 : k0 = k
    · subst h0
      simp only [Dict.set, if_true, Dict.keys, List.map_cons, List.mem_cons] at h ⊢
      exact Or.inr h
    · simp only [Dict.set, if_neg h0, Dict.keys, List.map_cons, List.mem_cons] at h ⊢
      rcases h with h | h
      · exact Or.inr (Or.inl h)
      · rcases ih h with h' | h'
        · exact Or.inl h'
        · exact Or.inr (Or.inr h')

theorem keys_erase (d : Op) (k : Key) (k' : Key) (h : k' ∈ Dict.keys (Dict.erase d k)) : k' ∈ Dict.keys d := by
  induction d with
  | nil => simp [Dict.erase, Dict.keys] at h
  | cons e r ih =>
    obtain ⟨k0, v0⟩ := e
    by_cases h0 : k0 = k
    · subst h0
      simp only [Dict.erase, if_true, Dict.keys, List.map_cons, List.mem_cons] at h ⊢
      exact Or.inr h
    · simp only [Dict.erase, if_neg h0, Dict.keys, List.map_cons, List.mem_cons] at h ⊢
      rcases h with h | h
      · exact Or.inl h
      · exact Or.inr (ih h)

theorem wf_set (d : Op) (k : Key) (v : GQ) (wd : Dict.WF d) : Dict.WF (Dict.set d k v) := by
  induction d with
  | nil => simp [Dict.set, Dict.WF, Dict.keys]
  | cons e r ih =>
    obtain ⟨k0, v0⟩ := e
    have wd' := wd
    unfold Dict.WF Dict.keys at wd'
    simp only [List.map_cons, List.nodup_cons] at wd'
    by_cases h0 : k0 = k
    · subst h0
      simp only [Dict.set, if_true]
      unfold Dict.WF Dict.keys
      simp only [List.map_cons, List.nodup_cons]
      exact wd'
    · simp only [Dict.set, if_neg h0]
      unfold Dict.WF Dict.keys
      simp only [List.map_cons, List.nodup_cons]
      refine ⟨?_, ih wd'.2⟩
      intro hm
      rcases keys_set r k v k0 hm with h | h
      · exact h0 h
      · exact wd'.1 h

theorem wf_erase (d : Op) (k : Key) (wd : Dict.WF d) : Dict.WF (Dict.erase d k) := by
  induction d with
  | nil => simp [Dict.erase, Dict.WF, Dict.keys]
  | cons e r ih =>
    obtain ⟨k0, v0⟩ := e
    have wd' := wd
    unfold Dict.WF Dict.keys at wd'
    simp only [List.map_cons, List.nodup_cons] at wd'
    by_cases h0 : k0 = k
    · subst h0
      simp only [Dict.erase, if_true]
      exact wd'.2
    · simp only [Dict.erase, if_neg h0]
      unfold Dict.WF Dict.keys
      simp only [List.map_cons, List.nodup_cons]
      exact ⟨fun hm => wd'.1 (keys_erase r k k0 hm), ih wd'.2⟩

theorem coef_set (d : Op) (k k' : Key) (v : GQ) : coef (Dict.set d k v) k' = if k = k' then v else coef d k' := by
  unfold coef Dict.getD
  rw [get?_set]
  by_cases h : k = k' <;> simp [h]

theorem coef_erase (d : Op) (wd : Dict.WF d) (k k' : Key) :
    coef (Dict.erase d k) k' = if k = k' then 0 else coef d k' := by
  unfold coef Dict.getD
  rw [get?_erase d wd]
  by_cases h : k = k' <;> simp [h]

theorem coef_of_not_mem (d : Op) (k : Key) (h : k ∉ Dict.keys d) : coef d k = 0 := by
  unfold coef Dict.getD
  rw [get?_none_of_not_mem d k h]; rfl

/-! ### one exact `+=` -/

/-- invariant of an exact accumulation -/
structure Acc (a r : Op) (extra : Key → Prop) (delta : Key → GQ) : Prop where
  wf : Dict.WF r
  coef : ∀ k, coef r k = coef a k + delta k
  keys : ∀ k ∈ Dict.keys r, k ∈ Dict.keys a ∨ extra k

theorem iaddStep_acc (tol : Rat) (a : Op) (wa : Dict.WF a) (ok : Bool) (t : Key) (c : GQ)
    (h : (iaddStep tol (a, ok) (t, c)).2 = true) :
    Dict.WF (iaddStep tol (a, ok) (t, c)).1
    ∧ (∀ k, coef (iaddStep tol (a, ok) (t, c)).1 k = coef a k + (if t = k then c else 0))
    ∧ (∀ k ∈ Dict.keys (iaddStep tol (a, ok) (t, c)).1, k ∈ Dict.keys a ∨ k = t)
    ∧ ok = true := by
  unfold iaddStep at h ⊢
  simp only at h ⊢
  cases hs : GQ.isSmall tol (Dict.getD a t 0 + c) with
  | true =>
    rw [hs] at h
    simp only [if_true] at h ⊢
    simp only [Bool.and_eq_true, beq_iff_eq] at h
    refine ⟨wf_erase a t wa, ?_, fun k hk => Or.inl (keys_erase a t k hk), h.1⟩
    intro k
    rw [coef_erase a wa]
    by_cases hk : t = k
    · subst hk
      simp only [if_true]
      have : coef a t + c = 0 := h.2
      exact this.symm
    · simp [hk]
  | false =>
    rw [hs] at h
    simp only [Bool.false_eq_true, if_false] at h ⊢
    refine ⟨wf_set a t _ wa, ?_, ?_, h⟩
    · intro k
      rw [coef_set]
      by_cases hk : t = k
      · subst hk; simp [coef]
      · simp [hk]
    · intro k hk
      rcases keys_set a t _ k hk with h' | h'
      · exact Or.inr h'
      · exact Or.inl h'

theorem fold_iaddStep_ok (tol : Rat) (b a : Op) (ok : Bool)
    (h : (b.foldl (iaddStep tol) (a, ok)).2 = true) : ok = true := Sem.fold_iaddStep_snd tol b a ok h

theorem fold_iaddStep_fst (tol : Rat) (b a : Op) (ok : Bool) :
    (b.foldl (iaddStep tol) (a, ok)).1 = iadd tol a b := Sem.fold_iaddStep_fst tol b a ok

theorem csum_cons (t : Key) (c : GQ) (b : Op) (k : Key) :
    csum ((t, c) :: b) k = (if t = k then c else 0) + csum b k := by
  simp [csum]

/-- an exact `a += b` adds, key by key, the contributions of `b` -/
theorem iadd_fold_acc (tol : Rat) (b a : Op) (wa : Dict.WF a) (ok : Bool)
    (h : (b.foldl (iaddStep tol) (a, ok)).2 = true) :
    Dict.WF (b.foldl (iaddStep tol) (a, ok)).1
    ∧ (∀ k, coef (b.foldl (iaddStep tol) (a, ok)).1 k = coef a k + csum b k)
    ∧ (∀ k ∈ Dict.keys (b.foldl (iaddStep tol) (a, ok)).1, k ∈ Dict.keys a ∨ k ∈ Dict.keys b) := by
  induction b generalizing a ok with
  | nil => exact ⟨wa, fun k => by simp [csum], fun k hk => Or.inl hk⟩
  | cons tc b ih =>
    obtain ⟨t, c⟩ := tc
    simp only [List.foldl_cons] at h ⊢
    have e : iaddStep tol (a, ok) (t, c)
        = ((iaddStep tol (a, ok) (t, c)).1, (iaddStep tol (a, ok) (t, c)).2) := rfl
    rw [e] at h ⊢
    have h2 := fold_iaddStep_ok tol b _ _ h
    obtain ⟨w1, c1, k1, _⟩ := iaddStep_acc tol a wa ok t c h2
    obtain ⟨w2, c2, k2⟩ := ih _ w1 _ h
    refine ⟨w2, ?_, ?_⟩
    · intro k
      rw [c2 k, c1 k, csum_cons]; ring
    · intro k hk
      rcases k2 k hk with h' | h'
      · rcases k1 k h' with h'' | h''
        · exact Or.inl h''
        · subst h''
          exact Or.inr (by simp [Dict.keys])
      · exact Or.inr (by
          simp only [Dict.keys, List.map_cons, List.mem_cons] at h' ⊢
          exact Or.inr h')

theorem iadd_acc (tol : Rat) (a b : Op) (wa : Dict.WF a) (h : iaddOk tol a b = true) :
    Dict.WF (iadd tol a b) ∧ (∀ k, coef (iadd tol a b) k = coef a k + csum b k)
    ∧ (∀ k ∈ Dict.keys (iadd tol a b), k ∈ Dict.keys a ∨ k ∈ Dict.keys b) := by
  rw [← fold_iaddStep_fst tol b a true]
  exact iadd_fold_acc tol b a wa true h

/-- an accumulation loop `acc = acc0; for img in imgs: acc += img` whose `+=` were all exact: key by key
the stored coefficient is the initial one plus the sum of all contributions -/
theorem sum_acc (tol : Rat) (imgs : List Op) (acc : Op) (wa : Dict.WF acc) (ok : Bool)
    (h : (imgs.foldl (fun (st : Op × Bool) img => (iadd tol st.1 img, st.2 && iaddOk tol st.1 img)) (acc, ok)).2 = true) :
    ok = true ∧ Dict.WF (imgs.foldl (fun acc img => iadd tol acc img) acc)
    ∧ (∀ k, coef (imgs.foldl (fun acc img => iadd tol acc img) acc) k
          = coef acc k + (imgs.map fun img => csum img k).sum)
    ∧ (∀ k ∈ Dict.keys (imgs.foldl (fun acc img => iadd tol acc img) acc),
          k ∈ Dict.keys acc ∨ ∃ img ∈ imgs, k ∈ Dict.keys img) := by
  induction imgs generalizing acc ok with
  | nil => exact ⟨h, wa, fun k => by simp, fun k hk => Or.inl hk⟩
  | cons img imgs ih =>
    simp only [List.foldl_cons] at h ⊢
    have h0 := (ih (iadd tol acc img) (by
      -- well-formedness needs exactness of this step, obtained from the flag below
      by_cases hok : iaddOk tol acc img = true
      · exact (iadd_acc tol acc img wa hok).1
      · exfalso
        have : (ok && iaddOk tol acc img) = false := by
          cases ok <;> simp [hok]
        rw [this] at h
        -- a false flag stays false
        have key : ∀ (l : List Op) (st : Op),
            (l.foldl (fun (st : Op × Bool) img => (iadd tol st.1 img, st.2 && iaddOk tol st.1 img)) (st, false)).2 = false := by
          intro l
          induction l with
          | nil => intro st; rfl
          | cons x l ihl => intro st; simp only [List.foldl_cons, Bool.false_and]; exact ihl _
        rw [key] at h
        exact Bool.noConfusion h) _ h)
    obtain ⟨h1, w2, c2, k2⟩ := h0
    simp only [Bool.and_eq_true] at h1
    obtain ⟨_, c1, k1⟩ := iadd_acc tol acc img wa h1.2
    refine ⟨h1.1, w2, ?_, ?_⟩
    · intro k
      rw [c2 k, c1 k]
      simp [add_assoc]
    · intro k hk
      rcases k2 k hk with h' | ⟨i, hi, hk'⟩
      · rcases k1 k h' with h'' | h''
        · exact Or.inl h''
        · exact Or.inr ⟨img, List.mem_cons_self, h''⟩
      · exact Or.inr ⟨i, List.mem_cons_of_mem _ hi, hk'⟩

end C19Jw
end OFV
