/-
C20 — the coefficient contract `CoefOK` for purely imaginary integer coefficients (`2j`, `-13j`: what Python's
`format` prints for `complex(0, z)`).
-/
import OFV.Proofs.C20Coef
import Mathlib.Tactic.NormNum
set_option linter.unusedSimpArgs false
set_option linter.unusedVariables false
namespace OFV.C20
open OFV.Model OFV.Model.C20

/-- `format(complex(0, z))` for an integer `z` (`z ≠ -0`): `str(z) + 'j'` -/
def imagStr (z : Int) : Str := intStr z ++ ['j']

/-- the exact value of `z·i` -/
def imagGQ (z : Int) : GQ := ⟨0, (z : Rat)⟩

theorem imagStr_chars (z : Int) : ∀ c ∈ imagStr z, c = '-' ∨ c = 'j' ∨ isDigit c = true := by
  intro c hc
  unfold imagStr at hc
  rcases List.mem_append.1 hc with h | h
  · rcases intStr_chars z c h with h1 | h1
    · exact Or.inl h1
    · exact Or.inr (Or.inr h1)
  · simp at h; exact Or.inr (Or.inl h)

theorem natStr_head_ne_minus (n : Nat) : ∃ c r, natStr n = c :: r ∧ c ≠ '-' := by
  cases hn : natStr n with
  | nil => exact absurd hn (natStr_ne_nil _)
  | cons c r =>
    refine ⟨c, r, rfl, ?_⟩
    intro hh; subst hh
    have := natStr_all_digits n '-' (by rw [hn]; simp)
    revert this; decide

/-- **the coefficient contract for purely imaginary integer coefficients reduces to one fact about Python's
`complex`**: the text `str(z) + 'j'` has no white space, bracket, colon or leading `+`, is neither empty nor `-`,
contains `j`, so the coefficient parser strips a leading `-`, hands `str(|z|) + 'j'` to `complex` and negates;
if `complex(str(|z|) + 'j') = |z| i` (the table entry), `CoefOK` holds with the value `z i` -/
theorem coefOK_imag_int (nt : NumTables) (z : Int)
    (h : lookup nt.pyComplex (natStr z.natAbs ++ ['j']) = some (imagGQ z.natAbs)) :
    CoefOK nt (imagStr z) (imagGQ z) where
  nospace := by
    intro c hc
    rcases imagStr_chars z c hc with rfl | rfl | hd
    · decide
    · decide
    · exact (digit_props hd).1
  nobracket := by
    intro c hc
    rcases imagStr_chars z c hc with rfl | rfl | hd
    · decide
    · decide
    · exact (digit_props hd).2.1
  noplus := by
    intro hh
    have hmem : '+' ∈ imagStr z := by
      cases hs : imagStr z with
      | nil => rw [hs] at hh; simp at hh
      | cons c r => rw [hs] at hh; simp at hh; rw [hh]; simp
    rcases imagStr_chars z '+' hmem with h1 | h1 | h1
    · exact absurd h1 (by decide)
    · exact absurd h1 (by decide)
    · exact absurd h1 (by decide)
  nocolon := by
    intro c hc
    rcases imagStr_chars z c hc with rfl | rfl | hd
    · decide
    · decide
    · exact (digit_props hd).2.2.1
  parses := by
    obtain ⟨c, r, hn, hc⟩ := natStr_head_ne_minus z.natAbs
    have hj : ∀ s : Str, (s ++ ['j']).contains 'j' = true := by
      intro s; simp
    by_cases hneg : z < 0
    · have hs : imagStr z = '-' :: (natStr z.natAbs ++ ['j']) := by
        simp [imagStr, intStr, hneg]
      have hne1 : natStr z.natAbs ++ ['j'] ≠ [] := by simp
      have hcont : ('-' :: (natStr z.natAbs ++ ['j'])).contains 'j' = true := by simp
      rw [hs]
      unfold parseClean coefRequestClean
      simp only [List.cons_ne_nil, if_false, List.cons.injEq, true_and, hne1, hcont, if_true, h, Option.map_some]
      congr 1
      have hz : ((z.natAbs : Int)) = -z := by omega
      show (⟨-0, -(((z.natAbs : Int)) : Rat)⟩ : GQ) = ⟨0, (z : Rat)⟩
      rw [hz]
      simp
    · have hs : imagStr z = c :: (r ++ ['j']) := by
        simp [imagStr, intStr, hneg, hn]
      have hcont : (c :: (r ++ ['j'])).contains 'j' = true := by simp
      have hlook : lookup nt.pyComplex (c :: (r ++ ['j'])) = some (imagGQ z.natAbs) := by
        rw [← List.cons_append, ← hn]; exact h
      have hmin : (c :: (r ++ ['j'])) ≠ ['-'] := by
        intro hh; simp at hh
      rw [hs]
      unfold parseClean coefRequestClean
      simp only [List.cons_ne_nil, if_false, hmin, hcont, if_true]
      have hfin : Option.map (fun v => if false = true then -v else v) (lookup nt.pyComplex (c :: (r ++ ['j']))) =
          some (imagGQ z) := by
        rw [hlook]
        simp only [Option.map_some, Bool.false_eq_true, if_false]
        congr 1
        have hz : ((z.natAbs : Int)) = z := by omega
        show (⟨0, (((z.natAbs : Int)) : Rat)⟩ : GQ) = ⟨0, (z : Rat)⟩
        rw [hz]
      split
      · next heq =>
        split at heq
        · next r' heq2 => simp only [List.cons.injEq] at heq2; exact absurd heq2.1 hc
        · cases heq
      · next neg txt heq =>
        split at heq
        · next r' heq2 => simp only [List.cons.injEq] at heq2; exact absurd heq2.1 hc
        · cases heq; exact hfin
      · next b txt heq =>
        split at heq
        · next r' heq2 => simp only [List.cons.injEq] at heq2; exact absurd heq2.1 hc
        · cases heq

end OFV.C20
