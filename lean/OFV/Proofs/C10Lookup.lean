/- C10: the determinant lookup of `_build_term_op_` (argsort + searchsorted + equality test)
finds exactly the position of an encoded determinant in the basis, when it is there. -/
import OFV.Proofs.C10Spin

namespace OFV.C10
open OFV.Model OFV.Model.C10 OFV.Spec OFV.Spec.C10

def keyOf (keys : List Nat) (i : Nat) : Nat := keys.getD i 0

theorem mem_insertByKey (keys : List Nat) (i x : Nat) (l : List Nat) :
    x ∈ insertByKey keys i l ↔ x = i ∨ x ∈ l := by
  induction l with
  | nil => simp [insertByKey]
  | cons j r ih =>
    unfold insertByKey
    split
    · simp
    · simp [ih]; constructor <;> (intro h; rcases h with h | h | h <;> simp [h])

theorem sorted_insertByKey (keys : List Nat) (i : Nat) (l : List Nat)
    (h : l.Pairwise (fun a b => keyOf keys a ≤ keyOf keys b)) :
    (insertByKey keys i l).Pairwise (fun a b => keyOf keys a ≤ keyOf keys b) := by
  induction l with
  | nil => simp [insertByKey]
  | cons j r ih =>
    rw [List.pairwise_cons] at h
    unfold insertByKey
    split
    · next hlt =>
      rw [List.pairwise_cons]
      refine ⟨?_, List.pairwise_cons.mpr h⟩
      intro x hx
      rcases List.mem_cons.mp hx with rfl | hx
      · exact Nat.le_of_lt hlt
      · exact Nat.le_trans (Nat.le_of_lt hlt) (h.1 x hx)
    · next hge =>
      rw [List.pairwise_cons]
      refine ⟨?_, ih h.2⟩
      intro x hx
      rcases (mem_insertByKey keys i x r).mp hx with rfl | hx
      · exact Nat.le_of_not_lt hge
      · exact h.1 x hx

theorem sortIdx_spec (keys : List Nat) (l : List Nat) :
    (l.foldr (insertByKey keys) []).Pairwise (fun a b => keyOf keys a ≤ keyOf keys b) ∧
      ∀ x, x ∈ l.foldr (insertByKey keys) [] ↔ x ∈ l := by
  induction l with
  | nil => simp
  | cons i r ih =>
    refine ⟨sorted_insertByKey keys i _ ih.1, ?_⟩
    intro x
    rw [List.foldr_cons, mem_insertByKey, ih.2]
    simp

theorem argsort_spec (keys : List Nat) :
    (argsort keys).Pairwise (fun a b => keyOf keys a ≤ keyOf keys b) ∧
      ∀ x, x ∈ argsort keys ↔ x < keys.length := by
  obtain ⟨h1, h2⟩ := sortIdx_spec keys (List.range keys.length)
  exact ⟨h1, fun x => by rw [argsort, h2]; exact List.mem_range⟩

/-- in a list sorted by key, the elements with key `< v` form a prefix -/
theorem sorted_split (key : Nat → Nat) (v : Nat) (l : List Nat) (h : l.Pairwise (fun a b => key a ≤ key b)) :
    l = l.filter (fun i => key i < v) ++ l.filter (fun i => !(decide (key i < v))) := by
  induction l with
  | nil => rfl
  | cons a r ih =>
    rw [List.pairwise_cons] at h
    by_cases ha : key a < v
    · simp only [List.filter_cons, ha, decide_true, if_true, Bool.not_true, Bool.false_eq_true, if_false,
        List.cons_append]
      congr 1
      exact ih h.2
    · have hall : ∀ x ∈ r, ¬ key x < v := fun x hx => by have := h.1 x hx; omega
      have h1 : r.filter (fun i => decide (key i < v)) = [] := by
        apply List.filter_eq_nil_iff.mpr; intro x hx; simpa using hall x hx
      have h2 : r.filter (fun i => !(decide (key i < v))) = r := by
        apply List.filter_eq_self.mpr; intro x hx; simpa using hall x hx
      simp [List.filter_cons, ha, h1, h2]

/-- position of an index in a duplicate-free key list is determined by its key -/
theorem index_of_key (keys : List Nat) (hk : keys.Nodup) (a b : Nat) (ha : a < keys.length) (hb : b < keys.length)
    (h : keyOf keys a = keyOf keys b) : a = b := by
  unfold keyOf at h
  rw [List.getD_eq_getElem?_getD, List.getD_eq_getElem?_getD, List.getElem?_eq_getElem ha,
    List.getElem?_eq_getElem hb] at h
  simp only [Option.getD_some] at h
  have hp := List.pairwise_iff_getElem.mp hk
  rcases Nat.lt_trichotomy a b with hlt | heq | hgt
  · exact absurd h (hp a b ha hb hlt)
  · exact heq
  · exact absurd h.symm (hp b a hb ha hgt)

theorem length_insertByKey (keys : List Nat) (i : Nat) (l : List Nat) :
    (insertByKey keys i l).length = l.length + 1 := by
  induction l with
  | nil => rfl
  | cons j r ih => unfold insertByKey; split <;> simp [ih]

theorem length_argsort (keys : List Nat) : (argsort keys).length = keys.length := by
  unfold argsort
  have : ∀ l : List Nat, (l.foldr (insertByKey keys) []).length = l.length := by
    intro l
    induction l with
    | nil => rfl
    | cons i r ih => rw [List.foldr_cons, length_insertByKey, ih]; rfl
  rw [this]; simp

/-- **the lookup of `_build_term_op_`**: with duplicate-free encodings `keys`, the test
`pos < size and keys[sorter[pos]] == v` (with `pos = searchsorted(keys, v, sorter)`,
`sorter = argsort(keys)`) succeeds exactly when `v` is one of the encodings, and then
`sorter[pos]` is the position of `v` in `keys` -/
theorem lookup_sound' (keys : List Nat) (hk : keys.Nodup) (v : Nat) :
    ((searchsorted keys v (argsort keys) < keys.length ∧
        keys.getD ((argsort keys).getD (searchsorted keys v (argsort keys)) 0) 0 = v) ↔ v ∈ keys) ∧
      ∀ t, t < keys.length → keys.getD t 0 = v →
        searchsorted keys v (argsort keys) < keys.length ∧
          (argsort keys).getD (searchsorted keys v (argsort keys)) 0 = t := by
  obtain ⟨hs, hm⟩ := argsort_spec keys
  have hsplit := sorted_split (keyOf keys) v (argsort keys) hs
  have hlen := length_argsort keys
  have hpos : searchsorted keys v (argsort keys) = ((argsort keys).filter fun i => keyOf keys i < v).length := rfl
  generalize hp : searchsorted keys v (argsort keys) = pos at hpos ⊢
  have key2 : ∀ t, t < keys.length → keys.getD t 0 = v → pos < keys.length ∧ (argsort keys).getD pos 0 = t := by
    intro t ht hv
    have htm : t ∈ argsort keys := (hm t).mpr ht
    have hkeyt : keyOf keys t = v := hv
    have htr : t ∈ (argsort keys).filter (fun i => !(decide (keyOf keys i < v))) := by
      apply List.mem_filter.mpr
      exact ⟨htm, by simp [hkeyt]⟩
    cases hr : (argsort keys).filter (fun i => !(decide (keyOf keys i < v))) with
    | nil => rw [hr] at htr; cases htr
    | cons h0 rest =>
      have hget : (argsort keys)[pos]? = some h0 := by
        rw [hsplit, hr, List.getElem?_append_right (Nat.le_of_eq hpos.symm), hpos]
        simp
      have hh0mem : h0 ∈ argsort keys := List.mem_of_getElem? hget
      have hh0lt : h0 < keys.length := (hm h0).mp hh0mem
      have hh0ge : ¬ keyOf keys h0 < v := by
        have : h0 ∈ (argsort keys).filter (fun i => !(decide (keyOf keys i < v))) := by rw [hr]; simp
        simpa using (List.mem_filter.mp this).2
      have hle : keyOf keys h0 ≤ keyOf keys t := by
        rw [hr] at htr
        rcases List.mem_cons.mp htr with rfl | hin
        · exact Nat.le_refl _
        · have hsub : (h0 :: rest).Pairwise (fun a b => keyOf keys a ≤ keyOf keys b) := by
            rw [← hr]; exact hs.sublist List.filter_sublist
          exact (List.pairwise_cons.mp hsub).1 t hin
      have heq : keyOf keys h0 = keyOf keys t := by omega
      have hidx := index_of_key keys hk h0 t hh0lt ht heq
      have hposlt : pos < (argsort keys).length := (List.getElem?_eq_some_iff.mp hget).1
      refine ⟨by rw [← hlen]; exact hposlt, ?_⟩
      rw [List.getD_eq_getElem?_getD, hget, Option.getD_some, hidx]
  refine ⟨?_, key2⟩
  constructor
  · rintro ⟨hlt, hv⟩
    have hposlt : pos < (argsort keys).length := by rw [hlen]; exact hlt
    have hmem : (argsort keys).getD pos 0 ∈ argsort keys := by
      rw [List.getD_eq_getElem?_getD, List.getElem?_eq_getElem hposlt, Option.getD_some]
      exact List.getElem_mem hposlt
    have htl := (hm _).mp hmem
    rw [← hv, List.getD_eq_getElem?_getD, List.getElem?_eq_getElem htl, Option.getD_some]
    exact List.getElem_mem htl
  · intro hv
    obtain ⟨t, ht, hvt⟩ := List.getElem_of_mem hv
    have := key2 t ht (by rw [List.getD_eq_getElem?_getD, List.getElem?_eq_getElem ht, Option.getD_some]; exact hvt)
    refine ⟨this.1, ?_⟩
    rw [this.2, List.getD_eq_getElem?_getD, List.getElem?_eq_getElem ht, Option.getD_some]; exact hvt

/-! ### the integer encoding of a determinant -/

theorem encodeDet_eq (d : Det) :
    encodeDet d = (((List.range d.length).filter fun i => d.getD i false).map fun i => 2 ^ (d.length - 1 - i)).sum := by
  unfold encodeDet
  generalize d.length - 1 = m
  induction (List.range d.length) with
  | nil => rfl
  | cons i r ih =>
    simp only [List.map_cons, List.sum_cons, List.filter_cons]
    by_cases h : d.getD i false = true
    · simp [-List.getD_eq_getElem?_getD, h, ih]
    · have : d.getD i false = false := by simpa [-List.getD_eq_getElem?_getD] using h
      simp [-List.getD_eq_getElem?_getD, this, ih]

/-- determinants of the same length with the same encoding are equal -/
theorem encodeDet_inj (a b : Det) (hl : a.length = b.length) (h : encodeDet a = encodeDet b) : a = b := by
  rw [encodeDet_eq, encodeDet_eq, hl] at h
  have hc : ∀ d : Det, d.length = b.length →
      (((List.range b.length).filter fun i => d.getD i false).map fun i => 2 ^ (b.length - 1 - i)).sum
        = configIndex ((List.range b.length).filter fun i => d.getD i false) b.length := by
    intro d _; rfl
  rw [hc a hl, hc b rfl] at h
  apply det_ext a b hl
  intro i hi
  have hi' : i < b.length := by rw [← hl]; exact hi
  have ba := (configIndex_bits ((List.range b.length).filter fun i => a.getD i false) b.length
    (List.filter_sublist.nodup List.nodup_range) (fun k hk => List.mem_range.mp (List.mem_filter.mp hk).1)).2 i hi'
  have bb := (configIndex_bits ((List.range b.length).filter fun i => b.getD i false) b.length
    (List.filter_sublist.nodup List.nodup_range) (fun k hk => List.mem_range.mp (List.mem_filter.mp hk).1)).2 i hi'
  rw [h] at ba
  rw [ba] at bb
  have hiff := decide_eq_decide.mp bb
  have ma : i ∈ (List.range b.length).filter (fun i => a.getD i false) ↔ a.getD i false = true := by
    rw [List.mem_filter, List.mem_range]; exact ⟨fun h => h.2, fun h => ⟨hi', h⟩⟩
  have mb : i ∈ (List.range b.length).filter (fun i => b.getD i false) ↔ b.getD i false = true := by
    rw [List.mem_filter, List.mem_range]; exact ⟨fun h => h.2, fun h => ⟨hi', h⟩⟩
  rw [ma, mb] at hiff
  cases ha : a.getD i false <;> cases hb : b.getD i false
  · rfl
  · rw [ha, hb] at hiff; exact absurd (hiff.mpr rfl) (by simp)
  · rw [ha, hb] at hiff; exact absurd (hiff.mp rfl) (by simp)
  · rfl

end OFV.C10
