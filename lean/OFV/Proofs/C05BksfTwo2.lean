/-
Bravyi-Kitaev superfast: `_two_body` with two and three distinct indices.
-/
import OFV.Proofs.C05BksfTwo

set_option linter.unusedSimpArgs false
set_option linter.unusedVariables false
set_option linter.unnecessarySeqFocus false
set_option linter.unusedTactic false

namespace OFV
namespace BK
open Model Model.C05 Model.Bksf Spec Sem

/-- `1 - B_i` is diagonal with eigenvalue `1 - σ_i` (`2` when vertex `i` is occupied, `0` otherwise) -/
theorem diag_one_sub_B (tol : Rat) (htol : tol * tol ≤ 1 / 4) (E : Edges) (hE : NoLoops E) (i : Nat)
    (hok : numberTermOk tol E i = true) :
    DiagOp (subOp tol Model.Bksf.one (edgeB tol E i)) (fun m => 1 - sgb (occV E i m)) := by
  intro m z
  unfold subOp
  rw [Jel.den_isub tol _ _ _ _ hok, den_one, den_edgeB tol htol E hE]
  have e := sgB_eq E i m
  unfold sgB at e
  rw [e]
  by_cases h : m = z <;> simp [h]

theorem valid_one : ValidOp Model.Bksf.one := by unfold Model.Bksf.one; exact mk_const_valid 1

theorem valid_one_sub_B (tol : Rat) (htol : tol * tol ≤ 1 / 4) (E : Edges) (i : Nat) :
    ValidOp (subOp tol Model.Bksf.one (edgeB tol E i)) := by
  unfold subOp; exact isub_valid' tol valid_one (edgeB_valid tol htol E i)

theorem quarter_occ (a b : Bool) :
    (quarterQ : GQ) * ((1 - sgb b) * (1 - sgb a)) = if a && b then 1 else 0 := by
  cases a <;> cases b <;> simp [sgb, quarterQ] <;> (apply GQ.ext <;> simp <;> norm_num [Rat.mkRat_eq_div])

/-- **`_two_body`, two distinct indices**: `± n_p n_q` — diagonal, `+1` (for `p = s`) resp. `-1` exactly on the basis
states where both vertices are occupied -/
theorem twoBody2_sound (tol : Rat) (htol : tol * tol ≤ 1 / 4) (E : Edges) (hE : NoLoops E) (p q r s : Nat)
    (hnd : Model.Bksf.nDistinct4 p q r s = 2) (t : Model.Op) (ht : twoBody tol E p q r s = some t)
    (hok : twoBody2Ok tol E p q s = true) (m x : Nat) :
    den .qubit t [m] [x]
      = if m = x then (if p = s then 1 else -1) * (if occV E p m && occV E q m then 1 else 0) else 0 := by
  have h4 : (Model.Bksf.nDistinct4 p q r s == 4) = false := by simp [hnd]
  have h3 : (Model.Bksf.nDistinct4 p q r s == 3) = false := by simp [hnd]
  have h2 : (Model.Bksf.nDistinct4 p q r s == 2) = true := by simp [hnd]
  unfold twoBody2Ok at hok
  simp only [Bool.and_eq_true] at hok
  obtain ⟨⟨kp, kq⟩, kf⟩ := hok
  have dp := diag_one_sub_B tol htol E hE p kp
  have dq := diag_one_sub_B tol htol E hE q kq
  have vp := valid_one_sub_B tol htol E p
  have vq := valid_one_sub_B tol htol E q
  unfold twoBody at ht
  simp only [h4, h3, h2, Bool.false_eq_true, if_false, if_true] at ht
  unfold twoBody2Pre at kf
  by_cases hps : p = s
  · have hb : (p == s) = true := by simp [hps]
    simp only [hb, if_true, Option.some.injEq] at ht kf
    subst ht
    rw [Sem.den_iadd .qubit tol _ _ _ _ kf, den_nil, zero_add, Sem.den_smul,
      den_mulOp_diag_right _ _ vp vq _ dq, dp m x]
    by_cases hmx : m = x
    · simp only [hmx, if_true]
      rw [if_pos hps, quarter_occ]; simp
    · simp [hmx]
  · have hb : (p == s) = false := by simp [hps]
    simp only [hb, Bool.false_eq_true, if_false, Option.some.injEq] at ht kf
    subst ht
    rw [Sem.den_iadd .qubit tol _ _ _ _ kf, den_nil, zero_add, Sem.den_smul,
      den_mulOp_diag_right _ _ (smul_valid _ vp) vq _ dq, Sem.den_smul, dp m x]
    by_cases hmx : m = x
    · simp only [hmx, if_true]
      rw [if_neg hps]
      have := quarter_occ (occV E p x) (occV E q x)
      calc quarterQ * ((1 - sgb (occV E q x)) * (-1 * (1 - sgb (occV E p x))))
          = -(quarterQ * ((1 - sgb (occV E q x)) * (1 - sgb (occV E p x)))) := by ring
        _ = _ := by rw [this]; ring
    · simp [hmx]

theorem half_occ (b : Bool) : (quarterQ : GQ) * (1 - sgb b) = if b then halfQ else 0 := by
  cases b <;> simp [sgb, quarterQ, halfQ] <;> (apply GQ.ext <;> simp <;> norm_num [Rat.mkRat_eq_div])

/-- **`_two_body`, three distinct indices**: the number-excitation `n_z (a†_x a_y + h.c.)` in edge-operator form:
`phase/2 · (A_xy B_y + B_x A_xy)` on basis states where the spectator vertex `z` is occupied, `0` on the others;
`(x, y, z, phase) = threeIdx p q r s` is the selection made by the code -/
theorem twoBody3_sound (tol : Rat) (htol : tol * tol ≤ 1 / 4) (E : Edges) (hE : NoLoops E) (p q r s : Nat)
    (hnd : Model.Bksf.nDistinct4 p q r s = 3) (hsel : p = r ∨ p = s ∨ q = r ∨ q = s) (A t : Model.Op)
    (hA : edgeA tol E (threeIdx p q r s).1 (threeIdx p q r s).2.1 = some A)
    (ht : twoBody tol E p q r s = some t) (hok : twoBody3Ok tol E p q r s = true) (m x : Nat) :
    den .qubit t [m] [x]
      = (if occV E (threeIdx p q r s).2.2.1 m then halfQ else 0) * (threeIdx p q r s).2.2.2
        * (den .qubit (mulOp .qubit A (edgeB tol E (threeIdx p q r s).2.1)) [m] [x]
          + den .qubit (mulOp .qubit (edgeB tol E (threeIdx p q r s).1) A) [m] [x]) := by
  have h4 : (Model.Bksf.nDistinct4 p q r s == 4) = false := by simp [hnd]
  have h3 : (Model.Bksf.nDistinct4 p q r s == 3) = true := by simp [hnd]
  -- the code's branch is `build x y z ph` with `(x, y, z, ph) = threeIdx p q r s`
  have key : twoBody tol E p q r s
      = (match hopPart tol E (threeIdx p q r s).1 (threeIdx p q r s).2.1 with
          | none => none
          | some h => some (iadd tol [] (smul quarterQ (mulOp .qubit (smul (threeIdx p q r s).2.2.2 h)
              (subOp tol Model.Bksf.one (edgeB tol E (threeIdx p q r s).2.2.1)))))) := by
    unfold twoBody threeIdx
    simp only [h4, h3, Bool.false_eq_true, if_false, if_true]
    by_cases c1 : p = r
    · subst c1; simp
      all_goals (first | rfl | (split <;> rfl))
    · by_cases c2 : p = s
      · subst c2; simp [c1]
        all_goals (first | rfl | (split <;> rfl))
      · by_cases c3 : q = r
        · subst c3; simp [c1, c2]
          all_goals (first | rfl | (split <;> rfl))
        · have c4 : q = s := by
            rcases hsel with h | h | h | h
            · exact absurd h c1
            · exact absurd h c2
            · exact absurd h c3
            · exact h
          subst c4; simp [c1, c2, c3]
          all_goals (first | rfl | (split <;> rfl))
  rw [key] at ht
  unfold twoBody3Ok at hok
  unfold hopPart at ht
  simp only [hA, Option.some.injEq, Bool.and_eq_true] at ht hok
  obtain ⟨⟨k1, kz⟩, kf⟩ := hok
  subst ht
  have vA := edgeA_valid tol htol E _ _ A hA
  have vB := edgeB_valid tol htol E
  have vh : ValidOp (addOp tol (mulOp .qubit A (edgeB tol E (threeIdx p q r s).2.1))
      (mulOp .qubit (edgeB tol E (threeIdx p q r s).1) A)) := by
    unfold addOp; exact iadd_valid tol (mulOp_valid vA (vB _)) (mulOp_valid (vB _) vA)
  rw [Sem.den_iadd .qubit tol _ _ _ _ kf, den_nil, zero_add, Sem.den_smul,
    den_mulOp_diag_right _ _ (smul_valid _ vh) (valid_one_sub_B tol htol E _) _
      (diag_one_sub_B tol htol E hE _ kz), Sem.den_smul]
  unfold addOp
  rw [Sem.den_iadd .qubit tol _ _ _ _ k1, ← mul_assoc, half_occ]
  ring

end BK
end OFV
