/-
`jordan_wigner(InteractionOperator)`, part 2: the tensor formula regrouped into the loops of the code.
-/
import OFV.Proofs.C04Iop

namespace OFV
namespace Sem
open Spec Model Model.C04

theorem combs2_rel {α : Type} (R : α → α → Prop) (l : List α) (hl : l.Pairwise R) (a b : α)
    (h : (a, b) ∈ combs2 l) : R a b := by
  induction l with
  | nil => simp [combs2] at h
  | cons x r ih =>
    rw [List.pairwise_cons] at hl
    simp only [combs2, List.mem_append, List.mem_map] at h
    rcases h with ⟨y, hy, he⟩ | h
    · simp only [Prod.mk.injEq] at he
      obtain ⟨rfl, rfl⟩ := he
      exact hl.1 y hy
    · exact ih hl.2 h

/-- lexicographic order on pairs: `combinations(range(n), 2)` is strictly increasing -/
def pairLt (a b : Nat × Nat) : Prop := a.1 < b.1 ∨ (a.1 = b.1 ∧ a.2 < b.2)

theorem combs2_range_sorted (n : Nat) : (combs2 (List.range n)).Pairwise pairLt := by
  have key : ∀ (l : List Nat), l.Pairwise (· < ·) → (combs2 l).Pairwise pairLt := by
    intro l
    induction l with
    | nil => intro _; simp [combs2]
    | cons x r ih =>
      intro hl
      rw [List.pairwise_cons] at hl
      simp only [combs2]
      rw [List.pairwise_append]
      refine ⟨?_, ih hl.2, ?_⟩
      · rw [List.pairwise_map]
        exact hl.2.imp (fun h => Or.inr ⟨rfl, h⟩)
      · intro a ha b hb
        simp only [List.mem_map] at ha
        obtain ⟨y, hy, rfl⟩ := ha
        obtain ⟨b1, b2⟩ := b
        have := (mem_combs2 r b1 b2 hb).1
        left
        exact hl.1 b1 this
  exact key _ List.pairwise_lt_range

theorem pairs_distinct (n : Nat) (a b : Nat × Nat) (h : (a, b) ∈ combs2 (pairs n)) : a ≠ b := by
  have := combs2_rel pairLt (pairs n) (combs2_range_sorted n) a b h
  intro he
  subst he
  rcases this with h | ⟨_, h⟩ <;> omega

theorem pairs_lt (n p q : Nat) (h : (p, q) ∈ pairs n) : p < q ∧ q < n := combs2_range_lt n p q h

theorem den_flatMap (alg : Alg) {α : Type} (l : List α) (f : α → Op) (s x : St) :
    den alg (l.flatMap f) s x = (l.map fun a => den alg (f a) s x).sum := by
  induction l with
  | nil => simp [den_nil]
  | cons a l ih => rw [List.flatMap_cons, den_append, ih]; simp

theorem den_map_terms (alg : Alg) {α : Type} (l : List α) (t : α → List (Nat × Nat)) (c : α → GQ) (s x : St) :
    den alg (l.map fun a => (t a, c a)) s x = (l.map fun a => c a * termCoef alg (t a) s x).sum := by
  rw [den_eq_sum, List.map_map]; rfl

theorem tC_fermion_nil (m x : Nat) : termCoef .fermion [] [m] [x] = if m = x then 1 else 0 := by
  rw [termCoef_fermion]; simp [actFTerm, GQ.sgn]

/-- the tensor formula, as plain sums -/
theorem den_interactionOp (n : Nat) (const : GQ) (one two : List GQ) (m x : Nat) :
    den .fermion (Spec.C04.interactionOp n const one two) [m] [x]
      = const * (if m = x then 1 else 0)
        + ((List.range n).map fun p => ((List.range n).map fun q =>
            get1 n one p q * termCoef .fermion [(p, 1), (q, 0)] [m] [x]).sum).sum
        + ((List.range n).map fun p => ((List.range n).map fun q => ((List.range n).map fun r =>
            ((List.range n).map fun s =>
              get2 n two p q r s * termCoef .fermion [(p, 1), (q, 1), (r, 0), (s, 0)] [m] [x]).sum).sum).sum).sum := by
  unfold Spec.C04.interactionOp
  simp only [den_append, den_cons, den_nil, add_zero, tC_fermion_nil, den_flatMap]
  congr 1
  · congr 1
    congr 1
    apply List.map_congr_left
    intro p _
    rw [den_map_terms]; rfl
  · congr 1
    apply List.map_congr_left
    intro p _
    congr 1
    apply List.map_congr_left
    intro q _
    congr 1
    apply List.map_congr_left
    intro r _
    rw [den_map_terms]; rfl

end Sem
end OFV

namespace OFV
namespace Sem
open Spec Model Model.C04

theorem half_mul_two (c : GQ) : C04.half * (c + c) = c := by
  apply GQ.ext <;> simp [C04.half] <;> norm_num [Rat.mkRat_eq_div] <;> ring

theorem den_oneBodyOp_diag (p : Nat) (c : GQ) (m x : Nat) :
    den .fermion (Spec.C04.oneBodyOp p p c) [m] [x] = c * termCoef .fermion [(p, 1), (p, 0)] [m] [x] := by
  simp [Spec.C04.oneBodyOp, den_cons, den_nil]

theorem den_oneBodyOp_off (p q : Nat) (c : GQ) (m x : Nat) (h : p ≠ q) :
    den .fermion (Spec.C04.oneBodyOp p q c) [m] [x]
      = c * termCoef .fermion [(p, 1), (q, 0)] [m] [x] + c.conj * termCoef .fermion [(q, 1), (p, 0)] [m] [x] := by
  simp [Spec.C04.oneBodyOp, h, den_cons, den_nil]

/-- the one-body part of the tensor formula, regrouped as the code loops over it -/
theorem oneBody_regroup (n : Nat) (one : List GQ) (m x : Nat)
    (h1 : ∀ p q, p < n → q < n → get1 n one q p = (get1 n one p q).conj) :
    ((List.range n).map fun p => ((List.range n).map fun q =>
        get1 n one p q * termCoef .fermion [(p, 1), (q, 0)] [m] [x]).sum).sum
      = ((List.range n).map fun p => den .fermion (Spec.C04.oneBodyOp p p (get1 n one p p)) [m] [x]).sum
        + ((pairs n).map fun pq =>
            den .fermion (Spec.C04.oneBodyOp pq.1 pq.2 (iopC1 n one pq.1 pq.2)) [m] [x]).sum := by
  rw [sum_pairs_split (List.range n) (fun p q => get1 n one p q * termCoef .fermion [(p, 1), (q, 0)] [m] [x])]
  congr 1
  · congr 1
    apply List.map_congr_left
    intro p _
    rw [den_oneBodyOp_diag]
  · unfold pairs
    congr 1
    apply List.map_congr_left
    intro pq hpq
    obtain ⟨p, q⟩ := pq
    obtain ⟨hlt, hqn⟩ := combs2_range_lt n p q hpq
    have hq := h1 p q (by omega) hqn
    rw [den_oneBodyOp_off p q _ m x (by omega)]
    have hc : iopC1 n one p q = get1 n one p q := by
      unfold iopC1; rw [hq, conj_conj, half_mul_two]
    simp only [hc, hq]

end Sem
end OFV

namespace OFV
namespace Sem
open Spec Model Model.C04

/-- antisymmetrised two-body coefficient -/
def Kc (n : Nat) (two : List GQ) (p q r s : Nat) : GQ :=
  get2 n two p q r s - get2 n two q p r s - get2 n two p q s r + get2 n two q p s r

theorem conj_add (a b : GQ) : (a + b).conj = a.conj + b.conj := by apply GQ.ext <;> simp [GQ.conj]; ring
theorem conj_sub (a b : GQ) : (a - b).conj = a.conj - b.conj := by apply GQ.ext <;> simp [GQ.conj]; ring

/-- the four index orders of an unordered pair of pairs collapse onto one term -/
theorem four_orders (n : Nat) (two : List GQ) (p q r s m x : Nat) (hpq : p ≠ q) (hrs : r ≠ s) :
    get2 n two p q r s * termCoef .fermion [(p, 1), (q, 1), (r, 0), (s, 0)] [m] [x]
    + get2 n two q p r s * termCoef .fermion [(q, 1), (p, 1), (r, 0), (s, 0)] [m] [x]
    + (get2 n two p q s r * termCoef .fermion [(p, 1), (q, 1), (s, 0), (r, 0)] [m] [x]
      + get2 n two q p s r * termCoef .fermion [(q, 1), (p, 1), (s, 0), (r, 0)] [m] [x])
    = Kc n two p q r s * termCoef .fermion [(p, 1), (q, 1), (r, 0), (s, 0)] [m] [x] := by
  rw [tC_swap12 q p (r, 0) (s, 0) m x (Ne.symm hpq), tC_swap34 (p, 1) (q, 1) s r m x (Ne.symm hrs),
    tC_swap12 q p (s, 0) (r, 0) m x (Ne.symm hpq), tC_swap34 (p, 1) (q, 1) s r m x (Ne.symm hrs)]
  unfold Kc; ring

/-- the two-body part of the tensor formula as a double sum over unordered pairs -/
theorem twoBody_pairs (n : Nat) (two : List GQ) (m x : Nat) :
    ((List.range n).map fun p => ((List.range n).map fun q => ((List.range n).map fun r =>
        ((List.range n).map fun s =>
          get2 n two p q r s * termCoef .fermion [(p, 1), (q, 1), (r, 0), (s, 0)] [m] [x]).sum).sum).sum).sum
      = ((pairs n).map fun a => ((pairs n).map fun b =>
          Kc n two a.1 a.2 b.1 b.2 * termCoef .fermion [(a.1, 1), (a.2, 1), (b.1, 0), (b.2, 0)] [m] [x]).sum).sum := by
  rw [sum_pairs_split (List.range n) (fun p q => ((List.range n).map fun r => ((List.range n).map fun s =>
      get2 n two p q r s * termCoef .fermion [(p, 1), (q, 1), (r, 0), (s, 0)] [m] [x]).sum).sum)]
  have hz : ((List.range n).map fun p => ((List.range n).map fun r => ((List.range n).map fun s =>
      get2 n two p p r s * termCoef .fermion [(p, 1), (p, 1), (r, 0), (s, 0)] [m] [x]).sum).sum).sum = 0 := by
    apply sum_zero_map; intro p _
    apply sum_zero_map; intro r _
    apply sum_zero_map; intro s _
    rw [tC_four_zero_create]; ring
  rw [hz, zero_add]
  unfold pairs
  congr 1
  apply List.map_congr_left
  intro pq hpq
  obtain ⟨p, q⟩ := pq
  obtain ⟨hlt, _⟩ := combs2_range_lt n p q hpq
  simp only
  rw [← sum_add_map]
  have e : ((List.range n).map fun r => ((List.range n).map fun s =>
        get2 n two p q r s * termCoef .fermion [(p, 1), (q, 1), (r, 0), (s, 0)] [m] [x]).sum
      + ((List.range n).map fun s =>
        get2 n two q p r s * termCoef .fermion [(q, 1), (p, 1), (r, 0), (s, 0)] [m] [x]).sum).sum
      = ((List.range n).map fun r => ((List.range n).map fun s =>
        (get2 n two p q r s * termCoef .fermion [(p, 1), (q, 1), (r, 0), (s, 0)] [m] [x]
          + get2 n two q p r s * termCoef .fermion [(q, 1), (p, 1), (r, 0), (s, 0)] [m] [x])).sum).sum := by
    congr 1; apply List.map_congr_left; intro r _; rw [← sum_add_map]
  rw [e, sum_pairs_split (List.range n) (fun r s =>
      get2 n two p q r s * termCoef .fermion [(p, 1), (q, 1), (r, 0), (s, 0)] [m] [x]
        + get2 n two q p r s * termCoef .fermion [(q, 1), (p, 1), (r, 0), (s, 0)] [m] [x])]
  have hz2 : ((List.range n).map fun r =>
      get2 n two p q r r * termCoef .fermion [(p, 1), (q, 1), (r, 0), (r, 0)] [m] [x]
        + get2 n two q p r r * termCoef .fermion [(q, 1), (p, 1), (r, 0), (r, 0)] [m] [x]).sum = 0 := by
    apply sum_zero_map; intro r _
    rw [tC_four_zero_ann, tC_four_zero_ann]; ring
  rw [hz2, zero_add]
  congr 1
  apply List.map_congr_left
  intro rs hrs
  obtain ⟨r, s⟩ := rs
  obtain ⟨hlt2, _⟩ := combs2_range_lt n r s hrs
  simp only
  exact four_orders n two p q r s m x (by omega) (by omega)

end Sem
end OFV

namespace OFV
namespace Sem
open Spec Model Model.C04

theorem conj_half_mul (c : GQ) : (C04.half * c).conj = C04.half * c.conj := by
  apply GQ.ext <;> simp [GQ.conj, C04.half]

/-- with a Hermitian tensor the symmetrised coefficient of the code is the antisymmetrised one -/
theorem iopC4_eq (n : Nat) (two : List GQ) (p q r s : Nat) (hp : p < n) (hq : q < n) (hr : r < n) (hs : s < n)
    (h2 : ∀ p q r s, p < n → q < n → r < n → s < n → get2 n two s r q p = (get2 n two p q r s).conj) :
    iopC4 n two p q r s = Kc n two p q r s ∧ (Kc n two p q r s).conj = Kc n two r s p q := by
  have a1 := h2 p q r s hp hq hr hs
  have a2 := h2 p q s r hp hq hs hr
  have a3 := h2 q p r s hq hp hr hs
  have a4 := h2 q p s r hq hp hs hr
  refine ⟨?_, ?_⟩
  · unfold iopC4 Kc
    rw [a1, a2, a3, a4]
    simp only [conj_conj]
    have := half_mul_two (get2 n two p q r s - get2 n two q p r s - get2 n two p q s r + get2 n two q p s r)
    rw [← this]; ring
  · unfold Kc
    rw [conj_add, conj_sub, conj_sub, ← a1, ← a2, ← a3, ← a4]; ring

theorem tC_double_swap (p q r s m x : Nat) (hpq : p ≠ q) (hrs : r ≠ s) :
    termCoef .fermion [(r, 1), (s, 1), (p, 0), (q, 0)] [m] [x]
      = termCoef .fermion [(s, 1), (r, 1), (q, 0), (p, 0)] [m] [x] := by
  rw [tC_swap12 r s (p, 0) (q, 0) m x hrs, tC_swap34 (s, 1) (r, 1) p q m x hpq]; ring

/-- the two-body part of the tensor formula, regrouped as the code loops over it -/
theorem twoBody_regroup (n : Nat) (two : List GQ) (m x : Nat)
    (h2 : ∀ p q r s, p < n → q < n → r < n → s < n → get2 n two s r q p = (get2 n two p q r s).conj) :
    ((List.range n).map fun p => ((List.range n).map fun q => ((List.range n).map fun r =>
        ((List.range n).map fun s =>
          get2 n two p q r s * termCoef .fermion [(p, 1), (q, 1), (r, 0), (s, 0)] [m] [x]).sum).sum).sum).sum
      = ((pairs n).map fun pq =>
          den .fermion (Spec.C04.twoBodyOp pq.1 pq.2 pq.1 pq.2 (iopC2 n two pq.1 pq.2)) [m] [x]).sum
        + ((combs2 (pairs n)).map fun ab =>
          den .fermion (Spec.C04.twoBodyOp ab.1.1 ab.1.2 ab.2.1 ab.2.2
            (iopC4 n two ab.1.1 ab.1.2 ab.2.1 ab.2.2)) [m] [x]).sum := by
  rw [twoBody_pairs, sum_pairs_split (pairs n) (fun a b =>
      Kc n two a.1 a.2 b.1 b.2 * termCoef .fermion [(a.1, 1), (a.2, 1), (b.1, 0), (b.2, 0)] [m] [x])]
  congr 1
  · congr 1
    apply List.map_congr_left
    intro pq _
    obtain ⟨p, q⟩ := pq
    simp only [Spec.C04.twoBodyOp, and_self, true_or, if_true, den_cons, den_nil, add_zero]
    congr 1
    unfold Kc iopC2; ring
  · congr 1
    apply List.map_congr_left
    intro ab hab
    obtain ⟨⟨p, q⟩, ⟨r, s⟩⟩ := ab
    have hne := pairs_distinct n (p, q) (r, s) hab
    obtain ⟨ha, hb⟩ := mem_combs2 (pairs n) (p, q) (r, s) hab
    obtain ⟨hpq, hqn⟩ := pairs_lt n p q ha
    obtain ⟨hrs, hsn⟩ := pairs_lt n r s hb
    simp only
    have hoff : ¬ ((p = r ∧ q = s) ∨ (p = s ∧ q = r)) := by
      rintro (⟨h1, h2'⟩ | ⟨h1, h2'⟩)
      · exact hne (by rw [h1, h2'])
      · omega
    obtain ⟨e1, e2⟩ := iopC4_eq n two p q r s (by omega) hqn (by omega) hsn h2
    rw [twoBodyOp_offdiag p q r s _ hoff m x, e1, e2, tC_double_swap p q r s m x (by omega) (by omega)]

end Sem
end OFV

namespace OFV
namespace Sem
open Spec Model Model.C04

theorem foldl_flatMap_two {α β : Type} (l : List α) (g1 g2 : α → β) (F : Op → β → Op) (init : Op) :
    (l.flatMap fun a => [g1 a, g2 a]).foldl F init = l.foldl (fun acc a => F (F acc (g1 a)) (g2 a)) init := by
  induction l generalizing init with
  | nil => rfl
  | cons a l ih => simp [List.flatMap_cons, ih]

theorem jwInteractionOp_eq_fold (tol : Rat) (n : Nat) (const : GQ) (one two : List GQ) :
    jwInteractionOp tol n const one two
      = (iopImgs tol n one two).foldl (fun acc img => iadd tol acc img) (mk .qubit [] const) := by
  unfold jwInteractionOp iopImgs
  simp only [List.foldl_append, List.foldl_map, foldl_flatMap_two]
  rfl

theorem den_fold_from (alg : Alg) (tol : Rat) (acc0 : Op) (imgs : List Op) (s x : St)
    (h : sumOkFrom tol acc0 imgs = true) :
    den alg (imgs.foldl (fun acc img => iadd tol acc img) acc0) s x
      = den alg acc0 s x + (imgs.map fun img => den alg img s x).sum :=
  (sumOk_fold alg tol imgs acc0 true s x h).2

/-- **`jordan_wigner(InteractionOperator)` is sound**: for every `n` and every Hermitian pair of tensors
(`one[q,p] = conj one[p,q]`, `two[s,r,q,p] = conj two[p,q,r,s]`, no other symmetry), on every exact run -/
theorem jwInteractionOp_sound (tol : Rat) (n : Nat) (const : GQ) (one two : List GQ)
    (h1 : ∀ p q, p < n → q < n → get1 n one q p = (get1 n one p q).conj)
    (h2 : ∀ p q r s, p < n → q < n → r < n → s < n → get2 n two s r q p = (get2 n two p q r s).conj)
    (hok : jwInteractionOpOk tol n const one two = true) (m x : Nat) :
    den .qubit (jwInteractionOp tol n const one two) [m] [x]
      = den .fermion (Spec.C04.interactionOp n const one two) [m] [x] := by
  simp only [jwInteractionOpOk, Bool.and_eq_true, List.all_eq_true] at hok
  obtain ⟨⟨⟨ok1, ok2⟩, ok3⟩, ok4⟩ := hok
  rw [jwInteractionOp_eq_fold, den_fold_from .qubit tol _ _ _ _ ok4, den_interactionOp,
    oneBody_regroup n one m x h1, twoBody_regroup n two m x h2]
  unfold iopImgs
  simp only [List.map_append, List.sum_append, List.map_map, sum_flatMap, List.map_cons, List.map_nil,
    List.sum_cons, List.sum_nil, add_zero]
  have e0 : den .qubit (mk .qubit [] const) [m] [x] = const * (if m = x then 1 else 0) := den_mk_const const m x
  have e1 : ((List.range n).map ((fun img => den .qubit img [m] [x]) ∘ fun p => jwOneBody tol p p (get1 n one p p))).sum
      = ((List.range n).map fun p => den .fermion (Spec.C04.oneBodyOp p p (get1 n one p p)) [m] [x]).sum := by
    congr 1; apply List.map_congr_left; intro p hp
    exact jwOneBody_sound tol p p _ (ok1 p hp) m x
  have e2 : ((pairs n).map fun pq => den .qubit (jwOneBody tol pq.1 pq.2 (iopC1 n one pq.1 pq.2)) [m] [x]
        + den .qubit (jwTwoBody tol pq.1 pq.2 pq.1 pq.2 (iopC2 n two pq.1 pq.2)) [m] [x]).sum
      = ((pairs n).map fun pq => den .fermion (Spec.C04.oneBodyOp pq.1 pq.2 (iopC1 n one pq.1 pq.2)) [m] [x]).sum
        + ((pairs n).map fun pq =>
            den .fermion (Spec.C04.twoBodyOp pq.1 pq.2 pq.1 pq.2 (iopC2 n two pq.1 pq.2)) [m] [x]).sum := by
    rw [← sum_add_map]
    congr 1; apply List.map_congr_left; intro pq hpq
    have := ok2 pq hpq
    rw [jwOneBody_sound tol _ _ _ this.1 m x, jwTwoBody_sound tol _ _ _ _ _ this.2 m x]
  have e3 : ((combs2 (pairs n)).map ((fun img => den .qubit img [m] [x]) ∘ fun x =>
        jwTwoBody tol x.1.1 x.1.2 x.2.1 x.2.2 (iopC4 n two x.1.1 x.1.2 x.2.1 x.2.2))).sum
      = ((combs2 (pairs n)).map fun ab => den .fermion (Spec.C04.twoBodyOp ab.1.1 ab.1.2 ab.2.1 ab.2.2
            (iopC4 n two ab.1.1 ab.1.2 ab.2.1 ab.2.2)) [m] [x]).sum := by
    congr 1; apply List.map_congr_left; intro ab hab
    exact jwTwoBody_sound tol _ _ _ _ _ (ok3 ab hab) m x
  rw [e0, e1, e2, e3]
  ring

end Sem
end OFV
