/- C11: the whole column sweep of `fermionic_gaussian_decomposition` (particle-hole swaps and double Givens rotations)
preserves the Gram matrix of the rows in the exact regime: `W W† = 1` (first canonical constraint) is an invariant. -/
import OFV.Proofs.C11Double

namespace OFV
namespace Model
namespace C11

/-- the column swap is the column "rotation" by the permutation matrix `[[0,1],[1,0]]` -/
def swapG : G2 := ⟨0, 1, 1, 0, false⟩

theorem swapG_colIsometry : swapG.ColIsometry := by
  refine ⟨rfl, rfl, ?_, ?_, ?_⟩ <;> (refine GQ.ext ?_ ?_ <;> simp [swapG])

theorem swapCols_eq_rotateCols (M : Mat) (i j : Nat) : swapCols M i j = rotateCols M swapG i j := by
  unfold swapCols rotateCols
  apply List.map_congr_left
  intro row _
  have e1 : swapG.g00 * row.getD i 0 + swapG.g01.conj * row.getD j 0 = row.getD j 0 := by
    refine GQ.ext ?_ ?_ <;> simp [swapG]
  have e2 : swapG.g10 * row.getD i 0 + swapG.g11.conj * row.getD j 0 = row.getD i 0 := by
    refine GQ.ext ?_ ?_ <;> simp [swapG]
  show _ = (row.set i (swapG.g00 * row.getD i 0 + swapG.g01.conj * row.getD j 0)).set j
    (swapG.g10 * row.getD i 0 + swapG.g11.conj * row.getD j 0)
  rw [e1, e2]

theorem swapCols_gram {M : Mat} {m n : Nat} (hM : Rect M m n) (a b : Nat) (hab : a ≠ b) (ha : a < n) (hb : b < n) :
    Rect (swapCols M a b) m n ∧ SameGram M (swapCols M a b) m n := by
  rw [swapCols_eq_rotateCols]
  exact ⟨rotateCols_rect hM _ _ _, fun i i' hi hi' => rotateCols_rowDot hM swapG_colIsometry a b hab ha hb i i' hi hi'⟩

/-- exact regime at one step of the inner loop -/
def GaussStepExact (tol : Rat) (M : Mat) (i j : Nat) : Prop :=
  (small tol (M.get i j).conj = true → (M.get i j).conj = 0) ∧
  (small tol (M.get i (j + 1)).conj = true → (M.get i (j + 1)).conj = 0) ∧
  RealExact tol (M.get i j).conj (M.get i (j + 1)).conj

/-- the exact regime along the run of `gaussLayerLoop` -/
def GaussLayerExact (tol : Rat) (n : Nat) : List (Nat × Nat) → Mat → Prop
  | [], _ => True
  | (i, j) :: ps, M =>
    GaussStepExact tol M i j ∧
    (∀ G, big tol (M.get i j).conj = true →
      givensElems tol (M.get i j).conj (M.get i (j + 1)).conj false = .ok G →
      GaussLayerExact tol n ps (doubleRotateCols M G n j (j + 1))) ∧
    (big tol (M.get i j).conj = false → GaussLayerExact tol n ps M)

theorem gaussLayerLoop_gram (tol : Rat) (htol : 0 < tol) (m n : Nat) :
    ∀ (ps : List (Nat × Nat)) (M : Mat) (ops : List GOp) (M' : Mat),
      gaussLayerLoop tol n ps M = .ok (ops, M') → GaussLayerExact tol n ps M → Rect M m (2 * n) →
      (∀ p ∈ ps, p.2 + 1 < n) → Rect M' m (2 * n) ∧ SameGram M M' m (2 * n) := by
  intro ps
  induction ps with
  | nil =>
    intro M ops M' h _ hR _
    simp [gaussLayerLoop] at h
    obtain ⟨_, h2⟩ := h
    subst h2
    exact ⟨hR, SameGram.refl _ _ _⟩
  | cons p ps ih =>
    intro M ops M' h hex hR hval
    obtain ⟨i, j⟩ := p
    obtain ⟨hstep, hexT, hexF⟩ := hex
    have hj : j + 1 < n := hval (i, j) List.mem_cons_self
    have hvalps : ∀ p ∈ ps, p.2 + 1 < n := fun p hp => hval p (List.mem_cons_of_mem _ hp)
    unfold gaussLayerLoop at h
    simp only at h
    by_cases hc : big tol (M.get i j).conj = true
    · rw [if_pos hc] at h
      cases hG : givensElems tol (M.get i j).conj (M.get i (j + 1)).conj false with
      | error e => simp [hG, bind, Except.bind] at h
      | ok G =>
        cases hP : params G with
        | error e => simp [hG, hP, bind, Except.bind] at h
        | ok t =>
          obtain ⟨s, c, e⟩ := t
          cases hL : gaussLayerLoop tol n ps (doubleRotateCols M G n j (j + 1)) with
          | error e' => simp [hG, hP, hL, bind, Except.bind] at h
          | ok t2 =>
            obtain ⟨rs, M2⟩ := t2
            simp only [hG, hP, hL, bind, Except.bind] at h
            injection h with h
            injection h with _ h2
            subst h2
            have hiso := givensElems_colIsometry tol htol _ _ false G hstep.1 hstep.2.1 hstep.2.2 hG
            obtain ⟨hR1, hg1⟩ := doubleRotateCols_gram hR hiso j (j + 1) (by omega) (by omega) hj
            obtain ⟨hR2, hg2⟩ := ih _ _ _ hL (hexT G hc hG) hR1 hvalps
            exact ⟨hR2, hg1.trans hg2⟩
    · have hc' : big tol (M.get i j).conj = false := by simpa using hc
      rw [if_neg hc] at h
      exact ih _ _ _ h (hexF hc') hR hvalps

/-- the exact regime along the run of `gaussSweep` -/
def GaussSweepExact (tol : Rat) (n : Nat) : List Nat → Mat → Prop
  | [], _ => True
  | k :: ks, M =>
    GaussLayerExact tol n (gaussLayer n k)
      (if (k % 2 = 0 && big tol (M.get (k / 2) (n - 1))) = true then swapCols M (n - 1) (2 * n - 1) else M) ∧
    ∀ ops M2, gaussLayerLoop tol n (gaussLayer n k)
      (if (k % 2 = 0 && big tol (M.get (k / 2) (n - 1))) = true then swapCols M (n - 1) (2 * n - 1) else M) = .ok (ops, M2) →
      GaussSweepExact tol n ks M2

theorem gaussSweep_gram (tol : Rat) (htol : 0 < tol) (m n : Nat) (hn : 1 ≤ n) :
    ∀ (ks : List Nat) (M : Mat) (ls : List (List GOp)) (M' : Mat),
      gaussSweep tol n ks M = .ok (ls, M') → GaussSweepExact tol n ks M → Rect M m (2 * n) →
      Rect M' m (2 * n) ∧ SameGram M M' m (2 * n) := by
  intro ks
  induction ks with
  | nil =>
    intro M ls M' h _ hR
    simp [gaussSweep] at h
    obtain ⟨_, h2⟩ := h
    subst h2
    exact ⟨hR, SameGram.refl _ _ _⟩
  | cons k ks ih =>
    intro M ls M' h hex hR
    obtain ⟨hexL, hexS⟩ := hex
    have hM1 : Rect (if (k % 2 = 0 && big tol (M.get (k / 2) (n - 1))) = true then swapCols M (n - 1) (2 * n - 1) else M) m (2 * n) ∧
        SameGram M (if (k % 2 = 0 && big tol (M.get (k / 2) (n - 1))) = true then swapCols M (n - 1) (2 * n - 1) else M) m (2 * n) := by
      split
      · exact swapCols_gram hR (n - 1) (2 * n - 1) (by omega) (by omega) (by omega)
      · exact ⟨hR, SameGram.refl _ _ _⟩
    unfold gaussSweep at h
    simp only at h
    change GaussLayerExact tol n (gaussLayer n k)
      (if (decide (k % 2 = 0) && big tol (M.get (k / 2) (n - 1))) = true then swapCols M (n - 1) (2 * n - 1) else M) at hexL
    change ∀ ops M2, gaussLayerLoop tol n (gaussLayer n k)
      (if (decide (k % 2 = 0) && big tol (M.get (k / 2) (n - 1))) = true then swapCols M (n - 1) (2 * n - 1) else M) = .ok (ops, M2) →
      GaussSweepExact tol n ks M2 at hexS
    generalize hpht : (decide (k % 2 = 0) && big tol (M.get (k / 2) (n - 1))) = doPht at h hexL hexS hM1
    cases hL : gaussLayerLoop tol n (gaussLayer n k)
        (if doPht = true then swapCols M (n - 1) (2 * n - 1) else M) with
    | error e => simp [hL, bind, Except.bind] at h
    | ok t =>
      obtain ⟨ops, M2⟩ := t
      cases hS : gaussSweep tol n ks M2 with
      | error e => simp [hL, hS, bind, Except.bind] at h
      | ok t2 =>
        obtain ⟨ls', M3⟩ := t2
        simp only [hL, hS, bind, Except.bind] at h
        injection h with h
        injection h with _ h2
        subst h2
        have hval : ∀ p ∈ gaussLayer n k, p.2 + 1 < n := by
          intro p hp
          obtain ⟨i, j⟩ := p
          exact ((mem_gaussLayer n k i j).1 hp).2.1
        obtain ⟨hR2, hg2⟩ := gaussLayerLoop_gram tol htol m n _ _ _ _ hL hexL hM1.1 hval
        obtain ⟨hR3, hg3⟩ := ih _ _ _ hS (hexS ops M2 hL) hR2
        exact ⟨hR3, (hM1.2.trans hg2).trans hg3⟩

end C11
end Model
end OFV
