/- C09: validity of codes (decode ∘ encode = id on a vector) and its preservation by
appending and concatenation. -/
import OFV.Proofs.C09Lin

namespace OFV.C09
open OFV.Model.C09 OFV.Spec.C09

/-- the qubit assignment `e(v) = A v mod 2` of an occupation vector `v` (list of 0/1) -/
def encFn (c : Code) (v : List Nat) : Nat → Bool := fun q => (encode c v).getD q 0 == 1

/-- `d(e(v)) = v`, component by component -/
def ValidOn (c : Code) (v : List Nat) : Prop :=
  ∀ i, i < c.nm → decFn c.dec (encFn c v) i = (v.getD i 0 == 1)

/-- shape invariant of a code object (what `BinaryCode.__init__` checks) -/
structure Shaped (c : Code) : Prop where
  rows : c.enc.length = c.nq
  cols : ∀ row ∈ c.enc, row.length = c.nm
  ndec : c.dec.length = c.nm
  qub : ∀ e ∈ c.dec, ∀ k ∈ qubits e.toPoly, k < c.nq

theorem evalMono_congr (w w' : Nat → Bool) (t : Mono) (h : ∀ k ∈ idx t, w k = w' k) :
    evalMono w t = evalMono w' t := by
  rw [evalMono_idx, evalMono_idx]
  generalize idx t = l at h
  induction l with
  | nil => rfl
  | cons i r ih =>
    simp only [List.all_cons]
    rw [h i (by simp), ih (fun k hk => h k (List.mem_cons_of_mem _ hk))]

theorem getD_app_left (l1 l2 : List Nat) (i : Nat) (h : i < l1.length) :
    (l1 ++ l2).getD i 0 = l1.getD i 0 := by
  simp [List.getD_eq_getElem?_getD, List.getElem?_append_left h]

theorem getD_app_right (l1 l2 : List Nat) (i : Nat) (h : l1.length ≤ i) :
    (l1 ++ l2).getD i 0 = l2.getD (i - l1.length) 0 := by
  simp [List.getD_eq_getElem?_getD, List.getElem?_append_right h]

/-- a polynomial only reads the variables it mentions -/
theorem evalPoly_congr (w w' : Nat → Bool) (p : Poly) (h : ∀ k ∈ qubits p, w k = w' k) :
    evalPoly w p = evalPoly w' p := by
  induction p with
  | nil => rfl
  | cons t r ih =>
    rw [evalPoly_cons, evalPoly_cons]
    have h1 : ∀ k ∈ idx t, w k = w' k := fun k hk => h k (by simp [qubits, hk])
    have h2 : ∀ k ∈ qubits r, w k = w' k := fun k hk => h k (by
      simp only [qubits, List.flatMap_cons, List.mem_append] at hk ⊢; exact Or.inr hk)
    rw [evalMono_congr w w' t h1, ih h2]

theorem decFn_append_left (d1 d2 : List DEntry) (w : Nat → Bool) (i : Nat) (h : i < d1.length) :
    decFn (d1 ++ d2) w i = decFn d1 w i := by
  simp [decFn, List.getD_eq_getElem?_getD, List.getElem?_append_left h]

theorem decFn_append_right (d1 d2 : List DEntry) (w : Nat → Bool) (i : Nat) (h : d1.length ≤ i) :
    decFn (d1 ++ d2) w i = decFn d2 w (i - d1.length) := by
  simp [decFn, List.getD_eq_getElem?_getD, List.getElem?_append_right h]

theorem getD_mem_of_lt (d : List DEntry) (i : Nat) (h : i < d.length) : d.getD i .int0 ∈ d := by
  rw [List.getD_eq_getElem?_getD, List.getElem?_eq_getElem h]
  simp

theorem length_encode (c : Code) (v : List Nat) : (encode c v).length = c.enc.length := by
  simp [encode, matVec]

/-! ### concatenation -/

theorem concat_valid' (a f c : Code) (v : List Nat) (h : a.imulCode f = .ok c) (ha : Shaped a)
    (hva : ValidOn a v) (hvf : ValidOn f (encode a v)) : ValidOn c v := by
  unfold Code.imulCode at h
  split at h
  · cases h
  · next hsz =>
    have hsz' : a.nq = f.nm := by simpa using hsz
    simp only [bind, Except.bind] at h
    split at h
    · cases h
    · next dd hdd =>
      simp only [pure, Except.pure] at h
      cases h
      intro i hi
      show decFn dd _ i = _
      rw [eval_doubleDecoding a.dec f.dec dd _ hdd i]
      have henc : encFn ⟨matMul f.enc a.enc a.nm, dd, f.nq, a.nm⟩ v = encFn f (encode a v) := by
        funext q
        simp only [encFn, encode]
        rw [matVec_matMul_mod2 f.enc a.enc a.nm v ha.cols]
      rw [henc]
      have hmem : a.dec.getD i .int0 ∈ a.dec := getD_mem_of_lt a.dec i (by rw [ha.ndec]; exact hi)
      rw [evalPoly_congr _ (encFn a v) _ (by
        intro k hk
        have hk' : k < f.nm := by rw [← hsz']; exact ha.qub _ hmem k hk
        rw [hvf k hk']
        rfl)]
      exact hva i hi

/-! ### appending -/

theorem append_valid' (a b c : Code) (va vb : List Nat) (h : a.iadd b = .ok c) (ha : Shaped a)
    (hlen : va.length = a.nm) (hva : ValidOn a va) (hvb : ValidOn b vb) : ValidOn c (va ++ vb) := by
  unfold Code.iadd at h
  simp only [bind, Except.bind] at h
  split at h
  · cases h
  · next sd hsd =>
    simp only [pure, Except.pure] at h
    cases h
    have henc : encode ⟨blockDiag a.enc a.nm b.enc b.nm, a.dec ++ sd, a.nq + b.nq, a.nm + b.nm⟩ (va ++ vb)
        = encode a va ++ encode b vb := by
      simp only [encode]
      rw [matVec_blockDiag a.enc b.enc a.nm b.nm va vb ha.cols hlen, List.map_append]
    have hl : (encode a va).length = a.nq := by rw [length_encode, ha.rows]
    intro i hi
    show decFn (a.dec ++ sd) _ i = _
    by_cases hia : i < a.nm
    · rw [decFn_append_left _ _ _ _ (by rw [ha.ndec]; exact hia)]
      have hmem : a.dec.getD i .int0 ∈ a.dec := getD_mem_of_lt a.dec i (by rw [ha.ndec]; exact hia)
      unfold decFn
      rw [evalPoly_congr _ (encFn a va) _ (by
        intro k hk
        have hk' : k < a.nq := ha.qub _ hmem k hk
        simp only [encFn]
        rw [henc, getD_app_left _ _ _ (by rw [hl]; exact hk')])]
      have := hva i hia
      unfold decFn at this
      rw [this, getD_app_left _ _ _ (by rw [hlen]; exact hia)]
    · have hge : a.nm ≤ i := Nat.le_of_not_lt hia
      rw [decFn_append_right _ _ _ _ (by rw [ha.ndec]; exact hge), ha.ndec,
        eval_shiftDecoder b.dec sd a.nq _ hsd]
      have hfn : (fun q => encFn ⟨blockDiag a.enc a.nm b.enc b.nm, a.dec ++ sd, a.nq + b.nq, a.nm + b.nm⟩
          (va ++ vb) (q + a.nq)) = encFn b vb := by
        funext q
        simp only [encFn]
        rw [henc, getD_app_right _ _ _ (by rw [hl]; omega), hl, Nat.add_sub_cancel]
      rw [hfn, hvb (i - a.nm) (by simp at hi; omega), getD_app_right _ _ _ (by rw [hlen]; exact hge), hlen]

end OFV.C09
