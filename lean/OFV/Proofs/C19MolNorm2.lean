/-
C19 — `lambda_norm` of the spin-orbital DiagonalCoulombHamiltonian built from `h` and Coulomb-type integrals, in the
same normal form as `get_one_norm_int_woconst`.
-/
import OFV.Proofs.C19MolNorm1
import OFV.Proofs.C19MolDch

namespace OFV
namespace C19Jw
open Model.C19
open Spec.C19 (m2 m4 spinOne spinCoulomb)

theorem rsum_range_double (n : Nat) (F : Nat → Rat) :
    ∑ i ∈ Finset.range (2 * n), F i = ∑ p ∈ Finset.range n, ∑ σ ∈ Finset.range 2, F (2 * p + σ) := by
  induction n with
  | zero => simp
  | succ n ih =>
    rw [show 2 * (n + 1) = 2 * n + 1 + 1 by ring, Finset.sum_range_succ, Finset.sum_range_succ, ih,
      Finset.sum_range_succ (fun p => ∑ σ ∈ Finset.range 2, F (2 * p + σ))]
    simp only [Finset.sum_range_succ, Finset.sum_range_zero, zero_add, Nat.add_zero]
    ring

theorem rabs_div2 (x : Rat) : rabs (x / 2) = rabs x / 2 := by
  rw [show x / 2 = 1 / 2 * x by ring, rabs_half]

variable (n : Nat) (h : List (List Rat)) (g : List (List (List (List Rat))))

theorem spinOne_len : (spinOne n h).length = 2 * n := by simp [spinOne]

theorem Tval (p q σ τ : Nat) (hp : p < n) (hq : q < n) (hσ : σ < 2) (hτ : τ < 2) :
    mat (spinOne n h) (2 * p + σ) (2 * q + τ) = if σ = τ then m2 h p q else 0 := by
  unfold spinOne
  rw [C19P.mat_table (2 * n) _ _ _ (by omega) (by omega), (C19P.spin_idx p σ hσ).1, (C19P.spin_idx p σ hσ).2,
    (C19P.spin_idx q τ hτ).1, (C19P.spin_idx q τ hτ).2]

theorem Vval (p q σ τ : Nat) (hp : p < n) (hq : q < n) (hσ : σ < 2) (hτ : τ < 2) :
    mat (spinCoulomb n g) (2 * p + σ) (2 * q + τ) = if p = q ∧ σ = τ then 0 else m4 g p q q p / 2 := by
  unfold spinCoulomb
  rw [C19P.mat_table (2 * n) _ _ _ (by omega) (by omega), (C19P.spin_idx p σ hσ).2, (C19P.spin_idx q τ hτ).2]
  by_cases e : p = q ∧ σ = τ
  · rw [if_pos e, if_pos (by rw [e.1, e.2])]
  · rw [if_neg e, if_neg (fun e' => e ⟨by omega, by omega⟩)]

/-- off-diagonal part for one pair of orbitals, summed over the four spin combinations -/
theorem offdiag_spins (p q : Nat) (hp : p < n) (hq : q < n) :
    ∑ σ ∈ Finset.range 2, ∑ τ ∈ Finset.range 2,
        (if 2 * p + σ = 2 * q + τ then 0
         else rabs (mat (spinOne n h) (2 * p + σ) (2 * q + τ)) / 2
              + rabs (mat (spinCoulomb n g) (2 * p + σ) (2 * q + τ)) / 4)
      = if p = q then rabs (m4 g p q q p) / 4 else rabs (m2 h p q) + rabs (m4 g p q q p) / 2 := by
  simp only [Finset.sum_range_succ, Finset.sum_range_zero, zero_add]
  rw [Tval n h p q 0 0 hp hq (by norm_num) (by norm_num), Tval n h p q 0 1 hp hq (by norm_num) (by norm_num),
    Tval n h p q 1 0 hp hq (by norm_num) (by norm_num), Tval n h p q 1 1 hp hq (by norm_num) (by norm_num),
    Vval n g p q 0 0 hp hq (by norm_num) (by norm_num), Vval n g p q 0 1 hp hq (by norm_num) (by norm_num),
    Vval n g p q 1 0 hp hq (by norm_num) (by norm_num), Vval n g p q 1 1 hp hq (by norm_num) (by norm_num)]
  by_cases e : p = q
  · subst e
    have a1 : ¬ (2 * p + 0 = 2 * p + 1) := by omega
    have a2 : ¬ (2 * p + 1 = 2 * p + 0) := by omega
    simp only [if_true, a1, a2, if_false, and_true, and_false, show ¬ ((0 : Nat) = 1) by decide,
      show ¬ ((1 : Nat) = 0) by decide, true_and, rabs0, rabs_div2]
    ring
  · have a0 : ¬ (2 * p + 0 = 2 * q + 0) := by omega
    have a1 : ¬ (2 * p + 0 = 2 * q + 1) := by omega
    have a2 : ¬ (2 * p + 1 = 2 * q + 0) := by omega
    have a3 : ¬ (2 * p + 1 = 2 * q + 1) := by omega
    simp only [a0, a1, a2, a3, e, if_false, if_true, false_and, show ¬ ((0 : Nat) = 1) by decide,
      show ¬ ((1 : Nat) = 0) by decide, rabs0, rabs_div2]
    ring

/-- what is subtracted from `z_vector[(p, σ)]`, summed over the partner index -/
theorem zsum_spins (symJ : ∀ p q, p < n → q < n → m4 g q p p q = m4 g p q q p) (p σ : Nat) (hp : p < n) (hσ : σ < 2) :
    ∑ j ∈ Finset.range (2 * n), (if j = 2 * p + σ then 0
        else (mat (spinCoulomb n g) (2 * p + σ) j + mat (spinCoulomb n g) j (2 * p + σ)) / 4)
      = (1 / 2) * ∑ q ∈ Finset.range n, m4 g p q q p - (1 / 4) * m4 g p p p p := by
  rw [rsum_range_double]
  have hq : ∀ q ∈ Finset.range n, ∑ τ ∈ Finset.range 2, (if 2 * q + τ = 2 * p + σ then 0
        else (mat (spinCoulomb n g) (2 * p + σ) (2 * q + τ) + mat (spinCoulomb n g) (2 * q + τ) (2 * p + σ)) / 4)
      = (1 / 2) * m4 g p q q p - (if p = q then (1 / 4) * m4 g p q q p else 0) := by
    intro q hq
    have hqn := Finset.mem_range.1 hq
    have hτ : ∀ τ ∈ Finset.range 2, (if 2 * q + τ = 2 * p + σ then 0
          else (mat (spinCoulomb n g) (2 * p + σ) (2 * q + τ) + mat (spinCoulomb n g) (2 * q + τ) (2 * p + σ)) / 4)
        = if p = q ∧ σ = τ then 0 else m4 g p q q p / 4 := by
      intro τ hτ
      have hτ2 := Finset.mem_range.1 hτ
      rw [Vval n g p q σ τ hp hqn hσ hτ2, Vval n g q p τ σ hqn hp hτ2 hσ]
      by_cases e : p = q ∧ σ = τ
      · rw [if_pos (by rw [e.1, e.2]), if_pos e]
      · rw [if_neg (fun e' => e ⟨by omega, by omega⟩), if_neg e, if_neg (fun e' => e ⟨e'.1.symm, e'.2.symm⟩),
          if_neg e, symJ p q hp hqn]
        ring
    rw [Finset.sum_congr rfl hτ]
    simp only [Finset.sum_range_succ, Finset.sum_range_zero, zero_add]
    by_cases e : p = q
    · subst e
      have : σ = 0 ∨ σ = 1 := by omega
      rcases this with rfl | rfl
      · simp; ring
      · simp; ring
    · simp [e]; ring
  rw [Finset.sum_congr rfl hq, Finset.sum_sub_distrib, rdelta n p hp (fun q => (1 / 4) * m4 g p q q p), Finset.mul_sum]

/-- **`lambda_norm` of the spin-orbital Hamiltonian in normal form** -/
theorem lambdaNorm_coulomb (symJ : ∀ p q, p < n → q < n → m4 g q p p q = m4 g p q q p) :
    lambdaNorm (spinOne n h) (spinCoulomb n g) = coulombNF n h g := by
  rw [lambdaNorm_math, spinOne_len]
  unfold coulombNF
  have e1 : ∑ i ∈ Finset.range (2 * n), ∑ j ∈ Finset.range (2 * n),
        (if i = j then 0 else rabs (mat (spinOne n h) i j) / 2 + rabs (mat (spinCoulomb n g) i j) / 4)
      = ∑ p ∈ Finset.range n, ∑ q ∈ Finset.range n, (if p = q then 0 else rabs (m2 h p q))
        + ((1 / 2) * ∑ p ∈ Finset.range n, ∑ q ∈ Finset.range n, rabs (m4 g p q q p)
            - (1 / 4) * ∑ p ∈ Finset.range n, rabs (m4 g p p p p)) := by
    rw [rsum_range_double]
    have hp : ∀ p ∈ Finset.range n, ∑ σ ∈ Finset.range 2, ∑ j ∈ Finset.range (2 * n),
          (if 2 * p + σ = j then 0 else rabs (mat (spinOne n h) (2 * p + σ) j) / 2
            + rabs (mat (spinCoulomb n g) (2 * p + σ) j) / 4)
        = ∑ q ∈ Finset.range n, (if p = q then 0 else rabs (m2 h p q))
          + ((1 / 2) * ∑ q ∈ Finset.range n, rabs (m4 g p q q p) - (1 / 4) * rabs (m4 g p p p p)) := by
      intro p hp
      have hpn := Finset.mem_range.1 hp
      rw [Finset.sum_congr rfl (fun σ _ => rsum_range_double n _), Finset.sum_comm]
      have hq : ∀ q ∈ Finset.range n, ∑ σ ∈ Finset.range 2, ∑ τ ∈ Finset.range 2,
            (if 2 * p + σ = 2 * q + τ then 0 else rabs (mat (spinOne n h) (2 * p + σ) (2 * q + τ)) / 2
              + rabs (mat (spinCoulomb n g) (2 * p + σ) (2 * q + τ)) / 4)
          = (if p = q then 0 else rabs (m2 h p q)) + ((1 / 2) * rabs (m4 g p q q p)
              - (if p = q then (1 / 4) * rabs (m4 g p q q p) else 0)) := by
        intro q hq
        rw [offdiag_spins n h g p q hpn (Finset.mem_range.1 hq)]
        by_cases e : p = q <;> simp [e] <;> ring
      rw [Finset.sum_congr rfl hq, Finset.sum_add_distrib, Finset.sum_sub_distrib,
        rdelta n p hpn (fun q => (1 / 4) * rabs (m4 g p q q p)), Finset.mul_sum]
    rw [Finset.sum_congr rfl hp, Finset.sum_add_distrib, Finset.sum_sub_distrib, Finset.mul_sum, Finset.mul_sum]
  have e2 : ∑ i ∈ Finset.range (2 * n),
        rabs (mat (spinOne n h) i i / 2 + mat (spinCoulomb n g) i i / 2
          + ∑ j ∈ Finset.range (2 * n), (if j = i then 0
              else (mat (spinCoulomb n g) i j + mat (spinCoulomb n g) j i) / 4))
      = ∑ p ∈ Finset.range n, rabs (m2 h p p + ∑ q ∈ Finset.range n, m4 g p q q p - (1 / 2) * m4 g p p p p) := by
    rw [rsum_range_double]
    apply Finset.sum_congr rfl
    intro p hp
    have hpn := Finset.mem_range.1 hp
    have hσ : ∀ σ ∈ Finset.range 2,
        rabs (mat (spinOne n h) (2 * p + σ) (2 * p + σ) / 2 + mat (spinCoulomb n g) (2 * p + σ) (2 * p + σ) / 2
          + ∑ j ∈ Finset.range (2 * n), (if j = 2 * p + σ then 0
              else (mat (spinCoulomb n g) (2 * p + σ) j + mat (spinCoulomb n g) j (2 * p + σ)) / 4))
        = rabs (m2 h p p + ∑ q ∈ Finset.range n, m4 g p q q p - (1 / 2) * m4 g p p p p) / 2 := by
      intro σ hσ
      have hσ2 := Finset.mem_range.1 hσ
      rw [zsum_spins n g symJ p σ hpn hσ2, Tval n h p p σ σ hpn hpn hσ2 hσ2, Vval n g p p σ σ hpn hpn hσ2 hσ2,
        if_pos rfl, if_pos ⟨rfl, rfl⟩, ← rabs_div2]
      congr 1
      ring
    rw [Finset.sum_congr rfl hσ]
    simp only [Finset.sum_range_succ, Finset.sum_range_zero, zero_add]
    ring
  rw [e1, e2]
  ring

end C19Jw
end OFV
