/-
Bravyi-Kitaev superfast: `_two_body` with four distinct indices is the operator
`1/8 A_pq A_rs (-1 - B_pB_q + B_pB_r + B_pB_s + B_qB_r + B_qB_s - B_rB_s - B_pB_qB_rB_s)`.
-/
import OFV.Proofs.C05BksfNum

set_option linter.unusedSimpArgs false
set_option linter.unusedVariables false
set_option linter.unnecessarySeqFocus false

namespace OFV
namespace BK
open Model Model.C05 Model.Bksf Spec Sem

/-! ### products are additive in the right factor -/

theorem inner_sumφ (l : List (Nat × Nat) × GQ) (Y : Model.Op) (m x : Nat) :
    (Y.map fun r => l.2 * r.2 * termCoef .qubit (l.1 ++ r.1) [m] [x]).sum
      = l.2 * sumφ (fun t => termCoef .qubit (l.1 ++ t) [m] [x]) Y := by
  unfold sumφ
  rw [← sum_map_mul_left']
  congr 1; apply List.map_congr_left; intro r _; ring

theorem den_mulOp_sumφ (X Y : Model.Op) (hX : ValidOp X) (hY : ValidOp Y) (m x : Nat) :
    den .qubit (mulOp .qubit X Y) [m] [x]
      = (X.map fun l => l.2 * sumφ (fun t => termCoef .qubit (l.1 ++ t) [m] [x]) Y).sum := by
  rw [Sem.den_mulOp X Y hX hY]
  congr 1; apply List.map_congr_left; intro l _
  exact inner_sumφ l Y m x

theorem sum_map_add' {α : Type} (L : List α) (f g : α → GQ) :
    (L.map fun a => f a + g a).sum = (L.map f).sum + (L.map g).sum := by
  induction L with
  | nil => simp
  | cons a L ih => simp only [List.map_cons, List.sum_cons, ih]; ring

/-- `X (Y1 + Y2) = X Y1 + X Y2` when the `+=` was exact -/
theorem den_mulOp_iadd_right (tol : Rat) (X Y1 Y2 : Model.Op) (hX : ValidOp X) (h1 : ValidOp Y1) (h2 : ValidOp Y2)
    (hok : C04.iaddOk tol Y1 Y2 = true) (m x : Nat) :
    den .qubit (mulOp .qubit X (iadd tol Y1 Y2)) [m] [x]
      = den .qubit (mulOp .qubit X Y1) [m] [x] + den .qubit (mulOp .qubit X Y2) [m] [x] := by
  rw [den_mulOp_sumφ X _ hX (iadd_valid tol h1 h2), den_mulOp_sumφ X _ hX h1, den_mulOp_sumφ X _ hX h2, ← sum_map_add']
  congr 1; apply List.map_congr_left; intro l _
  rw [sumφ_iadd _ tol Y1 Y2 hok]; ring

theorem negOp_valid {Y : Model.Op} (h : ValidOp Y) : ValidOp (negOp Y) := by
  intro tc htc
  simp only [negOp, List.mem_map] at htc
  obtain ⟨tc', h', rfl⟩ := htc
  exact h tc' h'

theorem sumφ_negOp (φ : List (Nat × Nat) → GQ) (Y : Model.Op) : sumφ φ (negOp Y) = -sumφ φ Y := by
  unfold sumφ negOp
  rw [List.map_map, ← Jel.sum_neg_map, List.map_map]
  congr 1; apply List.map_congr_left; intro tc _
  simp only [Function.comp]; ring

theorem isub_valid' (tol : Rat) {a b : Model.Op} (ha : ValidOp a) (hb : ValidOp b) : ValidOp (isub tol a b) := by
  rw [isub_eq_iadd]; exact iadd_valid tol ha (negOp_valid hb)

theorem sum_map_sub' {α : Type} (L : List α) (f g : α → GQ) :
    (L.map fun a => f a - g a).sum = (L.map f).sum - (L.map g).sum := by
  induction L with
  | nil => simp
  | cons a L ih => simp only [List.map_cons, List.sum_cons, ih]; ring

/-- `X (Y1 - Y2) = X Y1 - X Y2` when the `-=` was exact -/
theorem den_mulOp_isub_right (tol : Rat) (X Y1 Y2 : Model.Op) (hX : ValidOp X) (h1 : ValidOp Y1) (h2 : ValidOp Y2)
    (hok : C04.iaddOk tol Y1 (negOp Y2) = true) (m x : Nat) :
    den .qubit (mulOp .qubit X (isub tol Y1 Y2)) [m] [x]
      = den .qubit (mulOp .qubit X Y1) [m] [x] - den .qubit (mulOp .qubit X Y2) [m] [x] := by
  have e : isub tol Y1 Y2 = iadd tol Y1 (negOp Y2) := isub_eq_iadd tol Y1 Y2
  rw [e, den_mulOp_sumφ X _ hX (iadd_valid tol h1 (negOp_valid h2)), den_mulOp_sumφ X _ hX h1,
    den_mulOp_sumφ X _ hX h2, ← sum_map_sub']
  congr 1; apply List.map_congr_left; intro l _
  rw [sumφ_iadd _ tol Y1 (negOp Y2) hok, sumφ_negOp]; ring

theorem den_mulOp_neg_one (X : Model.Op) (hX : ValidOp X) (m x : Nat) :
    den .qubit (mulOp .qubit X (smul (-1) Model.Bksf.one)) [m] [x]
      = -den .qubit (mulOp .qubit X Model.Bksf.one) [m] [x] := by
  unfold Model.Bksf.one
  rw [den_mulOp_smul_right _ _ _ hX (mk_const_valid 1)]; ring

/-! ### validity of the operands -/

theorem edgeB_valid (tol : Rat) (htol : tol * tol ≤ 1 / 4) (E : Edges) (i : Nat) : ValidOp (edgeB tol E i) := by
  rw [edgeB_eq]; exact single_valid tol htol _ (tB_valid E i)

theorem edgeA_valid (tol : Rat) (htol : tol * tol ≤ 1 / 4) (E : Edges) (i j : Nat) (A : Model.Op)
    (h : edgeA tol E i j = some A) : ValidOp A := by
  obtain ⟨pos, _, rfl⟩ := edgeA_eq tol E i j A h
  exact sgnOp_valid _ (single_valid tol htol _ (tA_valid E i j pos))

/-- **`_two_body`, four distinct indices**: the operator
`(1/8 A_pq) A_rs (-1 - B_pB_q + B_pB_r + B_pB_s + B_qB_r + B_qB_s - B_rB_s - B_pB_qB_rB_s)`, all matrix elements -/
theorem twoBody4_den (tol : Rat) (htol : tol * tol ≤ 1 / 4) (E : Edges) (p q r s : Nat)
    (hnd : Model.Bksf.nDistinct4 p q r s = 4) (Apq Ars t : Model.Op)
    (hA1 : edgeA tol E p q = some Apq) (hA2 : edgeA tol E r s = some Ars)
    (ht : twoBody tol E p q r s = some t) (hok : twoBody4Ok tol E p q r s = true) (m x : Nat) :
    let P := fun (Y : Model.Op) => den .qubit (mulOp .qubit (mulOp .qubit (smul eighthQ Apq) Ars) Y) [m] [x]
    let B := edgeB tol E
    den .qubit t [m] [x]
      = -P Model.Bksf.one - P (mulOp .qubit (B p) (B q)) + P (mulOp .qubit (B p) (B r)) + P (mulOp .qubit (B p) (B s))
        + P (mulOp .qubit (B q) (B r)) + P (mulOp .qubit (B q) (B s)) - P (mulOp .qubit (B r) (B s))
        - P (mulOp .qubit (mulOp .qubit (mulOp .qubit (B p) (B q)) (B r)) (B s)) := by
  intro P B
  have hb : (Model.Bksf.nDistinct4 p q r s == 4) = true := by simp [hnd]
  unfold twoBody at ht
  unfold twoBody4Ok at hok
  simp only [hb, if_true, hA1, hA2, Option.some.injEq, Bool.and_eq_true] at ht hok
  obtain ⟨⟨⟨⟨⟨⟨⟨k1, k2⟩, k3⟩, k4⟩, k5⟩, k6⟩, k7⟩, k8⟩ := hok
  subst ht
  have vB := edgeB_valid tol htol E
  have vX : ValidOp (mulOp .qubit (smul eighthQ Apq) Ars) :=
    mulOp_valid (smul_valid _ (edgeA_valid tol htol E p q Apq hA1)) (edgeA_valid tol htol E r s Ars hA2)
  have v0 : ValidOp (smul (-1) Model.Bksf.one) := smul_valid _ (mk_const_valid 1)
  have vm : ∀ a b, ValidOp (mulOp .qubit (edgeB tol E a) (edgeB tol E b)) := fun a b => mulOp_valid (vB a) (vB b)
  have vm4 : ValidOp (mulOp .qubit (mulOp .qubit (mulOp .qubit (edgeB tol E p) (edgeB tol E q)) (edgeB tol E r))
      (edgeB tol E s)) := mulOp_valid (mulOp_valid (vm p q) (vB r)) (vB s)
  have e1 := isub_valid' tol v0 (vm p q)
  have e2 := iadd_valid tol e1 (vm p r)
  have e3 := iadd_valid tol e2 (vm p s)
  have e4 := iadd_valid tol e3 (vm q r)
  have e5 := iadd_valid tol e4 (vm q s)
  have e6 := isub_valid' tol e5 (vm r s)
  rw [Sem.den_iadd .qubit tol _ _ _ _ k8, den_nil, zero_add]
  unfold subOp addOp at *
  rw [den_mulOp_isub_right tol _ _ _ vX e6 vm4 k7, den_mulOp_isub_right tol _ _ _ vX e5 (vm r s) k6,
    den_mulOp_iadd_right tol _ _ _ vX e4 (vm q s) k5, den_mulOp_iadd_right tol _ _ _ vX e3 (vm q r) k4,
    den_mulOp_iadd_right tol _ _ _ vX e2 (vm p s) k3, den_mulOp_iadd_right tol _ _ _ vX e1 (vm p r) k2,
    den_mulOp_isub_right tol _ _ _ vX v0 (vm p q) k1, den_mulOp_neg_one _ vX]

end BK
end OFV

/-! ### diagonal right factors -/

namespace OFV
namespace BK
open Model Model.C05 Model.Bksf Spec Sem

/-- `Y` is diagonal in the computational basis with eigenvalue `ev m` on `|m⟩` -/
def DiagOp (Y : Model.Op) (ev : Nat → GQ) : Prop :=
  ∀ m z, den .qubit Y [m] [z] = if m = z then ev m else 0

theorem sum_pick (Z : List Nat) (hZ : Z.Nodup) (y : Nat) (hy : y ∈ Z) (f : Nat → GQ) :
    (Z.map fun z => if y = z then f z else 0).sum = f y := by
  induction Z with
  | nil => simp at hy
  | cons a Z ih =>
    rw [List.nodup_cons] at hZ
    simp only [List.map_cons, List.sum_cons]
    rcases List.mem_cons.1 hy with rfl | h
    · have : (Z.map fun z => if y = z then f z else 0).sum = 0 := by
        apply List.sum_eq_zero
        intro v hv
        simp only [List.mem_map] at hv
        obtain ⟨z, hz, rfl⟩ := hv
        have : ¬ y = z := fun e => hZ.1 (e ▸ hz)
        simp [this]
      simp [this]
    · have : ¬ y = a := fun e => hZ.1 (e ▸ h)
      simp [this, ih hZ.2 h]

theorem sum_through_images (Y : Model.Op) (G : Nat → GQ) (m : Nat) (Z : List Nat) (hZ : Z.Nodup)
    (hY : ∀ r ∈ Y, (actPTerm r.1 m).2 ∈ Z) :
    (Y.map fun r => r.2 * GQ.ipow (actPTerm r.1 m).1 * G (actPTerm r.1 m).2).sum
      = (Z.map fun z => G z * den .qubit Y [m] [z]).sum := by
  induction Y with
  | nil => simp [den_nil]
  | cons tc Y ih =>
    obtain ⟨t, c⟩ := tc
    simp only [List.map_cons, List.sum_cons]
    rw [ih (fun r hr => hY r (List.mem_cons_of_mem _ hr))]
    have hy := hY (t, c) List.mem_cons_self
    have e : (Z.map fun z => G z * den .qubit ((t, c) :: Y) [m] [z])
        = Z.map fun z => (if (actPTerm t m).2 = z then c * GQ.ipow (actPTerm t m).1 * G z else 0)
            + G z * den .qubit Y [m] [z] := by
      apply List.map_congr_left; intro z _
      rw [den_cons, termCoef_qubit]
      by_cases h : (actPTerm t m).2 = z <;> simp [h] <;> ring
    rw [e, sum_map_add', sum_pick Z hZ _ hy (fun z => c * GQ.ipow (actPTerm t m).1 * G z)]

theorem le_foldr_max (L : List Nat) (y : Nat) (hy : y ∈ L) : y ≤ L.foldr max 0 := by
  induction L with
  | nil => simp at hy
  | cons a L ih =>
    simp only [List.foldr_cons]
    rcases List.mem_cons.1 hy with rfl | h
    · exact Nat.le_max_left _ _
    · exact Nat.le_trans (ih h) (Nat.le_max_right _ _)

/-- `X · Y` for a diagonal `Y`: `Y` only contributes its eigenvalue on the input state -/
theorem den_mulOp_diag_right (X Y : Model.Op) (hX : ValidOp X) (hYv : ValidOp Y) (ev : Nat → GQ) (hY : DiagOp Y ev)
    (m x : Nat) :
    den .qubit (mulOp .qubit X Y) [m] [x] = ev m * den .qubit X [m] [x] := by
  rw [den_mulOp_right X Y hX hYv]
  have hZ : (List.range ((m :: Y.map fun r => (actPTerm r.1 m).2).foldr max 0 + 1)).Nodup := List.nodup_range
  have hmem : ∀ r ∈ Y, (actPTerm r.1 m).2 ∈ List.range ((m :: Y.map fun r => (actPTerm r.1 m).2).foldr max 0 + 1) := by
    intro r hr
    rw [List.mem_range]
    have := le_foldr_max (m :: Y.map fun r => (actPTerm r.1 m).2) _
      (List.mem_cons_of_mem _ (List.mem_map.2 ⟨r, hr, rfl⟩))
    omega
  rw [sum_through_images Y (fun y => den .qubit X [y] [x]) m _ hZ hmem]
  have e : ((List.range ((m :: Y.map fun r => (actPTerm r.1 m).2).foldr max 0 + 1)).map fun z => den .qubit X [z] [x] * den .qubit Y [m] [z])
      = (List.range ((m :: Y.map fun r => (actPTerm r.1 m).2).foldr max 0 + 1)).map fun z =>
          if m = z then ev m * den .qubit X [z] [x] else 0 := by
    apply List.map_congr_left; intro z _
    rw [hY m z]; by_cases h : m = z <;> simp [h]; ring
  rw [e, sum_pick _ hZ m (by
      rw [List.mem_range]
      have := le_foldr_max (m :: Y.map fun r => (actPTerm r.1 m).2) m List.mem_cons_self
      omega)
    (fun z => ev m * den .qubit X [z] [x])]

theorem diag_mul (a b : Model.Op) (ha : ValidOp a) (hb : ValidOp b) (ea eb : Nat → GQ) (hda : DiagOp a ea)
    (hdb : DiagOp b eb) : DiagOp (mulOp .qubit a b) (fun m => ea m * eb m) := by
  intro m z
  rw [den_mulOp_diag_right a b ha hb eb hdb, hda m z]
  by_cases h : m = z <;> simp [h]; ring

/-- eigenvalue of `B_i`: `-1` when vertex `i` is occupied -/
def sgB (E : Edges) (i m : Nat) : GQ := if incidentSet E i m % 2 = 0 then 1 else -1

theorem diag_edgeB (tol : Rat) (htol : tol * tol ≤ 1 / 4) (E : Edges) (hE : NoLoops E) (i : Nat) :
    DiagOp (edgeB tol E i) (sgB E i) := fun m z => den_edgeB tol htol E hE i m z

theorem diag_one : DiagOp Model.Bksf.one (fun _ => 1) := fun m z => den_one m z

/-- the value of the polynomial of the four-index formula on the signs of the four vertices: `-8` on the two
occupation patterns connected by `a†_p a†_q a_r a_s + h.c.`, `0` on the fourteen others -/
def sgb (b : Bool) : GQ := if b then -1 else 1

theorem four_poly (b1 b2 b3 b4 : Bool) :
    0 - 1 - sgb b1 * sgb b2 + sgb b1 * sgb b3 + sgb b1 * sgb b4 + sgb b2 * sgb b3 + sgb b2 * sgb b4 - sgb b3 * sgb b4
        - sgb b1 * sgb b2 * sgb b3 * sgb b4
      = if (b1 && b2 && !b3 && !b4) || (!b1 && !b2 && b3 && b4) then (⟨-8, 0⟩ : GQ) else 0 := by
  cases b1 <;> cases b2 <;> cases b3 <;> cases b4 <;> simp [sgb] <;> (apply GQ.ext <;> simp <;> norm_num)

/-- vertex `i` is occupied in the edge-qubit basis state `m` -/
def occV (E : Edges) (i m : Nat) : Bool := decide (incidentSet E i m % 2 = 1)

theorem sgB_eq (E : Edges) (i m : Nat) : sgB E i m = sgb (occV E i m) := by
  unfold sgB sgb occV
  by_cases h : incidentSet E i m % 2 = 0
  · have : ¬ incidentSet E i m % 2 = 1 := by omega
    simp [h, this]
  · have : incidentSet E i m % 2 = 1 := by omega
    simp [h, this]

/-- **`_two_body`, four distinct indices, is the double excitation**: it vanishes on every basis state except those
where `p, q` are occupied and `r, s` empty or the other way round, and there it acts as `-A_pq A_rs` -/
theorem twoBody4_sound (tol : Rat) (htol : tol * tol ≤ 1 / 4) (E : Edges) (hE : NoLoops E) (p q r s : Nat)
    (hnd : Model.Bksf.nDistinct4 p q r s = 4) (Apq Ars t : Model.Op)
    (hA1 : edgeA tol E p q = some Apq) (hA2 : edgeA tol E r s = some Ars)
    (ht : twoBody tol E p q r s = some t) (hok : twoBody4Ok tol E p q r s = true) (m x : Nat) :
    den .qubit t [m] [x]
      = if (occV E p m && occV E q m && !occV E r m && !occV E s m)
            || (!occV E p m && !occV E q m && occV E r m && occV E s m)
        then -den .qubit (mulOp .qubit Apq Ars) [m] [x] else 0 := by
  have h := twoBody4_den tol htol E p q r s hnd Apq Ars t hA1 hA2 ht hok m x
  simp only at h
  have vB := edgeB_valid tol htol E
  have vA1 := edgeA_valid tol htol E p q Apq hA1
  have vA2 := edgeA_valid tol htol E r s Ars hA2
  have vX : ValidOp (mulOp .qubit (smul eighthQ Apq) Ars) := mulOp_valid (smul_valid _ vA1) vA2
  have dB := diag_edgeB tol htol E hE
  have vm : ∀ a b, ValidOp (mulOp .qubit (edgeB tol E a) (edgeB tol E b)) := fun a b => mulOp_valid (vB a) (vB b)
  have dm : ∀ a b, DiagOp (mulOp .qubit (edgeB tol E a) (edgeB tol E b)) (fun m => sgB E a m * sgB E b m) :=
    fun a b => diag_mul _ _ (vB a) (vB b) _ _ (dB a) (dB b)
  have v3 := mulOp_valid (vm p q) (vB r)
  have d3 := diag_mul _ _ (vm p q) (vB r) _ _ (dm p q) (dB r)
  have v4 := mulOp_valid v3 (vB s)
  have d4 := diag_mul _ _ v3 (vB s) _ _ d3 (dB s)
  have v1 : ValidOp Model.Bksf.one := by unfold Model.Bksf.one; exact mk_const_valid 1
  rw [h, den_mulOp_diag_right _ Model.Bksf.one vX v1 _ diag_one, den_mulOp_diag_right _ _ vX (vm p q) _ (dm p q),
    den_mulOp_diag_right _ _ vX (vm p r) _ (dm p r), den_mulOp_diag_right _ _ vX (vm p s) _ (dm p s),
    den_mulOp_diag_right _ _ vX (vm q r) _ (dm q r), den_mulOp_diag_right _ _ vX (vm q s) _ (dm q s),
    den_mulOp_diag_right _ _ vX (vm r s) _ (dm r s), den_mulOp_diag_right _ _ vX v4 _ d4,
    den_mulOp_smul_left _ _ _ vA1 vA2]
  simp only [sgB_eq]
  have hp := four_poly (occV E p m) (occV E q m) (occV E r m) (occV E s m)
  have h8 : (eighthQ : GQ) * (⟨-8, 0⟩ : GQ) = -1 := by
    unfold eighthQ; apply GQ.ext <;> simp <;> norm_num [Rat.mkRat_eq_div]
  generalize den .qubit (mulOp .qubit Apq Ars) [m] [x] = D at *
  generalize sgb (occV E p m) = a at *
  generalize sgb (occV E q m) = b at *
  generalize sgb (occV E r m) = c at *
  generalize sgb (occV E s m) = d at *
  have e : -(1 * (eighthQ * D)) - a * b * (eighthQ * D) + a * c * (eighthQ * D) + a * d * (eighthQ * D)
      + b * c * (eighthQ * D) + b * d * (eighthQ * D) - c * d * (eighthQ * D) - a * b * c * d * (eighthQ * D)
      = (0 - 1 - a * b + a * c + a * d + b * c + b * d - c * d - a * b * c * d) * (eighthQ * D) := by ring
  rw [e, hp]
  split
  · rw [← mul_assoc, mul_comm (⟨-8, 0⟩ : GQ) eighthQ, h8]; ring
  · ring

end BK
end OFV
