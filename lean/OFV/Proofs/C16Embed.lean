/-
C16 helper lemmas: the embedding of basis states the Spec oracle uses (`Spec.C16.embed` with the
kept qubits in increasing order and the sector-1 qubits set) satisfies `Emb` for every list of
distinct removed qubits below `n`.
-/
import OFV.Proofs.C16Proj

namespace OFV
namespace C16P
open Spec Model Model.C16

/-- the kept qubits, increasing (`[q for q in range(n) if q not in qubits]`) -/
def keptList (n : Nat) (qubits : List Nat) : List Nat := (List.range n).filter fun q => !qubits.contains q

/-- the removed qubits whose sector is 1 (`[q for q, s in zip(qubits, sectors) if s == 1]`) -/
def onesList (qubits sectors : List Nat) : List Nat :=
  ((qubits.zip sectors).filter fun p => p.2 == 1).map (·.1)

theorem testBit_orfold (ones : List Nat) (a q : Nat) :
    (ones.foldl (fun acc p => acc ||| (1 <<< p)) a).testBit q = (a.testBit q || ones.contains q) := by
  induction ones generalizing a with
  | nil => simp
  | cons p r ih =>
    rw [List.foldl_cons, ih]
    simp only [Nat.testBit_or, Nat.one_shiftLeft, Nat.testBit_two_pow, List.contains_cons]
    by_cases h : p = q
    · subst h; simp
    · have : (q == p) = false := by simpa using fun e : q = p => h e.symm
      simp [h, this]

theorem testBit_zipfold (s : Nat) (mm : List Nat) (i0 a q : Nat) :
    ((mm.zipIdx i0).foldl (fun acc (x : Nat × Nat) => if s.testBit x.2 then acc ||| (1 <<< x.1) else acc) a).testBit q
      = (a.testBit q || (mm.zipIdx i0).any (fun x => x.1 == q && s.testBit x.2)) := by
  induction mm generalizing i0 a with
  | nil => simp
  | cons p r ih =>
    rw [List.zipIdx_cons, List.foldl_cons, ih, List.any_cons]
    by_cases hs : s.testBit i0
    · simp only [hs, if_true, Nat.testBit_or, Nat.one_shiftLeft, Nat.testBit_two_pow, Bool.and_true]
      by_cases h : p = q
      · subst h; simp
      · have : (p == q) = false := by simpa using h
        simp [h, this]
    · simp [hs]

theorem embed_testBit (mm ones : List Nat) (s q : Nat) :
    (C16.embed mm ones s).testBit q
      = (mm.zipIdx.any (fun x => x.1 == q && s.testBit x.2) || ones.contains q) := by
  unfold C16.embed
  rw [testBit_orfold]
  have := testBit_zipfold s mm 0 0 q
  simp only [Nat.zero_testBit, Bool.false_or] at this
  rw [← this]

theorem any_unique (g : Nat → Bool) (q : Nat) : ∀ (mm : List Nat) (i0 j0 : Nat), mm.Nodup → mm[j0]? = some q →
    (mm.zipIdx i0).any (fun x => x.1 == q && g x.2) = g (i0 + j0) := by
  intro mm
  induction mm with
  | nil => intro i0 j0 _ h; simp at h
  | cons p r ih =>
    intro i0 j0 hn h
    rw [List.nodup_cons] at hn
    simp only [List.zipIdx_cons, List.any_cons]
    cases j0 with
    | zero =>
      simp only [List.getElem?_cons_zero, Option.some.injEq] at h
      subst h
      have : (r.zipIdx (i0 + 1)).any (fun x => x.1 == p && g x.2) = false := by
        rw [List.any_eq_false]
        intro x hx
        have hm : x.1 ∈ r := by
          have := List.mem_zipIdx hx
          rw [this.2.2]; exact List.getElem_mem _
        have : x.1 ≠ p := fun e => hn.1 (e ▸ hm)
        simp [this]
      simp [this]
    | succ j =>
      simp only [List.getElem?_cons_succ] at h
      have hpq : p ≠ q := fun e => hn.1 (e ▸ List.mem_of_getElem? h)
      have : (p == q) = false := by simpa using hpq
      rw [this, Bool.false_and, Bool.false_or, ih (i0 + 1) j hn.2 h]
      congr 1; omega

/-! ### where a kept qubit sits in `keptList` -/

theorem count_succ (R : List Nat) (hR : R.Nodup) (q : Nat) :
    (R.filter (· < q + 1)).length = (R.filter (· < q)).length + (if q ∈ R then 1 else 0) := by
  induction R with
  | nil => simp
  | cons x r ih =>
    rw [List.nodup_cons] at hR
    have ihr := ih hR.2
    simp only [List.filter_cons, List.mem_cons]
    by_cases h1 : x < q
    · have h2 : x < q + 1 := by omega
      have h3 : q ≠ x := by omega
      simp only [h1, h2, decide_true, if_true, List.length_cons, ihr, h3, false_or]; omega
    · by_cases h2 : x = q
      · subst h2
        have hq : x ∉ r := hR.1
        simp [hq] at ihr ⊢
        omega
      · have h3 : ¬ x < q + 1 := by omega
        have h4 : q ≠ x := fun e => h2 e.symm
        simp only [h1, h3, decide_false, h4, false_or]
        exact ihr

/-- the number of kept qubits below `q` is `shiftDown qubits q` -/
theorem kept_count (qubits : List Nat) (hq : qubits.Nodup) (q : Nat) :
    ((List.range q).filter fun i => !qubits.contains i).length + (qubits.filter (· < q)).length = q := by
  induction q with
  | zero => simp
  | succ q ih =>
    rw [List.range_succ, List.filter_append, List.length_append, count_succ qubits hq q]
    have hf : ([q].filter fun i => !qubits.contains i).length = if q ∈ qubits then 0 else 1 := by
      by_cases h : q ∈ qubits <;> simp [h]
    rw [hf]
    split <;> omega

theorem kept_position (qubits : List Nat) (hq : qubits.Nodup) :
    ∀ (n q : Nat), q < n → q ∉ qubits → (keptList n qubits)[shiftDown qubits q]? = some q := by
  intro n
  induction n with
  | zero => intro q h; omega
  | succ n ih =>
    intro q hqn hk
    have hc := kept_count qubits hq q
    have hsd : shiftDown qubits q = ((List.range q).filter fun i => !qubits.contains i).length := by
      unfold shiftDown; omega
    unfold keptList at ih ⊢
    rw [List.range_succ, List.filter_append]
    by_cases h : q = n
    · subst h
      rw [hsd, List.getElem?_append_right (Nat.le_refl _)]
      simp [hk]
    · have hlt : q < n := by omega
      have := ih q hlt hk
      have hl : shiftDown qubits q < ((List.range n).filter fun i => !qubits.contains i).length := by
        rcases Nat.lt_or_ge (shiftDown qubits q) ((List.range n).filter fun i => !qubits.contains i).length with h1 | h1
        · exact h1
        · rw [List.getElem?_eq_none h1] at this; cases this
      rw [List.getElem?_append_left hl]
      exact this

theorem keptList_nodup (n : Nat) (qubits : List Nat) : (keptList n qubits).Nodup :=
  List.nodup_range.filter _

theorem keptList_length (n : Nat) (qubits : List Nat) (hq : qubits.Nodup) (hqn : ∀ q ∈ qubits, q < n) :
    (keptList n qubits).length = n - qubits.length := by
  have := kept_count qubits hq n
  have hall : qubits.filter (· < n) = qubits := List.filter_eq_self.mpr (by intro r hr; simpa using hqn r hr)
  rw [hall] at this
  unfold keptList; omega

theorem mem_keptList (n : Nat) (qubits : List Nat) (q : Nat) : q ∈ keptList n qubits ↔ q < n ∧ q ∉ qubits := by
  simp [keptList]

/-! ### the sector of a removed qubit -/

theorem mem_onesList (q : Nat) : ∀ (qubits sectors : List Nat), qubits.Nodup → qubits.length = sectors.length →
    q ∈ qubits → (q ∈ onesList qubits sectors ↔ sectors[indexOf qubits q]?.getD 0 = 1) := by
  intro qubits
  induction qubits with
  | nil => intro sectors _ _ h; simp at h
  | cons x r ih =>
    intro sectors hn hl hq
    cases sectors with
    | nil => simp at hl
    | cons v vs =>
      rw [List.nodup_cons] at hn
      simp only [List.length_cons, Nat.add_right_cancel_iff] at hl
      by_cases hx : x = q
      · subst hx
        have hnot : x ∉ onesList r vs := by
          intro hm
          simp only [onesList, List.mem_map, List.mem_filter] at hm
          obtain ⟨p, ⟨hp, _⟩, rfl⟩ := hm
          exact hn.1 (List.of_mem_zip hp).1
        simp only [onesList, List.zip_cons_cons, List.filter_cons, indexOf, if_true,
          List.getElem?_cons_zero, Option.getD_some]
        by_cases hv : v = 1
        · simp [hv]
        · have : (v == 1) = false := by simpa using hv
          simp only [this, Bool.false_eq_true, if_false]
          constructor
          · intro hm; exact absurd hm hnot
          · intro h; exact absurd h hv
      · have hqr : q ∈ r := by
          rcases List.mem_cons.mp hq with h | h
          · exact absurd h.symm hx
          · exact h
        have := ih vs hn.2 hl hqr
        simp only [indexOf, hx, if_false, List.getElem?_cons_succ]
        rw [← this]
        simp only [onesList, List.zip_cons_cons, List.filter_cons]
        by_cases hv : (v == 1) = true
        · simp only [hv, if_true, List.map_cons, List.mem_cons]
          constructor
          · rintro (h | h)
            · exact absurd h.symm hx
            · exact h
          · intro h; exact Or.inr h
        · simp [hv]

theorem onesList_subset (qubits sectors : List Nat) (q : Nat) (h : q ∈ onesList qubits sectors) : q ∈ qubits := by
  simp only [onesList, List.mem_map, List.mem_filter] at h
  obtain ⟨p, ⟨hp, _⟩, rfl⟩ := h
  exact (List.of_mem_zip hp).1

theorem any_congr_mem {α : Type} (l : List α) (f g : α → Bool) (h : ∀ x ∈ l, f x = g x) : l.any f = l.any g := by
  induction l with
  | nil => rfl
  | cons a r ih =>
    simp only [List.any_cons]
    rw [h a (by simp), ih (fun x hx => h x (by simp [hx]))]

/-- **the Spec embedding satisfies `Emb`** -/
theorem embed_emb (n : Nat) (qubits sectors : List Nat) (hq : qubits.Nodup) (hqn : ∀ q ∈ qubits, q < n)
    (hl : qubits.length = sectors.length) :
    Emb n qubits sectors (C16.embed (keptList n qubits) (onesList qubits sectors)) where
  kept_bit := by
    intro s q hqlt hk
    have hno : (onesList qubits sectors).contains q = false := by
      simpa using fun h => hk (onesList_subset qubits sectors q h)
    rw [embed_testBit, hno, Bool.or_false,
      any_unique (fun j => s.testBit j) q _ 0 _ (keptList_nodup n qubits) (kept_position qubits hq n q hqlt hk)]
    simp
  kept_flip := by
    intro s q hqlt hk
    have hno : (onesList qubits sectors).contains q = false := by
      simpa using fun h => hk (onesList_subset qubits sectors q h)
    have hpos := kept_position qubits hq n q hqlt hk
    apply Nat.eq_of_testBit_eq
    intro i
    rw [embed_testBit, Nat.testBit_xor, embed_testBit]
    simp only [Nat.one_shiftLeft, Nat.testBit_two_pow]
    by_cases hi : q = i
    · subst hi
      rw [hno, Bool.or_false, Bool.or_false,
        any_unique (fun j => (s ^^^ 2 ^ shiftDown qubits q).testBit j) q _ 0 _ (keptList_nodup n qubits) hpos,
        any_unique (fun j => s.testBit j) q _ 0 _ (keptList_nodup n qubits) hpos]
      simp [Nat.testBit_xor, Nat.one_shiftLeft, Nat.testBit_two_pow]
    · have hd : decide (q = i) = false := by simpa using hi
      rw [hd, Bool.xor_false]
      congr 1
      apply any_congr_mem
      intro x hx
      have hm := List.mem_zipIdx hx
      by_cases hxi : x.1 = i
      · have hne : x.2 ≠ shiftDown qubits q := by
          intro e
          have hlt : x.2 - 0 < (keptList n qubits).length := by have := hm.2.1; omega
          have h1 : (keptList n qubits)[x.2 - 0]? = some x.1 := by
            rw [List.getElem?_eq_getElem hlt]; exact congrArg some hm.2.2.symm
          simp only [Nat.sub_zero] at h1
          rw [e, hpos] at h1
          exact hi ((Option.some.inj h1).trans hxi)
        have hdd : decide (shiftDown qubits q = x.2) = false := by simpa using fun e : shiftDown qubits q = x.2 => hne e.symm
        simp only [Nat.testBit_xor, Nat.testBit_two_pow, hdd, Bool.xor_false]
      · have : (x.1 == i) = false := by simpa using hxi
        simp [this]
  removed_bit := by
    intro s q hqm
    have hnk : (keptList n qubits).zipIdx.any (fun x => x.1 == q && s.testBit x.2) = false := by
      rw [List.any_eq_false]
      intro x hx
      have hm := List.mem_zipIdx hx
      have hxk : x.1 ∈ keptList n qubits := by rw [hm.2.2]; exact List.getElem_mem _
      have : x.1 ≠ q := fun e => ((mem_keptList n qubits x.1).mp hxk).2 (e ▸ hqm)
      simp [this]
    rw [embed_testBit, hnk, Bool.false_or]
    have := mem_onesList q qubits sectors hq hl hqm
    by_cases h : sectors[indexOf qubits q]?.getD 0 = 1
    · simp [h, this.mpr h]
    · have hno : q ∉ onesList qubits sectors := fun hm => h (this.mp hm)
      simp [h, hno]
  inj := by
    intro s t hs ht hE
    apply Nat.eq_of_testBit_eq
    intro j
    by_cases hj : j < n - qubits.length
    · have hjl : j < (keptList n qubits).length := by rw [keptList_length n qubits hq hqn]; exact hj
      have hmem := List.getElem_mem hjl
      obtain ⟨hqlt, hk⟩ := (mem_keptList n qubits _).mp hmem
      have hpos := kept_position qubits hq n _ hqlt hk
      have hidx : shiftDown qubits (keptList n qubits)[j] = j := by
        have h1 : (keptList n qubits)[j]? = some (keptList n qubits)[j] := List.getElem?_eq_getElem hjl
        have hsl : shiftDown qubits (keptList n qubits)[j] < (keptList n qubits).length := by
          rcases Nat.lt_or_ge (shiftDown qubits (keptList n qubits)[j]) (keptList n qubits).length with h2 | h2
          · exact h2
          · rw [List.getElem?_eq_none h2] at hpos; cases hpos
        rw [List.getElem?_eq_getElem hsl] at hpos
        exact (List.Nodup.getElem_inj_iff (keptList_nodup n qubits)).mp (Option.some.inj hpos)
      have h1 := congrArg (fun x => x.testBit (keptList n qubits)[j]) hE
      have hno : (onesList qubits sectors).contains (keptList n qubits)[j] = false := by
        simpa using fun h => hk (onesList_subset qubits sectors _ h)
      rw [embed_testBit, embed_testBit, hno, Bool.or_false, Bool.or_false,
        any_unique (fun j => s.testBit j) _ _ 0 _ (keptList_nodup n qubits) hpos,
        any_unique (fun j => t.testBit j) _ _ 0 _ (keptList_nodup n qubits) hpos, hidx] at h1
      simpa using h1
    · have hge : 2 ^ (n - qubits.length) ≤ 2 ^ j := Nat.pow_le_pow_right (by omega) (by omega)
      rw [Nat.testBit_lt_two_pow (by omega), Nat.testBit_lt_two_pow (by omega)]

end C16P
end OFV
