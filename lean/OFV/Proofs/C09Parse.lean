/- C09: BinaryPolynomial(str) denotes the polynomial its tokens spell out. -/
import OFV.Proofs.C09Builtin

namespace OFV.C09
open OFV.Model.C09 OFV.Spec.C09

/-- value of one whitespace-separated token: a constant is its parity, `w<i>` is the variable -/
def tokVal (w : Nat → Bool) : Tok → Bool
  | .const k => k % 2 == 1
  | .var i => w i
  | .bad => false

/-- value of a summand: the product of its tokens -/
def summandVal (w : Nat → Bool) (toks : List Tok) : Bool := toks.all (tokVal w)

theorem evalMono_erase_none (w : Nat → Bool) (t : Mono) : evalMono w (t.erase none) = evalMono w t := by
  induction t with
  | nil => rfl
  | cons f r ih =>
    cases f with
    | none => simp
    | some i => rw [List.erase_cons_tail (by simp)]; simp [ih]

theorem evalMono_snoc (w : Nat → Bool) (t : Mono) (f : Fac) :
    evalMono w (t ++ [f]) = (evalMono w t && evalMono w [f]) := evalMono_append w t [f]

theorem canonTerm_ne_nil (t : Mono) (h : t ≠ []) : canonTerm t ≠ [] := by
  unfold canonTerm
  by_cases hn : none ∈ t
  · simp [hn]
  · simp only [hn, if_false, List.append_nil]
    intro he
    have hidx : idx t = [] := by
      cases hi : idx t with
      | nil => rfl
      | cons a b =>
        exact absurd (List.map_eq_nil_iff.mp he) (sortU_ne_nil _ (by rw [hi]; simp))
    cases t with
    | nil => exact h rfl
    | cons f r =>
      cases f with
      | none => exact hn (by simp)
      | some i => simp at hidx

/-- `_parse_string`: either the summand is 0 (an even constant: the result is `[]`), or the
result is a non-empty monomial with the value of the product of the tokens -/
theorem parseStrGo_sound (w : Nat → Bool) (toks : List Tok) (tl : Mono) (addOne : Bool) (r : Mono)
    (h : parseStrGo toks tl addOne = .ok r) (hne : tl ≠ [] ∨ toks ≠ [])
    (hinv : addOne = true → tl = [none]) :
    (!r.isEmpty && evalMono w r) = (evalMono w tl && summandVal w toks) := by
  induction toks generalizing tl addOne with
  | nil =>
    simp only [parseStrGo, Except.ok.injEq] at h
    subst h
    have hnil : tl ≠ [] := by rcases hne with h | h; exact h; exact absurd rfl h
    have : (canonTerm tl).isEmpty = false := by
      simpa [List.isEmpty_iff] using canonTerm_ne_nil tl hnil
    simp [this, evalMono_canonTerm, summandVal]
  | cons tok rest ih =>
    unfold parseStrGo at h
    simp only at h
    -- the list after dropping the pending 'one'
    have hev : evalMono w (if addOne = true then tl.erase none else tl) = evalMono w tl := by
      split
      · exact evalMono_erase_none w tl
      · rfl
    generalize htl' : (if addOne = true then tl.erase none else tl) = tl' at h hev
    cases tok with
    | bad => simp at h
    | var i =>
      simp only at h
      have := ih (tl' ++ [some i]) false h (Or.inl (by simp)) (by simp)
      rw [this, evalMono_snoc, hev]
      simp [summandVal, tokVal, Bool.and_assoc]
    | const k =>
      simp only at h
      by_cases hk : k % 2 = 1
      · simp only [hk, if_true] at h
        by_cases hlen : tl'.length > 0
        · simp only [hlen, if_true] at h
          have := ih tl' false h (Or.inl (by intro e; simp [e] at hlen)) (by simp)
          rw [this, hev]
          simp [summandVal, tokVal, hk]
        · simp only [hlen, if_false] at h
          have hnil : tl' = [] := by
            cases tl' with
            | nil => rfl
            | cons _ _ => simp at hlen
          subst hnil
          have := ih ([] ++ [none]) true h (Or.inl (by simp)) (by simp)
          rw [this]
          have : evalMono w tl = true := by rw [← hev]; rfl
          simp [summandVal, tokVal, hk, this]
      · simp only [hk, if_false, Except.ok.injEq] at h
        subst h
        have : (k % 2 == 1) = false := by simpa using hk
        simp [summandVal, tokVal, this]

theorem parseString_sound (w : Nat → Bool) (toks : List Tok) (r : Mono)
    (h : parseString toks = .ok r) (hne : toks ≠ []) :
    (!r.isEmpty && evalMono w r) = summandVal w toks := by
  have := parseStrGo_sound w toks [] false r h (Or.inr hne) (by simp)
  simpa using this

theorem mapM_parse_sound (w : Nat → Bool) (sm : List (List Tok)) (ts : List Mono)
    (h : sm.mapM parseString = .ok ts) (hne : ∀ toks ∈ sm, toks ≠ []) :
    ts.foldr (fun t a => xor (!t.isEmpty && evalMono w t) a) false
      = sm.foldr (fun toks a => xor (summandVal w toks) a) false := by
  induction sm generalizing ts with
  | nil =>
    simp only [List.mapM_nil, pure, Except.pure, Except.ok.injEq] at h
    subst h; rfl
  | cons toks rest ih =>
    rw [List.mapM_cons] at h
    simp only [bind, Except.bind] at h
    split at h
    · cases h
    · next r hr =>
      split at h
      · cases h
      · next rs hrs =>
        simp only [pure, Except.pure, Except.ok.injEq] at h
        subst h
        rw [List.foldr_cons, List.foldr_cons, ih rs hrs (fun t ht => hne t (List.mem_cons_of_mem _ ht)),
          parseString_sound w toks r hr (hne toks (by simp))]

/-- `BinaryPolynomial(str)`: when every summand has at least one token, the constructed
polynomial is the XOR over the summands of the product of their tokens -/
theorem ofString_sound' (w : Nat → Bool) (sm : List (List Tok)) (p : Poly) (h : ofString sm = .ok p)
    (hne : ∀ toks ∈ sm, toks ≠ []) :
    evalPoly w p = sm.foldr (fun toks a => xor (summandVal w toks) a) false := by
  unfold ofString at h
  simp only [bind, Except.bind] at h
  split at h
  · cases h
  · next ts hts =>
    simp only [pure, Except.pure, Except.ok.injEq] at h
    subst h
    rw [eval_checkTerms, mapM_parse_sound w sm ts hts hne]

end OFV.C09
