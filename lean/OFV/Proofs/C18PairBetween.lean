/- C18 — helper lemmas for `pair_between`: closed form through `List.rotate`. -/
import OFV.Model.C18
import OFV.Spec.C18
import Mathlib.Data.List.Rotate

namespace OFV.Proofs.C18
open OFV.Model.C18 OFV.Spec.C18

variable {α : Type}

theorem at'_lt (l : List (Option α)) (i : Nat) (h : i < l.length) : at' l i = l[i] := by
  simp [at', List.getD_eq_getElem?_getD, h]

/-- yields of `pair_between` when `frag1` is not longer: `frag2` is rotated against `frag1` -/
theorem pairBetweenAt_le (f1 f2 : List (Option α)) (io : Nat) (h : f1.length ≤ f2.length) :
    pairBetweenAt f1 f2 io =
      List.zipWith Item.pr f1 (f2.rotate io) ++ ((f2.rotate io).drop f1.length).map Item.sg := by
  unfold pairBetweenAt
  have hn : ¬ f1.length > f2.length := by omega
  simp only [hn, if_false]
  congr 1
  · apply List.ext_getElem
    · simp [Nat.min_eq_left h]
    · intro i h1 h2
      simp at h1 h2
      have hi : i < f1.length := by omega
      have hmod : (i + io) % f2.length < f2.length := Nat.mod_lt _ (by omega)
      simp [at'_lt _ _ hi, at'_lt _ _ hmod, List.getElem_rotate]
  · split
    · apply List.ext_getElem
      · simp
      · intro i h1 h2
        simp at h1 h2
        have hmod : (f1.length + i + io) % f2.length < f2.length := Nat.mod_lt _ (by omega)
        have e : f1.length + io + i = f1.length + i + io := by omega
        simp [at'_lt _ _ hmod, List.getElem_rotate, e]
    · have : f1.length = f2.length := by omega
      simp [this]

/-- yields of `pair_between` when `frag1` is longer: `frag1` is rotated against `frag2` -/
theorem pairBetweenAt_gt (f1 f2 : List (Option α)) (io : Nat) (h : f2.length < f1.length) :
    pairBetweenAt f1 f2 io =
      List.zipWith (fun y x => Item.pr x y) f2 (f1.rotate io) ++ ((f1.rotate io).drop f2.length).map Item.sg := by
  unfold pairBetweenAt
  have hn : f1.length > f2.length := h
  have hn2 : ¬ f2.length > f1.length := by omega
  simp only [hn, hn2, if_true, if_false, List.append_nil]
  congr 1
  · apply List.ext_getElem
    · simp [Nat.min_eq_right (Nat.le_of_lt h)]; omega
    · intro i h1 h2
      simp at h1 h2
      have hi : i < f2.length := by omega
      have hmod : (i + io) % f1.length < f1.length := Nat.mod_lt _ (by omega)
      simp [at'_lt _ _ hi, at'_lt _ _ hmod, List.getElem_rotate]
  · apply List.ext_getElem
    · simp
    · intro i h1 h2
      simp at h1 h2
      have hmod : (f2.length + i + io) % f1.length < f1.length := Nat.mod_lt _ (by omega)
      have e : f2.length + io + i = f2.length + i + io := by omega
      simp [at'_lt _ _ hmod, List.getElem_rotate, e]

/-! ### facts about the closed form -/

section
variable {β : Type}

theorem labelsOf_append (p q : Pairing β) : labelsOf (p ++ q) = labelsOf p ++ labelsOf q := by
  induction p with
  | nil => rfl
  | cons x r ih => cases x <;> simp [labelsOf, ih]

theorem wellFormed_append (p q : Pairing β) : wellFormed (p ++ q) = (wellFormed p && wellFormed q) := by
  induction p with
  | nil => rfl
  | cons x r ih => cases x <;> simp [wellFormed, ih]

theorem singles_append (p q : Pairing β) : singles (p ++ q) = singles p + singles q := by
  induction p with
  | nil => simp [singles]
  | cons x r ih => cases x <;> simp [singles, ih] <;> omega

theorem labelsOf_map_sg (l : List β) : labelsOf (l.map Item.sg) = l := by
  induction l with
  | nil => rfl
  | cons a r ih => simp [labelsOf, ih]

theorem wellFormed_map_sg (l : List β) : wellFormed (l.map Item.sg) = true := by
  induction l with
  | nil => rfl
  | cons a r ih => simp [wellFormed, ih]

theorem singles_map_sg (l : List β) : singles (l.map Item.sg) = l.length := by
  induction l with
  | nil => rfl
  | cons a r ih => simp [singles, ih]

/-- the closed form with the first fragment fixed -/
def rotL (f r : List β) : Pairing β := List.zipWith Item.pr f r ++ (r.drop f.length).map Item.sg
/-- the closed form with the second fragment fixed -/
def rotR (f r : List β) : Pairing β :=
  List.zipWith (fun y x => Item.pr x y) f r ++ (r.drop f.length).map Item.sg

theorem rotL_facts (f r : List β) (h : f.length ≤ r.length) :
    wellFormed (rotL f r) = true ∧ (labelsOf (rotL f r)).Perm (f ++ r) ∧
      singles (rotL f r) = r.length - f.length := by
  induction f generalizing r with
  | nil => simp [rotL, labelsOf_map_sg, wellFormed_map_sg, singles_map_sg]
  | cons a f ih =>
    cases r with
    | nil => simp at h
    | cons b r =>
      have h' : f.length ≤ r.length := by simpa using h
      obtain ⟨w, p, s⟩ := ih r h'
      refine ⟨?_, ?_, ?_⟩
      · simpa [rotL, wellFormed] using w
      · have : labelsOf (rotL (a :: f) (b :: r)) = a :: b :: labelsOf (rotL f r) := by
          simp [rotL, labelsOf]
        rw [this]
        refine (List.Perm.cons a ?_)
        exact ((List.Perm.cons b p).trans (List.perm_middle.symm))
      · have : singles (rotL (a :: f) (b :: r)) = singles (rotL f r) := by
          simp [rotL, singles]
        rw [this, s]; simp

theorem rotR_facts (f r : List β) (h : f.length ≤ r.length) :
    wellFormed (rotR f r) = true ∧ (labelsOf (rotR f r)).Perm (r ++ f) ∧
      singles (rotR f r) = r.length - f.length := by
  induction f generalizing r with
  | nil => simp [rotR, labelsOf_map_sg, wellFormed_map_sg, singles_map_sg]
  | cons a f ih =>
    cases r with
    | nil => simp at h
    | cons b r =>
      have h' : f.length ≤ r.length := by simpa using h
      obtain ⟨w, p, s⟩ := ih r h'
      refine ⟨?_, ?_, ?_⟩
      · simpa [rotR, wellFormed] using w
      · have : labelsOf (rotR (a :: f) (b :: r)) = b :: a :: labelsOf (rotR f r) := by
          simp [rotR, labelsOf]
        rw [this]
        refine (List.Perm.cons b ?_)
        exact ((List.Perm.cons a p).trans (List.perm_middle.symm))
      · have : singles (rotR (a :: f) (b :: r)) = singles (rotR f r) := by
          simp [rotR, singles]
        rw [this, s]; simp

end

theorem pairBetweenAt_eq_rotL (f1 f2 : List (Option α)) (io : Nat) (h : f1.length ≤ f2.length) :
    pairBetweenAt f1 f2 io = rotL f1 (f2.rotate io) := pairBetweenAt_le f1 f2 io h

theorem pairBetweenAt_eq_rotR (f1 f2 : List (Option α)) (io : Nat) (h : f2.length < f1.length) :
    pairBetweenAt f1 f2 io = rotR f2 (f1.rotate io) := pairBetweenAt_gt f1 f2 io h

/-- every yield of `pair_between` is a matching of all labels with `|len1 - len2|` leftovers -/
theorem pairBetweenAt_matching (f1 f2 : List (Option α)) (io : Nat) :
    wellFormed (pairBetweenAt f1 f2 io) = true ∧
    (labelsOf (pairBetweenAt f1 f2 io)).Perm (f1 ++ f2) ∧
    singles (pairBetweenAt f1 f2 io) = max f1.length f2.length - min f1.length f2.length := by
  by_cases h : f1.length ≤ f2.length
  · rw [pairBetweenAt_eq_rotL _ _ _ h]
    obtain ⟨w, p, s⟩ := rotL_facts f1 (f2.rotate io) (by simpa using h)
    refine ⟨w, p.trans ?_, ?_⟩
    · exact List.Perm.append_left _ (List.rotate_perm _ _)
    · rw [s]; simp; omega
  · have h' : f2.length < f1.length := by omega
    rw [pairBetweenAt_eq_rotR _ _ _ h']
    obtain ⟨w, p, s⟩ := rotR_facts f2 (f1.rotate io) (by simp; omega)
    refine ⟨w, p.trans ?_, ?_⟩
    · exact List.Perm.append_right _ (List.rotate_perm _ _)
    · rw [s]; simp; omega

/-! ### every cross pair exactly once -/

section
variable {β : Type} [DecidableEq β]

theorem count_pr_map_sg (a b : β) (l : List β) : (l.map Item.sg).count (Item.pr a b) = 0 := by
  induction l with
  | nil => rfl
  | cons x r ih => simp [List.count_cons, ih]

theorem count_zip_notMem (a b : β) (f r : List β) (h : a ∉ f) :
    (List.zipWith Item.pr f r).count (Item.pr a b) = 0 := by
  induction f generalizing r with
  | nil => simp
  | cons x f ih =>
    cases r with
    | nil => simp
    | cons y r =>
      have hx : a ≠ x := fun e => h (by simp [e])
      have hf : a ∉ f := fun e => h (by simp [e])
      simp [List.count_cons, ih r hf, hx, Ne.symm hx]

theorem count_zip_notMem_right (a b : β) (f r : List β) (h : b ∉ r) :
    (List.zipWith Item.pr f r).count (Item.pr a b) = 0 := by
  induction f generalizing r with
  | nil => simp
  | cons x f ih =>
    cases r with
    | nil => simp
    | cons y r =>
      have hx : b ≠ y := fun e => h (by simp [e])
      have hf : b ∉ r := fun e => h (by simp [e])
      simp [List.count_cons, ih r hf, hx, Ne.symm hx]

/-- in `zipWith pr f r` with `f` duplicate-free the pair `(f[i], b)` occurs once iff `r[i] = b` -/
theorem count_zip_at (f r : List β) (hf : f.Nodup) (i : Nat) (hi : i < f.length) (b : β) :
    (List.zipWith Item.pr f r).count (Item.pr f[i] b) = if r[i]? = some b then 1 else 0 := by
  induction f generalizing r i with
  | nil => simp at hi
  | cons x f ih =>
    cases r with
    | nil => simp
    | cons y r =>
      have hx : x ∉ f := (List.nodup_cons.mp hf).1
      have hf' : f.Nodup := (List.nodup_cons.mp hf).2
      cases i with
      | zero =>
        simp only [List.zipWith_cons_cons, List.getElem_cons_zero, List.count_cons,
          count_zip_notMem x b f r hx, Nat.zero_add, List.getElem?_cons_zero]
        by_cases e : y = b <;> simp [e]
      | succ i =>
        have hi' : i < f.length := by simpa using hi
        have hne : f[i] ≠ x := fun e => hx (e ▸ List.getElem_mem hi')
        simp only [List.zipWith_cons_cons, List.getElem_cons_succ, List.count_cons, ih r hf' i hi',
          List.getElem?_cons_succ]
        simp [hne, Ne.symm hne]

theorem count_rotL (f r : List β) (hf : f.Nodup) (i : Nat) (hi : i < f.length) (b : β) :
    (rotL f r).count (Item.pr f[i] b) = if r[i]? = some b then 1 else 0 := by
  rw [rotL, List.count_append, count_pr_map_sg, count_zip_at f r hf i hi b]; rfl

theorem count_rotL_rev (f r : List β) (a b : β) (hb : b ∉ f) :
    (rotL f r).count (Item.pr b a) = 0 := by
  rw [rotL, List.count_append, count_pr_map_sg, count_zip_notMem b a f r hb]

/-- swap the components of the pairs -/
def swapItem : Item β → Item β
  | .pr a b => .pr b a
  | x => x

theorem zipWith_swap (f r : List β) :
    List.zipWith (fun y x => Item.pr x y) f r = (List.zipWith Item.pr f r).map swapItem := by
  induction f generalizing r with
  | nil => rfl
  | cons x f ih =>
    cases r with
    | nil => rfl
    | cons y r =>
      show Item.pr y x :: List.zipWith (fun y x => Item.pr x y) f r = _
      rw [ih r]; rfl

theorem rotR_eq_swap (f r : List β) : rotR f r = (rotL f r).map swapItem := by
  rw [rotR, rotL, List.map_append, zipWith_swap, List.map_map]
  congr 1

theorem count_swap (p : Pairing β) (a b : β) :
    (p.map swapItem).count (Item.pr a b) = p.count (Item.pr b a) := by
  induction p with
  | nil => rfl
  | cons x p ih =>
    rw [List.map_cons, List.count_cons, List.count_cons, ih]
    cases x with
    | pr c d =>
      by_cases h : c = b ∧ d = a
      · obtain ⟨rfl, rfl⟩ := h; simp [swapItem]
      · have h1 : ¬ (Item.pr d c == Item.pr a b) = true := by
          simp; intro e1 e2; exact h ⟨e2, e1⟩
        have h2 : ¬ (Item.pr c d == Item.pr b a) = true := by
          simp; intro e1 e2; exact h ⟨e1, e2⟩
        simp only [swapItem, h1, h2]
    | sg c => simp [swapItem]
    | bad => simp [swapItem]

end

theorem sum_indicator (n io0 : Nat) :
    ((List.range n).map (fun io => if io = io0 then 1 else 0)).sum = if io0 < n then 1 else 0 := by
  induction n with
  | zero => simp
  | succ n ih =>
    rw [List.range_succ, List.map_append, List.sum_append, ih]
    by_cases h1 : io0 < n <;> by_cases h2 : n = io0 <;> by_cases h3 : io0 < n + 1 <;>
      simp [h1, h2, h3] <;> omega

theorem mod_two_cases (x n : Nat) (h : x < 2 * n) : x % n = if x < n then x else x - n := by
  split
  · exact Nat.mod_eq_of_lt ‹_›
  · rw [Nat.mod_eq_sub_mod (by omega)]
    exact Nat.mod_eq_of_lt (by omega)

/-- there is exactly one rotation offset below `n` that brings position `j` under position `i` -/
theorem sum_rot_indicator (n i j : Nat) (hi : i < n) (hj : j < n) :
    ((List.range n).map (fun io => if (i + io) % n = j then 1 else 0)).sum = 1 := by
  have key : ∀ io ∈ List.range n,
      (if (i + io) % n = j then 1 else 0) = (if io = (j + n - i) % n then (1 : Nat) else 0) := by
    intro io hio
    have hio : io < n := List.mem_range.mp hio
    rw [mod_two_cases (i + io) n (by omega), mod_two_cases (j + n - i) n (by omega)]
    by_cases h1 : i + io < n <;> by_cases h2 : j + n - i < n <;> simp only [h1, h2, if_true, if_false]
    · by_cases h3 : i + io = j <;> by_cases h4 : io = j + n - i <;> simp [h3, h4] <;> omega
    · by_cases h3 : i + io = j <;> by_cases h4 : io = j + n - i - n <;> simp [h3, h4] <;> omega
    · by_cases h3 : i + io - n = j <;> by_cases h4 : io = j + n - i <;> simp [h3, h4] <;> omega
    · by_cases h3 : i + io - n = j <;> by_cases h4 : io = j + n - i - n <;> simp [h3, h4] <;> omega
  rw [List.map_congr_left key, sum_indicator]
  have : (j + n - i) % n < n := Nat.mod_lt _ (by omega)
  simp [this]

/-! ### assembling the statement of `pair_between` on Spec labels -/

theorem pairBetween_zero (f1 f2 : List L) :
    pairBetween f1 f2 0 = (List.range (max f1.length f2.length)).map (pairBetweenAt f1 f2) := by
  simp [pairBetween, List.range_eq_range']

theorem pairCount_le (f1 f2 : List L) (hnd : (f1 ++ f2).Nodup) (h : f1.length ≤ f2.length)
    (i j : Nat) (hi : i < f1.length) (hj : j < f2.length) :
    pairCount (pairBetween f1 f2 0) f1[i] f2[j] = 1 := by
  have hn1 : f1.Nodup := (List.nodup_append.mp hnd).1
  have hn2 : f2.Nodup := (List.nodup_append.mp hnd).2.1
  have hdis : f2[j] ∉ f1 := fun hm =>
    (List.nodup_append.mp hnd).2.2 _ hm _ (List.getElem_mem hj) rfl
  rw [pairBetween_zero, Nat.max_eq_right h, pairCount, List.map_map]
  rw [← sum_rot_indicator f2.length i j (by omega) hj]
  congr 1
  apply List.map_congr_left
  intro io _
  simp only [Function.comp]
  rw [pairBetweenAt_eq_rotL _ _ _ h, count_rotL f1 _ hn1 i hi, count_rotL_rev f1 _ _ _ hdis]
  have hlen : i < (f2.rotate io).length := by simp; omega
  have hmod : (i + io) % f2.length < f2.length := Nat.mod_lt _ (by omega)
  rw [List.getElem?_eq_getElem hlen, List.getElem_rotate]
  simp only [Option.some.injEq, Nat.add_zero, hn2.getElem_inj_iff]

/-- swapping the fragments swaps the pairs -/
theorem pairBetweenAt_swap (f1 f2 : List L) (io : Nat) (h : f2.length < f1.length) :
    pairBetweenAt f1 f2 io = (pairBetweenAt f2 f1 io).map swapItem := by
  rw [pairBetweenAt_eq_rotR _ _ _ h, pairBetweenAt_eq_rotL _ _ _ (Nat.le_of_lt h), rotR_eq_swap]

theorem pairCount_gt (f1 f2 : List L) (hnd : (f1 ++ f2).Nodup) (h : f2.length < f1.length)
    (i j : Nat) (hi : i < f1.length) (hj : j < f2.length) :
    pairCount (pairBetween f1 f2 0) f1[i] f2[j] = 1 := by
  have hnd' : (f2 ++ f1).Nodup := (List.perm_append_comm.nodup_iff).mp hnd
  have := pairCount_le f2 f1 hnd' (Nat.le_of_lt h) j i hj hi
  rw [pairBetween_zero, pairCount, List.map_map] at this ⊢
  rw [Nat.max_comm] at this
  rw [← this]
  congr 1
  apply List.map_congr_left
  intro io _
  simp only [Function.comp]
  rw [pairBetweenAt_swap f1 f2 io h, count_swap, count_swap, Nat.add_comm]

theorem crossOnce_pairBetween (f1 f2 : List L) (hnd : (f1 ++ f2).Nodup) :
    crossOnce f1 f2 (pairBetween f1 f2 0) = true := by
  simp only [crossOnce, List.all_eq_true, beq_iff_eq]
  intro a ha b hb
  obtain ⟨i, hi, rfl⟩ := List.getElem_of_mem ha
  obtain ⟨j, hj, rfl⟩ := List.getElem_of_mem hb
  by_cases h : f1.length ≤ f2.length
  · exact pairCount_le f1 f2 hnd h i j hi hj
  · exact pairCount_gt f1 f2 hnd (by omega) i j hi hj
