/- C11: the column sweep annihilates its targets — layer level.  Combines the numeric step lemmas
(`C11Step`) with the disjointness of the column pairs of a layer. -/
import OFV.Model.C11
import OFV.Proofs.C11
import OFV.Proofs.C11Num
import OFV.Proofs.C11Step
import OFV.Proofs.C11Layers

namespace OFV
namespace Model
namespace C11

/-- an `m × n` matrix -/
def Rect (M : Mat) (m n : Nat) : Prop := M.length = m ∧ ∀ row ∈ M, row.length = n

theorem rotateCols_rect {M : Mat} {m n : Nat} (h : Rect M m n) (G : G2) (a b : Nat) :
    Rect (rotateCols M G a b) m n := by
  unfold rotateCols
  refine ⟨by simp [h.1], ?_⟩
  intro row hrow
  obtain ⟨r, hr, rfl⟩ := List.mem_map.mp hrow
  simp [h.2 r hr]

theorem rect_row_len {M : Mat} {m n : Nat} (h : Rect M m n) {i : Nat} (hi : i < m) :
    (M.getD i []).length = n := by
  apply h.2
  rw [List.getD_eq_getElem?_getD, List.getElem?_eq_getElem (by rw [h.1]; exact hi)]
  simp

/-- exact regime at the step for position `(i, j)`: every quantity compared with the tolerance is either
exactly zero or not below it -/
def StepExact (tol : Rat) (M : Mat) (i j : Nat) : Prop :=
  (small tol (M.get i (j - 1)).conj = true → (M.get i (j - 1)).conj = 0) ∧
  (small tol (M.get i j).conj = true → (M.get i j).conj = 0) ∧
  RealExact tol (M.get i (j - 1)).conj (M.get i j).conj ∧
  (big tol (M.get i j).conj = false → M.get i j = 0)

/-- the exact regime along the run of `colLayer` (follows its recursion) -/
def LayerExact (tol : Rat) (ai : Bool) : List (Nat × Nat) → Mat → Prop
  | [], _ => True
  | (i, j) :: ps, M =>
    StepExact tol M i j ∧
    (∀ G, (ai || big tol (M.get i j).conj) = true →
      givensElems tol (M.get i (j - 1)).conj (M.get i j).conj true = .ok G →
      LayerExact tol ai ps (rotateCols M G (j - 1) j)) ∧
    ((ai || big tol (M.get i j).conj) = false → LayerExact tol ai ps M)

/-- effect of one layer: every target is zero afterwards, columns outside the rotated pairs are untouched,
and a row whose two entries in a rotated pair were zero keeps them zero -/
theorem colLayer_effect (tol : Rat) (htol : 0 < tol) (ai : Bool) (m n : Nat) :
    ∀ (ps : List (Nat × Nat)) (M : Mat) (rs : List Rot) (M' : Mat),
      colLayer tol ai ps M = .ok (rs, M') → LayerExact tol ai ps M → Rect M m n →
      (∀ p ∈ ps, p.1 < m ∧ 1 ≤ p.2 ∧ p.2 < n) → ps.Pairwise (fun p q => p.2 + 2 ≤ q.2) →
      Rect M' m n ∧ (∀ p ∈ ps, M'.get p.1 p.2 = 0) ∧
      (∀ i' x, i' < m → (∀ p ∈ ps, x ≠ p.2 ∧ x ≠ p.2 - 1) → M'.get i' x = M.get i' x) ∧
      (∀ i' p, i' < m → p ∈ ps → M.get i' (p.2 - 1) = 0 → M.get i' p.2 = 0 →
        M'.get i' (p.2 - 1) = 0 ∧ M'.get i' p.2 = 0) := by
  intro ps
  induction ps with
  | nil =>
    intro M rs M' h _ hR _ _
    simp [colLayer] at h
    obtain ⟨_, h2⟩ := h
    subst h2
    exact ⟨hR, by simp, fun _ _ _ _ => rfl, by simp⟩
  | cons p ps ih =>
    intro M rs M' h hex hR hval hpw
    obtain ⟨i, j⟩ := p
    obtain ⟨hstep, hexT, hexF⟩ := hex
    obtain ⟨hi, hj1, hjn⟩ := hval (i, j) List.mem_cons_self
    simp only at hi hj1 hjn
    have hvalps : ∀ p ∈ ps, p.1 < m ∧ 1 ≤ p.2 ∧ p.2 < n := fun p hp => hval p (List.mem_cons_of_mem _ hp)
    have hgap : ∀ q ∈ ps, j + 2 ≤ q.2 := (List.pairwise_cons.mp hpw).1
    have hpwps := (List.pairwise_cons.mp hpw).2
    have hrowlen : ∀ i', i' < m → (M.getD i' []).length = n := fun i' h' => rect_row_len hR h'
    have hlen : M.length = m := hR.1
    unfold colLayer at h
    simp only at h
    by_cases hc : (ai || big tol (M.get i j).conj) = true
    · rw [if_pos hc] at h
      cases hG : givensElems tol (M.get i (j - 1)).conj (M.get i j).conj true with
      | error e => simp [hG, bind, Except.bind] at h
      | ok G =>
        cases hP : params G with
        | error e => simp [hG, hP, bind, Except.bind] at h
        | ok t =>
          obtain ⟨s, c, e⟩ := t
          cases hRec : colLayer tol ai ps (rotateCols M G (j - 1) j) with
          | error e => simp [hG, hP, hRec, bind, Except.bind] at h
          | ok t2 =>
            obtain ⟨rs2, M2⟩ := t2
            simp only [hG, hP, hRec, bind, Except.bind] at h
            injection h with h
            injection h with _ h2
            subst h2
            have hR1 := rotateCols_rect hR G (j - 1) j
            obtain ⟨hR', hz, hun, hpair⟩ := ih _ _ _ hRec (hexT G hc hG) hR1 hvalps hpwps
            have htarget : (rotateCols M G (j - 1) j).get i j = 0 :=
              column_step_zeroes_target_aux tol htol M i j G (by rw [hlen]; exact hi) hj1
                (by rw [hrowlen i hi]; exact hjn) hstep.1 hstep.2.1 hstep.2.2.1 hG
            have hkeep := fun i' (h' : i' < m) x =>
              column_step_keeps_aux M G i' j x (by rw [hlen]; exact h') hj1 (by rw [hrowlen i' h']; exact hjn)
            refine ⟨hR', ?_, ?_, ?_⟩
            · intro p hp
              rcases List.mem_cons.mp hp with rfl | hp
              · rw [hun i j hi (fun q hq => by have := hgap q hq; omega)]
                exact htarget
              · exact hz p hp
            · intro i' x hi' hx
              have hx0 := hx (i, j) List.mem_cons_self
              simp only at hx0
              rw [hun i' x hi' (fun q hq => hx q (List.mem_cons_of_mem _ hq))]
              exact (hkeep i' hi' x).2 hx0.1 hx0.2
            · intro i' p hi' hp h1 h2
              rcases List.mem_cons.mp hp with rfl | hp
              · simp only at h1 h2 ⊢
                have hk := (hkeep i' hi' 0).1 h1 h2
                rw [hun i' (j - 1) hi' (fun q hq => by have := hgap q hq; omega),
                    hun i' j hi' (fun q hq => by have := hgap q hq; omega)]
                exact hk
              · have hg := hgap p hp
                have e1 := (hkeep i' hi' (p.2 - 1)).2 (by omega) (by omega)
                have e2 := (hkeep i' hi' p.2).2 (by omega) (by omega)
                exact hpair i' p hi' hp (by rw [e1]; exact h1) (by rw [e2]; exact h2)
    · have hc' : (ai || big tol (M.get i j).conj) = false := by simpa using hc
      rw [if_neg hc] at h
      obtain ⟨hR', hz, hun, hpair⟩ := ih _ _ _ h (hexF hc') hR hvalps hpwps
      have hbig : big tol (M.get i j).conj = false := by
        have := (Bool.or_eq_false_iff.mp hc').2; exact this
      have hzero : M.get i j = 0 := hstep.2.2.2 hbig
      refine ⟨hR', ?_, ?_, ?_⟩
      · intro p hp
        rcases List.mem_cons.mp hp with rfl | hp
        · rw [hun i j hi (fun q hq => by have := hgap q hq; omega)]
          exact hzero
        · exact hz p hp
      · intro i' x hi' hx
        exact hun i' x hi' (fun q hq => hx q (List.mem_cons_of_mem _ hq))
      · intro i' p hi' hp h1 h2
        rcases List.mem_cons.mp hp with rfl | hp
        · simp only at h1 h2 ⊢
          rw [hun i' (j - 1) hi' (fun q hq => by have := hgap q hq; omega),
              hun i' j hi' (fun q hq => by have := hgap q hq; omega)]
          exact ⟨h1, h2⟩
        · exact hpair i' p hi' hp h1 h2

/-- the exact regime along the run of `colSweep` -/
def SweepExact (tol : Rat) (ai : Bool) (layerOf : Nat → List (Nat × Nat)) : List Nat → Mat → Prop
  | [], _ => True
  | k :: ks, M =>
    LayerExact tol ai (layerOf k) M ∧
    ∀ ops M', colLayer tol ai (layerOf k) M = .ok (ops, M') → SweepExact tol ai layerOf ks M'

/-- the sweep of `givens_decomposition_square` over the iterations `k0, …, k0 + len - 1`: if every position
scheduled before `k0` is zero at the start, every position scheduled before `k0 + len` is zero at the end -/
theorem square_sweep_invariant (tol : Rat) (htol : 0 < tol) (ai : Bool) (n : Nat) :
    ∀ (len k0 : Nat) (M : Mat) (ls : List (List Rot)) (M' : Mat),
      colSweep tol (squareLayer n) ai (List.range' k0 len) M = .ok (ls, M') →
      SweepExact tol ai (squareLayer n) (List.range' k0 len) M → Rect M n n →
      (∀ i j k', k' < k0 → (i, j) ∈ squareLayer n k' → M.get i j = 0) →
      Rect M' n n ∧ ∀ i j k', k' < k0 + len → (i, j) ∈ squareLayer n k' → M'.get i j = 0 := by
  intro len
  induction len with
  | zero =>
    intro k0 M ls M' h _ hR hz
    simp [colSweep] at h
    obtain ⟨_, h2⟩ := h
    subst h2
    exact ⟨hR, by simpa using hz⟩
  | succ len ih =>
    intro k0 M ls M' h hex hR hz
    rw [List.range'_succ] at h hex
    obtain ⟨hexL, hexS⟩ := hex
    unfold colSweep at h
    cases hL : colLayer tol ai (squareLayer n k0) M with
    | error e => simp [hL, bind, Except.bind] at h
    | ok t =>
      obtain ⟨ops, M1⟩ := t
      cases hS : colSweep tol (squareLayer n) ai (List.range' (k0 + 1) len) M1 with
      | error e => simp [hL, hS, bind, Except.bind] at h
      | ok t2 =>
        obtain ⟨ls2, M2⟩ := t2
        simp only [hL, hS, bind, Except.bind] at h
        injection h with h
        injection h with _ h2
        subst h2
        have hval : ∀ p ∈ squareLayer n k0, p.1 < n ∧ 1 ≤ p.2 ∧ p.2 < n := by
          intro p hp
          obtain ⟨i, j⟩ := p
          rw [mem_squareLayer] at hp
          simp only; omega
        obtain ⟨hR1, hz1, hun, hpair⟩ :=
          colLayer_effect tol htol ai n n _ _ _ _ hL hexL hR hval (squareLayer_pairwise n k0)
        have hz' : ∀ i j k', k' < k0 + 1 → (i, j) ∈ squareLayer n k' → M1.get i j = 0 := by
          intro i j k' hk' hmem
          by_cases hk0 : k' = k0
          · subst hk0; exact hz1 (i, j) hmem
          · have hlt : k' < k0 := by omega
            have hm := (mem_squareLayer n k' i j).1 hmem
            have hzero := hz i j k' hlt hmem
            by_cases hcol : ∀ p ∈ squareLayer n k0, j ≠ p.2 ∧ j ≠ p.2 - 1
            · rw [hun i j (by omega) hcol]; exact hzero
            · -- column j belongs to a rotated pair of iteration k0
              have : ∃ p ∈ squareLayer n k0, j = p.2 ∨ j = p.2 - 1 := by
                by_contra hno
                apply hcol
                intro p hp
                constructor
                · intro hj; exact hno ⟨p, hp, Or.inl hj⟩
                · intro hj; exact hno ⟨p, hp, Or.inr hj⟩
              obtain ⟨⟨i0, j0⟩, hp, hj⟩ := this
              have hp' := (mem_squareLayer n k0 i0 j0).1 hp
              simp only at hj
              -- both entries of row i in the pair were zeroed before k0
              have hboth : M.get i (j0 - 1) = 0 ∧ M.get i j0 = 0 := by
                constructor
                · apply hz i (j0 - 1) (n - 1 + 2 * i - (j0 - 1)) (by omega)
                  rw [mem_squareLayer]; omega
                · apply hz i j0 (n - 1 + 2 * i - j0) (by omega)
                  rw [mem_squareLayer]; omega
              have hk := hpair i (i0, j0) (by omega) hp hboth.1 hboth.2
              simp only at hk
              rcases hj with rfl | rfl
              · exact hk.2
              · exact hk.1
        have := ih (k0 + 1) M1 ls2 M2 hS (hexS ops M1 hL) hR1 hz'
        refine ⟨this.1, ?_⟩
        intro i j k' hk' hmem
        exact this.2 i j k' (by omega) hmem

/-- the second stage of `givens_decomposition` (`m < n`) over the iterations `k0, …, k0 + len - 1`: the corner
zeroed by the first stage stays zero, and every position scheduled before `k0 + len` is zero at the end -/
theorem givens_sweep_invariant (tol : Rat) (htol : 0 < tol) (ai : Bool) (m n : Nat) (hm : m < n) :
    ∀ (len k0 : Nat) (M : Mat) (ls : List (List Rot)) (M' : Mat),
      colSweep tol (givensLayer m n) ai (List.range' k0 len) M = .ok (ls, M') →
      SweepExact tol ai (givensLayer m n) (List.range' k0 len) M → Rect M m n → k0 + len ≤ n - 1 →
      (∀ i j, (i, j) ∈ givensLeft m n → M.get i j = 0) →
      (∀ i j k', k' < k0 → (i, j) ∈ givensLayer m n k' → M.get i j = 0) →
      Rect M' m n ∧ (∀ i j, (i, j) ∈ givensLeft m n → M'.get i j = 0) ∧
      ∀ i j k', k' < k0 + len → (i, j) ∈ givensLayer m n k' → M'.get i j = 0 := by
  intro len
  induction len with
  | zero =>
    intro k0 M ls M' h _ hR _ hc hz
    simp [colSweep] at h
    obtain ⟨_, h2⟩ := h
    subst h2
    exact ⟨hR, hc, by simpa using hz⟩
  | succ len ih =>
    intro k0 M ls M' h hex hR hlen hc hz
    rw [List.range'_succ] at h hex
    obtain ⟨hexL, hexS⟩ := hex
    unfold colSweep at h
    cases hL : colLayer tol ai (givensLayer m n k0) M with
    | error e => simp [hL, bind, Except.bind] at h
    | ok t =>
      obtain ⟨ops, M1⟩ := t
      cases hS : colSweep tol (givensLayer m n) ai (List.range' (k0 + 1) len) M1 with
      | error e => simp [hL, hS, bind, Except.bind] at h
      | ok t2 =>
        obtain ⟨ls2, M2⟩ := t2
        simp only [hL, hS, bind, Except.bind] at h
        injection h with h
        injection h with _ h2
        subst h2
        have hk0 : k0 < n - 1 := by omega
        have hval : ∀ p ∈ givensLayer m n k0, p.1 < m ∧ 1 ≤ p.2 ∧ p.2 < n := by
          intro p hp
          obtain ⟨i, j⟩ := p
          rw [mem_givensLayer m n k0 i j hm hk0] at hp
          simp only; omega
        obtain ⟨hR1, hz1, hun, hpair⟩ :=
          colLayer_effect tol htol ai m n _ _ _ _ hL hexL hR hval (givensLayer_pairwise m n k0)
        -- a previously zero entry of the upper part stays zero
        have hkeep : ∀ i j, i < m → i < j → j < n →
            ((i, j) ∈ givensLeft m n ∨ ∃ k', k' < k0 ∧ (i, j) ∈ givensLayer m n k') →
            M.get i j = 0 → M1.get i j = 0 := by
          intro i j hi hij hjn hprev hzero
          by_cases hcol : ∀ p ∈ givensLayer m n k0, j ≠ p.2 ∧ j ≠ p.2 - 1
          · rw [hun i j hi hcol]; exact hzero
          · have : ∃ p ∈ givensLayer m n k0, j = p.2 ∨ j = p.2 - 1 := by
              by_contra hno
              apply hcol
              intro p hp
              constructor
              · intro hj; exact hno ⟨p, hp, Or.inl hj⟩
              · intro hj; exact hno ⟨p, hp, Or.inr hj⟩
            obtain ⟨⟨i0, j0⟩, hp, hj⟩ := this
            have hp' := (mem_givensLayer m n k0 i0 j0 hm hk0).1 hp
            simp only at hj
            -- arithmetic facts about the previous zero
            have hprev' : (j < n ∧ i + (n - m) < j) ∨
                ∃ k', k' < k0 ∧ (i < m ∧ i < j ∧ j ≤ i + (n - m) ∧ k' + j = n - m + 2 * i) := by
              rcases hprev with h1 | ⟨k', hk', h2⟩
              · left; exact (mem_givensLeft m n i j (by omega)).1 h1
              · right; exact ⟨k', hk', (mem_givensLayer m n k' i j hm (by omega)).1 h2⟩
            have hlt : i < i0 := by
              rcases hprev' with h1 | ⟨k', hk', h2⟩ <;> rcases hj with rfl | rfl <;> omega
            have zero_of : ∀ jj, i < jj → jj < n → (jj = j0 ∨ jj = j0 - 1) → M.get i jj = 0 := by
              intro jj h1 h2 h3
              by_cases hA : i + (n - m) < jj
              · exact hc i jj ((mem_givensLeft m n i jj (by omega)).2 ⟨h2, hA⟩)
              · have hk2 : n - m + 2 * i - jj < k0 := by rcases h3 with rfl | rfl <;> omega
                apply hz i jj (n - m + 2 * i - jj) hk2
                rw [mem_givensLayer m n _ i jj hm (by omega)]
                omega
            have hk := hpair i (i0, j0) hi hp (zero_of (j0 - 1) (by omega) (by omega) (Or.inr rfl))
              (zero_of j0 (by omega) (by omega) (Or.inl rfl))
            simp only at hk
            rcases hj with rfl | rfl
            · exact hk.2
            · exact hk.1
        have hc' : ∀ i j, (i, j) ∈ givensLeft m n → M1.get i j = 0 := by
          intro i j hmem
          have hm' := (mem_givensLeft m n i j (by omega)).1 hmem
          have hi : i < m := by omega
          exact hkeep i j hi (by omega) hm'.1 (Or.inl hmem) (hc i j hmem)
        have hz' : ∀ i j k', k' < k0 + 1 → (i, j) ∈ givensLayer m n k' → M1.get i j = 0 := by
          intro i j k' hk' hmem
          by_cases hk0' : k' = k0
          · subst hk0'; exact hz1 (i, j) hmem
          · have hlt : k' < k0 := by omega
            have hm' := (mem_givensLayer m n k' i j hm (by omega)).1 hmem
            exact hkeep i j hm'.1 hm'.2.1 (by omega) (Or.inr ⟨k', hlt, hmem⟩) (hz i j k' hlt hmem)
        have := ih (k0 + 1) M1 ls2 M2 hS (hexS ops M1 hL) hR1 (by omega) hc' hz'
        refine ⟨this.1, this.2.1, ?_⟩
        intro i j k' hk' hmem
        exact this.2.2 i j k' (by omega) hmem

end C11
end Model
end OFV
