/- C18 — `pauli_string_iterator`: every Pauli word of weight ≤ k occurs in some yielded string. -/
import OFV.Proofs.C18Partition

namespace OFV.Proofs.C18Pauli
open OFV.Model.C18 OFV.Spec.C18 OFV.Proofs.C18Part List

/-! ### the lettering of one partition -/

theorem getD_set (l : List Nat) (a v j : Nat) :
    (l.set a v).getD j 0 = if j = a ∧ a < l.length then v else l.getD j 0 := by
  simp only [getD_eq_getElem?_getD, getElem?_set]
  by_cases e : a = j
  · subst e
    by_cases h : a < l.length
    · simp [h]
    · simp [h, getElem?_eq_none (by omega : l.length ≤ a)]
  · simp [e, Ne.symm e]

/-- `for qubit in p: pauli_string[qubit] = letter` -/
def setAll (s : List Nat) (p : List Nat) (c : Nat) : List Nat := p.foldl (fun s q => s.set q c) s

theorem setAll_spec : ∀ (p s : List Nat) (c : Nat), (setAll s p c).length = s.length ∧
    ∀ q, (setAll s p c).getD q 0 = if q ∈ p ∧ q < s.length then c else s.getD q 0 := by
  intro p
  induction p with
  | nil => intro s c; simp [setAll]
  | cons a r ih =>
    intro s c
    have := ih (s.set a c) c
    simp only [setAll, foldl_cons] at this ⊢
    refine ⟨by rw [this.1]; simp, ?_⟩
    intro q
    rw [this.2 q, getD_set, length_set]
    by_cases h1 : q ∈ r <;> by_cases h2 : q = a <;> by_cases h3 : q < s.length <;> simp [h1, h2, h3]
    all_goals (subst h2; simp [h3])

theorem assignLetters_eq (s : List Nat) (parts : List (List Nat)) (L : Nat) :
    assignLetters s parts L =
      (parts.foldl (fun (acc : List Nat × Nat) p => (setAll acc.1 p (acc.2 % 3 + 1), acc.2 / 3)) (s, L)).1 := rfl

theorem assign_spec : ∀ (parts : List (List Nat)) (s : List Nat) (L : Nat), parts.flatten.Nodup →
    (assignLetters s parts L).length = s.length ∧
    (∀ i (hi : i < parts.length), ∀ q ∈ parts[i], q < s.length →
      (assignLetters s parts L).getD q 0 = (L / 3 ^ i) % 3 + 1) ∧
    (∀ q, q ∉ parts.flatten → (assignLetters s parts L).getD q 0 = s.getD q 0) := by
  intro parts
  induction parts with
  | nil => intro s L _; simp [assignLetters_eq]
  | cons p ps ih =>
    intro s L hnd
    have hnd' : ps.flatten.Nodup := by
      rw [flatten_cons] at hnd; exact (nodup_append.mp hnd).2.1
    have hdis : ∀ q ∈ p, q ∉ ps.flatten := by
      rw [flatten_cons] at hnd
      intro q hq hq'; exact (nodup_append.mp hnd).2.2 q hq q hq' rfl
    have hstep : assignLetters s (p :: ps) L = assignLetters (setAll s p (L % 3 + 1)) ps (L / 3) := by
      simp [assignLetters_eq]
    obtain ⟨a1, a2, a3⟩ := ih (setAll s p (L % 3 + 1)) (L / 3) hnd'
    have sp := setAll_spec p s (L % 3 + 1)
    rw [hstep]
    refine ⟨by rw [a1, sp.1], ?_, ?_⟩
    · intro i hi q hq hqs
      cases i with
      | zero =>
        simp only [getElem_cons_zero] at hq
        rw [a3 q (hdis q hq), sp.2 q]; simp [hq, hqs]
      | succ i =>
        simp only [getElem_cons_succ] at hq
        rw [a2 i (by simpa using hi) q hq (by rw [sp.1]; exact hqs), Nat.div_div_eq_div_mul, pow_succ, Nat.mul_comm]
    · intro q hq
      rw [flatten_cons, mem_append, not_or] at hq
      rw [a3 q hq.2, sp.2 q]; simp [hq.1]

theorem setAll_le3 (p s : List Nat) (c : Nat) (hc : c ≤ 3) (hs : ∀ x ∈ s, x ≤ 3) : ∀ x ∈ setAll s p c, x ≤ 3 := by
  induction p generalizing s with
  | nil => simpa [setAll] using hs
  | cons a r ih =>
    simp only [setAll, foldl_cons]
    apply ih
    intro x hx
    rcases mem_or_eq_of_mem_set hx with h | h
    · exact hs x h
    · omega

theorem assign_le3 : ∀ (parts : List (List Nat)) (s : List Nat) (L : Nat), (∀ x ∈ s, x ≤ 3) →
    ∀ x ∈ assignLetters s parts L, x ≤ 3 := by
  intro parts
  induction parts with
  | nil => intro s L hs; simpa [assignLetters_eq] using hs
  | cons p ps ih =>
    intro s L hs
    have hstep : assignLetters s (p :: ps) L = assignLetters (setAll s p (L % 3 + 1)) ps (L / 3) := by
      simp [assignLetters_eq]
    rw [hstep]
    exact ih _ _ (setAll_le3 p s _ (by omega) hs)


theorem setAll_length (p s : List Nat) (c : Nat) : (setAll s p c).length = s.length := (setAll_spec p s c).1

theorem assign_length : ∀ (parts : List (List Nat)) (s : List Nat) (L : Nat),
    (assignLetters s parts L).length = s.length := by
  intro parts
  induction parts with
  | nil => intro s L; simp [assignLetters_eq]
  | cons p ps ih =>
    intro s L
    have hstep : assignLetters s (p :: ps) L = assignLetters (setAll s p (L % 3 + 1)) ps (L / 3) := by
      simp [assignLetters_eq]
    rw [hstep, ih, setAll_length]

/-! ### the stream of yielded strings -/

section
variable {σ ι : Type}

/-- a loop that updates a state and yields every new state -/
def emitStep (g : σ → ι → σ) (acc : σ × List σ) (x : ι) : σ × List σ := (g acc.1 x, g acc.1 x :: acc.2)

theorem emit_spec (g : σ → ι → σ) (Q : σ → Prop) (hQ : ∀ s x, Q s → Q (g s x)) :
    ∀ (xs : List ι) (s : σ) (acc : List σ), Q s →
      (∀ y ∈ (xs.foldl (emitStep g) (s, acc)).2, y ∈ acc ∨ ∃ s' x, Q s' ∧ x ∈ xs ∧ y = g s' x) ∧
      (∀ x ∈ xs, ∃ s', Q s' ∧ g s' x ∈ (xs.foldl (emitStep g) (s, acc)).2) ∧
      (∀ y ∈ acc, y ∈ (xs.foldl (emitStep g) (s, acc)).2) := by
  intro xs
  induction xs with
  | nil => intro s acc _; simp
  | cons x r ih =>
    intro s acc hs
    obtain ⟨a1, a2, a3⟩ := ih (g s x) (g s x :: acc) (hQ s x hs)
    simp only [foldl_cons, emitStep] at a1 a2 a3 ⊢
    refine ⟨?_, ?_, ?_⟩
    · intro y hy
      rcases a1 y hy with h | ⟨s', x', h1, h2, h3⟩
      · rcases mem_cons.mp h with rfl | h
        · exact Or.inr ⟨s, x, hs, by simp, rfl⟩
        · exact Or.inl h
      · exact Or.inr ⟨s', x', h1, mem_cons_of_mem _ h2, h3⟩
    · intro x' hx'
      rcases mem_cons.mp hx' with rfl | h
      · exact ⟨s, hs, a3 _ (by simp)⟩
      · exact a2 x' h
    · intro y hy; exact a3 y (mem_cons_of_mem _ hy)

end

/-- the nested loops of `pauli_string_iterator` as one loop over (partition, lettering) pairs -/
theorem pauli_loop_eq (parts : List (List (List Nat))) (N : Nat) (init : List Nat × List (List Nat)) :
    parts.foldl (fun acc partition =>
      (List.range N).foldl (fun (acc : List Nat × List (List Nat)) lettering =>
        let s := assignLetters acc.1 partition lettering
        (s, s :: acc.2)) acc) init =
    (parts.flatMap fun p => (List.range N).map fun L => (p, L)).foldl
      (emitStep fun s (pl : List (List Nat) × Nat) => assignLetters s pl.1 pl.2) init := by
  rw [foldl_flatMap]
  congr 1
  funext acc p
  rw [foldl_map]
  rfl


/-! ### extending a subset, base-3 letterings -/

theorem spread_range (n : Nat) (idx : List Nat) (h : idx.Sublist (range n)) : Spread n 1 idx :=
  ⟨(pairwise_lt_range (n := n)).sublist h |>.imp (fun h => by omega), fun i hi => mem_range.mp (h.subset hi)⟩

theorem extend_one (n : Nat) (idx : List Nat) (h : Spread n 1 idx) (hlt : idx.length < n) :
    ∃ idx', Spread n 1 idx' ∧ idx'.length = idx.length + 1 ∧ ∀ x ∈ idx, x ∈ idx' := by
  have hnd := h.nodup (Nat.le_refl _)
  obtain ⟨y, hy, hyn⟩ : ∃ y, y < n ∧ y ∉ idx := by
    by_contra hc
    have hsub : range n ⊆ idx := by
      intro x hx
      by_contra hx'
      exact hc ⟨x, mem_range.mp hx, hx'⟩
    have := (subperm_of_subset (nodup_range (n := n)) hsub).length_le
    simp at this; omega
  refine ⟨(range n).filter (fun x => x ∈ y :: idx), spread_range n _ filter_sublist, ?_, ?_⟩
  · have hp : ((range n).filter (fun x => x ∈ y :: idx)).Perm (y :: idx) := by
      rw [perm_ext_iff_of_nodup ((nodup_range (n := n)).filter _) (nodup_cons.mpr ⟨hyn, hnd⟩)]
      intro a
      simp only [mem_filter, mem_range, decide_eq_true_eq, mem_cons]
      constructor
      · exact fun h' => h'.2
      · intro h'
        refine ⟨?_, h'⟩
        rcases h' with rfl | h'
        · exact hy
        · exact h.lt a h'
    simpa using hp.length_eq
  · intro x hx
    simp only [mem_filter, mem_range, decide_eq_true_eq, mem_cons]
    exact ⟨h.lt x hx, Or.inr hx⟩

theorem extend_to (n k : Nat) (hkn : k ≤ n) : ∀ (d : Nat) (idx : List Nat), Spread n 1 idx →
    idx.length + d = k → ∃ idx', Spread n 1 idx' ∧ idx'.length = k ∧ ∀ x ∈ idx, x ∈ idx' := by
  intro d
  induction d with
  | zero => intro idx h hl; exact ⟨idx, h, by omega, fun x hx => hx⟩
  | succ d ih =>
    intro idx h hl
    obtain ⟨i1, s1, l1, m1⟩ := extend_one n idx h (by omega)
    obtain ⟨i2, s2, l2, m2⟩ := ih i1 s1 (by omega)
    exact ⟨i2, s2, l2, fun x hx => m2 x (m1 x hx)⟩

/-- value of a little-endian base-3 digit list -/
def val3 : List Nat → Nat
  | [] => 0
  | d :: r => d + 3 * val3 r

theorem val3_lt : ∀ (ds : List Nat), (∀ d ∈ ds, d < 3) → val3 ds < 3 ^ ds.length := by
  intro ds
  induction ds with
  | nil => intro _; simp [val3]
  | cons d r ih =>
    intro h
    have := ih (fun x hx => h x (mem_cons_of_mem _ hx))
    have hd := h d (by simp)
    simp only [val3, length_cons, pow_succ]
    omega

theorem val3_digit : ∀ (ds : List Nat), (∀ d ∈ ds, d < 3) → ∀ i (hi : i < ds.length),
    (val3 ds / 3 ^ i) % 3 = ds[i] := by
  intro ds
  induction ds with
  | nil => intro _ i hi; simp at hi
  | cons d r ih =>
    intro h i hi
    have hd := h d (by simp)
    cases i with
    | zero => simp only [val3, pow_zero, Nat.div_one, getElem_cons_zero]; omega
    | succ i =>
      have := ih (fun x hx => h x (mem_cons_of_mem _ hx)) i (by simpa using hi)
      simp only [getElem_cons_succ, val3]
      rw [← this, pow_succ, Nat.mul_comm (3 ^ i) 3, ← Nat.div_div_eq_div_mul]
      congr 2
      omega

theorem pick_range (n : Nat) (idx : List Nat) (h : ∀ i ∈ idx, i < n) : pick (range n) idx = idx := by
  unfold pick
  conv_rhs => rw [← map_id idx]
  apply map_congr_left
  intro i hi
  simp [getD_eq_getElem?_getD, getElem?_range (h i hi)]


/-! ### assembling the statement -/

/-- the letter the word `(sub, wd)` puts on qubit `q` (`1` when `q` is not in the word) -/
def letterOf (sub wd : List Nat) (q : Nat) : Nat :=
  match (sub.zip wd).find? (fun e => e.1 == q) with
  | some e => e.2
  | none => 1

theorem letterOf_mem : ∀ (sub wd : List Nat), sub.Nodup → ∀ q c, (q, c) ∈ sub.zip wd → letterOf sub wd q = c := by
  intro sub
  induction sub with
  | nil => intro wd _ q c h; simp at h
  | cons a r ih =>
    intro wd hnd q c h
    cases wd with
    | nil => simp at h
    | cons c0 wr =>
      have hr := nodup_cons.mp hnd
      simp only [zip_cons_cons, mem_cons] at h
      unfold letterOf
      simp only [zip_cons_cons, find?_cons]
      by_cases e : a = q
      · subst e
        simp only [beq_self_eq_true]
        rcases h with h | h
        · injection h with _ h2; exact h2.symm
        · exact absurd (of_mem_zip h).1 hr.1
      · have : (a == q) = false := by simp [e]
        simp only [this]
        rcases h with h | h
        · injection h with h1 _; exact absurd h1.symm e
        · exact ih wr hr.2 q c h

theorem letterOf_range (sub wd : List Nat) (hwd : ∀ c ∈ wd, 1 ≤ c ∧ c ≤ 3) (q : Nat) :
    1 ≤ letterOf sub wd q ∧ letterOf sub wd q ≤ 3 := by
  unfold letterOf
  cases h : (sub.zip wd).find? (fun e => e.1 == q) with
  | none => simp
  | some e => exact hwd e.2 (of_mem_zip (mem_of_find?_eq_some h)).2

theorem words_spec : ∀ (w : Nat), ∀ wd ∈ words w, wd.length = w ∧ ∀ c ∈ wd, 1 ≤ c ∧ c ≤ 3 := by
  intro w
  induction w with
  | zero => intro wd h; simp [words] at h; subst h; simp
  | succ w ih =>
    intro wd h
    simp only [words, mem_flatMap, mem_map, mem_cons, not_mem_nil, or_false] at h
    obtain ⟨t, ht, c, hc, rfl⟩ := h
    obtain ⟨a, b⟩ := ih t ht
    refine ⟨by simp [a], ?_⟩
    intro x hx
    rcases mem_cons.mp hx with rfl | hx
    · rcases hc with rfl | rfl | rfl <;> omega
    · exact b x hx

/-- the element of `S` that lies in the part `p` -/
def uniqueIn (p S : List Nat) : Nat := (S.filter (fun x => p.contains x)).headD 0

theorem uniqueIn_spec (p S : List Nat) (h : (S.filter (fun x => p.contains x)).length = 1) :
    uniqueIn p S ∈ S ∧ uniqueIn p S ∈ p ∧ ∀ y ∈ S, y ∈ p → y = uniqueIn p S := by
  obtain ⟨x, hx⟩ := length_eq_one_iff.mp h
  have hm : x ∈ S.filter (fun x => p.contains x) := by rw [hx]; simp
  simp only [mem_filter, contains_iff_mem] at hm
  have hu : uniqueIn p S = x := by unfold uniqueIn; rw [hx]; rfl
  rw [hu]
  refine ⟨hm.1, hm.2, ?_⟩
  intro y hy hyp
  have : y ∈ S.filter (fun x => p.contains x) := by simp [mem_filter, hy, hyp]
  rw [hx] at this; simpa using this

/-- `pauli_string_iterator(n, k)`, `1 ≤ k ≤ n`: strings of length `n` over `I, X, Y, Z` containing every
Pauli word of weight at most `k` -/
theorem pauliStrings_spec (n k : Nat) (hk1 : 1 ≤ k) (hkn : k ≤ n) :
    ∃ strings, pauliStrings n k = some strings ∧ wordsCovered n k strings = true := by
  have hc : ¬ (k > n ∨ k = 0) := by omega
  unfold pauliStrings
  simp only [hc, if_false]
  refine ⟨_, rfl, ?_⟩
  rw [pauli_loop_eq]
  obtain ⟨parts, hparts⟩ : ∃ parts, parts = partitionIter (range n) k none := ⟨_, rfl⟩
  rw [← hparts]
  let Q : List Nat → Prop := fun s => s.length = n ∧ ∀ x ∈ s, x ≤ 3
  have hQ : ∀ s (x : List (List Nat) × Nat), Q s → Q (assignLetters s x.1 x.2) := by
    intro s x hs
    exact ⟨by rw [assign_length]; exact hs.1, assign_le3 _ _ _ hs.2⟩
  have hQ0 : Q (replicate n 0) := ⟨by simp, by intro x hx; simp at hx; omega⟩
  obtain ⟨e1, e2, _⟩ := emit_spec (fun s (pl : List (List Nat) × Nat) => assignLetters s pl.1 pl.2) Q hQ
    (parts.flatMap fun p => (List.range (3 ^ k)).map fun L => (p, L)) (replicate n 0) [] hQ0
  simp only [wordsCovered, Bool.and_eq_true, all_eq_true, any_eq_true, mem_reverse, beq_iff_eq,
    decide_eq_true_eq]
  refine ⟨?_, ?_⟩
  · intro s hs
    rcases e1 s hs with h | ⟨s', x, hs', _, rfl⟩
    · simp at h
    · exact hQ s' x hs'
  · intro w hw sub hsub wd hwd
    simp only [mem_range'_1] at hw
    obtain ⟨idx0, sp0, len0, rfl⟩ := mem_subsetsLen w (range n) sub hsub
    simp only [length_range] at sp0
    rw [pick_range n idx0 sp0.lt]
    obtain ⟨idx', sp', len', hsub'⟩ := extend_to n k hkn (k - w) idx0 sp0 (by omega)
    obtain ⟨partsX, hpX, hsplit⟩ := partitionIter_covers (range n) nodup_range k hk1 idx'
      (by simpa using sp') len'
    rw [pick_range n idx' sp'.lt] at hsplit
    rw [← hparts] at hpX
    obtain ⟨hperm, hlenX⟩ := partitionIterAux_partition _ _ _ _ partsX (hparts ▸ hpX)
    have hndX : partsX.flatten.Nodup := hperm.nodup_iff.mpr nodup_range
    obtain ⟨wl, wr⟩ := words_spec w wd hwd
    -- the lettering
    obtain ⟨ds, hds⟩ : ∃ ds, ds = partsX.map (fun p => letterOf idx0 wd (uniqueIn p idx') - 1) := ⟨_, rfl⟩
    have hdl : ds.length = k := by rw [hds, length_map, hlenX]
    have hd3 : ∀ d ∈ ds, d < 3 := by
      intro d hd
      rw [hds] at hd
      obtain ⟨p, _, rfl⟩ := mem_map.mp hd
      have := letterOf_range idx0 wd wr (uniqueIn p idx'); omega
    have hL : val3 ds < 3 ^ k := hdl ▸ val3_lt ds hd3
    obtain ⟨s', hs', hmem⟩ := e2 (partsX, val3 ds) (by
      simp only [mem_flatMap, mem_map, mem_range]
      exact ⟨partsX, hpX, val3 ds, hL, rfl⟩)
    refine ⟨_, hmem, ?_⟩
    simp only [showsWord, all_eq_true, beq_iff_eq]
    intro e he
    obtain ⟨q, c⟩ := e
    have hq0 : q ∈ idx0 := (of_mem_zip he).1
    have hq' : q ∈ idx' := hsub' q hq0
    have hqn : q < n := sp'.lt q hq'
    -- the part containing `q`
    have hqf : q ∈ partsX.flatten := hperm.symm.subset (mem_range.mpr hqn)
    obtain ⟨p, hp, hqp⟩ := mem_flatten.mp hqf
    obtain ⟨i, hi, rfl⟩ := getElem_of_mem hp
    obtain ⟨a1, a2, _⟩ := assign_spec partsX s' (val3 ds) hndX
    simp only [Spec.C18.splitBy, all_eq_true, beq_iff_eq] at hsplit
    have hu := uniqueIn_spec partsX[i] idx' (hsplit _ hp)
    have hqu : q = uniqueIn partsX[i] idx' := hu.2.2 q hq' hqp
    simp only
    rw [a2 i hi q hqp (by rw [hs'.1]; exact hqn), val3_digit ds hd3 i (by rw [hdl, ← hlenX]; exact hi)]
    have hdi : ds[i]'(by rw [hdl, ← hlenX]; exact hi) = letterOf idx0 wd (uniqueIn partsX[i] idx') - 1 := by
      simp [hds]
    rw [hdi, ← hqu, letterOf_mem idx0 wd (sp0.nodup (Nat.le_refl _)) q c he]
    have := wr c (of_mem_zip he).2
    omega

end OFV.Proofs.C18Pauli
