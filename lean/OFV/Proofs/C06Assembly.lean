/-
C06 — the coordinate extraction of `qubit_operator_sparse`: the values are read in CSC order while
the indices come from `nonzero()` in row-major order *with the roles of rows and columns swapped*.
For matrices without explicit zeros whose sparsity pattern is symmetric (every Kronecker chain of a
Pauli string) the two sorted index lists coincide, so the triplets are exactly the entries.
Core Lean only.
-/
import OFV.Proofs.C06Term

namespace OFV
namespace Proofs
namespace C06
open OFV.Spec OFV.Spec.C06 OFV.Model OFV.Model.C06

abbrev Entry := Nat × Nat × GQ

def keyRC (e : Entry) : Nat × Nat := (e.1, e.2.1)
def keyCR (e : Entry) : Nat × Nat := (e.2.1, e.1)

def lexLe (a b : Nat × Nat) : Prop := a.1 < b.1 ∨ (a.1 = b.1 ∧ a.2 ≤ b.2)

theorem lexLe_total (a b : Nat × Nat) : lexLe a b ∨ lexLe b a := by unfold lexLe; omega
theorem lexLe_trans {a b c : Nat × Nat} (h1 : lexLe a b) (h2 : lexLe b c) : lexLe a c := by
  unfold lexLe at *; omega
theorem lexLe_antisymm {a b : Nat × Nat} (h1 : lexLe a b) (h2 : lexLe b a) : a = b := by
  unfold lexLe at *
  have : a.1 = b.1 ∧ a.2 = b.2 := by omega
  exact Prod.ext this.1 this.2

/-! ### the insertion sort of the Model -/

theorem insertBy_perm (key : Entry → Nat × Nat) (e : Entry) (l : List Entry) : (insertBy key e l).Perm (e :: l) := by
  induction l with
  | nil => exact List.Perm.refl _
  | cons x l ih =>
    simp only [insertBy]
    split
    · exact List.Perm.refl _
    · exact ((List.Perm.cons x ih).trans (List.Perm.swap e x l))

theorem sortBy_perm (key : Entry → Nat × Nat) (l : List Entry) : (sortBy key l).Perm l := by
  induction l with
  | nil => exact List.Perm.refl _
  | cons e l ih =>
    simp only [sortBy, List.foldr_cons] at ih ⊢
    exact (insertBy_perm key e _).trans (List.Perm.cons e ih)

theorem insertBy_sorted (key : Entry → Nat × Nat) (e : Entry) (l : List Entry)
    (h : l.Pairwise (fun a b => lexLe (key a) (key b))) :
    (insertBy key e l).Pairwise (fun a b => lexLe (key a) (key b)) := by
  induction l with
  | nil => simp [insertBy]
  | cons x l ih =>
    have hp := List.pairwise_cons.mp h
    simp only [insertBy]
    split
    · rename_i hle
      refine List.pairwise_cons.mpr ⟨?_, h⟩
      intro y hy
      rcases List.mem_cons.mp hy with rfl | hy
      · exact hle
      · exact lexLe_trans hle (hp.1 y hy)
    · rename_i hnle
      have hxe : lexLe (key x) (key e) := by
        rcases lexLe_total (key e) (key x) with h' | h'
        · exact absurd h' hnle
        · exact h'
      refine List.pairwise_cons.mpr ⟨?_, ih hp.2⟩
      intro y hy
      rcases List.mem_cons.mp ((insertBy_perm key e l).subset hy) with rfl | hy'
      · exact hxe
      · exact hp.1 y hy'

theorem sortBy_sorted (key : Entry → Nat × Nat) (l : List Entry) :
    (sortBy key l).Pairwise (fun a b => lexLe (key a) (key b)) := by
  induction l with
  | nil => simp [sortBy]
  | cons e l ih =>
    simp only [sortBy, List.foldr_cons] at ih ⊢
    exact insertBy_sorted key e _ ih

/-! ### symmetric pattern without explicit zeros ⇒ the triplets are the entries -/

theorem zip_rebuild : ∀ (csc nz : List Entry), nz.map keyCR = csc.map keyRC →
    (csc.zip nz).map (fun (p : Entry × Entry) => (p.2.2.1, p.2.1, p.1.2.2)) = csc
  | [], [], _ => rfl
  | [], _ :: _, h => by simp at h
  | _ :: _, [], h => by simp at h
  | d :: csc, ix :: nz, h => by
    simp only [List.map_cons, List.cons.injEq] at h
    have ht := zip_rebuild csc nz h.2
    simp only [List.zip_cons_cons, List.map_cons, ht]
    have h1 := h.1
    simp only [keyCR, keyRC, Prod.mk.injEq] at h1
    congr 1
    obtain ⟨r, c, v⟩ := d
    simp only at h1 ⊢
    rw [h1.1, h1.2]

/-- the pattern is symmetric: the multiset of `(col, row)` equals the multiset of `(row, col)` -/
def SymPat (es : List Entry) : Prop := (es.map keyCR).Perm (es.map keyRC)

def NZ (es : List Entry) : Prop := ∀ e ∈ es, e.2.2 ≠ 0

theorem triplets_of_symmetric (M : Mat) (hnz : NZ M.entries) (hs : SymPat M.entries) :
    qubitTermTriplets M = some (sortBy keyCR M.entries) := by
  have hfil : (M.entries.filter fun e => e.2.2 != 0) = M.entries := by
    apply List.filter_eq_self.mpr
    intro e he
    simpa using hnz e he
  unfold qubitTermTriplets
  simp only [hfil]
  have hcsc : sortBy (fun e => (e.2.1, e.1)) M.entries = sortBy keyCR M.entries := rfl
  have hnzs : sortBy (fun e => (e.1, e.2.1)) M.entries = sortBy keyRC M.entries := rfl
  rw [hcsc, hnzs]
  have hlen : (sortBy keyCR M.entries).length = (sortBy keyRC M.entries).length := by
    rw [(sortBy_perm keyCR _).length_eq, (sortBy_perm keyRC _).length_eq]
  simp only [hlen, ne_eq, not_true_eq_false, if_false]
  congr 1
  apply zip_rebuild
  -- both index lists are sorted by (col, row) and are permutations of each other
  let le' : Nat × Nat → Nat × Nat → Prop := fun a b => lexLe (a.2, a.1) (b.2, b.1)
  have hA : ((sortBy keyCR M.entries).map keyRC).Pairwise le' := by
    rw [List.pairwise_map]
    exact (sortBy_sorted keyCR M.entries).imp (fun h => h)
  have hB : ((sortBy keyRC M.entries).map keyCR).Pairwise le' := by
    rw [List.pairwise_map]
    exact (sortBy_sorted keyRC M.entries).imp (fun h => h)
  have hperm : ((sortBy keyRC M.entries).map keyCR).Perm ((sortBy keyCR M.entries).map keyRC) :=
    (((sortBy_perm keyRC _).map keyCR).trans hs).trans ((sortBy_perm keyCR _).map keyRC).symm
  exact List.Perm.eq_of_pairwise (le := le')
    (fun a b _ _ h1 h2 => by
      have := lexLe_antisymm h1 h2
      simp only [Prod.mk.injEq] at this
      exact Prod.ext this.2 this.1) hB hA hperm

/-! ### Kronecker chains of Pauli strings have a symmetric pattern and no zeros -/

/-- a fourth root of unity -/
def Unit4 (v : GQ) : Prop := v = 1 ∨ v = -1 ∨ v = GQ.I ∨ v = -GQ.I

theorem mul_unit_ne_zero (x u : GQ) (hx : x ≠ 0) (hu : Unit4 u) : x * u ≠ 0 := by
  intro h
  apply hx
  have hre := congrArg GQ.re h
  have him := congrArg GQ.im h
  rcases hu with rfl | rfl | rfl | rfl <;> simp at hre him <;> apply GQ.ext <;> simp <;> grind

/-- a factor of the chain: square, symmetric pattern, unit values -/
structure GoodFactor (B : Mat) : Prop where
  square : B.rows = B.cols
  sym : SymPat B.entries
  unit : ∀ e ∈ B.entries, Unit4 e.2.2

theorem good_identity (m : Nat) : GoodFactor (identity m) := by
  refine ⟨rfl, ?_, ?_⟩
  · unfold SymPat
    have : (identity m).entries.map keyCR = (identity m).entries.map keyRC := by
      simp [identity, keyCR, keyRC]
    rw [this]
  · intro e he
    simp only [identity, List.mem_map] at he
    obtain ⟨i, _, rfl⟩ := he
    exact Or.inl rfl

theorem good_pauliMat (p : Nat) : GoodFactor (pauliMat p) := by
  have h : p = 1 ∨ p = 2 ∨ p = 3 ∨ (p ≠ 1 ∧ p ≠ 2 ∧ p ≠ 3) := by omega
  rcases h with rfl | rfl | rfl | ⟨h1, h2, h3⟩
  · refine ⟨rfl, ?_, ?_⟩
    · simp only [SymPat, pauliMat, Generated.C06.pauliEntries, List.map_cons, List.map_nil, keyCR, keyRC]
      exact List.Perm.swap _ _ _
    · intro e he
      simp [pauliMat, Generated.C06.pauliEntries] at he
      rcases he with rfl | rfl <;> (left; decide +kernel)
  · refine ⟨rfl, ?_, ?_⟩
    · simp only [SymPat, pauliMat, Generated.C06.pauliEntries, List.map_cons, List.map_nil, keyCR, keyRC]
      exact List.Perm.swap _ _ _
    · intro e he
      simp [pauliMat, Generated.C06.pauliEntries] at he
      rcases he with rfl | rfl
      · right; right; right; decide +kernel
      · right; right; left; decide +kernel
  · refine ⟨rfl, ?_, ?_⟩
    · simp only [SymPat, pauliMat, Generated.C06.pauliEntries, List.map_cons, List.map_nil, keyCR, keyRC]
      exact List.Perm.refl _
    · intro e he
      simp [pauliMat, Generated.C06.pauliEntries] at he
      rcases he with rfl | rfl
      · left; decide +kernel
      · right; left; decide +kernel
  · have hE : Generated.C06.pauliEntries p = Generated.C06.pauliEntries 0 := by
      unfold Generated.C06.pauliEntries; split <;> simp_all
    refine ⟨rfl, ?_, ?_⟩
    · simp only [SymPat, pauliMat, hE, Generated.C06.pauliEntries, List.map_cons, List.map_nil, keyCR, keyRC]
      exact List.Perm.refl _
    · intro e he
      simp [pauliMat, hE, Generated.C06.pauliEntries] at he
      rcases he with rfl | rfl <;> (left; decide +kernel)

theorem kron_nz (A B : Mat) (hA : NZ A.entries) (hB : ∀ e ∈ B.entries, Unit4 e.2.2) : NZ (kron A B).entries := by
  intro e he
  simp only [kron, List.mem_flatMap, List.mem_map] at he
  obtain ⟨a, ha, b, hb, rfl⟩ := he
  exact mul_unit_ne_zero _ _ (hA a ha) (hB b hb)

theorem perm_flatMap_congr {α β : Type} (l : List α) (f g : α → List β) (h : ∀ a ∈ l, (f a).Perm (g a)) :
    (l.flatMap f).Perm (l.flatMap g) := by
  induction l with
  | nil => exact List.Perm.refl _
  | cons a l ih =>
    simp only [List.flatMap_cons]
    exact List.Perm.append (h a (by simp)) (ih (fun b hb => h b (by simp [hb])))

/-- the symmetric pattern survives a Kronecker product with a square symmetric factor -/
theorem kron_sym (A B : Mat) (hA : SymPat A.entries) (hB : GoodFactor B) : SymPat (kron A B).entries := by
  unfold SymPat at *
  -- key lists of the product as images of the key lists of the factors
  let pair : (Nat × Nat) → (Nat × Nat) → (Nat × Nat) := fun ka kb => (ka.1 * B.rows + kb.1, ka.2 * B.cols + kb.2)
  have hRC : (kron A B).entries.map keyRC =
      (A.entries.map keyRC).flatMap (fun ka => (B.entries.map keyRC).map (pair ka)) := by
    simp only [kron, List.map_flatMap, List.flatMap_map, List.map_map]
    rfl
  have hCR : (kron A B).entries.map keyCR =
      (A.entries.map keyCR).flatMap (fun ka => (B.entries.map keyCR).map (pair ka)) := by
    simp only [kron, List.map_flatMap, List.flatMap_map, List.map_map]
    congr 1
    funext a
    apply List.map_congr_left
    intro b _
    simp only [Function.comp, keyCR, pair, hB.square]
  rw [hRC, hCR]
  refine (List.Perm.flatMap_right _ hA).trans ?_
  exact perm_flatMap_congr _ _ _ (fun ka _ => hB.sym.map (pair ka))

/-- the chain of one term of `qubit_operator_sparse`: coefficient first, then good factors -/
theorem qubitTermFactors_form (n : Nat) (t : List (Nat × Nat)) (c : GQ) :
    ∃ gs, qubitTermFactors n t c = scalarMat c :: gs ∧ ∀ g ∈ gs, GoodFactor g := by
  have gen : ∀ (t : List (Nat × Nat)) (gs : List Mat) (tf : Nat), (∀ g ∈ gs, GoodFactor g) →
      ∃ gs', (t.foldl (fun (acc : List Mat × Nat) f =>
          ((if f.1 > acc.2 then acc.1 ++ [identity (2 ^ (f.1 - acc.2))] else acc.1) ++ [pauliMat f.2], f.1 + 1))
          (scalarMat c :: gs, tf)).1 = scalarMat c :: gs' ∧ ∀ g ∈ gs', GoodFactor g := by
    intro t
    induction t with
    | nil => intro gs tf h; exact ⟨gs, rfl, h⟩
    | cons f t ih =>
      intro gs tf h
      simp only [List.foldl_cons]
      by_cases hgt : f.1 > tf
      · simp only [hgt, if_true, List.cons_append, List.append_assoc]
        apply ih
        intro g hg
        simp only [List.mem_append, List.mem_cons, List.not_mem_nil, or_false, false_or] at hg
        rcases hg with hg | rfl | rfl
        · exact h g hg
        · exact good_identity _
        · exact good_pauliMat _
      · simp only [hgt, if_false, List.cons_append]
        apply ih
        intro g hg
        simp only [List.mem_append, List.mem_cons, List.not_mem_nil, or_false, false_or] at hg
        rcases hg with hg | rfl
        · exact h g hg
        · exact good_pauliMat _
  obtain ⟨gs', h1, h2⟩ := gen t [] 0 (by simp)
  unfold qubitTermFactors
  simp only
  generalize hst : (t.foldl (fun (acc : List Mat × Nat) f =>
      ((if f.1 > acc.2 then acc.1 ++ [identity (2 ^ (f.1 - acc.2))] else acc.1) ++ [pauliMat f.2], f.1 + 1))
      ([scalarMat c], 0)) = st at h1
  obtain ⟨ops, tf⟩ := st
  simp only at h1 ⊢
  subst h1
  split
  · refine ⟨gs' ++ [identity (2 ^ (n - tf))], by simp, ?_⟩
    intro g hg
    rcases List.mem_append.mp hg with hg | hg
    · exact h2 g hg
    · simp at hg; subst hg; exact good_identity _
  · exact ⟨gs', rfl, h2⟩

theorem chain_nz_sym (c : GQ) (gs : List Mat) (h : ∀ g ∈ gs, GoodFactor g) :
    NZ (kronList (scalarMat c :: gs)).entries ∧ SymPat (kronList (scalarMat c :: gs)).entries := by
  simp only [kronList]
  have gen : ∀ (gs : List Mat) (M : Mat), (∀ g ∈ gs, GoodFactor g) → NZ M.entries → SymPat M.entries →
      NZ (gs.foldl kron M).entries ∧ SymPat (gs.foldl kron M).entries := by
    intro gs
    induction gs with
    | nil => intro M _ h1 h2; exact ⟨h1, h2⟩
    | cons g gs ih =>
      intro M hg h1 h2
      have hg0 := hg g (by simp)
      exact ih (kron M g) (fun g' hg' => hg g' (by simp [hg'])) (kron_nz M g h1 hg0.unit) (kron_sym M g h2 hg0)
  apply gen gs _ h
  · intro e he
    simp only [scalarMat] at he
    split at he
    · cases he
    · simp at he; subst he; assumption
  · simp only [SymPat, scalarMat]
    split <;> exact List.Perm.refl _

/-- **the coordinate extraction of `qubit_operator_sparse` is right for every Pauli-string chain**:
the triplets are the entries of the term matrix (in CSC order), whatever the coefficient -/
theorem qubitTermTriplets_chain (n : Nat) (t : List (Nat × Nat)) (c : GQ) :
    qubitTermTriplets (kronList (qubitTermFactors n t c)) =
      some (sortBy keyCR (kronList (qubitTermFactors n t c)).entries) := by
  obtain ⟨gs, hf, hg⟩ := qubitTermFactors_form n t c
  rw [hf]
  obtain ⟨h1, h2⟩ := chain_nz_sym c gs hg
  exact triplets_of_symmetric _ h1 h2

open OFV.Spec.C07 (ampP) in
theorem qubitSparse_fold (n : Nat) (s u : Nat) (hs : s < 2 ^ n) (hu : u < 2 ^ n) (a : Op)
    (ha : ∀ e ∈ a, e.1.Pairwise (fun f g => f.1 < g.1) ∧ ∀ f ∈ e.1, f.1 < n ∧ 1 ≤ f.2 ∧ f.2 ≤ 3) :
    ∀ (acc : List Entry), ∃ l,
      a.foldl (fun (acc : Option (List Entry)) (e : Term × GQ) =>
        match acc, qubitTermTriplets (kronList (qubitTermFactors n e.1 e.2)) with
        | some l, some tr => some (l ++ tr)
        | _, _ => none) (some acc) = some l ∧
      getL l (beIndex n u) (beIndex n s) =
        a.foldl (fun acc' (e : Term × GQ) => acc' + e.2 * ampP e.1 s u) (getL acc (beIndex n u) (beIndex n s)) := by
  induction a with
  | nil => intro acc; exact ⟨acc, rfl, rfl⟩
  | cons e a ih =>
    intro acc
    have he := ha e (by simp)
    simp only [List.foldl_cons]
    rw [qubitTermTriplets_chain n e.1 e.2]
    simp only []
    obtain ⟨l, h1, h2⟩ := ih (fun e' he' => ha e' (by simp [he']))
      (acc ++ sortBy keyCR (kronList (qubitTermFactors n e.1 e.2)).entries)
    refine ⟨l, h1, ?_⟩
    rw [h2, getL_append, getL_sortBy, ← get_eq_getL,
      qubitTermFactors_get n e.1 e.2 he.1 (fun f hf => (he.2 f hf).2) (fun f hf => (he.2 f hf).1) s u hs hu]

open OFV.Spec.C07 (ampP) in
/-- **`qubit_operator_sparse`, whole operator**: for an operator of Pauli strings on qubits `< n`
the Model returns a `2^n × 2^n` matrix whose dense entry at (row `beIndex n u`, column `beIndex n s`)
is `Σ_terms c · ⟨u| t |s⟩` — the swapped `(column, row) = nonzero()` assembly included -/
theorem qubitSparse_get (n : Nat) (a : Op) (hc : countQubitsQubit a ≤ n)
    (ha : ∀ e ∈ a, e.1.Pairwise (fun f g => f.1 < g.1) ∧ ∀ f ∈ e.1, f.1 < n ∧ 1 ≤ f.2 ∧ f.2 ≤ 3)
    (s u : Nat) (hs : s < 2 ^ n) (hu : u < 2 ^ n) :
    ∃ L, qubitOperatorSparse (some n) a = some (2 ^ n, L) ∧
      getL L (beIndex n u) (beIndex n s) = a.foldl (fun acc (e : Term × GQ) => acc + e.2 * ampP e.1 s u) 0 := by
  obtain ⟨l, h1, h2⟩ := qubitSparse_fold n s u hs hu a ha []
  refine ⟨canonEntries l, ?_, ?_⟩
  · unfold qubitOperatorSparse
    have : ¬ n < countQubitsQubit a := by omega
    simp only [Option.getD_some, this, if_false]
    exact congrArg (Option.map fun l => (2 ^ n, canonEntries l)) h1
  · rw [(canonEntries_get l _ _).1, h2]
    rfl

end C06
end Proofs
end OFV
