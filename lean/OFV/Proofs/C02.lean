/- C02 — helper lemmas: dictionaries, closeness predicates, `isclose` against its Spec. -/
import Mathlib.Tactic.Linarith
import Mathlib.Tactic.Ring
import Mathlib.Tactic.NormNum
import OFV.Model.C02
import OFV.Spec.C02

namespace OFV
namespace Proofs
namespace C02
open Model Model.C02

/-! ### dictionaries -/

section dict
variable {κ α : Type} [DecidableEq κ]

theorem get?_eq_none_iff (d : List (κ × α)) (k : κ) : Dict.get? d k = none ↔ k ∉ Dict.keys d := by
  induction d with
  | nil => simp [Dict.get?, Dict.keys]
  | cons e r ih =>
    obtain ⟨k', v⟩ := e
    by_cases h : k' = k
    · simp [Dict.get?, Dict.keys, h]
    · have h' : ¬ k = k' := fun e => h e.symm
      simp [Dict.get?, Dict.keys, h, h'] at ih ⊢
      exact ih

theorem contains_iff_mem (d : List (κ × α)) (k : κ) : Dict.contains d k = true ↔ k ∈ Dict.keys d := by
  unfold Dict.contains
  cases h : Dict.get? d k with
  | none => simpa using (get?_eq_none_iff d k).1 h
  | some v =>
    have : ¬ (k ∉ Dict.keys d) := fun hn => by
      rw [(get?_eq_none_iff d k).2 hn] at h; cases h
    simpa using this

theorem contains_false_iff (d : List (κ × α)) (k : κ) : Dict.contains d k = false ↔ Dict.get? d k = none := by
  unfold Dict.contains; cases Dict.get? d k <;> simp

theorem contains_true_iff (d : List (κ × α)) (k : κ) :
    Dict.contains d k = true ↔ ∃ v, Dict.get? d k = some v := by
  unfold Dict.contains; cases Dict.get? d k <;> simp

theorem get?_set (d : List (κ × α)) (k k' : κ) (v : α) :
    Dict.get? (Dict.set d k v) k' = if k = k' then some v else Dict.get? d k' := by
  induction d with
  | nil => simp [Dict.set, Dict.get?]
  | cons e r ih =>
    obtain ⟨k0, v0⟩ := e
    by_cases h : k0 = k
    · subst h
      by_cases h' : k0 = k' <;> simp [Dict.set, Dict.get?, h']
    · by_cases h' : k0 = k'
      · subst h'
        have h2 : ¬ k = k0 := fun e => h e.symm
        simp [Dict.set, Dict.get?, h, h2]
      · simp [Dict.set, Dict.get?, h, h', ih]

omit [DecidableEq κ] in
theorem mem_keys_of_mem {d : List (κ × α)} {k : κ} {v : α} (h : (k, v) ∈ d) : k ∈ Dict.keys d := by
  unfold Dict.keys; exact List.mem_map.2 ⟨(k, v), h, rfl⟩

theorem get?_eq_some_iff_mem (d : List (κ × α)) (wf : Dict.WF d) (k : κ) (v : α) :
    Dict.get? d k = some v ↔ (k, v) ∈ d := by
  induction d with
  | nil => simp [Dict.get?]
  | cons e r ih =>
    obtain ⟨k0, v0⟩ := e
    have wf' : (k0 ∉ Dict.keys r) ∧ Dict.WF r := by
      simpa [Dict.WF, Dict.keys] using wf
    by_cases h : k0 = k
    · subst h
      simp only [Dict.get?, if_true, List.mem_cons, Prod.mk.injEq, true_and, Option.some.injEq]
      constructor
      · intro e; exact Or.inl e.symm
      · rintro (e | e)
        · exact e.symm
        · exact absurd (mem_keys_of_mem e) wf'.1
    · have hne : ¬ (k = k0) := fun e => h e.symm
      simp [Dict.get?, h, hne, ih wf'.2]

theorem get?_perm {d d' : List (κ × α)} (h : d.Perm d') (wf : Dict.WF d) (k : κ) :
    Dict.get? d k = Dict.get? d' k := by
  have wf' : Dict.WF d' := by
    unfold Dict.WF Dict.keys at *
    exact (h.map _).nodup_iff.1 wf
  apply Option.ext
  intro v
  rw [get?_eq_some_iff_mem d wf, get?_eq_some_iff_mem d' wf', h.mem_iff]

end dict

/-! ### Model closeness = Spec closeness -/

theorem nsq_eq (x : GQ) : Spec.C02.nsq x = x.normSq := rfl

theorem normSq_nonneg (x : GQ) : 0 ≤ x.normSq := by
  unfold GQ.normSq; nlinarith [mul_self_nonneg x.re, mul_self_nonneg x.im]

theorem normSq_sub_comm (x y : GQ) : (x - y).normSq = (y - x).normSq := by
  simp [GQ.normSq]; ring

theorem spec_absLt_iff (x : GQ) (t : Rat) :
    Spec.C02.absLt x t = true ↔ (0 < t ∧ x.normSq < t * t) := by
  unfold Spec.C02.absLt; rw [decide_eq_true_eq]; rfl

theorem absLt_iff (x : GQ) (t : Rat) : absLt x t = true ↔ (0 < t ∧ x.normSq < t * t) := by
  simp [absLt]

theorem absLt_eq (x : GQ) (t : Rat) : absLt x t = Spec.C02.absLt x t := by
  rw [Bool.eq_iff_iff, spec_absLt_iff, absLt_iff]

theorem lt_mul_rmax (d T p q : Rat) (hT : 0 ≤ T) :
    d < T * rmax p q ↔ (d < T * p ∨ d < T * q) := by
  unfold rmax
  split
  · rename_i h
    constructor
    · exact fun h' => Or.inr h'
    · rintro (h' | h')
      · exact lt_of_lt_of_le h' (mul_le_mul_of_nonneg_left h hT)
      · exact h'
  · rename_i h
    have h : q ≤ p := le_of_lt (not_le.1 h)
    constructor
    · exact fun h' => Or.inl h'
    · rintro (h' | h')
      · exact h'
      · exact lt_of_lt_of_le h' (mul_le_mul_of_nonneg_left h hT)

theorem spec_relClose_iff (tol : Rat) (x y : GQ) :
    Spec.C02.relClose tol x y = true ↔ (0 < tol ∧ ((x - y).normSq < tol * tol ∨
      (x - y).normSq < tol * tol * x.normSq ∨ (x - y).normSq < tol * tol * y.normSq)) := by
  unfold Spec.C02.relClose; rw [decide_eq_true_eq]; rfl

theorem closeRel_iff (tol : Rat) (x y : GQ) :
    closeRel tol x y = true ↔ (0 < tol ∧ ((x - y).normSq < tol * tol ∨
      (x - y).normSq < tol * tol * x.normSq ∨ (x - y).normSq < tol * tol * y.normSq)) := by
  unfold closeRel maxSq
  have hT : (0 : Rat) ≤ tol * tol := mul_self_nonneg tol
  simp only [Bool.and_eq_true, decide_eq_true_eq]
  rw [lt_mul_rmax _ _ _ _ hT, lt_mul_rmax _ _ _ _ hT, mul_one]

theorem closeRel_eq (tol : Rat) (x y : GQ) : closeRel tol x y = Spec.C02.relClose tol x y := by
  rw [Bool.eq_iff_iff, spec_relClose_iff, closeRel_iff]

/-! ### `isclose` against the per-term statement -/

/-- what the two loops test for a term `t` -/
def termOK (tol : Rat) (a b : Op) (t : Term) : Bool :=
  if Dict.contains a t && Dict.contains b t then closeRel tol (Dict.getD a t 0) (Dict.getD b t 0)
  else if Dict.contains a t then absLt (Dict.getD a t 0) tol
  else if Dict.contains b t then absLt (Dict.getD b t 0) tol
  else true

theorem termOK_eq_coefClose (tol : Rat) (a b : Op) (t : Term) :
    termOK tol a b t = Spec.C02.coefClose tol (Dict.get? a t) (Dict.get? b t) := by
  unfold termOK Dict.contains Dict.getD
  cases ha : Dict.get? a t <;> cases hb : Dict.get? b t <;>
    simp [Spec.C02.coefClose, absLt_eq, closeRel_eq]

theorem mem_interKeys (a b : Op) (t : Term) :
    t ∈ interKeys a b ↔ Dict.contains a t = true ∧ Dict.contains b t = true := by
  simp [interKeys, contains_iff_mem]

theorem mem_symKeys (a b : Op) (t : Term) :
    t ∈ symKeys a b ↔ (Dict.contains a t = true ∧ Dict.contains b t = false) ∨
      (Dict.contains b t = true ∧ Dict.contains a t = false) := by
  simp [symKeys, contains_iff_mem]

theorem iscloseWith_iff_termOK (tol : Rat) (a b : Op) (shared sym : List Term)
    (hs : shared.Perm (interKeys a b)) (hy : sym.Perm (symKeys a b)) :
    iscloseWith shared sym tol a b = true ↔ ∀ t, termOK tol a b t = true := by
  unfold iscloseWith
  rw [hs.all_eq, hy.all_eq, Bool.and_eq_true, List.all_eq_true, List.all_eq_true]
  constructor
  · rintro ⟨h1, h2⟩ t
    unfold termOK
    cases ha : Dict.contains a t <;> cases hb : Dict.contains b t
    · simp
    · have := h2 t ((mem_symKeys a b t).2 (Or.inr ⟨hb, ha⟩))
      simpa [ha, hb] using this
    · have := h2 t ((mem_symKeys a b t).2 (Or.inl ⟨ha, hb⟩))
      simpa [ha, hb] using this
    · have := h1 t ((mem_interKeys a b t).2 ⟨ha, hb⟩)
      simpa [ha, hb] using this
  · intro h
    constructor
    · intro t ht
      obtain ⟨ha, hb⟩ := (mem_interKeys a b t).1 ht
      have := h t
      simpa [termOK, ha, hb] using this
    · intro t ht
      have := h t
      rcases (mem_symKeys a b t).1 ht with ⟨ha, hb⟩ | ⟨hb, ha⟩
      · simpa [termOK, ha, hb] using this
      · simpa [termOK, ha, hb] using this

theorem iscloseWith_iff_spec (tol : Rat) (a b : Op) (shared sym : List Term)
    (hs : shared.Perm (interKeys a b)) (hy : sym.Perm (symKeys a b)) :
    iscloseWith shared sym tol a b = true ↔ Spec.C02.Isclose tol a b := by
  rw [iscloseWith_iff_termOK tol a b shared sym hs hy]
  unfold Spec.C02.Isclose
  constructor
  · intro h t; rw [← termOK_eq_coefClose]; exact h t
  · intro h t; rw [termOK_eq_coefClose]; exact h t

/-! ### consequences: symmetry, reflexivity, frame, insertion order -/

theorem coefClose_symm (tol : Rat) (x y : Option GQ) :
    Spec.C02.coefClose tol x y = Spec.C02.coefClose tol y x := by
  cases x <;> cases y <;> simp only [Spec.C02.coefClose]
  rename_i x y
  rw [Bool.eq_iff_iff, spec_relClose_iff, spec_relClose_iff, normSq_sub_comm x y]
  constructor <;> rintro ⟨h, h1 | h1 | h1⟩ <;> simp [h, h1]

theorem spec_isclose_symm (tol : Rat) (a b : Op) :
    Spec.C02.Isclose tol a b ↔ Spec.C02.Isclose tol b a := by
  unfold Spec.C02.Isclose
  constructor <;> intro h t <;> rw [coefClose_symm] <;> exact h t

theorem isclose_iff_spec (tol : Rat) (a b : Op) : isclose tol a b = true ↔ Spec.C02.Isclose tol a b :=
  iscloseWith_iff_spec tol a b _ _ (List.Perm.refl _) (List.Perm.refl _)

theorem sub_self_normSq (x : GQ) : (x - x).normSq = 0 := by
  simp [GQ.normSq]

theorem coefClose_refl (tol : Rat) (h : 0 < tol) (x : GQ) :
    Spec.C02.coefClose tol (some x) (some x) = true := by
  simp only [Spec.C02.coefClose]
  rw [spec_relClose_iff, sub_self_normSq]
  exact ⟨h, Or.inl (mul_pos h h)⟩

theorem bool_eq_of_iff {p q : Bool} (h : p = true ↔ q = true) : p = q := by
  cases p <;> cases q <;> simp_all

end C02
end Proofs
end OFV
