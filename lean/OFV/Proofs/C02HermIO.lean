/-
C02 — `is_hermitian(InteractionOperator)`, soundness direction: if the normal-ordered tensors of
the operator and of its `hermitian_conjugated` agree entry by entry, then the operator and its
formal adjoint (conjugated constant, `T.conj()` tensors) denote the same element of every algebra
satisfying the CAR.
-/
import OFV.Proofs.C03Tensor
import OFV.Model.C02
import OFV.Proofs.C02Tensor

namespace OFV
namespace Proofs
namespace C03
open Model Model.C03 Finset

variable {A : Type} [Ring A]

/-- the one-body part `Σ one[p,q] a†_p a_q` -/
def den1 (I : Interp A) (n : Nat) (T : List GQ) : A :=
  ∑ p ∈ range n, ∑ q ∈ range n, I.ι (T.getD (p * n + q) 0) * (I.g (p, 1) * I.g (q, 0))

/-- the operator an InteractionOperator denotes -/
def denIO (I : Interp A) (n : Nat) (c : GQ) (one two : List GQ) : A :=
  I.ι c + den1 I n one + den2 I n two

theorem den2_congr (I : Interp A) (n : Nat) (T T' : List GQ)
    (h : ∀ p q r s, p < n → q < n → r < n → s < n → t4 n T p q r s = t4 n T' p q r s) :
    den2 I n T = den2 I n T' := by
  unfold den2
  apply sum_congr rfl; intro p hp
  apply sum_congr rfl; intro q hq
  apply sum_congr rfl; intro r hr
  apply sum_congr rfl; intro s hs
  rw [h p q r s (mem_range.1 hp) (mem_range.1 hq) (mem_range.1 hr) (mem_range.1 hs)]

theorem den1_congr (I : Interp A) (n : Nat) (T T' : List GQ)
    (h : ∀ p q, p < n → q < n → T.getD (p * n + q) 0 = T'.getD (p * n + q) 0) :
    den1 I n T = den1 I n T' := by
  unfold den1
  apply sum_congr rfl; intro p hp
  apply sum_congr rfl; intro q hq
  rw [h p q (mem_range.1 hp) (mem_range.1 hq)]

/-- **soundness of the InteractionOperator branch of `is_hermitian`** (exact agreement of the
normal-ordered tensors): the operator equals its formal adjoint in every CAR algebra -/
theorem hermitianIO_sound (I : Interp A)
    (car_same : ∀ x l : Factor, x.2 = l.2 → x.1 ≠ l.1 → I.g l * I.g x + I.g x * I.g l = 0)
    (car_sq : ∀ x l : Factor, x.2 = l.2 → x.1 = l.1 → I.g l * I.g x = 0)
    (n : Nat) (c : GQ) (one two : List GQ)
    (hc : c = c.conj)
    (h1 : ∀ p q, p < n → q < n → one.getD (p * n + q) 0 = (Model.C02.hcOneBody n one).getD (p * n + q) 0)
    (h2 : ∀ p q r s, p < n → q < n → r < n → s < n →
      t4 n (normalOrderedTwoBody n two) p q r s =
        t4 n (normalOrderedTwoBody n (Model.C02.hcTwoBody n two)) p q r s) :
    denIO I n c one two = denIO I n c.conj (Model.C02.hcOneBody n one) (Model.C02.hcTwoBody n two) := by
  have anti : ∀ (a p q : Nat), I.g (q, a) * I.g (p, a) = -(I.g (p, a) * I.g (q, a)) := by
    intro a p q
    by_cases h : p = q
    · subst h
      have := car_sq (p, a) (p, a) rfl rfl
      rw [this]; simp
    · have := car_same (p, a) (q, a) rfl h
      exact eq_neg_of_add_eq_zero_left this
  have hs : ∀ T, den2 I n (normalOrderedTwoBody n T) = den2 I n T := fun T =>
    normalOrderedTwoBody_sound I n T (anti 1) (fun p => car_sq (p, 1) (p, 1) rfl rfl)
      (anti 0) (fun r => car_sq (r, 0) (r, 0) rfl rfl)
  unfold denIO
  rw [← hc, den1_congr I n one _ h1, ← hs two, ← hs (Model.C02.hcTwoBody n two),
    den2_congr I n _ _ h2]

theorem length_foldl_set {β : Type} (L : List β) (key : β → Nat) (val : β → GQ) (init : List GQ) :
    (L.foldl (fun acc e => acc.set (key e) (val e)) init).length = init.length := by
  induction L generalizing init with
  | nil => rfl
  | cons e r ih => rw [List.foldl_cons, ih, List.length_set]

theorem length_normalOrderedTwoBody (n : Nat) (T : List GQ) : (normalOrderedTwoBody n T).length = n * n * n * n := by
  unfold normalOrderedTwoBody
  rw [length_foldl_set (indexPairs n)
    (fun e => ((e.1.1 * n + e.1.2) * n + e.2.1) * n + e.2.2) (fun e => antisym n T e.1 e.2)]
  simp

theorem length_flatMap_map {α β γ : Type} (l : List α) (l' : List β) (f : α → β → γ) :
    (l.flatMap (fun p => l'.map (f p))).length = l.length * l'.length := by
  induction l with
  | nil => simp
  | cons a r ih => simp only [List.flatMap_cons, List.length_append, List.length_map, ih, List.length_cons]; ring

theorem length_hcOneBody (n : Nat) (T : List GQ) : (Model.C02.hcOneBody n T).length = n * n := by
  unfold Model.C02.hcOneBody
  rw [length_flatMap_map (List.range n) (List.range n) (fun p q => (T.getD (q * n + p) 0).conj)]
  simp

/-- the coded test in the exact regime implies that the operator equals its formal adjoint -/
theorem isHermitianIO_sound (I : Interp A)
    (car_same : ∀ x l : Factor, x.2 = l.2 → x.1 ≠ l.1 → I.g l * I.g x + I.g x * I.g l = 0)
    (car_sq : ∀ x l : Factor, x.2 = l.2 → x.1 = l.1 → I.g l * I.g x = 0)
    (tol : Rat) (n : Nat) (c : GQ) (one two : List GQ) (hlen : one.length = n * n)
    (hexact : ∀ k i,
      (Spec.C02.entry (Model.C02.ioNormalTensors n c one two) k i -
        Spec.C02.entry (Model.C02.ioNormalTensors n c.conj (Model.C02.hcOneBody n one) (Model.C02.hcTwoBody n two)) k i).normSq
          < tol * tol →
      Spec.C02.entry (Model.C02.ioNormalTensors n c one two) k i =
        Spec.C02.entry (Model.C02.ioNormalTensors n c.conj (Model.C02.hcOneBody n one) (Model.C02.hcTwoBody n two)) k i)
    (h : Model.C02.isHermitianIO tol n c one two = true) :
    denIO I n c one two = denIO I n c.conj (Model.C02.hcOneBody n one) (Model.C02.hcTwoBody n two) := by
  unfold Model.C02.isHermitianIO Model.C02.tensorEq at h
  rw [Proofs.C02.tensorEqWith_iff tol n n _ _ _ (List.Perm.refl _)] at h
  · obtain ⟨_, _, hent⟩ := h
    have ent : ∀ k i, Spec.C02.entry (Model.C02.ioNormalTensors n c one two) k i =
        Spec.C02.entry (Model.C02.ioNormalTensors n c.conj (Model.C02.hcOneBody n one) (Model.C02.hcTwoBody n two)) k i :=
      fun k i => hexact k i (hent k i)
    apply hermitianIO_sound I car_same car_sq n c one two
    · have := ent [] 0
      simpa [Spec.C02.entry, Model.C02.ioNormalTensors, Dict.get?] using this
    · intro p q _ _
      have := ent [1, 0] (p * n + q)
      simpa [Spec.C02.entry, Model.C02.ioNormalTensors, Dict.get?] using this
    · intro p q r s _ _ _ _
      have := ent [1, 1, 0, 0] (((p * n + q) * n + r) * n + s)
      simpa [Spec.C02.entry, Model.C02.ioNormalTensors, Dict.get?, t4] using this
  · intro k x y hx hy
    simp only [Model.C02.ioNormalTensors, Dict.get?] at hx hy
    by_cases h0 : ([] : List Nat) = k
    · subst h0; simp at hx hy; subst hx; subst hy; rfl
    · by_cases h1 : ([1, 0] : List Nat) = k
      · subst h1; simp at hx hy; subst hx; subst hy; rw [hlen, length_hcOneBody]
      · by_cases h2 : ([1, 1, 0, 0] : List Nat) = k
        · subst h2; simp at hx hy; subst hx; subst hy
          rw [length_normalOrderedTwoBody, length_normalOrderedTwoBody]
        · simp [h0, h1, h2] at hx

theorem getD_default_of_le {α : Type} (l : List α) (i : Nat) (d : α) (h : l.length ≤ i) : l.getD i d = d := by
  simp [List.getD, h]

/-- the decidable test evaluated by the driver implies the exact-regime hypothesis -/
theorem hexact_of_ioExactB (tol : Rat) (n : Nat) (c : GQ) (one two : List GQ) (hlen : one.length = n * n)
    (h : Model.C02.ioExactB tol n c one two = true) :
    ∀ k i,
      (Spec.C02.entry (Model.C02.ioNormalTensors n c one two) k i -
        Spec.C02.entry (Model.C02.ioNormalTensors n c.conj (Model.C02.hcOneBody n one) (Model.C02.hcTwoBody n two)) k i).normSq
          < tol * tol →
      Spec.C02.entry (Model.C02.ioNormalTensors n c one two) k i =
        Spec.C02.entry (Model.C02.ioNormalTensors n c.conj (Model.C02.hcOneBody n one) (Model.C02.hcTwoBody n two)) k i := by
  intro k i hlt
  unfold Model.C02.ioExactB at h
  simp only [List.all_eq_true] at h
  have hn2 : n * n ≤ n * n * n * n := by
    rcases Nat.eq_zero_or_pos n with h0 | h0
    · subst h0; simp
    · have : 1 ≤ n * n := Nat.mul_pos h0 h0
      calc n * n = n * n * 1 := by ring
        _ ≤ n * n * (n * n) := Nat.mul_le_mul_left _ this
        _ = n * n * n * n := by ring
  by_cases hk : k = [] ∨ k = [1, 0] ∨ k = [1, 1, 0, 0]
  · have hkm : k ∈ [([] : List Nat), [1, 0], [1, 1, 0, 0]] := by
      rcases hk with rfl | rfl | rfl <;> simp
    by_cases hi : i < n * n * n * n + 1
    · have := h k hkm i (List.mem_range.2 hi)
      unfold Spec.C02.entry at hlt ⊢
      simp only [Bool.or_eq_true, Bool.not_eq_true', decide_eq_false_iff_not, decide_eq_true_eq] at this
      rcases this with h1 | h1
      · exact absurd hlt h1
      · exact h1
    · -- beyond every tensor: both entries are the default 0
      unfold Spec.C02.entry
      have hi' : n * n * n * n + 1 ≤ i := by omega
      rcases hk with rfl | rfl | rfl
      · simp [Model.C02.ioNormalTensors, Dict.get?, List.getD]
        have : ¬ i = 0 := by omega
        cases i with
        | zero => omega
        | succ j => simp
      · simp only [Model.C02.ioNormalTensors, Dict.get?]
        simp
        rw [List.getElem?_eq_none (by rw [hlen]; omega), List.getElem?_eq_none (by rw [length_hcOneBody]; omega)]
      · simp only [Model.C02.ioNormalTensors, Dict.get?]
        simp
        rw [List.getElem?_eq_none (by rw [length_normalOrderedTwoBody]; omega),
          List.getElem?_eq_none (by rw [length_normalOrderedTwoBody]; omega)]
  · unfold Spec.C02.entry
    have h0 : ¬ ([] : List Nat) = k := fun e => hk (Or.inl e.symm)
    have h1 : ¬ ([1, 0] : List Nat) = k := fun e => hk (Or.inr (Or.inl e.symm))
    have h2 : ¬ ([1, 1, 0, 0] : List Nat) = k := fun e => hk (Or.inr (Or.inr e.symm))
    simp [Model.C02.ioNormalTensors, Dict.get?, h0, h1, h2]

end C03
end Proofs
end OFV
