/-
C03 — the factors of every term produced by normal ordering are factors of the input term:
any predicate on factors (e.g. "the action code is 0 or 1") is inherited by the result.
-/
import OFV.Proofs.C03Normal

namespace OFV
namespace Proofs
namespace C03
open Model Model.C03

def TermQ (Q : Factor → Prop) (t : Term) : Prop := ∀ f ∈ t, Q f

theorem termQ_append {Q : Factor → Prop} {s t : Term} (hs : TermQ Q s) (ht : TermQ Q t) : TermQ Q (s ++ t) := by
  intro f hf
  rcases List.mem_append.1 hf with h | h
  · exact hs f h
  · exact ht f h

theorem termQ_cons {Q : Factor → Prop} {x : Factor} {t : Term} (hx : Q x) (ht : TermQ Q t) : TermQ Q (x :: t) := by
  intro f hf
  rcases List.mem_cons.1 hf with rfl | h
  · exact hx
  · exact ht f h

theorem termQ_reverse {Q : Factor → Prop} {t : Term} (ht : TermQ Q t) : TermQ Q t.reverse :=
  fun f hf => ht f (List.mem_reverse.1 hf)

theorem termQ_tail {Q : Factor → Prop} {x : Factor} {t : Term} (h : TermQ Q (x :: t)) : TermQ Q t :=
  fun f hf => h f (List.mem_cons_of_mem _ hf)

section
variable (tol : Rat) (k : Kind) (rec : Term → GQ → Op) (Q : Factor → Prop)

def StepValid (Q : Factor → Prop) : Step → Prop
  | .cont pre _ acc => TermQ Q pre ∧ AllKeys (TermQ Q) acc
  | .ret acc => AllKeys (TermQ Q) acc

theorem inner_valid (hrec : ∀ t c, TermQ Q t → AllKeys (TermQ Q) (rec t c)) :
    ∀ (revP : Term) (x : Factor) (passed S : Term) (c : GQ) (acc : Op),
      TermQ Q revP → Q x → TermQ Q passed → TermQ Q S → AllKeys (TermQ Q) acc →
      StepValid Q (inner tol k rec revP x passed S c acc) := by
  intro revP
  induction revP with
  | nil =>
    intro x passed S c acc _ hx hp _ ha
    exact ⟨termQ_cons hx hp, ha⟩
  | cons l r ih =>
    intro x passed S c acc hr hx hp hS ha
    have hl : Q l := hr l (by simp)
    have hr' : TermQ Q r := termQ_tail hr
    unfold inner
    split_ifs
    · exact ih x (l :: passed) S _ _ hr' hx (termQ_cons hl hp) hS
        (allKeys_iadd _ tol _ _ ha (hrec _ _ (termQ_append (termQ_append (termQ_reverse hr') hp) hS)))
    · exact ih x (l :: passed) S _ _ hr' hx (termQ_cons hl hp) hS ha
    · exact ha
    · exact ih x (l :: passed) S _ _ hr' hx (termQ_cons hl hp) hS ha
    · exact ih l (x :: passed) S _ _ hr' hl (termQ_cons hx hp) hS ha
    · exact ih l (x :: passed) S _ _ hr' hl (termQ_cons hx hp) hS ha

theorem outer_valid (hrec : ∀ t c, TermQ Q t → AllKeys (TermQ Q) (rec t c))
    (hfin : ∀ t, TermQ Q t → TermQ Q (simplify k.cls t).2) :
    ∀ (rest done : Term) (c : GQ) (acc : Op), TermQ Q done → TermQ Q rest → AllKeys (TermQ Q) acc →
      AllKeys (TermQ Q) (outer tol k rec done rest c acc) := by
  intro rest
  induction rest with
  | nil =>
    intro done c acc hd _ ha
    unfold outer
    apply allKeys_iadd _ tol _ _ ha
    intro e he
    simp only [mk, List.mem_singleton] at he
    subst he
    exact hfin done hd
  | cons x S ih =>
    intro done c acc hd hrs ha
    have hs := inner_valid tol k rec Q hrec done.reverse x [] S c acc (termQ_reverse hd)
      (hrs x (by simp)) (fun f hf => by simp at hf) (termQ_tail hrs) ha
    unfold outer
    cases hstep : inner tol k rec done.reverse x [] S c acc with
    | ret acc' => rw [hstep] at hs; exact hs
    | cont pre c' acc' =>
      rw [hstep] at hs
      exact ih pre c' acc' hs.1 (termQ_tail hrs) hs.2

theorem noTermFuel_valid (hfin : ∀ t, TermQ Q t → TermQ Q (simplify k.cls t).2) :
    ∀ (fuel : Nat) (t : Term) (c : GQ), TermQ Q t → AllKeys (TermQ Q) (noTermFuel tol k fuel t c) := by
  intro fuel
  induction fuel with
  | zero => intro t c _ e he; simp [noTermFuel] at he
  | succ fuel ih =>
    intro t c ht
    unfold noTermFuel
    exact outer_valid tol k _ Q ih hfin t [] c [] (fun f hf => by simp at hf) ht (fun e he => by simp at he)

theorem normalOrdered_valid (hfin : ∀ t, TermQ Q t → TermQ Q (simplify k.cls t).2) (a : Op)
    (ha : AllKeys (TermQ Q) a) : AllKeys (TermQ Q) (normalOrdered tol k a) := by
  unfold normalOrdered
  have : ∀ (l : Op) (acc : Op), AllKeys (TermQ Q) l → AllKeys (TermQ Q) acc →
      AllKeys (TermQ Q) (l.foldl (fun acc x => iadd tol acc (noTerm tol k x.1 x.2)) acc) := by
    intro l
    induction l with
    | nil => intro acc _ h; simpa using h
    | cons e r ih =>
      intro acc hl h
      rw [List.foldl_cons]
      exact ih _ (fun e' he' => hl e' (List.mem_cons_of_mem _ he'))
        (allKeys_iadd _ tol _ _ h (noTermFuel_valid tol k Q hfin _ _ _ (hl e (by simp))))
  exact this a [] ha (fun e he => by simp at he)

end

end C03
end Proofs
end OFV
