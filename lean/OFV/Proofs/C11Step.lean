/- Helper lemmas for C11: entries of a column rotation; the elementary step zeroes its target and keeps
pairs of zeros. -/
import OFV.Model.C11
import OFV.Proofs.C11Num

namespace OFV
namespace Model
namespace C11

theorem getD_set_list' {α} (l : List α) (i j : Nat) (v d : α) :
    (l.set i v).getD j d = if i = j ∧ i < l.length then v else l.getD j d := by
  simp only [List.getD_eq_getElem?_getD, List.getElem?_set]
  by_cases h : i = j
  · subst h
    by_cases h2 : i < l.length <;> simp [h2]
  · simp [h]

/-- entries of row `i` after `givens_rotate(M, G, a, b, which='col')` -/
theorem rotateCols_get (M : Mat) (G : G2) (a b i x : Nat) (hi : i < M.length)
    (ha : a < (M.getD i []).length) (hb : b < (M.getD i []).length) (hab : a ≠ b) :
    (rotateCols M G a b).get i x =
      if x = b then G.g10 * M.get i a + G.g11.conj * M.get i b
      else if x = a then G.g00 * M.get i a + G.g01.conj * M.get i b
      else M.get i x := by
  unfold rotateCols Mat.get
  have h2 : M.getD i [] = M[i] := by
    rw [List.getD_eq_getElem?_getD, List.getElem?_eq_getElem hi]; simp
  have hmap : (List.map (fun row =>
        (row.set a (G.g00 * row.getD a 0 + G.g01.conj * row.getD b 0)).set b
          (G.g10 * row.getD a 0 + G.g11.conj * row.getD b 0)) M).getD i [] =
      (M[i].set a (G.g00 * M[i].getD a 0 + G.g01.conj * M[i].getD b 0)).set b
          (G.g10 * M[i].getD a 0 + G.g11.conj * M[i].getD b 0) := by
    simp [List.getD_eq_getElem?_getD, List.getElem?_map, List.getElem?_eq_getElem hi]
  rw [h2] at ha hb
  rw [hmap, h2]
  rw [getD_set_list', getD_set_list']
  simp only [List.length_set]
  by_cases h1 : x = b
  · subst h1; simp [hb]
  · by_cases h3 : x = a
    · subst h3
      have : ¬ (b = x ∧ b < M[i].length) := fun h => h1 h.1.symm
      simp [this, ha, h1]
    · have e1 : ¬ (b = x ∧ b < M[i].length) := fun h => h1 h.1.symm
      have e2 : ¬ (a = x ∧ a < M[i].length) := fun h => h3 h.1.symm
      simp [e1, e2, h1, h3]

theorem gq_mul_zero (z : GQ) : z * 0 = 0 := by refine GQ.ext ?_ ?_ <;> simp
theorem gq_add_zero : (0 : GQ) + 0 = 0 := by refine GQ.ext ?_ ?_ <;> simp

/-- the `[1,0]` entry of the matrix is real in the exact regime (the code multiplies a column by it
without conjugating) -/
theorem assemble_g10_real {a b : GQ} {c s : Rat} {ph : GQ} (h : CSP a b c s ph) (right real : Bool)
    (hreal : real = true → ph.im = 0) : (assemble right real c s ph).g10.im = 0 := by
  cases right <;> cases real <;> simp only [assemble, Bool.not_true, Bool.not_false, if_true, if_false,
    Bool.false_eq_true]
  · simp
  · obtain ⟨hi, _⟩ := ph_real_sq h (hreal rfl)
    simp [hi]
  · simp
  · obtain ⟨hi, _⟩ := ph_real_sq h (hreal rfl)
    simp [hi]

/-- if `G₁₀` is real and `G₁₀ ā + G₁₁ b̄ = 0` then `G₁₀ a + conj(G₁₁) b = 0` -/
theorem conj_zero_relation (g10 g11 a b : GQ) (hre : g10.im = 0)
    (h : g10 * a.conj + g11 * b.conj = 0) : g10 * a + g11.conj * b = 0 := by
  have h1 := congrArg GQ.re h
  have h2 := congrArg GQ.im h
  simp at h1 h2
  refine GQ.ext ?_ ?_ <;> simp [hre] at h1 h2 ⊢
  · linarith
  · linarith

theorem column_step_zeroes_target_aux (tol : Rat) (htol : 0 < tol) (M : Mat) (i j : Nat) (G : G2)
    (hi : i < M.length) (hj : 1 ≤ j) (hrow : j < (M.getD i []).length)
    (hexa : small tol (M.get i (j - 1)).conj = true → (M.get i (j - 1)).conj = 0)
    (hexb : small tol (M.get i j).conj = true → (M.get i j).conj = 0)
    (hreal : RealExact tol (M.get i (j - 1)).conj (M.get i j).conj)
    (hG : givensElems tol (M.get i (j - 1)).conj (M.get i j).conj true = .ok G) :
    (rotateCols M G (j - 1) j).get i j = 0 := by
  rw [rotateCols_get M G (j - 1) j i j hi (by omega) hrow (by omega)]
  simp only [if_true]
  obtain ⟨c, s, ph, hC, hr, rfl⟩ := givensElems_inv hreal hG
  have hcsp := cosSinPhase_spec htol hexa hexb hC
  have hz := assemble_zeroes hcsp true _ hr
  simp only [G2.Zeroes, if_true] at hz
  exact conj_zero_relation _ _ _ _ (assemble_g10_real hcsp true _ hr) hz

theorem column_step_keeps_aux (M : Mat) (G : G2) (i' j x : Nat) (hi : i' < M.length) (hj : 1 ≤ j)
    (hrow : j < (M.getD i' []).length) :
    (M.get i' (j - 1) = 0 → M.get i' j = 0 →
      (rotateCols M G (j - 1) j).get i' (j - 1) = 0 ∧ (rotateCols M G (j - 1) j).get i' j = 0) ∧
    (x ≠ j → x ≠ j - 1 → (rotateCols M G (j - 1) j).get i' x = M.get i' x) := by
  constructor
  · intro h1 h2
    rw [rotateCols_get M G (j - 1) j i' (j - 1) hi (by omega) hrow (by omega),
        rotateCols_get M G (j - 1) j i' j hi (by omega) hrow (by omega)]
    have hne : ¬ (j - 1 = j) := by omega
    simp only [hne, if_false, if_true, h1, h2, gq_mul_zero, gq_add_zero, and_self]
  · intro hx1 hx2
    rw [rotateCols_get M G (j - 1) j i' x hi (by omega) hrow (by omega)]
    simp [hx1, hx2]

end C11
end Model
end OFV
