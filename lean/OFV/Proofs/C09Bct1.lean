/- C09, binary_code_transform, part 1: diagonal (Z / identity) operators and X-strings in the
matrix semantics `Sem.den .qubit A [m] [x] = ⟨x| A |m⟩` of the Spec. -/
import OFV.Proofs.C09Seq
import OFV.Proofs.C04Hom
import OFV.Proofs.C04Rev4

namespace OFV.C09
open OFV.Model OFV.Model.C09 OFV.Spec.C09
open OFV.Spec (actP actPTerm)
open OFV.Sem (den ValidOp ValidQ)

/-- bits of a basis state as an assignment -/
def bitsOf (m : Nat) : Nat → Bool := fun i => m.testBit i

theorem zi_valid (o : Op) (h : ZIop o) : ValidOp o := by
  intro tc htc f hf
  rcases h tc htc f hf with h0 | h3 <;> omega

/-- a Z / identity operator is diagonal: `⟨x| o |m⟩ = δ_xm · diag` -/
theorem den_ZI (o : Op) (ho : ZIop o) (m x : Nat) :
    den .qubit o [m] [x] = if x = m then diag (bitsOf m) o else 0 := by
  induction o with
  | nil =>
    rw [Sem.den_nil]; split <;> rfl
  | cons e r ih =>
    obtain ⟨t, c⟩ := e
    rw [Sem.den_cons, ih (fun y hy => ho y (List.mem_cons_of_mem _ hy)), Sem.termCoef_qubit]
    obtain ⟨k, hk, _, hchi⟩ := actPTerm_ZI t (ho (t, c) (by simp)) m
    rw [hk]
    by_cases hx : x = m
    · subst hx
      simp only [if_true, diag_cons, hchi]; rfl
    · have : ¬ m = x := fun e => hx e.symm
      simp only [this, hx, if_false]
      exact GQ.ext (by simp) (by simp)

theorem sum_scaled (b : Op) (w : Nat → Bool) (D : GQ) :
    (b.map fun r => r.2 * chi w r.1 * D).sum = diag w b * D := by
  induction b with
  | nil => exact GQ.ext (by simp [diag]) (by simp [diag])
  | cons e r ih =>
    obtain ⟨t, c⟩ := e
    rw [List.map_cons, List.sum_cons, ih, diag_cons]
    exact GQ.ext (by simp; ring) (by simp; ring)

/-- `a · b` with a diagonal right factor: `⟨x| a b |m⟩ = b(m) ⟨x| a |m⟩` -/
theorem den_mul_diag (a b : Op) (ha : ValidOp a) (hb : ZIop b) (m x : Nat) :
    den .qubit (mulOp .qubit a b) [m] [x] = diag (bitsOf m) b * den .qubit a [m] [x] := by
  rw [Sem.den_mulOp_right a b ha (zi_valid b hb) m x, ← sum_scaled b (bitsOf m)]
  congr 1
  apply List.map_congr_left
  intro r hr
  obtain ⟨k, hk, _, hchi⟩ := actPTerm_ZI r.1 (hb r hr) m
  rw [hk, hchi]; rfl

/-! ### the update operator: a product of X's -/

theorem den_identity (m x : Nat) : den .qubit [([], 1)] [m] [x] = if x = m then 1 else 0 := by
  rw [Sem.den_cons, Sem.den_nil, Sem.termCoef_qubit]
  have : actPTerm [] m = (0, m) := rfl
  rw [this]
  by_cases h : x = m
  · subst h; exact GQ.ext (by simp [GQ.ipow]) (by simp [GQ.ipow])
  · have : ¬ m = x := fun e => h e.symm
    simp only [this, h, if_false]
    exact GQ.ext (by simp) (by simp)

/-- acts as the bit flip `|m⟩ ↦ |m ⊕ M⟩` -/
def FlipOp (u : Op) (M : Nat) : Prop :=
  ValidOp u ∧ ∀ m x, den .qubit u [m] [x] = if x = m ^^^ M then 1 else 0

theorem flipOp_identity : FlipOp [([], 1)] 0 := by
  refine ⟨?_, ?_⟩
  · intro tc h f hf
    simp only [List.mem_singleton] at h
    subst h
    cases hf
  · intro m x
    rw [den_identity]; simp

theorem flipOp_mulX (u : Op) (M i : Nat) (h : FlipOp u M) :
    FlipOp (mulOp .qubit u [([(i, 1)], 1)]) ((1 <<< i) ^^^ M) := by
  have hX : ValidOp [([(i, 1)], (1 : GQ))] := by
    intro tc htc f hf
    simp only [List.mem_singleton] at htc
    subst htc
    simp only [List.mem_singleton] at hf
    subst hf
    show (1 : Nat) < 4
    omega
  refine ⟨Sem.mulOp_valid h.1 hX, ?_⟩
  intro m x
  rw [Sem.den_mulOp_right u _ h.1 hX m x]
  simp only [List.map_cons, List.map_nil, List.sum_cons, List.sum_nil]
  have hact : actPTerm [(i, 1)] m = (0, m ^^^ (1 <<< i)) := by
    simp [actPTerm, actP]
  rw [hact, h.2]
  have e : m ^^^ 1 <<< i ^^^ M = m ^^^ (1 <<< i ^^^ M) := Nat.xor_assoc _ _ _
  rw [e]
  split <;> exact GQ.ext (by simp [GQ.ipow]) (by simp [GQ.ipow])

/-- the mask `Σ_q 2^q` over the qubits with an odd entry of `numpy.mod(encoder.dot(changed), 2)` -/
def updMask (cq : List Nat) : Nat :=
  (cq.zipIdx).foldl (fun M (qi : Nat × Nat) => if qi.1 != 0 then (1 <<< qi.2) ^^^ M else M) 0

theorem flipOp_update (cq : List Nat) :
    FlipOp ((cq.zipIdx).foldl (fun (u : Op) (qi : Nat × Nat) =>
      if qi.1 != 0 then mulOp .qubit u [([(qi.2, 1)], 1)] else u) [([], 1)]) (updMask cq) := by
  unfold updMask
  suffices H : ∀ (l : List (Nat × Nat)) (u : Op) (M : Nat), FlipOp u M →
      FlipOp (l.foldl (fun (u : Op) (qi : Nat × Nat) => if qi.1 != 0 then mulOp .qubit u [([(qi.2, 1)], 1)] else u) u)
        (l.foldl (fun M (qi : Nat × Nat) => if qi.1 != 0 then (1 <<< qi.2) ^^^ M else M) M) from
    H _ _ _ flipOp_identity
  intro l
  induction l with
  | nil => intro u M h; exact h
  | cons qi r ih =>
    intro u M h
    rw [List.foldl_cons, List.foldl_cons]
    by_cases hq : (qi.1 != 0) = true
    · simp only [hq, if_true]
      exact ih _ _ (flipOp_mulX u M qi.2 h)
    · simp only [hq, if_false]
      exact ih _ _ h

end OFV.C09
