/- C09: the constructors of binary_codes.py — linear decoders, Jordan-Wigner, checksum. -/
import OFV.Proofs.C09Valid

namespace OFV.C09
open OFV.Model.C09 OFV.Spec.C09

/-! ### `BinaryCode.__init__` -/

theorem le_foldl_max (l : List Nat) (a : Nat) : a ≤ l.foldl max a ∧ ∀ k ∈ l, k ≤ l.foldl max a := by
  induction l generalizing a with
  | nil => simp
  | cons x r ih =>
    rw [List.foldl_cons]
    have h := ih (max a x)
    refine ⟨Nat.le_trans (Nat.le_max_left a x) h.1, ?_⟩
    intro k hk
    rcases List.mem_cons.mp hk with rfl | hk
    · exact Nat.le_trans (Nat.le_max_right a k) h.1
    · exact h.2 k hk

theorem le_maxL (l : List Nat) (k : Nat) (h : k ∈ l) : k ≤ maxL l := (le_foldl_max l 0).2 k h

theorem mk'_ok (enc : Mat) (nq nm : Nat) (dec : List Poly) (c : Code) (h : Code.mk' enc nq nm dec = .ok c) :
    c = ⟨enc, dec.map .poly, nq, nm⟩ ∧ nm = dec.length ∧ ∀ p ∈ dec, ∀ k ∈ qubits p, k < nq := by
  unfold Code.mk' at h
  split at h
  · cases h
  · next h1 =>
    simp only at h
    split at h
    · cases h
    · split at h
      · cases h
      · split at h
        · cases h
        · next h4 =>
          cases h
          refine ⟨rfl, by simpa using h1, ?_⟩
          intro p hp k hk
          have hmem : k ∈ (dec.flatMap qubits).eraseDups := by
            rw [List.mem_eraseDups]
            exact List.mem_flatMap.mpr ⟨p, hp, hk⟩
          have := le_maxL _ k hmem
          omega

theorem shaped_mk' (enc : Mat) (nq nm : Nat) (dec : List Poly) (c : Code)
    (h : Code.mk' enc nq nm dec = .ok c) (hr : enc.length = nq) (hc : ∀ row ∈ enc, row.length = nm) :
    Shaped c := by
  obtain ⟨rfl, hnm, hq⟩ := mk'_ok enc nq nm dec c h
  refine ⟨hr, hc, by simp [hnm], ?_⟩
  intro e he k hk
  simp only [List.mem_map] at he
  obtain ⟨p, hp, rfl⟩ := he
  exact hq p hp k hk

/-! ### linearize_decoder -/

/-- XOR of the variables of the listed columns -/
def xorCols (w : Nat → Bool) (cols : List Nat) : Bool := cols.foldr (fun c acc => xor (w c) acc) false

/-- the columns `linearize_decoder` reads off a matrix row -/
def onesOf (row : List Nat) : List Nat := (List.range row.length).filter fun c => row.getD c 0 == 1

theorem canonTerm_single (c : Nat) : canonTerm [some c] = [some c] := by
  simp [canonTerm, idx, sortU, insU]

theorem parseString_var (c : Nat) : parseString [Tok.var c] = .ok [some c] := by
  simp [parseString, parseStrGo, canonTerm_single]

theorem mapM_parse_vars (cols : List Nat) :
    (cols.map fun c => [Tok.var c]).mapM parseString = .ok (cols.map fun c => [some c]) := by
  induction cols with
  | nil => rfl
  | cons c r ih =>
    rw [List.map_cons, List.mapM_cons, parseString_var, ih]
    rfl

theorem eval_checkTerms_go (w : Nat → Bool) (ts acc : Poly) :
    evalPoly w (ts.foldl (fun acc item => if item.isEmpty then acc else sumRule acc (canonTerm item)) acc)
      = xor (evalPoly w acc) (ts.foldr (fun t a => xor (!t.isEmpty && evalMono w t) a) false) := by
  induction ts generalizing acc with
  | nil => simp
  | cons t r ih =>
    rw [List.foldl_cons, ih, List.foldr_cons]
    cases ht : t.isEmpty
    · simp only [Bool.false_eq_true, if_false, eval_sumRule, evalMono_canonTerm, Bool.not_false, Bool.true_and]
      rw [bxor_assoc]
    · simp

theorem eval_checkTerms (w : Nat → Bool) (ts : Poly) :
    evalPoly w (checkTerms ts) = ts.foldr (fun t a => xor (!t.isEmpty && evalMono w t) a) false := by
  unfold checkTerms
  rw [eval_checkTerms_go, evalPoly_nil]; simp

theorem eval_checkTerms_vars (w : Nat → Bool) (cols : List Nat) :
    evalPoly w (checkTerms (cols.map fun c => [some c])) = xorCols w cols := by
  rw [eval_checkTerms]
  induction cols with
  | nil => rfl
  | cons c r ih => simp [xorCols] at ih ⊢; rw [ih]

/-- a row of `linearize_decoder` denotes the GF(2)-linear form of that row -/
theorem linearizeRow_sound (row : List Nat) :
    ∃ p, linearizeRow row = .ok p ∧ ∀ w, evalPoly w p = xorCols w (onesOf row) := by
  unfold linearizeRow
  show ∃ p, (if (onesOf row).isEmpty then ofString [[]] else ofString ((onesOf row).map fun c => [Tok.var c])) = .ok p ∧ _
  split
  · next he =>
    refine ⟨[], by rfl, ?_⟩
    intro w
    rw [List.isEmpty_iff.mp he]; rfl
  · refine ⟨checkTerms ((onesOf row).map fun c => [some c]), ?_, fun w => eval_checkTerms_vars w _⟩
    unfold ofString
    rw [mapM_parse_vars]; rfl

theorem linearizeDecoder_sound (M : Mat) :
    ∃ ps, linearizeDecoder M = .ok ps ∧ ps.length = M.length ∧
      ∀ w i, evalPoly w (ps.getD i []) = xorCols w (onesOf (M.getD i [])) := by
  unfold linearizeDecoder
  induction M with
  | nil => exact ⟨[], rfl, rfl, by intro w i; simp [evalPoly_nil, onesOf, xorCols]⟩
  | cons row M ih =>
    obtain ⟨ps, hps, hlen, hev⟩ := ih
    obtain ⟨p, hp, hpe⟩ := linearizeRow_sound row
    refine ⟨p :: ps, ?_, by simp [hlen], ?_⟩
    · rw [List.mapM_cons, hp, hps]; rfl
    · intro w i
      cases i with
      | zero => simpa using hpe w
      | succ k => simpa using hev w k

/-! ### unit rows -/

theorem getD_map_range (n : Nat) (f : Nat → Nat) (c : Nat) (h : c < n) :
    ((List.range n).map f).getD c 0 = f c := by
  simp [List.getD_eq_getElem?_getD, h]

theorem filter_range_eq (n i : Nat) (h : i < n) : (List.range n).filter (fun c => decide (i = c)) = [i] := by
  induction n with
  | zero => omega
  | succ k ih =>
    rw [List.range_succ, List.filter_append]
    by_cases hik : i < k
    · rw [ih hik]
      have : i ≠ k := by omega
      simp [this]
    · have hk : i = k := by omega
      subst hk
      have : (List.range i).filter (fun c => decide (i = c)) = [] := by
        apply List.filter_eq_nil_iff.mpr
        intro a ha
        have := List.mem_range.mp ha
        simp; omega
      rw [this]; simp

theorem onesOf_unit (n i : Nat) (h : i < n) :
    onesOf ((List.range n).map fun j => if i = j then 1 else 0) = [i] := by
  unfold onesOf
  rw [List.length_map, List.length_range, ← filter_range_eq n i h]
  apply List.filter_congr
  intro c hc
  rw [getD_map_range n _ c (List.mem_range.mp hc)]
  by_cases hic : i = c <;> simp [hic]

theorem dot_unit (n i : Nat) (v : List Nat) :
    dot ((List.range n).map fun j => if i = j then 1 else 0) v = if i < n then v.getD i 0 else 0 := by
  induction n generalizing i v with
  | zero => simp
  | succ k ih =>
    rw [List.range_succ_eq_map, List.map_cons, List.map_map]
    cases v with
    | nil => simp
    | cons b v =>
      rw [dot_cons]
      cases i with
      | zero =>
        have hz : (List.range k).map ((fun j => if 0 = j then 1 else 0) ∘ Nat.succ) = zeros k := by
          simp [zeros, Function.comp_def, List.map_const']
        rw [hz, dot_zeros]; simp
      | succ i' =>
        have hs : (List.range k).map ((fun j => if i' + 1 = j then 1 else 0) ∘ Nat.succ)
            = (List.range k).map fun j => if i' = j then 1 else 0 := by
          apply List.map_congr_left; intro j _; simp [Function.comp]
        rw [hs, ih i' v]
        simp

theorem xorCols_single (w : Nat → Bool) (i : Nat) : xorCols w [i] = w i := by simp [xorCols]

theorem getD_identity (n i : Nat) (h : i < n) :
    (identity n).getD i [] = (List.range n).map fun j => if i = j then 1 else 0 := by
  simp [identity, List.getD_eq_getElem?_getD, h]

theorem bit_eq (x : Nat) (h : x ≤ 1) : (x % 2 == 1) = (x == 1) := by
  have : x = 0 ∨ x = 1 := by omega
  rcases this with rfl | rfl <;> rfl

theorem getD_le_one' (v : List Nat) (hb : ∀ x ∈ v, x ≤ 1) (i : Nat) : v.getD i 0 ≤ 1 := getD_le_one v hb i

theorem encFn_eq (c : Code) (v : List Nat) (q : Nat) (h : q < c.enc.length) :
    encFn c v q = (dot (c.enc.getD q []) v % 2 == 1) := by
  simp [encFn, encode, matVec, List.getD_eq_getElem?_getD, h]

theorem decFn_map_poly (ps : List Poly) (w : Nat → Bool) (i : Nat) :
    decFn (ps.map .poly) w i = evalPoly w (ps.getD i []) := by
  unfold decFn
  simp only [List.getD_eq_getElem?_getD, List.getElem?_map]
  cases ps[i]? <;> simp [DEntry.toPoly, evalPoly_nil]

/-! ### Jordan-Wigner code -/

theorem jw_valid' (n : Nat) (c : Code) (h : jordanWignerCode n = .ok c) (v : List Nat)
    (hb : ∀ x ∈ v, x ≤ 1) : ValidOn c v := by
  unfold jordanWignerCode at h
  obtain ⟨ps, hps, _, hev⟩ := linearizeDecoder_sound (identity n)
  simp only [hps, bind, Except.bind] at h
  obtain ⟨rfl, _, _⟩ := mk'_ok _ _ _ _ _ h
  intro i hi
  have hi' : i < n := hi
  show decFn (ps.map .poly) _ i = _
  rw [decFn_map_poly, hev, getD_identity n i hi', onesOf_unit n i hi', xorCols_single,
    encFn_eq _ _ _ (by simp [identity]; exact hi')]
  show (dot ((identity n).getD i []) v % 2 == 1) = _
  rw [getD_identity n i hi', dot_unit, if_pos hi', bit_eq _ (getD_le_one v hb i)]

end OFV.C09
