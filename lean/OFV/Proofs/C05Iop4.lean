/-
`_bravyi_kitaev_interaction_operator`: pending strings (one-body pairs and Coulomb/exchange terms), and the
whole Hamiltonian on an exact run as a sum of encoded actions of fermionic monomials.
-/
import OFV.Proofs.C05Iop3
import OFV.Proofs.C04Iop2

set_option linter.unusedSimpArgs false
set_option linter.unusedVariables false

namespace OFV
namespace BK
open Model Model.C05 Spec Sem

/-- the encoded number operator as a functional -/
theorem numAct (n i s : Nat) (hi : i < n) (V : Nat → GQ) :
    encActS n [(i, 1), (i, 0)] s V = if s.testBit i then V s else 0 := by
  have h1 := hopAct_eq n i i s (fun y => 0)
  unfold encActS
  simp only [actTermS, List.foldr_cons, List.foldr_nil, actBK, hi, if_true, actF]
  cases hb : s.testBit i with
  | false => simp
  | true =>
    have h2 : (s ^^^ (1 <<< i)).testBit i = false := by rw [testBit_xflip, hb]; rfl
    have h3 : countBelow (s ^^^ (1 <<< i)) i = countBelow s i := by
      rw [countBelow_eq_cnt, countBelow_eq_cnt, cnt_xflip s i 0 i (Or.inr (Nat.le_refl _))]
    simp [h2, h3, xflip_xflip, sgn_sq]

theorem numnumAct (n i j s : Nat) (hi : i < n) (hj : j < n) (V : Nat → GQ) :
    encActS n [(i, 1), (i, 0), (j, 1), (j, 0)] s V = if s.testBit i && s.testBit j then V s else 0 := by
  rw [show [(i, 1), (i, 0), (j, 1), (j, 0)] = [(i, 1), (i, 0)] ++ [(j, 1), (j, 0)] from rfl, encActS_append,
    numAct n j s hj]
  cases hb : s.testBit j with
  | false => simp
  | true => simp [numAct n i s hi]

theorem φW_padZ (e : Nat) (W : Nat → GQ) (L : List Nat) :
    φW e W (pad 3 L) = GQ.ipow (2 * (cntL e L % 2)) * W e := by
  unfold φW; rw [actPTerm_padZ]

theorem φW_nil (e : Nat) (W : Nat → GQ) : φW e W [] = W e := by
  unfold φW; rw [actPTerm_nil]; simp [GQ.ipow]

theorem fSet_parity (n s i j : Nat) (hi : i < n) (hj : j < n) :
    cntL (Spec.C05.enc .bk n s) (fSet i j) % 2
      = ((if s.testBit i then 1 else 0) + (if s.testBit j then 1 else 0)) % 2 := by
  have h := cntL_symDiff (Spec.C05.enc .bk n s) (occupationSet i) (occupationSet j) (srt_occ i) (srt_occ j)
  have h1 := occupationSet_parity n s i hi
  have h2 := occupationSet_parity n s j hj
  unfold fSet
  omega

/-- Coulomb / exchange strings of the pair `(i, j)` together with their share of the constant -/
theorem coulomb_sum (n i j s : Nat) (hi : i < n) (hj : j < n) (coef : GQ) (W : Nat → GQ) :
    (-coef) * φW (Spec.C05.enc .bk n s) W (pad 3 (occupationSet i))
      + ((-coef) * φW (Spec.C05.enc .bk n s) W (pad 3 (occupationSet j))
      + (coef * φW (Spec.C05.enc .bk n s) W (pad 3 (fSet i j)) + 0)) + coef * W (Spec.C05.enc .bk n s)
      = coef * ⟨4, 0⟩ * (if s.testBit i && s.testBit j then W (Spec.C05.enc .bk n s) else 0) := by
  simp only [φW_padZ]
  rw [occupationSet_parity n s i hi, occupationSet_parity n s j hj, fSet_parity n s i j hi hj]
  generalize W (Spec.C05.enc .bk n s) = w
  cases hbi : s.testBit i <;> cases hbj : s.testBit j <;>
    (apply GQ.ext <;> simp [GQ.ipow, GQ.I] <;> norm_num [Rat.mkRat_eq_div] <;> ring)

theorem zip_fst_snd {α β : Type} (l : List (α × β)) : (l.map (·.1)).zip (l.map (·.2)) = l := by
  induction l with
  | nil => rfl
  | cons a l ih => simp [ih]

theorem sum_mul_right' {α : Type} (c : GQ) (l : List α) (f : α → GQ) :
    (l.map fun i => f i * c).sum = (l.map f).sum * c := by
  induction l with
  | nil => simp
  | cons a l ih => simp [ih]; ring

/-- the pending strings of the pair `(i, j)` plus its share of the constant: the two one-body terms and the
Coulomb/exchange term `tbc(i,j,j,i) n_i n_j` -/
theorem pendIJ_sum (tol : Rat) (htol : tol * tol ≤ 1 / 4) (n i j : Nat) (hi : i < n) (hj : j < n)
    (T1 : Nat → Nat → GQ) (T2 : Nat → Nat → Nat → Nat → GQ) (s x : Nat) :
    ((pendIJ n T1 T2 i j).map fun tc => tc.2 * φW (Spec.C05.enc .bk n s) (δ x) tc.1).sum
        + constIJ T2 i j * Vx n x s
      = T1 i j * encActS n [(i, 1), (j, 0)] s (Vx n x) + (T1 i j).conj * encActS n [(j, 1), (i, 0)] s (Vx n x)
        + twoBodyCoef T2 i j j i * encActS n [(i, 1), (i, 0), (j, 1), (j, 0)] s (Vx n x) := by
  unfold pendIJ constIJ
  rw [List.map_append, List.sum_append, numnumAct n i j s hi hj]
  have hA : ((if T1 i j != 0 then
        (srl i j (T1 i j) n).2.1.zip (srl i j (T1 i j) n).2.2
          ++ (srl j i (T1 i j).conj n).2.1.zip (srl j i (T1 i j).conj n).2.2 else []).map
        fun tc => tc.2 * φW (Spec.C05.enc .bk n s) (δ x) tc.1).sum
      = T1 i j * encActS n [(i, 1), (j, 0)] s (Vx n x) + (T1 i j).conj * encActS n [(j, 1), (i, 0)] s (Vx n x) := by
    by_cases h : (T1 i j != 0) = true
    · simp only [h, if_true, List.map_append, List.sum_append]
      rw [srl_sumS tol htol n i j hi hj, srl_sumS tol htol n j i hj hi]; rfl
    · have h0 : T1 i j = 0 := by simpa using h
      have : (0 : GQ).conj = 0 := by apply GQ.ext <;> simp [GQ.conj]
      rw [if_neg h, h0, this]
      simp
  rw [hA]
  have e4 : twoBodyCoef T2 i j j i * (⟨mkRat 1 4, 0⟩ : GQ) * ⟨4, 0⟩ = twoBodyCoef T2 i j j i := by
    apply GQ.ext <;> simp <;> norm_num [Rat.mkRat_eq_div] <;> ring
  have hB := coulomb_sum n i j s hi hj (twoBodyCoef T2 i j j i * (⟨mkRat 1 4, 0⟩ : GQ)) (δ x)
  rw [e4] at hB
  dsimp only
  by_cases h : (twoBodyCoef T2 i j j i * (⟨mkRat 1 4, 0⟩ : GQ) != 0) = true
  · simp only [h, if_true, List.map_cons, List.map_nil, List.sum_cons, List.sum_nil]
    have : Vx n x s = δ x (Spec.C05.enc .bk n s) := rfl
    rw [this, add_assoc, hB]
  · have h0 : twoBodyCoef T2 i j j i * (⟨mkRat 1 4, 0⟩ : GQ) = 0 := by simpa using h
    simp only [h, if_false, Bool.false_eq_true, List.map_nil, List.sum_nil, zero_mul, add_zero]
    have h4 : twoBodyCoef T2 i j j i = 0 := by rw [← e4, h0, zero_mul]
    rw [h4, zero_mul, add_zero]

end BK
end OFV
