/- C10: the Spec action of the two-body number term `j^ i^ j i` (i < j): `-n_i n_j`. -/
import OFV.Proofs.C10Basis

namespace OFV.C10
open OFV.Model OFV.Model.C10 OFV.Spec OFV.Spec.C10

/-- flipping a bit below `j` changes the count below `j` by one -/
theorem countBelow_xflip_lt (s i j : Nat) (h : i < j) :
    countBelow (s ^^^ (1 <<< i)) j + (if s.testBit i then 1 else 0)
      = countBelow s j + (if s.testBit i then 0 else 1) := by
  induction j with
  | zero => omega
  | succ k ih =>
    rw [countBelow_succ, countBelow_succ]
    by_cases hik : i = k
    · subst hik
      rw [countBelow_xflip s i i (Nat.le_refl i), testBit_xflip]
      cases s.testBit i <;> simp
    · have hlt : i < k := by omega
      have := ih hlt
      rw [testBit_xflip_ne s i k hik]
      omega

theorem actF_annihilate (j s : Nat) (h : s.testBit j = true) :
    actF j 0 s = some (countBelow s j % 2, s ^^^ (1 <<< j)) := by simp [actF, h]

theorem actF_annihilate_none (j s : Nat) (h : s.testBit j = false) : actF j 0 s = none := by simp [actF, h]

theorem actF_create (j s : Nat) (h : s.testBit j = false) :
    actF j 1 s = some (countBelow s j % 2, s ^^^ (1 <<< j)) := by simp [actF, h]

/-- `a†_j a†_i a_j a_i |s⟩ = -|s⟩` when modes `i < j` are both occupied, `0` otherwise -/
theorem actFTerm_two_body (i j s : Nat) (hij : i < j) :
    actFTerm [(j, 1), (i, 1), (j, 0), (i, 0)] s
      = if s.testBit i && s.testBit j then some (1, s) else none := by
  simp only [actFTerm, List.foldr_cons, List.foldr_nil]
  by_cases hi : s.testBit i = true
  · by_cases hj : s.testBit j = true
    · -- both occupied
      have hne : i ≠ j := by omega
      let s1 := s ^^^ (1 <<< i)
      have b1j : s1.testBit j = true := by rw [testBit_xflip_ne s i j hne]; exact hj
      let s2 := s1 ^^^ (1 <<< j)
      have b2i : s2.testBit i = false := by
        rw [testBit_xflip_ne s1 j i (fun e => hne e.symm), testBit_xflip]; simp [hi]
      let s3 := s2 ^^^ (1 <<< i)
      have b3j : s3.testBit j = false := by
        rw [testBit_xflip_ne s2 i j hne, testBit_xflip]; simp [b1j]
      have e1 : actF i 0 s = some (countBelow s i % 2, s1) := actF_annihilate i s hi
      have e2 : actF j 0 s1 = some (countBelow s1 j % 2, s2) := actF_annihilate j s1 b1j
      have e3 : actF i 1 s2 = some (countBelow s2 i % 2, s3) := actF_create i s2 b2i
      have e4 : actF j 1 s3 = some (countBelow s3 j % 2, s3 ^^^ (1 <<< j)) := actF_create j s3 b3j
      have hback : s3 ^^^ (1 <<< j) = s := by
        show ((s ^^^ (1 <<< i)) ^^^ (1 <<< j)) ^^^ (1 <<< i) ^^^ (1 <<< j) = s
        rw [xflip_comm (s ^^^ (1 <<< i)) j i, xflip_xflip, xflip_xflip]
      -- counts
      have c1 := countBelow_xflip_lt s i j hij
      simp only [hi, if_true] at c1
      have c2 : countBelow s2 i = countBelow s i := by
        show countBelow ((s ^^^ (1 <<< i)) ^^^ (1 <<< j)) i = _
        rw [countBelow_xflip _ j i (by omega), countBelow_xflip s i i (Nat.le_refl i)]
      have c3 : countBelow s3 j = countBelow s j := by
        have hs3 : s3 = s ^^^ (1 <<< j) := by
          show ((s ^^^ (1 <<< i)) ^^^ (1 <<< j)) ^^^ (1 <<< i) = _
          rw [xflip_comm (s ^^^ (1 <<< i)) j i, xflip_xflip]
        rw [hs3, countBelow_xflip s j j (Nat.le_refl j)]
      simp only [e1, e2, e3, e4, hback, hi, hj, Bool.and_self, if_true]
      congr 2
      rw [c2, c3]
      have c1' : countBelow s1 j + 1 = countBelow s j := by simpa using c1
      omega
    · have hjf : s.testBit j = false := by simpa using hj
      have hne : i ≠ j := by omega
      have e1 : actF i 0 s = some (countBelow s i % 2, s ^^^ (1 <<< i)) := actF_annihilate i s hi
      have e2 : actF j 0 (s ^^^ (1 <<< i)) = none :=
        actF_annihilate_none j _ (by rw [testBit_xflip_ne s i j hne]; exact hjf)
      simp [e1, e2, hi, hjf]
  · have hif : s.testBit i = false := by simpa using hi
    have e1 : actF i 0 s = none := actF_annihilate_none i s hif
    simp [e1, hif]

end OFV.C10
