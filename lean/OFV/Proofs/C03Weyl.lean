/-
C03 — the bosonic / quadrature instance of the abstract soundness theorem.  Occupation
functions `ν : ℕ → ℕ` (exponent of every variable) index a basis of the free module
`(ℕ → ℕ) →₀ GQ`; a ladder / quadrature factor acts locally on the exponent of its own mode
exactly like `Spec.actB` / `Spec.actQuad` act on exponent vectors (`actL`, shared
OFV.Proofs.SpecBoson).  The lifted generators satisfy the CCR / `[q, p] = iħ`.
-/
import Mathlib.LinearAlgebra.Finsupp.LinearCombination
import Mathlib.Algebra.Module.LinearMap.End
import OFV.Proofs.GQRing
import OFV.Proofs.C03
import OFV.Proofs.SpecBoson

namespace OFV
namespace Proofs
namespace C03
open Model Model.C03

abbrev Occ := Nat → Nat
abbrev W := Occ →₀ GQ

/-- local rule: (action code, exponent) ↦ (coefficient, new exponent) -/
abbrev Rule := Nat → Nat → Option (GQ × Nat)

def actFun (g : Rule) (f : Factor) (ν : Occ) : Option (GQ × Occ) :=
  match g f.2 (ν f.1) with
  | none => none
  | some (c, v) => some (c, Function.update ν f.1 v)

/-- a term on a basis element (rightmost factor first), as `Spec.actTermWith` -/
def foldW (g : Rule) (t : Term) (ν : Occ) : Option (GQ × Occ) :=
  t.foldr (fun f acc => match acc with
    | none => none
    | some (c, ν') => match actFun g f ν' with
      | none => none
      | some (c', ν'') => some (c' * c, ν'')) (some (1, ν))

noncomputable def imgW (g : Rule) (t : Term) (ν : Occ) : W :=
  match foldW g t ν with
  | none => 0
  | some (c, ν') => Finsupp.single ν' c

noncomputable def gW (g : Rule) (f : Factor) : Module.End GQ W :=
  Finsupp.linearCombination GQ (fun ν => imgW g [f] ν)

theorem gW_single (g : Rule) (f : Factor) (ν : Occ) (b : GQ) :
    gW g f (Finsupp.single ν b) = b • imgW g [f] ν := by
  simp [gW]

theorem foldW_cons (g : Rule) (f : Factor) (t : Term) (ν : Occ) :
    foldW g (f :: t) ν = match foldW g t ν with
      | none => none
      | some (c, ν') => match actFun g f ν' with
        | none => none
        | some (c', ν'') => some (c' * c, ν'') := rfl

theorem foldW_single (g : Rule) (f : Factor) (ν : Occ) :
    foldW g [f] ν = match actFun g f ν with
      | none => none
      | some (c', ν'') => some (c' * 1, ν'') := rfl

theorem gW_imgW (g : Rule) (f : Factor) (t : Term) (ν : Occ) :
    gW g f (imgW g t ν) = imgW g (f :: t) ν := by
  unfold imgW
  rw [foldW_cons]
  cases h : foldW g t ν with
  | none => simp
  | some p =>
    obtain ⟨c, ν'⟩ := p
    simp only
    rw [gW_single]
    unfold imgW
    rw [foldW_single]
    cases h2 : actFun g f ν' with
    | none => simp
    | some q =>
      obtain ⟨c', ν''⟩ := q
      simp only [Finsupp.smul_single, smul_eq_mul]
      congr 1
      ring

theorem gW_mul_single (g : Rule) (l x : Factor) (ν : Occ) (b : GQ) :
    (gW g l * gW g x) (Finsupp.single ν b) = b • imgW g [l, x] ν := by
  rw [Module.End.mul_apply, gW_single, map_smul, gW_imgW]

/-- the interpretation -/
noncomputable def weylInterp (g : Rule) : Interp (Module.End GQ W) where
  ι c := c • (1 : Module.End GQ W)
  g := gW g
  ι_add a b := add_smul a b 1
  ι_central c x := by rw [smul_mul_assoc, one_mul, mul_smul_comm, mul_one]

theorem weyl_ι_mul (g : Rule) (a b : GQ) :
    (weylInterp g).ι (a * b) = (weylInterp g).ι a * (weylInterp g).ι b := by
  show (a * b) • (1 : Module.End GQ W) = (a • 1) * (b • 1)
  rw [smul_mul_assoc, one_mul, smul_smul]

/-- two-factor image, unfolded -/
theorem foldW_pair (g : Rule) (l x : Factor) (ν : Occ) :
    foldW g [l, x] ν = match actFun g x ν with
      | none => none
      | some (c, ν') => match actFun g l ν' with
        | none => none
        | some (c', ν'') => some (c' * (c * 1), ν'') := by
  rw [foldW_cons, foldW_single]
  cases actFun g x ν with
  | none => rfl
  | some p => rfl

/-- factors on different modes commute -/
theorem weyl_comm_diff (g : Rule) (f h : Factor) (hne : f.1 ≠ h.1) :
    gW g f * gW g h = gW g h * gW g f := by
  apply Finsupp.lhom_ext
  intro ν b
  rw [gW_mul_single, gW_mul_single]
  congr 1
  unfold imgW
  rw [foldW_pair, foldW_pair]
  unfold actFun
  have e1 : Function.update ν h.1 = fun v => Function.update ν h.1 v := rfl
  cases hh : g h.2 (ν h.1) with
  | none =>
    cases hf : g f.2 (ν f.1) with
    | none => rfl
    | some q =>
      obtain ⟨cf, vf⟩ := q
      simp only [Function.update_of_ne (Ne.symm hne), hh]
  | some q =>
    obtain ⟨ch, vh⟩ := q
    simp only [Function.update_of_ne hne]
    cases hf : g f.2 (ν f.1) with
    | none => rfl
    | some q' =>
      obtain ⟨cf, vf⟩ := q'
      simp only [Function.update_of_ne (Ne.symm hne), hh]
      rw [Function.update_comm hne]
      congr 1
      ring

/-! ### the two rules -/

/-- bosons: any non-zero action code is a creation operator `x_j ·`, 0 is `∂/∂x_j` -/
def gBn : Rule := fun a k =>
  if a = 0 then (if k = 0 then none else some (GQ.ofInt k, k - 1)) else some (1, k + 1)

/-- quadratures: 0 is `q_j = x_j ·`, anything else `p_j = -iħ ∂/∂x_j` -/
def gQn (hbar : GQ) : Rule := fun a k =>
  if a = 0 then some (1, k + 1)
  else (if k = 0 then none else some ((-GQ.I) * hbar * GQ.ofInt k, k - 1))

theorem ofInt_succ (k : Nat) : GQ.ofInt ((k + 1 : Nat) : Int) = GQ.ofInt (k : Int) + 1 := by
  apply GQ.ext <;> simp [GQ.ofInt]

theorem ofInt_zero : GQ.ofInt ((0 : Nat) : Int) = 0 := by
  apply GQ.ext <;> simp [GQ.ofInt]

theorem update_update_self (ν : Occ) (j v : Nat) : Function.update (Function.update ν j v) j (ν j) = ν := by
  rw [Function.update_idem, Function.update_eq_self]

/-- `b_j b_j^† = b_j^† b_j + 1` -/
theorem weyl_ccr (x l : Factor) (hx : x.2 ≠ 0) (hl : l.2 = 0) (he : x.1 = l.1) :
    gW gBn l * gW gBn x = gW gBn x * gW gBn l + 1 := by
  apply Finsupp.lhom_ext
  intro ν b
  rw [LinearMap.add_apply, gW_mul_single, gW_mul_single, Module.End.one_apply]
  unfold imgW
  rw [foldW_pair, foldW_pair]
  unfold actFun gBn
  simp only [hx, hl, he, if_true, if_false, Function.update_self]
  have hk : ν l.1 + 1 ≠ 0 := by omega
  simp only [hk, if_false, Nat.add_sub_cancel, update_update_self]
  by_cases h0 : ν l.1 = 0
  · simp only [h0, if_true, smul_zero, zero_add, Finsupp.smul_single, smul_eq_mul]
    congr 1
    have : GQ.ofInt ((0 + 1 : Nat) : Int) = 1 := by rw [ofInt_succ, ofInt_zero]; ring
    rw [this]; ring
  · simp only [h0, if_false, Function.update_self]
    have hsub : ν l.1 - 1 + 1 = ν l.1 := by omega
    have hupd : Function.update (Function.update ν l.1 (ν l.1 - 1)) l.1 (ν l.1 - 1 + 1) = ν := by
      rw [hsub]; exact update_update_self ν l.1 _
    rw [hupd]
    simp only [Finsupp.smul_single, smul_eq_mul]
    rw [← Finsupp.single_add, ofInt_succ]
    congr 1
    ring

/-- same ladder type: the two factors commute -/
theorem weyl_comm_same (g : Rule) (x l : Factor) (ht : x.2 = l.2) : gW g l * gW g x = gW g x * gW g l := by
  by_cases he : x.1 = l.1
  · have : x = l := Prod.ext he ht
    rw [this]
  · exact weyl_comm_diff g l x (fun e => he e.symm)

/-- `p_j q_j = q_j p_j - iħ` -/
theorem weyl_pq (hbar : GQ) (x l : Factor) (hx : x.2 = 0) (hl : l.2 ≠ 0) (he : x.1 = l.1) :
    gW (gQn hbar) l * gW (gQn hbar) x =
      gW (gQn hbar) x * gW (gQn hbar) l + (weylInterp (gQn hbar)).ι ((-1) * GQ.I * hbar) := by
  apply Finsupp.lhom_ext
  intro ν b
  show _ = _ + (((-1) * GQ.I * hbar) • (1 : Module.End GQ W)) (Finsupp.single ν b)
  rw [gW_mul_single, gW_mul_single, LinearMap.smul_apply, Module.End.one_apply]
  unfold imgW
  rw [foldW_pair, foldW_pair]
  unfold actFun gQn
  simp only [hx, hl, he, if_true, if_false, Function.update_self]
  have hk : ν l.1 + 1 ≠ 0 := by omega
  simp only [hk, if_false, Nat.add_sub_cancel, update_update_self]
  by_cases h0 : ν l.1 = 0
  · simp only [h0, if_true, smul_zero, zero_add, Finsupp.smul_single, smul_eq_mul]
    congr 1
    have : GQ.ofInt ((0 + 1 : Nat) : Int) = 1 := by rw [ofInt_succ, ofInt_zero]; ring
    rw [this]; ring
  · simp only [h0, if_false, Function.update_self]
    have hsub : ν l.1 - 1 + 1 = ν l.1 := by omega
    have hupd : Function.update (Function.update ν l.1 (ν l.1 - 1)) l.1 (ν l.1 - 1 + 1) = ν := by
      rw [hsub]; exact update_update_self ν l.1 _
    rw [hupd]
    simp only [Finsupp.smul_single, smul_eq_mul]
    rw [← Finsupp.single_add, ofInt_succ]
    congr 1
    ring

theorem relations_weyl_boson : Relations (weylInterp gBn) .boson :=
  relations_boson (weylInterp gBn) (weyl_comm_diff gBn) weyl_ccr (weyl_comm_same gBn)

theorem relations_weyl_quad (hbar : GQ) : Relations (weylInterp (gQn hbar)) (.quad hbar) :=
  relations_quad (weylInterp (gQn hbar)) hbar (weyl_ι_mul (gQn hbar)) (weyl_comm_diff (gQn hbar))
    (weyl_pq hbar) (weyl_comm_same (gQn hbar))

end C03
end Proofs
end OFV
