/-
Index structure of `utils/grid.py` as used by the dual-basis jellium Hamiltonian: mixed-radix orbital numbering,
its inverse, enumeration of all grid points, shifts modulo the grid lengths (all dimensions, all lengths).
-/
import OFV.Model.C04Jellium
import OFV.Proofs.C04Iop

set_option linter.unusedSimpArgs false
set_option linter.unusedVariables false

namespace OFV
namespace Jel
open Model Model.C04J Spec Sem

/-! ### mixed-radix numbering -/

/-- Horner form of `tensor_factor` -/
def tf : List Nat → List Nat → Nat
  | L :: Ls, i :: is => i + L * tf Ls is
  | _, _ => 0

theorem tfAux_eq : ∀ (l x : List Nat) (stride : Nat), tensorFactorAux stride l x = stride * tf l x := by
  intro l
  induction l with
  | nil => intro x stride; cases x <;> simp [tensorFactorAux, tf]
  | cons L Ls ih =>
    intro x stride
    cases x with
    | nil => simp [tensorFactorAux, tf]
    | cons i is => simp only [tensorFactorAux, tf, ih]; ring

theorem tensorFactor_eq (l x : List Nat) : tensorFactor l x = tf l x := by
  unfold tensorFactor; rw [tfAux_eq]; simp

theorem prodL_fold (l : List Nat) (a : Nat) : l.foldl (· * ·) a = a * prodL l := by
  unfold prodL
  induction l generalizing a with
  | nil => simp
  | cons L Ls ih => simp only [List.foldl_cons]; rw [ih, ih (1 * L)]; ring

theorem prodL_nil : prodL [] = 1 := rfl
theorem prodL_cons (L : Nat) (Ls : List Nat) : prodL (L :: Ls) = L * prodL Ls := by
  unfold prodL; simp only [List.foldl_cons]; rw [prodL_fold]; unfold prodL; ring

/-- a tuple of indices inside the grid -/
def VP : List Nat → List Nat → Prop
  | [], [] => True
  | L :: Ls, i :: is => i < L ∧ VP Ls is
  | _, _ => False

theorem allPoints_mem : ∀ (l x : List Nat), x ∈ allPoints l ↔ VP l x := by
  intro l
  induction l with
  | nil => intro x; cases x <;> simp [allPoints, VP]
  | cons L Ls ih =>
    intro x
    simp only [allPoints, List.mem_flatMap, List.mem_range, List.mem_map]
    constructor
    · rintro ⟨i, hi, xs, hxs, rfl⟩
      exact ⟨hi, (ih xs).1 hxs⟩
    · intro h
      cases x with
      | nil => simp [VP] at h
      | cons i is => exact ⟨i, h.1, is, (ih is).2 h.2, rfl⟩

theorem tf_lt : ∀ (l x : List Nat), VP l x → tf l x < prodL l := by
  intro l
  induction l with
  | nil => intro x h; cases x <;> simp [tf, prodL_nil]
  | cons L Ls ih =>
    intro x h
    cases x with
    | nil => simp [VP] at h
    | cons i is =>
      have h2 := ih is h.2
      rw [prodL_cons]; simp only [tf]
      have : L * tf Ls is + L ≤ L * prodL Ls := by
        have := Nat.mul_le_mul_left L (Nat.succ_le_of_lt h2)
        rw [Nat.mul_succ] at this; exact this
      have := h.1
      omega

/-- sums over a product range -/
theorem sum_divmod (L n' : Nat) (F : Nat → GQ) :
    ((List.range L).map fun i => ((List.range n').map fun t => F (i + L * t)).sum).sum
      = ((List.range (L * n')).map F).sum := by
  rw [sum_swap]
  induction n' with
  | zero => simp
  | succ n ih =>
    rw [List.range_succ, List.map_append, List.sum_append, ih, Nat.mul_succ, List.range_add, List.map_append,
      List.sum_append]
    simp only [List.map_cons, List.map_nil, List.sum_cons, List.sum_nil, add_zero, List.map_map]
    congr 2
    apply List.map_congr_left; intro i _
    simp only [Function.comp]; congr 1; ring

/-- **all grid points, numbered by `tensor_factor`, are exactly `0 .. n-1`** -/
theorem sum_allPoints : ∀ (l : List Nat) (F : Nat → GQ),
    ((allPoints l).map fun x => F (tf l x)).sum = ((List.range (prodL l)).map F).sum := by
  intro l
  induction l with
  | nil => intro F; simp [allPoints, tf, prodL_nil]
  | cons L Ls ih =>
    intro F
    simp only [allPoints]
    rw [sum_flatMap, prodL_cons, ← sum_divmod]
    congr 1; apply List.map_congr_left; intro i _
    rw [List.map_map]
    exact ih (fun t => F (i + L * t))

/-! ### `grid_indices` -/

/-- digits of an orbital number -/
def gi : List Nat → Nat → List Nat
  | [], _ => []
  | L :: Ls, t => t % L :: gi Ls (t / L)

theorem gridIndices_aux : ∀ (l : List Nat) (oid : Nat),
    ((List.range l.length).map fun d => (oid % prodL (l.take (d + 1))) / prodL (l.take d)) = gi l oid := by
  intro l
  induction l with
  | nil => intro oid; rfl
  | cons L Ls ih =>
    intro oid
    simp only [List.length_cons, List.range_succ_eq_map, List.map_cons, List.map_map, gi]
    congr 1
    · simp [prodL_cons, prodL_nil]
    · rw [← ih (oid / L)]
      apply List.map_congr_left; intro d _
      simp only [Function.comp, List.take_succ_cons, prodL_cons]
      rw [← Nat.div_div_eq_div_mul, Nat.mod_mul_right_div_self]

theorem gridIndices_eq (l : List Nat) (q : Nat) (sl : Bool) :
    gridIndices l q sl = gi l (if sl then q else q / 2) := by
  unfold gridIndices; exact gridIndices_aux l _

theorem gi_tf : ∀ (l x : List Nat), VP l x → gi l (tf l x) = x := by
  intro l
  induction l with
  | nil => intro x h; cases x <;> simp [VP] at h ⊢; rfl
  | cons L Ls ih =>
    intro x h
    cases x with
    | nil => simp [VP] at h
    | cons i is =>
      have hL : 0 < L := by have := h.1; omega
      simp only [tf, gi]
      rw [Nat.add_mul_mod_self_left, Nat.mod_eq_of_lt h.1, Nat.add_mul_div_left _ _ hL, Nat.div_eq_of_lt h.1,
        Nat.zero_add, ih is h.2]

theorem gi_VP : ∀ (l : List Nat) (t : Nat), (∀ L ∈ l, 0 < L) → VP l (gi l t) := by
  intro l
  induction l with
  | nil => intro t _; simp [gi, VP]
  | cons L Ls ih =>
    intro t h
    exact ⟨Nat.mod_lt _ (h L List.mem_cons_self), ih _ (fun L' h' => h L' (List.mem_cons_of_mem _ h'))⟩

theorem tf_gi : ∀ (l : List Nat) (t : Nat), t < prodL l → tf l (gi l t) = t := by
  intro l
  induction l with
  | nil => intro t h; simp [prodL_nil] at h; subst h; rfl
  | cons L Ls ih =>
    intro t h
    rw [prodL_cons] at h
    have hL : 0 < L := by
      rcases Nat.eq_zero_or_pos L with h0 | h0
      · subst h0; simp at h
      · exact h0
    have h2 : t / L < prodL Ls := by
      rw [Nat.div_lt_iff_lt_mul hL]; rw [Nat.mul_comm]; exact h
    simp only [gi, tf]
    rw [ih _ h2]
    exact Nat.mod_add_div t L

theorem pos_of_prodL_pos : ∀ (l : List Nat), 0 < prodL l → ∀ L ∈ l, 0 < L := by
  intro l
  induction l with
  | nil => intro _ L hL; simp at hL
  | cons L Ls ih =>
    intro h L' hL'
    rw [prodL_cons] at h
    have h1 : 0 < L := Nat.pos_of_mul_pos_right h |> fun _ => by
      rcases Nat.eq_zero_or_pos L with h0 | h0
      · subst h0; simp at h
      · exact h0
    have h2 : 0 < prodL Ls := by
      rcases Nat.eq_zero_or_pos (prodL Ls) with h0 | h0
      · rw [h0] at h; simp at h
      · exact h0
    rcases List.mem_cons.1 hL' with rfl | h'
    · exact h1
    · exact ih h2 L' h'

end Jel
end OFV
