/-
Index sets of the Model (`Model.C05.ISet` = lists built by `insertS`): membership, duplicate-freeness,
and how Pauli strings over such sets act on a basis state (Z-string: parity of the set bits; X-string:
flip of the set).
-/
import OFV.Model.C05
import OFV.Proofs.C04Hom
import Mathlib.Data.List.Perm.Basic
import Mathlib.Data.List.Nodup
import Mathlib.Data.List.Perm.Lattice

namespace OFV
namespace BK
open Model.C05 Spec Sem

/-! ### membership and sortedness -/

theorem insertS_mem (x y : Nat) (r : ISet) : y ∈ insertS x r ↔ y = x ∨ y ∈ r := by
  induction r with
  | nil => simp [insertS]
  | cons h r ih =>
    simp only [insertS]
    split
    · simp
    · split
      · rename_i h2; subst h2; simp
      · simp [ih]; tauto

theorem insertS_sorted (x : Nat) (r : ISet) (h : r.Pairwise (· < ·)) : (insertS x r).Pairwise (· < ·) := by
  induction r with
  | nil => simp [insertS]
  | cons y r ih =>
    rw [List.pairwise_cons] at h
    simp only [insertS]
    split
    · rename_i hxy
      rw [List.pairwise_cons]
      refine ⟨?_, List.pairwise_cons.2 h⟩
      intro a ha
      rcases List.mem_cons.1 ha with rfl | ha
      · exact hxy
      · have := h.1 a ha; omega
    · split
      · exact List.pairwise_cons.2 h
      · rename_i h1 h2
        rw [List.pairwise_cons]
        refine ⟨?_, ih h.2⟩
        intro a ha
        rcases (insertS_mem x a r).1 ha with rfl | ha
        · omega
        · exact h.1 a ha

theorem ofList_mem (y : Nat) (l : List Nat) : y ∈ ofList l ↔ y ∈ l := by
  induction l with
  | nil => simp [ofList]
  | cons x l ih => simp only [ofList, List.foldr_cons] at ih ⊢; rw [insertS_mem, ih]; simp

theorem ofList_sorted (l : List Nat) : (ofList l).Pairwise (· < ·) := by
  induction l with
  | nil => simp [ofList]
  | cons x l ih => simp only [ofList, List.foldr_cons] at ih ⊢; exact insertS_sorted x _ ih

theorem nodup_of_sorted {l : List Nat} (h : l.Pairwise (· < ·)) : l.Nodup :=
  h.imp (fun hab => Nat.ne_of_lt hab)

theorem union_mem (y : Nat) (a b : ISet) : y ∈ union a b ↔ y ∈ a ∨ y ∈ b := by
  induction a with
  | nil => simp [union]
  | cons x a ih => simp only [union, List.foldr_cons] at ih ⊢; rw [insertS_mem, ih]; simp; tauto

theorem union_sorted (a b : ISet) (hb : b.Pairwise (· < ·)) : (union a b).Pairwise (· < ·) := by
  induction a with
  | nil => simpa [union] using hb
  | cons x a ih => simp only [union, List.foldr_cons] at ih ⊢; exact insertS_sorted x _ ih

theorem diff_mem (y : Nat) (a b : ISet) : y ∈ diff a b ↔ y ∈ a ∧ y ∉ b := by
  simp [diff, List.mem_filter]

theorem diff_sorted (a b : ISet) (ha : a.Pairwise (· < ·)) : (diff a b).Pairwise (· < ·) :=
  ha.filter _

theorem inter_mem (y : Nat) (a b : ISet) : y ∈ inter a b ↔ y ∈ a ∧ y ∈ b := by
  simp [inter, List.mem_filter]

theorem inter_sorted (a b : ISet) (ha : a.Pairwise (· < ·)) : (inter a b).Pairwise (· < ·) :=
  ha.filter _

theorem symDiff_mem (y : Nat) (a b : ISet) : y ∈ symDiff a b ↔ (y ∈ a ∧ y ∉ b) ∨ (y ∈ b ∧ y ∉ a) := by
  simp [symDiff, union_mem, diff_mem]

theorem symDiff_sorted (a b : ISet) (hb : b.Pairwise (· < ·)) : (symDiff a b).Pairwise (· < ·) :=
  union_sorted _ _ (diff_sorted b a hb)

/-! ### counting set bits over a set -/

/-- number of positions of `L` at which `e` has a 1 -/
def cntL (e : Nat) (L : List Nat) : Nat := L.countP fun k => e.testBit k

theorem cntL_congr {e : Nat} {A B : List Nat} (ha : A.Nodup) (hb : B.Nodup) (h : ∀ k, k ∈ A ↔ k ∈ B) :
    cntL e A = cntL e B :=
  ((List.perm_ext_iff_of_nodup ha hb).2 h).countP_eq _

theorem cntL_append (e : Nat) (A B : List Nat) : cntL e (A ++ B) = cntL e A + cntL e B := by
  simp [cntL]

theorem cntL_cons (e k : Nat) (A : List Nat) : cntL e (k :: A) = cntL e A + (if e.testBit k then 1 else 0) := by
  simp [cntL, List.countP_cons]

/-- the bits over a symmetric difference: parities add -/
theorem cntL_symDiff (e : Nat) (a b : ISet) (ha : a.Pairwise (· < ·)) (hb : b.Pairwise (· < ·)) :
    cntL e (symDiff a b) + 2 * cntL e (inter a b) = cntL e a + cntL e b := by
  have na := nodup_of_sorted ha
  have nb := nodup_of_sorted hb
  have nda := nodup_of_sorted (diff_sorted a b ha)
  have ndb := nodup_of_sorted (diff_sorted b a hb)
  have nia := nodup_of_sorted (inter_sorted a b ha)
  have nib := nodup_of_sorted (inter_sorted b a hb)
  have h1 : cntL e a = cntL e (diff a b ++ inter a b) := by
    apply cntL_congr na
    · rw [List.nodup_append]; refine ⟨nda, nia, ?_⟩
      intro x hx y hy hxy; subst hxy
      rw [diff_mem] at hx; rw [inter_mem] at hy; exact hx.2 hy.2
    · intro k; simp [diff_mem, inter_mem]; tauto
  have h2 : cntL e b = cntL e (diff b a ++ inter a b) := by
    apply cntL_congr nb
    · rw [List.nodup_append]; refine ⟨ndb, nia, ?_⟩
      intro x hx y hy hxy; subst hxy
      rw [diff_mem] at hx; rw [inter_mem] at hy; exact hx.2 hy.1
    · intro k; simp [diff_mem, inter_mem]; tauto
  have h3 : cntL e (symDiff a b) = cntL e (diff a b ++ diff b a) := by
    apply cntL_congr (nodup_of_sorted (symDiff_sorted a b hb))
    · rw [List.nodup_append]; refine ⟨nda, ndb, ?_⟩
      intro x hx y hy hxy; subst hxy
      rw [diff_mem] at hx hy; exact hx.2 hy.1
    · intro k; simp [symDiff_mem, diff_mem]
  rw [h1, h2, h3, cntL_append, cntL_append, cntL_append]; omega

/-! ### Pauli strings over a set -/

theorem pad_valid (p : Nat) (hp : p < 4) (L : List Nat) : ValidQ (pad p L) := by
  intro f hf; simp [pad] at hf; obtain ⟨a, _, rfl⟩ := hf; exact hp

/-- a Z-string over any list of qubits multiplies `|e⟩` by `(-1)^{number of set bits}` -/
theorem actPTerm_padZ (e : Nat) (L : List Nat) : actPTerm (pad 3 L) e = (2 * (cntL e L % 2), e) := by
  induction L with
  | nil => simp [pad, actPTerm_nil, cntL]
  | cons k L ih =>
    have : pad 3 (k :: L) = (k, 3) :: pad 3 L := rfl
    rw [this, actPTerm_cons, ih, cntL_cons]
    simp only [stepP, actP]
    by_cases hb : e.testBit k <;> simp [hb] <;> omega

/-- flipping the qubits of a list, last element first -/
def flipL (e : Nat) (L : List Nat) : Nat := L.foldr (fun k acc => acc ^^^ (1 <<< k)) e

theorem actPTerm_padX (e : Nat) (L : List Nat) : actPTerm (pad 1 L) e = (0, flipL e L) := by
  induction L with
  | nil => simp [pad, actPTerm_nil, flipL]
  | cons k L ih =>
    have : pad 1 (k :: L) = (k, 1) :: pad 1 L := rfl
    rw [this, actPTerm_cons, ih]
    simp [stepP, actP, flipL]

theorem testBit_flipL (e : Nat) (L : List Nat) (h : L.Nodup) (k : Nat) :
    (flipL e L).testBit k = (e.testBit k != decide (k ∈ L)) := by
  induction L with
  | nil => simp [flipL]
  | cons x L ih =>
    rw [List.nodup_cons] at h
    have : flipL e (x :: L) = flipL e L ^^^ (1 <<< x) := rfl
    rw [this]
    by_cases hx : x = k
    · subst hx
      rw [testBit_xflip, ih h.2]
      simp [h.1]
    · rw [testBit_xflip_ne _ _ _ hx, ih h.2]
      have : ¬ k = x := fun h => hx h.symm
      simp [this]

end BK
end OFV
