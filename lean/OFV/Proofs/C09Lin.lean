/- C09: list linear algebra used by the code-construction theorems (core Lean only). -/
import OFV.Proofs.C09Code

namespace OFV.C09
open OFV.Model.C09 OFV.Spec.C09

/-! ### dot products -/

@[simp] theorem dot_nil_left (v : List Nat) : dot [] v = 0 := by simp [dot]
@[simp] theorem dot_nil_right (r : List Nat) : dot r [] = 0 := by simp [dot]
@[simp] theorem dot_cons (a b : Nat) (r v : List Nat) : dot (a :: r) (b :: v) = a * b + dot r v := by
  simp [dot]

theorem dot_zeros (n : Nat) (v : List Nat) : dot (zeros n) v = 0 := by
  induction n generalizing v with
  | zero => simp [zeros]
  | succ k ih =>
    cases v with
    | nil => simp
    | cons b v => simp [zeros, List.replicate_succ] at ih ⊢; exact ih v

theorem dot_append (r1 r2 v1 v2 : List Nat) (h : r1.length = v1.length) :
    dot (r1 ++ r2) (v1 ++ v2) = dot r1 v1 + dot r2 v2 := by
  induction r1 generalizing v1 with
  | nil =>
    cases v1 with
    | nil => simp
    | cons _ _ => simp at h
  | cons a r ih =>
    cases v1 with
    | nil => simp at h
    | cons b v =>
      simp only [List.cons_append, dot_cons]
      rw [ih v (by simpa using h)]
      omega

theorem dot_zipWith_add (a b v : List Nat) (h : a.length = b.length) :
    dot (List.zipWith (· + ·) a b) v = dot a v + dot b v := by
  induction a generalizing b v with
  | nil => cases b <;> simp at h ⊢
  | cons x a ih =>
    cases b with
    | nil => simp at h
    | cons y b =>
      cases v with
      | nil => simp
      | cons z v =>
        simp only [List.zipWith_cons_cons, dot_cons]
        rw [ih b v (by simpa using h)]
        rw [Nat.add_mul]; omega

theorem dot_map_mul (c : Nat) (r v : List Nat) : dot (r.map (c * ·)) v = c * dot r v := by
  induction r generalizing v with
  | nil => simp
  | cons x r ih =>
    cases v with
    | nil => simp
    | cons z v => simp only [List.map_cons, dot_cons, ih, Nat.mul_add, Nat.mul_assoc]

/-- `dot` only sees the operands mod 2 when the result is taken mod 2 -/
theorem dot_mod2_right (r v : List Nat) : dot r (v.map (· % 2)) % 2 = dot r v % 2 := by
  induction r generalizing v with
  | nil => simp
  | cons x r ih =>
    cases v with
    | nil => simp
    | cons z v =>
      simp only [List.map_cons, dot_cons]
      have := ih v
      rw [Nat.add_mod, Nat.mul_mod, Nat.mod_mod, ← Nat.mul_mod, this, ← Nat.add_mod]

/-! ### row vector times matrix -/

theorem length_zipWith_add (a b : List Nat) (h : a.length = b.length) :
    (List.zipWith (· + ·) a b).length = a.length := by simp [h]

theorem dot_vecMat_go (w : Nat) (xs : List (List Nat)) (acc v : List Nat)
    (hacc : acc.length = w) (hxs : ∀ x ∈ xs, x.length = w) :
    dot (xs.foldl (fun acc x => List.zipWith (· + ·) acc x) acc) v
      = dot acc v + (xs.map fun x => dot x v).sum := by
  induction xs generalizing acc with
  | nil => simp
  | cons x xs ih =>
    have hx : x.length = w := hxs x (by simp)
    rw [List.foldl_cons, ih _ (by simp [hacc, hx]) (fun y hy => hxs y (List.mem_cons_of_mem _ hy)),
      dot_zipWith_add _ _ _ (by rw [hacc, hx])]
    simp [Nat.add_assoc]

theorem length_scaled_rows (w : Nat) (r : List Nat) (A : Mat) (hA : ∀ row ∈ A, row.length = w) :
    ∀ x ∈ List.zipWith (fun c row => row.map (c * ·)) r A, x.length = w := by
  induction r generalizing A with
  | nil => simp
  | cons c r ih =>
    cases A with
    | nil => simp
    | cons row A =>
      intro x hx
      simp only [List.zipWith_cons_cons, List.mem_cons] at hx
      rcases hx with rfl | hx
      · simp [hA row (by simp)]
      · exact ih A (fun y hy => hA y (List.mem_cons_of_mem _ hy)) x hx

/-- `(r · A) · v = Σ_k r_k (A_k · v)` -/
theorem dot_vecMat (w : Nat) (r : List Nat) (A : Mat) (v : List Nat) (hA : ∀ row ∈ A, row.length = w) :
    dot (vecMat w r A) v = dot r (matVec A v) := by
  unfold vecMat
  rw [dot_vecMat_go w _ _ v (by simp [zeros])]
  · rw [dot_zeros, Nat.zero_add]
    unfold matVec
    induction r generalizing A with
    | nil => simp
    | cons c r ih =>
      cases A with
      | nil => simp
      | cons row A =>
        simp only [List.zipWith_cons_cons, List.map_cons, List.sum_cons, dot_cons, dot_map_mul]
        rw [ih A (fun x hx => hA x (List.mem_cons_of_mem _ hx))]
  · exact length_scaled_rows w r A hA

/-- the encoder of a concatenation, applied and reduced mod 2, is the composition of the
reduced encodings (the product matrix itself is *not* reduced by the code) -/
theorem matVec_matMul_mod2 (B A : Mat) (w : Nat) (v : List Nat) (hA : ∀ row ∈ A, row.length = w) :
    (matVec (matMul B A w) v).map (· % 2) = (matVec B ((matVec A v).map (· % 2))).map (· % 2) := by
  unfold matMul matVec
  simp only [List.map_map]
  apply List.map_congr_left
  intro brow _
  simp only [Function.comp]
  have := dot_vecMat w brow A v hA
  unfold matVec at this
  rw [this, ← List.map_map, dot_mod2_right]

/-! ### block diagonal -/

theorem matVec_blockDiag (A B : Mat) (an bn : Nat) (va vb : List Nat)
    (hA : ∀ row ∈ A, row.length = an) (hva : va.length = an) :
    matVec (blockDiag A an B bn) (va ++ vb) = matVec A va ++ matVec B vb := by
  unfold blockDiag matVec
  rw [List.map_append, List.map_map, List.map_map]
  congr 1
  · apply List.map_congr_left
    intro row hrow
    simp only [Function.comp]
    rw [dot_append _ _ _ _ (by rw [hA row hrow, hva]), dot_zeros]; simp
  · apply List.map_congr_left
    intro row _
    simp only [Function.comp]
    rw [dot_append _ _ _ _ (by simp [zeros, hva]), dot_zeros]; simp

end OFV.C09
