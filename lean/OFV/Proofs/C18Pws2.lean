/- C18 — `pair_within_simultaneously`, part 2: co-scheduling by the first stage of a level
(two labels in each of two sibling parts). -/
import OFV.Proofs.C18Pws1

namespace OFV.Proofs.C18Pws
open OFV.Model.C18 OFV.Spec.C18 OFV.Proofs.C18 List

section
variable {α : Type}

theorem rounds_mono {a b : Nat} (h : a ≤ b) : rounds a ≤ rounds b := by
  unfold rounds; omega

theorem loopNth_some {β : Type} (g : List β) (hne : g ≠ []) (i : Nat) :
    ∃ b, loopNth g i = some (g[i % g.length]'(Nat.mod_lt _ (length_pos_iff.mpr hne)), b) := by
  unfold loopNth
  rw [getElem?_eq_getElem (Nat.mod_lt _ (length_pos_iff.mpr hne))]
  exact ⟨_, rfl⟩

theorem mem_nextAll {β : Type} (gens : List (List (Pairing β))) (g : List (Pairing β)) (hg : g ∈ gens)
    (i : Nat) (p : Pairing β) (b : Bool) (h : loopNth g i = some (p, b)) :
    ∀ it ∈ p, it ∈ nextAll gens i := by
  intro it hit
  simp only [nextAll, mem_flatMap]
  exact ⟨g, hg, by rw [h]; exact hit⟩

/-- an offset that brings a running index to a wanted residue -/
theorem offset_exists (x m t : Nat) (ht : t < m) : ∃ d, d < m ∧ (x + d) % m = t := by
  refine ⟨(t + m - x % m) % m, Nat.mod_lt _ (by omega), ?_⟩
  have hx : x % m < m := Nat.mod_lt _ (by omega)
  have h1 : (x + (t + m - x % m) % m) % m = (x % m + (t + m - x % m)) % m := by
    rw [Nat.add_mod, Nat.mod_mod, ← Nat.add_mod]
    conv_rhs => rw [Nat.add_mod, Nat.mod_mod, ← Nat.add_mod]
  rw [h1]
  have : x % m + (t + m - x % m) = t + m := by omega
  rw [this, Nat.add_mod_right, Nat.mod_eq_of_lt ht]


theorem pairWithin_length [DecidableEq α] (v : List (Option α)) (hnd : v.Nodup) (hnone : none ∉ v) :
    (pairWithin v).length = rounds v.length :=
  (pairWithinAux_inv v.length v (Nat.le_refl _) hnd (fun h => hnone (dropLast_subset _ h))).1

theorem lastLen_eq_getElem {β : Type} (parts : List (List β)) (h : parts ≠ []) :
    lastLen parts = (parts[parts.length - 1]'(by have := length_pos_iff.mpr h; omega)).length := by
  unfold lastLen
  rw [getLast?_eq_getElem?, getElem?_eq_getElem (by have := length_pos_iff.mpr h; omega)]

/-- first stage of the level below `parts`: one yield of `pair_within` of each of the two halves of a
part, for any two rounds, are contained in a common yield -/
theorem stage1_cosched [DecidableEq α] (parts : List (List (Option α))) (hbal : Balanced parts)
    (hgood : ∀ p ∈ parts, p.Nodup ∧ none ∉ p) (i : Nat) (hi : i < parts.length)
    (y0 y1 : Pairing (Option α))
    (h0 : y0 ∈ pairWithin ((parts[i]).take ((parts[i]).length / 2)))
    (h1 : y1 ∈ pairWithin ((parts[i]).drop ((parts[i]).length / 2))) :
    ∃ y ∈ pwsStage1 (parts.flatMap halves), (∀ it ∈ y0, it ∈ y) ∧ (∀ it ∈ y1, it ∈ y) := by
  obtain ⟨hne, hb⟩ := hbal
  have hL : 0 < parts.length := length_pos_iff.mpr hne
  obtain ⟨v, hv⟩ : ∃ v, v = parts[i] := ⟨_, rfl⟩
  rw [← hv] at h0 h1
  have hvm : v ∈ parts := hv ▸ getElem_mem hi
  obtain ⟨last, hlast⟩ : ∃ last, last = parts[parts.length - 1]'(by omega) := ⟨_, rfl⟩
  have hlastm : last ∈ parts := hlast ▸ getElem_mem _
  have hll : lastLen parts = last.length := by rw [lastLen_eq_getElem parts hne, hlast]
  have hvl := hb v hvm
  rw [hll] at hvl
  -- lengths of the generators
  have g0 : (v.take (v.length / 2)).Nodup ∧ none ∉ v.take (v.length / 2) :=
    ⟨(hgood v hvm).1.sublist (take_sublist _ _), fun h => (hgood v hvm).2 (mem_of_mem_take h)⟩
  have g1 : (v.drop (v.length / 2)).Nodup ∧ none ∉ v.drop (v.length / 2) :=
    ⟨(hgood v hvm).1.sublist (drop_sublist _ _), fun h => (hgood v hvm).2 (mem_of_mem_drop h)⟩
  have len0 := pairWithin_length _ g0.1 g0.2
  have len1 := pairWithin_length _ g1.1 g1.2
  obtain ⟨t0, ht0, rfl⟩ := getElem_of_mem h0
  obtain ⟨t1, ht1, rfl⟩ := getElem_of_mem h1
  -- the two loop bounds of the stage
  have hn' : (parts.flatMap halves).length = 2 * parts.length := length_flatMap_halves parts
  have e2 : (parts.flatMap halves).getD ((parts.flatMap halves).length - 2) [] = last.take (last.length / 2) := by
    have := (getElem_flatMap_halves parts (parts.length - 1) (by omega)).1
    rw [hn', show 2 * parts.length - 2 = 2 * (parts.length - 1) by omega, getD_eq_getElem?_getD, this, hlast]
    rfl
  have e1 : (parts.flatMap halves).getD ((parts.flatMap halves).length - 1) [] = last.drop (last.length / 2) := by
    have := (getElem_flatMap_halves parts (parts.length - 1) (by omega)).2
    rw [hn', show 2 * parts.length - 1 = 2 * (parts.length - 1) + 1 by omega, getD_eq_getElem?_getD, this, hlast]
    rfl
  obtain ⟨r1, hr1⟩ : ∃ r1, r1 = rounds (last.take (last.length / 2)).length := ⟨_, rfl⟩
  obtain ⟨r2, hr2⟩ : ∃ r2, r2 = rounds (last.drop (last.length / 2)).length := ⟨_, rfl⟩
  have hr1' : (pairWithin (v.take (v.length / 2))).length ≤ r1 := by
    rw [len0, hr1]; apply rounds_mono; simp; omega
  have hr2' : (pairWithin (v.drop (v.length / 2))).length ≤ r2 := by
    rw [len1, hr2]; apply rounds_mono; simp; omega
  obtain ⟨d2, hd2, hd2'⟩ := offset_exists (t0 * r2) (pairWithin (v.drop (v.length / 2))).length t1 ht1
  refine ⟨nextAll (evens ((parts.flatMap halves).map pairWithin)) t0 ++
      nextAll (odds ((parts.flatMap halves).map pairWithin)) (t0 * r2 + d2), ?_, ?_, ?_⟩
  · simp only [pwsStage1, e2, e1, ← hr1, ← hr2, mem_flatMap, mem_map, mem_range]
    exact ⟨t0, by omega, d2, by omega, rfl⟩
  · intro it hit
    apply mem_append_left
    rw [evens_map, evens_flatMap_halves]
    have hne0 : pairWithin (v.take (v.length / 2)) ≠ [] := by
      intro e; rw [e] at ht0; simp at ht0
    obtain ⟨b, hb'⟩ := loopNth_some _ hne0 t0
    refine mem_nextAll _ (pairWithin (v.take (v.length / 2))) ?_ t0 _ b hb' it ?_
    · simp only [mem_map]
      exact ⟨v.take (v.length / 2), ⟨v, hvm, rfl⟩, rfl⟩
    · simpa [Nat.mod_eq_of_lt ht0] using hit
  · intro it hit
    apply mem_append_right
    rw [odds_map, odds_flatMap_halves]
    have hne1 : pairWithin (v.drop (v.length / 2)) ≠ [] := by
      intro e; rw [e] at ht1; simp at ht1
    obtain ⟨b, hb'⟩ := loopNth_some _ hne1 (t0 * r2 + d2)
    refine mem_nextAll _ (pairWithin (v.drop (v.length / 2))) ?_ _ _ b hb' it ?_
    · simp only [mem_map]
      exact ⟨v.drop (v.length / 2), ⟨v, hvm, rfl⟩, rfl⟩
    · simpa [hd2'] using hit

end
end OFV.Proofs.C18Pws
