/- C01: quotients.  `a / c` is coded as `a * (1.0 / c)`; in the Model `smul (GQ.inv c) a`.  For `c ≠ 0`
`GQ.inv c` is the multiplicative inverse, so the quotient is the unique operator `q` with `c · q = a`. -/
import OFV.Model.Program
import OFV.Proofs.GQRing
import Mathlib.Algebra.Order.Field.Rat
import Mathlib.Tactic.FieldSimp
import Mathlib.Tactic.Positivity
import Mathlib.Tactic.Linarith

namespace OFV
namespace Proofs
namespace C01Div
open Model

theorem normSq_pos (c : GQ) (h : c ≠ 0) : 0 < c.normSq := by
  unfold GQ.normSq
  by_contra hn
  have h1 : c.re * c.re + c.im * c.im = 0 := le_antisymm (not_lt.mp hn) (add_nonneg (mul_self_nonneg _) (mul_self_nonneg _))
  have hre : c.re * c.re = 0 := by nlinarith [mul_self_nonneg c.re, mul_self_nonneg c.im]
  have him : c.im * c.im = 0 := by nlinarith [mul_self_nonneg c.re, mul_self_nonneg c.im]
  apply h
  apply GQ.ext
  · exact mul_self_eq_zero.mp hre
  · exact mul_self_eq_zero.mp him

/-- `GQ.inv` is the inverse on nonzero Gaussian rationals -/
theorem mul_inv_cancel (c : GQ) (h : c ≠ 0) : c * GQ.inv c = 1 := by
  have hp := normSq_pos c h
  have hne : c.re * c.re + c.im * c.im ≠ 0 := by
    unfold GQ.normSq at hp; exact ne_of_gt hp
  apply GQ.ext
  · simp only [GQ.mul_re, GQ.inv, GQ.normSq, GQ.one_re]
    rw [neg_div, mul_neg, sub_neg_eq_add, mul_div_assoc', mul_div_assoc', ← add_div, div_self hne]
  · simp only [GQ.mul_im, GQ.inv, GQ.normSq, GQ.one_im]
    rw [neg_div, mul_neg, mul_div_assoc', mul_div_assoc', mul_comm c.im c.re]
    exact neg_add_cancel _

theorem inv_mul_cancel (c : GQ) (h : c ≠ 0) : GQ.inv c * c = 1 := by
  rw [mul_comm]; exact mul_inv_cancel c h

end C01Div
end Proofs
end OFV
