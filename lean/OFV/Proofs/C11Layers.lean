/- Helper lemmas for C11: what the numeric sweeps emit is a sub-schedule. Core only. -/
import OFV.Model.C11

namespace OFV
namespace Model
namespace C11

/-- index pair of an emitted rotation -/
def Rot.idx (r : Rot) : Nat × Nat := (r.i, r.j)

/-- the column pair `(j - 1, j)` rotated to zero position `(i, j)` -/
def colPair (p : Nat × Nat) : Nat × Nat := (p.2 - 1, p.2)

theorem colLayer_sublist (tol : Rat) (ai : Bool) :
    ∀ (ps : List (Nat × Nat)) (M : Mat) (rs : List Rot) (M' : Mat),
      colLayer tol ai ps M = .ok (rs, M') → List.Sublist (rs.map Rot.idx) (ps.map colPair) := by
  intro ps
  induction ps with
  | nil =>
    intro M rs M' h
    simp [colLayer] at h
    obtain ⟨h1, _⟩ := h
    subst h1
    simp
  | cons p ps ih =>
    intro M rs M' h
    obtain ⟨i, j⟩ := p
    unfold colLayer at h
    simp only at h
    split at h
    · cases hG : givensElems tol (M.get i (j - 1)).conj (M.get i j).conj true with
      | error e => simp [hG, bind, Except.bind] at h
      | ok G =>
        cases hP : params G with
        | error e => simp [hG, hP, bind, Except.bind] at h
        | ok t =>
          obtain ⟨s, c, e⟩ := t
          cases hR : colLayer tol ai ps (rotateCols M G (j - 1) j) with
          | error e => simp [hG, hP, hR, bind, Except.bind] at h
          | ok t2 =>
            obtain ⟨rs2, M2⟩ := t2
            simp only [hG, hP, hR, bind, Except.bind] at h
            injection h with h
            injection h with h1 h2
            subst h1
            have := ih _ _ _ hR
            simpa [Rot.idx, colPair] using List.Sublist.cons_cons (j - 1, j) this
    · have := ih _ _ _ h
      exact List.Sublist.cons _ this

/-- every emitted layer is non-empty, comes from some scheduled iteration `k` (in order) and is a
sub-list of that iteration's column pairs; hence there are at most as many layers as iterations -/
theorem colSweep_layers (tol : Rat) (layerOf : Nat → List (Nat × Nat)) (ai : Bool) :
    ∀ (ks : List Nat) (M : Mat) (ls : List (List Rot)) (M' : Mat),
      colSweep tol layerOf ai ks M = .ok (ls, M') →
      ls.length ≤ ks.length ∧
      ∀ l ∈ ls, l ≠ [] ∧ ∃ k ∈ ks, List.Sublist (l.map Rot.idx) ((layerOf k).map colPair) := by
  intro ks
  induction ks with
  | nil =>
    intro M ls M' h
    simp [colSweep] at h
    obtain ⟨h1, _⟩ := h
    subst h1
    simp
  | cons k ks ih =>
    intro M ls M' h
    unfold colSweep at h
    cases hL : colLayer tol ai (layerOf k) M with
    | error e => simp [hL, bind, Except.bind] at h
    | ok t =>
      obtain ⟨ops, M1⟩ := t
      cases hS : colSweep tol layerOf ai ks M1 with
      | error e => simp [hL, hS, bind, Except.bind] at h
      | ok t2 =>
        obtain ⟨ls2, M2⟩ := t2
        simp only [hL, hS, bind, Except.bind] at h
        injection h with h
        injection h with h1 h2
        obtain ⟨hlen, hall⟩ := ih _ _ _ hS
        have hsub := colLayer_sublist tol ai _ _ _ _ hL
        by_cases hemp : ops.isEmpty = true
        · simp only [hemp, if_true] at h1
          subst h1
          refine ⟨by simp; omega, ?_⟩
          intro l hl
          obtain ⟨hne, k', hk', hs⟩ := hall l hl
          exact ⟨hne, k', List.mem_cons_of_mem _ hk', hs⟩
        · simp only [hemp] at h1
          subst h1
          refine ⟨by simp; omega, ?_⟩
          intro l hl
          rcases List.mem_cons.mp hl with rfl | hl
          · refine ⟨?_, k, List.mem_cons_self, hsub⟩
            intro h0; apply hemp; simp [h0]
          · obtain ⟨hne, k', hk', hs⟩ := hall l hl
            exact ⟨hne, k', List.mem_cons_of_mem _ hk', hs⟩

/-- columns of a `zipUp` list increase by steps of 2 -/
theorem zipUp_pairwise (sr sc len : Nat) :
    (zipUp sr sc len).Pairwise (fun p q => p.2 + 2 ≤ q.2) := by
  unfold zipUp
  rw [List.pairwise_map]
  exact List.Pairwise.imp (fun {a b} (h : a < b) => by simp only; omega) List.pairwise_lt_range

theorem squareLayer_pairwise (n k : Nat) : (squareLayer n k).Pairwise (fun p q => p.2 + 2 ≤ q.2) := by
  unfold squareLayer; split <;> exact zipUp_pairwise _ _ _

theorem givensLayer_pairwise (m n k : Nat) : (givensLayer m n k).Pairwise (fun p q => p.2 + 2 ≤ q.2) := by
  unfold givensLayer; simp only; split
  · exact zipUp_pairwise _ _ _
  · split
    · exact zipUp_pairwise _ _ _
    · split <;> exact zipUp_pairwise _ _ _

/-- a sub-list of the column pairs of a layer whose positions satisfy `P`: every rotation is
`(j - 1, j)` for a scheduled `(i, j)` and the rotations are ordered with gaps ≥ 2 -/
theorem sublayer_structure {layer : List (Nat × Nat)} {l : List Rot}
    (hp : layer.Pairwise (fun p q => p.2 + 2 ≤ q.2))
    (hs : List.Sublist (l.map Rot.idx) (layer.map colPair)) :
    (∀ r ∈ l, ∃ p ∈ layer, r.i = p.2 - 1 ∧ r.j = p.2) ∧ l.Pairwise (fun r r' => r.j + 2 ≤ r'.j) := by
  constructor
  · intro r hr
    have : r.idx ∈ layer.map colPair := hs.subset (List.mem_map_of_mem hr)
    obtain ⟨p, hp', he⟩ := List.mem_map.mp this
    refine ⟨p, hp', ?_, ?_⟩
    · have := congrArg Prod.fst he; simpa [colPair, Rot.idx] using this.symm
    · have := congrArg Prod.snd he; simpa [colPair, Rot.idx] using this.symm
  · have h1 : (layer.map colPair).Pairwise (fun p q => p.2 + 2 ≤ q.2) := by
      rw [List.pairwise_map]; simpa [colPair] using hp
    have h2 := h1.sublist hs
    rw [List.pairwise_map] at h2
    simpa [Rot.idx] using h2

/-! ### `fermionic_gaussian_decomposition` -/

/-- the column pair `(j, j + 1)` rotated to zero position `(i, j)` of the left block -/
def gaussPair (p : Nat × Nat) : Nat × Nat := (p.2, p.2 + 1)

theorem gaussLayerLoop_sublist (tol : Rat) (n : Nat) :
    ∀ (ps : List (Nat × Nat)) (M : Mat) (ops : List GOp) (M' : Mat),
      gaussLayerLoop tol n ps M = .ok (ops, M') →
      ∃ rs : List Rot, ops = rs.map GOp.rot ∧ List.Sublist (rs.map Rot.idx) (ps.map gaussPair) := by
  intro ps
  induction ps with
  | nil =>
    intro M ops M' h
    simp [gaussLayerLoop] at h
    obtain ⟨h1, _⟩ := h
    subst h1
    exact ⟨[], rfl, by simp⟩
  | cons p ps ih =>
    intro M ops M' h
    obtain ⟨i, j⟩ := p
    unfold gaussLayerLoop at h
    simp only at h
    split at h
    · cases hG : givensElems tol (M.get i j).conj (M.get i (j + 1)).conj false with
      | error e => simp [hG, bind, Except.bind] at h
      | ok G =>
        cases hP : params G with
        | error e => simp [hG, hP, bind, Except.bind] at h
        | ok t =>
          obtain ⟨s, c, e⟩ := t
          cases hR : gaussLayerLoop tol n ps (doubleRotateCols M G n j (j + 1)) with
          | error e => simp [hG, hP, hR, bind, Except.bind] at h
          | ok t2 =>
            obtain ⟨ops2, M2⟩ := t2
            simp only [hG, hP, hR, bind, Except.bind] at h
            injection h with h
            injection h with h1 h2
            subst h1
            obtain ⟨rs, hrs, hsub⟩ := ih _ _ _ hR
            refine ⟨⟨j, j + 1, s, c, e⟩ :: rs, by simp [hrs], ?_⟩
            simpa [Rot.idx, gaussPair] using List.Sublist.cons_cons (j, j + 1) hsub
    · obtain ⟨rs, hrs, hsub⟩ := ih _ _ _ h
      exact ⟨rs, hrs, List.Sublist.cons _ hsub⟩

/-- every emitted layer of the Gaussian sweep is non-empty, comes from one scheduled iteration `k`, consists of
an optional leading `'pht'` (only when `k` is even) followed by rotations whose index pairs form a sub-list of
that iteration's column pairs -/
theorem gaussSweep_layers (tol : Rat) (n : Nat) :
    ∀ (ks : List Nat) (M : Mat) (ls : List (List GOp)) (M' : Mat),
      gaussSweep tol n ks M = .ok (ls, M') →
      ls.length ≤ ks.length ∧
      ∀ l ∈ ls, l ≠ [] ∧ ∃ k ∈ ks, ∃ rs : List Rot,
        (l = rs.map GOp.rot ∨ (l = GOp.pht :: rs.map GOp.rot ∧ k % 2 = 0)) ∧
        List.Sublist (rs.map Rot.idx) ((gaussLayer n k).map gaussPair) := by
  intro ks
  induction ks with
  | nil =>
    intro M ls M' h
    simp [gaussSweep] at h
    obtain ⟨h1, _⟩ := h
    subst h1
    simp
  | cons k ks ih =>
    intro M ls M' h
    unfold gaussSweep at h
    simp only at h
    generalize hpht : (decide (k % 2 = 0) && big tol (M.get (k / 2) (n - 1))) = doPht at h
    cases hL : gaussLayerLoop tol n (gaussLayer n k)
        (if doPht = true then swapCols M (n - 1) (2 * n - 1) else M) with
    | error e => simp [hL, bind, Except.bind] at h
    | ok t =>
      obtain ⟨ops, M2⟩ := t
      cases hS : gaussSweep tol n ks M2 with
      | error e => simp [hL, hS, bind, Except.bind] at h
      | ok t2 =>
        obtain ⟨ls2, M3⟩ := t2
        simp only [hL, hS, bind, Except.bind] at h
        injection h with h
        injection h with h1 h2
        obtain ⟨hlen, hall⟩ := ih _ _ _ hS
        obtain ⟨rs, hrs, hsub⟩ := gaussLayerLoop_sublist tol n _ _ _ _ hL
        have hrest : ∀ l ∈ ls2, l ≠ [] ∧ ∃ k' ∈ k :: ks, ∃ rs : List Rot,
            (l = rs.map GOp.rot ∨ (l = GOp.pht :: rs.map GOp.rot ∧ k' % 2 = 0)) ∧
            List.Sublist (rs.map Rot.idx) ((gaussLayer n k').map gaussPair) := by
          intro l hl
          obtain ⟨hne, k', hk', rs', hl', hs'⟩ := hall l hl
          exact ⟨hne, k', List.mem_cons_of_mem _ hk', rs', hl', hs'⟩
        by_cases hemp : (if doPht = true then GOp.pht :: ops else ops).isEmpty = true
        · simp only [hemp, if_true] at h1
          subst h1
          exact ⟨by simp; omega, hrest⟩
        · simp only [hemp] at h1
          subst h1
          refine ⟨by simp; omega, ?_⟩
          intro l hl
          rcases List.mem_cons.mp hl with rfl | hl
          · refine ⟨?_, k, List.mem_cons_self, rs, ?_, hsub⟩
            · intro h0; apply hemp; simp [h0]
            · cases hd : doPht with
              | false => left; simp [hrs]
              | true =>
                right
                refine ⟨by simp [hrs], ?_⟩
                rw [hd] at hpht
                have := (Bool.and_eq_true _ _).mp hpht
                simpa using this.1
          · exact hrest l hl

theorem zipDown_pairwise (er ec len : Nat) :
    (zipDown er ec len).Pairwise (fun p q => p.2 + 2 ≤ q.2) := by
  unfold zipDown
  rw [List.pairwise_map]
  exact List.Pairwise.imp (fun {a b} (h : a < b) => by simp only; omega) List.pairwise_lt_range

theorem gaussLayer_pairwise (n k : Nat) : (gaussLayer n k).Pairwise (fun p q => p.2 + 2 ≤ q.2) := by
  unfold gaussLayer; split <;> exact zipDown_pairwise _ _ _

theorem gauss_sublayer_structure {layer : List (Nat × Nat)} {l : List Rot}
    (hp : layer.Pairwise (fun p q => p.2 + 2 ≤ q.2))
    (hs : List.Sublist (l.map Rot.idx) (layer.map gaussPair)) :
    (∀ r ∈ l, ∃ p ∈ layer, r.i = p.2 ∧ r.j = p.2 + 1) ∧ l.Pairwise (fun r r' => r.j + 2 ≤ r'.j) := by
  constructor
  · intro r hr
    have : r.idx ∈ layer.map gaussPair := hs.subset (List.mem_map_of_mem hr)
    obtain ⟨p, hp', he⟩ := List.mem_map.mp this
    refine ⟨p, hp', ?_, ?_⟩
    · have := congrArg Prod.fst he; simpa [gaussPair, Rot.idx] using this.symm
    · have := congrArg Prod.snd he; simpa [gaussPair, Rot.idx] using this.symm
  · have h1 : (layer.map gaussPair).Pairwise (fun p q => p.2 + 2 ≤ q.2) := by
      rw [List.pairwise_map]
      exact List.Pairwise.imp (fun {a b} (h : a.2 + 2 ≤ b.2) => by simp only [gaussPair]; omega) hp
    have h2 := h1.sublist hs
    rw [List.pairwise_map] at h2
    simpa [Rot.idx] using h2

end C11
end Model
end OFV
