/- Helper definitions / lemmas for C12: `majorana_form` at the level of ladder-monomial coefficients. -/
import OFV.Model.C12
import Mathlib.Tactic.Ring
import Mathlib.Tactic.Linarith
import Mathlib.Algebra.Order.Field.Rat

namespace OFV
namespace Model
namespace C12

@[simp] theorem conj_re' (z : GQ) : z.conj.re = z.re := rfl
@[simp] theorem conj_im' (z : GQ) : z.conj.im = -z.im := rfl
@[simp] theorem mk_re (a b : Rat) : (GQ.mk a b).re = a := rfl
@[simp] theorem mk_im (a b : Rat) : (GQ.mk a b).im = b := rfl

/-- `(i/4) z` -/
def iq (z : GQ) : GQ := (⟨0, 1/4⟩ : GQ) * z
def rI (x : Rat) : GQ := ⟨0, x⟩   -- i x
def rR (x : Rat) : GQ := ⟨x, 0⟩

/-! Substituting `f_j = (a†_j + a_j)/√2`, `f_{j+N} = i (a†_j - a_j)/√2` into `(i/2) Σ A_jk f_j f_k`
and collecting the four kinds of ladder monomials gives, for the block entries
`A11 = A[j,k]`, `A12 = A[j,N+k]`, `A21 = A[N+j,k]`, `A22 = A[N+j,N+k]`:

  coefficient of `a†_j a†_k` : (i/4) (A11 + i A12 + i A21 - A22)
  coefficient of `a†_j a_k`  : (i/4) (A11 - i A12 + i A21 + A22)
  coefficient of `a_j a†_k`  : (i/4) (A11 + i A12 - i A21 + A22)
  coefficient of `a_j a_k`   : (i/4) (A11 - i A12 - i A21 - A22)           -/
def coefDD (h d : GQ) : GQ := iq (rR (ulE h d) + rI (urE h d) + rI (llE h d) - rR (lrE h d))
def coefDA (h d : GQ) : GQ := iq (rR (ulE h d) - rI (urE h d) + rI (llE h d) + rR (lrE h d))
def coefAD (h d : GQ) : GQ := iq (rR (ulE h d) + rI (urE h d) - rI (llE h d) + rR (lrE h d))
def coefAA (h d : GQ) : GQ := iq (rR (ulE h d) - rI (urE h d) - rI (llE h d) - rR (lrE h d))

theorem blocks_antisymmetric (h d : GQ) :
    ulE h.conj (-d) = -ulE h d ∧ llE h.conj (-d) = -urE h d ∧ urE h.conj (-d) = -llE h d ∧
    lrE h.conj (-d) = -lrE h d := by
  refine ⟨?_, ?_, ?_, ?_⟩ <;> simp [ulE, urE, llE, lrE] <;> ring

end C12
end Model
end OFV
