/-
C03 — the fermionic Spec (OFV.Spec.Basic: `actF` on Fock bit masks, sign = parity of the
occupied modes below) satisfies the canonical anticommutation relations, state by state.
These are the hypotheses of the abstract soundness theorem of normal ordering, verified for
the concrete reference semantics the oracle (`spec.eq`) evaluates.
-/
import OFV.Proofs.Bits
import OFV.Spec.Basic

namespace OFV
namespace Proofs
namespace C03
open Spec

theorem countBelow_succ (s j : Nat) :
    countBelow s (j + 1) = countBelow s j + (if s.testBit j then 1 else 0) := by
  unfold countBelow
  rw [List.range_succ, List.filter_append, List.length_append]
  by_cases h : s.testBit j <;> simp [h]

/-- flipping bit `k` changes the parity of the occupied modes below `j` iff `k < j` -/
theorem countBelow_xflip (s k j : Nat) :
    countBelow (s ^^^ (1 <<< k)) j % 2 = (countBelow s j + (if k < j then 1 else 0)) % 2 := by
  induction j with
  | zero => simp [countBelow]
  | succ j ih =>
    rw [countBelow_succ, countBelow_succ]
    by_cases hk : k = j
    · subst hk
      rw [testBit_xflip]
      have : ¬ (k < k) := Nat.lt_irrefl k
      simp only [this, if_false, Nat.add_zero] at ih
      by_cases hb : s.testBit k <;> simp [hb] <;> omega
    · rw [testBit_xflip_ne s k j hk]
      by_cases hlt : k < j
      · have : k < j + 1 := by omega
        simp only [hlt, this, if_true] at ih ⊢
        omega
      · have : ¬ (k < j + 1) := by omega
        simp only [hlt, this, if_false, Nat.add_zero] at ih ⊢
        omega

/-- two-factor term on a basis state, unfolded: rightmost factor first -/
theorem actFTerm_pair (f h : Nat × Nat) (s : Nat) :
    actFTerm [f, h] s =
      match actF h.1 h.2 s with
      | none => none
      | some (k, s') => match actF f.1 f.2 s' with
        | none => none
        | some (k', s'') => some ((k + k') % 2, s'') := by
  simp only [actFTerm, List.foldr]
  cases actF h.1 h.2 s with
  | none => rfl
  | some p =>
    obtain ⟨k, s'⟩ := p
    simp only
    cases actF f.1 f.2 s' with
    | none => rfl
    | some q =>
      obtain ⟨k', s''⟩ := q
      simp only [Option.some.injEq, Prod.mk.injEq, and_true]
      omega

/-- `a_j a_j^† + a_j^† a_j = 1`, state by state: exactly one of the two products survives and
it fixes the state with sign `+` -/
theorem spec_car_same_mode (j s : Nat) :
    actFTerm [(j, 0), (j, 1)] s = (if s.testBit j then none else some (0, s)) ∧
    actFTerm [(j, 1), (j, 0)] s = (if s.testBit j then some (0, s) else none) := by
  constructor <;> rw [actFTerm_pair] <;> by_cases hb : s.testBit j <;>
    (simp [actF, hb, testBit_xflip, xflip_xflip, countBelow_xflip]; try omega)

/-- a repeated ladder operator annihilates every state -/
theorem spec_car_square (j a s : Nat) : actFTerm [(j, a), (j, a)] s = none := by
  rw [actFTerm_pair]
  by_cases hb : s.testBit j <;> by_cases ha : a = 1 <;> simp [actF, hb, ha]

/-- different modes anticommute, state by state (any ladder types) -/
theorem spec_car_diff_modes (i j a b s : Nat) (hij : i ≠ j) :
    match actFTerm [(i, a), (j, b)] s, actFTerm [(j, b), (i, a)] s with
    | some (k1, s1), some (k2, s2) => s1 = s2 ∧ k1 ≠ k2 ∧ k1 < 2 ∧ k2 < 2
    | none, none => True
    | _, _ => False := by
  rw [actFTerm_pair, actFTerm_pair]
  have hji : j ≠ i := fun e => hij e.symm
  have c1 := countBelow_xflip s j i
  have c2 := countBelow_xflip s i j
  by_cases h1 : ((a == 1) == s.testBit i) <;> by_cases h2 : ((b == 1) == s.testBit j) <;>
    simp only [actF, h1, h2, testBit_xflip_ne s j i hji, testBit_xflip_ne s i j hij, if_true, if_false,
      Bool.false_eq_true]
  all_goals try trivial
  · refine ⟨xflip_comm s j i, ?_, Nat.mod_lt _ (by omega), Nat.mod_lt _ (by omega)⟩
    by_cases hlt : i < j
    · have : ¬ (j < i) := by omega
      simp only [hlt, this, if_true, if_false, Nat.add_zero] at c1 c2
      omega
    · have : j < i := by omega
      simp only [hlt, this, if_true, if_false, Nat.add_zero] at c1 c2
      omega

end C03
end Proofs
end OFV
