/-
C06 — `LinearQubitOperator._matvec`: the recursive halving of the vector computes the action of
the Pauli string in the big-endian basis.  Core Lean only.
-/
import OFV.Proofs.C06Term

namespace OFV
namespace Proofs
namespace C06
open OFV.Spec OFV.Spec.C06 OFV.Model OFV.Model.C06
open OFV.Proofs.C07 (pcomp pfac actPTerm_append actPTerm_cons actPTerm_nil red_pfac red_actPTerm pcomp_pid_right)

/-! ### `numpy.split` on lists -/

theorem splitN_one (v : Vec) : splitN 1 v = [v] := by
  simp [splitN]

theorem getD_append_left {α : Type} (a b : List α) (d : α) (i : Nat) (h : i < a.length) :
    (a ++ b).getD i d = a.getD i d := by
  simp [List.getD_eq_getElem?_getD, List.getElem?_append_left h]

theorem getD_append_right {α : Type} (a b : List α) (d : α) (i : Nat) :
    (a ++ b).getD (a.length + i) d = b.getD i d := by
  simp [List.getD_eq_getElem?_getD, List.getElem?_append_right]

/-- splitting the concatenation of two equally long halves into `2k` parts -/
theorem splitN_append (k m : Nat) (x0 x1 : Vec) (hk : 0 < k) (h0 : x0.length = k * m) (h1 : x1.length = k * m) :
    splitN (2 * k) (x0 ++ x1) = splitN k x0 ++ splitN k x1 := by
  have hM : (x0 ++ x1).length / (2 * k) = m := by
    rw [List.length_append, h0, h1]
    have : k * m + k * m = 2 * k * m := by rw [Nat.mul_assoc, Nat.two_mul]
    rw [this, Nat.mul_div_cancel_left _ (by omega)]
  have hM0 : x0.length / k = m := by rw [h0, Nat.mul_div_cancel_left _ hk]
  have hM1 : x1.length / k = m := by rw [h1, Nat.mul_div_cancel_left _ hk]
  simp only [splitN, hM, hM0, hM1]
  rw [Nat.two_mul, List.range_add, List.map_append, List.map_map]
  congr 1
  · apply List.map_congr_left
    intro i hi
    have hik := List.mem_range.mp hi
    have hle : i * m ≤ x0.length := by rw [h0]; exact Nat.mul_le_mul_right _ (Nat.le_of_lt hik)
    rw [List.drop_append_of_le_length hle, List.take_append_of_le_length]
    rw [List.length_drop, h0]
    have : (i + 1) * m ≤ k * m := Nat.mul_le_mul_right _ hik
    rw [Nat.add_mul, Nat.one_mul] at this
    omega
  · apply List.map_congr_left
    intro i _
    simp only [Function.comp]
    have : (k + i) * m = x0.length + i * m := by rw [Nat.add_mul, h0]
    rw [this, List.drop_append]
    have h2 : x0.length + i * m - x0.length = i * m := by omega
    have h3 : List.drop (x0.length + i * m) x0 = [] := List.drop_eq_nil_of_le (by omega)
    rw [h2, h3, List.nil_append]

theorem splitN_two (x0 x1 : Vec) (h : x0.length = x1.length) : splitN 2 (x0 ++ x1) = [x0, x1] := by
  have := splitN_append 1 x0.length x0 x1 (by omega) (by omega) (by omega)
  simpa [splitN_one] using this

/-! ### the loop of `_matvec` over the factors, as a function of the block list -/

/-- one factor: split every block down to the factor's qubit, then apply `xyz` on the halves -/
def mvStep (f : Nat × Nat) (tf : Nat) (vecs : List Vec) : List Vec :=
  (if f.1 > tf then vecs.flatMap (splitN (2 ^ (f.1 - tf))) else vecs).flatMap fun v =>
    match splitN 2 v with
    | [vp0, vp1] => xyz f.2 vp0 vp1
    | _ => [v]

def mvFold (t : List (Nat × Nat)) (vecs : List Vec) (tf : Nat) : List Vec :=
  (t.foldl (fun (acc : List Vec × Nat) f => (mvStep f acc.2 acc.1, f.1 + 1)) (vecs, tf)).1

theorem matvecTerm_eq (t : List (Nat × Nat)) (x : Vec) : matvecTerm t x = (mvFold t [x] 0).flatten := rfl

theorem mvFold_nil (vecs : List Vec) (tf : Nat) : mvFold [] vecs tf = vecs := rfl

theorem mvFold_cons (f : Nat × Nat) (t : List (Nat × Nat)) (vecs : List Vec) (tf : Nat) :
    mvFold (f :: t) vecs tf = mvFold t (mvStep f tf vecs) (f.1 + 1) := rfl

theorem mvStep_append (f : Nat × Nat) (tf : Nat) (A B : List Vec) :
    mvStep f tf (A ++ B) = mvStep f tf A ++ mvStep f tf B := by
  unfold mvStep
  split <;> simp [List.flatMap_append]

theorem mvFold_append (t : List (Nat × Nat)) : ∀ (A B : List Vec) (tf : Nat),
    mvFold t (A ++ B) tf = mvFold t A tf ++ mvFold t B tf := by
  induction t with
  | nil => intro A B tf; rfl
  | cons f t ih => intro A B tf; rw [mvFold_cons, mvFold_cons, mvFold_cons, mvStep_append, ih]

/-- shift all qubit indices up by one -/
def up (t : List (Nat × Nat)) : List (Nat × Nat) := t.map fun f => (f.1 + 1, f.2)

theorem mvStep_shift (f : Nat × Nat) (tf : Nat) (vecs : List Vec) :
    mvStep (f.1 + 1, f.2) (tf + 1) vecs = mvStep f tf vecs := by
  unfold mvStep
  have e1 : (f.1 + 1 > tf + 1) ↔ (f.1 > tf) := by omega
  have e2 : f.1 + 1 - (tf + 1) = f.1 - tf := by omega
  simp only [e1, e2]

theorem mvFold_shift (t : List (Nat × Nat)) : ∀ (vecs : List Vec) (tf : Nat),
    mvFold (up t) vecs (tf + 1) = mvFold t vecs tf := by
  induction t with
  | nil => intro vecs tf; rfl
  | cons f t ih =>
    intro vecs tf
    simp only [up, List.map_cons] at ih ⊢
    rw [mvFold_cons, mvFold_cons, mvStep_shift]
    exact ih _ _

/-- the first factor of a term, on the whole vector `x` of length `2^q * m'`: the blocks after
the split are `splitN (2^q) x` whether or not `q > 0` -/
theorem mvStep_first (f : Nat × Nat) (x : Vec) :
    mvStep f 0 [x] = (splitN (2 ^ f.1) x).flatMap fun v =>
      match splitN 2 v with
      | [vp0, vp1] => xyz f.2 vp0 vp1
      | _ => [v] := by
  unfold mvStep
  by_cases h : f.1 > 0
  · simp [h]
  · have : f.1 = 0 := by omega
    simp [this, splitN_one]

/-- a term that does not touch qubit 0 acts on the two halves independently -/
theorem matvecTerm_up (t : List (Nat × Nat)) (m : Nat) (x0 x1 : Vec) (h0 : x0.length = 2 ^ m) (h1 : x1.length = 2 ^ m)
    (hlt : ∀ f ∈ t, f.1 ≤ m) :
    matvecTerm (up t) (x0 ++ x1) = matvecTerm t x0 ++ matvecTerm t x1 := by
  cases t with
  | nil => simp [matvecTerm_eq, up, mvFold_nil]
  | cons f r =>
    have hf := hlt f (by simp)
    simp only [matvecTerm_eq, up, List.map_cons]
    rw [mvFold_cons, mvFold_cons, mvFold_cons, mvStep_first, mvStep_first, mvStep_first]
    have hs : splitN (2 ^ (f.1 + 1)) (x0 ++ x1) = splitN (2 ^ f.1) x0 ++ splitN (2 ^ f.1) x1 := by
      have hpow : 2 ^ m = 2 ^ f.1 * 2 ^ (m - f.1) := by rw [← Nat.pow_add]; congr 1; omega
      rw [Nat.pow_succ, Nat.mul_comm]
      exact splitN_append (2 ^ f.1) (2 ^ (m - f.1)) x0 x1 (Nat.pow_pos (by omega)) (by rw [h0, hpow]) (by rw [h1, hpow])
    simp only at hs ⊢
    rw [hs, List.flatMap_append, mvFold_append, List.flatten_append]
    have := mvFold_shift r
    simp only [up] at this
    rw [this, this]

/-- a term whose first factor is on qubit 0 -/
theorem matvecTerm_zero (p : Nat) (r : List (Nat × Nat)) (x0 x1 : Vec) (h : x0.length = x1.length) :
    matvecTerm ((0, p) :: up r) (x0 ++ x1) =
      ((xyz p x0 x1).map fun y => matvecTerm r y).flatten := by
  simp only [matvecTerm_eq]
  rw [mvFold_cons, mvStep_first]
  simp only [Nat.pow_zero, splitN_one, List.flatMap_cons, List.flatMap_nil, List.append_nil, splitN_two x0 x1 h]
  have hx : ∃ y0 y1, xyz p x0 x1 = [y0, y1] := by
    unfold xyz; split <;> exact ⟨_, _, rfl⟩
  obtain ⟨y0, y1, hy⟩ := hx
  rw [hy]
  have e : [y0, y1] = [y0] ++ [y1] := rfl
  rw [e, mvFold_append, mvFold_shift, mvFold_shift]
  simp

/-! ### the Spec action under an index shift -/

theorem actP_up (j p x : Nat) :
    (actP (j + 1) p x).1 = (actP j p (x / 2)).1 ∧
    (actP (j + 1) p x).2 / 2 = (actP j p (x / 2)).2 ∧
    (actP (j + 1) p x).2 % 2 = x % 2 := by
  have hb : (x / 2).testBit j = x.testBit (j + 1) := Nat.testBit_div_two x j
  have hx1 : (x ^^^ 1 <<< (j + 1)) / 2 = x / 2 ^^^ 1 <<< j := by
    have := xor_div_two_pow x (1 <<< (j + 1)) 1
    rw [Nat.pow_one] at this
    rw [this, Nat.one_shiftLeft, Nat.one_shiftLeft, Nat.pow_succ, Nat.mul_div_cancel _ (by omega)]
  have hx2 : (x ^^^ 1 <<< (j + 1)) % 2 = x % 2 := by
    have := @Nat.xor_mod_two_pow x (1 <<< (j + 1)) 1
    rw [Nat.pow_one] at this
    rw [this, Nat.one_shiftLeft, Nat.pow_succ, Nat.mul_mod_left, Nat.xor_zero]
  have hp : p = 1 ∨ p = 2 ∨ p = 3 ∨ (p ≠ 1 ∧ p ≠ 2 ∧ p ≠ 3) := by omega
  rcases hp with rfl | rfl | rfl | ⟨h1, h2, h3⟩
  · simp only [actP]; exact ⟨trivial, hx1, hx2⟩
  · simp only [actP, hb]; exact ⟨trivial, hx1, hx2⟩
  · simp only [actP, hb]; exact ⟨trivial, trivial, trivial⟩
  · rw [OFV.Proofs.C07.actP_other (j + 1) p x h1 h2 h3, OFV.Proofs.C07.actP_other j p _ h1 h2 h3]
    exact ⟨rfl, rfl, rfl⟩

theorem actPTerm_up (r : List (Nat × Nat)) (x : Nat) :
    (actPTerm (up r) x).1 = (actPTerm r (x / 2)).1 ∧
    (actPTerm (up r) x).2 / 2 = (actPTerm r (x / 2)).2 ∧
    (actPTerm (up r) x).2 % 2 = x % 2 := by
  induction r with
  | nil => simp [up, actPTerm]
  | cons f r ih =>
    obtain ⟨i1, i2, i3⟩ := ih
    simp only [up, List.map_cons] at i1 i2 i3 ⊢
    rw [actPTerm_cons, actPTerm_cons]
    simp only [pcomp, pfac]
    obtain ⟨a1, a2, a3⟩ := actP_up f.1 f.2 (actPTerm (List.map (fun f => (f.1 + 1, f.2)) r) x).2
    rw [i2] at a1 a2
    rw [i3] at a3
    exact ⟨by rw [i1, a1], a2, a3⟩

theorem testBit_zero_of_mod (a b : Nat) (h : a % 2 = b % 2) : a.testBit 0 = b.testBit 0 := by
  simp [Nat.testBit_zero, h]

/-! ### vectors -/

theorem vscale_getD (c : GQ) (v : Vec) (i : Nat) : (vscale c v).getD i 0 = c * v.getD i 0 := by
  simp only [vscale, List.getD_eq_getElem?_getD, List.getElem?_map]
  cases v[i]? with
  | none => simp [gq_mul_zero]
  | some y => simp

theorem gq_neg_eq (y : GQ) : -y = GQ.ipow 2 * y := by
  apply GQ.ext <;> simp [GQ.ipow] <;> grind

theorem vneg_getD (v : Vec) (i : Nat) : (vneg v).getD i 0 = GQ.ipow 2 * v.getD i 0 := by
  simp only [vneg, List.getD_eq_getElem?_getD, List.getElem?_map]
  cases v[i]? with
  | none => simp [gq_mul_zero]
  | some y => simp [gq_neg_eq]

theorem vscale_getD' (c : GQ) (v : Vec) (i : Nat) : (vscale c v)[i]?.getD 0 = c * v[i]?.getD 0 := by
  have := vscale_getD c v i
  simpa [List.getD_eq_getElem?_getD] using this

theorem vneg_getD' (v : Vec) (i : Nat) : (vneg v)[i]?.getD 0 = GQ.ipow 2 * v[i]?.getD 0 := by
  have := vneg_getD v i
  simpa [List.getD_eq_getElem?_getD] using this

theorem vscale_length (c : GQ) (v : Vec) : (vscale c v).length = v.length := by simp [vscale]
theorem vneg_length (v : Vec) : (vneg v).length = v.length := by simp [vneg]

theorem ipow_one : GQ.ipow 1 = GQ.I := rfl
theorem ipow_three : GQ.ipow 3 = -GQ.I := rfl
theorem ipow_zero : GQ.ipow 0 = 1 := rfl

/-- `xyz` on the two halves, read at qubit 0: the new half `b'` is `i^k` times the old half `b`
where `P|b⟩ = i^k |b'⟩` -/
theorem xyz_spec (p : Nat) (hp : 1 ≤ p ∧ p ≤ 3) (x0 x1 : Vec) (h : x0.length = x1.length) :
    ∃ y0 y1, xyz p x0 x1 = [y0, y1] ∧ y0.length = x0.length ∧ y1.length = x0.length ∧
      ∀ (b : Bool) (j : Nat),
        (if (actP 0 p (if b then 1 else 0)).2.testBit 0 then y1 else y0).getD j 0 =
          GQ.ipow (actP 0 p (if b then 1 else 0)).1 * (if b then x1 else x0).getD j 0 := by
  have h1 : p = 1 ∨ p = 2 ∨ p = 3 := by omega
  rcases h1 with rfl | rfl | rfl
  · refine ⟨x1, x0, rfl, h.symm, rfl, ?_⟩
    intro b j; cases b <;> simp [actP, ipow_zero, gq_one_mul]
  · refine ⟨vscale (-GQ.I) x1, vscale GQ.I x0, rfl, by rw [vscale_length, h], by rw [vscale_length], ?_⟩
    intro b j; cases b <;> simp [actP, vscale_getD', ipow_one, ipow_three]
  · refine ⟨x0, vneg x1, rfl, rfl, by rw [vneg_length, h], ?_⟩
    intro b j; cases b <;> simp [actP, vneg_getD', ipow_zero, gq_one_mul]

/-! ### the halving recursion computes the action of the Pauli string -/

theorem exists_up (t : List (Nat × Nat)) (h : ∀ f ∈ t, 1 ≤ f.1) : ∃ t', t = up t' := by
  refine ⟨t.map fun f => (f.1 - 1, f.2), ?_⟩
  simp only [up, List.map_map]
  have : ∀ f ∈ t, ((fun f : Nat × Nat => (f.1 + 1, f.2)) ∘ fun f => (f.1 - 1, f.2)) f = f := by
    intro f hf
    have := h f hf
    simp only [Function.comp]
    have e : f.1 - 1 + 1 = f.1 := by omega
    rw [e]
  rw [List.map_congr_left this]; simp

theorem up_props (t' : List (Nat × Nat)) (n : Nat)
    (hp : (up t').Pairwise (fun f g => f.1 < g.1)) (hv : ∀ f ∈ up t', f.1 < n + 1 ∧ 1 ≤ f.2 ∧ f.2 ≤ 3) :
    t'.Pairwise (fun f g => f.1 < g.1) ∧ ∀ f ∈ t', f.1 < n ∧ 1 ≤ f.2 ∧ f.2 ≤ 3 := by
  constructor
  · simp only [up, List.pairwise_map] at hp
    exact hp.imp (fun h => by omega)
  · intro f hf
    have := hv (f.1 + 1, f.2) (List.mem_map.mpr ⟨f, hf, rfl⟩)
    simp only at this
    omega

theorem beIndex_succ (n s : Nat) : beIndex (n + 1) s = (if s.testBit 0 then 2 ^ n else 0) + beIndex n (s / 2) := rfl

/-- a Pauli on qubit 0 only reads and changes bit 0 -/
theorem actP_zero_bit (p w : Nat) (hp : 1 ≤ p ∧ p ≤ 3) :
    (actP 0 p w).1 = (actP 0 p (if w.testBit 0 then 1 else 0)).1 ∧
    (actP 0 p w).2.testBit 0 = (actP 0 p (if w.testBit 0 then 1 else 0)).2.testBit 0 ∧
    (actP 0 p w).2 / 2 = w / 2 := by
  have hb0 : (if w.testBit 0 then 1 else 0 : Nat).testBit 0 = w.testBit 0 := by
    cases w.testBit 0 <;> decide
  have hxor : (w ^^^ 1 <<< 0) / 2 = w / 2 := by
    have := xor_div_two_pow w (1 <<< 0) 1
    simpa using this
  have hp3 : p = 1 ∨ p = 2 ∨ p = 3 := by omega
  rcases hp3 with rfl | rfl | rfl
  · simp only [actP]
    exact ⟨trivial, by rw [testBit_xflip, testBit_xflip, hb0], hxor⟩
  · simp only [actP, hb0]
    exact ⟨trivial, by rw [testBit_xflip, testBit_xflip, hb0], hxor⟩
  · simp only [actP, hb0]
    exact ⟨trivial, trivial, trivial⟩

/-- **`matvec_sound`, one term**: for a Pauli string on qubits `< n` and a vector of length `2^n`,
the halving recursion returns a vector of the same length whose entry at the image
`beIndex n s'` of each basis state `s` (`t|s⟩ = i^k |s'⟩`) is `i^k · x[beIndex n s]` -/
theorem matvecTerm_sound (n : Nat) : ∀ (t : List (Nat × Nat)) (x : Vec),
    t.Pairwise (fun f g => f.1 < g.1) → (∀ f ∈ t, f.1 < n ∧ 1 ≤ f.2 ∧ f.2 ≤ 3) → x.length = 2 ^ n →
    (matvecTerm t x).length = 2 ^ n ∧
    ∀ s, (matvecTerm t x).getD (beIndex n (actPTerm t s).2) 0 =
      GQ.ipow (actPTerm t s).1 * x.getD (beIndex n s) 0 := by
  induction n with
  | zero =>
    intro t x _ hv hx
    cases t with
    | nil =>
      refine ⟨by simpa [matvecTerm_eq, mvFold_nil] using hx, fun s => ?_⟩
      simp [matvecTerm_eq, mvFold_nil, actPTerm, ipow_zero, gq_one_mul]
    | cons f r => have := hv f (by simp); omega
  | succ n ih =>
    intro t x hp hv hx
    -- the two halves
    have hx0 : (x.take (2 ^ n)).length = 2 ^ n := by rw [List.length_take, hx, Nat.pow_succ]; omega
    have hx1 : (x.drop (2 ^ n)).length = 2 ^ n := by rw [List.length_drop, hx, Nat.pow_succ]; omega
    have hxx : x = x.take (2 ^ n) ++ x.drop (2 ^ n) := (List.take_append_drop _ _).symm
    generalize x.take (2 ^ n) = x0 at hx0 hxx
    generalize x.drop (2 ^ n) = x1 at hx1 hxx
    subst hxx
    -- reading the input at a big-endian index
    have hread : ∀ s, (x0 ++ x1).getD (beIndex (n + 1) s) 0 =
        (if s.testBit 0 then x1 else x0).getD (beIndex n (s / 2)) 0 := by
      intro s
      rw [beIndex_succ]
      by_cases hb : s.testBit 0
      · simp only [hb, if_true]; rw [← hx0]; exact getD_append_right _ _ _ _
      · simp only [hb, Bool.false_eq_true, if_false, Nat.zero_add]
        exact getD_append_left _ _ _ _ (by rw [hx0]; exact beIndex_lt _ _)
    by_cases h0 : ∀ f ∈ t, 1 ≤ f.1
    · -- qubit 0 untouched
      obtain ⟨t', rfl⟩ := exists_up t h0
      obtain ⟨hp', hv'⟩ := up_props t' n hp hv
      rw [matvecTerm_up t' n x0 x1 hx0 hx1 (fun f hf => Nat.le_of_lt (hv' f hf).1)]
      obtain ⟨l0, s0⟩ := ih t' x0 hp' hv' hx0
      obtain ⟨l1, s1⟩ := ih t' x1 hp' hv' hx1
      refine ⟨by rw [List.length_append, l0, l1, Nat.pow_succ]; omega, fun s => ?_⟩
      obtain ⟨u1, u2, u3⟩ := actPTerm_up t' s
      rw [hread, beIndex_succ, testBit_zero_of_mod _ _ u3, u2, u1]
      by_cases hb : s.testBit 0
      · simp only [hb, if_true]; rw [← l0, getD_append_right, s1]
      · simp only [hb, Bool.false_eq_true, if_false, Nat.zero_add]
        rw [getD_append_left _ _ _ _ (by rw [l0]; exact beIndex_lt _ _), s0]
    · -- the first factor acts on qubit 0
      cases t with
      | nil => exact absurd (fun f hf => by cases hf) h0
      | cons f r =>
        have hpc := List.pairwise_cons.mp hp
        have hf0 : f.1 = 0 := by
          apply Classical.byContradiction
          intro hne
          apply h0
          intro g hg
          rcases List.mem_cons.mp hg with rfl | hg
          · omega
          · have := hpc.1 g hg; omega
        obtain ⟨q, p⟩ := f
        simp only at hf0
        subst hf0
        have hfv := hv (0, p) (by simp)
        obtain ⟨r', rfl⟩ := exists_up r (fun g hg => by have := hpc.1 g hg; simp at this; omega)
        obtain ⟨hp', hv'⟩ := up_props r' n hpc.2 (fun g hg => hv g (by simp [hg]))
        rw [matvecTerm_zero p r' x0 x1 (by rw [hx0, hx1])]
        obtain ⟨y0, y1, hy, ly0, ly1, hxyz⟩ := xyz_spec p ⟨hfv.2.1, hfv.2.2⟩ x0 x1 (by rw [hx0, hx1])
        rw [hy]
        simp only [List.map_cons, List.map_nil, List.flatten_cons, List.flatten_nil, List.append_nil]
        obtain ⟨l0, s0⟩ := ih r' y0 hp' hv' (by rw [ly0, hx0])
        obtain ⟨l1, s1⟩ := ih r' y1 hp' hv' (by rw [ly1, hx0])
        refine ⟨by rw [List.length_append, l0, l1, Nat.pow_succ]; omega, fun s => ?_⟩
        obtain ⟨u1, u2, u3⟩ := actPTerm_up r' s
        -- the action: first the tail (qubits ≥ 1), then the factor on qubit 0
        have hact : actPTerm ((0, p) :: up r') s =
            (((actPTerm (up r') s).1 + (actP 0 p (actPTerm (up r') s).2).1) % 4,
             (actP 0 p (actPTerm (up r') s).2).2) := by
          rw [actPTerm_cons]; rfl
        -- on qubit 0 only bit 0 matters
        have hbit : (actPTerm (up r') s).2.testBit 0 = s.testBit 0 := testBit_zero_of_mod _ _ u3
        obtain ⟨c1, c2, c3⟩ := actP_zero_bit p (actPTerm (up r') s).2 ⟨hfv.2.1, hfv.2.2⟩
        rw [hbit] at c1 c2
        rw [hact, hread, beIndex_succ]
        simp only
        rw [c2, c3, u2, ipow_add, c1, u1]
        have hx := hxyz (s.testBit 0) (beIndex n (s / 2))
        by_cases hb' : (actP 0 p (if s.testBit 0 = true then 1 else 0)).2.testBit 0
        · simp only [hb', if_true] at hx ⊢
          rw [← l0, getD_append_right, s1, hx, gq_mul_assoc]
        · simp only [hb', Bool.false_eq_true, if_false, Nat.zero_add] at hx ⊢
          rw [getD_append_left _ _ _ _ (by rw [l0]; exact beIndex_lt _ _), s0, hx, gq_mul_assoc]

/-! ### linearity over the terms -/

theorem vadd_getD : ∀ (a b : Vec), a.length = b.length → ∀ i,
    (vadd a b).length = a.length ∧ (vadd a b).getD i 0 = a.getD i 0 + b.getD i 0
  | [], [], _, i => by simp [vadd, gq_add_zero]
  | [], _ :: _, h, _ => by simp at h
  | _ :: _, [], h, _ => by simp at h
  | x :: r, y :: s, h, i => by
    have hl : r.length = s.length := by simpa using h
    cases i with
    | zero => simp [vadd, (vadd_getD r s hl 0).1]
    | succ i =>
      have := vadd_getD r s hl i
      simp only [vadd, List.length_cons, this.1, List.getD_cons_succ, this.2, and_self]

theorem matvec_fold (n : Nat) (x : Vec) (hx : x.length = 2 ^ n) (a : Op)
    (ha : ∀ e ∈ a, e.1.Pairwise (fun f g => f.1 < g.1) ∧ ∀ f ∈ e.1, f.1 < n ∧ 1 ≤ f.2 ∧ f.2 ≤ 3) :
    ∀ (ret : Vec), ret.length = 2 ^ n → ∀ i,
    (a.foldl (fun ret (e : Term × GQ) => vadd ret (vscale e.2 (matvecTerm e.1 x))) ret).length = 2 ^ n ∧
    (a.foldl (fun ret (e : Term × GQ) => vadd ret (vscale e.2 (matvecTerm e.1 x))) ret).getD i 0 =
      a.foldl (fun acc (e : Term × GQ) => acc + e.2 * (matvecTerm e.1 x).getD i 0) (ret.getD i 0) := by
  induction a with
  | nil => intro ret hr i; exact ⟨hr, rfl⟩
  | cons e a ih =>
    intro ret hr i
    have he := ha e (by simp)
    have hlen := (matvecTerm_sound n e.1 x he.1 he.2 hx).1
    have hv := vadd_getD ret (vscale e.2 (matvecTerm e.1 x)) (by rw [vscale_length, hlen, hr])
    simp only [List.foldl_cons]
    have := ih (fun e' he' => ha e' (by simp [he'])) (vadd ret (vscale e.2 (matvecTerm e.1 x)))
      (by rw [(hv 0).1, hr]) i
    rw [this.2, (hv i).2, vscale_getD]
    exact ⟨this.1, rfl⟩

/-! ### `get_linear_qubit_operator_diagonal`: the same recursion on the all-ones vector -/

/-- one factor of the loop of `get_linear_qubit_operator_diagonal` -/
def diagStep (acc : Option (List Vec × Nat)) (f : Nat × Nat) : Option (List Vec × Nat) :=
  match acc with
  | none => none
  | some (vs, tf) => if f.2 = 1 ∨ f.2 = 2 then none else some (mvStep (f.1, 3) tf vs, f.1 + 1)

theorem diagTerm_eq (n : Nat) (t : List (Nat × Nat)) :
    diagTerm n t = (t.foldl diagStep (some ([List.replicate (2 ^ n) 1], 0))).map fun s => s.1.flatten := rfl

theorem diagFold_none (t : List (Nat × Nat)) : t.foldl diagStep none = none := by
  induction t with
  | nil => rfl
  | cons f t ih => simpa [diagStep] using ih

/-- only `Z` factors: the loop coincides with the `_matvec` loop -/
theorem diagFold_allZ (t : List (Nat × Nat)) (h : ∀ f ∈ t, f.2 = 3) : ∀ (vs : List Vec) (tf : Nat),
    ∃ tf', t.foldl diagStep (some (vs, tf)) = some (mvFold t vs tf, tf') := by
  induction t with
  | nil => intro vs tf; exact ⟨tf, rfl⟩
  | cons f t ih =>
    intro vs tf
    have h3 := h f (by simp)
    have hne : ¬ (f.2 = 1 ∨ f.2 = 2) := by omega
    have hf : (f.1, 3) = f := by rw [← h3]
    simp only [List.foldl_cons, diagStep, hne, if_false, hf]
    rw [mvFold_cons]
    exact ih (fun g hg => h g (by simp [hg])) _ _

/-- an `X` or `Y` factor: the term is skipped -/
theorem diagFold_xy (t : List (Nat × Nat)) (h : ∃ f ∈ t, f.2 = 1 ∨ f.2 = 2) : ∀ (acc : Option (List Vec × Nat)),
    t.foldl diagStep acc = none := by
  induction t with
  | nil => obtain ⟨f, hf, _⟩ := h; cases hf
  | cons g t ih =>
    intro acc
    simp only [List.foldl_cons]
    by_cases hg : g.2 = 1 ∨ g.2 = 2
    · cases acc with
      | none => exact diagFold_none t
      | some st => simp only [diagStep, hg, if_true]; exact diagFold_none t
    · obtain ⟨f, hf, hxy⟩ := h
      rcases List.mem_cons.mp hf with rfl | hf'
      · exact absurd hxy hg
      · exact ih ⟨f, hf', hxy⟩ _

/-- for a term of `Z` factors only, `diagTerm` is the `_matvec` recursion on the all-ones vector -/
theorem diagTerm_of_allZ (n : Nat) (t : List (Nat × Nat)) (h : ∀ f ∈ t, f.2 = 3) :
    diagTerm n t = some (matvecTerm t (List.replicate (2 ^ n) 1)) := by
  obtain ⟨tf', he⟩ := diagFold_allZ t h [List.replicate (2 ^ n) 1] 0
  rw [diagTerm_eq, he]
  rfl

/-- a term containing `X` or `Y` does not contribute to the diagonal -/
theorem diagTerm_of_xy (n : Nat) (t : List (Nat × Nat)) (h : ∃ f ∈ t, f.2 = 1 ∨ f.2 = 2) :
    diagTerm n t = none := by
  rw [diagTerm_eq, diagFold_xy t h]
  rfl

/-- a product of `Z`s is diagonal in the computational basis -/
theorem actPTerm_allZ (t : List (Nat × Nat)) (h : ∀ f ∈ t, f.2 = 3) (s : Nat) : (actPTerm t s).2 = s := by
  induction t with
  | nil => rfl
  | cons f t ih =>
    rw [actPTerm_cons]
    simp only [pcomp, pfac, h f (by simp), actP]
    exact ih (fun g hg => h g (by simp [hg]))

/-! ### the parallel operator: the sum over the groups is the whole operator -/

/-- `Σ_{(t, c) ∈ a} c · (t x)[i]` -/
def termSum (x : Vec) (i : Nat) (a : Op) (init : GQ) : GQ :=
  a.foldl (fun acc (e : Term × GQ) => acc + e.2 * (matvecTerm e.1 x).getD i 0) init

theorem termSum_init (x : Vec) (i : Nat) (a : Op) (c : GQ) : termSum x i a c = c + termSum x i a 0 := by
  induction a generalizing c with
  | nil => simp [termSum, gq_add_zero]
  | cons e a ih =>
    simp only [termSum, List.foldl_cons] at ih ⊢
    rw [ih (c + _), ih (0 + _), gq_zero_add, gq_add_assoc]

theorem termSum_flatten (x : Vec) (i : Nat) (gs : List Op) :
    termSum x i gs.flatten 0 = gs.foldl (fun acc g => acc + termSum x i g 0) 0 := by
  have gen : ∀ (c : GQ), termSum x i gs.flatten c = gs.foldl (fun acc g => acc + termSum x i g 0) c := by
    induction gs with
    | nil => intro c; rfl
    | cons g gs ih =>
      intro c
      simp only [List.flatten_cons, List.foldl_cons]
      have : termSum x i (g ++ gs.flatten) c = termSum x i gs.flatten (termSum x i g c) := by
        simp [termSum, List.foldl_append]
      rw [this, ih, termSum_init x i g c]
  exact gen 0

theorem map_getD_range {α : Type} (l : List α) (d : α) : (List.range l.length).map (fun i => l.getD i d) = l := by
  apply List.ext_getElem
  · simp
  · intro i h1 h2
    simp [List.getD_eq_getElem?_getD, List.getElem?_eq_getElem h2]

theorem reduceAdd_getD (N : Nat) (zero : Vec) (i : Nat) (hz : zero.getD i 0 = 0) (L : List Vec)
    (hL : ∀ v ∈ L, v.length = N) :
    (reduceAdd zero L).getD i 0 = L.foldl (fun acc v => acc + v.getD i 0) 0 := by
  cases L with
  | nil => simpa [reduceAdd] using hz
  | cons r rest =>
    simp only [reduceAdd, List.foldl_cons, gq_zero_add]
    have gen : ∀ (rest : List Vec) (r : Vec), r.length = N → (∀ v ∈ rest, v.length = N) →
        (rest.foldl vadd r).getD i 0 = rest.foldl (fun acc v => acc + v.getD i 0) (r.getD i 0) := by
      intro rest
      induction rest with
      | nil => intro r _ _; rfl
      | cons v rest ih =>
        intro r hr hrest
        have hv := hrest v (by simp)
        have := vadd_getD r v (by rw [hr, hv]) i
        simp only [List.foldl_cons]
        rw [ih (vadd r v) (by rw [this.1, hr]) (fun w hw => hrest w (by simp [hw])), this.2]
    exact gen rest r (hL r (by simp)) (fun v hv => hL v (by simp [hv]))

/-- with the group results delivered in the natural order, every entry of the parallel result is
the entry of the undivided `_matvec` -/
theorem parallel_eq_matvec (n k : Nat) (a : Op) (x : Vec) (hx : x.length = 2 ^ n)
    (ha : ∀ e ∈ a, e.1.Pairwise (fun f g => f.1 < g.1) ∧ ∀ f ∈ e.1, f.1 < n ∧ 1 ≤ f.2 ∧ f.2 ≤ 3) (i : Nat) :
    (parallelMatvec k a x (List.range (operatorGroups k a).length)).getD i 0 = (matvec a x).getD i 0 := by
  have hflat := operatorGroups_flatten k a
  have hg : ∀ g ∈ operatorGroups k a, ∀ e ∈ g,
      e.1.Pairwise (fun f g => f.1 < g.1) ∧ ∀ f ∈ e.1, f.1 < n ∧ 1 ≤ f.2 ∧ f.2 ≤ 3 := by
    intro g hg e he
    apply ha
    rw [← hflat]
    exact List.mem_flatten.mpr ⟨g, hg, he⟩
  have hz : (x.map fun _ => (0 : GQ)).getD i 0 = 0 := by
    simp only [List.getD_eq_getElem?_getD, List.getElem?_map]
    cases x[i]? <;> rfl
  have hmv : ∀ (b : Op), (∀ e ∈ b, e.1.Pairwise (fun f g => f.1 < g.1) ∧ ∀ f ∈ e.1, f.1 < n ∧ 1 ≤ f.2 ∧ f.2 ≤ 3) →
      (matvec b x).length = 2 ^ n ∧ (matvec b x).getD i 0 = termSum x i b 0 := by
    intro b hb
    have h := matvec_fold n x hx b hb (x.map fun _ => 0) (by simp [hx]) i
    rw [hz] at h
    exact h
  unfold parallelMatvec
  have hlen : (List.map (fun g => matvec g x) (operatorGroups k a)).length = (operatorGroups k a).length := by simp
  rw [← hlen, map_getD_range]
  rw [reduceAdd_getD (2 ^ n) _ i hz _ (by
    intro v hv
    obtain ⟨g, hgm, rfl⟩ := List.mem_map.mp hv
    exact (hmv g (hg g hgm)).1)]
  rw [(hmv a ha).2, ← hflat, termSum_flatten, hflat, List.foldl_map]
  -- both sides are folds over the groups; the summands agree group by group
  have : ∀ (gs : List Op) (c : GQ), (∀ g ∈ gs, g ∈ operatorGroups k a) →
      gs.foldl (fun acc g => acc + (matvec g x).getD i 0) c = gs.foldl (fun acc g => acc + termSum x i g 0) c := by
    intro gs
    induction gs with
    | nil => intro c _; rfl
    | cons g gs ih =>
      intro c hm
      simp only [List.foldl_cons]
      rw [(hmv g (hg g (hm g (by simp)))).2]
      exact ih _ (fun g' hg' => hm g' (by simp [hg']))
  exact this _ 0 (fun g hg => hg)

/-! ### the diagonal summed over the terms -/

/-- a qubit no factor acts on keeps its bit -/
theorem actPTerm_untouched (t : List (Nat × Nat)) (q s : Nat) (h : ∀ f ∈ t, f.1 ≠ q) :
    (actPTerm t s).2.testBit q = s.testBit q := by
  induction t with
  | nil => rfl
  | cons g t ih =>
    have hg := h g (by simp)
    rw [actPTerm_cons]
    simp only [pcomp, pfac]
    have hrest := ih (fun f hf => h f (by simp [hf]))
    have hp : g.2 = 1 ∨ g.2 = 2 ∨ g.2 = 3 ∨ (g.2 ≠ 1 ∧ g.2 ≠ 2 ∧ g.2 ≠ 3) := by omega
    rcases hp with h1 | h1 | h1 | ⟨h1, h2, h3⟩
    · simp only [actP, h1]; rw [testBit_xflip_ne _ _ _ hg, hrest]
    · simp only [actP, h1]; rw [testBit_xflip_ne _ _ _ hg, hrest]
    · simp only [actP, h1]; exact hrest
    · rw [OFV.Proofs.C07.actP_other _ _ _ h1 h2 h3]; exact hrest

/-- a Pauli string containing `X` or `Y` (on distinct qubits) moves every basis state -/
theorem actPTerm_moves (t : List (Nat × Nat)) (hp : t.Pairwise (fun f g => f.1 < g.1))
    (h : ∃ f ∈ t, f.2 = 1 ∨ f.2 = 2) (s : Nat) : (actPTerm t s).2 ≠ s := by
  obtain ⟨f, hf, hxy⟩ := h
  suffices hb : (actPTerm t s).2.testBit f.1 = !s.testBit f.1 by
    intro he; rw [he] at hb; cases hs : s.testBit f.1 <;> simp [hs] at hb
  induction t with
  | nil => cases hf
  | cons g t ih =>
    have hpc := List.pairwise_cons.mp hp
    rw [actPTerm_cons]
    simp only [pcomp, pfac]
    rcases List.mem_cons.mp hf with rfl | hf'
    · have hun := actPTerm_untouched t f.1 s (fun g hg => by have := hpc.1 g hg; omega)
      rcases hxy with h1 | h1 <;> simp only [actP, h1] <;> rw [testBit_xflip, hun]
    · have hne : g.1 ≠ f.1 := by have := hpc.1 f hf'; omega
      have hrest := ih hpc.2 hf'
      have hp4 : g.2 = 1 ∨ g.2 = 2 ∨ g.2 = 3 ∨ (g.2 ≠ 1 ∧ g.2 ≠ 2 ∧ g.2 ≠ 3) := by omega
      rcases hp4 with h1 | h1 | h1 | ⟨h1, h2, h3⟩
      · simp only [actP, h1]; rw [testBit_xflip_ne _ _ _ hne, hrest]
      · simp only [actP, h1]; rw [testBit_xflip_ne _ _ _ hne, hrest]
      · simp only [actP, h1]; exact hrest
      · rw [OFV.Proofs.C07.actP_other _ _ _ h1 h2 h3]; exact hrest

open OFV.Spec.C07 (ampP) in
/-- the loop of `get_linear_qubit_operator_diagonal` over the terms: entry `beIndex n s` is the sum of
`c · ⟨s| t |s⟩` -/
theorem diag_fold (n : Nat) (a : Op)
    (ha : ∀ e ∈ a, e.1.Pairwise (fun f g => f.1 < g.1) ∧ ∀ f ∈ e.1, f.1 < n ∧ 1 ≤ f.2 ∧ f.2 ≤ 3) (s : Nat) (hs : s < 2 ^ n) :
    ∀ (d : Vec), d.length = 2 ^ n →
    (a.foldl (fun d (e : Term × GQ) =>
      match diagTerm n e.1 with
      | none => d
      | some v => vadd d (vscale e.2 v)) d).length = 2 ^ n ∧
    (a.foldl (fun d (e : Term × GQ) =>
      match diagTerm n e.1 with
      | none => d
      | some v => vadd d (vscale e.2 v)) d).getD (beIndex n s) 0 =
      a.foldl (fun acc (e : Term × GQ) => acc + e.2 * ampP e.1 s s) (d.getD (beIndex n s) 0) := by
  induction a with
  | nil => intro d hd; exact ⟨hd, rfl⟩
  | cons e a ih =>
    intro d hd
    have he := ha e (by simp)
    have iha := ih (fun e' he' => ha e' (by simp [he']))
    simp only [List.foldl_cons]
    by_cases hz : ∀ f ∈ e.1, f.2 = 3
    · -- a Z-only term
      have hv : ∀ f ∈ e.1, f.1 < n ∧ 1 ≤ f.2 ∧ f.2 ≤ 3 := he.2
      obtain ⟨hl, hsnd⟩ := matvecTerm_sound n e.1 (List.replicate (2 ^ n) 1) he.1 hv (by simp)
      rw [diagTerm_of_allZ n e.1 hz]
      simp only
      have hva := vadd_getD d (vscale e.2 (matvecTerm e.1 (List.replicate (2 ^ n) 1)))
        (by rw [vscale_length, hl, hd])
      obtain ⟨r1, r2⟩ := iha (vadd d (vscale e.2 (matvecTerm e.1 (List.replicate (2 ^ n) 1))))
        (by rw [(hva 0).1, hd])
      refine ⟨r1, ?_⟩
      rw [r2, (hva (beIndex n s)).2, vscale_getD]
      have hdiag := actPTerm_allZ e.1 hz s
      have h1 := hsnd s
      rw [hdiag] at h1
      have hone : (List.replicate (2 ^ n) (1 : GQ)).getD (beIndex n s) 0 = 1 := by
        simp [List.getD_eq_getElem?_getD, List.getElem?_replicate, beIndex_lt n s]
      rw [h1, hone, gq_mul_one]
      simp only [ampP, hdiag, if_true]
    · -- a term with X or Y
      have hxy : ∃ f ∈ e.1, f.2 = 1 ∨ f.2 = 2 := by
        apply Classical.byContradiction
        intro hno
        apply hz
        intro f hf
        have := he.2 f hf
        have h12 : ¬ (f.2 = 1 ∨ f.2 = 2) := fun h => hno ⟨f, hf, h⟩
        omega
      rw [diagTerm_of_xy n e.1 hxy]
      simp only
      obtain ⟨r1, r2⟩ := iha d hd
      refine ⟨r1, ?_⟩
      rw [r2]
      have hmv := actPTerm_moves e.1 he.1 hxy s
      simp only [ampP, hmv, if_false, gq_mul_zero, gq_add_zero]

end C06
end Proofs
end OFV
