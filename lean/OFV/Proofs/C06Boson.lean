/-
C06 — truncated bosonic matrices: the Model keeps the amplitude of a ladder word on a Fock state
as `√R` (`R` a natural number) and the occupation numbers as big-endian digits.  This file relates it
to the polynomial (Bargmann) representation of the Spec (`b† = x·`, `b = ∂`, integer coefficient `K`):
whenever the truncated word does not hit the cut-off, the Spec word is defined, reaches the same
occupation numbers, and `K² · Π n_out! = R · Π n_in!` — i.e. the Model entry is the Spec coefficient
conjugated by `diag(√n!)`, stated without square roots.  Core Lean only.
-/
import OFV.Proofs.SpecBoson
import OFV.Model.C06

namespace OFV
namespace Proofs
namespace C06B
open OFV.Spec OFV.Model OFV.Model.C06

def fct : Nat → Nat
  | 0 => 1
  | n + 1 => (n + 1) * fct n

/-- `Π n_i!` over the occupation numbers -/
def wfact : List Nat → Nat
  | [] => 1
  | d :: r => fct d * wfact r

/-- one ladder operator of the truncated word on (digits, R) -/
def bstep (trunc : Nat) (f : Nat × Nat) (acc : Option (List Nat × Nat)) : Option (List Nat × Nat) :=
  match acc with
  | none => none
  | some (ds, R) =>
    if f.2 != 0 then
      if ds.getD f.1 0 + 1 < trunc then some (ds.set f.1 (ds.getD f.1 0 + 1), R * (ds.getD f.1 0 + 1)) else none
    else
      if ds.getD f.1 0 = 0 then none else some (ds.set f.1 (ds.getD f.1 0 - 1), R * ds.getD f.1 0)

theorem bosonTermColumn_eq (trunc nModes : Nat) (t : List (Nat × Nat)) (col : Nat) :
    bosonTermColumn trunc nModes t col =
      (t.foldr (bstep trunc) (some (digitsOf trunc nModes col, 1))).map fun s => (indexOf trunc s.1, s.2) := rfl

theorem wfact_set_succ : ∀ (ds : List Nat) (j : Nat), j < ds.length →
    wfact (ds.set j (ds.getD j 0 + 1)) = wfact ds * (ds.getD j 0 + 1)
  | [], j, h => by simp at h
  | d :: r, 0, _ => by
    simp only [List.set_cons_zero, wfact, List.getD_cons_zero, fct]
    rw [Nat.mul_comm (d + 1), Nat.mul_assoc, Nat.mul_comm (d + 1), ← Nat.mul_assoc]
  | d :: r, j + 1, h => by
    have := wfact_set_succ r j (by simpa using h)
    simp only [List.set_cons_succ, wfact, List.getD_cons_succ, this, Nat.mul_assoc]

theorem wfact_set_pred : ∀ (ds : List Nat) (j : Nat), j < ds.length → ds.getD j 0 ≠ 0 →
    wfact (ds.set j (ds.getD j 0 - 1)) * ds.getD j 0 = wfact ds
  | [], j, h, _ => by simp at h
  | d :: r, 0, _, hk => by
    simp only [List.getD_cons_zero] at hk
    obtain ⟨d', rfl⟩ : ∃ d', d = d' + 1 := ⟨d - 1, by omega⟩
    simp only [List.set_cons_zero, wfact, List.getD_cons_zero, Nat.add_sub_cancel, fct]
    rw [Nat.mul_comm (d' + 1) (fct d'), Nat.mul_assoc, Nat.mul_comm (wfact r), ← Nat.mul_assoc]
  | d :: r, j + 1, h, hk => by
    have := wfact_set_pred r j (by simpa using h) (by simpa using hk)
    simp only [List.set_cons_succ, wfact, List.getD_cons_succ, Nat.mul_assoc, this]

theorem getD_set_eq (ds : List Nat) (j v m : Nat) (hj : j < ds.length) :
    (ds.set j v).getD m 0 = if m = j then v else ds.getD m 0 := by
  simp only [List.getD_eq_getElem?_getD, List.getElem?_set]
  by_cases h : j = m
  · subst h; simp [hj]
  · have : ¬ m = j := fun e => h e.symm
    simp [h, this]

theorem ofInt_mul (a b : Int) : GQ.ofInt a * GQ.ofInt b = GQ.ofInt (a * b) := by
  apply GQ.ext <;> simp [GQ.ofInt, Rat.intCast_mul] <;> grind

theorem one_mul_ofInt (a : Int) : (1 : GQ) * GQ.ofInt a = GQ.ofInt a := by
  apply GQ.ext <;> simp [GQ.ofInt] <;> grind

theorem actTermWith_cons (act : Nat → Nat → Mono → Option (GQ × Mono)) (f : Nat × Nat) (t : List (Nat × Nat)) (e : Mono) :
    actTermWith act (f :: t) e =
      (match actTermWith act t e with
       | none => none
       | some (c, e') =>
         match act f.1 f.2 e' with
         | none => none
         | some (c', e'') => some (c' * c, e'')) := rfl

/-- **a truncated ladder word that does not hit the cut-off is the Spec word, up to `diag(√n!)`** -/
theorem boson_word_sound (trunc : Nat) (t : List (Nat × Nat)) (ds0 : List Nat) (e0 : Mono)
    (hagree : ∀ m, expGet e0 m = ds0.getD m 0)
    (ht : ∀ f ∈ t, f.1 < ds0.length ∧ f.2 ≤ 1) :
    ∀ ds R, t.foldr (bstep trunc) (some (ds0, 1)) = some (ds, R) →
      ∃ (K : Nat) (e : Mono), actTermWith actB t e0 = some (GQ.ofInt K, e) ∧
        (∀ m, expGet e m = ds.getD m 0) ∧ ds.length = ds0.length ∧
        K * K * wfact ds = R * wfact ds0 := by
  induction t with
  | nil =>
    intro ds R h
    simp only [List.foldr_nil, Option.some.injEq, Prod.mk.injEq] at h
    obtain ⟨rfl, rfl⟩ := h
    exact ⟨1, e0, rfl, hagree, rfl, by simp⟩
  | cons f t ih =>
    intro ds R h
    have hf := ht f (by simp)
    simp only [List.foldr_cons] at h
    cases hprev : t.foldr (bstep trunc) (some (ds0, 1)) with
    | none => simp [hprev, bstep] at h
    | some st =>
      obtain ⟨ds1, R1⟩ := st
      obtain ⟨K1, e1, hact, hag1, hlen1, hw1⟩ := ih (fun g hg => ht g (by simp [hg])) ds1 R1 hprev
      rw [hprev] at h
      have hj : f.1 < ds1.length := by rw [hlen1]; exact hf.1
      have hk : expGet e1 f.1 = ds1.getD f.1 0 := hag1 f.1
      rw [actTermWith_cons, hact]
      simp only [bstep] at h
      by_cases hcre : f.2 = 1
      · -- creation
        have hne : (f.2 != 0) = true := by simp [hcre]
        simp only [hne, if_true] at h
        split at h
        · simp only [Option.some.injEq, Prod.mk.injEq] at h
          obtain ⟨rfl, rfl⟩ := h
          refine ⟨K1, raiseX f.1 e1, ?_, ?_, ?_, ?_⟩
          · simp only [actB, hcre, beq_self_eq_true, if_true, one_mul_ofInt]
          · intro m
            rw [raiseX, expGet_expSet, getD_set_eq _ _ _ _ hj, hk]
            split
            · rfl
            · exact hag1 m
          · simp [hlen1]
          · rw [wfact_set_succ ds1 f.1 hj, ← Nat.mul_assoc, hw1]
            rw [Nat.mul_assoc, Nat.mul_comm (wfact ds0), ← Nat.mul_assoc]
        · cases h
      · -- annihilation
        have h0 : f.2 = 0 := by have := hf.2; omega
        have hne : (f.2 != 0) = false := by simp [h0]
        simp only [hne, Bool.false_eq_true, if_false] at h
        split at h
        · cases h
        · rename_i hk0
          simp only [Option.some.injEq, Prod.mk.injEq] at h
          obtain ⟨rfl, rfl⟩ := h
          refine ⟨ds1.getD f.1 0 * K1, expSet e1 f.1 (ds1.getD f.1 0 - 1), ?_, ?_, ?_, ?_⟩
          · have hb : (f.2 == 1) = false := by simp [h0]
            simp only [actB, hb, Bool.false_eq_true, if_false, lowerX, hk, hk0]
            simp only [ofInt_mul]
            congr 2
          · intro m
            rw [expGet_expSet, getD_set_eq _ _ _ _ hj]
            split
            · rfl
            · exact hag1 m
          · simp [hlen1]
          · have hw := wfact_set_pred ds1 f.1 hj hk0
            -- (k K1)^2 W' = R1 k W0, with W' k = W1 and K1^2 W1 = R1 W0
            have : ds1.getD f.1 0 * K1 * (ds1.getD f.1 0 * K1) * wfact (ds1.set f.1 (ds1.getD f.1 0 - 1)) =
                ds1.getD f.1 0 * (K1 * K1 * (wfact (ds1.set f.1 (ds1.getD f.1 0 - 1)) * ds1.getD f.1 0)) := by
              simp only [Nat.mul_assoc, Nat.mul_comm, Nat.mul_left_comm]
            rw [this, hw, hw1]
            simp only [Nat.mul_assoc, Nat.mul_comm, Nat.mul_left_comm]

end C06B
end Proofs
end OFV
