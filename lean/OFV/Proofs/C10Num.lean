/- C10: the number operator is diagonal with eigenvalue popcount (Spec action of the Model operator). -/
import OFV.Proofs.C10Bits
import Mathlib.Tactic.Ring
import Mathlib.Data.Rat.Defs

namespace OFV.C10
open OFV.Model OFV.Model.C10 OFV.Spec OFV.Spec.C10

/-! ### GQ arithmetic used here -/

theorem gq_add_zero (a : GQ) : a + 0 = a := GQ.ext (by simp) (by simp)
theorem gq_zero_add (a : GQ) : 0 + a = a := GQ.ext (by simp) (by simp)
theorem gq_add_assoc (a b c : GQ) : a + b + c = a + (b + c) := GQ.ext (by simp; ring) (by simp; ring)
theorem gq_mul_one (a : GQ) : a * 1 = a := GQ.ext (by simp) (by simp)

/-- `k · c` -/
def natMul (k : Nat) (c : GQ) : GQ := ⟨k * c.re, k * c.im⟩

theorem natMul_zero (c : GQ) : natMul 0 c = 0 := GQ.ext (by simp [natMul]) (by simp [natMul])
theorem natMul_succ (k : Nat) (c : GQ) : natMul (k + 1) c = natMul k c + c :=
  GQ.ext (by simp [natMul]; ring) (by simp [natMul]; ring)

/-! ### sparse vectors -/

theorem coeff_nil (t : Nat) : SV.coeff [] t = 0 := rfl

theorem coeff_cons (s' : Nat) (c' : GQ) (r : SV) (t : Nat) :
    SV.coeff ((s', c') :: r) t = if s' = t then c' else SV.coeff r t := by
  simp only [SV.coeff, Dict.getD, Dict.get?]
  split <;> simp

theorem coeff_addEntry (v : SV) (s : Nat) (c : GQ) (t : Nat) :
    SV.coeff (SV.addEntry v s c) t = if t = s then SV.coeff v s + c else SV.coeff v t := by
  induction v with
  | nil =>
    simp only [SV.addEntry, coeff_cons, coeff_nil]
    by_cases h : t = s
    · subst h; simp [gq_zero_add]
    · have : ¬ s = t := fun e => h e.symm
      simp [h, this]
  | cons e r ih =>
    obtain ⟨s', c'⟩ := e
    unfold SV.addEntry
    by_cases h1 : s' = s
    · subst h1
      simp only [if_true, coeff_cons]
      by_cases h2 : t = s'
      · subst h2; simp
      · have : ¬ s' = t := fun e => h2 e.symm
        simp [h2, this]
    · simp only [h1, if_false, coeff_cons, ih]
      by_cases h2 : t = s
      · subst h2; simp [h1]
      · simp [h2]

/-! ### n_m = a†_m a_m on a basis state -/

theorem countBelow_xflip (s m j : Nat) (h : j ≤ m) : countBelow (s ^^^ (1 <<< m)) j = countBelow s j := by
  unfold countBelow
  congr 1
  apply List.filter_congr
  intro k hk
  have : k < j := List.mem_range.mp hk
  rw [testBit_xflip_ne s m k (by omega)]

theorem actFTerm_number (m s : Nat) :
    actFTerm [(m, 1), (m, 0)] s = if s.testBit m then some (0, s) else none := by
  simp only [actFTerm, List.foldr_cons, List.foldr_nil]
  by_cases hb : s.testBit m
  · have h1 : actF m 0 s = some (countBelow s m % 2, s ^^^ (1 <<< m)) := by simp [actF, hb]
    have h2 : actF m 1 (s ^^^ (1 <<< m)) = some (countBelow s m % 2, s) := by
      simp [actF, testBit_xflip, hb, countBelow_xflip s m m (Nat.le_refl m), xflip_xflip]
    simp only [h1, h2, hb, if_true]
    congr 2
    omega
  · have h1 : actF m 0 s = none := by simp [actF, hb]
    simp [h1, hb]

/-- the terms `c · m^ m` for the listed modes -/
def numTerms (l : List Nat) (c : GQ) : Op := l.map fun m => ([(m, 1), (m, 0)], c)

def occCount (l : List Nat) (s : Nat) : Nat := (l.filter fun m => s.testBit m).length

theorem applyF_numTerms_go (l : List Nat) (c : GQ) (s : Nat) (acc : SV) (t : Nat) :
    SV.coeff ((numTerms l c).foldl (fun acc (tc : Term × GQ) => match actFTerm tc.1 s with
        | none => acc
        | some (k, s') => SV.addEntry acc s' (tc.2 * GQ.sgn k)) acc) t
      = if t = s then SV.coeff acc s + natMul (occCount l s) c else SV.coeff acc t := by
  induction l generalizing acc with
  | nil =>
    simp only [numTerms, List.map_nil, List.foldl_nil, occCount, List.filter_nil, List.length_nil, natMul_zero]
    by_cases h : t = s
    · subst h; simp [gq_add_zero]
    · simp [h]
  | cons m r ih =>
    simp only [numTerms, List.map_cons, List.foldl_cons] at ih ⊢
    rw [actFTerm_number]
    by_cases hb : s.testBit m
    · simp only [hb, if_true]
      rw [ih]
      have hc : occCount (m :: r) s = occCount r s + 1 := by simp [occCount, hb]
      have hs : c * GQ.sgn 0 = c := by
        have : GQ.sgn 0 = 1 := rfl
        rw [this, gq_mul_one]
      by_cases h : t = s
      · subst h
        simp only [if_true, coeff_addEntry, hc, natMul_succ, hs]
        rw [gq_add_assoc]
        congr 1
        exact GQ.ext (by simp; ring) (by simp; ring)
      · simp only [h, if_false, coeff_addEntry]
    · simp only [hb, Bool.false_eq_true, if_false]
      rw [ih]
      have hc : occCount (m :: r) s = occCount r s := by simp [occCount, hb]
      rw [hc]

theorem applyF_eq_fold (A : Op) (s : Nat) :
    applyF A s = A.foldl (fun acc (tc : Term × GQ) => match actFTerm tc.1 s with
        | none => acc
        | some (k, s') => SV.addEntry acc s' (tc.2 * GQ.sgn k)) [] := by
  unfold applyF
  congr 1

/-- `Σ_{m ∈ l} c n_m` is diagonal: `⟨t| · |s⟩ = (number of occupied listed modes) · c` for
`t = s`, `0` otherwise -/
theorem melF_numTerms (l : List Nat) (c : GQ) (s t : Nat) :
    melF (numTerms l c) t s = if t = s then natMul (occCount l s) c else 0 := by
  unfold melF
  rw [applyF_eq_fold, applyF_numTerms_go]
  by_cases h : t = s
  · simp [h, coeff_nil, gq_zero_add]
  · simp [h, coeff_nil]

theorem occCount_range (n s : Nat) : occCount (List.range n) s = countBelow s n := rfl

end OFV.C10

namespace OFV.C10
open OFV.Model OFV.Model.C10 OFV.Spec OFV.Spec.C10

/-! ### the Model's `number_operator(n)` is that list of terms -/

theorem dict_getD_not_mem (a : Op) (t : Term) (h : t ∉ a.map (·.1)) : Dict.getD a t 0 = 0 := by
  induction a with
  | nil => rfl
  | cons e r ih =>
    obtain ⟨k, v⟩ := e
    simp only [List.map_cons, List.mem_cons, not_or] at h
    simp only [Dict.getD, Dict.get?]
    rw [if_neg (fun e => h.1 e.symm)]
    exact ih h.2

theorem dict_set_not_mem (a : Op) (t : Term) (c : GQ) (h : t ∉ a.map (·.1)) : Dict.set a t c = a ++ [(t, c)] := by
  induction a with
  | nil => rfl
  | cons e r ih =>
    obtain ⟨k, v⟩ := e
    simp only [List.map_cons, List.mem_cons, not_or] at h
    simp only [Dict.set]
    rw [if_neg (fun e => h.1 e.symm), ih h.2]
    rfl

theorem iadd_single_new (tol : Rat) (a : Op) (t : Term) (c : GQ) (h : t ∉ a.map (·.1))
    (hc : GQ.isSmall tol c = false) : iadd tol a [(t, c)] = a ++ [(t, c)] := by
  simp only [iadd, List.foldl_cons, List.foldl_nil]
  rw [dict_getD_not_mem a t h, gq_zero_add, hc]
  simp only [Bool.false_eq_true, if_false]
  exact dict_set_not_mem a t c h

theorem numberOperator_eq (tol : Rat) (n : Nat) (c : GQ) (hc : GQ.isSmall tol c = false) :
    numberOperator tol n none c = numTerms (List.range n) c := by
  show (List.range n).foldl (fun acc m => iadd tol acc (mk .fermion [(m, 1), (m, 0)] c)) [] = _
  induction n with
  | zero => rfl
  | succ n ih =>
    rw [List.range_succ, List.foldl_append, ih]
    simp only [List.foldl_cons, List.foldl_nil, numTerms, List.map_append, List.map_cons, List.map_nil]
    have hmk : mk .fermion [(n, 1), (n, 0)] c = [([(n, 1), (n, 0)], c)] := by
      simp [mk, simplify, gq_mul_one]
    rw [hmk]
    apply iadd_single_new _ _ _ _ _ hc
    simp only [List.map_map, List.mem_map, List.mem_range, Function.comp, not_exists, not_and]
    intro m hm heq
    have : m = n := by
      have := (List.cons.inj heq).1
      exact (Prod.mk.inj this).1
    omega

end OFV.C10
