/-
C16 helper lemmas: a Pauli string with pairwise distinct qubit indices squares to the identity
(`evT p * evT p = 1`), stabilizer multiplication and Pauli rotation as ring identities in
`Module.End GQ (Nat →₀ GQ)`.
-/
import OFV.Proofs.C16End
import Mathlib.Tactic.NoncommRing
import Mathlib.Tactic.Module
import Mathlib.Tactic.LinearCombination

namespace OFV
namespace C16P
open Spec Model

local notation "Op" => Model.Op
local notation "Term" => Model.Term

theorem stepP_lt (f : Factor) (y : Nat × Nat) : (stepP f y).1 < 4 := by
  simp only [stepP]; omega

theorem foldr_stepP_lt (t : Term) (y : Nat × Nat) (hy : y.1 < 4) : (t.foldr stepP y).1 < 4 := by
  cases t with
  | nil => simpa using hy
  | cons f r => simp only [List.foldr_cons]; exact stepP_lt _ _

/-- a single Pauli (any code) applied twice is the identity -/
theorem stepP_sq (f : Factor) (y : Nat × Nat) (hy : y.1 < 4) : stepP f (stepP f y) = y := by
  obtain ⟨j, p⟩ := f
  obtain ⟨k, s⟩ := y
  have h1 := xflip_xflip s j
  have h2 := testBit_xflip s j
  simp only at hy
  have hp : p = 1 ∨ p = 2 ∨ p = 3 ∨ (p ≠ 1 ∧ p ≠ 2 ∧ p ≠ 3) := by omega
  rcases hp with rfl | rfl | rfl | ⟨a, b, c⟩
  · simp only [stepP, actP, h1, Nat.add_zero, Prod.mk.injEq, and_true]; omega
  · cases hb : s.testBit j <;> simp only [stepP, actP, h1, h2, hb, Prod.mk.injEq, and_true] <;> simp <;> omega
  · cases hb : s.testBit j <;> simp only [stepP, actP, hb, Prod.mk.injEq, and_true] <;> simp <;> omega
  · have ha : ∀ s', actP j p s' = (0, s') := by
      intro s'; unfold actP; split <;> simp_all
    simp only [stepP, ha, Nat.add_zero, Prod.mk.injEq, and_true]; omega

theorem foldr_stepP_comm (f : Factor) (t : Term) (h : ∀ g ∈ t, f.1 ≠ g.1) (z : Nat × Nat) :
    t.foldr stepP (stepP f z) = stepP f (t.foldr stepP z) := by
  induction t with
  | nil => rfl
  | cons g r ih =>
    simp only [List.foldr_cons]
    rw [ih (fun x hx => h x (by simp [hx])), stepP_comm g f _ (Ne.symm (h g (by simp)))]

theorem foldr_stepP_sq (p : Term) (hp : p.Pairwise (fun a b => a.1 ≠ b.1)) (y : Nat × Nat) (hy : y.1 < 4) :
    p.foldr stepP (p.foldr stepP y) = y := by
  induction p generalizing y with
  | nil => rfl
  | cons f t ih =>
    rw [List.pairwise_cons] at hp
    simp only [List.foldr_cons]
    rw [foldr_stepP_comm f t hp.1, ih hp.2 y hy, stepP_sq f y hy]

/-- a Pauli string on pairwise distinct qubits is an involution -/
theorem evT_sq (p : Term) (hp : p.Pairwise (fun a b => a.1 ≠ b.1)) : evT p * evT p = 1 := by
  apply end_ext
  intro m x
  have hsq := foldr_stepP_sq p hp (0, m) (by simp)
  have hfrom := foldr_stepP_from p (actPTerm p m)
  rw [← actPTerm_eq] at hsq
  rw [hsq] at hfrom
  simp only at hfrom
  have hk : GQ.ipow (actPTerm p m).1 * GQ.ipow (actPTerm p (actPTerm p m).2).1 = 1 := by
    rw [ipow_mul, ← ipow_mod, ← hfrom.2]; rfl
  rw [Module.End.mul_apply, evT_single, one_smul, imgQ, evT_single, imgQ, Finsupp.smul_single, smul_eq_mul,
    ← hfrom.1, hk]
  rfl

theorem evOp_pauli (p : Term) : evOp [(p, 1)] = evT p := by
  simp [evOp]

theorem I_sq : GQ.I * GQ.I = -1 := by apply GQ.ext <;> simp

/-- the algebra behind `rotate_qubit_by_pauli`: in any `GQ`-algebra, for `P² = 1`, `c² + s² = 1`,
`even + cos(2θ)·odd + i sin(2θ)·odd·P = (c - i s P) Q (c + i s P)` with `cos 2θ = c² - s²`,
`sin 2θ = 2cs`, `even/odd = (Q ± PQP)/2`. -/
theorem rot_identity {A : Type} [Ring A] [Algebra GQ A] (Q P : A) (hP : P * P = 1) (c s h : GQ)
    (hcs : c * c + s * s = 1) (hh : h + h = 1) :
    h • (Q + P * Q * P) + (c * c - s * s) • (h • (Q - P * Q * P))
        + ((GQ.I * (2 * c * s)) • (h • (Q - P * Q * P))) * P
      = (c • (1 : A) - (GQ.I * s) • P) * Q * (c • (1 : A) + (GQ.I * s) • P) := by
  have hPQPP : P * Q * P * P = P * Q := by rw [mul_assoc (P * Q), hP, mul_one]
  have e1 : h * (1 + (c * c - s * s)) = c * c := by linear_combination (-h) * hcs + (c * c) * hh
  have e2 : h * (1 - (c * c - s * s)) = s * s := by linear_combination (-h) * hcs + (s * s) * hh
  have e3 : (GQ.I * (2 * c * s)) * h = c * (GQ.I * s) := by linear_combination (GQ.I * c * s) * hh
  have e4 : (GQ.I * s) * (GQ.I * s) = -(s * s) := by linear_combination (s * s) * I_sq
  have hL : h • (Q + P * Q * P) + (c * c - s * s) • (h • (Q - P * Q * P))
        + ((GQ.I * (2 * c * s)) • (h • (Q - P * Q * P))) * P
      = (h * (1 + (c * c - s * s))) • Q + (h * (1 - (c * c - s * s))) • (P * Q * P)
        + ((GQ.I * (2 * c * s)) * h) • (Q * P) - ((GQ.I * (2 * c * s)) * h) • (P * Q) := by
    rw [smul_mul_assoc, smul_mul_assoc, sub_mul, hPQPP]; module
  have hR : (c • (1 : A) - (GQ.I * s) • P) * Q * (c • (1 : A) + (GQ.I * s) • P)
      = (c * c) • Q + (c * (GQ.I * s)) • (Q * P) - (c * (GQ.I * s)) • (P * Q)
        - ((GQ.I * s) * (GQ.I * s)) • (P * Q * P) := by
    simp only [sub_mul, mul_add, smul_mul_assoc, mul_smul_comm, one_mul, mul_one]
    module
  rw [hL, hR, e1, e2, e3, e4]
  module

/-! ### validity (Pauli codes `< 4`) of sums -/

theorem erase_valid {d : Op} (t : Term) (hd : Sem.ValidOp d) : Sem.ValidOp (Dict.erase d t) := by
  induction d with
  | nil => exact hd
  | cons e r ih =>
    obtain ⟨k, v⟩ := e
    have hr : Sem.ValidOp r := fun x hx => hd x (List.mem_cons_of_mem _ hx)
    simp only [Dict.erase]
    split
    · exact hr
    · intro x hx
      rcases List.mem_cons.mp hx with rfl | hx
      · exact hd _ (by simp)
      · exact ih hr x hx

theorem iadd_valid (tol : Rat) (a b : Op) (ha : Sem.ValidOp a) (hb : Sem.ValidOp b) :
    Sem.ValidOp (Model.iadd tol a b) := by
  unfold Model.iadd
  induction b generalizing a with
  | nil => exact ha
  | cons e r ih =>
    obtain ⟨t, c⟩ := e
    simp only [List.foldl_cons]
    apply ih _ _ (fun x hx => hb x (List.mem_cons_of_mem _ hx))
    split
    · exact erase_valid t ha
    · exact Sem.set_valid _ ha (hb (t, c) (by simp))

theorem neg_valid (b : Op) (hb : Sem.ValidOp b) : Sem.ValidOp (b.map fun e => (e.1, -e.2)) := by
  intro x hx
  obtain ⟨e, he, rfl⟩ := List.mem_map.mp hx
  exact hb e he

theorem isub_valid (tol : Rat) (a b : Op) (ha : Sem.ValidOp a) (hb : Sem.ValidOp b) :
    Sem.ValidOp (Model.isub tol a b) := by
  rw [isub_eq_iadd_neg]
  exact iadd_valid tol a _ ha (neg_valid b hb)

theorem smul_valid (c : GQ) (a : Op) (ha : Sem.ValidOp a) : Sem.ValidOp (Model.smul c a) := by
  intro x hx
  obtain ⟨e, he, rfl⟩ := List.mem_map.mp hx
  exact ha e he

/-! ### the intermediate values of `rotate_qubit_by_pauli` -/

def rHalf : GQ := ⟨1/2, 0⟩
def rPQP (qop pauli : Op) : Op := mulOp .qubit (mulOp .qubit pauli qop) pauli
def rEven (tol : Rat) (qop pauli : Op) : Op := Model.smul rHalf (Model.iadd tol qop (rPQP qop pauli))
def rOdd (tol : Rat) (qop pauli : Op) : Op := Model.smul rHalf (Model.isub tol qop (rPQP qop pauli))
def rA (tol : Rat) (qop pauli : Op) (c2 : GQ) : Op :=
  Model.iadd tol (rEven tol qop pauli) (Model.smul c2 (rOdd tol qop pauli))
def rLast (tol : Rat) (qop pauli : Op) (s2 : GQ) : Op :=
  mulOp .qubit (Model.smul (GQ.I * s2) (rOdd tol qop pauli)) pauli

theorem rotate_eq (tol : Rat) (qop : Op) (p : Term) (c2 s2 : GQ) :
    C16.rotateQubitByPauli tol qop [(p, 1)] c2 s2
      = .ok (Model.iadd tol (rA tol qop [(p, 1)] c2) (rLast tol qop [(p, 1)] s2)) := by
  simp [C16.rotateQubitByPauli, rA, rLast, rEven, rOdd, rPQP, rHalf]

theorem rHalf_add : rHalf + rHalf = 1 := by decide +kernel

/-- the exact-regime predicate is decidable (used by the non-vacuity examples) -/
instance decExactAdd (tol : Rat) : (a b : Op) → Decidable (ExactAdd tol a b)
  | _, [] => isTrue trivial
  | a, (t, c) :: b => by
    unfold ExactAdd
    have := decExactAdd tol (if GQ.isSmall tol (Dict.getD a t 0 + c) then Dict.erase a t
                  else Dict.set a t (Dict.getD a t 0 + c)) b
    exact instDecidableAnd

def exX0 : Op := [([(0, 1)], 1)]
def exZ0 : Term := [(0, 3)]
def c35 : GQ := ⟨3/5, 0⟩
def s45 : GQ := ⟨4/5, 0⟩

end C16P
end OFV
