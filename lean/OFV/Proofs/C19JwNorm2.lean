/-
C19 — `Spec.C19.jwOneNorm n A` for a fermionic operator `A` that has a Pauli form `R` (well-formed, canonical keys,
real coefficients, same action on every basis state): it is the sum of `|c|` over the strings of `R`.
-/
import OFV.Proofs.C19JwNorm
import Mathlib.Algebra.Order.Field.Rat

namespace OFV
namespace C19P
open Spec Spec.C19 Sem

/-! ### the loops of `jwOneNorm` -/

theorem optFold {β : Type} (l : List β) (skip : β → Prop) [DecidablePred skip] (val : β → GQ)
    (step : Option Rat → β → Option Rat)
    (hsome : ∀ a b, step (some a) b
      = if skip b then some a else if (val b).im ≠ 0 then none else some (a + rabs (val b).re))
    (a0 : Rat) (h : ∀ b ∈ l, ¬ skip b → (val b).im = 0) :
    l.foldl step (some a0) = some (a0 + (l.map fun b => if skip b then 0 else rabs (val b).re).sum) := by
  induction l generalizing a0 with
  | nil => simp
  | cons b l ih =>
    simp only [List.foldl_cons, List.map_cons, List.sum_cons, hsome]
    by_cases hs : skip b
    · simp only [hs, if_true]
      rw [ih a0 (fun b' hb' => h b' (List.mem_cons_of_mem _ hb'))]
      simp
    · have him := h b List.mem_cons_self hs
      simp only [hs, if_false, him, ne_eq, not_true_eq_false]
      rw [ih _ (fun b' hb' => h b' (List.mem_cons_of_mem _ hb'))]
      congr 1; ring

theorem optFold2 (xs zs : List Nat) (skip : Nat → Nat → Prop) [∀ x, DecidablePred (skip x)] (val : Nat → Nat → GQ)
    (step : Nat → Option Rat → Nat → Option Rat)
    (hsome : ∀ x a z, step x (some a) z
      = if skip x z then some a else if (val x z).im ≠ 0 then none else some (a + rabs (val x z).re))
    (a0 : Rat) (h : ∀ x ∈ xs, ∀ z ∈ zs, ¬ skip x z → (val x z).im = 0) :
    xs.foldl (fun (acc : Option Rat) x => zs.foldl (step x) acc) (some a0)
      = some (a0 + (xs.map fun x => (zs.map fun z => if skip x z then 0 else rabs (val x z).re).sum).sum) := by
  induction xs generalizing a0 with
  | nil => simp
  | cons x xs ih =>
    simp only [List.foldl_cons, List.map_cons, List.sum_cons]
    rw [optFold zs (skip x) (val x) (step x) (hsome x) a0 (fun z hz => h x List.mem_cons_self z hz),
      ih _ (fun x' hx' => h x' (List.mem_cons_of_mem _ hx'))]
    congr 1; ring

/-! ### sums over mask pairs -/

theorem rlist_sum_range_eq (n : Nat) (f : Nat → Rat) : ((List.range n).map f).sum = ∑ i ∈ Finset.range n, f i := by
  induction n with
  | zero => simp
  | succ n ih => rw [List.range_succ, List.map_append, List.sum_append, ih, Finset.sum_range_succ]; simp

theorem gsum_zero_map {α : Type} (l : List α) (f : α → GQ) (h : ∀ a ∈ l, f a = 0) : (l.map f).sum = 0 := by
  induction l with
  | nil => simp
  | cons a l ih =>
    simp only [List.map_cons, List.sum_cons, h a List.mem_cons_self, zero_add]
    exact ih (fun b hb => h b (List.mem_cons_of_mem _ hb))

/-- a sum over all mask pairs of a function of the coefficient with these masks, for pairwise different masks -/
theorem mask_sum (P : Finset (Nat × Nat)) (R : Model.Op) (μ : List (Nat × Nat) → Nat × Nat)
    (hinj : R.Pairwise (fun a b => μ a.1 ≠ μ b.1)) (hmem : ∀ tc ∈ R, μ tc.1 ∈ P)
    (g : Nat × Nat → GQ → Rat) (g0 : ∀ p, g p 0 = 0) :
    ∑ p ∈ P, g p ((R.map fun tc => if μ tc.1 = p then tc.2 else 0).sum) = (R.map fun tc => g (μ tc.1) tc.2).sum := by
  induction R with
  | nil => simp [g0]
  | cons tc R ih =>
    rw [List.pairwise_cons] at hinj
    have hin : μ tc.1 ∈ P := hmem tc List.mem_cons_self
    have hrest : (R.map fun tc' => if μ tc'.1 = μ tc.1 then tc'.2 else 0).sum = 0 := by
      apply gsum_zero_map
      intro tc' htc'
      rw [if_neg (fun e => hinj.1 tc' htc' e.symm)]
    simp only [List.map_cons, List.sum_cons]
    rw [← Finset.add_sum_erase P _ hin, if_pos rfl, hrest, add_zero]
    have : ∀ p ∈ P.erase (μ tc.1), g p ((if μ tc.1 = p then tc.2 else 0) + (R.map fun tc' => if μ tc'.1 = p then tc'.2 else 0).sum)
        = g p ((R.map fun tc' => if μ tc'.1 = p then tc'.2 else 0).sum) := by
      intro p hp
      rw [if_neg (fun e => (Finset.mem_erase.1 hp).1 e.symm), zero_add]
    rw [Finset.sum_congr rfl this]
    have ih' := ih hinj.2 (fun tc' h' => hmem tc' (List.mem_cons_of_mem _ h'))
    rw [← ih', ← Finset.add_sum_erase P _ hin, hrest, g0, zero_add]

/-! ### casts -/

theorem natCast_re (N : Nat) : ((N : Nat) : GQ).re = (N : Rat) := by
  induction N with
  | zero => simp
  | succ N ih => rw [Nat.cast_succ, GQ.add_re, ih, GQ.one_re]; push_cast; ring

theorem natCast_im (N : Nat) : ((N : Nat) : GQ).im = 0 := by
  induction N with
  | zero => simp
  | succ N ih => rw [Nat.cast_succ, GQ.add_im, ih, GQ.one_im]; ring

theorem rabs_mul_nat (N : Nat) (c : GQ) : rabs (((N : Nat) : GQ) * c).re = (N : Rat) * rabs c.re := by
  rw [GQ.mul_re, natCast_re, natCast_im, zero_mul, sub_zero]
  unfold rabs
  have hN : (0 : Rat) ≤ N := Nat.cast_nonneg N
  by_cases h : c.re < 0
  · rw [if_pos h]
    by_cases hN0 : (N : Rat) = 0
    · simp [hN0]
    · have : (N : Rat) * c.re < 0 := mul_neg_of_pos_of_neg (lt_of_le_of_ne hN (Ne.symm hN0)) h
      rw [if_pos this]; ring
  · rw [if_neg h]
    have : ¬ (N : Rat) * c.re < 0 := by
      intro hc
      have : 0 ≤ (N : Rat) * c.re := mul_nonneg hN (le_of_not_gt h)
      linarith
    rw [if_neg this]

theorem mul_nat_im (N : Nat) (c : GQ) : (((N : Nat) : GQ) * c).im = (N : Rat) * c.im := by
  rw [GQ.mul_im, natCast_re, natCast_im, zero_mul, add_zero]

end C19P
end OFV
