/- C09: canonical-form invariant of the BinaryPolynomial Model and its consequences. -/
import OFV.Proofs.C09

namespace OFV.C09
open OFV.Model.C09 OFV.Spec.C09

/-- a stored monomial is `('one',)` or a non-empty strictly increasing tuple of integers -/
def CanonMono (t : Mono) : Prop :=
  t = [none] ∨ (t ≠ [] ∧ ∃ l : List Nat, t = l.map some ∧ l.Pairwise (· < ·))

/-- the invariant of `self.terms`: no duplicates, canonical monomials -/
def WF (p : Poly) : Prop := p.Nodup ∧ ∀ t ∈ p, CanonMono t

/-! ### sortU -/

theorem mem_insU (i x : Nat) (l : List Nat) : x ∈ insU i l ↔ x = i ∨ x ∈ l := by
  induction l with
  | nil => simp [insU]
  | cons j r ih =>
    unfold insU
    split
    · simp
    · split
      · next _ h => subst h; simp
      · simp [ih]; constructor <;> (intro h; rcases h with h | h | h <;> simp [h])

theorem insU_sorted (i : Nat) (l : List Nat) (h : l.Pairwise (· < ·)) : (insU i l).Pairwise (· < ·) := by
  induction l with
  | nil => simp [insU]
  | cons j r ih =>
    rw [List.pairwise_cons] at h
    unfold insU
    split
    · next hij =>
      rw [List.pairwise_cons]
      refine ⟨?_, List.pairwise_cons.mpr h⟩
      intro x hx
      rcases List.mem_cons.mp hx with rfl | hx
      · exact hij
      · exact Nat.lt_trans hij (h.1 x hx)
    · split
      · exact List.pairwise_cons.mpr h
      · next h1 h2 =>
        rw [List.pairwise_cons]
        refine ⟨?_, ih h.2⟩
        intro x hx
        rcases (mem_insU i x r).mp hx with rfl | hx
        · omega
        · exact h.1 x hx

theorem sortU_sorted (l : List Nat) : (sortU l).Pairwise (· < ·) := by
  induction l with
  | nil => simp [sortU]
  | cons i r ih => exact insU_sorted i _ ih

theorem mem_sortU (x : Nat) (l : List Nat) : x ∈ sortU l ↔ x ∈ l := by
  induction l with
  | nil => simp [sortU]
  | cons i r ih =>
    show x ∈ insU i (sortU r) ↔ _
    rw [mem_insU, ih]; simp

theorem sortU_ne_nil (l : List Nat) (h : l ≠ []) : sortU l ≠ [] := by
  cases l with
  | nil => exact absurd rfl h
  | cons i r =>
    intro hn
    have : i ∈ sortU (i :: r) := (mem_sortU i _).mpr (by simp)
    rw [hn] at this; cases this

theorem insU_of_lt_all (i : Nat) (l : List Nat) (h : ∀ x ∈ l, i < x) : insU i l = i :: l := by
  cases l with
  | nil => rfl
  | cons j r => simp [insU, h j (by simp)]

/-- a strictly increasing list is a fixed point of `sorted(set(·))` -/
theorem sortU_of_sorted (l : List Nat) (h : l.Pairwise (· < ·)) : sortU l = l := by
  induction l with
  | nil => rfl
  | cons i r ih =>
    rw [List.pairwise_cons] at h
    show insU i (sortU r) = _
    rw [ih h.2, insU_of_lt_all i r h.1]

/-! ### canonical monomials -/

theorem canonMono_ne_nil {t : Mono} (h : CanonMono t) : t ≠ [] := by
  rcases h with rfl | ⟨h, _⟩
  · simp
  · exact h

theorem idx_map_some (l : List Nat) : idx (l.map some) = l := by
  induction l with
  | nil => rfl
  | cons i r ih => simp [ih]

theorem none_not_mem_map_some (l : List Nat) : (none : Fac) ∉ l.map some := by
  simp

theorem canonMono_mulTerm (l r : Mono) : CanonMono (mulTerm l r) := by
  unfold mulTerm
  split
  · exact Or.inl rfl
  · next h =>
    right
    have hne : idx l ++ idx r ≠ [] := by
      intro hn
      simp only [List.append_eq_nil_iff] at hn
      simp [hn.1, hn.2] at h
    refine ⟨?_, sortU (idx l ++ idx r), rfl, sortU_sorted _⟩
    intro hm
    exact sortU_ne_nil _ hne (List.map_eq_nil_iff.mp hm)

/-- `_canonical_term` fixes canonical monomials -/
theorem canonTerm_of_canon {t : Mono} (h : CanonMono t) : canonTerm t = t := by
  rcases h with rfl | ⟨_, l, rfl, hl⟩
  · decide
  · unfold canonTerm
    rw [idx_map_some, sortU_of_sorted l hl, if_neg (none_not_mem_map_some l)]
    simp

/-! ### the sum rule -/

theorem wf_sumRule {p : Poly} {s : Mono} (hp : WF p) (hs : CanonMono s) : WF (sumRule p s) := by
  unfold sumRule
  split
  · exact ⟨hp.1.erase s, fun t ht => hp.2 t (List.mem_of_mem_erase ht)⟩
  · next hns =>
    refine ⟨?_, ?_⟩
    · rw [List.nodup_append]
      refine ⟨hp.1, by simp, ?_⟩
      intro a ha b hb
      simp at hb; subst hb
      intro hab; subst hab; exact hns ha
    · intro t ht
      rcases List.mem_append.mp ht with h | h
      · exact hp.2 t h
      · simp at h; subst h; exact hs

theorem wf_nil : WF [] := ⟨List.nodup_nil, by simp⟩

theorem wf_foldl_sumRule (q : Poly) (hq : ∀ t ∈ q, CanonMono t) (p : Poly) (hp : WF p) :
    WF (q.foldl sumRule p) := by
  induction q generalizing p with
  | nil => exact hp
  | cons t r ih =>
    exact ih (fun x hx => hq x (List.mem_cons_of_mem _ hx)) _ (wf_sumRule hp (hq t (by simp)))

/-- toggling all monomials of a duplicate-free `q ⊆ acc` removes exactly them -/
theorem foldl_sumRule_remove (q acc : Poly) (hacc : acc.Nodup) (hq : q.Nodup) (hsub : ∀ t ∈ q, t ∈ acc) :
    q.foldl sumRule acc = acc.filter (fun t => !(q.contains t)) := by
  induction q generalizing acc with
  | nil =>
    simp only [List.foldl_nil, List.contains_nil, Bool.not_false]
    exact (List.filter_eq_self.mpr (fun _ _ => rfl)).symm
  | cons t r ih =>
    rw [List.nodup_cons] at hq
    have ht : t ∈ acc := hsub t (by simp)
    rw [List.foldl_cons]
    have h1 : sumRule acc t = acc.erase t := by simp [sumRule, ht]
    rw [h1, ih (acc.erase t) (hacc.erase t) hq.2]
    · rw [hacc.erase_eq_filter, List.filter_filter]
      apply List.filter_congr
      intro x _
      by_cases hx : x = t
      · subst hx; simp
      · simp [hx]
    · intro x hx
      have hne : x ≠ t := by intro h; subst h; exact hq.1 hx
      exact (List.mem_erase_of_ne hne).mpr (hsub x (List.mem_cons_of_mem _ hx))

theorem wf_iadd' {p q : Poly} (hp : WF p) (hq : WF q) : WF (iadd p q) :=
  wf_foldl_sumRule q hq.2 p hp

theorem wf_mulInner (l : Mono) (q acc : Poly) (hacc : WF acc) :
    WF (q.foldl (fun acc2 r => sumRule acc2 (mulTerm l r)) acc) := by
  have : q.foldl (fun acc2 r => sumRule acc2 (mulTerm l r)) acc = (q.map (mulTerm l)).foldl sumRule acc := by
    rw [List.foldl_map]
  rw [this]
  apply wf_foldl_sumRule _ _ _ hacc
  intro t ht
  rcases List.mem_map.mp ht with ⟨r, _, rfl⟩
  exact canonMono_mulTerm l r

theorem wf_imul' (p q : Poly) : WF (imul p q) := by
  unfold imul
  suffices h : ∀ acc, WF acc → WF (p.foldl (fun acc l => q.foldl (fun acc2 r => sumRule acc2 (mulTerm l r)) acc) acc) from
    h [] wf_nil
  induction p with
  | nil => intro acc h; exact h
  | cons t r ih => intro acc h; exact ih _ (wf_mulInner t q acc h)

/-- the shifted monomial as `shift` computes it -/
def shiftMono (c : Nat) (s : Mono) : Mono := canonTerm (s.map fun f => f.map (· + c))

theorem shiftMono_canon {c : Nat} {t : Mono} (h : CanonMono t) :
    shiftMono c t = t.map (fun f => f.map (· + c)) ∧ CanonMono (shiftMono c t) := by
  rcases h with rfl | ⟨hne, l, rfl, hl⟩
  · have h0 : shiftMono c [none] = [none] := by
      show canonTerm [none] = [none]
      decide
    exact ⟨h0, Or.inl h0⟩
  · have hmap : (l.map some).map (fun f : Fac => f.map (· + c)) = (l.map (· + c)).map some := by
      simp [List.map_map, Function.comp_def]
    have hs : (l.map (· + c)).Pairwise (· < ·) := by
      rw [List.pairwise_map]
      exact hl.imp (by intro a b hab; omega)
    have hc : CanonMono ((l.map (· + c)).map some) := by
      right
      refine ⟨?_, _, rfl, hs⟩
      intro hn
      apply hne
      simpa using hn
    unfold shiftMono
    rw [hmap, canonTerm_of_canon hc]
    exact ⟨rfl, hc⟩

theorem optmap_add_inj (c : Nat) : Function.Injective (fun f : Fac => f.map (· + c)) := by
  intro a b h
  cases a <;> cases b <;> simp at h ⊢
  omega

theorem wf_shift' {p : Poly} (c : Nat) (hp : WF p) : WF (shift p c) := by
  unfold shift
  show WF (p.map (shiftMono c))
  refine ⟨?_, ?_⟩
  · unfold List.Nodup
    rw [List.pairwise_map]
    apply List.Pairwise.imp_of_mem _ hp.1
    intro a b ha hb hab heq
    rw [(shiftMono_canon (hp.2 a ha)).1, (shiftMono_canon (hp.2 b hb)).1] at heq
    exact hab ((List.map_inj_right (fun x y h => optmap_add_inj c h)).mp heq)
  · intro t ht
    rcases List.mem_map.mp ht with ⟨s, hs, rfl⟩
    exact (shiftMono_canon (hp.2 s hs)).2

theorem canonMono_one : CanonMono [none] := Or.inl rfl

theorem wf_addOne {p : Poly} (hp : WF p) : WF (addOne p) := wf_sumRule hp canonMono_one

theorem add_self' {p : Poly} (hp : WF p) : iadd p p = [] := by
  unfold iadd
  rw [foldl_sumRule_remove p p hp.1 hp.1 (fun _ h => h)]
  apply List.filter_eq_nil_iff.mpr
  intro a ha
  simp [ha]

/-! ### evaluate() -/

theorem prod_bits (b : Nat → Nat) (hb : ∀ i, b i ≤ 1) (l : List Nat) (a : Nat) :
    l.foldl (fun acc i => acc * b i) a = if l.all (fun i => b i == 1) then a else 0 := by
  induction l generalizing a with
  | nil => simp
  | cons i r ih =>
    rw [List.foldl_cons, ih]
    have : b i = 0 ∨ b i = 1 := by have := hb i; omega
    rcases this with h | h <;> simp [h]

theorem getD_le_one (bl : List Nat) (hb : ∀ x ∈ bl, x ≤ 1) (i : Nat) : bl.getD i 0 ≤ 1 := by
  rw [List.getD_eq_getElem?_getD]
  cases h : bl[i]? with
  | none => simp
  | some x => exact hb x (List.mem_of_getElem? h)

theorem sum_mod2 (p : Poly) (f : Mono → Nat) (g : Mono → Bool) (h : ∀ t ∈ p, f t = if g t then 1 else 0) :
    ((p.map f).sum % 2 == 1) = p.foldr (fun t acc => xor (g t) acc) false := by
  induction p with
  | nil => rfl
  | cons t r ih =>
    have ih' := ih (fun x hx => h x (List.mem_cons_of_mem _ hx))
    rw [List.map_cons, List.sum_cons, List.foldr_cons, ← ih', h t (by simp)]
    generalize (r.map f).sum = S
    have hS : S % 2 = 0 ∨ S % 2 = 1 := by omega
    cases g t
    · simp
    · rcases hS with h0 | h0
      · have : (1 + S) % 2 = 1 := by omega
        simp [h0, this]
      · have : (1 + S) % 2 = 0 := by omega
        simp [h0, this]

theorem wf_no_qubits {p : Poly} (hp : WF p) (hq : qubits p = []) : p = [] ∨ p = [[none]] := by
  have hall : ∀ t ∈ p, t = [none] := by
    intro t ht
    rcases hp.2 t ht with rfl | ⟨hne, l, rfl, _⟩
    · rfl
    · exfalso
      have : idx (l.map some) = [] := by
        unfold qubits at hq
        rw [List.flatMap_eq_nil_iff] at hq
        exact hq _ ht
      rw [idx_map_some] at this
      subst this; exact hne rfl
  match p, hp, hall with
  | [], _, _ => exact Or.inl rfl
  | [t], _, hall => right; rw [hall t (by simp)]
  | t :: u :: r, hp, hall =>
    exfalso
    have h1 := hall t (by simp)
    have h2 := hall u (by simp)
    have := hp.1
    rw [List.nodup_cons] at this
    apply this.1
    rw [h1, h2]; simp

end OFV.C09
