/-
C13 — Hermiticity of the spinful `fermi_hubbard` Model at the level of denotations.
-/
import OFV.Proofs.C13Herm
import OFV.Proofs.C13Mel
import OFV.Proofs.C13Sound2
set_option linter.unusedSimpArgs false
set_option linter.unusedVariables false
set_option linter.unnecessarySeqFocus false
namespace OFV.C13
open OFV.Model OFV.Model.C13 OFV.GQ

theorem conj_sub' (a b : GQ) : (a - b).conj = a.conj - b.conj := by
  apply GQ.ext <;> simp [GQ.conj] <;> ring

/-- **hermitian_generators (spinful `fermi_hubbard`)**: real `t`, `U`, `μ`, `h`, no particle-hole shift, every lattice
size and EVERY term functional `φ` with `φ(n_{i↑} n_{i↓})` unchanged under the adjoint reordering -/
theorem spinful_hubbard_hermitian' (tol : Rat) (φ : Term → GQ) (a : HubbardArgs) (hphs : a.phs = false)
    (hex : ExactSum tol [] ((List.range (a.x * a.y)).flatMap (spinfulPieces tol a)))
    (ht : a.t.conj = a.t) (hu : a.u.conj = a.u) (hmu : a.mu.conj = a.mu) (hh : a.h.conj = a.h)
    (hreg : GQ.isSmall tol (-a.t) = true → -a.t = 0)
    (hφ : ∀ i, φ [(2 * i, 1), (2 * i, 0), (2 * i + 1, 1), (2 * i + 1, 0)] = φ [(2 * i + 1, 1), (2 * i + 1, 0), (2 * i, 1), (2 * i, 0)]) :
    den (adjF φ) (spinfulFermiHubbard tol a) = (den φ (spinfulFermiHubbard tol a)).conj := by
  rw [spinful_hubbard_sound' tol (adjF φ) a hex ht hreg, spinful_hubbard_sound' tol φ a hex ht hreg,
    conj_add', conj_gsumL, conj_gsumL, List.map_map, List.map_map]
  have hnt : (-a.t).conj = -a.t := by rw [conj_neg', ht]
  have h1 : (-a.mu - a.h).conj = -a.mu - a.h := by rw [conj_sub', conj_neg', hmu, hh]
  have h2 : (-a.mu + a.h).conj = -a.mu + a.h := by rw [conj_add', conj_neg', hmu, hh]
  congr 1
  · congr 1
    apply List.map_congr_left
    intro e _
    simp only [Function.comp, conj_add', conj_mul', hnt, adjF, flipT, List.reverse_cons, List.reverse_nil,
      List.nil_append, List.cons_append, List.map_cons, List.map_nil]
    rw [add_comm' ((-a.t) * (φ [(2 * e.2, 1), (2 * e.1, 0)]).conj),
      add_comm' ((-a.t) * (φ [(2 * e.2 + 1, 1), (2 * e.1 + 1, 0)]).conj)]
  · congr 1
    apply List.map_congr_left
    intro s _
    simp only [Function.comp, spinSiteDen_explicit tol _ a hphs, conj_add', conj_mul', hu, h1, h2, adjF, flipT,
      List.reverse_cons, List.reverse_nil, List.nil_append, List.cons_append, List.map_cons, List.map_nil]
    rw [hφ s]

end OFV.C13
