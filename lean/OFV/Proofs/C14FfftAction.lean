/-
C14 — the operations emitted by `ffft` on `2^m` modes act on one-particle coefficient vectors as the
discrete Fourier transform (Cooley–Tukey, radix 2), over any commutative ring with a `2^M`-th root of
unity `w`, `w^(2^(M-1)) = -1`.
-/
import OFV.Model.C14Prim
import Mathlib.Algebra.BigOperators.Ring.Finset
import Mathlib.Algebra.BigOperators.Intervals
import Mathlib.Data.List.Nodup
import Mathlib.Tactic.Ring
import Mathlib.Tactic.Linarith

namespace OFV.C14
open OFV.Model.C14 Finset

variable {R : Type} [CommRing R]

/-- the coefficient operations of a commutative ring with `ω_N = w` -/
def ringOps (w : R) : CoefOps R := ⟨0, (· + ·), (· - ·), fun e x => w ^ e * x⟩

/-! ### the radix-2 shuffle `i ↦ (i % 2)·nx + i / 2` -/

def shuffle (nx : Nat) : List Nat := (List.range (2 * nx)).map fun i => (i % 2) * nx + i / 2

theorem shuffle_length (nx : Nat) : (shuffle nx).length = 2 * nx := by simp [shuffle]

theorem shuffle_get (nx x : Nat) (hx : x < 2 * nx) : (shuffle nx).getD x 0 = (x % 2) * nx + x / 2 := by
  simp [shuffle, List.getD_eq_getElem?_getD, List.getElem?_map, List.getElem?_range hx]

theorem shuffle_getElem (nx x : Nat) (hx : x < (shuffle nx).length) :
    (shuffle nx)[x] = (x % 2) * nx + x / 2 := by
  simp [shuffle]

theorem shuffle_nodup (nx : Nat) : (shuffle nx).Nodup := by
  unfold shuffle
  apply List.Nodup.map_on _ List.nodup_range
  intro a ha b hb h
  rw [List.mem_range] at ha hb
  rcases Nat.mod_two_eq_zero_or_one a with h1 | h1 <;> rcases Nat.mod_two_eq_zero_or_one b with h2 | h2 <;>
    simp only [h1, h2, Nat.zero_mul, Nat.one_mul, Nat.zero_add] at h <;> omega

theorem shuffle_idxOf (nx y x' : Nat) (hy : y < 2) (hx : x' < nx) :
    (shuffle nx).idxOf (y * nx + x') = 2 * x' + y := by
  have hlt : 2 * x' + y < (shuffle nx).length := by rw [shuffle_length]; omega
  have := (shuffle_nodup nx).idxOf_getElem (2 * x' + y) hlt
  rw [shuffle_getElem] at this
  have e1 : (2 * x' + y) % 2 = y := by omega
  have e2 : (2 * x' + y) / 2 = x' := by omega
  rw [e1, e2] at this
  exact this

/-! ### normal form of the recursion for a leading factor 2 -/

/-- the twiddle + `F0` layer: for every `x < nx`: `_TwiddleGate(x, 2nx)` on `start+2x+1`, `F0` on `(start+2x, start+2x+1)` -/
def bflyLayer (start nx : Nat) : List FfftOp :=
  (List.range nx).flatMap fun x => [FfftOp.twiddle x (2 * nx) (start + 2 * x + 1), FfftOp.f0 (start + 2 * x)]

theorem ffftRec_two (start nx f : Nat) (fx : List Nat) :
    ffftRec start (2 * nx) (2 :: f :: fx) =
      [FfftOp.perm start (shuffle nx) false] ++ ffftRec start nx (f :: fx) ++ ffftRec (start + nx) nx (f :: fx)
        ++ [FfftOp.perm start (shuffle nx) true] ++ bflyLayer start nx ++ [FfftOp.perm start (shuffle nx) false] := by
  rw [ffftRec]
  · simp [shuffle, bflyLayer, List.range_succ]
  · intro h; cases h

/-! ### action of single operations -/

theorem permF_outside (O : CoefOps R) (N start nx : Nat) (v : Nat → R) (i : Nat)
    (h : i < start ∨ start + 2 * nx ≤ i) :
    applyFfftOp O N v (.perm start (shuffle nx) false) i = v i := by
  simp only [applyFfftOp, shuffle_length]
  rw [if_neg (by omega)]

theorem permF_inside (O : CoefOps R) (N start nx : Nat) (v : Nat → R) (y x' : Nat) (hy : y < 2) (hx : x' < nx) :
    applyFfftOp O N v (.perm start (shuffle nx) false) (start + (y * nx + x')) = v (start + (2 * x' + y)) := by
  simp only [applyFfftOp, shuffle_length]
  have hlt : y * nx + x' < 2 * nx := by
    have hy' : y = 0 ∨ y = 1 := by omega
    rcases hy' with rfl | rfl <;> omega
  rw [if_pos (by omega)]
  have : start + (y * nx + x') - start = y * nx + x' := by omega
  rw [this, shuffle_idxOf nx y x' hy hx]

theorem permI_outside (O : CoefOps R) (N start nx : Nat) (v : Nat → R) (i : Nat)
    (h : i < start ∨ start + 2 * nx ≤ i) :
    applyFfftOp O N v (.perm start (shuffle nx) true) i = v i := by
  simp only [applyFfftOp, shuffle_length]
  rw [if_neg (by omega)]

theorem permI_inside (O : CoefOps R) (N start nx : Nat) (v : Nat → R) (y kx : Nat) (hy : y < 2) (hx : kx < nx) :
    applyFfftOp O N v (.perm start (shuffle nx) true) (start + (2 * kx + y)) = v (start + (y * nx + kx)) := by
  simp only [applyFfftOp, shuffle_length]
  rw [if_pos (by omega)]
  have : start + (2 * kx + y) - start = 2 * kx + y := by omega
  rw [this, shuffle_get nx _ (by omega)]
  have e1 : (2 * kx + y) % 2 = y := by omega
  have e2 : (2 * kx + y) / 2 = kx := by omega
  rw [e1, e2]

/-! ### the twiddle + butterfly layer -/

theorem runFfft_append (O : CoefOps R) (N : Nat) (a b : List FfftOp) (v : Nat → R) :
    runFfft O N (a ++ b) v = runFfft O N b (runFfft O N a v) := by
  simp [runFfft, List.foldl_append]

theorem bfly_prefix (w : R) (N start nx : Nat) (v : Nat → R) :
    ∀ c, c ≤ nx →
      let v' := runFfft (ringOps w) N ((List.range c).flatMap fun x =>
        [FfftOp.twiddle x (2 * nx) (start + 2 * x + 1), FfftOp.f0 (start + 2 * x)]) v
      (∀ i, (i < start ∨ start + 2 * c ≤ i) → v' i = v i) ∧
      (∀ x, x < c → v' (start + 2 * x) = v (start + 2 * x) + w ^ (x * (N / (2 * nx))) * v (start + 2 * x + 1)) ∧
      (∀ x, x < c → v' (start + 2 * x + 1) = v (start + 2 * x) - w ^ (x * (N / (2 * nx))) * v (start + 2 * x + 1)) := by
  intro c
  induction c with
  | zero => intro _; simp [runFfft]
  | succ c ih =>
    intro hc
    obtain ⟨h0, h1, h2⟩ := ih (by omega)
    simp only [List.range_succ, List.flatMap_append, List.flatMap_cons, List.flatMap_nil, List.append_nil]
    rw [runFfft_append]
    generalize hv : runFfft (ringOps w) N ((List.range c).flatMap fun x =>
        [FfftOp.twiddle x (2 * nx) (start + 2 * x + 1), FfftOp.f0 (start + 2 * x)]) v = v1 at *
    have ea : v1 (start + 2 * c) = v (start + 2 * c) := h0 _ (by omega)
    have eb : v1 (start + 2 * c + 1) = v (start + 2 * c + 1) := h0 _ (by omega)
    simp only [runFfft, List.foldl_cons, List.foldl_nil, applyFfftOp, ringOps]
    refine ⟨?_, ?_, ?_⟩
    · intro i hi
      have n1 : i ≠ start + 2 * c := by omega
      have n2 : i ≠ start + 2 * c + 1 := by omega
      simp only [n1, n2, if_false]
      exact h0 i (by omega)
    · intro x hx
      by_cases hxc : x = c
      · subst hxc
        simp [ea, eb]
      · have n1 : start + 2 * x ≠ start + 2 * c := by omega
        have n2 : start + 2 * x ≠ start + 2 * c + 1 := by omega
        simp only [n1, n2, if_false]
        exact h1 x (by omega)
    · intro x hx
      by_cases hxc : x = c
      · subst hxc
        simp [ea, eb]
      · have n1 : start + 2 * x + 1 ≠ start + 2 * c := by omega
        have n2 : start + 2 * x + 1 ≠ start + 2 * c + 1 := by omega
        simp only [n1, n2, if_false]
        exact h2 x (by omega)

/-! ### the transform -/

/-- `v'` is `v` with the block `start … start+n-1` replaced by its discrete Fourier transform with root `u` -/
def IsDFT (u : R) (n start : Nat) (v v' : Nat → R) : Prop :=
  (∀ i, (i < start ∨ start + n ≤ i) → v' i = v i) ∧
  ∀ k, k < n → v' (start + k) = ∑ j ∈ range n, u ^ (k * j) * v (start + j)

theorem sum_range_two_mul (f : Nat → R) (nx : Nat) :
    ∑ j ∈ range (2 * nx), f j = ∑ x ∈ range nx, f (2 * x) + ∑ x ∈ range nx, f (2 * x + 1) := by
  induction nx with
  | zero => simp
  | succ nx ih =>
    have : 2 * (nx + 1) = 2 * nx + 1 + 1 := by ring
    rw [this, sum_range_succ, sum_range_succ, ih, sum_range_succ, sum_range_succ]
    ring

theorem dft_step (w : R) (M m : Nat) (hm : m + 1 ≤ M) (hneg : w ^ (2 ^ (M - 1)) = -1)
    (start : Nat) (v : Nat → R) (A0 A1 : List FfftOp)
    (ih0 : ∀ v0, IsDFT (w ^ (2 ^ (M - m))) (2 ^ m) start v0 (runFfft (ringOps w) (2 ^ M) A0 v0))
    (ih1 : ∀ v0, IsDFT (w ^ (2 ^ (M - m))) (2 ^ m) (start + 2 ^ m) v0 (runFfft (ringOps w) (2 ^ M) A1 v0)) :
    IsDFT (w ^ (2 ^ (M - (m + 1)))) (2 ^ (m + 1)) start v
      (runFfft (ringOps w) (2 ^ M)
        ([FfftOp.perm start (shuffle (2 ^ m)) false] ++ A0 ++ A1 ++ [FfftOp.perm start (shuffle (2 ^ m)) true]
          ++ bflyLayer start (2 ^ m) ++ [FfftOp.perm start (shuffle (2 ^ m)) false]) v) := by
  set nx := 2 ^ m with hnx
  set u := w ^ (2 ^ (M - (m + 1))) with hu
  have hnxpos : 0 < nx := Nat.pos_of_ne_zero (by simp [hnx])
  have hpow : 2 ^ (m + 1) = 2 * nx := by rw [hnx]; ring
  have hu2 : w ^ (2 ^ (M - m)) = u ^ 2 := by
    rw [hu, ← pow_mul]; congr 1
    have : M - m = (M - (m + 1)) + 1 := by omega
    rw [this, pow_succ]
  have hunx : u ^ nx = -1 := by
    rw [hu, ← pow_mul, hnx, ← pow_add]
    have : M - (m + 1) + m = M - 1 := by omega
    rw [this]; exact hneg
  have hu2nx : u ^ (2 * nx) = 1 := by rw [pow_mul', hunx]; ring
  have hdiv : 2 ^ M / (2 * nx) = 2 ^ (M - (m + 1)) := by
    rw [← hpow, Nat.pow_div hm (by norm_num)]
  -- the chain of intermediate vectors
  simp only [runFfft_append]
  set v1 := runFfft (ringOps w) (2 ^ M) [FfftOp.perm start (shuffle nx) false] v with hv1
  set v2 := runFfft (ringOps w) (2 ^ M) A0 v1 with hv2
  set v3 := runFfft (ringOps w) (2 ^ M) A1 v2 with hv3
  set v4 := runFfft (ringOps w) (2 ^ M) [FfftOp.perm start (shuffle nx) true] v3 with hv4
  set v5 := runFfft (ringOps w) (2 ^ M) (bflyLayer start nx) v4 with hv5
  obtain ⟨o2, d2⟩ := ih0 v1
  obtain ⟨o3, d3⟩ := ih1 v2
  rw [← hv2] at o2 d2
  rw [← hv3] at o3 d3
  rw [hu2] at d2 d3
  have e1 : ∀ i, v1 i = applyFfftOp (ringOps w) (2 ^ M) v (.perm start (shuffle nx) false) i := by
    intro i; simp [hv1, runFfft]
  have e4 : ∀ i, v4 i = applyFfftOp (ringOps w) (2 ^ M) v3 (.perm start (shuffle nx) true) i := by
    intro i; simp [hv4, runFfft]
  obtain ⟨o5, a5, b5⟩ := bfly_prefix w (2 ^ M) start nx v4 nx (Nat.le_refl nx)
  rw [show ((List.range nx).flatMap fun x =>
      [FfftOp.twiddle x (2 * nx) (start + 2 * x + 1), FfftOp.f0 (start + 2 * x)]) = bflyLayer start nx from rfl,
    ← hv5] at o5 a5 b5
  -- even / odd halves after the two sub-transforms
  have hE : ∀ kx, kx < nx → v3 (start + kx) = ∑ x ∈ range nx, (u ^ 2) ^ (kx * x) * v (start + 2 * x) := by
    intro kx hkx
    rw [o3 _ (by omega), d2 kx hkx]
    apply sum_congr rfl
    intro x hx
    rw [mem_range] at hx
    have := permF_inside (ringOps w) (2 ^ M) start nx v 0 x (by omega) hx
    simp only [Nat.zero_mul, Nat.zero_add, Nat.add_zero] at this
    rw [e1, this]
  have hO : ∀ kx, kx < nx → v3 (start + nx + kx) = ∑ x ∈ range nx, (u ^ 2) ^ (kx * x) * v (start + 2 * x + 1) := by
    intro kx hkx
    rw [d3 kx hkx]
    apply sum_congr rfl
    intro x hx
    rw [mem_range] at hx
    have := permF_inside (ringOps w) (2 ^ M) start nx v 1 x (by omega) hx
    simp only [Nat.one_mul] at this
    rw [o2 _ (by omega), e1, show start + nx + x = start + (nx + x) by ring, this]
    rfl
  constructor
  · intro i hi
    rw [hpow] at hi
    simp only [runFfft, List.foldl_cons, List.foldl_nil]
    rw [permF_outside _ _ _ _ _ _ hi, o5 i (by omega), e4, permI_outside _ _ _ _ _ _ hi,
      o3 i (by omega), o2 i (by omega), e1, permF_outside _ _ _ _ _ _ hi]
  · intro k hk
    rw [hpow] at hk ⊢
    have hky : k / nx < 2 := by rw [Nat.div_lt_iff_lt_mul hnxpos]; omega
    have hkx : k % nx < nx := Nat.mod_lt _ hnxpos
    have hk' : k = (k / nx) * nx + k % nx := by rw [Nat.mul_comm]; exact (Nat.div_add_mod k nx).symm
    generalize k / nx = ky at *
    generalize k % nx = kx at *
    subst hk'
    simp only [runFfft, List.foldl_cons, List.foldl_nil]
    rw [permF_inside _ _ _ _ _ ky kx hky hkx]
    rw [sum_range_two_mul]
    have hy : ky = 0 ∨ ky = 1 := by omega
    have h40 : v4 (start + 2 * kx) = v3 (start + kx) := by
      have := permI_inside (ringOps w) (2 ^ M) start nx v3 0 kx (by omega) hkx
      simp only [Nat.add_zero, Nat.zero_mul, Nat.zero_add] at this
      rw [e4, this]
    have h41 : v4 (start + 2 * kx + 1) = v3 (start + nx + kx) := by
      have := permI_inside (ringOps w) (2 ^ M) start nx v3 1 kx (by omega) hkx
      simp only [Nat.one_mul] at this
      rw [e4, show start + 2 * kx + 1 = start + (2 * kx + 1) by ring, this]; congr 1; ring
    rcases hy with rfl | rfl
    · simp only [Nat.add_zero, Nat.zero_mul, Nat.zero_add]
      rw [a5 kx hkx, h40, h41, hE kx hkx, hO kx hkx, hdiv, mul_sum]
      congr 1
      · apply sum_congr rfl; intro x _
        congr 1; rw [← pow_mul]; congr 1; ring
      · apply sum_congr rfl; intro x _
        rw [← mul_assoc]; congr 1
        rw [← pow_mul, ← pow_mul, ← pow_add, hu]; rw [← pow_mul]; congr 1; ring
    · simp only [Nat.one_mul]
      rw [show start + (2 * kx + 1) = start + 2 * kx + 1 by ring, b5 kx hkx, h40, h41, hE kx hkx, hO kx hkx,
        hdiv, sub_eq_add_neg, ← neg_mul, mul_sum]
      congr 1
      · apply sum_congr rfl; intro x _
        congr 1
        have : (nx + kx) * (2 * x) = 2 * (kx * x) + (2 * nx) * x := by ring
        rw [this, pow_add, pow_mul u (2 * nx), hu2nx, one_pow, mul_one, ← pow_mul]
      · apply sum_congr rfl; intro x _
        rw [← mul_assoc]; congr 1
        have : (nx + kx) * (2 * x + 1) = 2 * (kx * x) + (2 * nx) * x + nx + kx := by ring
        rw [this, pow_add, pow_add, pow_add, pow_mul u (2 * nx), hu2nx, one_pow, mul_one, hunx, ← pow_mul]
        rw [show (w ^ 2 ^ (M - (m + 1))) ^ kx = u ^ kx from rfl, ← pow_mul]
        ring

theorem ffftRec_pow2_isDFT (w : R) (M : Nat) (hneg : 1 ≤ M → w ^ (2 ^ (M - 1)) = -1) :
    ∀ m, m ≤ M → ∀ start (v : Nat → R),
      IsDFT (w ^ (2 ^ (M - m))) (2 ^ m) start v
        (runFfft (ringOps w) (2 ^ M) (ffftRec start (2 ^ m) (List.replicate m 2)) v) := by
  intro m
  induction m with
  | zero =>
    intro _ start v
    refine ⟨fun i _ => by simp [ffftRec, runFfft], ?_⟩
    intro k hk
    have : k = 0 := by omega
    subst this
    simp [ffftRec, runFfft]
  | succ m ih =>
    intro hm start v
    rcases Nat.eq_zero_or_pos m with h0 | hpos
    · -- a single `F0`
      subst h0
      have hw : w ^ (2 ^ (M - 1)) = -1 := hneg (by omega)
      refine ⟨?_, ?_⟩
      · intro i hi
        have n1 : i ≠ start := by omega
        have n2 : i ≠ start + 1 := by omega
        simp [ffftRec, runFfft, applyFfftOp, n1, n2]
      · intro k hk
        have hk' : k = 0 ∨ k = 1 := by omega
        rcases hk' with rfl | rfl
        · simp [ffftRec, runFfft, applyFfftOp, ringOps, sum_range_succ]
        · simp [ffftRec, runFfft, applyFfftOp, ringOps, sum_range_succ, hw]
          ring
    · obtain ⟨m', rfl⟩ : ∃ m', m = m' + 1 := ⟨m - 1, by omega⟩
      have hrep : List.replicate (m' + 1 + 1) 2 = 2 :: 2 :: List.replicate m' 2 := by
        simp [List.replicate_succ]
      have hrep' : List.replicate (m' + 1) 2 = 2 :: List.replicate m' 2 := by simp [List.replicate_succ]
      have hp : 2 ^ (m' + 1 + 1) = 2 * 2 ^ (m' + 1) := by ring
      rw [hrep, hp, ffftRec_two, ← hrep', ← hp]
      exact dft_step w M (m' + 1) hm (hneg (by omega)) start v _ _
        (fun v0 => ih (by omega) start v0) (fun v0 => ih (by omega) (start + 2 ^ (m' + 1)) v0)

/-- the Model's factor list of a power of two -/
theorem smallestFactor_even (n fuel : Nat) (hn : 2 ≤ n) (he : n % 2 = 0) : smallestFactor n 2 (fuel + 1) = 2 := by
  unfold smallestFactor
  by_cases h : 2 * 2 > n
  · have : n = 2 := by omega
    subst this; simp
  · rw [if_neg h]; simp [he]

theorem primeFactors_pow2 : ∀ (m fuel : Nat), 2 ^ m ≤ fuel → primeFactors (2 ^ m) fuel = List.replicate m 2
  | 0, fuel, _ => by
    cases fuel <;> simp [primeFactors]
  | m + 1, fuel, h => by
    have h2 : 2 ≤ 2 ^ (m + 1) := by
      have : 1 ≤ 2 ^ m := Nat.one_le_two_pow
      rw [pow_succ]; omega
    obtain ⟨f, rfl⟩ : ∃ f, fuel = f + 1 := ⟨fuel - 1, by omega⟩
    unfold primeFactors
    rw [if_neg (by omega)]
    obtain ⟨g, hg⟩ : ∃ g, 2 ^ (m + 1) = g + 1 := ⟨2 ^ (m + 1) - 1, by omega⟩
    have hs : smallestFactor (2 ^ (m + 1)) 2 (2 ^ (m + 1)) = 2 := by
      conv_lhs => rw [hg]
      rw [← hg]
      have := smallestFactor_even (2 ^ (m + 1)) g h2 (by rw [pow_succ]; omega)
      rw [← hg] at this
      exact this
    simp only [hs]
    have hd : 2 ^ (m + 1) / 2 = 2 ^ m := by rw [pow_succ]; omega
    rw [hd, primeFactors_pow2 m f (by rw [pow_succ] at h; omega)]
    simp [List.replicate_succ]

end OFV.C14
