/- `jordan_wigner_one_body(p, q, c)` denotes `c a†_p a_q + h.c.` (once on the diagonal), all `p, q, c`. -/
import OFV.Proofs.C04Term
import OFV.Proofs.C04Sum
import OFV.Spec.C04

namespace OFV
namespace Sem
open Spec Model Model.C04

theorem cnt_split (s lo mid hi : Nat) (h1 : lo ≤ mid) (h2 : mid ≤ hi) :
    cnt s lo hi = cnt s lo mid + cnt s mid hi := by
  induction hi, h2 using Nat.le_induction with
  | base => simp [cnt_self]
  | succ hi h ih => rw [cnt_succ s lo hi (by omega), cnt_succ s mid hi h, ih]; omega

theorem cnt_one (s p : Nat) : cnt s p (p + 1) = if s.testBit p then 1 else 0 := by
  rw [cnt_succ s p p (Nat.le_refl _), cnt_self]; simp

theorem cb_split (m p q : Nat) (h : p < q) :
    countBelow m q = countBelow m p + (if m.testBit p then 1 else 0) + cnt m (p + 1) q := by
  rw [countBelow_eq_cnt, countBelow_eq_cnt, cnt_split m 0 p q (Nat.zero_le _) (by omega),
    cnt_split m p (p + 1) q (by omega) (by omega), cnt_one]; omega

theorem cb_xflip_hi (m p q : Nat) (h : p ≤ q) : countBelow (m ^^^ (1 <<< q)) p = countBelow m p := by
  rw [countBelow_eq_cnt, countBelow_eq_cnt, cnt_xflip m q 0 p (Or.inr h)]

theorem cb_xflip_lo (m p q : Nat) (h : p < q) :
    countBelow (m ^^^ (1 <<< p)) q = countBelow m p + (if m.testBit p then 0 else 1) + cnt m (p + 1) q := by
  rw [cb_split _ p q h, cb_xflip_hi m p p (Nat.le_refl _), testBit_xflip, cnt_xflip m p (p + 1) q (Or.inl (by omega))]
  cases m.testBit p <;> simp

/-- a hopping string `P_p Z_{p+1} … Z_{q-1} P'_q` on a basis state -/
theorem act_hop (p q a b m : Nat) (h : p < q) :
    actPTerm ([(p, a)] ++ zs (p + 1) q ++ [(q, b)]) m
      = (((actP q b m).1 + 2 * (cnt (actP q b m).2 (p + 1) q % 2) + (actP p a (actP q b m).2).1) % 4,
         (actP p a (actP q b m).2).2) := by
  rw [actPTerm_append, actPTerm_append, actPTerm_zs _ _ _ (by omega)]
  simp only [actPTerm_cons, actPTerm_nil, stepP]
  ext <;> simp <;> omega

end Sem
end OFV

namespace OFV
namespace Sem
open Spec Model Model.C04

theorem ipow_vals : GQ.ipow 0 = 1 ∧ GQ.ipow 1 = GQ.I ∧ GQ.ipow 2 = -1 ∧ GQ.ipow 3 = -GQ.I := ⟨rfl, rfl, rfl, rfl⟩

/-- the four strings of the off-diagonal branch add up, on `|m⟩`, to `c` (bit p empty, bit q occupied),
`conj c` (the other way round) or 0, times the parity of the modes strictly between — all `p < q`. -/
theorem hop_qubit_sum (p q m x₀ : Nat) (c : GQ) (h : p < q) :
    ((hopList c).map fun (xab : Rat × Nat × Nat) => rl (mkRat 1 2 * xab.1) *
        termCoef .qubit ([(p, xab.2.1)] ++ zs (p + 1) q ++ [(q, xab.2.2)]) [m] [x₀]).sum
      = if m ^^^ (1 <<< q) ^^^ (1 <<< p) = x₀ then
          (if m.testBit q then (if m.testBit p then 0 else c * GQ.sgn (cnt m (p + 1) q))
           else (if m.testBit p then c.conj * GQ.sgn (cnt m (p + 1) q) else 0))
        else 0 := by
  have hb : (m ^^^ (1 <<< q)).testBit p = m.testBit p := testBit_xflip_ne m q p (by omega)
  have hcx : cnt (m ^^^ (1 <<< q)) (p + 1) q = cnt m (p + 1) q := cnt_xflip m q (p + 1) q (Or.inr (Nat.le_refl _))
  simp only [hopList, List.map_cons, List.map_nil, List.sum_cons, List.sum_nil, termCoef_qubit, act_hop _ _ _ _ _ h,
    actP, hb, hcx]
  by_cases hx : m ^^^ (1 <<< q) ^^^ (1 <<< p) = x₀
  · simp only [hx, if_true]
    have hP : cnt m (p + 1) q % 2 = 0 ∨ cnt m (p + 1) q % 2 = 1 := by omega
    cases hq : m.testBit q <;> cases hp : m.testBit p <;> rcases hP with hP | hP <;>
      simp [hP, GQ.sgn, GQ.ipow, rl] <;> apply GQ.ext <;> simp [GQ.I, GQ.conj] <;> ring
  · simp [hx]

end Sem
end OFV

namespace OFV
namespace Sem
open Spec Model Model.C04

theorem sgn_cases (k : Nat) : (k % 2 = 0 ∧ GQ.sgn k = 1) ∨ (k % 2 = 1 ∧ GQ.sgn k = -1) := by
  unfold GQ.sgn
  have : k % 2 = 0 ∨ k % 2 = 1 := by omega
  rcases this with h | h <;> simp [h]

theorem actF_ann (j m : Nat) :
    actF j 0 m = if m.testBit j then some (countBelow m j % 2, m ^^^ (1 <<< j)) else none := by
  unfold actF; cases m.testBit j <;> simp

theorem actF_cre (j m : Nat) :
    actF j 1 m = if m.testBit j then none else some (countBelow m j % 2, m ^^^ (1 <<< j)) := by
  unfold actF; cases m.testBit j <;> simp

theorem sgn_congr {a b : Nat} (h : a % 2 = b % 2) : GQ.sgn a = GQ.sgn b := by
  unfold GQ.sgn; rw [h]

/-- `a†_p a_q` on `|m⟩`, `p < q` -/
theorem hop_fermion_pq (p q m x₀ : Nat) (h : p < q) :
    termCoef .fermion [(p, 1), (q, 0)] [m] [x₀]
      = if m ^^^ (1 <<< q) ^^^ (1 <<< p) = x₀ then
          (if m.testBit q then (if m.testBit p then 0 else GQ.sgn (cnt m (p + 1) q)) else 0)
        else 0 := by
  have hb : (m ^^^ (1 <<< q)).testBit p = m.testBit p := testBit_xflip_ne m q p (by omega)
  rw [termCoef_fermion]
  simp only [actFTerm, List.foldr_cons, List.foldr_nil, actF_ann, actF_cre]
  cases hq : m.testBit q
  · simp
  · simp only [if_true, hb]
    cases hp : m.testBit p
    · simp only [Bool.false_eq_true, if_false, cb_xflip_hi m p q (by omega), cb_split m p q h, hp]
      rw [sgn_congr (b := cnt m (p + 1) q) (by omega)]
    · simp

/-- `a†_q a_p` on `|m⟩`, `p < q` -/
theorem hop_fermion_qp (p q m x₀ : Nat) (h : p < q) :
    termCoef .fermion [(q, 1), (p, 0)] [m] [x₀]
      = if m ^^^ (1 <<< q) ^^^ (1 <<< p) = x₀ then
          (if m.testBit q then 0 else (if m.testBit p then GQ.sgn (cnt m (p + 1) q) else 0))
        else 0 := by
  have hb : (m ^^^ (1 <<< p)).testBit q = m.testBit q := testBit_xflip_ne m p q (by omega)
  rw [termCoef_fermion, xflip_comm m q p]
  simp only [actFTerm, List.foldr_cons, List.foldr_nil, actF_ann, actF_cre]
  cases hp : m.testBit p
  · cases hq : m.testBit q <;> simp
  · simp only [if_true, hb]
    cases hq : m.testBit q
    · simp only [Bool.false_eq_true, if_false, cb_xflip_lo m p q h, hp, if_true]
      rw [sgn_congr (b := cnt m (p + 1) q) (by omega)]
    · simp

end Sem
end OFV

namespace OFV
namespace Sem
open Spec Model Model.C04

theorem sorted_hop (p q a b : Nat) (h : p < q) (ha : a ≠ 0) (hb : b ≠ 0) :
    SortedQ ([(p, a)] ++ zs (p + 1) q ++ [(q, b)]) := by
  have hz := sorted_zs_snoc (p + 1) q b hb
  rw [List.append_assoc]
  constructor
  · rw [List.singleton_append, List.pairwise_cons]
    refine ⟨?_, hz.1⟩
    intro g hg
    rcases List.mem_append.1 hg with h1 | h1
    · have := (zs_mem h1).1; simp; omega
    · simp at h1; subst h1; simpa using h
  · intro f hf
    rcases List.mem_append.1 hf with h1 | h1
    · simp at h1; subst h1; exact ha
    · exact hz.2 f h1

theorem jwOneBody_eq_fold (tol : Rat) (p q : Nat) (c : GQ) :
    jwOneBody tol p q c = (oneBodyImgs p q c).foldl (fun acc img => iadd tol acc img) [] := by
  unfold jwOneBody oneBodyImgs
  split
  · simp only [List.foldl_map]
  · rfl

theorem conj_conj (c : GQ) : c.conj.conj = c := by apply GQ.ext <;> simp [GQ.conj]

theorem den_single (alg : Alg) (t : List (Nat × Nat)) (c : GQ) (s x : St) :
    den alg [(t, c)] s x = c * termCoef alg t s x := by rw [den_cons, den_nil, add_zero]

theorem offdiag_imgs_sum (p q : Nat) (c : GQ) (h : p < q) (m x : Nat) :
    (((hopList c).map fun (xab : Rat × Nat × Nat) =>
        mk .qubit ([(p, xab.2.1)] ++ zs (p + 1) q ++ [(q, xab.2.2)]) (rl (mkRat 1 2 * xab.1))).map
      fun img => den .qubit img [m] [x]).sum
    = if m ^^^ (1 <<< q) ^^^ (1 <<< p) = x then
          (if m.testBit q then (if m.testBit p then 0 else c * GQ.sgn (cnt m (p + 1) q))
           else (if m.testBit p then c.conj * GQ.sgn (cnt m (p + 1) q) else 0))
        else 0 := by
  rw [← hop_qubit_sum p q m x c h, List.map_map]
  simp only [hopList, List.map_cons, List.map_nil, Function.comp,
    mk_sorted (sorted_hop p q 1 1 h (by decide) (by decide)),
    mk_sorted (sorted_hop p q 2 2 h (by decide) (by decide)),
    mk_sorted (sorted_hop p q 2 1 h (by decide) (by decide)),
    mk_sorted (sorted_hop p q 1 2 h (by decide) (by decide)), den_single]

theorem diag_fermion (p m x : Nat) :
    termCoef .fermion [(p, 1), (p, 0)] [m] [x] = if m.testBit p then (if m = x then 1 else 0) else 0 := by
  rw [termCoef_fermion]
  simp only [actFTerm, List.foldr_cons, List.foldr_nil, actF_ann, actF_cre]
  cases hp : m.testBit p
  · simp
  · simp only [if_true, testBit_xflip, hp, Bool.not_true, Bool.false_eq_true, if_false, xflip_xflip,
      cb_xflip_hi m p p (Nat.le_refl _)]
    rw [sgn_congr (b := 0) (by omega)]
    rfl

/-- `jordan_wigner_one_body(p, q, c)` denotes `c a†_p a_q + h.c.` (once if `p = q`) on every exact run -/
theorem jwOneBody_sound (tol : Rat) (p q : Nat) (c : GQ) (hok : jwOneBodyOk tol p q c = true) (m x : Nat) :
    den .qubit (jwOneBody tol p q c) [m] [x] = den .fermion (Spec.C04.oneBodyOp p q c) [m] [x] := by
  rw [jwOneBody_eq_fold, den_sum_ok .qubit tol _ [m] [x] hok]
  unfold oneBodyImgs Spec.C04.oneBodyOp
  by_cases hpq : p = q
  · subst hpq
    simp only [bne_self_eq_false, Bool.false_eq_true, if_false, if_true, List.map_cons, List.map_nil,
      List.sum_cons, List.sum_nil, den_single, diag_fermion]
    have s0 : SortedQ ([] : List (Nat × Nat)) := ⟨List.Pairwise.nil, fun f hf => by simp at hf⟩
    have s1 : SortedQ [(p, 3)] := ⟨List.pairwise_singleton _ _, fun f hf => by simp at hf; subst hf; simp⟩
    rw [mk_sorted s0, mk_sorted s1, den_single, den_single, termCoef_qubit, termCoef_qubit]
    simp only [actPTerm_cons, actPTerm_nil, stepP, actP]
    by_cases hx : m = x
    · subst hx
      by_cases hp : m.testBit p = true <;> simp [hp, GQ.ipow, half, rl] <;>
        apply GQ.ext <;> simp <;> norm_num [Rat.mkRat_eq_div] <;> ring
    · simp [hx]
  · have hne : (p != q) = true := by simp [hpq]
    simp only [hne, if_true, hpq, if_false, den_cons, den_nil, add_zero]
    by_cases hlt : p < q
    · have hgt : ¬ p > q := by omega
      simp only [hgt, if_false]
      rw [offdiag_imgs_sum p q c hlt, hop_fermion_pq p q m x hlt, hop_fermion_qp p q m x hlt]
      by_cases hx : m ^^^ (1 <<< q) ^^^ (1 <<< p) = x <;> cases m.testBit q <;> cases m.testBit p <;> simp [hx]
    · have hgt : p > q := by omega
      simp only [hgt, if_true]
      rw [offdiag_imgs_sum q p c.conj hgt, hop_fermion_pq q p m x hgt, hop_fermion_qp q p m x hgt, conj_conj]
      by_cases hx : m ^^^ (1 <<< p) ^^^ (1 <<< q) = x <;> cases m.testBit q <;> cases m.testBit p <;> simp [hx]

end Sem
end OFV
