/-
C07 — helper lemmas: the Pauli commutation parity rule in the Spec
(`actP`, `actPTerm`), and the merge walk of `trivially_commutes`.
Core Lean only.
-/
import OFV.Spec.Basic
import OFV.Proofs.Bits
import OFV.Model.C07
import OFV.Spec.C07

namespace OFV
namespace Proofs
namespace C07
open OFV.Spec

abbrev Term := List (Nat × Nat)

/-- partial signed maps on basis states: `(k, s')` means `i^k |s'⟩` -/
abbrev PMap := Nat → Nat × Nat

/-- `g` first, then `f` -/
def pcomp (f g : PMap) : PMap := fun s => let rg := g s; let rf := f rg.2; ((rg.1 + rf.1) % 4, rf.2)

/-- multiply by `i^k` -/
def pshift (k : Nat) (f : PMap) : PMap := fun s => (((f s).1 + k) % 4, (f s).2)

def pid : PMap := fun s => (0, s)

def pfac (f : Nat × Nat) : PMap := actP f.1 f.2

/-- phases are reduced mod 4 -/
def Red (f : PMap) : Prop := ∀ s, (f s).1 < 4

theorem actPTerm_cons (x : Nat × Nat) (t : Term) : actPTerm (x :: t) = pcomp (pfac x) (actPTerm t) := by
  funext s; simp [actPTerm, pcomp, pfac]

theorem actPTerm_nil : actPTerm [] = pid := by
  funext s; simp [actPTerm, pid]

theorem red_pfac (x : Nat × Nat) : Red (pfac x) := by
  intro s
  obtain ⟨j, p⟩ := x
  simp only [pfac, actP]
  split <;> (try split) <;> simp

theorem red_pcomp (f g : PMap) : Red (pcomp f g) := by
  intro s; simp only [pcomp]; omega

theorem red_actPTerm (t : Term) : Red (actPTerm t) := by
  cases t with
  | nil => intro s; simp [actPTerm]
  | cons x t => rw [actPTerm_cons]; exact red_pcomp _ _

theorem pcomp_assoc (f g h : PMap) : pcomp (pcomp f g) h = pcomp f (pcomp g h) := by
  funext s; simp only [pcomp]; congr 1; omega

theorem pcomp_pid_left (f : PMap) (hf : Red f) : pcomp pid f = f := by
  funext s; have := hf s; simp only [pcomp, pid]; ext <;> simp; omega

theorem pcomp_pid_right (f : PMap) (hf : Red f) : pcomp f pid = f := by
  funext s; have := hf s; simp only [pcomp, pid]; ext <;> simp; omega

theorem pshift_pcomp_left (k : Nat) (f g : PMap) : pcomp (pshift k f) g = pshift k (pcomp f g) := by
  funext s; simp only [pcomp, pshift]; congr 1; omega

theorem pshift_pcomp_right (k : Nat) (f g : PMap) : pcomp f (pshift k g) = pshift k (pcomp f g) := by
  funext s; simp only [pcomp, pshift]; congr 1; omega

theorem pshift_pshift (k l : Nat) (f : PMap) : pshift k (pshift l f) = pshift (k + l) f := by
  funext s; simp only [pshift]; congr 1; omega

theorem pshift_congr (k l : Nat) (f : PMap) (h : k % 4 = l % 4) : pshift k f = pshift l f := by
  funext s; simp only [pshift]; congr 1; omega

theorem pshift_zero (f : PMap) (hf : Red f) : pshift 0 f = f := by
  funext s; have := hf s; simp only [pshift]; ext <;> simp; omega

theorem actPTerm_append (a b : Term) : actPTerm (a ++ b) = pcomp (actPTerm a) (actPTerm b) := by
  induction a with
  | nil => rw [List.nil_append, actPTerm_nil, pcomp_pid_left _ (red_actPTerm b)]
  | cons x a ih => rw [List.cons_append, actPTerm_cons, actPTerm_cons, ih, pcomp_assoc]

/-- do two Pauli factors anticommute?  (same qubit, different non-identity actions) -/
def anti (f g : Nat × Nat) : Nat :=
  if f.1 = g.1 ∧ f.2 ≠ g.2 ∧ 1 ≤ f.2 ∧ f.2 ≤ 3 ∧ 1 ≤ g.2 ∧ g.2 ≤ 3 then 1 else 0

theorem actP_other (j p s : Nat) (h1 : p ≠ 1) (h2 : p ≠ 2) (h3 : p ≠ 3) : actP j p s = (0, s) := by
  unfold actP
  split <;> simp_all

theorem pfac_other (j p : Nat) (h1 : p ≠ 1) (h2 : p ≠ 2) (h3 : p ≠ 3) : pfac (j, p) = pid := by
  funext s; simp [pfac, pid, actP_other j p s h1 h2 h3]

theorem anti_other_left (f g : Nat × Nat) (h1 : f.2 ≠ 1) (h2 : f.2 ≠ 2) (h3 : f.2 ≠ 3) : anti f g = 0 := by
  unfold anti; split
  · omega
  · rfl

theorem anti_other_right (f g : Nat × Nat) (h1 : g.2 ≠ 1) (h2 : g.2 ≠ 2) (h3 : g.2 ≠ 3) : anti f g = 0 := by
  unfold anti; split
  · omega
  · rfl

/-- the Pauli relations in the Spec: two factors commute up to `(-1)^anti` -/
theorem pfac_swap (f g : Nat × Nat) : pcomp (pfac f) (pfac g) = pshift (2 * anti f g) (pcomp (pfac g) (pfac f)) := by
  obtain ⟨i, p⟩ := f
  obtain ⟨j, q⟩ := g
  by_cases hpo : p ≠ 1 ∧ p ≠ 2 ∧ p ≠ 3
  · obtain ⟨h1, h2, h3⟩ := hpo
    rw [anti_other_left _ _ h1 h2 h3, pfac_other i p h1 h2 h3, pcomp_pid_left _ (red_pfac _),
      pcomp_pid_right _ (red_pfac _), pshift_zero _ (red_pfac _)]
  by_cases hqo : q ≠ 1 ∧ q ≠ 2 ∧ q ≠ 3
  · obtain ⟨h1, h2, h3⟩ := hqo
    rw [anti_other_right _ _ h1 h2 h3, pfac_other j q h1 h2 h3, pcomp_pid_left _ (red_pfac _),
      pcomp_pid_right _ (red_pfac _), pshift_zero _ (red_pfac _)]
  have hp : p = 1 ∨ p = 2 ∨ p = 3 := by omega
  have hq : q = 1 ∨ q = 2 ∨ q = 3 := by omega
  funext s
  by_cases hij : i = j
  · subst hij
    have h1 := xflip_xflip s i
    have h2 := testBit_xflip s i
    rcases hp with rfl | rfl | rfl <;> rcases hq with rfl | rfl | rfl <;>
      cases h : s.testBit i <;> simp [pcomp, pshift, pfac, anti, actP, h, h1, h2]
  · have h1 := testBit_xflip_ne s i j hij
    have h2 := testBit_xflip_ne s j i (Ne.symm hij)
    have h3 := xflip_comm s i j
    have ha : anti (i, p) (j, q) = 0 := by simp [anti, hij]
    rcases hp with rfl | rfl | rfl <;> rcases hq with rfl | rfl | rfl <;>
      cases h : s.testBit i <;> cases h' : s.testBit j <;>
      simp [pcomp, pshift, pfac, ha, actP, h, h', h1, h2, h3]

/-- number of factors of `t` that anticommute with `f` -/
def crossF (f : Nat × Nat) : Term → Nat
  | [] => 0
  | g :: t => anti f g + crossF f t

/-- number of anticommuting pairs (factor of `a`, factor of `b`) -/
def cross : Term → Term → Nat
  | [], _ => 0
  | f :: a, b => crossF f b + cross a b

/-- a factor moves through a term at the price of `(-1)^crossF` -/
theorem pfac_term_swap (f : Nat × Nat) (t : Term) :
    pcomp (pfac f) (actPTerm t) = pshift (2 * crossF f t) (pcomp (actPTerm t) (pfac f)) := by
  induction t with
  | nil =>
    rw [actPTerm_nil, pcomp_pid_left _ (red_pfac f), pcomp_pid_right _ (red_pfac f)]
    simp [crossF, pshift_zero _ (red_pfac f)]
  | cons g t ih =>
    rw [actPTerm_cons, ← pcomp_assoc, pfac_swap, pshift_pcomp_left, pcomp_assoc, ih, pshift_pcomp_right,
      pshift_pshift, ← pcomp_assoc]
    apply pshift_congr
    simp only [crossF]; omega

/-- two terms commute up to `(-1)^cross` -/
theorem term_swap (a b : Term) :
    actPTerm (a ++ b) = pshift (2 * cross a b) (actPTerm (b ++ a)) := by
  induction a with
  | nil =>
    simp [cross, pshift_zero _ (red_actPTerm b)]
  | cons f a ih =>
    have e1 : b ++ f :: a = (b ++ [f]) ++ a := by simp
    rw [List.cons_append, actPTerm_cons, ih, pshift_pcomp_right, actPTerm_append b a, ← pcomp_assoc,
      pfac_term_swap, pshift_pcomp_left, pshift_pshift, e1, actPTerm_append (b ++ [f]) a, actPTerm_append b [f],
      actPTerm_cons, actPTerm_nil, pcomp_pid_right _ (red_pfac f)]
    apply pshift_congr
    simp only [cross]; omega

theorem pshift_two_eq_iff (k : Nat) (f : PMap) (hf : Red f) (s : Nat) :
    pshift (2 * k) f s = f s ↔ k % 2 = 0 := by
  have := hf s
  simp only [pshift]
  constructor
  · intro h
    have h' := congrArg Prod.fst h
    simp at h'
    omega
  · intro h
    ext <;> simp
    omega

/-- the parity rule in the Spec: `⟦a⟧⟦b⟧ = ⟦b⟧⟦a⟧` on a basis state iff the number of
anticommuting factor pairs is even -/
theorem actPTerm_comm_iff (a b : Term) (s : Nat) :
    actPTerm (a ++ b) s = actPTerm (b ++ a) s ↔ cross a b % 2 = 0 := by
  rw [term_swap a b]
  exact pshift_two_eq_iff _ _ (red_actPTerm _) s

/-! ### the merge walk of `trivially_commutes` computes the parity of `cross` -/

/-- strictly increasing qubit indices, actions X / Y / Z -/
def PauliString (t : Term) : Prop :=
  t.Pairwise (fun f g => f.1 < g.1) ∧ ∀ f ∈ t, 1 ≤ f.2 ∧ f.2 ≤ 3

theorem crossF_eq_zero_of_lt (f : Nat × Nat) (t : Term) (h : ∀ g ∈ t, f.1 < g.1) : crossF f t = 0 := by
  induction t with
  | nil => rfl
  | cons g t ih =>
    have hg := h g (by simp)
    have : anti f g = 0 := by
      unfold anti; split
      · omega
      · rfl
    simp [crossF, this, ih (fun g' hg' => h g' (by simp [hg']))]

theorem cross_cons_right_of_lt (a : Term) (g : Nat × Nat) (b : Term) (h : ∀ f ∈ a, g.1 < f.1) :
    cross a (g :: b) = cross a b := by
  induction a with
  | nil => rfl
  | cons f a ih =>
    have hf := h f (by simp)
    have : anti f g = 0 := by
      unfold anti; split
      · omega
      · rfl
    simp [cross, crossF, this, ih (fun f' hf' => h f' (by simp [hf']))]

theorem cross_nil_right (a : Term) : cross a [] = 0 := by
  induction a with
  | nil => rfl
  | cons f a ih => simp [cross, crossF, ih]

theorem PauliString.tail {f : Nat × Nat} {t : Term} (h : PauliString (f :: t)) : PauliString t :=
  ⟨(List.pairwise_cons.mp h.1).2, fun g hg => h.2 g (by simp [hg])⟩

theorem PauliString.head_lt {f : Nat × Nat} {t : Term} (h : PauliString (f :: t)) : ∀ g ∈ t, f.1 < g.1 :=
  (List.pairwise_cons.mp h.1).1

open OFV.Model.C07 in
/-- the `while` loop of `trivially_commutes` flips its flag once per anticommuting pair -/
theorem trivCommLoop_eq (c : Bool) (a b : Term) (ha : PauliString a) (hb : PauliString b) :
    trivCommLoop c a b = (if cross a b % 2 = 0 then c else !c) := by
  fun_induction trivCommLoop c a b with
  | case1 c b => simp [cross]
  | case2 c f ra => simp [cross_nil_right]
  | case3 c qa aa ra qb ab rb hgt ih =>
    rw [ih ha hb.tail, cross_cons_right_of_lt]
    intro f hf
    rcases List.mem_cons.mp hf with rfl | hf
    · exact hgt
    · have := ha.head_lt f hf
      simp at this ⊢; omega
  | case4 c qa aa ra qb ab rb hgt hlt ih =>
    rw [ih ha.tail hb]
    have : crossF (qa, aa) ((qb, ab) :: rb) = 0 := by
      apply crossF_eq_zero_of_lt
      intro g hg
      rcases List.mem_cons.mp hg with rfl | hg
      · exact hlt
      · have := hb.head_lt g hg
        simp at this ⊢; omega
    simp [cross, this]
  | case5 c qa aa ra qb ab rb hgt hlt hne ih =>
    have hq : qa = qb := by omega
    subst hq
    rw [ih ha.tail hb.tail]
    have h1 : crossF (qa, aa) rb = 0 := crossF_eq_zero_of_lt _ _ (hb.head_lt)
    have h2 : cross ra ((qa, ab) :: rb) = cross ra rb := cross_cons_right_of_lt _ _ _ (ha.head_lt)
    have va := ha.2 (qa, aa) (by simp)
    have vb := hb.2 (qa, ab) (by simp)
    have h3 : anti (qa, aa) (qa, ab) = 1 := by
      unfold anti; simp at va vb ⊢; omega
    simp only [cross, crossF, h1, h2, h3]
    have : (1 + 0 + cross ra rb) % 2 = 0 ↔ ¬ cross ra rb % 2 = 0 := by omega
    by_cases hc : cross ra rb % 2 = 0 <;> simp [hc, this]
  | case6 c qa aa ra qb ab rb hgt hlt heq ih =>
    have hq : qa = qb := by omega
    subst hq
    rw [ih ha.tail hb.tail]
    have h1 : crossF (qa, aa) rb = 0 := crossF_eq_zero_of_lt _ _ (hb.head_lt)
    have h2 : cross ra ((qa, ab) :: rb) = cross ra rb := cross_cons_right_of_lt _ _ _ (ha.head_lt)
    have h3 : anti (qa, aa) (qa, ab) = 0 := by
      unfold anti; simp at heq; simp [heq]
    simp only [cross, crossF, h1, h2, h3]
    simp

/-! ### double commutators of Pauli strings -/

theorem crossF_eq_zero_of_ne (f : Nat × Nat) (t : Term) (h : ∀ g ∈ t, f.1 ≠ g.1) : crossF f t = 0 := by
  induction t with
  | nil => rfl
  | cons g t ih =>
    have hg := h g (by simp)
    have : anti f g = 0 := by
      unfold anti; split
      · omega
      · rfl
    simp [crossF, this, ih (fun g' hg' => h g' (by simp [hg']))]

theorem cross_eq_zero_of_disjoint (a t : Term) (h : ∀ f ∈ a, ∀ g ∈ t, f.1 ≠ g.1) : cross a t = 0 := by
  induction a with
  | nil => rfl
  | cons f a ih =>
    simp [cross, crossF_eq_zero_of_ne f t (h f (by simp)), ih (fun f' hf' => h f' (by simp [hf']))]

theorem actPTerm_comm_of_cross_zero (a t : Term) (h : cross a t = 0) : actPTerm (a ++ t) = actPTerm (t ++ a) := by
  rw [term_swap, h]; exact pshift_zero _ (red_actPTerm _)

theorem gq_cancel1 (x y : GQ) : x - x - y + y = 0 := by
  apply GQ.ext <;> simp <;> grind

theorem gq_cancel2 (x y : GQ) : x - y - x + y = 0 := by
  apply GQ.ext <;> simp <;> grind

open OFV.Spec.C07 in
/-- if `b`, `c` commute then `[a, [b, c]] = 0` -/
theorem dcP_of_comm (a b c : Term) (h : actPTerm (b ++ c) = actPTerm (c ++ b)) : DoubleCommZeroP a b c := by
  intro s u
  have e1 : actPTerm (a ++ b ++ c) = actPTerm (a ++ c ++ b) := by
    rw [List.append_assoc, List.append_assoc, actPTerm_append a, actPTerm_append a, h]
  have e2 : actPTerm (b ++ c ++ a) = actPTerm (c ++ b ++ a) := by
    rw [actPTerm_append (b ++ c), actPTerm_append (c ++ b), h]
  simp only [dcAmpP, ampP, e1, e2]
  exact gq_cancel1 _ _

open OFV.Spec.C07 in
/-- if `a` commutes with `b c` and with `c b` then `[a, [b, c]] = 0` -/
theorem dcP_of_outer (a b c : Term) (h1 : actPTerm (a ++ (b ++ c)) = actPTerm ((b ++ c) ++ a))
    (h2 : actPTerm (a ++ (c ++ b)) = actPTerm ((c ++ b) ++ a)) : DoubleCommZeroP a b c := by
  intro s u
  simp only [dcAmpP, ampP, List.append_assoc] at *
  rw [← h1, ← h2]
  exact gq_cancel2 _ _

/-! ### Pauli strings are Hermitian -/

/-- `g` is the adjoint of `f`: `⟨s| g |s'⟩ = conj ⟨s'| f |s⟩` (phases `i^k`, `conj = i^{4-k}`) -/
def PAdj (f g : PMap) : Prop := ∀ s, g (f s).2 = ((4 - (f s).1) % 4, s)

theorem padj_pcomp {f f' g g' : PMap} (hf : PAdj f f') (hg : PAdj g g') (rf : Red f) (rg : Red g) :
    PAdj (pcomp f g) (pcomp g' f') := by
  intro s
  have h1 := hf (g s).2
  have h2 := hg s
  have r1 := rf (g s).2
  have r2 := rg s
  simp only [pcomp] at *
  rw [h1]
  simp only
  rw [h2]
  simp only [Prod.mk.injEq, and_true]
  omega

theorem padj_pid : PAdj pid pid := by
  intro s; simp [pid]

/-- every single Pauli is self-adjoint -/
theorem padj_pfac (x : Nat × Nat) : PAdj (pfac x) (pfac x) := by
  obtain ⟨j, p⟩ := x
  intro s
  by_cases hpo : p ≠ 1 ∧ p ≠ 2 ∧ p ≠ 3
  · obtain ⟨h1, h2, h3⟩ := hpo
    simp [pfac, actP_other j p _ h1 h2 h3]
  have hp : p = 1 ∨ p = 2 ∨ p = 3 := by omega
  have h1 := xflip_xflip s j
  have h2 := testBit_xflip s j
  rcases hp with rfl | rfl | rfl <;> cases h : s.testBit j <;> simp [pfac, actP, h, h1, h2]

/-- the adjoint of a product is the reversed product -/
theorem padj_term (t : Term) : PAdj (actPTerm t) (actPTerm t.reverse) := by
  induction t with
  | nil => simp only [List.reverse_nil, actPTerm_nil]; exact padj_pid
  | cons x t ih =>
    rw [List.reverse_cons, actPTerm_cons, actPTerm_append, actPTerm_cons, actPTerm_nil,
      pcomp_pid_right _ (red_pfac x)]
    exact padj_pcomp (padj_pfac x) ih (red_pfac x) (red_actPTerm t)

theorem cross_single_of_ne (t : Term) (x : Nat × Nat) (h : ∀ g ∈ t, g.1 ≠ x.1) : cross t [x] = 0 := by
  induction t with
  | nil => rfl
  | cons g t ih =>
    have hg := h g (by simp)
    have : anti g x = 0 := by
      unfold anti; split
      · omega
      · rfl
    simp [cross, crossF, this, ih (fun g' hg' => h g' (by simp [hg']))]

/-- on distinct qubits the order of the factors does not matter -/
theorem actPTerm_reverse (t : Term) (h : t.Pairwise (fun f g => f.1 < g.1)) :
    actPTerm t.reverse = actPTerm t := by
  induction t with
  | nil => rfl
  | cons x t ih =>
    have hp := List.pairwise_cons.mp h
    have hne : ∀ g ∈ t.reverse, g.1 ≠ x.1 := by
      intro g hg
      have := hp.1 g (List.mem_reverse.mp hg)
      omega
    rw [List.reverse_cons, term_swap, cross_single_of_ne _ _ hne, pshift_zero _ (red_actPTerm _)]
    rw [List.singleton_append, actPTerm_cons, actPTerm_cons, ih hp.2]

end C07
end Proofs
end OFV
