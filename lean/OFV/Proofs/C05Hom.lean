/-
Generalisation of `Sem.foldl_mulOp_sound` to an encoded state space: qubit basis states that matter
are the images `emb s` of abstract states `s : σ` (for Bravyi-Kitaev: `emb = enc`).
Also: coefficients produced by `_simplify` are powers of `i`; `+=` / `-=` of two single strings.
-/
import OFV.Proofs.C04Sum
import OFV.Proofs.C04Term

namespace OFV
namespace Sem
open Spec Model

/-- monomial action of a list of factors on an abstract state (leftmost applied last) -/
def actTermS {σ : Type} (act : Nat × Nat → σ → Option (GQ × σ)) (t : List (Nat × Nat)) (s : σ) : Option (GQ × σ) :=
  t.foldr (fun f acc => match acc with
    | none => none
    | some (c, s') => match act f s' with
      | none => none
      | some (c', s'') => some (c * c', s'')) (some (1, s))

theorem foldl_mulOp_sound_emb {σ : Type} (emb : σ → Nat) (img : Nat × Nat → Op)
    (act : Nat × Nat → σ → Option (GQ × σ))
    (hv : ∀ f, ValidOp (img f))
    (himg : ∀ f (s : σ) (W : Nat → GQ),
      ((img f).map fun r => r.2 * GQ.ipow (actPTerm r.1 (emb s)).1 * W (actPTerm r.1 (emb s)).2).sum
        = match act f s with
          | none => 0
          | some (c, s') => c * W (emb s'))
    (t : List (Nat × Nat)) (w : Op) (hw : ValidOp w) (s : σ) (x : Nat) :
    den .qubit (t.foldl (fun w f => mulOp .qubit w (img f)) w) [emb s] [x]
      = match actTermS act t s with
        | none => 0
        | some (c, s') => c * den .qubit w [emb s'] [x] := by
  induction t generalizing w with
  | nil => simp [actTermS]
  | cons f t ih =>
    simp only [List.foldl_cons]
    rw [ih (mulOp .qubit w (img f)) (mulOp_valid hw (hv f))]
    simp only [actTermS, List.foldr_cons]
    cases h1 : List.foldr (fun f acc => match acc with
        | none => none
        | some (c, s') => match act f s' with
          | none => none
          | some (c', s'') => some (c * c', s'')) (some (1, s)) t with
    | none => rfl
    | some cs =>
      obtain ⟨c, s'⟩ := cs
      simp only
      rw [den_mulOp_right w (img f) hw (hv f), himg f s' (fun y => den .qubit w [y] [x])]
      cases h2 : act f s' with
      | none => simp
      | some cs2 => obtain ⟨c', s''⟩ := cs2; simp only; ring

/-! ### coefficients of `_simplify` -/

theorem mergeQ_coef (l : Nat × Nat) (rest : List (Nat × Nat)) : ∃ K, (mergeQ l rest).1 = GQ.ipow K := by
  induction rest generalizing l with
  | nil => exact ⟨0, rfl⟩
  | cons r rest ih =>
    simp only [mergeQ]
    split
    · obtain ⟨K, hK⟩ := ih (l.1, (Generated.pauliProd l.2 r.2).2)
      refine ⟨(Generated.pauliProdK l.2 r.2).1 + K, ?_⟩
      simp only [Generated.pauliProd] at hK ⊢
      rw [hK, ipow_add]
    · exact ih r

theorem simplifyQubit_coef (t : List (Nat × Nat)) : ∃ K, (simplifyQubit t).1 = GQ.ipow K := by
  unfold simplifyQubit
  split
  · exact ⟨0, rfl⟩
  · exact mergeQ_coef _ _

theorem den_mk (t : List (Nat × Nat)) (ht : ValidQ t) (c : GQ) (m x : Nat) :
    den .qubit (mk .qubit t c) [m] [x] = c * termCoef .qubit t [m] [x] := by
  simp only [mk, simplify]
  rw [den_cons, den_nil, add_zero, mul_assoc, termCoef_simplify ht]

theorem mk_valid (t : List (Nat × Nat)) (ht : ValidQ t) (c : GQ) : ValidOp (mk .qubit t c) := by
  intro tc h
  simp only [mk, simplify, List.mem_singleton] at h
  subst h
  exact simplifyQubit_valid ht

/-! ### `a += b`, `a -= b` for single strings -/

theorem isub_eq_iadd (tol : Rat) (a b : Op) :
    isub tol a b = iadd tol a (b.map fun tc => (tc.1, -tc.2)) := by
  induction b generalizing a with
  | nil => rfl
  | cons tc b ih =>
    simp only [isub, iadd, List.map_cons, List.foldl_cons] at ih ⊢
    rw [sub_eq_add_neg]
    exact ih _

theorem iaddOk_single (tol : Rat) (htol : tol * tol ≤ 1 / 4) (k1 k2 : List (Nat × Nat)) (c1 c2 : GQ)
    (h2 : 1 / 4 ≤ (0 + c2).normSq) (h12 : (c1 + c2).normSq < 1 / 4 → c1 + c2 = 0) :
    C04.iaddOk tol [(k1, c1)] [(k2, c2)] = true := by
  simp only [C04.iaddOk, List.foldl_cons, List.foldl_nil, C04.iaddStep, Dict.getD, Dict.get?]
  by_cases hk : k1 = k2
  · simp only [hk, if_true, Option.getD_some]
    by_cases hs : GQ.isSmall tol (c1 + c2) = true
    · simp only [hs, if_true, Bool.true_and]
      have : (c1 + c2).normSq < 1 / 4 := by
        simp only [GQ.isSmall, decide_eq_true_eq] at hs; exact lt_of_lt_of_le hs htol
      simp [h12 this]
    · simp [hs]
  · simp only [hk, if_false, Option.getD_none]
    by_cases hs : GQ.isSmall tol (0 + c2) = true
    · exfalso
      simp only [GQ.isSmall, decide_eq_true_eq] at hs
      exact absurd (lt_of_lt_of_le hs htol) (not_lt.2 h2)
    · rw [if_neg hs]

end Sem
end OFV

namespace OFV
namespace Sem
open Spec Model

/-! ### weighted sums over a dictionary (generic in what a string contributes) -/

/-- `Σ_{(t, c) ∈ A} c · φ t` -/
def sumφ (φ : List (Nat × Nat) → GQ) (A : Op) : GQ := (A.map fun tc => tc.2 * φ tc.1).sum

theorem sumφ_nil (φ : List (Nat × Nat) → GQ) : sumφ φ [] = 0 := rfl

theorem sumφ_cons (φ : List (Nat × Nat) → GQ) (t : List (Nat × Nat)) (c : GQ) (A : Op) :
    sumφ φ ((t, c) :: A) = c * φ t + sumφ φ A := by simp [sumφ]

theorem sumφ_set (φ : List (Nat × Nat) → GQ) (d : Op) (k : List (Nat × Nat)) (v : GQ) :
    sumφ φ (Dict.set d k v) = sumφ φ d + (v - Dict.getD d k 0) * φ k := by
  induction d with
  | nil => simp [Dict.set, Dict.getD, Dict.get?, sumφ_cons, sumφ_nil]
  | cons e r ih =>
    obtain ⟨k', v'⟩ := e
    by_cases h : k' = k
    · subst h
      simp only [Dict.set, Dict.getD, Dict.get?, if_true, sumφ_cons, Option.getD_some]
      ring
    · simp only [Dict.set, Dict.getD, Dict.get?, h, if_false, sumφ_cons] at ih ⊢
      rw [ih]; ring

theorem sumφ_erase (φ : List (Nat × Nat) → GQ) (d : Op) (k : List (Nat × Nat)) :
    sumφ φ (Dict.erase d k) = sumφ φ d - Dict.getD d k 0 * φ k := by
  induction d with
  | nil => simp [Dict.erase, Dict.getD, Dict.get?, sumφ_nil]
  | cons e r ih =>
    obtain ⟨k', v'⟩ := e
    by_cases h : k' = k
    · subst h
      simp only [Dict.erase, Dict.getD, Dict.get?, if_true, sumφ_cons, Option.getD_some]
      ring
    · simp only [Dict.erase, Dict.getD, Dict.get?, h, if_false, sumφ_cons] at ih ⊢
      rw [ih]; ring

theorem sumφ_iadd_fold (φ : List (Nat × Nat) → GQ) (tol : Rat) (b a : Op) (ok : Bool)
    (h : (b.foldl (C04.iaddStep tol) (a, ok)).2 = true) :
    sumφ φ (b.foldl (C04.iaddStep tol) (a, ok)).1 = sumφ φ a + sumφ φ b := by
  induction b generalizing a ok with
  | nil => simp [sumφ_nil]
  | cons tc b ih =>
    obtain ⟨t, c⟩ := tc
    simp only [List.foldl_cons] at h ⊢
    rw [sumφ_cons]
    cases hs : GQ.isSmall tol (Dict.getD a t 0 + c) with
    | true =>
      rw [iaddStep_small tol a ok t c hs] at h ⊢
      have hok := fold_iaddStep_snd tol b _ _ h
      simp at hok
      have hv : Dict.getD a t 0 = -c := eq_neg_of_add_eq_zero_left hok.2
      rw [ih _ _ h, sumφ_erase, hv]; ring
    | false =>
      rw [iaddStep_big tol a ok t c hs] at h ⊢
      rw [ih _ _ h, sumφ_set]; ring

/-- an exact `a += b` adds the weighted sums, whatever a string contributes -/
theorem sumφ_iadd (φ : List (Nat × Nat) → GQ) (tol : Rat) (a b : Op) (h : C04.iaddOk tol a b = true) :
    sumφ φ (iadd tol a b) = sumφ φ a + sumφ φ b := by
  rw [← fold_iaddStep_fst tol b a true]
  exact sumφ_iadd_fold φ tol b a true h

/-- what a Pauli string contributes to `Σ_r c_r i^{k_r} W(m_r)` -/
def φW (m : Nat) (W : Nat → GQ) (t : List (Nat × Nat)) : GQ := GQ.ipow (actPTerm t m).1 * W (actPTerm t m).2

theorem sumφ_φW (m : Nat) (W : Nat → GQ) (A : Op) :
    (A.map fun r => r.2 * GQ.ipow (actPTerm r.1 m).1 * W (actPTerm r.1 m).2).sum = sumφ (φW m W) A := by
  unfold sumφ φW
  congr 1; apply List.map_congr_left; intro r _; ring

theorem sumφ_mk (m : Nat) (W : Nat → GQ) (t : List (Nat × Nat)) (ht : ValidQ t) (c : GQ) :
    sumφ (φW m W) (mk .qubit t c) = c * φW m W t := by
  obtain ⟨h1, h2⟩ := simplifyQubit_sound ht m
  simp only [mk, simplify, sumφ_cons, sumφ_nil, add_zero, φW, h1]
  rw [← h2]; ring

theorem erase_valid {d : Op} (k : List (Nat × Nat)) (hd : ValidOp d) : ValidOp (Dict.erase d k) := by
  induction d with
  | nil => exact hd
  | cons e r ih =>
    obtain ⟨k', v'⟩ := e
    have hr : ValidOp r := fun tc h => hd tc (List.mem_cons_of_mem _ h)
    simp only [Dict.erase]
    split
    · exact hr
    · intro tc h
      rcases List.mem_cons.1 h with rfl | h
      · exact hd _ List.mem_cons_self
      · exact ih hr tc h

theorem iadd_valid (tol : Rat) {a b : Op} (ha : ValidOp a) (hb : ValidOp b) : ValidOp (iadd tol a b) := by
  induction b generalizing a with
  | nil => exact ha
  | cons tc b ih =>
    simp only [iadd, List.foldl_cons] at ih ⊢
    apply ih _ (fun x h => hb x (List.mem_cons_of_mem _ h))
    split
    · exact erase_valid _ ha
    · exact set_valid _ ha (hb tc List.mem_cons_self)

end Sem
end OFV
