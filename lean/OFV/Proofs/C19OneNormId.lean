/-
C19 — `get_one_norm_int` (identity included) is the value of the Spec oracle `jwOneNorm … true` for symmetric one-body
and Coulomb-type two-body integrals: the oracle with and without the identity differ by `|Tr H| / 2^N`.
-/
import OFV.Proofs.C19MolOracle

namespace OFV
namespace C19P
open Spec Spec.C19 Sem

/-- the trace the oracle computes for the mask pair `(x, z)` -/
def ptv (n : Nat) (A : Model.Op) (x z : Nat) : GQ := pauliTrace n ((List.range (2 ^ n)).map (applyF A)) x z

/-- the oracle evaluated, when all traces it looks at are real -/
theorem jwOneNorm_eval (n : Nat) (A : Model.Op) (b : Bool)
    (him : ∀ x ∈ List.range (2 ^ n), ∀ z ∈ List.range (2 ^ n), ¬ (x = 0 ∧ z = 0 ∧ (!b) = true) → (ptv n A x z).im = 0) :
    jwOneNorm n A b = some (((List.range (2 ^ n)).map fun x => ((List.range (2 ^ n)).map fun z =>
        if x = 0 ∧ z = 0 ∧ (!b) = true then (0 : Rat) else rabs (ptv n A x z).re).sum).sum / ((2 ^ n : Nat) : Rat)) := by
  unfold jwOneNorm
  simp only
  rw [optFold2 (List.range (2 ^ n)) (List.range (2 ^ n)) (fun x z => x = 0 ∧ z = 0 ∧ (!b) = true)
    (fun x z => ptv n A x z) _ (fun x a z => rfl) 0 him]
  simp only [Option.map_some, zero_add]

theorem rdelta0 (N : Nat) (hN : 0 < N) (f : Nat → Rat) :
    ∑ r ∈ Finset.range N, (if r = 0 then f r else 0) = f 0 := by
  rw [Finset.sum_ite_eq']; simp [hN]

/-- the double sum with the identity = the double sum without it + the identity term -/
theorem sum_split00 (N : Nat) (hN : 0 < N) (f : Nat → Nat → Rat) :
    ((List.range N).map fun x => ((List.range N).map fun z => if x = 0 ∧ z = 0 ∧ (!true) = true then (0 : Rat) else f x z).sum).sum
      = ((List.range N).map fun x => ((List.range N).map fun z =>
          if x = 0 ∧ z = 0 ∧ (!false) = true then (0 : Rat) else f x z).sum).sum + f 0 0 := by
  simp only [rlist_sum_range_eq]
  have hpt : ∀ x z, (if x = 0 ∧ z = 0 ∧ (!true) = true then (0 : Rat) else f x z)
      = (if x = 0 ∧ z = 0 ∧ (!false) = true then (0 : Rat) else f x z)
        + (if x = 0 then (if z = 0 then f x z else 0) else 0) := by
    intro x z
    by_cases hx : x = 0 <;> by_cases hz : z = 0 <;> simp [hx, hz]
  rw [Finset.sum_congr rfl (fun x _ => Finset.sum_congr rfl (fun z _ => hpt x z))]
  simp only [Finset.sum_add_distrib]
  congr 1
  have : ∀ x ∈ Finset.range N, ∑ z ∈ Finset.range N, (if x = 0 then (if z = 0 then f x z else 0) else 0)
      = if x = 0 then f x 0 else 0 := by
    intro x _
    by_cases hx : x = 0
    · simp only [if_pos hx]
      exact rdelta0 N hN (fun z => f x z)
    · simp [if_neg hx]
  rw [Finset.sum_congr rfl this, rdelta0 N hN (fun x => f x 0)]

end C19P

namespace C19Jw
open Model Model.C04 Model.C19
open Spec.C19 (m2 m4 spinOne spinCoulomb flatReal molOp)

/-- **`get_one_norm_int` is the value of the Spec oracle with the identity included**, Coulomb-type integrals -/
theorem oneNorm_eq_oracle (tol : Rat) (n : Nat) (const : Rat) (h : List (List Rat))
    (g : List (List (List (List Rat)))) (hn : h.length = n)
    (hsupp : ∀ p q r s, ¬ (s = p ∧ r = q) → m4 g p q r s = 0)
    (symH : ∀ p q, p < n → q < n → m2 h q p = m2 h p q)
    (symJ : ∀ p q, p < n → q < n → m4 g q p p q = m4 g p q q p)
    (hok : jwDCHOk tol (2 * n) (⟨const, 0⟩ : GQ) (flatReal (2 * n) (spinOne n h)) (flatReal (2 * n) (spinCoulomb n g)) = true) :
    Spec.C19.jwOneNorm (2 * n) (molOp n const h g) true = some (oneNorm const h g) := by
  have hT := fun p q hp hq => get1_flatReal (2 * n) (spinOne n h) p q hp hq
  have hV := fun p q hp hq => get1_flatReal (2 * n) (spinCoulomb n g) p q hp hq
  have sT := fun p q hp hq => spinOne_sym n h symH p q hp hq
  have sV := fun p q hp hq => spinCoulomb_sym n g symJ p q hp hq
  have hcanon := dch_canon tol (2 * n) (⟨const, 0⟩ : GQ) _ _ hok
  have hreal := fun tc htc hne => jwDCH_real tol (2 * n) (⟨const, 0⟩ : GQ) _ _ (spinOne n h) (spinCoulomb n g) hT hV hok tc htc hne
  have heq : ∀ m u, Sem.den .qubit (jwDCH tol (2 * n) (⟨const, 0⟩ : GQ) (flatReal (2 * n) (spinOne n h))
      (flatReal (2 * n) (spinCoulomb n g))) [m] [u] = Sem.den .fermion (molOp n const h g) [m] [u] := by
    intro m u
    rw [C19P.den_mol_eq_dch n const h g hsupp m u]
    exact Sem.jwDCH_sound tol (2 * n) _ _ _
      (fun p q hp hq => by rw [hT q p hq hp, hT p q hp hq, sT p q hp hq]; rfl)
      (fun p q hp hq => by rw [hV q p hq hp, hV p q hp hq, sV p q hp hq]) hok m u
  have htr := C19P.mol_trace n const h g
  -- all traces are real
  have him : ∀ (b : Bool), ∀ x ∈ List.range (2 ^ (2 * n)), ∀ z ∈ List.range (2 ^ (2 * n)),
      ¬ (x = 0 ∧ z = 0 ∧ (!b) = true) → (C19P.ptv (2 * n) (molOp n const h g) x z).im = 0 := by
    intro b x _ z hz _
    by_cases h00 : x = 0 ∧ z = 0
    · unfold C19P.ptv
      rw [h00.1, h00.2, htr, C19P.mul_nat_im]
      simp
    · unfold C19P.ptv
      rw [C19P.pauliTrace_eq (2 * n) (molOp n const h g) _ hcanon heq x z (List.mem_range.1 hz), C19P.mul_nat_im,
        C19P.maskCoef_im (2 * n) _ hcanon hreal x z h00, mul_zero]
  have e1 := C19P.jwOneNorm_eval (2 * n) (molOp n const h g) true (him true)
  have e0 := C19P.jwOneNorm_eval (2 * n) (molOp n const h g) false (him false)
  have hw := oneNormWoConst_eq_oracle tol n const h g hn hsupp symH symJ hok
  rw [e0] at hw
  have hw' := Option.some.inj hw
  have hNpos : 0 < 2 ^ (2 * n) := Nat.two_pow_pos _
  have hN : ((2 ^ (2 * n) : Nat) : Rat) ≠ 0 := by exact_mod_cast (Nat.pos_iff_ne_zero.1 hNpos)
  rw [e1, C19P.sum_split00 (2 ^ (2 * n)) hNpos (fun x z => Spec.C19.rabs (C19P.ptv (2 * n) (molOp n const h g) x z).re),
    add_div, hw']
  congr 1
  rw [C19P.oneNorm_split, hn, add_comm]
  congr 1
  show Spec.C19.rabs (C19P.ptv (2 * n) (molOp n const h g) 0 0).re / _ = _
  unfold C19P.ptv
  rw [htr, C19P.rabs_mul_nat, mul_comm, mul_div_assoc, div_self hN, mul_one]
  rfl

end C19Jw
end OFV
