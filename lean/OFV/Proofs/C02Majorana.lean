/- C02 — helper lemmas about the Majorana merge (`_merge_majorana_terms`) and the
commutation shortcut (`_majorana_terms_commute`). -/
import Mathlib.Tactic.Linarith
import Mathlib.Tactic.Ring
import OFV.Model.C02

namespace OFV
namespace Proofs
namespace C02
open Model Model.C02

theorem mergeM_nil_left (r : MTerm) : mergeM [] r = (r, 0) := by
  unfold mergeM; rfl

theorem mergeM_nil_right (l : MTerm) : mergeM l [] = (l, 0) := by
  cases l <;> simp [mergeM]

theorem interM_nil_left (r : MTerm) : interM [] r = 0 := by
  unfold interM; rfl

theorem interM_nil_right (l : MTerm) : interM l [] = 0 := by
  cases l <;> simp [interM]

/-- merging in either order gives the same index list -/
theorem mergeM_term_comm (a b : MTerm) : (mergeM a b).1 = (mergeM b a).1 := by
  fun_induction mergeM a b with
  | case1 r => simp [mergeM_nil_right]
  | case2 l h => simp [mergeM_nil_left]
  | case3 x l y r hlt res ih =>
    have h1 : ¬ y < x := by omega
    rw [mergeM.eq_3 y r x l]
    simp [h1, hlt, res, ih]
  | case4 x l y r hnlt hlt res ih =>
    rw [mergeM.eq_3 y r x l]
    simp [hlt, res, ih]
  | case5 x l y r hnlt hnlt' res ih =>
    have : x = y := by omega
    subst this
    rw [mergeM.eq_3 x r x l]
    simp [res, ih]

/-- parity counters of the two merge orders and the size of the intersection -/
theorem mergeM_parity_sum (a b : MTerm) :
    (mergeM a b).2 + (mergeM b a).2 + interM a b = a.length * b.length := by
  fun_induction mergeM a b with
  | case1 r => simp [mergeM_nil_right, interM_nil_left]
  | case2 l h => simp [mergeM_nil_left, interM_nil_right]
  | case3 x l y r hlt res ih =>
    have h1 : ¬ y < x := by omega
    rw [mergeM.eq_3 y r x l, interM.eq_3 x l y r]
    simp only [h1, hlt, if_true, if_false, res] at ih ⊢
    simp only [List.length_cons] at ih ⊢
    nlinarith
  | case4 x l y r hnlt hlt res ih =>
    rw [mergeM.eq_3 y r x l, interM.eq_3 x l y r]
    simp only [hnlt, hlt, if_true, if_false, res] at ih ⊢
    simp only [List.length_cons] at ih ⊢
    nlinarith
  | case5 x l y r hnlt hnlt' res ih =>
    have : x = y := by omega
    subst this
    rw [mergeM.eq_3 x r x l, interM.eq_3 x l x r]
    simp only [Nat.lt_irrefl, if_false, res] at ih ⊢
    simp only [List.length_cons] at ih ⊢
    nlinarith

theorem shortcut_iff_parities (a b : MTerm) :
    majoranaTermsCommute a b = true ↔ (mergeM a b).2 % 2 = (mergeM b a).2 % 2 := by
  have h := mergeM_parity_sum a b
  unfold majoranaTermsCommute
  simp only [beq_iff_eq]
  omega

theorem gq_mul_comm (a b : GQ) : a * b = b * a := by
  apply GQ.ext <;> simp <;> ring

theorem gq_mul_one (a : GQ) : a * 1 = a := by
  apply GQ.ext <;> simp

theorem gq_mul_neg_one (a : GQ) : a * (-1) = -a := by
  apply GQ.ext <;> simp

theorem gq_eq_neg_self (a : GQ) (h : a = -a) : a = 0 := by
  have h1 : a.re = -a.re := by simpa using congrArg GQ.re h
  have h2 : a.im = -a.im := by simpa using congrArg GQ.im h
  apply GQ.ext
  · simp; linarith
  · simp; linarith

theorem sgn_cases (k : Nat) : (k % 2 = 0 ∧ GQ.sgn k = 1) ∨ (k % 2 = 1 ∧ GQ.sgn k = -1) := by
  unfold GQ.sgn
  rcases Nat.mod_two_eq_zero_or_one k with h | h <;> simp [h]

theorem mul_sgn_eq_iff (x : GQ) (hx : x ≠ 0) (p q : Nat) :
    x * GQ.sgn p = x * GQ.sgn q ↔ p % 2 = q % 2 := by
  rcases sgn_cases p with ⟨hp, sp⟩ | ⟨hp, sp⟩ <;> rcases sgn_cases q with ⟨hq, sq⟩ | ⟨hq, sq⟩ <;>
    rw [sp, sq, hp, hq]
  · simp
  · simp only [gq_mul_one, gq_mul_neg_one]
    constructor
    · intro h; exact absurd (gq_eq_neg_self x h) hx
    · intro h; omega
  · simp only [gq_mul_one, gq_mul_neg_one]
    constructor
    · intro h; exact absurd (gq_eq_neg_self x h.symm) hx
    · intro h; omega
  · simp

theorem mmul_single (ta tb : MTerm) (ca cb : GQ) :
    mmul [(ta, ca)] [(tb, cb)] = [((mergeM ta tb).1, ca * cb * GQ.sgn (mergeM ta tb).2)] := by
  simp [mmul, maccum, Dict.get?, Dict.set]

end C02
end Proofs
end OFV
