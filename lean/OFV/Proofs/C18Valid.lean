/- C18 — every yield of `_asynchronous_iter`, `pair_within_simultaneously_binned` and `_symmetric` is a partial
matching of the labels: it uses at most one result of every iterator. -/
import OFV.Proofs.C18Binned
import Mathlib.Data.List.Perm.Subperm

namespace OFV.Proofs.C18Valid
open OFV.Model.C18 OFV.Spec.C18 OFV.Proofs.C18 OFV.Proofs.C18Pws OFV.Proofs.C18Async OFV.Proofs.C18Binned
open OFV.Proofs.C18Binary List

/-- a pairing that uses every label of `S` at most once and no other label -/
def SubMatch (S : List L) (x : Pairing L) : Prop := wellFormed x = true ∧ (labelsOf x).Subperm S

theorem SubMatch.nil (S : List L) : SubMatch S [] := ⟨rfl, by simp [labelsOf]⟩

theorem SubMatch.append {S1 S2 : List L} {x1 x2 : Pairing L} (h1 : SubMatch S1 x1) (h2 : SubMatch S2 x2) :
    SubMatch (S1 ++ S2) (x1 ++ x2) :=
  ⟨by rw [wellFormed_append, h1.1, h2.1]; rfl, by rw [labelsOf_append]; exact h1.2.append h2.2⟩

theorem SubMatch.mono {S S' : List L} {x : Pairing L} (h : SubMatch S x) (hs : S.Subperm S') : SubMatch S' x :=
  ⟨h.1, h.2.trans hs⟩

theorem SubMatch.of_full {S : List L} {x : Pairing L} (h : FullMatch S x) : SubMatch S x := ⟨h.1, h.2.subperm⟩

theorem subperm_nodup {l1 l2 : List L} (h : l1.Subperm l2) (hn : l2.Nodup) : l1.Nodup := by
  obtain ⟨l, hp, hs⟩ := h
  exact hp.nodup_iff.mp (hn.sublist hs)

theorem SubMatch.partial {S : List L} {x : Pairing L} (h : SubMatch S x) (hn : S.Nodup) :
    isPartialMatchingOf S x = true := by
  simp only [isPartialMatchingOf, Bool.and_eq_true, decide_eq_true_eq, all_eq_true, contains_iff_mem]
  exact ⟨⟨h.1, subperm_nodup h.2 hn⟩, fun y hy => h.2.subset hy⟩

/-- every result of iterator `l` is a sub-matching of its label list `S` -/
def Iter (l : List (Pairing L)) (S : List L) : Prop := ∀ x ∈ l, SubMatch S x

/-- choices of at most one result per iterator -/
theorem flattenRes_sub : ∀ {cs : List (Option (Pairing L))} {Ss : List (List L)},
    Forall₂ (fun c S => ∀ x, c = some x → SubMatch S x) cs Ss → SubMatch Ss.flatten (flattenRes cs) := by
  intro cs Ss h
  induction h with
  | nil => exact SubMatch.nil _
  | @cons c S cs Ss hc _ ih =>
    rw [flatten_cons]
    cases c with
    | none =>
      have e : flattenRes (none :: cs) = [] ++ flattenRes cs := by simp [flattenRes]
      rw [e]; exact (SubMatch.nil S).append ih
    | some x =>
      have e : flattenRes (some x :: cs) = x ++ flattenRes cs := by simp [flattenRes]
      rw [e]; exact (hc x rfl).append ih

theorem forall₂_append_split {α β : Type} {R : α → β → Prop} : ∀ {a b : List α} {c : List β},
    Forall₂ R (a ++ b) c → ∃ c1 c2, c = c1 ++ c2 ∧ Forall₂ R a c1 ∧ Forall₂ R b c2 := by
  intro a
  induction a with
  | nil => intro b c h; exact ⟨[], c, rfl, Forall₂.nil, h⟩
  | cons x a ih =>
    intro b c h
    cases h with
    | @cons _ y _ c' hxy hrest =>
      obtain ⟨c1, c2, rfl, h1, h2⟩ := ih hrest
      exact ⟨y :: c1, c2, rfl, Forall₂.cons hxy h1, h2⟩


/-! ### the yields of `_asynchronous_iter` -/

theorem edge_valid {lists : List (List (Pairing L))} {Ss : List (List L)} (H : Forall₂ Iter lists Ss) :
    SubMatch Ss.flatten (flattenRes (lists.map (fun l => l.head?))) := by
  apply flattenRes_sub
  rw [forall₂_map_left_iff]
  refine H.imp ?_
  intro l S hl x hx
  exact hl x (mem_of_mem_head? hx)

theorem parallel_valid {its : List (List (Pairing L))} {Ss : List (List L)} (H : Forall₂ Iter its Ss) :
    Iter (parallelIter its) Ss.flatten := by
  intro u hu
  simp only [parallelIter, mem_filter, mem_map, mem_range] at hu
  obtain ⟨⟨t, _, rfl⟩, _⟩ := hu
  clear * - H
  induction H with
  | nil => exact SubMatch.nil _
  | @cons l S ls Ss hl _ ih =>
    rw [flatMap_cons, flatten_cons]
    refine SubMatch.append ?_ ih
    by_cases ht : t < l.length
    · have : l.getD t [] = l[t] := by simp [getD_eq_getElem?_getD, ht]
      rw [this]; exact hl _ (getElem_mem ht)
    · have : l.getD t [] = [] := by simp [getD_eq_getElem?_getD, getElem?_eq_none (by omega : l.length ≤ t)]
      rw [this]; exact SubMatch.nil _

/-- an entry of the padded copy of iterator `i` is `None` or one of its results -/
theorem padded_entry_mem (lists : List (List (Pairing L))) (new i idx : Nat) (x : Pairing L)
    (h : ((lists.map (fun l => l.map some ++ List.replicate (new - l.length) none)).getD i []).getD idx none = some x) :
    ∃ hi : i < lists.length, x ∈ lists[i] := by
  by_cases hi : i < lists.length
  · refine ⟨hi, ?_⟩
    simp only [getD_eq_getElem?_getD, getElem?_map, getElem?_eq_getElem hi, Option.map_some,
      Option.getD_some] at h
    by_cases hidx : idx < (lists[i]).length
    · rw [getElem?_append_left (by simpa using hidx)] at h
      simp only [getElem?_map, getElem?_eq_getElem hidx, Option.map_some, Option.getD_some,
        Option.some.injEq] at h
      rw [← h]; exact getElem_mem hidx
    · rw [getElem?_append_right (by simp; omega)] at h
      rw [getElem?_replicate] at h
      split at h <;> simp at h
  · simp [getD_eq_getElem?_getD, getElem?_eq_none (by omega : lists.length ≤ i)] at h

theorem padded_valid {lists : List (List (Pairing L))} {Ss : List (List L)} (H : Forall₂ Iter lists Ss)
    (hk : lists.length ≠ 0) : ∀ r ∈ asyncPadded lists, SubMatch Ss.flatten r := by
  intro r hr
  simp only [asyncPadded, mem_flatMap, mem_map, mem_range] at hr
  obtain ⟨j, _, l, _, rfl⟩ := hr
  apply flattenRes_sub
  rw [forall₂_iff_get]
  have hlen := H.length_eq
  refine ⟨by simp; omega, ?_⟩
  intro i h1 h2
  have hiS : i < Ss.length := h2
  have hil : i < lists.length := by omega
  intro x hx
  have hH := (forall₂_iff_get.mp H).2 i hil hiS
  simp only [get_eq_getElem] at hx hH ⊢
  by_cases hi : i < lists.length - 1
  · rw [getElem_append_left (by simpa using hi)] at hx
    simp only [getElem_map, getElem_range] at hx
    obtain ⟨_, hm⟩ := padded_entry_mem lists _ i _ x hx
    exact hH x hm
  · have hi' : i = lists.length - 1 := by omega
    rw [getElem_append_right (by simp; omega)] at hx
    simp only [length_map, length_range, hi', Nat.sub_self, getElem_cons_zero] at hx
    obtain ⟨_, hm⟩ := padded_entry_mem lists _ (lists.length - 1) _ x hx
    have : lists[lists.length - 1] = lists[i] := by simp [hi']
    rw [this] at hm
    exact hH x hm


/-- inverse direction of the accumulation over the partitions -/
theorem fold_collect_inv {π ρ : Type} (f : π → Option (List ρ)) (step : Option (List ρ) → π → Option (List ρ))
    (hs1 : ∀ a p, step (some a) p = (f p).map (a ++ ·)) (hs2 : ∀ p, step none p = none) :
    ∀ (parts : List π) (acc : Option (List ρ)) (ys : List ρ), parts.foldl step acc = some ys →
      ∃ a, acc = some a ∧ ∀ z ∈ ys, z ∈ a ∨ ∃ p ∈ parts, ∃ r, f p = some r ∧ z ∈ r := by
  intro parts
  induction parts with
  | nil => intro acc ys h; exact ⟨ys, h, fun z hz => Or.inl hz⟩
  | cons p ps ih =>
    intro acc ys h
    rw [foldl_cons] at h
    obtain ⟨a', ha', hz⟩ := ih _ ys h
    cases acc with
    | none => rw [hs2] at ha'; cases ha'
    | some a =>
      rw [hs1] at ha'
      cases hf : f p with
      | none => rw [hf] at ha'; cases ha'
      | some r =>
        rw [hf] at ha'
        simp only [Option.map_some, Option.some.injEq] at ha'
        subst ha'
        refine ⟨a, rfl, ?_⟩
        intro z hzz
        rcases hz z hzz with h1 | ⟨q, hq, r', hr', hzr⟩
        · rcases mem_append.mp h1 with h2 | h2
          · exact Or.inl h2
          · exact Or.inr ⟨p, by simp, r, hf, h2⟩
        · exact Or.inr ⟨q, mem_cons_of_mem _ hq, r', hr', hzr⟩

/-- every yield of `_asynchronous_iter` takes at most one result from every iterator -/
theorem async_valid_aux : ∀ (fuel : Nat) (lists : List (List (Pairing L))) (Ss : List (List L)),
    Forall₂ Iter lists Ss → ∀ ys, asyncIterAux fuel lists = some ys → ∀ r ∈ ys, SubMatch Ss.flatten r := by
  intro fuel
  induction fuel with
  | zero => intro lists Ss _ ys h; simp [asyncIterAux] at h
  | succ fuel ih =>
    intro lists Ss H ys h r hr
    unfold asyncIterAux at h
    by_cases hk : lists.length = 0
    · simp [hk] at h
    · simp only [hk, if_false] at h
      by_cases h1 : lists.foldl (fun acc l => max acc l.length) 0 = 1
      · simp only [h1, if_true, Option.some.injEq] at h
        subst h
        simp only [mem_singleton] at hr; subst hr
        exact edge_valid H
      · simp only [h1, if_false] at h
        by_cases hsmall : (lists.length + 1) ^ (lists.foldl (fun acc l => max acc l.length) 0 *
            lists.foldl (fun acc l => max acc l.length) 0) < 2 ^ (lists.length * lists.length)
        · simp only [hsmall, if_true] at h
          by_cases hk2 : 2 ≤ lists.length
          · obtain ⟨kk, hbp, _⟩ := binaryPartition_loop lists hk2
            simp only [hbp] at h
            -- read the accumulation backwards
            have key : ∀ (step : Option (List (Pairing L)) → List (List (Pairing L)) × List (List (Pairing L)) →
                  Option (List (Pairing L))),
                (∀ a p, step (some a) p =
                  (asyncIterAux fuel [parallelIter p.1, parallelIter p.2]).map (a ++ ·)) →
                (∀ p, step none p = none) →
                (binaryLoop ((lists.length + 1) / 2) kk lists).foldl step (some []) = some ys →
                SubMatch Ss.flatten r := by
              intro step hs1 hs2 hf
              obtain ⟨a, ha, hz⟩ := fold_collect_inv
                (fun p => asyncIterAux fuel [parallelIter p.1, parallelIter p.2]) step hs1 hs2 _ _ ys hf
              injection ha with ha; subst ha
              rcases hz r hr with h0 | ⟨p, hp, rp, hrp, hrin⟩
              · simp at h0
              · have hperm := binaryLoop_perm kk _ lists p hp
                obtain ⟨mid, hmid, hmp⟩ := perm_comp_forall₂ hperm H
                obtain ⟨m1, m2, rfl, hm1, hm2⟩ := forall₂_append_split hmid
                have H2 : Forall₂ Iter [parallelIter p.1, parallelIter p.2] [m1.flatten, m2.flatten] :=
                  Forall₂.cons (parallel_valid hm1) (Forall₂.cons (parallel_valid hm2) Forall₂.nil)
                have := ih _ _ H2 rp hrp r hrin
                refine this.mono ?_
                have e : [m1.flatten, m2.flatten].flatten = (m1 ++ m2).flatten := by simp
                rw [e]
                exact hmp.flatten.subperm
            exact key _ (by intro a p; cases asyncIterAux fuel [parallelIter p.1, parallelIter p.2] <;> rfl)
              (by intro p; rfl) h
          · have : lists.length < 2 := by omega
            simp [binaryPartition, this] at h
        · simp only [hsmall, if_false, Option.some.injEq] at h
          subst h
          exact padded_valid H hk r hr

theorem async_valid {lists : List (List (Pairing L))} {Ss : List (List L)} (H : Forall₂ Iter lists Ss)
    {ys : List (Pairing L)} (h : asyncIter lists = some ys) : ∀ r ∈ ys, SubMatch Ss.flatten r :=
  async_valid_aux 3 lists Ss H ys h


/-! ### the yields of the binned variant -/

theorem fold_gaps_inv (A : Nat → Option (List (Pairing L)))
    (step : List (Pairing L) × Bool → Nat → List (Pairing L) × Bool) :
    ∀ (gaps : List Nat) (acc : List (Pairing L)),
      (∀ acc gap r, gap ∈ gaps → A gap = some r → step (acc, true) gap = (acc ++ r, true)) →
      (∀ gap ∈ gaps, ∃ r, A gap = some r) →
      ∀ z ∈ (gaps.foldl step (acc, true)).1, z ∈ acc ∨ ∃ gap ∈ gaps, ∃ r, A gap = some r ∧ z ∈ r := by
  intro gaps
  induction gaps with
  | nil => intro acc _ _ z hz; exact Or.inl hz
  | cons g gs ih =>
    intro acc hstep hall z hz
    obtain ⟨r, hr⟩ := hall g (by simp)
    rw [foldl_cons, hstep acc g r (by simp) hr] at hz
    rcases ih (acc ++ r) (fun a gap r' hg => hstep a gap r' (mem_cons_of_mem _ hg))
      (fun gap hg => hall gap (mem_cons_of_mem _ hg)) z hz with h | ⟨gap, hgap, r', hr', hzr⟩
    · rcases mem_append.mp h with h' | h'
      · exact Or.inl h'
      · exact Or.inr ⟨g, by simp, r, hr, h'⟩
    · exact Or.inr ⟨gap, mem_cons_of_mem _ hgap, r', hr', hzr⟩

theorem iter_map {f : List L → List (Pairing L)} (hf : ∀ b, ∀ y ∈ f b, SubMatch b y) :
    ∀ (bs : List (List L)), Forall₂ Iter (bs.map f) bs := by
  intro bs
  induction bs with
  | nil => exact Forall₂.nil
  | cons b r ih => exact Forall₂.cons (hf b) ih

/-- the label lists of the iterators of one gap are pairwise disjoint parts of the labels -/
theorem gap_labels_subperm {bins : List (List L)} {s : Nat} (hB : Bins bins s) (g : Nat) (hg1 : 1 ≤ g) :
    (((List.range bins.length).filter (fun i => i < i ^^^ g)).map
      (fun i => bins.getD i [] ++ bins.getD (i ^^^ g) [])).flatten.Subperm bins.flatten := by
  apply subperm_of_subset
  · rw [nodup_flatten]
    refine ⟨?_, ?_⟩
    · intro l hl
      simp only [mem_map, mem_filter, mem_range, decide_eq_true_eq] at hl
      obtain ⟨i, ⟨_, hlt⟩, rfl⟩ := hl
      exact hB.disjoint i (i ^^^ g) (by omega)
    · rw [pairwise_map]
      refine ((pairwise_lt_range (n := bins.length)).sublist filter_sublist).imp_of_mem ?_
      intro i j hi hj hij x hx hy
      simp only [mem_filter, mem_range, decide_eq_true_eq] at hi hj
      have hjj : (j ^^^ g) ^^^ g = j := by rw [Nat.xor_assoc, Nat.xor_self, Nat.xor_zero]
      have hii : (i ^^^ g) ^^^ g = i := by rw [Nat.xor_assoc, Nat.xor_self, Nat.xor_zero]
      have n1 : i ≠ j := by omega
      have n2 : i ≠ j ^^^ g := by omega
      have n3 : i ^^^ g ≠ j := by
        intro e; have : j ^^^ g = i := by rw [← e, hii]
        omega
      have n4 : i ^^^ g ≠ j ^^^ g := by
        intro e; apply n1
        have := congrArg (· ^^^ g) e
        simp only [hii, hjj] at this; exact this
      have dis : ∀ u v, u ≠ v → x ∈ bins.getD u [] → x ∈ bins.getD v [] → False := by
        intro u v huv h1 h2
        exact (nodup_append.mp (hB.disjoint u v huv)).2.2 x h1 x h2 rfl
      rcases mem_append.mp hx with h1 | h1 <;> rcases mem_append.mp hy with h2 | h2
      · exact dis _ _ n1 h1 h2
      · exact dis _ _ n2 h1 h2
      · exact dis _ _ n3 h1 h2
      · exact dis _ _ n4 h1 h2
  · intro x hx
    simp only [mem_flatten, mem_map, mem_filter, mem_range] at hx
    obtain ⟨l, ⟨i, _, rfl⟩, hm⟩ := hx
    rcases mem_append.mp hm with h | h
    · have hi := mem_bin_lt h
      have e : bins.getD i [] = bins[i] := by simp [getD_eq_getElem?_getD, hi]
      rw [e] at h
      exact mem_flatten.mpr ⟨_, getElem_mem hi, h⟩
    · have hi := mem_bin_lt h
      have e : bins.getD (i ^^^ g) [] = bins[i ^^^ g] := by simp [getD_eq_getElem?_getD, hi]
      rw [e] at h
      exact mem_flatten.mpr ⟨_, getElem_mem hi, h⟩


/-- every yield of `pair_within_simultaneously_binned` is a partial matching of the labels -/
theorem binned_valid {bins : List (List L)} {s : Nat} (hB : Bins bins s) :
    ∀ y ∈ (pwsBinned bins).1, SubMatch bins.flatten y := by
  have hnb : bins.length ≠ 0 := by rw [hB.len]; exact Nat.ne_of_gt (Nat.two_pow_pos s)
  have hgood : ∀ b ∈ bins, b.Nodup ∧ none ∉ b := by
    intro b hb
    exact ⟨(nodup_flatten.mp hB.nd).1 b hb, fun hm => hB.nn (mem_flatten.mpr ⟨b, hb, hm⟩)⟩
  -- the iterators of the first two stages
  have H1 : Forall₂ Iter (bins.map pairWithinSimultaneously) bins := by
    have key : ∀ (bs : List (List L)), (∀ b ∈ bs, b ∈ bins) →
        Forall₂ Iter (bs.map pairWithinSimultaneously) bs := by
      intro bs
      induction bs with
      | nil => intro _; exact Forall₂.nil
      | cons b r ih =>
        intro hsub
        have hb := hgood b (hsub b (by simp))
        exact Forall₂.cons (fun y hy => SubMatch.of_full (pws_full b hb.1 hb.2 y hy))
          (ih (fun x hx => hsub x (mem_cons_of_mem _ hx)))
    exact key bins (fun _ h => h)
  have H2 : Forall₂ Iter (bins.map pairWithin) bins := by
    have key : ∀ (bs : List (List L)), (∀ b ∈ bs, b ∈ bins) → Forall₂ Iter (bs.map pairWithin) bs := by
      intro bs
      induction bs with
      | nil => intro _; exact Forall₂.nil
      | cons b r ih =>
        intro hsub
        have hb := hgood b (hsub b (by simp))
        exact Forall₂.cons (fun y hy => SubMatch.of_full (pairWithin_full b hb.1 hb.2 y hy))
          (ih (fun x hx => hsub x (mem_cons_of_mem _ hx)))
    exact key bins (fun _ h => h)
  obtain ⟨s2, hs2e, hs2v⟩ : ∃ s2, (if bins.foldl (fun acc b => max acc b.length) 0 > 1 ∧ bins.length > 1
      then asyncIter (bins.map pairWithin) else some []) = some s2 ∧ ∀ r ∈ s2, SubMatch bins.flatten r := by
    by_cases hc : bins.foldl (fun acc b => max acc b.length) 0 > 1 ∧ bins.length > 1
    · obtain ⟨s2, h1, _⟩ := async_within hB hc.1
      exact ⟨s2, by rw [if_pos hc]; exact h1, async_valid H2 h1⟩
    · exact ⟨[], by rw [if_neg hc], by simp⟩
  have hgaps : ∀ gap ∈ List.range' 1 (bins.length / 2 - 1), ∃ r, asyncIter (gapLists bins gap) = some r := by
    intro gap hg
    simp only [mem_range'_1] at hg
    have : gap < 2 ^ s := by rw [← hB.len]; omega
    obtain ⟨r, hr, _⟩ := async_gap hB gap hg.1 this
    exact ⟨r, hr⟩
  have hgapv : ∀ gap ∈ List.range' 1 (bins.length / 2 - 1), ∀ r, asyncIter (gapLists bins gap) = some r →
      ∀ z ∈ r, SubMatch bins.flatten z := by
    intro gap hg r hr z hz
    simp only [mem_range'_1] at hg
    have HG : Forall₂ Iter (gapLists bins gap)
        (((List.range bins.length).filter (fun i => i < i ^^^ gap)).map
          (fun i => bins.getD i [] ++ bins.getD (i ^^^ gap) [])) := by
      unfold gapLists
      generalize (List.range bins.length).filter (fun i => i < i ^^^ gap) = idxs
      induction idxs with
      | nil => exact Forall₂.nil
      | cons i r ih =>
        exact Forall₂.cons (fun y hy => SubMatch.of_full (pairBetween_full _ _ 0 y hy)) ih
    exact (async_valid HG hr z hz).mono (gap_labels_subperm hB gap hg.1)
  intro y hy
  unfold pwsBinned at hy
  simp only [hnb, if_false, hs2e] at hy
  suffices key : ∀ (step : List (Pairing L) × Bool → Nat → List (Pairing L) × Bool),
      (∀ acc gap r, gap ∈ List.range' 1 (bins.length / 2 - 1) → asyncIter (gapLists bins gap) = some r →
        step (acc, true) gap = (acc ++ r, true)) →
      y ∈ parallelIter (bins.map pairWithinSimultaneously) ++ s2 ++
        ((List.range' 1 (bins.length / 2 - 1)).foldl step ([], true)).1 → SubMatch bins.flatten y from
    key _ (by
      intro acc gap r hg hr
      simp only [mem_range'_1] at hg
      have hany : ((List.range bins.length).filter (fun i => i < i ^^^ gap)).any (fun i => bins.length ≤ i ^^^ gap) = false := by
        rw [Bool.eq_false_iff]
        intro hc
        simp only [any_eq_true, mem_filter, mem_range, decide_eq_true_eq] at hc
        obtain ⟨i, ⟨hi, _⟩, hle⟩ := hc
        have : i ^^^ gap < 2 ^ s := Nat.xor_lt_two_pow (by rw [← hB.len]; exact hi) (by rw [← hB.len]; omega)
        rw [hB.len] at hle; omega
      have hr' : asyncIter (((List.range bins.length).filter (fun i => i < i ^^^ gap)).map
          (fun i => pairBetween (bins.getD i []) (bins.getD (i ^^^ gap) []) 0)) = some r := hr
      simp only [Bool.not_true, Bool.false_eq_true, if_false, hany, hr']) hy
  intro step hstep hy'
  rcases mem_append.mp hy' with h12 | h3
  · rcases mem_append.mp h12 with h1 | h2
    · exact parallel_valid H1 y h1
    · exact hs2v y h2
  · rcases fold_gaps_inv (fun g => asyncIter (gapLists bins g)) step _ [] hstep hgaps y h3 with h | ⟨gap, hg, r, hr, hz⟩
    · simp at h
    · exact hgapv gap hg r hr y hz


/-! ### the Spec predicate of the binned and symmetric variants -/

theorem binned_aux (bins : List (List L)) : ∀ (k : Nat),
    ((bins.zipIdx k).flatMap (fun (bi : List L × Nat) => bi.1.map (fun x => (x, bi.2)))).map (·.1) = bins.flatten ∧
    ∀ x i, (x, i) ∈ (bins.zipIdx k).flatMap (fun (bi : List L × Nat) => bi.1.map (fun x => (x, bi.2))) →
      k ≤ i ∧ x ∈ bins.getD (i - k) [] := by
  induction bins with
  | nil => intro k; simp
  | cons b r ih =>
    intro k
    obtain ⟨h1, h2⟩ := ih (k + 1)
    refine ⟨?_, ?_⟩
    · simp only [zipIdx_cons, flatMap_cons, map_append, flatten_cons, h1, map_map]
      congr 1
      conv_rhs => rw [← map_id b]
      rfl
    · intro x i hm
      simp only [zipIdx_cons, flatMap_cons, mem_append, mem_map] at hm
      rcases hm with ⟨y, hy, e⟩ | hm
      · injection e with e1 e2; subst e1 e2
        exact ⟨Nat.le_refl _, by simpa using hy⟩
      · obtain ⟨a, b'⟩ := h2 x i hm
        refine ⟨by omega, ?_⟩
        have : i - k = (i - (k + 1)) + 1 := by omega
        rw [this]; simpa using b'

/-- `pair_within_simultaneously_binned`: the full statement of the Spec -/
theorem binned_spec {bins : List (List L)} {s : Nat} (hB : Bins bins s) :
    (pwsBinned bins).2 = true ∧ quadsCovered bins (pwsBinned bins).1 = true := by
  obtain ⟨h1, h2⟩ := binned_covers hB
  refine ⟨h1, ?_⟩
  simp only [quadsCovered, Bool.and_eq_true, all_eq_true]
  refine ⟨fun y hy => (binned_valid hB y hy).partial hB.nd, ?_⟩
  intro q hq
  obtain ⟨hsub, hlen⟩ := subsetsLen_sublist 4 _ q hq
  obtain ⟨hfst, hmem⟩ := binned_aux bins 0
  match q, hlen with
  | [a, b, c, d], _ =>
    simp only [Bool.or_eq_true, bne_iff_ne, ne_eq]
    by_cases hx : a.2 ^^^ b.2 ^^^ c.2 ^^^ d.2 = 0
    · right
      have hm : ∀ e ∈ [a, b, c, d], e.1 ∈ bins.getD e.2 [] := by
        intro e he
        have := hmem e.1 e.2 (hsub.subset he)
        simpa using this.2
      have hnd : [a.1, b.1, c.1, d.1].Nodup := by
        have h1' := hsub.map (·.1)
        have : (binned bins).map (·.1) = bins.flatten := hfst
        rw [this] at h1'
        exact hB.nd.sublist (by simpa using h1')
      exact h2 a.2 b.2 c.2 d.2 a.1 b.1 c.1 d.1
        ⟨hm a (by simp), hm b (by simp), hm c (by simp), hm d (by simp), hnd, hx⟩
    · exact Or.inl hx

/-- `pair_within_simultaneously_symmetric`: the full statement of the Spec -/
theorem symmetric_spec (nf ns : Nat) (hnf : 1 ≤ nf) :
    (pwsSymmetric nf ns).2 = true ∧ quadsCovered (symBins nf ns) (pwsSymmetric nf ns).1 = true := by
  rw [pwsSymmetric_eq]
  exact binned_spec (symBins_ok nf ns hnf)

end OFV.Proofs.C18Valid
