/- C18 — `_asynchronous_iter`, padded branch: the index pattern `(j*k + l) mod L'` brings any two
entries of two different lists together when `L'` has no divisor in `[2, K-1)` (Latin-square argument). -/
import OFV.Proofs.C18Padding
import Mathlib.Data.ZMod.Basic
import Mathlib.Tactic.Ring

namespace OFV.Proofs.C18Async
open OFV.Model.C18 OFV.Spec.C18 OFV.Proofs.C18 List

/-- two rows `a < b` of the pattern can be steered to any two columns when `b - a` is invertible mod `N` -/
theorem solve_two (N a b p q : Nat) (hab : a < b) (hcop : Nat.Coprime (b - a) N) (hp : p < N) (hq : q < N) :
    ∃ j < N, ∃ l < N, (j * a + l) % N = p ∧ (j * b + l) % N = q := by
  haveI : NeZero N := ⟨by omega⟩
  let u : (ZMod N)ˣ := ZMod.unitOfCoprime (b - a) hcop
  have hu : (u : ZMod N) = (b : ZMod N) - (a : ZMod N) := by
    rw [ZMod.coe_unitOfCoprime, Nat.cast_sub (Nat.le_of_lt hab)]
  let jz : ZMod N := (↑u⁻¹ : ZMod N) * ((q : ZMod N) - (p : ZMod N))
  let lz : ZMod N := (p : ZMod N) - jz * (a : ZMod N)
  refine ⟨jz.val, ZMod.val_lt _, lz.val, ZMod.val_lt _, ?_, ?_⟩
  · have : ((jz.val * a + lz.val : ℕ) : ZMod N) = (p : ZMod N) := by
      push_cast; rw [ZMod.natCast_zmod_val, ZMod.natCast_zmod_val]; simp only [lz]; ring
    have h := (ZMod.natCast_eq_natCast_iff' _ _ _).mp this
    rwa [Nat.mod_eq_of_lt hp] at h
  · have hinv : (u : ZMod N) * (↑u⁻¹ : ZMod N) = 1 := by
      rw [← Units.val_mul, mul_inv_cancel, Units.val_one]
    have : ((jz.val * b + lz.val : ℕ) : ZMod N) = (q : ZMod N) := by
      push_cast; rw [ZMod.natCast_zmod_val, ZMod.natCast_zmod_val]
      have e : jz * (b : ZMod N) + lz = (p : ZMod N) + jz * ((b : ZMod N) - (a : ZMod N)) := by
        simp only [lz]; ring
      rw [e, ← hu]
      simp only [jz]
      calc (p : ZMod N) + (↑u⁻¹ : ZMod N) * ((q : ZMod N) - p) * (u : ZMod N)
          = (p : ZMod N) + ((u : ZMod N) * (↑u⁻¹ : ZMod N)) * ((q : ZMod N) - p) := by ring
        _ = q := by rw [hinv]; ring
    have h := (ZMod.natCast_eq_natCast_iff' _ _ _).mp this
    rwa [Nat.mod_eq_of_lt hq] at h

/-- a row and the directly indexed last row -/
theorem solve_last (N a p q : Nat) (hp : p < N) (hq : q < N) : ∃ l < N, (q * a + l) % N = p := by
  haveI : NeZero N := ⟨by omega⟩
  let lz : ZMod N := (p : ZMod N) - (q : ZMod N) * (a : ZMod N)
  refine ⟨lz.val, ZMod.val_lt _, ?_⟩
  have : ((q * a + lz.val : ℕ) : ZMod N) = (p : ZMod N) := by
    push_cast; rw [ZMod.natCast_zmod_val]; simp only [lz]; ring
  have h := (ZMod.natCast_eq_natCast_iff' _ _ _).mp this
  rwa [Nat.mod_eq_of_lt hp] at h

/-- the padding has no common factor with any difference of two row indices below `K - 1` -/
theorem padding_coprime (nb size d : Nat) (hd1 : 1 ≤ d) (hd2 : d + 1 < nb) (hpos : 0 < getPadding nb size) :
    Nat.Coprime d (getPadding nb size) := by
  obtain ⟨_, h2, _⟩ := getPadding_spec nb size
  rw [Nat.Coprime, Nat.gcd_eq_one_iff]
  intro c hc1 hc2
  by_contra hne
  have hc0 : c ≠ 0 := by
    intro e; subst e; simp at hc1; omega
  have hcd : c ≤ d := Nat.le_of_dvd (by omega) hc1
  have : hasSmallDivisor nb (getPadding nb size) = true :=
    (hasSmallDivisor_iff nb _).mpr ⟨c, by omega, by omega, Nat.mod_eq_zero_of_dvd hc2⟩
  rw [h2] at this; cases this


/-! ### the yields of the padded branch -/

section
variable {β : Type}

theorem le_foldl_max {γ : Type} (lists : List (List γ)) : ∀ (init : Nat),
    init ≤ lists.foldl (fun acc l => max acc l.length) init ∧
    ∀ l ∈ lists, l.length ≤ lists.foldl (fun acc l => max acc l.length) init := by
  induction lists with
  | nil => intro init; simp
  | cons a r ih =>
    intro init
    obtain ⟨h1, h2⟩ := ih (max init a.length)
    simp only [foldl_cons]
    refine ⟨by omega, ?_⟩
    intro l hl
    rcases mem_cons.mp hl with rfl | hl
    · omega
    · exact h2 l hl

theorem mem_flattenRes {rs : List (Option (List β))} {x : List β} (h : some x ∈ rs) :
    ∀ item ∈ x, item ∈ flattenRes rs := by
  intro item hi
  simp only [flattenRes, mem_flatMap]
  exact ⟨some x, h, hi⟩

/-- entry `p` of the padded copy of list `a` -/
theorem padded_entry (lists : List (List (List β))) (new a p : Nat) (ha : a < lists.length)
    (hp : p < (lists[a]).length) :
    ((lists.map (fun l => l.map some ++ List.replicate (new - l.length) none)).getD a []).getD p none
      = some ((lists[a])[p]) := by
  simp [getD_eq_getElem?_getD, ha, getElem?_append_left, hp]

/-- one yield of the padded branch -/
def padYield (lists : List (List (List β))) (new j l : Nat) : List β :=
  let padded : List (List (Option (List β))) :=
    lists.map (fun l => l.map some ++ List.replicate (new - l.length) none)
  flattenRes (((List.range (lists.length - 1)).map
      (fun kk => ((padded.getD kk []).getD ((j * kk + l) % new) none)))
    ++ [((padded.getD (lists.length - 1) []).getD j none)])

theorem mem_asyncPadded (lists : List (List (List β))) (j l : Nat)
    (hj : j < getPadding lists.length (lists.foldl (fun acc l => max acc l.length) 0))
    (hl : l < getPadding lists.length (lists.foldl (fun acc l => max acc l.length) 0)) :
    padYield lists (getPadding lists.length (lists.foldl (fun acc l => max acc l.length) 0)) j l
      ∈ asyncPadded lists := by
  simp only [asyncPadded, mem_flatMap, mem_map, mem_range]
  exact ⟨j, hj, l, hl, rfl⟩

/-- any two entries of two different lists occur together in a yield of the padded branch -/
theorem padded_core (lists : List (List (List β))) (a b : Nat) (hab : a < b) (hb : b < lists.length)
    (p q : Nat) (hp : p < (lists[a]).length) (hq : q < (lists[b]).length) :
    ∃ r ∈ asyncPadded lists, (∀ item ∈ (lists[a])[p], item ∈ r) ∧ (∀ item ∈ (lists[b])[q], item ∈ r) := by
  obtain ⟨N, hN⟩ : ∃ N, N = getPadding lists.length (lists.foldl (fun acc l => max acc l.length) 0) := ⟨_, rfl⟩
  have hsize := le_foldl_max lists 0
  have hpad := (getPadding_spec lists.length (lists.foldl (fun acc l => max acc l.length) 0)).1
  have hpN : p < N := by
    have := hsize.2 _ (getElem_mem (show a < lists.length by omega)); omega
  have hqN : q < N := by
    have := hsize.2 _ (getElem_mem hb); omega
  by_cases hlast : b = lists.length - 1
  · obtain ⟨l, hl, hl2⟩ := solve_last N a p q hpN hqN
    refine ⟨padYield lists N q l, hN ▸ mem_asyncPadded lists q l (hN ▸ hqN) (hN ▸ hl), ?_, ?_⟩
    · apply mem_flattenRes
      apply mem_append_left
      rw [mem_map]
      exact ⟨a, mem_range.mpr (by omega), by rw [hl2]; exact padded_entry lists N a p (by omega) hp⟩
    · apply mem_flattenRes
      apply mem_append_right
      rw [mem_singleton, ← hlast]
      exact (padded_entry lists N b q hb hq).symm
  · have hcop : Nat.Coprime (b - a) N := by
      rw [hN]
      exact padding_coprime _ _ (b - a) (by omega) (by omega) (by omega)
    obtain ⟨j, hj, l, hl, e1, e2⟩ := solve_two N a b p q hab hcop hpN hqN
    refine ⟨padYield lists N j l, hN ▸ mem_asyncPadded lists j l (hN ▸ hj) (hN ▸ hl), ?_, ?_⟩
    · apply mem_flattenRes
      apply mem_append_left
      rw [mem_map]
      exact ⟨a, mem_range.mpr (by omega), by rw [e1]; exact padded_entry lists N a p (by omega) hp⟩
    · apply mem_flattenRes
      apply mem_append_left
      rw [mem_map]
      exact ⟨b, mem_range.mpr (by omega), by rw [e2]; exact padded_entry lists N b q hb hq⟩

end

/-- padded branch of `_asynchronous_iter`: "generates all pairs between" the iterators -/
theorem asyncPadded_covers (lists : List (List (Pairing L))) :
    asyncCovers lists (asyncPadded lists) = true := by
  simp only [asyncCovers, all_eq_true, Bool.or_eq_true, beq_iff_eq, any_eq_true, Bool.and_eq_true,
    within, contains_iff_mem]
  intro li hli lj hlj
  obtain ⟨A, a⟩ := li
  obtain ⟨B, b⟩ := lj
  by_cases hab : a = b
  · exact Or.inl hab
  · right
    have ha := mem_zipIdx hli
    have hb := mem_zipIdx hlj
    simp only [Nat.zero_add, Nat.sub_zero] at ha hb
    obtain ⟨_, ha1, ha2⟩ := ha
    obtain ⟨_, hb1, hb2⟩ := hb
    intro x hx y hy
    simp only at hx hy
    rw [ha2] at hx; rw [hb2] at hy
    obtain ⟨p, hp, rfl⟩ := getElem_of_mem hx
    obtain ⟨q, hq, rfl⟩ := getElem_of_mem hy
    by_cases hlt : a < b
    · obtain ⟨r, hr, h1, h2⟩ := padded_core lists a b hlt hb1 p q hp hq
      exact ⟨r, hr, h1, h2⟩
    · obtain ⟨r, hr, h1, h2⟩ := padded_core lists b a (by omega) ha1 q p hq hp
      exact ⟨r, hr, h2, h1⟩

end OFV.Proofs.C18Async
