/- C09, binary_code_transform: the qubit state the update operator produces is the encoding of
the image Fock state (linearity of `A · v mod 2`). -/
import OFV.Proofs.C09Bct3

namespace OFV.C09
open OFV.Model OFV.Model.C09 OFV.Spec.C09
open OFV.Spec (actF actFTerm countBelow)
open OFV.C10 (specStep actFTerm_eq_foldl foldl_specStep_none)

/-! ### the update mask bit by bit -/

theorem updMask_go_testBit (l : List Nat) (off M q : Nat) :
    ((l.zipIdx off).foldl (fun M (qi : Nat × Nat) => if qi.1 != 0 then (1 <<< qi.2) ^^^ M else M) M).testBit q =
      xor (M.testBit q) (decide (off ≤ q) && (l.getD (q - off) 0 != 0)) := by
  induction l generalizing off M with
  | nil => simp
  | cons x r ih =>
    rw [List.zipIdx_cons, List.foldl_cons, ih]
    by_cases hq : q < off
    · have h1 : ¬ off ≤ q := by omega
      have h2 : ¬ off + 1 ≤ q := by omega
      have h3 : off ≠ q := by omega
      by_cases hx : (x != 0) = true
      · simp only [hx, if_true, h1, h2, decide_false, Bool.false_and, Bool.xor_false]
        rw [Nat.xor_comm]; exact OFV.Spec.testBit_xflip_ne M off q h3
      · simp [hx, h1, h2]
    · by_cases he : q = off
      · subst he
        have h2 : ¬ q + 1 ≤ q := by omega
        by_cases hx : (x != 0) = true
        · simp only [hx, if_true, h2, decide_false, Bool.false_and, Bool.xor_false, Nat.le_refl, decide_true,
            Bool.true_and, Nat.sub_self, List.getD_cons_zero]
          rw [Nat.xor_comm, OFV.Spec.testBit_xflip]; simp
        · have hx' : (x != 0) = false := by simpa using hx
          simp only [hx, if_false, h2, decide_false, Bool.false_and, Bool.xor_false, Nat.le_refl, decide_true,
            Bool.true_and, Nat.sub_self, List.getD_cons_zero, hx']
          simp
      · have h1 : off ≤ q := by omega
        have h2 : off + 1 ≤ q := by omega
        have h3 : off ≠ q := by omega
        have e : q - off = (q - (off + 1)) + 1 := by omega
        have hb : ((if (x != 0) = true then 1 <<< off ^^^ M else M)).testBit q = M.testBit q := by
          split
          · rw [Nat.xor_comm]; exact OFV.Spec.testBit_xflip_ne M off q h3
          · rfl
        rw [hb, e, List.getD_cons_succ]
        simp [h1, h2]

theorem updMask_testBit (cq : List Nat) (q : Nat) : (updMask cq).testBit q = (cq.getD q 0 != 0) := by
  unfold updMask
  have := updMask_go_testBit cq 0 0 q
  simpa using this

/-! ### linearity of the encoder mod 2 -/

theorem dot_mod2_congr (r a b : List Nat) (h : a.map (· % 2) = b.map (· % 2)) : dot r a % 2 = dot r b % 2 := by
  rw [← dot_mod2_right r a, ← dot_mod2_right r b, h]

theorem encFn_eq' (c : Code) (u : List Nat) (q : Nat) :
    encFn c u q = match c.enc[q]? with
      | none => false
      | some row => dot row u % 2 == 1 := by
  unfold encFn encode matVec
  rw [List.getD_eq_getElem?_getD, List.getElem?_map, List.getElem?_map]
  cases c.enc[q]? <;> simp

/-- `A (v + f) mod 2 = A v + A f mod 2`, read as bits -/
theorem encFn_add (c : Code) (v f v' : List Nat) (hl : v.length = f.length)
    (hv' : v'.map (· % 2) = (List.zipWith (· + ·) v f).map (· % 2)) (q : Nat) :
    encFn c v' q = xor (encFn c v q) (encFn c f q) := by
  rw [encFn_eq', encFn_eq', encFn_eq']
  cases c.enc[q]? with
  | none => rfl
  | some row =>
    simp only
    rw [dot_mod2_congr row v' _ hv', dot_add_right row v f hl]
    have h1 := Nat.mod_two_eq_zero_or_one (dot row v)
    have h2 := Nat.mod_two_eq_zero_or_one (dot row f)
    rcases h1 with h1 | h1 <;> rcases h2 with h2 | h2 <;>
      · have : (dot row v + dot row f) % 2 = (dot row v % 2 + dot row f % 2) % 2 := by omega
        rw [this, h1, h2]; rfl

theorem encode_entry_le (c : Code) (u : List Nat) (q : Nat) : (encode c u).getD q 0 ≤ 1 := by
  unfold encode
  rw [List.getD_eq_getElem?_getD, List.getElem?_map]
  cases (matVec c.enc u)[q]? with
  | none => simp
  | some x => simp only [Option.map_some, Option.getD_some]; omega

/-! ### the image state and the list of changed occupations -/

theorem specStep_image (r : List (Nat × Nat)) (k s0 k' s' : Nat)
    (h : r.foldl specStep (some (k, s0)) = some (k', s')) : s' = flips s0 (r.map (·.1)) := by
  induction r generalizing k s0 with
  | nil =>
    simp only [List.foldl_nil, Option.some.injEq, Prod.mk.injEq] at h
    simp [flips, h.2]
  | cons f rest ih =>
    rw [List.foldl_cons] at h
    cases ha : actF f.1 f.2 s0 with
    | none =>
      simp only [specStep, ha] at h
      rw [foldl_specStep_none] at h
      cases h
    | some ks =>
      obtain ⟨k1, s1⟩ := ks
      simp only [specStep, ha] at h
      have hs1 : s1 = s0 ^^^ (1 <<< f.1) := by
        unfold actF at ha
        split at ha
        · cases ha
        · simp only [Option.some.injEq, Prod.mk.injEq] at ha; exact ha.2.symm
      rw [ih _ _ h, hs1]
      simp [flips]

theorem addAt_fold_length (l ch : List Nat) : (l.foldl addAt ch).length = ch.length := by
  induction l generalizing ch with
  | nil => rfl
  | cons i r ih => rw [List.foldl_cons, ih]; simp [addAt]

theorem addAt_fold_get (l ch : List Nat) (j : Nat) (hj : j < ch.length) :
    (l.foldl addAt ch)[j]?.getD 0 = ch[j]?.getD 0 + (l.filter (· == j)).length := by
  induction l generalizing ch with
  | nil => simp
  | cons i r ih =>
    rw [List.foldl_cons, ih (addAt ch i) (by simpa [addAt] using hj), List.filter_cons]
    unfold addAt
    rw [List.getElem?_modify]
    have hsome : ch[j]? = some ch[j] := List.getElem?_eq_getElem hj
    rw [hsome]
    by_cases hij : i = j
    · subst hij; simp; omega
    · have : (i == j) = false := by simpa using hij
      simp [hij, this]

/-- **the encoding identity**: the qubit state `wq ⊕ M` the update operator produces from the
encoding `wq` of `v` is the encoding of the image `v'` of the Spec action `t|s⟩ = ±|s'⟩` -/
theorem encoding_identity' (c : Code) (v v' : List Nat) (wq s : Nat) (t : Model.Term) (k s' : Nat)
    (hv : v.length = c.nm) (hv' : v'.length = c.nm) (hv01 : ∀ x ∈ v, x ≤ 1) (hv'01 : ∀ x ∈ v', x ≤ 1)
    (hw : bitsOf wq = encFn c v) (hs : ∀ j, s.testBit j = (v.getD j 0 == 1))
    (hact : actFTerm t s = some (k, s')) (hs' : ∀ j, s'.testBit j = (v'.getD j 0 == 1)) :
    bitsOf (wq ^^^ updMask (encode c ((t.reverse.map (·.1)).foldl addAt (zeros c.nm)))) = encFn c v' := by
  funext q
  show (wq ^^^ _).testBit q = _
  rw [Nat.testBit_xor, updMask_testBit]
  have hwq : wq.testBit q = encFn c v q := congrFun hw q
  generalize hfl : (t.reverse.map (·.1)).foldl addAt (zeros c.nm) = fl
  have hflq : ((encode c fl).getD q 0 != 0) = encFn c fl q := by
    unfold encFn
    have := encode_entry_le c fl q
    generalize (encode c fl).getD q 0 = x at this
    match x, this with
    | 0, _ => rfl
    | 1, _ => rfl
  have hfll : fl.length = c.nm := by rw [← hfl, addAt_fold_length]; simp [zeros]
  rw [hwq, hflq]
  symm
  apply encFn_add c v fl v' (by omega)
  rw [actFTerm_eq_foldl] at hact
  have himg := specStep_image _ _ _ _ _ hact
  apply List.ext_getElem
  · simp [hv, hv', hfll]
  · intro j h1 h2
    have hj : j < c.nm := by simpa [hv'] using h1
    have e1 : v'.getD j 0 = v'[j]'(by omega) := by rw [List.getD_eq_getElem?_getD, List.getElem?_eq_getElem (by omega)]; rfl
    have e2 : v.getD j 0 = v[j]'(by omega) := by rw [List.getD_eq_getElem?_getD, List.getElem?_eq_getElem (by omega)]; rfl
    have e3 : fl[j]'(by omega) = ((t.reverse.map (·.1)).filter (· == j)).length := by
      have := addAt_fold_get (t.reverse.map (·.1)) (zeros c.nm) j (by simpa [zeros] using hj)
      rw [hfl, List.getElem?_eq_getElem (by omega)] at this
      simpa [zeros, List.getElem?_replicate, hj] using this
    have hb := hs' j
    rw [himg, testBit_flips, hs j, e1, e2, ← e3] at hb
    have b1 := hv'01 _ (List.getElem_mem (show j < v'.length by omega))
    have b2 := hv01 _ (List.getElem_mem (show j < v.length by omega))
    simp only [List.getElem_map, List.getElem_zipWith]
    generalize v'[j]'(by omega) = a' at *
    generalize v[j]'(by omega) = a at *
    generalize fl[j]'(by omega) = n at *
    have hn := Nat.mod_two_eq_zero_or_one n
    have ha : a = 0 ∨ a = 1 := by omega
    have ha' : a' = 0 ∨ a' = 1 := by omega
    rcases ha with ha | ha <;> rcases ha' with ha' | ha' <;> rcases hn with hn | hn <;>
      subst ha <;> subst ha' <;> simp [hn] at hb <;> omega

/-- the occupation vector of a Fock-state mask -/
def occList (s n : Nat) : List Nat := (List.range n).map fun j => if s.testBit j then 1 else 0

theorem occList_length (s n : Nat) : (occList s n).length = n := by simp [occList]

theorem occList_le (s n : Nat) : ∀ x ∈ occList s n, x ≤ 1 := by
  intro x hx
  simp only [occList, List.mem_map] at hx
  obtain ⟨j, _, rfl⟩ := hx
  split <;> omega

theorem occList_getD (s n j : Nat) : ((occList s n).getD j 0 == 1) = (decide (j < n) && s.testBit j) := by
  unfold occList
  rw [List.getD_eq_getElem?_getD, List.getElem?_map]
  by_cases hj : j < n
  · rw [List.getElem?_range hj]
    cases hb : s.testBit j <;> simp [hj, hb]
  · rw [List.getElem?_eq_none (by simpa using hj)]
    simp [hj]

/-- the image of the Spec action stays within the first `n` modes -/
theorem image_bits_bounded (v : List Nat) (n s : Nat) (t : Model.Term) (k s' : Nat) (hv : v.length = n)
    (hs : ∀ j, s.testBit j = (v.getD j 0 == 1)) (ht : ∀ f ∈ t, f.1 < n)
    (hact : actFTerm t s = some (k, s')) (j : Nat) (hj : n ≤ j) : s'.testBit j = false := by
  rw [actFTerm_eq_foldl] at hact
  rw [specStep_image _ _ _ _ _ hact, testBit_flips, hs j]
  have h1 : v.getD j 0 = 0 := by
    rw [List.getD_eq_getElem?_getD, List.getElem?_eq_none (by omega)]; rfl
  have h2 : (t.reverse.map (·.1)).filter (· == j) = [] := by
    rw [List.filter_eq_nil_iff]
    intro a ha
    simp only [List.mem_map, List.mem_reverse] at ha
    obtain ⟨f, hf, rfl⟩ := ha
    have := ht f hf
    simp; omega
  rw [h1, h2]; rfl

/-- the encoding identity with the image written as an occupation vector -/
theorem encoding_identity_occ (c : Code) (v : List Nat) (wq s : Nat) (t : Model.Term) (k s' : Nat)
    (hv : v.length = c.nm) (hv01 : ∀ x ∈ v, x ≤ 1) (ht : ∀ f ∈ t, f.1 < c.nm)
    (hw : bitsOf wq = encFn c v) (hs : ∀ j, s.testBit j = (v.getD j 0 == 1))
    (hact : actFTerm t s = some (k, s')) :
    bitsOf (wq ^^^ updMask (encode c ((t.reverse.map (·.1)).foldl addAt (zeros c.nm)))) =
      encFn c (occList s' c.nm) := by
  apply encoding_identity' c v (occList s' c.nm) wq s t k s' hv (occList_length _ _) hv01 (occList_le _ _) hw hs hact
  intro j
  rw [occList_getD]
  by_cases hj : j < c.nm
  · simp [hj]
  · rw [image_bits_bounded v c.nm s t k s' hv hs ht hact j (by omega)]
    simp [hj]

end OFV.C09
