/-
C08 helper lemmas: general_basis_change on Fock space.  The formal-polynomial theorem
(`basisChange_spec`: einsum = multilinear substitution, for every weight on words) is lifted to
`Module.End GQ (ℕ →₀ GQ)` through the Fock interpretation of C03 (`fockInterp`, generators `gF`
built from `Spec.actF`, matrix elements = `Spec.melF`).
-/
import OFV.Proofs.C08Iter
import OFV.Proofs.C03Fock

namespace OFV
namespace C08P
open Spec Spec.C08 Model Model.C08 Proofs.C03

abbrev FEnd := Module.End GQ Fock

theorem fend_ext {φ ψ : FEnd}
    (h : ∀ m x, (φ (Finsupp.single m 1)) x = (ψ (Finsupp.single m 1)) x) : φ = ψ := by
  apply Finsupp.lhom_ext
  intro a b
  have : (Finsupp.single a b : Fock) = b • Finsupp.single a 1 := by
    rw [Finsupp.smul_single, smul_eq_mul, mul_one]
  rw [this, map_smul, map_smul]
  congr 1
  ext x
  exact h a x

/-- `Σ_{P < n} f P` in the endomorphism ring -/
noncomputable def sumNA : Nat → (Nat → FEnd) → FEnd
  | 0, _ => 0
  | n + 1, f => sumNA n f + f n

/-- the rotated ladder operator `Σ_P R_x[a, P] · (P, x)`, `R_x = conj R` for creation operators -/
noncomputable def rotLadder (n : Nat) (R : Mat) (a x : Nat) : FEnd :=
  sumNA n (fun P => matGet (if x ≠ 0 then conjMat R else R) a P • gF (P, x))

/-- the product of rotated ladder operators along a word -/
noncomputable def rotWord (n : Nat) (R : Mat) : List Nat → Key → FEnd
  | a :: as, x :: ks => rotLadder n R a x * rotWord n R as ks
  | _, _ => 1

theorem sumNA_apply (n : Nat) (c : Nat → GQ) (G : Nat → FEnd) (L M : FEnd) (v : Fock) (out : Nat) :
    ((L * sumNA n (fun P => c P • G P) * M) v) out = sumN n (fun P => c P * ((L * G P * M) v) out) := by
  induction n with
  | zero => simp [sumNA, sumN]
  | succ n ih =>
    simp only [sumNA, sumN, mul_add, add_mul, LinearMap.add_apply, Finsupp.add_apply, ih]
    congr 1
    simp only [mul_smul_comm, smul_mul_assoc, LinearMap.smul_apply, Finsupp.smul_apply, smul_eq_mul]

/-- **key lemma**: the pulled-back weight of the matrix-element functional is the matrix element
of the product of rotated ladder operators -/
theorem pull_fock (n : Nat) (R : Mat) (s out : Nat) :
    ∀ (key : Key) (as : List Nat) (L : FEnd), as.length = key.length →
    pull n R key (fun Ps => ((L * fockInterp.evalT (Ps.zip key)) (Finsupp.single s 1)) out) as
      = ((L * rotWord n R as key) (Finsupp.single s 1)) out := by
  intro key
  induction key with
  | nil =>
    intro as L h
    have : as = [] := List.eq_nil_of_length_eq_zero h
    subst this
    simp [pull, rotWord, Interp.evalT]
  | cons x ks ih =>
    intro as L h
    cases as with
    | nil => simp at h
    | cons a as' =>
      simp only [List.length_cons, Nat.add_right_cancel_iff] at h
      simp only [pull, rotWord, rotLadder]
      have hP : ∀ P, pull n R ks (fun Ps => ((L * fockInterp.evalT ((P :: Ps).zip (x :: ks)))
            (Finsupp.single s 1)) out) as'
          = ((L * gF (P, x) * rotWord n R as' ks) (Finsupp.single s 1)) out := by
        intro P
        have := ih as' (L * gF (P, x)) h
        rw [← this]
        congr 1
      simp only [hP]
      rw [← mul_assoc, sumNA_apply]

theorem zip_valid (key : Key) (hkey : ∀ x ∈ key, x < 2) (idx : List Nat) : ∀ f ∈ idx.zip key, f.2 < 2 := by
  intro f hf
  obtain ⟨i, x⟩ := f
  exact hkey x (List.of_mem_zip hf).2

theorem denoteTensor_valid (key : Key) (hkey : ∀ x ∈ key, x < 2) (T : Tensor) :
    ∀ e ∈ denoteTensor key T, ∀ f ∈ e.1, f.2 < 2 := by
  intro e he
  simp only [denoteTensor, List.mem_map] at he
  obtain ⟨p, _, rfl⟩ := he
  exact zip_valid key hkey p.1

theorem termMel_eq_fock (τ : List (Nat × Nat)) (hv : ∀ f ∈ τ, f.2 < 2) (out s : Nat) :
    termMel τ out s = (((1 : FEnd) * fockInterp.evalT τ) (Finsupp.single s 1)) out := by
  rw [one_mul, fock_evalT_single, map_normAct_valid τ hv]
  unfold termMel imgT
  cases actFTerm τ s with
  | none => simp
  | some p => obtain ⟨k, s'⟩ := p; simp [Finsupp.single_apply]

theorem list_sum_apply (L : List (List Nat)) (F : List Nat → FEnd) (v : Fock) (out : Nat) :
    (((L.map F).sum) v) out = lsum (fun a => (F a v) out) L := by
  induction L with
  | nil => simp [lsum]
  | cons a r ih => simp only [List.map_cons, List.sum_cons, LinearMap.add_apply, Finsupp.add_apply, ih, lsum]

/-- **general_basis_change on Fock space** -/
theorem basisChange_fock (n : Nat) (R : Mat) (key : Key) (T : Tensor) (hT : Shaped n key.length T)
    (hkey : ∀ x ∈ key, x < 2) :
    fockInterp.evalOp (denoteTensor key (basisChange n R key T))
      = ((indices n key.length).map fun a => (tget a T).getD 0 • rotWord n R a key).sum := by
  apply fend_ext
  intro s out
  rw [fock_evalOp_melF _ (denoteTensor_valid key hkey _), melF_eq_evalW, evalW_denoteTensor, evK,
    (basisChange_spec n R key _ T hT).2, evalT_eq_lsum n _ _ T hT, list_sum_apply]
  apply lsum_congr
  intro a ha
  have hl := mem_indices_length n _ a ha
  have hw : (fun P : List Nat => termMel (P.zip key) out s)
      = fun Ps => (((1 : FEnd) * fockInterp.evalT (Ps.zip key)) (Finsupp.single s 1)) out := by
    funext P
    exact termMel_eq_fock _ (zip_valid key hkey P) out s
  rw [hw, pull_fock n R s out key a 1 hl, one_mul, LinearMap.smul_apply, Finsupp.smul_apply, smul_eq_mul]

end C08P
end OFV
