/- C18 — `pair_within_simultaneously`, part 1: the levels produced by `_gen_partitions`. -/
import OFV.Proofs.C18Cover

namespace OFV.Proofs.C18Pws
open OFV.Model.C18 OFV.Spec.C18 OFV.Proofs.C18 List

section
variable {β : Type}

theorem halves_eq (p : List β) : halves p = [p.take (p.length / 2), p.drop (p.length / 2)] := rfl

theorem flatten_flatMap_halves (parts : List (List β)) : (parts.flatMap halves).flatten = parts.flatten := by
  induction parts with
  | nil => rfl
  | cons p r ih =>
    simp only [flatMap_cons, halves_eq, flatten_append, flatten_cons, flatten_nil, append_nil, ih]
    rw [take_append_drop]

theorem length_flatMap_halves (parts : List (List β)) : (parts.flatMap halves).length = 2 * parts.length := by
  induction parts with
  | nil => rfl
  | cons p r ih => simp [halves_eq, ih]; omega

theorem getElem_flatMap_halves (parts : List (List β)) (i : Nat) (hi : i < parts.length) :
    (parts.flatMap halves)[2 * i]? = some ((parts[i]).take ((parts[i]).length / 2)) ∧
    (parts.flatMap halves)[2 * i + 1]? = some ((parts[i]).drop ((parts[i]).length / 2)) := by
  induction parts generalizing i with
  | nil => simp at hi
  | cons p r ih =>
    cases i with
    | zero => simp [halves_eq]
    | succ i =>
      have := ih i (by simpa using hi)
      simp only [flatMap_cons, halves_eq, getElem_cons_succ]
      have e1 : 2 * (i + 1) = 2 * i + 2 := by omega
      rw [e1]
      have e3 : 2 * i + 2 + 1 = 2 * i + 1 + 2 := by omega
      rw [e3]
      simpa using this

theorem evens_flatMap_halves (parts : List (List β)) :
    evens (parts.flatMap halves) = parts.map (fun p => p.take (p.length / 2)) := by
  induction parts with
  | nil => rfl
  | cons p r ih => simp [halves_eq, evens, ih]

theorem odds_flatMap_halves (parts : List (List β)) :
    odds (parts.flatMap halves) = parts.map (fun p => p.drop (p.length / 2)) := by
  induction parts with
  | nil => rfl
  | cons p r ih => simp [halves_eq, odds, ih]

theorem evens_map {γ : Type} (f : β → γ) : ∀ (l : List β), evens (l.map f) = (evens l).map f
  | [] => rfl
  | [a] => rfl
  | a :: b :: r => by simp [evens, evens_map f r]

theorem odds_map {γ : Type} (f : β → γ) : ∀ (l : List β), odds (l.map f) = (odds l).map f
  | [] => rfl
  | [a] => rfl
  | a :: b :: r => by simp [odds, odds_map f r]

/-- size of the last part -/
def lastLen (parts : List (List β)) : Nat := match parts.getLast? with | some p => p.length | none => 0

/-- the sizes of a level differ by at most one and the last part is a largest one -/
def Balanced (parts : List (List β)) : Prop :=
  parts ≠ [] ∧ ∀ p ∈ parts, p.length ≤ lastLen parts ∧ lastLen parts ≤ p.length + 1

theorem lastLen_flatMap_halves (parts : List (List β)) (h : parts ≠ []) :
    lastLen (parts.flatMap halves) = (lastLen parts + 1) / 2 := by
  obtain ⟨init, p, rfl⟩ : ∃ init p, parts = init ++ [p] := by
    rcases eq_nil_or_concat parts with e | ⟨i, p, e⟩
    · exact absurd e h
    · exact ⟨i, p, by rw [e, concat_eq_append]⟩
  simp [lastLen, halves_eq]
  omega

theorem balanced_step (parts : List (List β)) (h : Balanced parts) : Balanced (parts.flatMap halves) := by
  obtain ⟨hne, hb⟩ := h
  refine ⟨?_, ?_⟩
  · intro e
    have := length_flatMap_halves parts
    rw [e] at this; simp at this
    exact hne (length_eq_zero_iff.mp (by omega))
  · intro q hq
    rw [lastLen_flatMap_halves parts hne]
    simp only [mem_flatMap, halves_eq, mem_cons, not_mem_nil, or_false] at hq
    obtain ⟨p, hp, rfl | rfl⟩ := hq
    · have := hb p hp; simp; omega
    · have := hb p hp; simp; omega


theorem genPartitionsAux_head (ms fuel : Nat) (parts : List (List β)) :
    parts ∈ genPartitionsAux ms fuel parts := by
  cases fuel <;> simp [genPartitionsAux]

theorem genPartitionsAux_succ (ms fuel : Nat) (parts : List (List β)) :
    genPartitionsAux ms (fuel + 1) parts =
      parts :: (if lastLen parts < ms then [] else genPartitionsAux ms fuel (parts.flatMap halves)) := by
  unfold lastLen
  conv_lhs => unfold genPartitionsAux
  cases parts.getLast? <;> rfl

theorem genPartitionsAux_tail (ms fuel : Nat) (parts : List (List β)) (h : ms ≤ lastLen parts) :
    ∀ x ∈ genPartitionsAux ms fuel (parts.flatMap halves), x ∈ genPartitionsAux ms (fuel + 1) parts := by
  intro x hx
  rw [genPartitionsAux_succ, if_neg (by omega)]
  exact mem_cons_of_mem _ hx

end

/-! ### the yields of `pair_within_simultaneously` along the chain of levels -/

section
variable {α : Type}

/-- the yields contributed by one level -/
def levelYields (partition : List (List (Option α))) : List (Pairing (Option α)) :=
  pwsStage1 partition ++ (if lastLen partition < 3 then [] else pwsStage2 partition)

/-- the yields of a chain of levels starting at `parts` -/
def chainYields (fuel : Nat) (parts : List (List (Option α))) : List (Pairing (Option α)) :=
  (genPartitionsAux 4 fuel parts).flatMap levelYields

theorem chainYields_head (fuel : Nat) (parts : List (List (Option α))) :
    ∀ y ∈ levelYields parts, y ∈ chainYields fuel parts := by
  intro y hy
  exact mem_flatMap.mpr ⟨parts, genPartitionsAux_head 4 fuel parts, hy⟩

theorem chainYields_tail (fuel : Nat) (parts : List (List (Option α))) (h : 4 ≤ lastLen parts) :
    ∀ y ∈ chainYields fuel (parts.flatMap halves), y ∈ chainYields (fuel + 1) parts := by
  intro y hy
  obtain ⟨x, hx, hy⟩ := mem_flatMap.mp hy
  exact mem_flatMap.mpr ⟨x, genPartitionsAux_tail 4 fuel parts h x hx, hy⟩

theorem pws_eq (labels : List (Option α)) (h : 4 ≤ labels.length) :
    pairWithinSimultaneously labels = chainYields labels.length (halves labels) := by
  have h1 : ¬ labels.length ≤ 3 := by omega
  have h2 : ¬ labels.length = 1 := by omega
  simp only [pairWithinSimultaneously, h1, if_false, genPartitions, h2, chainYields]
  congr 1
  funext partition
  unfold levelYields lastLen
  cases partition.getLast? <;> rfl

end
end OFV.Proofs.C18Pws
