/- C11: `double_givens_rotate(.., which='col')` — the rotation of the two halves by `G` and `conj G` — preserves all inner
products of rows, i.e. the first canonical constraint `W₁W₁† + W₂W₂† = 1` of `fermionic_gaussian_decomposition`. -/
import OFV.Proofs.C11Unit

namespace OFV
namespace Model
namespace C11

/-- the conjugate of a column-isometric matrix is column-isometric -/
theorem G2.ColIsometry.conj {G : G2} (h : G.ColIsometry) : G.conj.ColIsometry := by
  have E1r := congrArg GQ.re h.n0
  have E1i := congrArg GQ.im h.n0
  have E2r := congrArg GQ.re h.n1
  have E2i := congrArg GQ.im h.n1
  have E3r := congrArg GQ.re h.orth
  have E3i := congrArg GQ.im h.orth
  have a := h.re00
  have b := h.re10
  simp at E1r E1i E2r E2i E3r E3i
  refine ⟨?_, ?_, ?_, ?_, ?_⟩
  · simp [G2.conj, a]
  · simp [G2.conj, b]
  · refine GQ.ext ?_ ?_ <;> simp [G2.conj] <;> linarith
  · refine GQ.ext ?_ ?_ <;> simp [G2.conj] <;> linarith
  · refine GQ.ext ?_ ?_ <;> simp [G2.conj] <;> linarith

/-- **`double_givens_rotate` preserves the Gram matrix of the rows** of an `m × 2N` matrix (for every column-isometric `G`,
in particular the `G` computed by `givens_matrix_elements` in the exact regime): `W W† ` — the first canonical constraint —
is invariant under every double rotation of `fermionic_gaussian_decomposition` -/
theorem doubleRotateCols_gram {M : Mat} {m N : Nat} (hM : Rect M m (2 * N)) {G : G2} (hG : G.ColIsometry)
    (i j : Nat) (hij : i ≠ j) (hi : i < N) (hj : j < N) :
    Rect (doubleRotateCols M G N i j) m (2 * N) ∧ SameGram M (doubleRotateCols M G N i j) m (2 * N) := by
  unfold doubleRotateCols
  have hR1 : Rect (rotateCols M G i j) m (2 * N) := rotateCols_rect hM G i j
  refine ⟨rotateCols_rect hR1 _ _ _, ?_⟩
  intro r r' hr hr'
  have s1 := rotateCols_rowDot hM hG i j hij (by omega) (by omega) r r' hr hr'
  have s2 := rotateCols_rowDot hR1 hG.conj (N + i) (N + j) (by omega) (by omega) (by omega) r r' hr hr'
  exact ⟨s2.1.trans s1.1, s2.2.trans s1.2⟩

end C11
end Model
end OFV
