/- C17 bridge: the Model's entry functions over the Gaussian rationals (what the driver executes) are the `K = GQ`
instance of the operator-level theorems of `C17Sum`: applied to the RDMs of ANY linear functional on ANY `GQ`-algebra
carrying the CAR they return the RDMs / expectation values of that functional. -/
import OFV.Model.C17
import OFV.Proofs.GQRing
import OFV.Proofs.C17Sum
import Mathlib.Tactic.Ring
import Mathlib.Tactic.FieldSimp
import Mathlib.Algebra.Order.Field.Rat

namespace OFV
namespace Model
namespace C17

open Finset OFV.Car

variable {R : Type} [Ring R] [Algebra GQ R] {n : Nat} {ad a : Nat → R}

/-- 1-RDM and 2-RDM of a functional -/
def opdmOf (φ : R →ₗ[GQ] GQ) (ad a : Nat → R) : C2 := fun p q => φ (ad p * a q)
def tpdmOf (φ : R →ₗ[GQ] GQ) (ad a : Nat → R) : C4 := fun p q r s => φ (ad p * ad q * a r * a s)

theorem gsum_append_one (l : List GQ) (x : GQ) : gsum (l ++ [x]) = gsum l + x := by
  induction l with
  | nil => simp [gsum]
  | cons y l ih =>
    show y + gsum (l ++ [x]) = y + gsum l + x
    rw [ih]; ring

theorem gsumRange_eq_sum (f : Nat → GQ) : ∀ n, gsumRange n f = ∑ r ∈ range n, f r := by
  intro n
  induction n with
  | zero => simp [gsumRange, gsum]
  | succ n ih =>
    unfold gsumRange at ih ⊢
    rw [List.range_succ, List.map_append, List.map_singleton, gsum_append_one, ih, sum_range_succ]

/-- `map_two_pdm_to_two_hole_dm` (Model) applied to the RDMs of `φ` returns the 2-hole-RDM of `φ` -/
theorem twoPdmToTwoHole_bridge (hc : CAR n ad a) (φ : R →ₗ[GQ] GQ) (hφ : φ 1 = 1) (p q r s : Nat)
    (hp : p < n) (hq : q < n) (hr : r < n) (hs : s < n) :
    twoPdmToTwoHole (tpdmOf φ ad a) (opdmOf φ ad a) s r q p = φ (a s * a r * ad q * ad p) := by
  rw [two_hole_expectation hc φ hφ p q r s hp hq hr hs]
  unfold twoPdmToTwoHole term123 delta tpdmOf opdmOf
  by_cases h1 : q = r <;> by_cases h2 : p = s <;> by_cases h3 : p = r <;> by_cases h4 : q = s <;>
    first
      | (exfalso; omega)
      | (subst_vars; simp [*]; done)
      | (subst_vars; simp [*] <;> ring1)
      | (subst_vars; simp [*, eq_comm]; done)
      | (subst_vars; simp [*, eq_comm] <;> ring1)

/-- `map_two_pdm_to_particle_hole_dm` (Model) applied to the RDMs of `φ` returns the particle-hole RDM of `φ` -/
theorem twoPdmToPh_bridge (hc : CAR n ad a) (φ : R →ₗ[GQ] GQ) (p q r s : Nat) (hq : q < n) (hr : r < n) :
    twoPdmToPh (tpdmOf φ ad a) (opdmOf φ ad a) p r q s = φ (ad p * a r * ad q * a s) := by
  rw [particle_hole_expectation hc φ p q r s hq hr]
  unfold twoPdmToPh delta tpdmOf opdmOf
  by_cases h1 : q = r <;> simp [h1]

/-- `InteractionRDM.expectation` (Model) on the RDMs of `φ` is `φ(H)` -/
theorem expectation_bridge (φ : R →ₗ[GQ] GQ) (hφ : φ 1 = 1) (c : GQ) (o1 : C2) (o2 : C4) :
    expectation n c o1 (opdmOf φ ad a) o2 (tpdmOf φ ad a) =
      φ (c • (1 : R) + (∑ p ∈ range n, ∑ q ∈ range n, o1 p q • (ad p * a q))
        + ∑ p ∈ range n, ∑ q ∈ range n, ∑ r ∈ range n, ∑ s ∈ range n, o2 p q r s • (ad p * ad q * a r * a s)) := by
  rw [expectation_bilinear φ hφ c o1 o2]
  unfold expectation opdmOf tpdmOf
  simp only [gsumRange_eq_sum]

/-- `map_two_pdm_to_one_pdm` (Model): on a functional that sees `N̂` as the number `N` (`φ(x N̂) = N φ(x)`: an
`N`-particle state), contracting the 2-RDM and dividing by `N − 1` returns the 1-RDM -/
theorem contract_bridge (hc : CAR n ad a) (φ : R →ₗ[GQ] GQ) (N : Rat) (hN1 : N - 1 ≠ 0)
    (hN : ∀ x : R, φ (x * ∑ r ∈ range n, ad r * a r) = (⟨N, 0⟩ : GQ) * φ x) (p q : Nat) (hq : q < n) :
    contract n (tpdmOf φ ad a) (N - 1) p q = opdmOf φ ad a p q := by
  unfold contract tpdmOf opdmOf
  rw [gsumRange_eq_sum, ← map_sum, contraction_sum hc p q hq, map_sub, hN]
  refine GQ.ext ?_ ?_ <;> simp [GQ.smul] <;> field_simp <;> ring

/-- rotate three nested sums: `Σ_q Σ_r Σ_s F q r s = Σ_Q Σ_R Σ_S F R S Q` -/
theorem sum_rotate3 {M : Type} [AddCommMonoid M] (n : Nat) (F : Nat → Nat → Nat → M) :
    ∑ q ∈ range n, ∑ r ∈ range n, ∑ s ∈ range n, F q r s = ∑ Q ∈ range n, ∑ Rr ∈ range n, ∑ S ∈ range n, F Rr S Q := by
  calc ∑ q ∈ range n, ∑ r ∈ range n, ∑ s ∈ range n, F q r s
      = ∑ q ∈ range n, ∑ s ∈ range n, ∑ r ∈ range n, F q r s := by
        apply sum_congr rfl; intro q _; rw [sum_comm]
    _ = ∑ s ∈ range n, ∑ q ∈ range n, ∑ r ∈ range n, F q r s := by rw [sum_comm]

/-- **`get_chemist_two_body_coefficients` (Model entries, `spin_basis=False`) is the chemist reordering**: for every
coefficient tensor `h` over the rationals and every `ℚ`-algebra with the CAR,
`Σ h_pqrs a†_p a†_q a_r a_s = Σ g_PQRS a†_P a_Q a†_R a_S + Σ_PS c_PS a†_P a_S` with `g = chemEntry h false` (the transposed
tensor) and `c_PS = −Σ_q g[P,q,q,S]` (the spatial form of `corrEntry`). -/
theorem chemEntry_bridge {R' : Type} [Ring R'] [Algebra ℚ R'] {ad a : Nat → R'} (hc : CAR n ad a)
    (h : Nat → Nat → Nat → Nat → ℚ) :
    ∑ p ∈ range n, ∑ q ∈ range n, ∑ r ∈ range n, ∑ s ∈ range n, h p q r s • (ad p * ad q * a r * a s) =
      (∑ P ∈ range n, ∑ Q ∈ range n, ∑ Rr ∈ range n, ∑ S ∈ range n,
          chemEntry h false P Q Rr S • (ad P * a Q * ad Rr * a S))
      + ∑ P ∈ range n, ∑ S ∈ range n, (-(∑ q ∈ range n, chemEntry h false P q q S)) • (ad P * a S) := by
  rw [chemist_reorder_sum hc h, sub_eq_add_neg]
  congr 1
  · apply sum_congr rfl
    intro p _
    exact sum_rotate3 n (fun q r s => h p q r s • (ad p * a s * ad q * a r))
  · rw [← sum_neg_distrib]
    apply sum_congr rfl; intro p _
    rw [← sum_neg_distrib]
    apply sum_congr rfl; intro r _
    rw [neg_smul]
    rfl

end C17
end Model
end OFV
