/- C11: the left-unitary stage of `givens_decomposition` zeroes the corner `j - i > n - m`. -/
import OFV.Model.C11
import OFV.Proofs.C11
import OFV.Proofs.C11Num
import OFV.Proofs.C11Step
import OFV.Proofs.C11Sweep

namespace OFV
namespace Model
namespace C11

theorem zipWith_getD (f : GQ → GQ → GQ) (a b : List GQ) (x : Nat) (ha : x < a.length) (hb : x < b.length) :
    (List.zipWith f a b).getD x 0 = f (a.getD x 0) (b.getD x 0) := by
  simp [List.getD_eq_getElem?_getD, List.getElem?_zipWith, List.getElem?_eq_getElem ha, List.getElem?_eq_getElem hb]

/-- entries after `givens_rotate(M, G, l, l + 1, which='row')` -/
theorem rotateRows_get (M : Mat) (G : G2) (m n l r x : Nat) (hM : Rect M m n) (hl : l + 1 < m) (hx : x < n) :
    (rotateRows M G l (l + 1)).get r x =
      if r = l + 1 then G.g10 * M.get l x + G.g11 * M.get (l + 1) x
      else if r = l then G.g00 * M.get l x + G.g01 * M.get (l + 1) x
      else M.get r x := by
  have hlen : M.length = m := hM.1
  have r1 : (M.getD l []).length = n := rect_row_len hM (by omega)
  have r2 : (M.getD (l + 1) []).length = n := rect_row_len hM hl
  unfold rotateRows Mat.get
  rw [getD_set_list', getD_set_list']
  simp only [List.length_set]
  by_cases h1 : r = l + 1
  · subst h1
    simp only [true_and, if_true]
    rw [if_pos (by omega)]
    exact zipWith_getD _ _ _ x (by omega) (by omega)
  · by_cases h2 : r = l
    · subst h2
      have e1 : ¬ (r + 1 = r ∧ r + 1 < M.length) := by omega
      simp only [e1, if_false, true_and, h1]
      rw [if_pos (by omega)]
      simp only [if_true]
      exact zipWith_getD _ _ _ x (by omega) (by omega)
    · have e1 : ¬ (l + 1 = r ∧ l + 1 < M.length) := fun h => h1 h.1.symm
      have e2 : ¬ (l = r ∧ l < M.length) := fun h => h2 h.1.symm
      simp only [e1, e2, if_false, h1, h2]

theorem rotateRows_rect {M : Mat} {m n : Nat} (hM : Rect M m n) (G : G2) (l : Nat) (hl : l + 1 < m) :
    Rect (rotateRows M G l (l + 1)) m n := by
  have r1 : (M.getD l []).length = n := rect_row_len hM (by omega)
  have r2 : (M.getD (l + 1) []).length = n := rect_row_len hM hl
  unfold rotateRows
  refine ⟨by simp [hM.1], ?_⟩
  intro row hrow
  rcases List.mem_or_eq_of_mem_set hrow with h | h
  · rcases List.mem_or_eq_of_mem_set h with h' | h'
    · exact hM.2 row h'
    · rw [h', List.length_zipWith, r1, r2]; simp
  · rw [h, List.length_zipWith, r1, r2]; simp

/-- exact regime at the left-stage step for position `(l, k)` -/
def StepExactL (tol : Rat) (M : Mat) (l k : Nat) : Prop :=
  (small tol (M.get l k) = true → M.get l k = 0) ∧
  (small tol (M.get (l + 1) k) = true → M.get (l + 1) k = 0) ∧
  RealExact tol (M.get l k) (M.get (l + 1) k) ∧
  (big tol (M.get l k) = false → M.get l k = 0)

/-- the exact regime along the run of `leftStage` (matrix part) -/
def LeftExact (tol : Rat) : List (Nat × Nat) → Mat → Prop
  | [], _ => True
  | (l, k) :: ps, M =>
    StepExactL tol M l k ∧
    (∀ G, big tol (M.get l k) = true → givensElems tol (M.get l k) (M.get (l + 1) k) false = .ok G →
      LeftExact tol ps (rotateRows M G l (l + 1))) ∧
    (big tol (M.get l k) = false → LeftExact tol ps M)

/-- one step: the target becomes zero, other rows are untouched, a column whose entries in rows `l, l+1` were both
zero keeps them -/
theorem left_step (tol : Rat) (htol : 0 < tol) (M : Mat) (m n l k : Nat) (G : G2) (hM : Rect M m n)
    (hl : l + 1 < m) (hk : k < n) (hex : StepExactL tol M l k)
    (hG : givensElems tol (M.get l k) (M.get (l + 1) k) false = .ok G) :
    (rotateRows M G l (l + 1)).get l k = 0 ∧
    (∀ r x, x < n → r ≠ l → r ≠ l + 1 → (rotateRows M G l (l + 1)).get r x = M.get r x) ∧
    (∀ x, x < n → M.get l x = 0 → M.get (l + 1) x = 0 →
      (rotateRows M G l (l + 1)).get l x = 0 ∧ (rotateRows M G l (l + 1)).get (l + 1) x = 0) := by
  refine ⟨?_, ?_, ?_⟩
  · rw [rotateRows_get M G m n l l k hM hl hk]
    have : ¬ (l = l + 1) := by omega
    simp only [this, if_false, if_true]
    obtain ⟨c, s, ph, hC, hr, rfl⟩ := givensElems_inv hex.2.2.1 hG
    have hcsp := cosSinPhase_spec htol hex.1 hex.2.1 hC
    have hz := assemble_zeroes hcsp false _ hr
    simpa [G2.Zeroes] using hz
  · intro r x hx h1 h2
    rw [rotateRows_get M G m n l r x hM hl hx]
    simp [h1, h2]
  · intro x hx h1 h2
    rw [rotateRows_get M G m n l l x hM hl hx, rotateRows_get M G m n l (l + 1) x hM hl hx]
    have : ¬ (l = l + 1) := by omega
    simp only [this, if_false, if_true, h1, h2, gq_mul_zero, gq_add_zero, and_self]

theorem leftStage_append (tol : Rat) : ∀ (ps qs : List (Nat × Nat)) (M V : Mat),
    leftStage tol (ps ++ qs) M V =
      (match leftStage tol ps M V with
       | .ok (M1, V1) => leftStage tol qs M1 V1
       | .error e => .error e) := by
  intro ps
  induction ps with
  | nil => intro qs M V; simp [leftStage]
  | cons p ps ih =>
    intro qs M V
    obtain ⟨l, k⟩ := p
    simp only [List.cons_append, leftStage]
    split
    · cases hG : givensElems tol (M.get l k) (M.get (l + 1) k) false with
      | error e => simp [bind, Except.bind]
      | ok G => simp only [bind, Except.bind]; exact ih qs _ _
    · exact ih qs M V

theorem LeftExact_append (tol : Rat) : ∀ (ps qs : List (Nat × Nat)) (M V : Mat) (M1 V1 : Mat),
    LeftExact tol (ps ++ qs) M → leftStage tol ps M V = .ok (M1, V1) →
    LeftExact tol ps M ∧ LeftExact tol qs M1 := by
  intro ps
  induction ps with
  | nil =>
    intro qs M V M1 V1 h hr
    simp [leftStage] at hr
    obtain ⟨h1, _⟩ := hr
    subst h1
    exact ⟨trivial, h⟩
  | cons p ps ih =>
    intro qs M V M1 V1 h hr
    obtain ⟨l, k⟩ := p
    obtain ⟨hs, hT, hF⟩ := h
    unfold leftStage at hr
    by_cases hb : big tol (M.get l k) = true
    · rw [if_pos hb] at hr
      cases hG : givensElems tol (M.get l k) (M.get (l + 1) k) false with
      | error e => simp [hG, bind, Except.bind] at hr
      | ok G =>
        simp only [hG, bind, Except.bind] at hr
        obtain ⟨h1, h2⟩ := ih qs _ _ M1 V1 (hT G hb hG) hr
        refine ⟨⟨hs, ?_, ?_⟩, h2⟩
        · intro G' _ hG'
          rw [hG] at hG'; injection hG' with hG'; subst hG'; exact h1
        · intro hb'; rw [hb] at hb'; cases hb'
    · have hb' : big tol (M.get l k) = false := by simpa using hb
      rw [if_neg hb] at hr
      obtain ⟨h1, h2⟩ := ih qs M V M1 V1 (hF hb') hr
      refine ⟨⟨hs, ?_, fun _ => h1⟩, h2⟩
      intro G hb2; rw [hb'] at hb2; cases hb2

/-- all columns to the right of `k0` are done: `M[l, k] = 0` whenever `k0 < k < n` and `k - l > n - m` -/
def Corner (m n : Nat) (M : Mat) (k0 : Nat) : Prop :=
  ∀ l k, k0 < k → k < n → l + (n - m) < k → M.get l k = 0

/-- processing column `k` for the rows `l0, …, l0 + cnt - 1` -/
theorem left_column (tol : Rat) (htol : 0 < tol) (m n k : Nat) (hk : k < n) :
    ∀ (cnt l0 : Nat) (M V M' V' : Mat),
      leftStage tol ((List.range' l0 cnt).map fun l => (l, k)) M V = .ok (M', V') →
      LeftExact tol ((List.range' l0 cnt).map fun l => (l, k)) M → Rect M m n →
      l0 + cnt + (n - m) ≤ k → Corner m n M k → (∀ l', l' < l0 → M.get l' k = 0) →
      Rect M' m n ∧ Corner m n M' k ∧ ∀ l', l' < l0 + cnt → M'.get l' k = 0 := by
  intro cnt
  induction cnt with
  | zero =>
    intro l0 M V M' V' h _ hR _ hc hz
    simp [leftStage] at h
    obtain ⟨h1, _⟩ := h
    subst h1
    exact ⟨hR, hc, by simpa using hz⟩
  | succ cnt ih =>
    intro l0 M V M' V' h hex hR hb hc hz
    rw [List.range'_succ, List.map_cons] at h hex
    obtain ⟨hs, hT, hF⟩ := hex
    have hl : l0 + 1 < m := by omega
    unfold leftStage at h
    by_cases hbig : big tol (M.get l0 k) = true
    · rw [if_pos hbig] at h
      cases hG : givensElems tol (M.get l0 k) (M.get (l0 + 1) k) false with
      | error e => simp [hG, bind, Except.bind] at h
      | ok G =>
        simp only [hG, bind, Except.bind] at h
        obtain ⟨ht, hoth, hpair⟩ := left_step tol htol M m n l0 k G hR hl hk hs hG
        have hR1 := rotateRows_rect hR G l0 hl
        have hc1 : Corner m n (rotateRows M G l0 (l0 + 1)) k := by
          intro l' k' h1 h2 h3
          by_cases e1 : l' = l0
          · subst e1
            exact (hpair k' h2 (hc _ k' h1 h2 h3) (hc _ k' h1 h2 (by omega))).1
          · by_cases e2 : l' = l0 + 1
            · subst e2
              exact (hpair k' h2 (hc _ k' h1 h2 (by omega)) (hc _ k' h1 h2 h3)).2
            · rw [hoth l' k' h2 e1 e2]; exact hc l' k' h1 h2 h3
        have hz1 : ∀ l', l' < l0 + 1 → (rotateRows M G l0 (l0 + 1)).get l' k = 0 := by
          intro l' hl'
          by_cases e1 : l' = l0
          · subst e1; exact ht
          · rw [hoth l' k hk e1 (by omega)]; exact hz l' (by omega)
        have := ih (l0 + 1) _ _ M' V' h (hT G hbig hG) hR1 (by omega) hc1 hz1
        refine ⟨this.1, this.2.1, ?_⟩
        intro l' hl'; exact this.2.2 l' (by omega)
    · have hbig' : big tol (M.get l0 k) = false := by simpa using hbig
      rw [if_neg hbig] at h
      have hz1 : ∀ l', l' < l0 + 1 → M.get l' k = 0 := by
        intro l' hl'
        by_cases e1 : l' = l0
        · subst e1; exact hs.2.2.2 hbig'
        · exact hz l' (by omega)
      have := ih (l0 + 1) M V M' V' h (hF hbig') hR (by omega) hc hz1
      refine ⟨this.1, this.2.1, ?_⟩
      intro l' hl'; exact this.2.2 l' (by omega)

/-- the columns `n - 1 - t` for `t = t0, …, t0 + c - 1`, as `givensLeft` lists them -/
def leftColumns (m n t0 c : Nat) : List (Nat × Nat) :=
  (List.range' t0 c).flatMap fun t => (List.range (m + (n - 1 - t) - n)).map fun l => (l, n - 1 - t)

theorem left_columns (tol : Rat) (htol : 0 < tol) (m n : Nat) (hmn : m ≤ n) :
    ∀ (c t0 : Nat) (M V M' V' : Mat),
      leftStage tol (leftColumns m n t0 c) M V = .ok (M', V') →
      LeftExact tol (leftColumns m n t0 c) M → Rect M m n → t0 + c ≤ m - 1 →
      Corner m n M (n - 1 - t0) → Rect M' m n ∧ Corner m n M' (n - 1 - (t0 + c)) := by
  intro c
  induction c with
  | zero =>
    intro t0 M V M' V' h _ hR _ hc
    simp [leftColumns, leftStage] at h
    obtain ⟨h1, _⟩ := h
    subst h1
    exact ⟨hR, by simpa using hc⟩
  | succ c ih =>
    intro t0 M V M' V' h hex hR hb hc
    have hlist : leftColumns m n t0 (c + 1) =
        ((List.range' 0 (m + (n - 1 - t0) - n)).map fun l => (l, n - 1 - t0)) ++ leftColumns m n (t0 + 1) c := by
      unfold leftColumns
      rw [List.range'_succ, List.flatMap_cons, List.range_eq_range']
    rw [hlist] at h hex
    rw [leftStage_append] at h
    cases hcol : leftStage tol ((List.range' 0 (m + (n - 1 - t0) - n)).map fun l => (l, n - 1 - t0)) M V with
    | error e => simp [hcol] at h
    | ok t =>
      obtain ⟨M1, V1⟩ := t
      simp only [hcol] at h
      obtain ⟨hex1, hex2⟩ := LeftExact_append tol _ _ M V M1 V1 hex hcol
      have hk : n - 1 - t0 < n := by omega
      obtain ⟨hR1, hc1, hz1⟩ := left_column tol htol m n (n - 1 - t0) hk _ 0 M V M1 V1 hcol hex1 hR
        (by omega) hc (fun l' hl' => by omega)
      have hc2 : Corner m n M1 (n - 1 - (t0 + 1)) := by
        intro l k h1 h2 h3
        by_cases e : k = n - 1 - t0
        · subst e; exact hz1 l (by omega)
        · exact hc1 l k (by omega) h2 h3
      have := ih (t0 + 1) M1 V1 M' V' h hex2 hR1 (by omega) hc2
      refine ⟨this.1, ?_⟩
      have e : t0 + 1 + c = t0 + (c + 1) := by omega
      rw [e] at this
      exact this.2

theorem givensLeft_eq (m n : Nat) : givensLeft m n = leftColumns m n 0 (m - 1) := by
  unfold givensLeft leftColumns
  rw [List.range_eq_range']

/-- the left-unitary stage of `givens_decomposition` zeroes the whole corner `j - i > n - m` (exact regime) -/
theorem leftStage_zeroes_corner (tol : Rat) (htol : 0 < tol) (m n : Nat) (hmn : m ≤ n) (Q V M' V' : Mat)
    (h : leftStage tol (givensLeft m n) Q V = .ok (M', V')) (hex : LeftExact tol (givensLeft m n) Q)
    (hQ : Rect Q m n) : Rect M' m n ∧ ∀ i j, (i, j) ∈ givensLeft m n → M'.get i j = 0 := by
  have hmem := fun i j => mem_givensLeft m n i j hmn
  rw [givensLeft_eq] at h hex
  obtain ⟨hR, hc⟩ := left_columns tol htol m n hmn (m - 1) 0 Q V M' V' h hex hQ (by omega)
    (fun l k h1 h2 _ => by omega)
  refine ⟨hR, ?_⟩
  intro i j hij
  obtain ⟨h1, h2⟩ := (hmem i j).1 hij
  exact hc i j (by omega) h1 h2

end C11
end Model
end OFV
