/-
C03 — canonicity for fermions, part 1: how a normal-ordered monomial
`a^†_{p1} … a^†_{pk} a_{q1} … a_{ql}` acts on Fock basis states (Spec.actFTerm).
-/
import Mathlib.Tactic.Linarith
import Mathlib.Data.List.Sort
import OFV.Proofs.Bits
import OFV.Spec.Basic

namespace OFV
namespace Proofs
namespace C03
open Spec

/-- flip the bits listed in `l` (the leftmost index is flipped last, like `actFTerm`) -/
def flipIdx (l : List Nat) (s : Nat) : Nat := l.foldr (fun q acc => acc ^^^ (1 <<< q)) s

/-- the mask with exactly the bits of `l` -/
def maskOf (l : List Nat) : Nat := flipIdx l 0

theorem testBit_flipIdx_not_mem (l : List Nat) (s i : Nat) (h : i ∉ l) :
    (flipIdx l s).testBit i = s.testBit i := by
  induction l with
  | nil => rfl
  | cons q r ih =>
    have hq : q ≠ i := fun e => h (by simp [e])
    have hr : i ∉ r := fun e => h (List.mem_cons_of_mem _ e)
    simp only [flipIdx, List.foldr] at ih ⊢
    rw [testBit_xflip_ne _ q i hq]
    exact ih hr

theorem testBit_flipIdx_mem (l : List Nat) (hn : l.Nodup) (s i : Nat) (h : i ∈ l) :
    (flipIdx l s).testBit i = !s.testBit i := by
  induction l with
  | nil => simp at h
  | cons q r ih =>
    have hn' := List.nodup_cons.1 hn
    simp only [flipIdx, List.foldr]
    by_cases hq : q = i
    · subst hq
      rw [testBit_xflip]
      have := testBit_flipIdx_not_mem r s q hn'.1
      simp only [flipIdx] at this
      rw [this]
    · have hi : i ∈ r := by
        rcases List.mem_cons.1 h with e | e
        · exact absurd e.symm hq
        · exact e
      rw [testBit_xflip_ne _ q i hq]
      exact ih hn'.2 hi

theorem testBit_maskOf (l : List Nat) (hn : l.Nodup) (i : Nat) : (maskOf l).testBit i = decide (i ∈ l) := by
  unfold maskOf
  by_cases h : i ∈ l
  · rw [testBit_flipIdx_mem l hn 0 i h]; simp [h]
  · rw [testBit_flipIdx_not_mem l 0 i h]; simp [h]

theorem flipIdx_flipIdx (l : List Nat) (hn : l.Nodup) (s : Nat) : flipIdx l (flipIdx l s) = s := by
  apply Nat.eq_of_testBit_eq
  intro i
  by_cases h : i ∈ l
  · rw [testBit_flipIdx_mem l hn _ i h, testBit_flipIdx_mem l hn _ i h]; simp
  · rw [testBit_flipIdx_not_mem l _ i h, testBit_flipIdx_not_mem l _ i h]

/-- a term made of annihilators only -/
def annT (qs : List Nat) : List (Nat × Nat) := qs.map fun q => (q, 0)
/-- a term made of creators only -/
def creT (ps : List Nat) : List (Nat × Nat) := ps.map fun p => (p, 1)

theorem actFTerm_cons' (f : Nat × Nat) (t : List (Nat × Nat)) (s : Nat) :
    actFTerm (f :: t) s =
      match actFTerm t s with
      | none => none
      | some (k, s') => match actF f.1 f.2 s' with
        | none => none
        | some (k', s'') => some ((k + k') % 2, s'') := rfl

/-- annihilators: non-zero iff all the modes are occupied; then they are emptied -/
theorem actFTerm_annT (qs : List Nat) (hn : qs.Nodup) (s : Nat) :
    ((∀ q ∈ qs, s.testBit q = true) → ∃ k, actFTerm (annT qs) s = some (k, flipIdx qs s)) ∧
    ((∃ q ∈ qs, s.testBit q = false) → actFTerm (annT qs) s = none) := by
  induction qs with
  | nil =>
    constructor
    · intro _; exact ⟨0, rfl⟩
    · rintro ⟨q, hq, _⟩; simp at hq
  | cons q r ih =>
    have hn' := List.nodup_cons.1 hn
    obtain ⟨ih1, ih2⟩ := ih hn'.2
    have hcons : annT (q :: r) = (q, 0) :: annT r := rfl
    constructor
    · intro h
      obtain ⟨k, hk⟩ := ih1 (fun q' hq' => h q' (List.mem_cons_of_mem _ hq'))
      rw [hcons, actFTerm_cons', hk]
      have hb : (flipIdx r s).testBit q = true := by
        rw [testBit_flipIdx_not_mem r s q hn'.1]; exact h q (by simp)
      simp only [actF, hb]
      exact ⟨_, rfl⟩
    · rintro ⟨q', hq', hb⟩
      rw [hcons, actFTerm_cons']
      by_cases hall : ∀ x ∈ r, s.testBit x = true
      · obtain ⟨k, hk⟩ := ih1 hall
        rw [hk]
        have hq : q' = q := by
          rcases List.mem_cons.1 hq' with e | e
          · exact e
          · exact absurd (hall q' e) (by simp [hb])
        subst hq
        have hb' : (flipIdx r s).testBit q' = false := by
          rw [testBit_flipIdx_not_mem r s q' hn'.1]; exact hb
        simp [actF, hb']
      · have : ∃ x ∈ r, s.testBit x = false := by
          by_contra hc
          apply hall
          intro x hx
          by_contra hx'
          exact hc ⟨x, hx, by simpa using hx'⟩
        rw [ih2 this]

/-- creators: non-zero iff all the modes are empty; then they are filled -/
theorem actFTerm_creT (ps : List Nat) (hn : ps.Nodup) (s : Nat) :
    ((∀ p ∈ ps, s.testBit p = false) → ∃ k, actFTerm (creT ps) s = some (k, flipIdx ps s)) ∧
    ((∃ p ∈ ps, s.testBit p = true) → actFTerm (creT ps) s = none) := by
  induction ps with
  | nil =>
    constructor
    · intro _; exact ⟨0, rfl⟩
    · rintro ⟨q, hq, _⟩; simp at hq
  | cons q r ih =>
    have hn' := List.nodup_cons.1 hn
    obtain ⟨ih1, ih2⟩ := ih hn'.2
    have hcons : creT (q :: r) = (q, 1) :: creT r := rfl
    constructor
    · intro h
      obtain ⟨k, hk⟩ := ih1 (fun q' hq' => h q' (List.mem_cons_of_mem _ hq'))
      rw [hcons, actFTerm_cons', hk]
      have hb : (flipIdx r s).testBit q = false := by
        rw [testBit_flipIdx_not_mem r s q hn'.1]; exact h q (by simp)
      simp only [actF, hb]
      exact ⟨_, rfl⟩
    · rintro ⟨q', hq', hb⟩
      rw [hcons, actFTerm_cons']
      by_cases hall : ∀ x ∈ r, s.testBit x = false
      · obtain ⟨k, hk⟩ := ih1 hall
        rw [hk]
        have hq : q' = q := by
          rcases List.mem_cons.1 hq' with e | e
          · exact e
          · exact absurd (hall q' e) (by simp [hb])
        subst hq
        have hb' : (flipIdx r s).testBit q' = true := by
          rw [testBit_flipIdx_not_mem r s q' hn'.1]; exact hb
        simp [actF, hb']
      · have : ∃ x ∈ r, s.testBit x = true := by
          by_contra hc
          apply hall
          intro x hx
          by_contra hx'
          exact hc ⟨x, hx, by simpa using hx'⟩
        rw [ih2 this]

/-- a product `l1 · l2` on a basis state: `l2` acts first -/
theorem actFTerm_append' (l1 l2 : List (Nat × Nat)) (s : Nat) :
    (actFTerm l2 s = none → actFTerm (l1 ++ l2) s = none) ∧
    (∀ k s', actFTerm l2 s = some (k, s') →
      (actFTerm l1 s' = none → actFTerm (l1 ++ l2) s = none) ∧
      (∀ k' s'', actFTerm l1 s' = some (k', s'') → ∃ k'', actFTerm (l1 ++ l2) s = some (k'', s''))) := by
  induction l1 with
  | nil =>
    refine ⟨fun h => by simpa using h, fun k s' h => ⟨fun h' => by simp [actFTerm] at h', ?_⟩⟩
    intro k' s'' h'
    simp only [actFTerm, List.foldr, Option.some.injEq, Prod.mk.injEq] at h'
    exact ⟨k, by rw [← h'.2]; simpa using h⟩
  | cons f r ih =>
    obtain ⟨ih1, ih2⟩ := ih
    constructor
    · intro h
      rw [List.cons_append, actFTerm_cons', ih1 h]
    · intro k s' h
      obtain ⟨ih2a, ih2b⟩ := ih2 k s' h
      constructor
      · intro h'
        rw [List.cons_append, actFTerm_cons']
        rw [actFTerm_cons'] at h'
        cases hr : actFTerm r s' with
        | none => rw [ih2a hr]
        | some p =>
          obtain ⟨kr, sr⟩ := p
          obtain ⟨k'', hk''⟩ := ih2b kr sr hr
          rw [hk'']
          rw [hr] at h'
          simp only at h' ⊢
          cases hf : actF f.1 f.2 sr with
          | none => rfl
          | some q => rw [hf] at h'; cases h'
      · intro k' s'' h'
        rw [List.cons_append, actFTerm_cons']
        rw [actFTerm_cons'] at h'
        cases hr : actFTerm r s' with
        | none => rw [hr] at h'; cases h'
        | some p =>
          obtain ⟨kr, sr⟩ := p
          obtain ⟨k'', hk''⟩ := ih2b kr sr hr
          rw [hk'']
          rw [hr] at h'
          simp only at h' ⊢
          cases hf : actF f.1 f.2 sr with
          | none => rw [hf] at h'; cases h'
          | some q =>
            obtain ⟨kq, sq⟩ := q
            rw [hf] at h'
            simp only [Option.some.injEq, Prod.mk.injEq] at h'
            exact ⟨_, by rw [← h'.2]⟩

/-- the normal-ordered monomial with creators `ps` and annihilators `qs` -/
def monoT (ps qs : List Nat) : List (Nat × Nat) := creT ps ++ annT qs

/-- it can only act on states in which all annihilated modes are occupied -/
theorem monoT_nonzero_subset (ps qs : List Nat) (hq : qs.Nodup) (s : Nat)
    (h : actFTerm (monoT ps qs) s ≠ none) : ∀ q ∈ qs, s.testBit q = true := by
  intro q hqm
  by_contra hb
  apply h
  have : actFTerm (annT qs) s = none := (actFTerm_annT qs hq s).2 ⟨q, hqm, by simpa using hb⟩
  exact (actFTerm_append' (creT ps) (annT qs) s).1 this

/-- on the state occupying exactly its annihilated modes it yields (±) the state occupying
exactly its created modes -/
theorem monoT_on_own_state (ps qs : List Nat) (hp : ps.Nodup) (hq : qs.Nodup) :
    ∃ k, actFTerm (monoT ps qs) (maskOf qs) = some (k, maskOf ps) := by
  have h1 : ∀ q ∈ qs, (maskOf qs).testBit q = true := by
    intro q hqm; rw [testBit_maskOf qs hq]; simpa using hqm
  obtain ⟨k, hk⟩ := (actFTerm_annT qs hq (maskOf qs)).1 h1
  have h0 : flipIdx qs (maskOf qs) = 0 := flipIdx_flipIdx qs hq 0
  rw [h0] at hk
  have h2 : ∀ p ∈ ps, (0 : Nat).testBit p = false := by intro p _; simp
  obtain ⟨k', hk'⟩ := (actFTerm_creT ps hp 0).1 h2
  exact ((actFTerm_append' (creT ps) (annT qs) (maskOf qs)).2 k 0 hk).2 k' _ hk'

theorem mask_le_of_subset (a b : Nat) (h : ∀ i, a.testBit i = true → b.testBit i = true) : a ≤ b := by
  have : a &&& b = a := by
    apply Nat.eq_of_testBit_eq
    intro i
    rw [Nat.testBit_and]
    cases ha : a.testBit i
    · simp
    · simp [h i ha]
  rw [← this]; exact Nat.and_le_right

theorem maskOf_le_of_forall (qs : List Nat) (hq : qs.Nodup) (s : Nat) (h : ∀ q ∈ qs, s.testBit q = true) :
    maskOf qs ≤ s := by
  apply mask_le_of_subset
  intro i hi
  rw [testBit_maskOf qs hq] at hi
  exact h i (by simpa using hi)

theorem pairwise_gt_nodup (l : List Nat) (h : l.Pairwise (· > ·)) : l.Nodup :=
  h.imp (fun hab => by omega)

/-- strictly decreasing index lists are determined by their masks -/
theorem maskOf_inj (a b : List Nat) (ha : a.Pairwise (· > ·)) (hb : b.Pairwise (· > ·))
    (h : maskOf a = maskOf b) : a = b := by
  have na := pairwise_gt_nodup a ha
  have nb := pairwise_gt_nodup b hb
  have hmem : ∀ i, i ∈ a ↔ i ∈ b := by
    intro i
    have := congrArg (fun m => Nat.testBit m i) h
    simp only [testBit_maskOf a na, testBit_maskOf b nb] at this
    simpa using this
  have hperm : a.Perm b := (List.perm_ext_iff_of_nodup na nb).2 hmem
  exact List.Perm.eq_of_pairwise (fun x y _ _ hxy hyx => by omega) ha hb hperm

end C03
end Proofs
end OFV
