/-
C13 — `HubbardSquareLattice.diagonal_neighbors_iter` enumerates the Spec diagonal edge set.
-/
import OFV.Proofs.C13
set_option linter.unusedSimpArgs false
set_option linter.unusedVariables false
namespace OFV.C13
open OFV.Model.C13 OFV.Spec.C13 OFV.Model.C13.Lattice List

/-- successor of a coordinate `k < edgesPer d p` along a dimension of length `d` -/
theorem next_cases {d : Nat} {p : Bool} {k : Nat} (h : k < edgesPer d p) :
    (k + 1 < d ∧ (k + 1) % d = k + 1) ∨ (p = true ∧ 2 < d ∧ k + 1 = d ∧ (k + 1) % d = 0) := by
  have hk : k < d := lt_of_lt_edgesPer h
  by_cases h1 : k + 1 < d
  · left; exact ⟨h1, Nat.mod_eq_of_lt h1⟩
  · right
    have h3 : k + 1 = d := by omega
    have hp : p = true ∧ 2 < d := by
      unfold edgesPer at h
      by_cases hq : d ≤ 2 ∨ p = false
      · simp [hq] at h; omega
      · simp only [not_or] at hq
        exact ⟨by simpa using hq.2, by omega⟩
    exact ⟨hp.1, hp.2, h3, by rw [h3, Nat.mod_self]⟩

theorem next_lt {d : Nat} {p : Bool} {k : Nat} (h : k < edgesPer d p) : (k + 1) % d < d :=
  Nat.mod_lt _ (by have := lt_of_lt_edgesPer h; omega)

/-- the successor map has no 2-cycle inside `range (edgesPer d p)` -/
theorem next_no_two_cycle {d : Nat} {p : Bool} {k k' : Nat} (h : k < edgesPer d p) (h' : k' < edgesPer d p)
    (h1 : (k + 1) % d = k') (h2 : (k' + 1) % d = k) : False := by
  have hk := lt_of_lt_edgesPer h
  have hk' := lt_of_lt_edgesPer h'
  rcases next_cases h with ⟨a1, a2⟩ | ⟨_, a2, a3, a4⟩ <;> rcases next_cases h' with ⟨b1, b2⟩ | ⟨_, b2, b3, b4⟩
  · omega
  · omega
  · omega
  · omega

theorem dist1_next {d : Nat} {p : Bool} {k : Nat} (h : k < edgesPer d p) :
    dist1 d p k ((k + 1) % d) = true ∧ dist1 d p ((k + 1) % d) k = true := by
  rcases next_cases h with ⟨a1, a2⟩ | ⟨hp, a2, a3, a4⟩
  · rw [a2]; simp [dist1]
  · rw [a4]; subst hp
    constructor <;> simp [dist1, a2] <;> omega

/-- coordinates of the site `c + r * x` -/
theorem coords {x c r : Nat} (hc : c < x) : col x (c + r * x) = c ∧ row x (c + r * x) = r := by
  have e : c + r * x = x * r + c := by rw [Nat.mul_comm, Nat.add_comm]
  rw [e]; exact ⟨mod_of hc, div_of hc⟩

theorem site_lt {x y c r : Nat} (hc : c < x) (hr : r < y) : c + r * x < x * y := by
  have e : c + r * x = x * r + c := by rw [Nat.mul_comm, Nat.add_comm]
  rw [e]; exact (lt_mul_iff hc).2 hr

theorem site_eq_of_coords {x a b : Nat} (hx : 0 < x) (h1 : col x a = col x b) (h2 : row x a = row x b) : a = b := by
  have ha := Nat.div_add_mod a x
  have hb := Nat.div_add_mod b x
  unfold col at h1; unfold row at h2
  rw [h1, h2] at ha
  omega

/-- the pair `diagonal_neighbors_iter` emits for the plaquette `(cx, cy)`: `d = false` the diagonal
`(cx, cy) – (cx+1, cy+1)`, `d = true` the diagonal `(cx, cy+1) – (cx+1, cy)` -/
def dpair (x y cx cy : Nat) (d : Bool) : Nat × Nat :=
  if d then (cx + (cy + 1) % y * x, (cx + 1) % x + cy * x)
  else (cx + cy * x, (cx + 1) % x + (cy + 1) % y * x)

theorem mem_diagonal {l : Lattice} {e : Nat × Nat} :
    e ∈ l.diagonalNeighbors false ↔
      ∃ cx, cx < edgesPer l.x l.periodic ∧ ∃ cy, cy < edgesPer l.y l.periodic ∧ ∃ d, e = dpair l.x l.y cx cy d := by
  simp only [diagonalNeighbors, emit, toSiteIndex, List.mem_flatMap, List.mem_range, Bool.false_eq_true, if_false,
    List.mem_cons, List.mem_singleton, List.not_mem_nil, or_false]
  constructor
  · rintro ⟨cx, hcx, cy, hcy, ⟨yl, yr⟩, hpair, he⟩
    have hy : cy < l.y := lt_of_lt_edgesPer hcy
    refine ⟨cx, hcx, cy, hcy, ?_⟩
    rcases hpair with h | h
    · simp only [Prod.mk.injEq] at h; obtain ⟨rfl, rfl⟩ := h
      exact ⟨false, by simp [dpair, he, Nat.mod_eq_of_lt hy]⟩
    · simp only [Prod.mk.injEq] at h; obtain ⟨rfl, rfl⟩ := h
      exact ⟨true, by simp [dpair, he, Nat.mod_eq_of_lt hy]⟩
  · rintro ⟨cx, hcx, cy, hcy, d, rfl⟩
    have hy : cy < l.y := lt_of_lt_edgesPer hcy
    refine ⟨cx, hcx, cy, hcy, ?_⟩
    cases d
    · exact ⟨(cy, cy + 1), Or.inl rfl, by simp [dpair, Nat.mod_eq_of_lt hy]⟩
    · exact ⟨(cy + 1, cy), Or.inr rfl, by simp [dpair, Nat.mod_eq_of_lt hy]⟩

/-- coordinates of the two ends of an emitted pair -/
theorem dpair_coords {x y : Nat} {p : Bool} {cx cy : Nat} (hcx : cx < edgesPer x p) (hcy : cy < edgesPer y p) (d : Bool) :
    col x (dpair x y cx cy d).1 = cx ∧ col x (dpair x y cx cy d).2 = (cx + 1) % x ∧
    row x (dpair x y cx cy d).1 = (if d then (cy + 1) % y else cy) ∧
    row x (dpair x y cx cy d).2 = (if d then cy else (cy + 1) % y) ∧
    (dpair x y cx cy d).1 < x * y ∧ (dpair x y cx cy d).2 < x * y := by
  have hx := lt_of_lt_edgesPer hcx
  have hy := lt_of_lt_edgesPer hcy
  have hx' := next_lt hcx
  have hy' := next_lt hcy
  cases d
  · simp only [dpair, Bool.false_eq_true, if_false]
    exact ⟨(coords hx).1, (coords hx').1, (coords hx).2, (coords hx').2, site_lt hx hy, site_lt hx' hy'⟩
  · simp only [dpair, if_true]
    exact ⟨(coords hx).1, (coords hx').1, (coords hx).2, (coords hx').2, site_lt hx hy', site_lt hx' hy⟩

theorem norm_cases (e : Nat × Nat) : norm e = e ∨ norm e = (e.2, e.1) := by
  unfold norm; split <;> simp

theorem norm_lt_of_ne {e : Nat × Nat} (h : e.1 ≠ e.2) : (norm e).1 < (norm e).2 := by
  unfold norm; split
  · omega
  · simp only; omega

theorem dist1_symm (n : Nat) (p : Bool) (u v : Nat) : dist1 n p u v = dist1 n p v u := by
  rw [Bool.eq_iff_iff, dist1_iff, dist1_iff]
  constructor <;> intro h <;> rcases h with h | h | ⟨hp, hn, h | h⟩
  · exact Or.inr (Or.inl h)
  · exact Or.inl h
  · exact Or.inr (Or.inr ⟨hp, hn, Or.inr h⟩)
  · exact Or.inr (Or.inr ⟨hp, hn, Or.inl h⟩)
  · exact Or.inr (Or.inl h)
  · exact Or.inl h
  · exact Or.inr (Or.inr ⟨hp, hn, Or.inr h⟩)
  · exact Or.inr (Or.inr ⟨hp, hn, Or.inl h⟩)

theorem adjD_symm (x y : Nat) (p : Bool) (a b : Nat) : adjD x y p a b = adjD x y p b a := by
  simp only [adjD]
  rw [dist1_symm x p, dist1_symm y p]

/-- an emitted pair joins two different, diagonally adjacent sites of the lattice -/
theorem dpair_adj {x y : Nat} {p : Bool} {cx cy : Nat} (hcx : cx < edgesPer x p) (hcy : cy < edgesPer y p) (d : Bool) :
    adjD x y p (dpair x y cx cy d).1 (dpair x y cx cy d).2 = true ∧ (dpair x y cx cy d).1 ≠ (dpair x y cx cy d).2 := by
  obtain ⟨c1, c2, r1, r2, _, _⟩ := dpair_coords hcx hcy d
  constructor
  · simp only [adjD, c1, c2, r1, r2, Bool.and_eq_true]
    refine ⟨(dist1_next hcx).1, ?_⟩
    cases d
    · simpa using (dist1_next hcy).1
    · simpa using (dist1_next hcy).2
  · intro heq
    rw [heq] at c1
    rw [c1] at c2
    rcases next_cases hcx with ⟨_, a2⟩ | ⟨_, a2, a3, a4⟩ <;> omega

theorem dist1_to_next {d : Nat} {p : Bool} {u v : Nat} (h : dist1 d p u v = true) (hu : u < d) (hv : v < d) :
    (u < edgesPer d p ∧ (u + 1) % d = v) ∨ (v < edgesPer d p ∧ (v + 1) % d = u) := by
  rw [dist1_iff] at h
  have hep : d - 1 ≤ edgesPer d p := by unfold edgesPer; split <;> omega
  rcases h with h | h | ⟨hp, hn, h | h⟩
  · left; exact ⟨by omega, by rw [h]; exact Nat.mod_eq_of_lt hv⟩
  · right; exact ⟨by omega, by rw [h]; exact Nat.mod_eq_of_lt hu⟩
  · -- u = d - 1, v = 0
    have hfull : edgesPer d p = d := by
      unfold edgesPer; rw [if_neg (by simp [hp]; omega)]; rfl
    left
    have : u + 1 = d := by omega
    exact ⟨by omega, by rw [this, Nat.mod_self]; omega⟩
  · have hfull : edgesPer d p = d := by
      unfold edgesPer; rw [if_neg (by simp [hp]; omega)]; rfl
    right
    have : v + 1 = d := by omega
    exact ⟨by omega, by rw [this, Nat.mod_self]; omega⟩

theorem site_of_coords {x a : Nat} : a = col x a + row x a * x := by
  unfold col row
  have := Nat.div_add_mod a x
  rw [Nat.mul_comm] at this
  omega

/-- Spec: diagonal adjacency of `a < b < x * y` is exactly "is a normalised emitted pair" -/
theorem adjD_iff {l : Lattice} {a b : Nat} (hx : 0 < l.x) (hab : a < b) (hb : b < l.x * l.y) :
    adjD l.x l.y l.periodic a b = true ↔ (a, b) ∈ (l.diagonalNeighbors false).map norm := by
  have ha : a < l.x * l.y := Nat.lt_trans hab hb
  have hca : col l.x a < l.x := Nat.mod_lt _ hx
  have hcb : col l.x b < l.x := Nat.mod_lt _ hx
  have hra : row l.x a < l.y := (Nat.div_lt_iff_lt_mul hx).2 (by rwa [Nat.mul_comm] at ha)
  have hrb : row l.x b < l.y := (Nat.div_lt_iff_lt_mul hx).2 (by rwa [Nat.mul_comm] at hb)
  constructor
  · intro h
    simp only [adjD, Bool.and_eq_true] at h
    rw [List.mem_map]
    have ea := site_of_coords (x := l.x) (a := a)
    have eb := site_of_coords (x := l.x) (a := b)
    rcases dist1_to_next h.1 hca hcb with ⟨hc, hcn⟩ | ⟨hc, hcn⟩ <;>
      rcases dist1_to_next h.2 hra hrb with ⟨hr, hrn⟩ | ⟨hr, hrn⟩
    · refine ⟨(a, b), mem_diagonal.2 ⟨_, hc, _, hr, false, ?_⟩, by simp [norm, Nat.le_of_lt hab]⟩
      simp only [dpair, Bool.false_eq_true, if_false, hcn, hrn]; rw [← ea, ← eb]
    · refine ⟨(a, b), mem_diagonal.2 ⟨_, hc, _, hr, true, ?_⟩, by simp [norm, Nat.le_of_lt hab]⟩
      simp only [dpair, if_true, hcn, hrn]; rw [← ea, ← eb]
    · refine ⟨(b, a), mem_diagonal.2 ⟨_, hc, _, hr, true, ?_⟩, by simp [norm]; omega⟩
      simp only [dpair, if_true, hcn, hrn]; rw [← ea, ← eb]
    · refine ⟨(b, a), mem_diagonal.2 ⟨_, hc, _, hr, false, ?_⟩, by simp [norm]; omega⟩
      simp only [dpair, Bool.false_eq_true, if_false, hcn, hrn]; rw [← ea, ← eb]
  · intro h
    rw [List.mem_map] at h
    obtain ⟨e, he, hn⟩ := h
    obtain ⟨cx, hcx, cy, hcy, d, rfl⟩ := mem_diagonal.1 he
    obtain ⟨hadj, hne⟩ := dpair_adj hcx hcy d
    rcases norm_cases (dpair l.x l.y cx cy d) with h1 | h1
    · rw [h1] at hn; rw [hn] at hadj; exact hadj
    · rw [h1] at hn
      simp only [Prod.mk.injEq] at hn
      rw [← hn.1, ← hn.2, adjD_symm]; exact hadj

/-- distinct plaquette diagonals give distinct unordered pairs -/
theorem dpair_norm_inj {x y : Nat} {p : Bool} {cx cy cx' cy' : Nat} {d d' : Bool}
    (hcx : cx < edgesPer x p) (hcy : cy < edgesPer y p) (hcx' : cx' < edgesPer x p) (hcy' : cy' < edgesPer y p)
    (h : norm (dpair x y cx cy d) = norm (dpair x y cx' cy' d')) : cx = cx' ∧ cy = cy' ∧ d = d' := by
  obtain ⟨c1, c2, r1, r2, _, _⟩ := dpair_coords hcx hcy d
  obtain ⟨c1', c2', r1', r2', _, _⟩ := dpair_coords hcx' hcy' d'
  have key : dpair x y cx cy d = dpair x y cx' cy' d' ∨
      dpair x y cx cy d = ((dpair x y cx' cy' d').2, (dpair x y cx' cy' d').1) := by
    rcases norm_cases (dpair x y cx cy d) with h1 | h1 <;> rcases norm_cases (dpair x y cx' cy' d') with h2 | h2
    · left; rw [← h1, h, h2]
    · right; rw [← h1, h, h2]
    · right
      have : ((dpair x y cx cy d).2, (dpair x y cx cy d).1) = dpair x y cx' cy' d' := by rw [← h1, h, h2]
      have h3 := congrArg Prod.fst this
      have h4 := congrArg Prod.snd this
      simp only at h3 h4
      exact Prod.ext h4 h3
    · left
      have : ((dpair x y cx cy d).2, (dpair x y cx cy d).1) =
          ((dpair x y cx' cy' d').2, (dpair x y cx' cy' d').1) := by rw [← h1, h, h2]
      have h3 := congrArg Prod.fst this
      have h4 := congrArg Prod.snd this
      simp only at h3 h4
      exact Prod.ext h4 h3
  rcases key with heq | heq
  · have hc : cx = cx' := by rw [← c1, ← c1', heq]
    rw [heq] at r1 r2
    rw [r1] at r1'; rw [r2] at r2'
    cases d <;> cases d' <;> simp only [Bool.false_eq_true, if_false, if_true] at r1' r2'
    · exact ⟨hc, r1', rfl⟩
    · exact (next_no_two_cycle hcy' hcy r1'.symm r2').elim
    · exact (next_no_two_cycle hcy hcy' r1' r2'.symm).elim
    · exact ⟨hc, r2', rfl⟩
  · have h3 := congrArg Prod.fst heq
    have h4 := congrArg Prod.snd heq
    simp only at h3 h4
    rw [h3] at c1; rw [h4] at c2
    rw [c2'] at c1; rw [c1'] at c2
    exact (next_no_two_cycle hcx' hcx c1 c2.symm).elim

theorem diagonal_norm_nodup (l : Lattice) : ((l.diagonalNeighbors false).map norm).Nodup := by
  have hlist : (l.diagonalNeighbors false).map norm =
      (List.range (edgesPer l.x l.periodic)).flatMap fun cx =>
        (List.range (edgesPer l.y l.periodic)).flatMap fun cy =>
          [norm (dpair l.x l.y cx cy false), norm (dpair l.x l.y cx cy true)] := by
    simp only [diagonalNeighbors, emit, toSiteIndex, List.map_flatMap, Bool.false_eq_true, if_false]
    apply List.flatMap_congr; intro cx hcx
    apply List.flatMap_congr; intro cy hcy
    have hy : cy < l.y := lt_of_lt_edgesPer (List.mem_range.1 hcy)
    simp [dpair, Nat.mod_eq_of_lt hy]
  rw [hlist]
  apply nodup_flatMap_of_inj List.nodup_range
  · intro cx hcx
    have hcx := List.mem_range.1 hcx
    apply nodup_flatMap_of_inj List.nodup_range
    · intro cy hcy
      have hcy := List.mem_range.1 hcy
      simp only [List.nodup_cons, List.mem_singleton, List.not_mem_nil, not_false_eq_true, List.nodup_nil, and_true]
      intro h
      have := (dpair_norm_inj hcx hcy hcx hcy h).2.2
      simp at this
    · intro cy hcy cy' hcy' e he he'
      have hcy := List.mem_range.1 hcy
      have hcy' := List.mem_range.1 hcy'
      simp only [List.mem_cons, List.mem_singleton, List.not_mem_nil, or_false] at he he'
      rcases he with rfl | rfl <;> rcases he' with h | h <;> exact (dpair_norm_inj hcx hcy hcx hcy' h).2.1
  · intro cx hcx cx' hcx' e he he'
    have hcx := List.mem_range.1 hcx
    have hcx' := List.mem_range.1 hcx'
    simp only [List.mem_flatMap, List.mem_range, List.mem_cons, List.mem_singleton, List.not_mem_nil, or_false] at he he'
    obtain ⟨cy, hcy, he⟩ := he
    obtain ⟨cy', hcy', he'⟩ := he'
    rcases he with rfl | rfl <;> rcases he' with h | h <;> exact (dpair_norm_inj hcx hcy hcx' hcy' h).1

theorem mem_diagonal_norm_lt {l : Lattice} {e : Nat × Nat} (h : e ∈ (l.diagonalNeighbors false).map norm) :
    e.1 < e.2 ∧ e.2 < l.x * l.y := by
  rw [List.mem_map] at h
  obtain ⟨e0, he0, rfl⟩ := h
  obtain ⟨cx, hcx, cy, hcy, d, rfl⟩ := mem_diagonal.1 he0
  obtain ⟨_, _, _, _, h1, h2⟩ := dpair_coords hcx hcy d
  refine ⟨norm_lt_of_ne (dpair_adj hcx hcy d).2, ?_⟩
  rcases norm_cases (dpair l.x l.y cx cy d) with h | h <;> rw [h] <;> assumption

/-- the repaired `diagonal_neighbors_iter(ordered=False)` enumerates the Spec diagonal edge set,
each edge once -/
theorem diagonal_perm_edges (l : Lattice) (hx : 0 < l.x) :
    ((l.diagonalNeighbors false).map norm).Perm (edges adjD l.x l.y l.periodic) := by
  refine (List.perm_ext_iff_of_nodup (diagonal_norm_nodup l) ((pairs_nodup _).filter _)).2 (fun e => ?_)
  rw [List.mem_filter, mem_pairs]
  constructor
  · intro h
    obtain ⟨h1, h2⟩ := mem_diagonal_norm_lt h
    exact ⟨⟨h1, h2⟩, (adjD_iff hx h1 h2).2 h⟩
  · rintro ⟨⟨h1, h2⟩, h3⟩
    exact (adjD_iff hx h1 h2).1 h3

theorem diagonal_ordered_perm' (l : Lattice) :
    l.diagonalNeighbors true ~ l.diagonalNeighbors false ++ (l.diagonalNeighbors false).map Prod.swap := by
  unfold diagonalNeighbors
  have step : ∀ cx : Nat,
      ((List.range (edgesPer l.y l.periodic)).flatMap fun cy =>
        [(cy, cy + 1), (cy + 1, cy)].flatMap fun (yr : Nat × Nat) =>
          emit true (l.toSiteIndex cx (yr.1 % l.y)) (l.toSiteIndex ((cx + 1) % l.x) (yr.2 % l.y))) ~
      ((List.range (edgesPer l.y l.periodic)).flatMap fun cy =>
        [(cy, cy + 1), (cy + 1, cy)].flatMap fun (yr : Nat × Nat) =>
          emit false (l.toSiteIndex cx (yr.1 % l.y)) (l.toSiteIndex ((cx + 1) % l.x) (yr.2 % l.y))) ++
      ((List.range (edgesPer l.y l.periodic)).flatMap fun cy =>
        [(cy, cy + 1), (cy + 1, cy)].flatMap fun (yr : Nat × Nat) =>
          emit false (l.toSiteIndex cx (yr.1 % l.y)) (l.toSiteIndex ((cx + 1) % l.x) (yr.2 % l.y))).map Prod.swap :=
    fun cx => flatMap2_emit_perm _ _ _ _
  refine (List.Perm.flatMap_left _ (fun cx _ => step cx)).trans ?_
  refine (List.flatMap_append_perm _ _ _).symm.trans ?_
  rw [List.map_flatMap]


theorem isRight_lt {x y : Nat} {p : Bool} {r c : Nat} {e : Nat × Nat} (hc : c < x) (hr : r < y)
    (h : IsRight x p r c e) : e.1 < e.2 ∧ e.2 < x * y :=
  isBond_lt ⟨r, c, hc, hr, Or.inl h⟩

theorem isBottom_lt {x y : Nat} {p : Bool} {r c : Nat} {e : Nat × Nat} (hc : c < x) (hr : r < y)
    (h : IsBottom x y p r c e) : e.1 < e.2 ∧ e.2 < x * y :=
  isBond_lt ⟨r, c, hc, hr, Or.inr h⟩

theorem adjH_iff {x y : Nat} {p : Bool} {a b : Nat} (hx : 0 < x) (hab : a < b) (hb : b < x * y) :
    adjH x y p a b = true ↔ ∃ r c, c < x ∧ r < y ∧ IsRight x p r c (a, b) := by
  constructor
  · intro h
    have hnn : adjNN x y p a b = true := by simp [adjNN, h]
    obtain ⟨r, c, hc, hr, hR | hB⟩ := (adjNN_iff hx hab hb).1 hnn
    · exact ⟨r, c, hc, hr, hR⟩
    · -- a bottom bond joins different rows
      exfalso
      obtain ⟨b1, b2, b3⟩ := isBottom_col hc hB
      simp only [adjH, row, Bool.and_eq_true, beq_iff_eq] at h
      have h1 := Nat.div_add_mod a x
      have h2 := Nat.div_add_mod b x
      simp only at b1 b2 b3
      rw [h.1, b1] at h1
      rw [b2] at h2
      omega
  · rintro ⟨r, c, hc, hr, hR⟩
    have hnn := (adjNN_iff hx hab hb).2 ⟨r, c, hc, hr, Or.inl hR⟩
    simp only [adjNN, Bool.or_eq_true] at hnn
    rcases hnn with h | h
    · exact h
    · exfalso
      obtain ⟨a1, a2, a3⟩ := isRight_row hc hR
      simp only [adjV, col, Bool.and_eq_true, beq_iff_eq] at h
      have h1 := Nat.div_add_mod a x
      have h2 := Nat.div_add_mod b x
      simp only at a1 a2 a3
      rw [h.1, a1] at h1
      rw [a2] at h2
      omega

theorem adjV_iff {x y : Nat} {p : Bool} {a b : Nat} (hx : 0 < x) (hab : a < b) (hb : b < x * y) :
    adjV x y p a b = true ↔ ∃ r c, c < x ∧ r < y ∧ IsBottom x y p r c (a, b) := by
  constructor
  · intro h
    have hnn : adjNN x y p a b = true := by simp [adjNN, h]
    obtain ⟨r, c, hc, hr, hR | hB⟩ := (adjNN_iff hx hab hb).1 hnn
    · exfalso
      obtain ⟨a1, a2, a3⟩ := isRight_row hc hR
      simp only [adjV, col, Bool.and_eq_true, beq_iff_eq] at h
      have h1 := Nat.div_add_mod a x
      have h2 := Nat.div_add_mod b x
      simp only at a1 a2 a3
      rw [h.1, a1] at h1
      rw [a2] at h2
      omega
    · exact ⟨r, c, hc, hr, hB⟩
  · rintro ⟨r, c, hc, hr, hB⟩
    have hnn := (adjNN_iff hx hab hb).2 ⟨r, c, hc, hr, Or.inr hB⟩
    simp only [adjNN, Bool.or_eq_true] at hnn
    rcases hnn with h | h
    · exfalso
      obtain ⟨b1, b2, b3⟩ := isBottom_col hc hB
      simp only [adjH, row, Bool.and_eq_true, beq_iff_eq] at h
      have h1 := Nat.div_add_mod a x
      have h2 := Nat.div_add_mod b x
      simp only at b1 b2 b3
      rw [h.1, b1] at h1
      rw [b2] at h2
      omega
    · exact h

theorem horizontal_perm_edges (l : Lattice) (hx : 0 < l.x) :
    ((l.horizontalNeighbors false).map norm).Perm (edges adjH l.x l.y l.periodic) := by
  refine (List.perm_ext_iff_of_nodup (horizontal_norm_nodup l) ((pairs_nodup _).filter _)).2 (fun e => ?_)
  rw [List.mem_filter, mem_pairs, mem_horizontal_norm]
  constructor
  · rintro ⟨r, c, hc, hr, h⟩
    obtain ⟨h1, h2⟩ := isRight_lt hc hr h
    exact ⟨⟨h1, h2⟩, (adjH_iff hx h1 h2).2 ⟨r, c, hc, hr, h⟩⟩
  · rintro ⟨⟨h1, h2⟩, h3⟩
    exact (adjH_iff hx h1 h2).1 h3

theorem vertical_perm_edges (l : Lattice) (hx : 0 < l.x) :
    ((l.verticalNeighbors false).map norm).Perm (edges adjV l.x l.y l.periodic) := by
  refine (List.perm_ext_iff_of_nodup (vertical_norm_nodup l hx) ((pairs_nodup _).filter _)).2 (fun e => ?_)
  rw [List.mem_filter, mem_pairs, mem_vertical_norm hx]
  constructor
  · rintro ⟨r, c, hc, hr, h⟩
    obtain ⟨h1, h2⟩ := isBottom_lt hc hr h
    exact ⟨⟨h1, h2⟩, (adjV_iff hx h1 h2).2 ⟨r, c, hc, hr, h⟩⟩
  · rintro ⟨⟨h1, h2⟩, h3⟩
    exact (adjV_iff hx h1 h2).1 h3


/-- `to_spin_orbital_index` is injective on (site, dof < n_dofs, spin < n_spin_values) -/
theorem toSpinOrbitalIndex_inj (l : Lattice) {s d σ s' d' σ' : Nat}
    (hd : d < l.nDofs) (hσ : σ < l.nSpinValues) (hd' : d' < l.nDofs) (hσ' : σ' < l.nSpinValues)
    (h : l.toSpinOrbitalIndex s d σ = l.toSpinOrbitalIndex s' d' σ') : s = s' ∧ d = d' ∧ σ = σ' := by
  unfold toSpinOrbitalIndex nSpinOrbitalsPerSite at h
  set n := l.nSpinValues with hn
  set k := l.nDofs with hk
  have h1 : n * d + σ < n * k := (lt_mul_iff hσ).2 hd
  have h1' : n * d' + σ' < n * k := (lt_mul_iff hσ').2 hd'
  have e : (n * k) * s + (n * d + σ) = (n * k) * s' + (n * d' + σ') := by
    have c1 : s * (k * n) = (n * k) * s := by rw [Nat.mul_comm k n, Nat.mul_comm]
    have c2 : s' * (k * n) = (n * k) * s' := by rw [Nat.mul_comm k n, Nat.mul_comm]
    have c3 : d * n = n * d := Nat.mul_comm _ _
    have c4 : d' * n = n * d' := Nat.mul_comm _ _
    omega
  obtain ⟨hs, hrest⟩ := decomp_unique h1 h1' e
  obtain ⟨hdd, hσσ⟩ := decomp_unique hσ hσ' hrest
  exact ⟨hs, hdd, hσσ⟩

/-- … and stays below `n_spin_orbitals` -/
theorem toSpinOrbitalIndex_lt (l : Lattice) {s d σ : Nat} (hs : s < l.nSites) (hd : d < l.nDofs) (hσ : σ < l.nSpinValues) :
    l.toSpinOrbitalIndex s d σ < l.nSites * l.nSpinOrbitalsPerSite := by
  unfold toSpinOrbitalIndex nSpinOrbitalsPerSite
  set n := l.nSpinValues
  set k := l.nDofs
  have h1 : n * d + σ < n * k := (lt_mul_iff hσ).2 hd
  have h2 : (n * k) * s + (n * d + σ) < (n * k) * l.nSites := (lt_mul_iff h1).2 hs
  have c1 : s * (k * n) = (n * k) * s := by rw [Nat.mul_comm k n, Nat.mul_comm]
  have c3 : d * n = n * d := Nat.mul_comm _ _
  have c5 : l.nSites * (k * n) = (n * k) * l.nSites := by rw [Nat.mul_comm k n, Nat.mul_comm]
  omega

/-- `spin_pairs_iter`: exactly the pairs the docstring lists -/
theorem mem_spinPairs (l : Lattice) (sp : Nat) (ordered : Bool) (s t : Nat) :
    (s, t) ∈ l.spinPairs sp ordered ↔ s < l.nSpinValues ∧ t < l.nSpinValues ∧
      (match sp with
       | 0 => ordered = true ∨ s ≤ t
       | 1 => s = t
       | _ => if ordered then s ≠ t else s < t) := by
  unfold spinPairs
  match sp with
  | 0 => simp [List.mem_flatMap, List.mem_map, List.mem_filter, List.mem_range]
  | 1 =>
    simp only [List.mem_map, List.mem_range, Prod.mk.injEq]
    constructor
    · rintro ⟨a, ha, rfl, rfl⟩; exact ⟨ha, ha, rfl⟩
    · rintro ⟨h1, _, h3⟩; exact ⟨s, h1, rfl, h3⟩
  | k + 2 =>
    cases ordered <;> simp [List.mem_flatMap, List.mem_map, List.mem_filter, List.mem_range]


end OFV.C13
