/-
`SymbolicOperator.__iadd__` (Model.iadd) denotes the sum of the two operators on every run that is
exact (no non-zero value deleted by the tolerance test), and so does an accumulation loop.
-/
import OFV.Model.C04
import OFV.Proofs.C04Hom

namespace OFV
namespace Sem
open Spec Model Model.C04

theorem den_set (alg : Alg) (d : Op) (k : List (Nat × Nat)) (v : GQ) (s x : St) :
    den alg (Dict.set d k v) s x = den alg d s x + (v - Dict.getD d k 0) * termCoef alg k s x := by
  induction d with
  | nil => simp [Dict.set, Dict.getD, Dict.get?, den_cons, den_nil]
  | cons e r ih =>
    obtain ⟨k', v'⟩ := e
    by_cases h : k' = k
    · subst h
      simp only [Dict.set, Dict.getD, Dict.get?, if_true, den_cons, Option.getD_some]
      ring
    · simp only [Dict.set, Dict.getD, Dict.get?, h, if_false, den_cons] at ih ⊢
      rw [ih]; ring

theorem den_erase (alg : Alg) (d : Op) (k : List (Nat × Nat)) (s x : St) :
    den alg (Dict.erase d k) s x = den alg d s x - Dict.getD d k 0 * termCoef alg k s x := by
  induction d with
  | nil => simp [Dict.erase, Dict.getD, Dict.get?, den_nil]
  | cons e r ih =>
    obtain ⟨k', v'⟩ := e
    by_cases h : k' = k
    · subst h
      simp only [Dict.erase, Dict.getD, Dict.get?, if_true, den_cons, Option.getD_some]
      ring
    · simp only [Dict.erase, Dict.getD, Dict.get?, h, if_false, den_cons] at ih ⊢
      rw [ih]; ring

theorem iaddStep_fst (tol : Rat) (a : Op) (ok : Bool) (tc : List (Nat × Nat) × GQ) :
    (iaddStep tol (a, ok) tc).1 =
      (let v := Dict.getD a tc.1 0 + tc.2
       if GQ.isSmall tol v then Dict.erase a tc.1 else Dict.set a tc.1 v) := by
  simp only [iaddStep]; split <;> rfl

theorem fold_iaddStep_fst (tol : Rat) (b a : Op) (ok : Bool) :
    (b.foldl (iaddStep tol) (a, ok)).1 = iadd tol a b := by
  induction b generalizing a ok with
  | nil => rfl
  | cons tc b ih =>
    simp only [List.foldl_cons, iadd]
    rw [show iaddStep tol (a, ok) tc = ((iaddStep tol (a, ok) tc).1, (iaddStep tol (a, ok) tc).2) from rfl, ih,
      iaddStep_fst]
    rfl

theorem iaddStep_small (tol : Rat) (a : Op) (ok : Bool) (t : List (Nat × Nat)) (c : GQ)
    (hs : GQ.isSmall tol (Dict.getD a t 0 + c) = true) :
    iaddStep tol (a, ok) (t, c) = (Dict.erase a t, ok && (Dict.getD a t 0 + c == 0)) := by
  simp [iaddStep, hs]

theorem iaddStep_big (tol : Rat) (a : Op) (ok : Bool) (t : List (Nat × Nat)) (c : GQ)
    (hs : GQ.isSmall tol (Dict.getD a t 0 + c) = false) :
    iaddStep tol (a, ok) (t, c) = (Dict.set a t (Dict.getD a t 0 + c), ok) := by
  simp [iaddStep, hs]

theorem fold_iaddStep_snd (tol : Rat) (b a : Op) (ok : Bool)
    (h : (b.foldl (iaddStep tol) (a, ok)).2 = true) : ok = true := by
  induction b generalizing a ok with
  | nil => exact h
  | cons tc b ih =>
    obtain ⟨t, c⟩ := tc
    simp only [List.foldl_cons] at h
    cases hs : GQ.isSmall tol (Dict.getD a t 0 + c) with
    | true =>
      rw [iaddStep_small tol a ok t c hs] at h
      have := ih _ _ h
      simp at this; exact this.1
    | false =>
      rw [iaddStep_big tol a ok t c hs] at h
      exact ih _ _ h

/-- an exact `a += b` denotes `a + b` -/
theorem den_iadd_fold (alg : Alg) (tol : Rat) (b a : Op) (ok : Bool) (s x : St)
    (h : (b.foldl (iaddStep tol) (a, ok)).2 = true) :
    den alg (b.foldl (iaddStep tol) (a, ok)).1 s x = den alg a s x + den alg b s x := by
  induction b generalizing a ok with
  | nil => simp [den_nil]
  | cons tc b ih =>
    obtain ⟨t, c⟩ := tc
    simp only [List.foldl_cons] at h ⊢
    rw [den_cons]
    cases hs : GQ.isSmall tol (Dict.getD a t 0 + c) with
    | true =>
      rw [iaddStep_small tol a ok t c hs] at h ⊢
      have hok := fold_iaddStep_snd tol b _ _ h
      simp at hok
      have hv : Dict.getD a t 0 = -c := eq_neg_of_add_eq_zero_left hok.2
      rw [ih _ _ h, den_erase, hv]; ring
    | false =>
      rw [iaddStep_big tol a ok t c hs] at h ⊢
      rw [ih _ _ h, den_set]; ring

theorem den_iadd (alg : Alg) (tol : Rat) (a b : Op) (s x : St) (h : iaddOk tol a b = true) :
    den alg (iadd tol a b) s x = den alg a s x + den alg b s x := by
  rw [← fold_iaddStep_fst tol b a true]
  exact den_iadd_fold alg tol b a true s x h

theorem sumOk_fold (alg : Alg) (tol : Rat) (imgs : List Op) (acc : Op) (ok : Bool) (s x : St)
    (h : (imgs.foldl (fun (st : Op × Bool) img => (iadd tol st.1 img, st.2 && iaddOk tol st.1 img)) (acc, ok)).2 = true) :
    ok = true ∧ den alg (imgs.foldl (fun acc img => iadd tol acc img) acc) s x
      = den alg acc s x + (imgs.map fun img => den alg img s x).sum := by
  induction imgs generalizing acc ok with
  | nil => exact ⟨h, by simp⟩
  | cons img imgs ih =>
    simp only [List.foldl_cons] at h ⊢
    obtain ⟨h1, h2⟩ := ih _ _ h
    simp at h1
    refine ⟨h1.1, ?_⟩
    rw [h2, den_iadd alg tol acc img s x h1.2]
    simp [add_assoc]

/-- an accumulation loop `acc = 0; for img in imgs: acc += img` whose `+=` were all exact denotes the sum -/
theorem den_sum_ok (alg : Alg) (tol : Rat) (imgs : List Op) (s x : St) (h : sumOk tol imgs = true) :
    den alg (imgs.foldl (fun acc img => iadd tol acc img) []) s x = (imgs.map fun img => den alg img s x).sum := by
  have := (sumOk_fold alg tol imgs [] true s x h).2
  rw [den_nil, zero_add] at this
  exact this

end Sem
end OFV
