/-
C16 helper lemmas: qubit operators as endomorphisms of the space of finite superpositions of
computational basis states, `evOp : Op → Module.End GQ (Nat →₀ GQ)`.  `evOp` turns the Model's
`mulOp .qubit`, `smul`, `iadd`, `isub` into `*`, `•`, `+`, `-` (the product for operators with
Pauli codes `< 4`, sums in the exact regime of the `+=` pruning) and its matrix elements are the
shared Spec's (`Sem.den .qubit`, i.e. `GV.coeff (Spec.applyOp .qubit A [m]) [x]`).
-/
import OFV.Proofs.C04Hom
import OFV.Proofs.C01Hom
import OFV.Proofs.C01Qubit
import OFV.Model.C16
import Mathlib.LinearAlgebra.Finsupp.LinearCombination
import Mathlib.Algebra.Module.LinearMap.End

namespace OFV
namespace C16P
open Spec Model Sem

local notation "Op" => Model.Op
local notation "Term" => Model.Term

abbrev QS := Nat →₀ GQ

/-- image of the basis state `m` under the Pauli term `t` -/
noncomputable def imgQ (t : Term) (m : Nat) : QS :=
  Finsupp.single (actPTerm t m).2 (GQ.ipow (actPTerm t m).1)

noncomputable def evT (t : Term) : Module.End GQ QS := Finsupp.linearCombination GQ (imgQ t)

noncomputable def evOp (A : Op) : Module.End GQ QS := (A.map fun e => e.2 • evT e.1).sum

theorem evT_single (t : Term) (m : Nat) (b : GQ) : evT t (Finsupp.single m b) = b • imgQ t m := by
  simp [evT, Finsupp.linearCombination_single]

theorem evOp_nil : evOp [] = 0 := by simp [evOp]

theorem evOp_cons (e : Term × GQ) (A : Op) : evOp (e :: A) = e.2 • evT e.1 + evOp A := by
  simp [evOp]

theorem evOp_append (A B : Op) : evOp (A ++ B) = evOp A + evOp B := by
  simp [evOp]

/-- matrix elements of `evOp` are those of the shared Spec -/
theorem evOp_apply (A : Op) (m x : Nat) :
    (evOp A (Finsupp.single m 1)) x = Sem.den .qubit A [m] [x] := by
  induction A with
  | nil => simp [evOp_nil, den_nil]
  | cons e r ih =>
    obtain ⟨t, c⟩ := e
    rw [evOp_cons, den_cons, LinearMap.add_apply, Finsupp.add_apply, ih, LinearMap.smul_apply, evT_single,
      termCoef_qubit]
    simp only [imgQ, one_smul, Finsupp.smul_apply, Finsupp.single_apply, smul_eq_mul]

theorem end_ext {φ ψ : Module.End GQ QS}
    (h : ∀ m x, (φ (Finsupp.single m 1)) x = (ψ (Finsupp.single m 1)) x) : φ = ψ := by
  apply Finsupp.lhom_ext
  intro a b
  have : (Finsupp.single a b : QS) = b • Finsupp.single a 1 := by
    rw [Finsupp.smul_single, smul_eq_mul, mul_one]
  rw [this, map_smul, map_smul]
  congr 1
  ext x
  exact h a x

theorem evOp_smul (c : GQ) (A : Op) : evOp (Model.smul c A) = c • evOp A := by
  induction A with
  | nil => simp [Model.smul, evOp_nil]
  | cons e r ih =>
    obtain ⟨t, v⟩ := e
    have : Model.smul c ((t, v) :: r) = (t, v * c) :: Model.smul c r := rfl
    rw [this, evOp_cons, evOp_cons, ih, smul_add, smul_smul, mul_comm]

/-- `evOp A` applied to a basis state, expanded over the terms of `A` -/
theorem evOp_single (A : Op) (m : Nat) :
    evOp A (Finsupp.single m 1) = (A.map fun r => r.2 • imgQ r.1 m).sum := by
  induction A with
  | nil => simp [evOp_nil]
  | cons e r ih =>
    rw [evOp_cons, LinearMap.add_apply, ih, LinearMap.smul_apply, evT_single]
    simp

/-- **product**: `QubitOperator.__mul__` is composition of the denoted endomorphisms -/
theorem evOp_mulOp (a b : Op) (ha : ValidOp a) (hb : ValidOp b) :
    evOp (mulOp .qubit a b) = evOp a * evOp b := by
  apply end_ext
  intro m x
  rw [evOp_apply, den_mulOp_right a b ha hb, Module.End.mul_apply, evOp_single]
  clear hb
  induction b with
  | nil => simp
  | cons r b ih =>
    simp only [List.map_cons, List.sum_cons, map_add, Finsupp.add_apply, ih]
    congr 1
    rw [map_smul, Finsupp.smul_apply, imgQ]
    have : (Finsupp.single (actPTerm r.1 m).2 (GQ.ipow (actPTerm r.1 m).1) : QS)
        = GQ.ipow (actPTerm r.1 m).1 • Finsupp.single (actPTerm r.1 m).2 1 := by
      rw [Finsupp.smul_single, smul_eq_mul, mul_one]
    rw [this, map_smul, Finsupp.smul_apply, evOp_apply]
    simp only [smul_eq_mul]; ring

/-! ### sums in the exact regime -/

theorem semDen_eq_modelDen (A : Op) (m x : Nat) :
    Sem.den .qubit A [m] [x] = Model.den (fun t => termCoef .qubit t [m] [x]) A := by
  induction A with
  | nil => simp [den_nil, Model.den]
  | cons e r ih =>
    obtain ⟨t, c⟩ := e
    rw [den_cons, ih]
    rfl

theorem evOp_iadd (tol : Rat) (A B : Op) (h : ExactAdd tol A B) :
    evOp (Model.iadd tol A B) = evOp A + evOp B := by
  apply end_ext
  intro m x
  rw [LinearMap.add_apply, Finsupp.add_apply, evOp_apply, evOp_apply, evOp_apply, semDen_eq_modelDen,
    semDen_eq_modelDen, semDen_eq_modelDen, den_iadd tol _ A B h]

theorem evOp_neg (B : Op) : evOp (B.map fun e => (e.1, -e.2)) = - evOp B := by
  apply end_ext
  intro m x
  rw [LinearMap.neg_apply, Finsupp.neg_apply, evOp_apply, evOp_apply, semDen_eq_modelDen, semDen_eq_modelDen,
    den_map_neg]

theorem evOp_isub (tol : Rat) (A B : Op) (h : ExactAdd tol A (B.map fun e => (e.1, -e.2))) :
    evOp (Model.isub tol A B) = evOp A - evOp B := by
  rw [isub_eq_iadd_neg, evOp_iadd tol _ _ h, evOp_neg]
  exact (sub_eq_add_neg (evOp A) (evOp B)).symm

end C16P
end OFV
