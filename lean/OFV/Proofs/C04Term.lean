/-
Term level: the Model's `jwTerm` / `jwMajTerm` (what `_jordan_wigner_fermion_operator` and
`_jordan_wigner_majorana_operator` compute for one term) denote the fermionic / Majorana term.
-/
import OFV.Proofs.C04Ladder

namespace OFV
namespace Sem
open Spec Model Model.C04

theorem sgn_add (a b : Nat) : GQ.sgn ((a + b) % 2) = GQ.sgn a * GQ.sgn b := by
  unfold GQ.sgn
  have ha : a % 2 = 0 ∨ a % 2 = 1 := by omega
  have hb : b % 2 = 0 ∨ b % 2 = 1 := by omega
  rcases ha with ha | ha <;> rcases hb with hb | hb <;>
    simp [ha, hb, Nat.add_mod]

def ValidF (t : List (Nat × Nat)) : Prop := ∀ f ∈ t, f.2 ≤ 1

theorem actTermG_actJW (t : List (Nat × Nat)) (h : ValidF t) (m : Nat) :
    actTermG actJW t m = match actFTerm t m with
      | none => none
      | some (k, m') => some (GQ.sgn k, m') := by
  induction t with
  | nil => simp [actTermG, actFTerm, GQ.sgn]
  | cons f t ih =>
    have hf : f.2 ≤ 1 := h f List.mem_cons_self
    have ht : ValidF t := fun g hg => h g (List.mem_cons_of_mem _ hg)
    have e : (if f.2 = 0 then 0 else 1) = f.2 := by split <;> omega
    have ih' := ih ht
    simp only [actTermG, actFTerm, List.foldr_cons] at ih' ⊢
    rw [ih']
    cases h1 : List.foldr (fun f acc => match acc with
        | none => none
        | some (k, s') => match actF f.1 f.2 s' with
          | none => none
          | some (k', s'') => some ((k + k') % 2, s'')) (some (0, m)) t with
    | none => rfl
    | some km =>
      obtain ⟨k, m'⟩ := km
      simp only [actJW, e]
      cases h2 : actF f.1 f.2 m' with
      | none => rfl
      | some km2 => obtain ⟨k', m''⟩ := km2; simp [sgn_add]

theorem den_mk_const (c : GQ) (m x : Nat) :
    den .qubit (mk .qubit [] c) [m] [x] = c * (if m = x then 1 else 0) := by
  simp [mk, simplify, simplifyQubit, sortF, den_cons, den_nil, termCoef_qubit, actPTerm_nil, GQ.ipow]

theorem mk_const_valid (c : GQ) : ValidOp (mk .qubit [] c) := by
  intro tc h
  simp [mk, simplify, simplifyQubit, sortF] at h
  subst h
  intro f hf; simp at hf

theorem termCoef_fermion (t : List (Nat × Nat)) (m x : Nat) :
    termCoef .fermion t [m] [x] = match actFTerm t m with
      | none => 0
      | some (k, m') => if m' = x then GQ.sgn k else 0 := by
  simp only [termCoef, actTerm, maskOf, List.headD_cons]
  cases actFTerm t m with
  | none => rfl
  | some km => obtain ⟨k, m'⟩ := km; simp

/-! ### Majorana -/

/-- action of a Majorana factor `γ_i` (encoded as `(i, _)`) as a monomial map -/
def actMaj (f : Nat × Nat) (m : Nat) : Option (GQ × Nat) :=
  some (GQ.ipow (actM f.1 m).1, (actM f.1 m).2)

theorem jwMajFactor_eq (i : Nat) :
    jwMajFactor i = [(zs 0 (i / 2) ++ [(i / 2, if i % 2 != 0 then 2 else 1)], 1)] := by
  unfold jwMajFactor
  exact mk_sorted (sorted_zs_snoc 0 (i / 2) _ (by split <;> decide)) 1

theorem jwMajFactor_valid (f : Nat × Nat) : ValidOp (jwMajFactor f.1) := by
  rw [jwMajFactor_eq]
  intro tc h
  simp at h
  subst h
  intro g hg
  rcases List.mem_append.1 hg with h | h
  · exact zs_valid _ _ g h
  · simp at h; subst h; simp; split <;> decide

theorem jwMajFactor_sum (f : Nat × Nat) (m : Nat) (W : Nat → GQ) :
    ((jwMajFactor f.1).map fun r => r.2 * GQ.ipow (actPTerm r.1 m).1 * W (actPTerm r.1 m).2).sum
      = match actMaj f m with
        | none => 0
        | some (c, m') => c * W m' := by
  obtain ⟨i, a⟩ := f
  rw [jwMajFactor_eq]
  simp only [List.map_cons, List.map_nil, List.sum_cons, List.sum_nil, actMaj, actM, one_mul, add_zero]
  by_cases hi : i % 2 = 0
  · have e : (if (i % 2 != 0) = true then 2 else 1) = 1 := by simp [hi]
    have e2 : (i % 2 == 0) = true := by simp [hi]
    rw [e]
    simp only [e2, if_true, act_x]
    congr 1
    apply ipow_congr; omega
  · have e : (if (i % 2 != 0) = true then 2 else 1) = 2 := by simp [hi]
    have e2 : (i % 2 == 0) = false := by simp [hi]
    rw [e]
    simp only [e2, Bool.false_eq_true, if_false, act_y]
    congr 1
    apply ipow_congr
    by_cases hb : m.testBit (i / 2) <;> simp [hb] <;> omega

theorem actTermG_actMaj (t : List Nat) (m : Nat) :
    actTermG actMaj (t.map fun i => (i, 0)) m
      = some (GQ.ipow (actMTerm t m).1, (actMTerm t m).2) := by
  induction t with
  | nil => simp [actTermG, actMTerm, GQ.ipow]
  | cons i t ih =>
    simp only [actTermG, actMTerm, List.map_cons, List.foldr_cons] at ih ⊢
    rw [ih]
    simp only [actMaj]
    rw [ipow_add, ipow_mod]

theorem termCoef_majorana (t : List Nat) (m x : Nat) :
    termCoef .majorana (t.map fun i => (i, 0)) [m] [x]
      = if (actMTerm t m).2 = x then GQ.ipow (actMTerm t m).1 else 0 := by
  simp [termCoef, actTerm, maskOf, List.map_map, Function.comp_def]

end Sem
end OFV
