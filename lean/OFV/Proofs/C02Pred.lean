/- C02 — helper lemmas for the structural predicates (nested loops = adjacent pairs =
all pairs; counting) -/
import Mathlib.Tactic.Linarith
import Mathlib.Tactic.Ring
import OFV.Model.C02
import OFV.Spec.C02

namespace OFV
namespace Proofs
namespace C02
open Model Model.C02

/-- all adjacent pairs satisfy `R` -/
def Adj {α : Type} (R : α → α → Prop) : List α → Prop
  | [] => True
  | [_] => True
  | a :: b :: r => R a b ∧ Adj R (b :: r)

/-- some visited pair is bad: index form -/
def HasBad (bad : Factor → Factor → Bool) (t : Term) : Prop :=
  ∃ j, 1 ≤ j ∧ j < t.length ∧ bad (t.getD (j - 1) (0, 0)) (t.getD j (0, 0)) = true

theorem loopBad_iff_hasBad (bad : Factor → Factor → Bool) (t : Term) :
    loopBad bad t = true ↔ HasBad bad t := by
  unfold loopBad HasBad
  simp only [List.any_eq_true, List.mem_range'_1, List.mem_reverse]
  constructor
  · rintro ⟨i, ⟨hi1, hi2⟩, j, ⟨hj1, hj2⟩, hb⟩
    exact ⟨j, hj1, by omega, hb⟩
  · rintro ⟨j, h1, h2, hb⟩
    exact ⟨j, ⟨h1, by omega⟩, j, ⟨h1, by omega⟩, hb⟩

theorem hasBad_cons_cons (bad : Factor → Factor → Bool) (a b : Factor) (r : Term) :
    HasBad bad (a :: b :: r) ↔ (bad a b = true ∨ HasBad bad (b :: r)) := by
  unfold HasBad
  constructor
  · rintro ⟨j, h1, h2, hb⟩
    match j, h1, h2, hb with
    | 1, _, _, hb => left; simpa using hb
    | j + 2, _, h2, hb =>
      right
      refine ⟨j + 1, by omega, by simpa using h2, ?_⟩
      simpa using hb
  · rintro (hb | ⟨j, h1, h2, hb⟩)
    · exact ⟨1, by omega, by simp, by simpa using hb⟩
    · refine ⟨j + 1, by omega, by simpa using h2, ?_⟩
      obtain ⟨j', rfl⟩ : ∃ j', j = j' + 1 := ⟨j - 1, by omega⟩
      simpa using hb

theorem not_hasBad_iff_adj (bad : Factor → Factor → Bool) (t : Term) :
    ¬ HasBad bad t ↔ Adj (fun l r => bad l r = false) t := by
  induction t with
  | nil => simp [HasBad, Adj]
  | cons a r ih =>
    cases r with
    | nil =>
      simp only [Adj, iff_true]
      rintro ⟨j, h1, h2, _⟩
      simp at h2; omega
    | cons b r =>
      rw [hasBad_cons_cons, not_or, ih]
      simp [Adj]

theorem loopBad_false_iff_adj (bad : Factor → Factor → Bool) (t : Term) :
    loopBad bad t = false ↔ Adj (fun l r => bad l r = false) t := by
  rw [← not_hasBad_iff_adj, ← loopBad_iff_hasBad]; simp

/-- for a relation that is transitive on the elements satisfying `S`, adjacent = all pairs -/
theorem adj_iff_pairwise {α : Type} (R : α → α → Prop) (S : α → Prop)
    (tr : ∀ a b c, S a → S b → S c → R a b → R b c → R a c) (t : List α) (hS : ∀ x ∈ t, S x) :
    Adj R t ↔ t.Pairwise R := by
  induction t with
  | nil => simp [Adj]
  | cons a r ih =>
    cases r with
    | nil => simp [Adj]
    | cons b r =>
      have hS' : ∀ x ∈ b :: r, S x := fun x hx => hS x (List.mem_cons_of_mem _ hx)
      have ih' := ih hS'
      simp only [Adj]
      rw [ih', List.pairwise_cons (a := a)]
      constructor
      · rintro ⟨hab, hp⟩
        refine ⟨?_, hp⟩
        intro x hx
        rcases List.mem_cons.1 hx with rfl | hx
        · exact hab
        · have hbx : R b x := (List.pairwise_cons.1 hp).1 x hx
          exact tr a b x (hS a (by simp)) (hS b (by simp)) (hS x (by simp [hx])) hab hbx
      · rintro ⟨h1, hp⟩
        exact ⟨h1 b (by simp), hp⟩

/-! ### fermions -/

theorem fermionBadPair_false_iff (l r : Factor) : fermionBadPair l r = false ↔ Spec.C02.okF l r := by
  unfold fermionBadPair Spec.C02.okF
  simp only [Bool.or_eq_false_iff, Bool.and_eq_false_imp, bne_iff_ne, beq_iff_eq, decide_eq_false_iff_not,
    ge_iff_le, not_le, beq_eq_false_iff_ne]
  constructor
  · rintro ⟨h1, h2⟩
    exact ⟨fun h => h1 h, fun h => h2 h.symm⟩
  · rintro ⟨h1, h2⟩
    exact ⟨fun h => h1 h, fun h => h2 h.symm⟩

theorem okF_trans (a b c : Factor) (ha : a.2 < 2) (hb : b.2 < 2) (_hc : c.2 < 2)
    (h1 : Spec.C02.okF a b) (h2 : Spec.C02.okF b c) : Spec.C02.okF a c := by
  unfold Spec.C02.okF at *
  obtain ⟨h1a, h1b⟩ := h1
  obtain ⟨h2a, h2b⟩ := h2
  constructor
  · intro h; exact h1a (h2a h)
  · intro h
    have : a.2 = b.2 := by
      by_contra hne
      by_cases hc0 : c.2 = 0
      · have : a.2 = 0 := by omega
        have hb1 : b.2 ≠ 0 := by omega
        exact absurd this (h1a hb1)
      · have := h2a hc0; omega
    have h3 := h1b this
    have h4 := h2b (by omega)
    omega

theorem fermion_term_normal_iff (t : Term) (hv : ∀ f ∈ t, f.2 < 2) :
    loopBad fermionBadPair t = false ↔ Spec.C02.NormalOrderedF t := by
  rw [loopBad_false_iff_adj]
  unfold Spec.C02.NormalOrderedF
  rw [← adj_iff_pairwise Spec.C02.okF (fun f => f.2 < 2) okF_trans t hv]
  have : (fun l r => fermionBadPair l r = false) = Spec.C02.okF := by
    funext l r; exact propext (fermionBadPair_false_iff l r)
  rw [this]

/-! ### bosons (terms are stored sorted by mode index) -/

theorem okB_trans (a b c : Factor) (_ : True) (_ : True) (_ : True)
    (h1 : Spec.C02.okB a b) (h2 : Spec.C02.okB b c) : Spec.C02.okB a c := by
  unfold Spec.C02.okB at *
  obtain ⟨h1a, h1b⟩ := h1
  obtain ⟨h2a, h2b⟩ := h2
  refine ⟨by omega, fun h => ?_⟩
  have := h1b (by omega); have := h2b (by omega); omega

theorem adj_and {α : Type} (R S : α → α → Prop) (t : List α) :
    Adj (fun l r => R l r ∧ S l r) t ↔ Adj R t ∧ Adj S t := by
  induction t with
  | nil => simp [Adj]
  | cons a r ih =>
    cases r with
    | nil => simp [Adj]
    | cons b r => simp only [Adj, ih]; tauto

theorem adj_of_pairwise {α : Type} (R : α → α → Prop) (t : List α) (h : t.Pairwise R) : Adj R t := by
  induction t with
  | nil => simp [Adj]
  | cons a r ih =>
    cases r with
    | nil => simp [Adj]
    | cons b r =>
      rw [List.pairwise_cons] at h
      exact ⟨h.1 b (by simp), ih h.2⟩

theorem adj_mono {α : Type} (R S : α → α → Prop) (h : ∀ a b, R a b → S a b) (t : List α) (hr : Adj R t) :
    Adj S t := by
  induction t with
  | nil => simp [Adj]
  | cons a r ih =>
    cases r with
    | nil => simp [Adj]
    | cons b r => exact ⟨h _ _ hr.1, ih hr.2⟩

theorem boson_term_normal_iff (t : Term) (hs : t.Pairwise (fun l r => l.1 ≤ r.1)) :
    loopBad bosonBadPair t = false ↔ Spec.C02.NormalOrderedB t := by
  rw [loopBad_false_iff_adj]
  unfold Spec.C02.NormalOrderedB
  rw [← adj_iff_pairwise Spec.C02.okB (fun _ => True) okB_trans t (fun _ _ => trivial)]
  have hsa := adj_of_pairwise _ t hs
  constructor
  · intro h
    have := (adj_and _ _ t).2 ⟨hsa, h⟩
    refine adj_mono _ _ ?_ t this
    rintro a b ⟨h1, h2⟩
    unfold bosonBadPair at h2
    unfold Spec.C02.okB
    refine ⟨h1, fun he => ?_⟩
    simp only [Bool.and_eq_false_imp, beq_iff_eq, decide_eq_false_iff_not, gt_iff_lt, not_lt] at h2
    exact h2 he.symm
  · intro h
    refine adj_mono _ _ ?_ t h
    rintro a b ⟨h1, h2⟩
    unfold bosonBadPair
    simp only [Bool.and_eq_false_imp, beq_iff_eq, decide_eq_false_iff_not, gt_iff_lt, not_lt]
    intro he; exact h2 he.symm

/-! ### counting -/

theorem foldl_particles (t : Term) (acc : Int) (hv : ∀ f ∈ t, f.2 < 2) :
    t.foldl (fun acc f => acc + negOnePow f.2) acc = acc + (Spec.C02.cnt t 0 : Int) - (Spec.C02.cnt t 1 : Int) := by
  induction t generalizing acc with
  | nil => simp [Spec.C02.cnt]
  | cons f r ih =>
    have hf : f.2 < 2 := hv f (by simp)
    have hr : ∀ g ∈ r, g.2 < 2 := fun g hg => hv g (List.mem_cons_of_mem _ hg)
    rw [List.foldl_cons, ih _ hr]
    have h01 : f.2 = 0 ∨ f.2 = 1 := by omega
    rcases h01 with h | h <;> simp [Spec.C02.cnt, negOnePow, h] <;> omega

theorem particles_eq (t : Term) (hv : ∀ f ∈ t, f.2 < 2) :
    particles t = (Spec.C02.cnt t 0 : Int) - (Spec.C02.cnt t 1 : Int) := by
  unfold particles; rw [foldl_particles t 0 hv]; omega

theorem foldl_spin (t : Term) (acc : Int) (hv : ∀ f ∈ t, f.2 < 2) :
    t.foldl (fun acc f => acc + negOnePow (f.1 + f.2)) acc =
      acc + ((Spec.C02.cntSpin t 0 0 : Int) + (Spec.C02.cntSpin t 1 1 : Int)) - ((Spec.C02.cntSpin t 1 0 : Int) + (Spec.C02.cntSpin t 0 1 : Int)) := by
  induction t generalizing acc with
  | nil => simp [Spec.C02.cntSpin]
  | cons f r ih =>
    have hf : f.2 < 2 := hv f (by simp)
    have hr : ∀ g ∈ r, g.2 < 2 := fun g hg => hv g (List.mem_cons_of_mem _ hg)
    rw [List.foldl_cons, ih _ hr]
    have h01 : f.2 = 0 ∨ f.2 = 1 := by omega
    rcases Nat.mod_two_eq_zero_or_one f.1 with hp | hp <;> rcases h01 with h | h <;>
      simp [Spec.C02.cntSpin, negOnePow, h, hp, Nat.add_mod] <;> omega

theorem spin_eq (t : Term) (hv : ∀ f ∈ t, f.2 < 2) :
    spin t = ((Spec.C02.cntSpin t 0 0 : Int) + (Spec.C02.cntSpin t 1 1 : Int)) - ((Spec.C02.cntSpin t 1 0 : Int) + (Spec.C02.cntSpin t 0 1 : Int)) := by
  unfold spin; rw [foldl_spin t 0 hv]; omega

theorem cnt_split (t : Term) (act : Nat) : Spec.C02.cnt t act = Spec.C02.cntSpin t act 0 + Spec.C02.cntSpin t act 1 := by
  induction t with
  | nil => simp [Spec.C02.cnt, Spec.C02.cntSpin]
  | cons f r ih =>
    unfold Spec.C02.cnt Spec.C02.cntSpin at *
    rcases Nat.mod_two_eq_zero_or_one f.1 with hp | hp <;> by_cases h : f.2 = act <;>
      simp [h, hp] <;> omega

end C02
end Proofs
end OFV
