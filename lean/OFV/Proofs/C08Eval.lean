/-
C08 helper lemmas: the operator denoted by a list of (term, coefficient) as a linear functional
(`evalW`), the bridge to the shared `Spec.melF`, and the evaluation of tensors (`evalT`).
-/
import OFV.Model.C08
import OFV.Spec.C08
import OFV.Proofs.C08GQ

namespace OFV
namespace C08P
open Spec Spec.C08 Model.C08

/-- `Σ_{(τ, c) ∈ A} c · w τ` : the formal sum `A` paired with an arbitrary weight on words -/
def evalW (w : List (Nat × Nat) → GQ) : FOp → GQ
  | [] => 0
  | (τ, c) :: r => c * w τ + evalW w r

theorem evalW_append (w) (A B : FOp) : evalW w (A ++ B) = evalW w A + evalW w B := by
  induction A with
  | nil => simp [evalW]
  | cons e r ih => obtain ⟨τ, c⟩ := e; simp [evalW, ih]; ring

/-- matrix element of a single word between Fock basis states -/
def termMel (τ : List (Nat × Nat)) (t s : Nat) : GQ :=
  match actFTerm τ s with
  | none => 0
  | some (k, s') => if s' = t then GQ.sgn k else 0

theorem coeff_addEntry (v : SV) (s : Nat) (c : GQ) (t : Nat) :
    SV.coeff (SV.addEntry v s c) t = SV.coeff v t + (if s = t then c else 0) := by
  induction v with
  | nil =>
    simp only [SV.addEntry, SV.coeff, Dict.getD, Dict.get?]
    split <;> simp
  | cons e r ih =>
    obtain ⟨s', c'⟩ := e
    simp only [SV.coeff, Dict.getD] at ih ⊢
    by_cases h : s' = s
    · subst h
      simp only [SV.addEntry, if_true, Dict.get?]
      by_cases h2 : s' = t <;> simp [h2]
    · simp only [SV.addEntry, h, if_false, Dict.get?]
      by_cases h2 : s' = t
      · subst h2
        have : ¬ s = s' := fun e => h e.symm
        simp [this]
      · simp only [h2, if_false]
        exact ih

theorem coeff_applyF_aux (A : FOp) (s t : Nat) (acc : SV) :
    SV.coeff (A.foldl (fun acc (x : List (Nat × Nat) × GQ) => match actFTerm x.1 s with
      | none => acc
      | some (k, s') => SV.addEntry acc s' (x.2 * GQ.sgn k)) acc) t
    = SV.coeff acc t + evalW (fun τ => termMel τ t s) A := by
  induction A generalizing acc with
  | nil => simp [evalW]
  | cons e r ih =>
    obtain ⟨τ, c⟩ := e
    simp only [List.foldl_cons, evalW]
    rw [ih]
    cases h : actFTerm τ s with
    | none =>
      have hm : termMel τ t s = 0 := by simp [termMel, h]
      simp [hm]
    | some p =>
      obtain ⟨k, s'⟩ := p
      have hm : termMel τ t s = if s' = t then GQ.sgn k else 0 := by simp [termMel, h]
      simp only [coeff_addEntry, hm]
      by_cases h2 : s' = t <;> simp [h2] <;> ring

/-- bridge: the shared Spec matrix element is the linear functional `evalW` -/
theorem melF_eq_evalW (A : FOp) (t s : Nat) :
    melF A t s = evalW (fun τ => termMel τ t s) A := by
  have h := coeff_applyF_aux A s t []
  simp only [melF, applyF]
  have h0 : SV.coeff ([] : SV) t = 0 := rfl
  rw [h0, zero_add] at h
  rw [← h]
  rfl

/-! ### tensors -/

def sumIdx (f : Nat → Tensor → GQ) : Nat → List Tensor → GQ
  | _, [] => 0
  | i, t :: r => f i t + sumIdx f (i + 1) r

/-- `Σ_index T[index] · w index` -/
def evalT : Nat → (List Nat → GQ) → Tensor → GQ
  | 0, w, .s c => c * w []
  | k + 1, w, .v l => sumIdx (fun i t => evalT k (fun idx => w (i :: idx)) t) 0 l
  | _, _, _ => 0

theorem evalW_entries (w : List (Nat × Nat) → GQ) :
    ∀ (k : Nat) (g : List Nat → List (Nat × Nat)) (T : Tensor),
    evalW w ((entries k T).map fun e => (g e.1, e.2)) = evalT k (fun idx => w (g idx)) T := by
  intro k
  induction k with
  | zero =>
    intro g T
    cases T with
    | s c => simp [entries, evalW, evalT]
    | v l => simp [entries, evalW, evalT]
  | succ k ih =>
    intro g T
    cases T with
    | s c => simp [entries, evalW, evalT]
    | v l =>
      simp only [entries, evalT]
      suffices h : ∀ (m : Nat), evalW w (((l.zipIdx m).flatMap fun x : Tensor × Nat =>
          (entries k x.1).map fun e => (x.2 :: e.1, e.2)).map fun e => (g e.1, e.2))
          = sumIdx (fun i t => evalT k (fun idx => w (g (i :: idx))) t) m l from h 0
      induction l with
      | nil => intro m; simp [evalW, sumIdx]
      | cons t r ihl =>
        intro m
        simp only [List.zipIdx_cons, List.flatMap_cons, List.map_append, evalW_append, sumIdx,
          List.map_map]
        rw [ihl (m + 1)]
        congr 1
        exact ih (fun idx => g (m :: idx)) t

def evK (w : List (Nat × Nat) → GQ) (k : Key) (T : Tensor) : GQ :=
  evalT k.length (fun idx => w (idx.zip k)) T

theorem evalW_denoteTensor (w) (k : Key) (T : Tensor) :
    evalW w (denoteTensor k T) = evK w k T := by
  simpa [denoteTensor, evK] using evalW_entries w k.length (fun idx => idx.zip k) T

/-- value of a dictionary of tensors -/
def evD (w : List (Nat × Nat) → GQ) : List (Key × Tensor) → GQ
  | [] => 0
  | (k, T) :: r => evK w k T + evD w r

theorem evalW_denotePT (w) (d : List (Key × Tensor)) : evalW w (denotePT d) = evD w d := by
  induction d with
  | nil => simp [denotePT, evalW, evD]
  | cons e r ih =>
    obtain ⟨k, T⟩ := e
    simp only [denotePT, List.flatMap_cons, evalW_append, evD] at ih ⊢
    rw [ih, evalW_denoteTensor]

theorem evD_append (w) (a b : List (Key × Tensor)) : evD w (a ++ b) = evD w a + evD w b := by
  induction a with
  | nil => simp [evD]
  | cons e r ih => obtain ⟨k, T⟩ := e; simp [evD, ih]; ring

end C08P
end OFV
