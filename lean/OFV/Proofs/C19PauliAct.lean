/-
C19 — canonical Pauli strings (strictly increasing qubits, letters X/Y/Z) in mask form: the action on a basis
state flips the X-mask and multiplies by `i^{#Y} (-1)^{|zmask ∧ s|}`; the pair of masks determines the string.
-/
import OFV.Proofs.C19Char
import OFV.Proofs.C04Hom
import Mathlib.Data.List.Sort

namespace OFV
namespace C19P
open Spec Spec.C19 Sem

abbrev PStr := List (Nat × Nat)

def xmask (t : PStr) : Nat := t.foldr (fun f acc => if f.2 = 1 ∨ f.2 = 2 then acc ^^^ (1 <<< f.1) else acc) 0
def zmask (t : PStr) : Nat := t.foldr (fun f acc => if f.2 = 2 ∨ f.2 = 3 then acc ^^^ (1 <<< f.1) else acc) 0
def ycount (t : PStr) : Nat := t.foldr (fun f acc => if f.2 = 2 then acc + 1 else acc) 0

/-- canonical string on `n` qubits: strictly increasing qubit indices below `n`, letters in `{1, 2, 3}` -/
def Canon (n : Nat) (t : PStr) : Prop :=
  t.Pairwise (fun f g => f.1 < g.1) ∧ ∀ f ∈ t, (f.2 = 1 ∨ f.2 = 2 ∨ f.2 = 3) ∧ f.1 < n

theorem canon_nil (n : Nat) : Canon n [] := ⟨List.Pairwise.nil, fun f hf => by simp at hf⟩

theorem canon_tail {n : Nat} {f : Nat × Nat} {r : PStr} (h : Canon n (f :: r)) : Canon n r :=
  ⟨(List.pairwise_cons.1 h.1).2, fun g hg => h.2 g (List.mem_cons_of_mem _ hg)⟩

theorem xmask_cons (f : Nat × Nat) (r : PStr) :
    xmask (f :: r) = if f.2 = 1 ∨ f.2 = 2 then xmask r ^^^ (1 <<< f.1) else xmask r := rfl
theorem zmask_cons (f : Nat × Nat) (r : PStr) :
    zmask (f :: r) = if f.2 = 2 ∨ f.2 = 3 then zmask r ^^^ (1 <<< f.1) else zmask r := rfl
theorem ycount_cons (f : Nat × Nat) (r : PStr) : ycount (f :: r) = if f.2 = 2 then ycount r + 1 else ycount r := rfl

/-- bits of the masks only at qubits of the string -/
theorem xmask_bit (t : PStr) (j : Nat) (h : (xmask t).testBit j = true) : ∃ f ∈ t, f.1 = j := by
  induction t with
  | nil => simp [xmask] at h
  | cons f r ih =>
    rw [xmask_cons] at h
    by_cases hj : f.1 = j
    · exact ⟨f, List.mem_cons_self, hj⟩
    · have : (xmask r).testBit j = true := by
        split at h
        · rw [testBit_xflip_ne _ _ _ hj] at h; exact h
        · exact h
      obtain ⟨g, hg, e⟩ := ih this
      exact ⟨g, List.mem_cons_of_mem _ hg, e⟩

theorem zmask_bit (t : PStr) (j : Nat) (h : (zmask t).testBit j = true) : ∃ f ∈ t, f.1 = j := by
  induction t with
  | nil => simp [zmask] at h
  | cons f r ih =>
    rw [zmask_cons] at h
    by_cases hj : f.1 = j
    · exact ⟨f, List.mem_cons_self, hj⟩
    · have : (zmask r).testBit j = true := by
        split at h
        · rw [testBit_xflip_ne _ _ _ hj] at h; exact h
        · exact h
      obtain ⟨g, hg, e⟩ := ih this
      exact ⟨g, List.mem_cons_of_mem _ hg, e⟩

theorem head_not_in_tail {n : Nat} {f : Nat × Nat} {r : PStr} (h : Canon n (f :: r)) : ¬ ∃ g ∈ r, g.1 = f.1 := by
  rintro ⟨g, hg, e⟩
  have := (List.pairwise_cons.1 h.1).1 g hg
  omega

theorem xmask_head_bit {n : Nat} {f : Nat × Nat} {r : PStr} (h : Canon n (f :: r)) : (xmask r).testBit f.1 = false := by
  cases hb : (xmask r).testBit f.1 with
  | false => rfl
  | true => exact absurd (xmask_bit r f.1 hb) (head_not_in_tail h)

theorem zmask_head_bit {n : Nat} {f : Nat × Nat} {r : PStr} (h : Canon n (f :: r)) : (zmask r).testBit f.1 = false := by
  cases hb : (zmask r).testBit f.1 with
  | false => rfl
  | true => exact absurd (zmask_bit r f.1 hb) (head_not_in_tail h)

theorem ipow_one : GQ.ipow 1 = GQ.I := rfl
theorem ipow_two : GQ.ipow 2 = -1 := rfl
theorem ipow_three : GQ.ipow 3 = -GQ.I := rfl

theorem sg_zmask_flip (n zr q s : Nat) (hq : q < n) :
    sg n ((zr ^^^ (1 <<< q)) &&& s) = sg n (zr &&& s) * (if s.testBit q then -1 else 1) := by
  rw [Nat.and_comm, Nat.and_xor_distrib_left, sg_xor, Nat.and_comm s zr, sg_and_bit n s q hq]

/-- **action of a canonical string in mask form** -/
theorem act_canon (n : Nat) (t : PStr) (h : Canon n t) (s : Nat) :
    (actPTerm t s).2 = s ^^^ xmask t
    ∧ GQ.ipow (actPTerm t s).1 = GQ.ipow (ycount t) * sg n (zmask t &&& s) := by
  induction t with
  | nil => simp [actPTerm_nil, xmask, zmask, ycount, sg_zero, ipow_zero]
  | cons f r ih =>
    obtain ⟨ih1, ih2⟩ := ih (canon_tail h)
    obtain ⟨q, P⟩ := f
    have hP := (h.2 (q, P) List.mem_cons_self).1
    have hq : q < n := (h.2 (q, P) List.mem_cons_self).2
    have hxb : (xmask r).testBit q = false := xmask_head_bit h
    have hbit : ((actPTerm r s).2).testBit q = s.testBit q := by
      rw [ih1, Nat.testBit_xor, hxb]; simp
    rw [actPTerm_cons]
    unfold stepP
    simp only
    rw [xmask_cons, zmask_cons, ycount_cons]
    simp only
    rcases hP with rfl | rfl | rfl
    · -- X
      refine ⟨?_, ?_⟩
      · simp [actP, ih1, Nat.xor_assoc]
      · simp only [actP, Nat.add_zero]
        rw [ipow_mod, ih2]
        simp
    · -- Y
      refine ⟨?_, ?_⟩
      · simp [actP, ih1, Nat.xor_assoc]
      · simp only [actP, hbit]
        rw [ipow_mod, ← ipow_add, ih2]
        simp only [true_or, or_true, if_true, ← ipow_add, ipow_one]
        rw [sg_zmask_flip n (zmask r) q s hq]
        cases s.testBit q
        · simp [ipow_one]; ring
        · simp [ipow_three]; ring
    · -- Z
      refine ⟨?_, ?_⟩
      · simp [actP, ih1]
      · simp only [actP, hbit]
        rw [ipow_mod, ← ipow_add, ih2]
        simp only [true_or, or_true, if_true, show ¬ ((3 : Nat) = 2) by decide, if_false]
        rw [sg_zmask_flip n (zmask r) q s hq]
        cases s.testBit q
        · simp [ipow_zero]
        · simp [ipow_two]

/-! ### the masks determine the string -/

theorem xmask_lt (n : Nat) (t : PStr) (h : Canon n t) : xmask t < 2 ^ n := by
  induction t with
  | nil => simp [xmask]
  | cons f r ih =>
    rw [xmask_cons]
    split
    · exact xor_bit_lt n _ _ (ih (canon_tail h)) (h.2 f List.mem_cons_self).2
    · exact ih (canon_tail h)

theorem zmask_lt (n : Nat) (t : PStr) (h : Canon n t) : zmask t < 2 ^ n := by
  induction t with
  | nil => simp [zmask]
  | cons f r ih =>
    rw [zmask_cons]
    split
    · exact xor_bit_lt n _ _ (ih (canon_tail h)) (h.2 f List.mem_cons_self).2
    · exact ih (canon_tail h)

/-- the letter at a qubit of a canonical string is encoded by the two mask bits -/
theorem mask_bits_of_mem (n : Nat) (t : PStr) (h : Canon n t) (q P : Nat) (hm : (q, P) ∈ t) :
    (xmask t).testBit q = decide (P = 1 ∨ P = 2) ∧ (zmask t).testBit q = decide (P = 2 ∨ P = 3) := by
  induction t with
  | nil => simp at hm
  | cons f r ih =>
    rw [xmask_cons, zmask_cons]
    rcases List.mem_cons.1 hm with e | hr
    · subst e
      have hx := xmask_head_bit h
      have hz := zmask_head_bit h
      simp only at hx hz ⊢
      constructor
      · split
        · rename_i hc; rw [testBit_xflip, hx]; simp [hc]
        · rename_i hc; rw [hx]; simp [hc]
      · split
        · rename_i hc; rw [testBit_xflip, hz]; simp [hc]
        · rename_i hc; rw [hz]; simp [hc]
    · have hne : f.1 ≠ q := by
        have := (List.pairwise_cons.1 h.1).1 (q, P) hr
        simp only at this; omega
      obtain ⟨i1, i2⟩ := ih (canon_tail h) hr
      constructor
      · split
        · rw [testBit_xflip_ne _ _ _ hne, i1]
        · exact i1
      · split
        · rw [testBit_xflip_ne _ _ _ hne, i2]
        · exact i2

/-- **canonical strings with the same masks are equal** -/
theorem canon_ext (n : Nat) (t u : PStr) (ht : Canon n t) (hu : Canon n u)
    (hx : xmask t = xmask u) (hz : zmask t = zmask u) : t = u := by
  have sub : ∀ (a b : PStr), Canon n a → Canon n b → xmask a = xmask b → zmask a = zmask b → ∀ f ∈ a, f ∈ b := by
    intro a b ha hb hxa hza f hf
    obtain ⟨q, P⟩ := f
    obtain ⟨b1, b2⟩ := mask_bits_of_mem n a ha q P hf
    have hP := (ha.2 (q, P) hf).1
    -- some mask bit at q is set, hence b has a factor at q
    have hex : ∃ g ∈ b, g.1 = q := by
      rcases hP with rfl | rfl | rfl
      · apply xmask_bit b q; rw [← hxa, b1]; decide
      · apply xmask_bit b q; rw [← hxa, b1]; decide
      · apply zmask_bit b q; rw [← hza, b2]; decide
    obtain ⟨g, hg, hgq⟩ := hex
    obtain ⟨q', P'⟩ := g
    simp only at hgq; subst hgq
    obtain ⟨c1, c2⟩ := mask_bits_of_mem n b hb q' P' hg
    have hP' := (hb.2 (q', P') hg).1
    rw [← hxa, b1] at c1
    rw [← hza, b2] at c2
    have : P = P' := by
      rcases hP with rfl | rfl | rfl <;> rcases hP' with rfl | rfl | rfl <;> simp at c1 c2 <;> rfl
    subst this; exact hg
  have nd : ∀ (a : PStr), Canon n a → a.Nodup := fun a ha =>
    ha.1.imp (fun {x y} hxy e => by subst e; omega)
  have hperm : t.Perm u :=
    (List.perm_ext_iff_of_nodup (nd t ht) (nd u hu)).2 (fun f => ⟨sub t u ht hu hx hz f, sub u t hu ht hx.symm hz.symm f⟩)
  exact List.Perm.eq_of_pairwise (fun a b _ _ h1 h2 => by omega) ht.1 hu.1 hperm

end C19P
end OFV
