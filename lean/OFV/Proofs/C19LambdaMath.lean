/-
C19 — `lambda_norm` in mathematical form: `Σ_{i≠j} (|T_ij|/2 + |V_ij|/4) + Σ_i |T_ii/2 + V_ii/2 + Σ_{j≠i} (V_ij + V_ji)/4|`.
-/
import OFV.Proofs.C19LambdaSpec
import OFV.Proofs.C19JwNorm2

namespace OFV
namespace C19Jw
open Model.C19

theorem rdelta (n p : Nat) (hp : p < n) (f : Nat → Rat) :
    ∑ r ∈ Finset.range n, (if p = r then f r else 0) = f p := by
  rw [Finset.sum_ite_eq]; simp [hp]

theorem rdelta' (n p : Nat) (hp : p < n) (f : Nat → Rat) :
    ∑ r ∈ Finset.range n, (if r = p then f r else 0) = f p := by
  rw [Finset.sum_ite_eq']; simp [hp]

/-- everything the loops subtract from `z_vector[i]` -/
theorem lamD_total (T V : List (List Rat)) (N i : Nat) (hi : i < N) :
    ∑ a ∈ Finset.range N, ∑ b ∈ Finset.range N, lamD T V a b i
      = mat T i i / 2 + mat V i i / 2
        + ∑ j ∈ Finset.range N, (if j = i then 0 else (mat V i j + mat V j i) / 4) := by
  have hsplit : ∀ a b, lamD T V a b i
      = (if a = b then (if i = a then mat T a a / 2 + mat V a a / 2 else 0) else 0)
        + ((if i = a then (if b = i then 0 else mat V a b / 4) else 0)
          + (if i = b then (if a = i then 0 else mat V a b / 4) else 0)) := by
    intro a b
    unfold lamD
    by_cases hab : a = b
    · subst hab
      by_cases hia : i = a
      · subst hia; simp
      · simp [hia]
    · rw [if_neg hab, if_neg hab, zero_add]
      by_cases hia : i = a
      · subst hia
        have h1 : ¬ b = i := fun e => hab e.symm
        have h2 : ¬ i = b := hab
        simp [h1, h2]
      · by_cases hib : i = b
        · subst hib
          have h1 : ¬ a = i := fun e => hia e.symm
          simp [hia, h1]
        · simp [hia, hib]
  rw [Finset.sum_congr rfl (fun a _ => Finset.sum_congr rfl (fun b _ => hsplit a b))]
  simp only [Finset.sum_add_distrib]
  -- first part
  have p1 : ∑ a ∈ Finset.range N, ∑ b ∈ Finset.range N,
        (if a = b then (if i = a then mat T a a / 2 + mat V a a / 2 else 0) else 0)
      = mat T i i / 2 + mat V i i / 2 := by
    have : ∀ a ∈ Finset.range N, ∑ b ∈ Finset.range N,
          (if a = b then (if i = a then mat T a a / 2 + mat V a a / 2 else 0) else 0)
        = if i = a then mat T a a / 2 + mat V a a / 2 else 0 := by
      intro a ha
      exact rdelta N a (Finset.mem_range.1 ha) (fun _ => if i = a then mat T a a / 2 + mat V a a / 2 else 0)
    rw [Finset.sum_congr rfl this, rdelta N i hi (fun a => mat T a a / 2 + mat V a a / 2)]
  have p2 : ∑ a ∈ Finset.range N, ∑ b ∈ Finset.range N,
        (if i = a then (if b = i then 0 else mat V a b / 4) else 0)
      = ∑ j ∈ Finset.range N, (if j = i then 0 else mat V i j / 4) := by
    have : ∀ a ∈ Finset.range N, ∑ b ∈ Finset.range N, (if i = a then (if b = i then 0 else mat V a b / 4) else 0)
        = if i = a then ∑ b ∈ Finset.range N, (if b = i then 0 else mat V a b / 4) else 0 := by
      intro a _
      by_cases e : i = a <;> simp [e]
    rw [Finset.sum_congr rfl this, rdelta N i hi (fun a => ∑ b ∈ Finset.range N, (if b = i then 0 else mat V a b / 4))]
  have p3 : ∑ a ∈ Finset.range N, ∑ b ∈ Finset.range N,
        (if i = b then (if a = i then 0 else mat V a b / 4) else 0)
      = ∑ j ∈ Finset.range N, (if j = i then 0 else mat V j i / 4) := by
    apply Finset.sum_congr rfl
    intro a _
    exact rdelta N i hi (fun b => if a = i then 0 else mat V a b / 4)
  rw [p1, p2, p3, ← Finset.sum_add_distrib]
  congr 1
  apply Finset.sum_congr rfl
  intro j _
  by_cases e : j = i <;> simp [e]; ring

/-- **`lambda_norm` in mathematical form** -/
theorem lambdaNorm_math (T V : List (List Rat)) :
    lambdaNorm T V
      = ∑ i ∈ Finset.range T.length, ∑ j ∈ Finset.range T.length,
          (if i = j then 0 else rabs (mat T i j) / 2 + rabs (mat V i j) / 4)
        + ∑ i ∈ Finset.range T.length,
            rabs (mat T i i / 2 + mat V i i / 2
              + ∑ j ∈ Finset.range T.length, (if j = i then 0 else (mat V i j + mat V j i) / 4)) := by
  rw [lambdaNorm_closed]
  have e1 : ((List.range T.length).map fun p => ((List.range T.length).map fun q => lamA T V p q).sum).sum
      = ∑ i ∈ Finset.range T.length, ∑ j ∈ Finset.range T.length,
          (if i = j then 0 else rabs (mat T i j) / 2 + rabs (mat V i j) / 4) := by
    rw [C19P.rlist_sum_range_eq]
    apply Finset.sum_congr rfl
    intro i _
    rw [C19P.rlist_sum_range_eq]
    rfl
  have e2 : ((List.range T.length).map fun j =>
        rabs (-(((List.range T.length).map fun p => ((List.range T.length).map fun q => lamD T V p q j).sum).sum))).sum
      = ∑ i ∈ Finset.range T.length,
            rabs (mat T i i / 2 + mat V i i / 2
              + ∑ j ∈ Finset.range T.length, (if j = i then 0 else (mat V i j + mat V j i) / 4)) := by
    rw [C19P.rlist_sum_range_eq]
    apply Finset.sum_congr rfl
    intro i hi
    rw [rabs_neg, C19P.rlist_sum_range_eq,
      Finset.sum_congr rfl (fun a _ => C19P.rlist_sum_range_eq T.length (fun b => lamD T V a b i)),
      lamD_total T V T.length i (Finset.mem_range.1 hi)]
  rw [e1, e2]

end C19Jw
end OFV
