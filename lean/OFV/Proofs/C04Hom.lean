/-
`QubitOperator.__imul__` (Model.mulOp .qubit) denotes the operator product, and a fold of
such products over the factors of a term denotes the composition of the factor actions.
Used by C04 (Jordan-Wigner) and C05 (Bravyi-Kitaev).
-/
import OFV.Proofs.C04Sem
import OFV.Proofs.C04Simp

namespace OFV
namespace Sem
open Spec Model

/-! ### qubit term coefficients -/

theorem termCoef_qubit (t : List (Nat × Nat)) (m x : Nat) :
    termCoef .qubit t [m] [x] = if (actPTerm t m).2 = x then GQ.ipow (actPTerm t m).1 else 0 := by
  simp [termCoef, actTerm, maskOf]

theorem termCoef_qubit_append (lt rt : List (Nat × Nat)) (m x : Nat) :
    termCoef .qubit (lt ++ rt) [m] [x]
      = GQ.ipow (actPTerm rt m).1 * termCoef .qubit lt [(actPTerm rt m).2] [x] := by
  simp only [termCoef_qubit, actPTerm_append]
  split
  · rw [ipow_mod, ipow_add]
  · simp

theorem termCoef_simplify {t : List (Nat × Nat)} (h : ValidQ t) (m x : Nat) :
    (simplifyQubit t).1 * termCoef .qubit (simplifyQubit t).2 [m] [x] = termCoef .qubit t [m] [x] := by
  obtain ⟨h1, h2⟩ := simplifyQubit_sound h m
  simp only [termCoef_qubit, h1]
  split
  · exact h2
  · simp

/-! ### dictionaries -/

def ValidOp (A : Op) : Prop := ∀ tc ∈ A, ValidQ tc.1

theorem validOp_nil : ValidOp [] := fun _ h => by simp at h

theorem set_valid {d : Op} {k : List (Nat × Nat)} (v : GQ) (hd : ValidOp d) (hk : ValidQ k) :
    ValidOp (Dict.set d k v) := by
  induction d with
  | nil => intro tc h; simp [Dict.set] at h; subst h; exact hk
  | cons e r ih =>
    obtain ⟨k', v'⟩ := e
    have hr : ValidOp r := fun tc h => hd tc (List.mem_cons_of_mem _ h)
    have he : ValidQ k' := hd (k', v') List.mem_cons_self
    simp only [Dict.set]
    split
    · intro tc h
      rcases List.mem_cons.1 h with rfl | h
      · exact he
      · exact hr tc h
    · intro tc h
      rcases List.mem_cons.1 h with rfl | h
      · exact he
      · exact ih hr tc h

theorem accum_valid {d : Op} {k : List (Nat × Nat)} (v : GQ) (hd : ValidOp d) (hk : ValidQ k) :
    ValidOp (accum d k v) := by
  unfold accum; split <;> exact set_valid _ hd hk

theorem accum_cons_ne (k' : List (Nat × Nat)) (v' : GQ) (r : Op) (k : List (Nat × Nat)) (c : GQ) (h : ¬ k' = k) :
    accum ((k', v') :: r) k c = (k', v') :: accum r k c := by
  simp only [accum, Dict.get?, h, if_false, Dict.set]
  cases Dict.get? r k <;> rfl

theorem den_accum (alg : Alg) (d : Op) (k : List (Nat × Nat)) (c : GQ) (s x : St) :
    den alg (accum d k c) s x = den alg d s x + c * termCoef alg k s x := by
  induction d with
  | nil => simp [accum, Dict.get?, Dict.set, den_cons, den_nil]
  | cons e r ih =>
    obtain ⟨k', v'⟩ := e
    by_cases h : k' = k
    · subst h
      simp only [accum, Dict.get?, if_true, Dict.set, den_cons]
      ring
    · rw [accum_cons_ne _ _ _ _ _ h, den_cons, den_cons, ih]; ring

/-! ### the product -/

theorem mulOp_inner_valid (lt : List (Nat × Nat)) (lc : GQ) (b acc : Op) (hl : ValidQ lt) (hb : ValidOp b)
    (hacc : ValidOp acc) :
    ValidOp (b.foldl (fun acc2 (r : List (Nat × Nat) × GQ) =>
      accum acc2 (simplify .qubit (lt ++ r.1)).2 (lc * r.2 * (simplify .qubit (lt ++ r.1)).1)) acc) := by
  induction b generalizing acc with
  | nil => exact hacc
  | cons r b ih =>
    simp only [List.foldl_cons]
    apply ih _ (fun tc h => hb tc (List.mem_cons_of_mem _ h))
    apply accum_valid _ hacc
    apply simplifyQubit_valid
    intro f hf
    rcases List.mem_append.1 hf with h | h
    · exact hl f h
    · exact hb r List.mem_cons_self f h

theorem mulOp_valid {a b : Op} (ha : ValidOp a) (hb : ValidOp b) : ValidOp (mulOp .qubit a b) := by
  unfold mulOp
  suffices h : ∀ acc, ValidOp acc → ValidOp (a.foldl (fun acc (l : List (Nat × Nat) × GQ) =>
      b.foldl (fun acc2 (r : List (Nat × Nat) × GQ) =>
        accum acc2 (simplify .qubit (l.1 ++ r.1)).2 (l.2 * r.2 * (simplify .qubit (l.1 ++ r.1)).1)) acc) acc) from
    h [] validOp_nil
  induction a with
  | nil => intro acc h; exact h
  | cons l a ih =>
    intro acc hacc
    simp only [List.foldl_cons]
    apply ih (fun tc h => ha tc (List.mem_cons_of_mem _ h))
    exact mulOp_inner_valid l.1 l.2 b acc (ha l List.mem_cons_self) hb hacc

theorem den_mulOp_inner (lt : List (Nat × Nat)) (lc : GQ) (b acc : Op) (hl : ValidQ lt) (hb : ValidOp b)
    (m x : Nat) :
    den .qubit (b.foldl (fun acc2 (r : List (Nat × Nat) × GQ) =>
      accum acc2 (simplify .qubit (lt ++ r.1)).2 (lc * r.2 * (simplify .qubit (lt ++ r.1)).1)) acc) [m] [x]
    = den .qubit acc [m] [x] + (b.map fun r => lc * r.2 * termCoef .qubit (lt ++ r.1) [m] [x]).sum := by
  induction b generalizing acc with
  | nil => simp
  | cons r b ih =>
    have hv : ValidQ (lt ++ r.1) := by
      intro f hf
      rcases List.mem_append.1 hf with h | h
      · exact hl f h
      · exact hb r List.mem_cons_self f h
    simp only [List.foldl_cons, List.map_cons, List.sum_cons]
    rw [ih _ (fun tc h => hb tc (List.mem_cons_of_mem _ h)), den_accum]
    have := termCoef_simplify hv m x
    simp only [simplify] at this ⊢
    rw [mul_assoc (lc * r.2), this]
    ring

theorem den_mulOp (a b : Op) (ha : ValidOp a) (hb : ValidOp b) (m x : Nat) :
    den .qubit (mulOp .qubit a b) [m] [x]
      = (a.map fun l => (b.map fun r => l.2 * r.2 * termCoef .qubit (l.1 ++ r.1) [m] [x]).sum).sum := by
  unfold mulOp
  suffices h : ∀ acc, den .qubit (a.foldl (fun acc (l : List (Nat × Nat) × GQ) =>
      b.foldl (fun acc2 (r : List (Nat × Nat) × GQ) =>
        accum acc2 (simplify .qubit (l.1 ++ r.1)).2 (l.2 * r.2 * (simplify .qubit (l.1 ++ r.1)).1)) acc) acc) [m] [x]
      = den .qubit acc [m] [x]
        + (a.map fun l => (b.map fun r => l.2 * r.2 * termCoef .qubit (l.1 ++ r.1) [m] [x]).sum).sum by
    have := h []
    rw [den_nil, zero_add] at this
    exact this
  induction a with
  | nil => intro acc; simp
  | cons l a ih =>
    intro acc
    simp only [List.foldl_cons, List.map_cons, List.sum_cons]
    rw [ih (fun tc h => ha tc (List.mem_cons_of_mem _ h)),
      den_mulOp_inner l.1 l.2 b acc (ha l List.mem_cons_self) hb]
    ring

theorem sum_swap {α β : Type} (a : List α) (b : List β) (f : α → β → GQ) :
    (a.map fun l => (b.map fun r => f l r).sum).sum = (b.map fun r => (a.map fun l => f l r).sum).sum := by
  induction a with
  | nil => simp
  | cons l a ih => simp [ih, List.sum_map_add]

theorem sum_map_mul_left' {α : Type} (c : GQ) (l : List α) (f : α → GQ) :
    (l.map fun i => c * f i).sum = c * (l.map f).sum := by
  induction l with
  | nil => simp
  | cons a l ih => simp [ih]; ring

/-- the product, with the right factor applied first: `⟨x| a·b |m⟩ = Σ_r c_r i^{k_r} ⟨x| a |m_r⟩`
where the Pauli string `r` of `b` sends `|m⟩` to `i^{k_r} |m_r⟩`. -/
theorem den_mulOp_right (a b : Op) (ha : ValidOp a) (hb : ValidOp b) (m x : Nat) :
    den .qubit (mulOp .qubit a b) [m] [x]
      = (b.map fun r => r.2 * GQ.ipow (actPTerm r.1 m).1 * den .qubit a [(actPTerm r.1 m).2] [x]).sum := by
  rw [den_mulOp a b ha hb, sum_swap]
  congr 1
  apply List.map_congr_left
  intro r _
  rw [den_eq_sum, ← sum_map_mul_left']
  congr 1
  apply List.map_congr_left
  intro l _
  rw [termCoef_qubit_append]
  ring

/-! ### a term as a composition of factor actions -/

/-- monomial action of a list of factors (leftmost applied last); `none` = 0 -/
def actTermG (act : Nat × Nat → Nat → Option (GQ × Nat)) (t : List (Nat × Nat)) (m : Nat) : Option (GQ × Nat) :=
  t.foldr (fun f acc => match acc with
    | none => none
    | some (c, m') => match act f m' with
      | none => none
      | some (c', m'') => some (c * c', m'')) (some (1, m))

/-- If the image `img f` of every factor acts on basis states like the monomial map `act f`,
then the left-to-right product of the images of the factors of `t`, started from `w`, denotes
`w ∘ (act of t)`. -/
theorem foldl_mulOp_sound (img : Nat × Nat → Op) (act : Nat × Nat → Nat → Option (GQ × Nat))
    (hv : ∀ f, ValidOp (img f))
    (himg : ∀ f m (W : Nat → GQ),
      ((img f).map fun r => r.2 * GQ.ipow (actPTerm r.1 m).1 * W (actPTerm r.1 m).2).sum
        = match act f m with
          | none => 0
          | some (c, m') => c * W m')
    (t : List (Nat × Nat)) (w : Op) (hw : ValidOp w) (m x : Nat) :
    den .qubit (t.foldl (fun w f => mulOp .qubit w (img f)) w) [m] [x]
      = match actTermG act t m with
        | none => 0
        | some (c, m') => c * den .qubit w [m'] [x] := by
  induction t generalizing w with
  | nil => simp [actTermG]
  | cons f t ih =>
    simp only [List.foldl_cons]
    rw [ih (mulOp .qubit w (img f)) (mulOp_valid hw (hv f))]
    simp only [actTermG, List.foldr_cons]
    cases h1 : List.foldr (fun f acc => match acc with
        | none => none
        | some (c, m') => match act f m' with
          | none => none
          | some (c', m'') => some (c * c', m'')) (some (1, m)) t with
    | none => rfl
    | some cm =>
      obtain ⟨c, m'⟩ := cm
      simp only
      rw [den_mulOp_right w (img f) hw (hv f), himg f m' (fun y => den .qubit w [y] [x])]
      cases h2 : act f m' with
      | none => simp
      | some cm2 => obtain ⟨c', m''⟩ := cm2; simp only; ring

end Sem
end OFV
