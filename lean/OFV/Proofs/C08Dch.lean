/-
C08 helper lemmas: the scatter loop of `get_diagonal_coulomb_hamiltonian` on normal-ordered input and
`DiagonalCoulombHamiltonian.__init__`, against the Fock-space Spec.
-/
import OFV.Proofs.C08ScatterC03
import OFV.Proofs.C08Fock

namespace OFV
namespace C08P
open Spec Spec.C08 Model Model.C08

/-! ### cells -/

/-- admissible shapes for the diagonal Coulomb scatter on normal-ordered input -/
inductive AdmD (n : Nat) : Term → Prop
  | const : AdmD n []
  | one (p q : Nat) (hp : p < n) (hq : q < n) : AdmD n [(p, 1), (q, 0)]
  | dens (p q : Nat) (hp : p < n) (hq : q < p) : AdmD n [(p, 1), (q, 1), (p, 0), (q, 0)]

def cellD (st : GQ × Tensor × Tensor) : Term → Option GQ
  | [] => some st.1
  | [(p, 1), (q, 0)] => tget [p, q] st.2.1
  | [(p, 1), (q, 1), (_, 0), (_, 0)] => tget [p, q] st.2.2
  | _ => none

/-- the value written for a term -/
def valD (t : Term) (c : GQ) : GQ :=
  match t with
  | [(_, 1), (_, 1), (_, 0), (_, 0)] => ⟨-(1/2) * c.re, 0⟩
  | _ => c

/-- shapes, symmetry of `two_body`, zero diagonal -/
def InvD (n : Nat) (st : GQ × Tensor × Tensor) : Prop :=
  Shaped n 2 st.2.1 ∧ Shaped n 2 st.2.2 ∧
  (∀ p q, p < n → q < n → tget [q, p] st.2.2 = tget [p, q] st.2.2) ∧
  (∀ p, p < n → tget [p, p] st.2.2 = some 0)

theorem lt2 {n p q : Nat} (hp : p < n) (hq : q < n) : ∀ a ∈ [p, q], a < n := by
  intro a ha; simp at ha; rcases ha with rfl | rfl <;> assumption

theorem dchStep_spec (tol : Rat) (n : Nat) (st st1 : GQ × Tensor × Tensor) (t : Term) (c : GQ)
    (hs : GQ.isSmall tol c = false) (hn : ∀ f ∈ t, f.1 < n) (hno : Spec.C02.NormalOrderedF t)
    (hsh : InvD n st) (h : dchStep tol false st (t, c) = .ok st1) :
    AdmD n t ∧ InvD n st1 ∧ ∀ K, AdmD n K → cellD st1 K = if K = t then some (valD t c) else cellD st K := by
  unfold dchStep at h
  simp only [hs, Bool.false_eq_true, if_false] at h
  split at h
  · simp only [Except.ok.injEq] at h
    subst h
    refine ⟨AdmD.const, hsh, ?_⟩
    intro K hK
    cases hK <;> simp [cellD, valD]
  · rename_i _ p q
    simp only [Except.ok.injEq] at h
    subst h
    have hp : p < n := hn (p, 1) (by simp)
    have hq : q < n := hn (q, 0) (by simp)
    refine ⟨AdmD.one p q hp hq, ⟨Shaped_tset n 2 _ _ _ hsh.1, hsh.2.1, hsh.2.2.1, hsh.2.2.2⟩, ?_⟩
    intro K hK
    cases hK with
    | const => simp [cellD]
    | one p' q' hp' hq' =>
      simp only [cellD]
      rw [tget_tset n 2 st.2.1 [p, q] [p', q'] c hsh.1 rfl (lt2 hp hq) rfl]
      by_cases e : p' = p ∧ q' = q
      · obtain ⟨rfl, rfl⟩ := e; simp [valD]
      · have e1 : ¬ ([p', q'] = [p, q]) := by intro h; simp at h; exact e h
        have e2 : ¬ ([(p', 1), (q', 0)] = [(p, 1), (q, 0)]) := by intro h; simp at h; exact e h
        simp [e1, e2]
    | dens p' q' _ _ => simp [cellD]
  · rename_i _ p q r s
    have hp : p < n := hn (p, 1) (by simp)
    have hq : q < n := hn (q, 1) (by simp)
    have hqp : q < p := by
      have := List.pairwise_cons.mp hno
      have h2 := (this.1 (q, 1) (by simp)).2 rfl
      exact h2
    split at h
    · rename_i hprs
      obtain ⟨rfl, rfl⟩ := hprs
      split at h
      · cases h
      · simp only [Except.ok.injEq] at h
        subst h
        have hsh1 : Shaped n 2 (tset [p, q] ⟨-(1/2) * c.re, 0⟩ st.2.2) := Shaped_tset n 2 _ _ _ hsh.2.1
        have hget : ∀ a b, tget [a, b] (tset [q, p] ⟨-(1/2) * c.re, 0⟩ (tset [p, q] ⟨-(1/2) * c.re, 0⟩ st.2.2))
            = if [a, b] = [q, p] then some ⟨-(1/2) * c.re, 0⟩
              else if [a, b] = [p, q] then some ⟨-(1/2) * c.re, 0⟩ else tget [a, b] st.2.2 := by
          intro a b
          rw [tget_tset n 2 _ [q, p] [a, b] _ hsh1 rfl (lt2 hq hp) rfl,
            tget_tset n 2 _ [p, q] [a, b] _ hsh.2.1 rfl (lt2 hp hq) rfl]
        refine ⟨AdmD.dens p q hp hqp, ⟨hsh.1, Shaped_tset n 2 _ _ _ hsh1, ?_, ?_⟩, ?_⟩
        · intro a b ha hb
          simp only
          rw [hget, hget]
          by_cases e1 : a = q ∧ b = p
          · obtain ⟨rfl, rfl⟩ := e1
            have : ¬ ([b, a] = [a, b]) := by intro h; simp at h; omega
            simp [this]
          · by_cases e2 : a = p ∧ b = q
            · obtain ⟨rfl, rfl⟩ := e2
              have : ¬ ([a, b] = [b, a]) := by intro h; simp at h; omega
              simp [this]
            · have n1 : ¬ ([a, b] = [q, p]) := by intro h; simp at h; exact e1 h
              have n2 : ¬ ([a, b] = [p, q]) := by intro h; simp at h; exact e2 h
              have n3 : ¬ ([b, a] = [q, p]) := by intro h; simp at h; exact e2 ⟨h.2, h.1⟩
              have n4 : ¬ ([b, a] = [p, q]) := by intro h; simp at h; exact e1 ⟨h.2, h.1⟩
              simp only [n1, n2, n3, n4, if_false]
              exact hsh.2.2.1 a b ha hb
        · intro a ha
          simp only
          rw [hget]
          have n1 : ¬ ([a, a] = [q, p]) := by intro h; simp at h; omega
          have n2 : ¬ ([a, a] = [p, q]) := by intro h; simp at h; omega
          simp only [n1, n2, if_false]
          exact hsh.2.2.2 a ha
        · intro K hK
          cases hK with
          | const => simp [cellD]
          | one p' q' _ _ => simp [cellD]
          | dens p' q' hp' hq' =>
            simp only [cellD]
            rw [hget]
            by_cases e : p' = p ∧ q' = q
            · obtain ⟨rfl, rfl⟩ := e
              have : ¬ ([p', q'] = [q', p']) := by intro h; simp at h; omega
              simp [this, valD]
            · have n1 : ¬ ([p', q'] = [q, p]) := by intro h; simp at h; omega
              have n2 : ¬ ([p', q'] = [p, q]) := by intro h; simp at h; exact e h
              have n3 : ¬ ([(p', 1), (q', 1), (p', 0), (q', 0)] = [(p, 1), (q, 1), (p, 0), (q, 0)]) := by
                intro h; simp at h; exact e ⟨h.1, h.2.1⟩
              simp [n1, n2, n3]
    · simp at h
  · simp at h

theorem dch_fold (tol : Rat) (n : Nat) : ∀ (L : Op) (st st' : GQ × Tensor × Tensor),
    L.foldlM (dchStep tol false) st = .ok st' → (L.map Prod.fst).Nodup → (∀ e ∈ L, GQ.isSmall tol e.2 = false) →
    (∀ e ∈ L, ∀ f ∈ e.1, f.1 < n) → (∀ e ∈ L, Spec.C02.NormalOrderedF e.1) → InvD n st →
    InvD n st' ∧ (∀ e ∈ L, AdmD n e.1) ∧
    ∀ K, AdmD n K → cellD st' K = if K ∈ L.map Prod.fst then some (valD K (Dict.getD L K 0)) else cellD st K := by
  intro L
  induction L with
  | nil =>
    intro st st' h _ _ _ _ hsh
    simp only [List.foldlM_nil, pure, Except.pure, Except.ok.injEq] at h
    subst h
    exact ⟨hsh, by simp, by simp⟩
  | cons e r ih =>
    intro st st' h hnd hsm hn hno hsh
    obtain ⟨t, c⟩ := e
    rw [List.foldlM_cons] at h
    cases h1 : dchStep tol false st (t, c) with
    | error er => simp [h1, bind, Except.bind] at h
    | ok st1 =>
      simp only [h1, bind, Except.bind] at h
      simp only [List.map_cons, List.nodup_cons] at hnd
      obtain ⟨ha, hsh1, hc1⟩ := dchStep_spec tol n st st1 t c (hsm (t, c) (by simp)) (hn (t, c) (by simp))
        (hno (t, c) (by simp)) hsh h1
      obtain ⟨hsh', hadm, hc'⟩ := ih st1 st' h hnd.2 (fun e he => hsm e (by simp [he]))
        (fun e he => hn e (by simp [he])) (fun e he => hno e (by simp [he])) hsh1
      refine ⟨hsh', ?_, ?_⟩
      · intro e he
        rcases List.mem_cons.mp he with rfl | he
        · exact ha
        · exact hadm e he
      · intro K hK
        rw [hc' K hK, hc1 K hK, getD_cons_op]
        simp only [List.map_cons, List.mem_cons]
        by_cases hKt : K = t
        · subst hKt
          simp [hnd.1]
        · have : ¬ t = K := fun e => hKt e.symm
          simp only [hKt, false_or, this, if_false]

/-! ### sums -/

theorem lsum_range (f : Nat → GQ) (n : Nat) : lsum f (List.range n) = sumN n f := by
  induction n with
  | zero => rfl
  | succ n ih => rw [List.range_succ, lsum_append, ih]; simp [lsum, sumN]

theorem lsum_pairs (n : Nat) (F : Nat × Nat → GQ) :
    lsum F (pairs n) = sumN n (fun p => sumN n (fun q => F (p, q))) := by
  unfold pairs
  rw [lsum_flatMap, lsum_range]
  congr 1
  funext p
  rw [lsum_map, lsum_range]

theorem lsum_indices2 (n : Nat) (F : List Nat → GQ) :
    lsum F (indices n 2) = sumN n (fun p => sumN n (fun q => F [p, q])) := by
  have h1 : indices n 1 = (List.range n).map fun j => [j] := by
    simp only [indices, List.map_cons, List.map_nil]
    induction (List.range n) with
    | nil => rfl
    | cons a r ih => simp [List.flatMap_cons, ih]
  have h2 : indices n 2 = (List.range n).flatMap fun i => (indices n 1).map (i :: ·) := rfl
  rw [h2, lsum_flatMap, lsum_range]
  congr 1
  funext p
  rw [h1, List.map_map, lsum_map, lsum_range]
  rfl

theorem lsum_filter {α : Type} (f : α → GQ) (P : α → Bool) (l : List α) :
    lsum f (l.filter P) = lsum (fun a => if P a then f a else 0) l := by
  induction l with
  | nil => rfl
  | cons a r ih =>
    by_cases h : P a = true
    · simp only [List.filter_cons, h, if_true, lsum, ih]
    · simp only [List.filter_cons, h, lsum]; simp [ih]

theorem entry2_eq (T : Tensor) (p q : Nat) : entry2 T p q = (tget [p, q] T).getD 0 := by
  cases T with
  | s c => rfl
  | v l =>
    simp only [entry2, tget]
    cases hl : l[p]? with
    | none => rfl
    | some t =>
      cases t with
      | s c => rfl
      | v r =>
        simp only [tget]
        cases hr : r[q]? with
        | none => rfl
        | some u =>
          cases u with
          | s c => rfl
          | v _ => rfl

theorem neg_two_half (C : GQ) (h : C.im = 0) : -((⟨-(1/2) * C.re, 0⟩ : GQ) + ⟨-(1/2) * C.re, 0⟩) = C := by
  apply GQ.ext
  · simp; ring
  · simp [h]

/-- the symmetric sum `Σ V_pq n_p n_q` in terms of the normal-ordered words -/
theorem sym_sum (n : Nat) (v : Nat → Nat → GQ) (wn wd : Nat → Nat → GQ)
    (hsym : ∀ p q, p < n → q < n → v q p = v p q) (hdiag : ∀ p, p < n → v p p = 0)
    (W : ∀ p q, p ≠ q → wn p q = -(wd p q) ∧ wn q p = -(wd p q)) :
    sumN n (fun p => sumN n (fun q => v p q * wn p q))
      = sumN n (fun p => sumN n (fun q => if q < p then (-(v p q + v p q)) * wd p q else 0)) := by
  have hsplit : sumN n (fun p => sumN n (fun q => v p q * wn p q))
      = sumN n (fun p => sumN n (fun q => (if q < p then -(v p q * wd p q) else 0)
          + (if p < q then -(v p q * wd q p) else 0))) := by
    apply sumN_congr; intro p hp
    apply sumN_congr; intro q hq
    rcases Nat.lt_trichotomy q p with h | h | h
    · have h' : ¬ p < q := by omega
      rw [if_pos h, if_neg h', (W p q (by omega)).1]; ring
    · subst h; simp [hdiag q hq]
    · have h' : ¬ q < p := by omega
      rw [if_neg h', if_pos h, (W q p (by omega)).2]; ring
  rw [hsplit]
  have hadd : sumN n (fun p => sumN n (fun q => (if q < p then -(v p q * wd p q) else 0)
          + (if p < q then -(v p q * wd q p) else 0)))
      = sumN n (fun p => sumN n (fun q => if q < p then -(v p q * wd p q) else 0))
        + sumN n (fun p => sumN n (fun q => if p < q then -(v p q * wd q p) else 0)) := by
    rw [← sumN_add]
    apply sumN_congr; intro p _
    rw [← sumN_add]
  rw [hadd, sumN_comm n n (fun p q => if p < q then -(v p q * wd q p) else 0), ← sumN_add]
  apply sumN_congr; intro p hp
  rw [← sumN_add]
  apply sumN_congr; intro q hq
  by_cases h : q < p
  · simp only [if_pos h]
    rw [hsym p q hp hq]; ring
  · simp only [if_neg h]; ring

/-! ### `DiagonalCoulombHamiltonian.__init__`: entries are kept when the diagonal of `two_body` is zero -/

theorem fold_same (n : Nat) (T : Tensor) (val : Tensor → Nat → GQ)
    (hval : ∀ acc i, i < n → (∀ idx, idx.length = 2 → tget idx acc = tget idx T) → tget [i, i] acc = some (val acc i)) :
    ∀ (L : List Nat) (acc : Tensor), (∀ i ∈ L, i < n) → Shaped n 2 acc →
    (∀ idx, idx.length = 2 → tget idx acc = tget idx T) →
    Shaped n 2 (L.foldl (fun acc i => tset [i, i] (val acc i) acc) acc) ∧
    ∀ idx, idx.length = 2 → tget idx (L.foldl (fun acc i => tset [i, i] (val acc i) acc) acc) = tget idx T := by
  intro L
  induction L with
  | nil => intro acc _ h1 h2; exact ⟨h1, h2⟩
  | cons i r ih =>
    intro acc hL hsh hag
    rw [List.foldl_cons]
    have hi : i < n := hL i (by simp)
    apply ih _ (fun j hj => hL j (by simp [hj])) (Shaped_tset n 2 _ _ _ hsh)
    intro idx hidx
    rw [tget_tset n 2 acc [i, i] idx _ hsh rfl (lt2 hi hi) hidx]
    by_cases e : idx = [i, i]
    · rw [if_pos e, e, ← hval acc i hi hag, hag [i, i] rfl]
    · rw [if_neg e, hag idx hidx]

/-! ### the words covered by the loop -/

def kd (idx : List Nat) : Term := (idx ++ idx).zip [1, 1, 0, 0]

def gtB (idx : List Nat) : Bool :=
  match idx with
  | [p, q] => decide (q < p)
  | _ => false

def admKeysD (n : Nat) : List Term :=
  [] :: ((indices n 2).map (fun idx => idx.zip [1, 0]) ++ ((indices n 2).filter gtB).map kd)

theorem admKeysD_nodup (n : Nat) : (admKeysD n).Nodup := by
  unfold admKeysD
  have hlen : ∀ idx ∈ (indices n 2).filter gtB, idx.length = 2 :=
    fun idx h => mem_indices_length n 2 idx (List.mem_filter.mp h).1
  rw [List.nodup_cons]
  constructor
  · intro h
    rcases List.mem_append.mp h with h | h
    · obtain ⟨idx, hi, he⟩ := List.mem_map.mp h
      have := mem_indices_length n 2 idx hi
      have hl := congrArg List.length he
      simp [List.length_zip, this] at hl
    · obtain ⟨idx, hi, he⟩ := List.mem_map.mp h
      have := hlen idx hi
      have hl := congrArg List.length he
      simp [kd, List.length_zip, this] at hl
  · rw [List.nodup_append]
    refine ⟨zip_inj_on [1, 0] _ (fun idx h => mem_indices_length n 2 idx h) (indices_nodup n 2), ?_, ?_⟩
    · apply List.Nodup.map_on _ ((indices_nodup n 2).filter _)
      intro a ha b hb hab
      have := congrArg (List.map Prod.fst) hab
      unfold kd at this
      rw [List.map_fst_zip (by simp [hlen a ha]), List.map_fst_zip (by simp [hlen b hb])] at this
      exact List.append_inj_left this (by rw [hlen a ha, hlen b hb])
    · intro a ha b hb hab
      obtain ⟨i1, h1, e1⟩ := List.mem_map.mp ha
      obtain ⟨i2, h2, e2⟩ := List.mem_map.mp hb
      have l1 := mem_indices_length n 2 i1 h1
      have l2 := hlen i2 h2
      have := congrArg List.length (e1.trans (hab.trans e2.symm))
      simp [kd, List.length_zip, l1, l2] at this

theorem admD_mem (n : Nat) (t : Term) (h : AdmD n t) : t ∈ admKeysD n := by
  unfold admKeysD
  cases h with
  | const => simp
  | one p q hp hq =>
    refine List.mem_cons_of_mem _ (List.mem_append_left _ (List.mem_map.mpr ⟨[p, q], ?_, rfl⟩))
    exact mem_indices_of n 2 [p, q] rfl (lt2 hp hq)
  | dens p q hp hq =>
    refine List.mem_cons_of_mem _ (List.mem_append_right _ (List.mem_map.mpr ⟨[p, q], ?_, rfl⟩))
    exact List.mem_filter.mpr ⟨mem_indices_of n 2 [p, q] rfl (lt2 hp (by omega)), by simp [gtB, hq]⟩

theorem cellD_init (n : Nat) (K : Term) (hK : AdmD n K) : cellD (0, tzeros n 2, tzeros n 2) K = some 0 := by
  cases hK with
  | const => rfl
  | one p q hp hq => exact tget_tzeros n 2 [p, q] rfl (lt2 hp hq)
  | dens p q hp hq => exact tget_tzeros n 2 [p, q] rfl (lt2 hp (by omega))

theorem invD_init (n : Nat) : InvD n (0, tzeros n 2, tzeros n 2) := by
  refine ⟨Shaped_tzeros n 2, Shaped_tzeros n 2, ?_, ?_⟩
  · intro p q hp hq
    rw [tget_tzeros n 2 [q, p] rfl (lt2 hq hp), tget_tzeros n 2 [p, q] rfl (lt2 hp hq)]
  · intro p hp
    exact tget_tzeros n 2 [p, p] rfl (lt2 hp hp)

theorem valD_zero (K : Term) : valD K 0 = 0 := by
  unfold valD
  split
  · apply GQ.ext <;> simp
  · rfl

/-- **the scatter loop of `get_diagonal_coulomb_hamiltonian` followed by
`DiagonalCoulombHamiltonian.__init__`** on a normal-ordered dictionary, for every weight on words that
satisfies the two relations `n_p n_q = n_q n_p = -a†_p a†_q a_p a_q` (`p ≠ q`) -/
theorem dch_denote (tol : Rat) (n : Nat) (no : Op) (c : GQ) (one two : Tensor) (H : DCH)
    (h : dchScatter tol false n no = .ok (c, one, two)) (hmk : mkDCH n one two c = .ok H)
    (hnd : (no.map Prod.fst).Nodup) (hsm : ∀ e ∈ no, GQ.isSmall tol e.2 = false)
    (hn : ∀ e ∈ no, ∀ f ∈ e.1, f.1 < n) (hno : ∀ e ∈ no, Spec.C02.NormalOrderedF e.1)
    (hre : ∀ p q, (Dict.getD no [(p, 1), (q, 1), (p, 0), (q, 0)] 0).im = 0)
    (w : Term → GQ)
    (W : ∀ p q, p ≠ q → w [(p, 1), (p, 0), (q, 1), (q, 0)] = -(w [(p, 1), (q, 1), (p, 0), (q, 0)]) ∧
      w [(q, 1), (q, 0), (p, 1), (p, 0)] = -(w [(p, 1), (q, 1), (p, 0), (q, 0)])) :
    evalW w (denoteDCH H.n H.one H.two H.c) = evalW w no := by
  obtain ⟨hinv, hadm, hc⟩ := dch_fold tol n no _ _ h hnd hsm hn hno (invD_init n)
  have hcell : ∀ K, AdmD n K → cellD (c, one, two) K = some (valD K (Dict.getD no K 0)) := by
    intro K hK
    rw [hc K hK, cellD_init n K hK]
    split
    · rfl
    · rename_i hm; rw [getD_of_not_mem hm, valD_zero]
  obtain ⟨hs1, hs2, hsym, hdiag⟩ := hinv
  simp only at hs1 hs2 hsym hdiag
  -- the constructor
  unfold mkDCH at hmk
  split at hmk
  · cases hmk
  · split at hmk
    · cases hmk
    · simp only [Except.ok.injEq] at hmk
      subst hmk
      simp only
      have hone : ∀ p q, p < n → q < n → tget [p, q] one = some (Dict.getD no [(p, 1), (q, 0)] 0) := by
        intro p q hp hq
        have := hcell _ (AdmD.one p q hp hq)
        simpa [cellD, valD] using this
      have hmget0 : ∀ i, i < n → mget two i i = 0 := by
        intro i hi; simp [mget, hdiag i hi]
      have e1 := (fold_same n one (fun acc i => mget acc i i + mget two i i)
        (fun acc i hi hag => by
          simp only [mget]
          rw [hag [i, i] rfl, hone i i hi hi, hdiag i hi]
          simp)
        (List.range n) one (fun i hi => List.mem_range.mp hi) hs1 (fun _ _ => rfl)).2
      have e2 := (fold_same n two (fun _ _ => 0)
        (fun acc i hi hag => by rw [hag [i, i] rfl, hdiag i hi])
        (List.range n) two (fun i hi => List.mem_range.mp hi) hs2 (fun _ _ => rfl)).2
      have e1' : ∀ p q, entry2 ((List.range n).foldl (fun acc i => madd acc i i (mget two i i)) one) p q
          = (tget [p, q] one).getD 0 := by
        intro p q; rw [entry2_eq]; exact congrArg (fun o => Option.getD o 0) (e1 [p, q] rfl)
      have e2' : ∀ p q, entry2 ((List.range n).foldl (fun acc i => tset [i, i] 0 acc) two) p q
          = (tget [p, q] two).getD 0 := by
        intro p q; rw [entry2_eq]; exact congrArg (fun o => Option.getD o 0) (e2 [p, q] rfl)
      -- the right-hand side over the admissible words
      rw [evalW_eq_lsum w no, ← lsum_getD_cover w (admKeysD n) (admKeysD_nodup n) no hnd
        (fun e he => admD_mem n e.1 (hadm e he))]
      unfold denoteDCH admKeysD
      rw [evalW_eq_lsum]
      simp only [lsum_append, lsum_map]
      rw [lsum_pairs, lsum_pairs]
      simp only [lsum, lsum_append, lsum_map, add_zero]
      rw [lsum_indices2, lsum_filter, lsum_indices2]
      have h0 : c = Dict.getD no [] 0 := by
        have := hcell [] AdmD.const
        simpa [cellD, valD] using this
      rw [← h0, add_assoc]
      congr 1
      congr 1
      · apply sumN_congr; intro p hp
        apply sumN_congr; intro q hq
        rw [e1', hone p q hp hq]
        rfl
      · have hv : ∀ p q, p < n → q < n → q < p → (tget [p, q] two).getD 0
            = ⟨-(1/2) * (Dict.getD no [(p, 1), (q, 1), (p, 0), (q, 0)] 0).re, 0⟩ := by
          intro p q hp hq hqp
          have := hcell _ (AdmD.dens p q hp hqp)
          simp only [cellD, valD] at this
          rw [this]; rfl
        have S := sym_sum n (fun p q => (tget [p, q] two).getD 0)
          (fun p q => w [(p, 1), (p, 0), (q, 1), (q, 0)]) (fun p q => w [(p, 1), (q, 1), (p, 0), (q, 0)])
          (fun p q hp hq => by rw [hsym p q hp hq])
          (fun p hp => by rw [hdiag p hp]; rfl) W
        have : sumN n (fun p => sumN n (fun q =>
            entry2 ((List.range n).foldl (fun acc i => tset [i, i] 0 acc) two) p q * w [(p, 1), (p, 0), (q, 1), (q, 0)]))
            = sumN n (fun p => sumN n (fun q => (tget [p, q] two).getD 0 * w [(p, 1), (p, 0), (q, 1), (q, 0)])) := by
          apply sumN_congr; intro p _
          apply sumN_congr; intro q _
          rw [e2']
        rw [this, S]
        apply sumN_congr; intro p hp
        apply sumN_congr; intro q hq
        by_cases hqp : q < p
        · have hg : gtB [p, q] = true := by simp [gtB, hqp]
          rw [if_pos hqp, if_pos hg, hv p q hp hq hqp]
          have him := hre p q
          have hk : kd [p, q] = [(p, 1), (q, 1), (p, 0), (q, 0)] := rfl
          rw [hk]
          rw [neg_two_half _ him]
        · have hg : gtB [p, q] = false := by simp [gtB, hqp]
          rw [if_neg hqp, hg]; simp

/-! ### the relations on the Fock-space Spec, and the composition with `normal_ordered` -/

theorem density_rel_ring {R : Type} [Ring R] (A B a b : R) (m1 : a * B + B * a = 0) (m2 : b * A + A * b = 0)
    (s1 : B * A + A * B = 0) (s0 : b * a + a * b = 0) :
    A * (a * (B * b)) = -(A * (B * (a * b))) ∧ B * (b * (A * a)) = -(A * (B * (a * b))) := by
  have m1' : a * B = -(B * a) := eq_neg_of_add_eq_zero_left m1
  have m2' : b * A = -(A * b) := eq_neg_of_add_eq_zero_left m2
  have s1' : B * A = -(A * B) := eq_neg_of_add_eq_zero_left s1
  have s0' : b * a = -(a * b) := eq_neg_of_add_eq_zero_left s0
  constructor
  · calc A * (a * (B * b)) = A * ((a * B) * b) := by simp only [mul_assoc]
      _ = -(A * (B * (a * b))) := by rw [m1']; simp only [neg_mul, mul_neg, mul_assoc]
  · calc B * (b * (A * a)) = B * ((b * A) * a) := by simp only [mul_assoc]
      _ = -((B * A) * (b * a)) := by rw [m2']; simp only [neg_mul, mul_neg, mul_assoc]
      _ = -(A * (B * (a * b))) := by rw [s1', s0']; simp only [neg_mul, mul_neg, neg_neg, mul_assoc]

open Proofs.C03 in
theorem fock_density_rel (p q : Nat) (hpq : p ≠ q) :
    fockInterp.evalT [(p, 1), (p, 0), (q, 1), (q, 0)] = -(fockInterp.evalT [(p, 1), (q, 1), (p, 0), (q, 0)]) ∧
    fockInterp.evalT [(q, 1), (q, 0), (p, 1), (p, 0)] = -(fockInterp.evalT [(p, 1), (q, 1), (p, 0), (q, 0)]) := by
  have hg : fockInterp.g = gF := rfl
  simp only [Interp.evalT, List.map_cons, List.map_nil, List.prod_cons, List.prod_nil, mul_one, hg]
  have m1 : gF (p, 0) * gF (q, 1) + gF (q, 1) * gF (p, 0) = 0 := by
    have := fock_car_mixed (q, 1) (p, 0) (by simp) rfl
    simpa [if_neg (fun e : q = p => hpq e.symm)] using this
  have m2 : gF (q, 0) * gF (p, 1) + gF (p, 1) * gF (q, 0) = 0 := by
    have := fock_car_mixed (p, 1) (q, 0) (by simp) rfl
    simpa [if_neg hpq] using this
  have s1 : gF (q, 1) * gF (p, 1) + gF (p, 1) * gF (q, 1) = 0 := fock_car_same (p, 1) (q, 1) rfl hpq
  have s0 : gF (q, 0) * gF (p, 0) + gF (p, 0) * gF (q, 0) = 0 := fock_car_same (p, 0) (q, 0) rfl hpq
  exact density_rel_ring (gF (p, 1)) (gF (q, 1)) (gF (p, 0)) (gF (q, 0)) m1 m2 s1 s0

theorem termMel_density_rel (t s p q : Nat) (hpq : p ≠ q) :
    termMel [(p, 1), (p, 0), (q, 1), (q, 0)] t s = -(termMel [(p, 1), (q, 1), (p, 0), (q, 0)] t s) ∧
    termMel [(q, 1), (q, 0), (p, 1), (p, 0)] t s = -(termMel [(p, 1), (q, 1), (p, 0), (q, 0)] t s) := by
  obtain ⟨r1, r2⟩ := fock_density_rel p q hpq
  have v : ∀ (a b c d : Nat × Nat), a.2 < 2 → b.2 < 2 → c.2 < 2 → d.2 < 2 → ∀ f ∈ [a, b, c, d], f.2 < 2 := by
    intro a b c d ha hb hc hd f hf
    simp at hf; rcases hf with rfl | rfl | rfl | rfl <;> assumption
  rw [termMel_eq_fock _ (v _ _ _ _ (by simp) (by simp) (by simp) (by simp)),
    termMel_eq_fock _ (v _ _ _ _ (by simp) (by simp) (by simp) (by simp)),
    termMel_eq_fock _ (v _ _ _ _ (by simp) (by simp) (by simp) (by simp)), r1, r2]
  simp

/-- **`get_diagonal_coulomb_hamiltonian` is sound** (lattice inputs, real density coefficients) -/
theorem getDCH_sound (D : Nat) (hD : 0 < D) (tol : Rat) (h0 : 0 ≤ tol) (h1 : tol * D ≤ 1) (A : Op)
    (n? : Option Nat) (H : DCH) (hv : ∀ e ∈ A, ∀ f ∈ e.1, f.2 < 2) (la : ∀ e ∈ A, Proofs.C03.Lat D e.2)
    (h : getDiagonalCoulomb tol A n? false = .ok H)
    (hre : ∀ p q, (Dict.getD (normalOrdered tol A) [(p, 1), (q, 1), (p, 0), (q, 0)] 0).im = 0) (t s : Nat) :
    melF (denoteDCH H.n H.one H.two H.c) t s = melF A t s := by
  unfold getDiagonalCoulomb at h
  cases hr : resolveN A n? with
  | error e => simp [hr, bind, Except.bind] at h
  | ok n =>
    cases hsc : dchScatter tol false n (normalOrdered tol A) with
    | error e => simp [hr, hsc, bind, Except.bind] at h
    | ok r =>
      simp only [hr, hsc, bind, Except.bind] at h
      split at h
      · cases h
      · obtain ⟨c, one, two⟩ := r
        have hge := resolveN_ge A n? n hr
        have hidx : ∀ e ∈ normalOrdered tol A, ∀ f ∈ e.1, f.1 < n := by
          have := Proofs.C03.normalOrdered_valid (tol := tol) (k := .fermion) (Q := fun f => f.1 < n)
            (fun t ht => ht) A (fun e he f hf => by
              have := countQubits_bound A e he f hf; omega)
          exact this
        obtain ⟨wf, _, hno⟩ := Proofs.C03.normalOrdered_fermion_wellformed tol A hv
        rw [melF_eq_evalW, dch_denote tol n _ c one two H hsc h wf (normalOrdered_noSmall tol A) hidx hno hre
          (fun τ => termMel τ t s) (fun p q hpq => termMel_density_rel t s p q hpq), ← melF_eq_evalW]
        exact normalOrdered_melF D hD tol h0 h1 A hv la t s

theorem getD_cases (d : Op) (K : Term) : Dict.getD d K 0 = 0 ∨ (K, Dict.getD d K 0) ∈ d := by
  induction d with
  | nil => left; rfl
  | cons e r ih =>
    rw [getD_cons_op]
    by_cases h : e.1 = K
    · right; rw [if_pos h]; subst h; simp
    · rw [if_neg h]
      rcases ih with h1 | h1
      · left; exact h1
      · right; exact List.mem_cons_of_mem _ h1

theorem dchExact_real (tol : Rat) (A : Op) (h : dchExact tol A = true) (p q : Nat) :
    (Dict.getD (normalOrdered tol A) [(p, 1), (q, 1), (p, 0), (q, 0)] 0).im = 0 := by
  rcases getD_cases (normalOrdered tol A) [(p, 1), (q, 1), (p, 0), (q, 0)] with h0 | hm
  · rw [h0]; rfl
  · unfold dchExact at h
    have := List.all_eq_true.mp h _ hm
    simpa using this

/-- the same with the driver-evaluated exact-regime flag -/
theorem getDCH_sound_flag (D : Nat) (hD : 0 < D) (tol : Rat) (h0 : 0 ≤ tol) (h1 : tol * D ≤ 1) (A : Op)
    (n? : Option Nat) (H : DCH) (hv : ∀ e ∈ A, ∀ f ∈ e.1, f.2 < 2) (la : ∀ e ∈ A, Proofs.C03.Lat D e.2)
    (h : getDiagonalCoulomb tol A n? false = .ok H) (hex : dchExact tol A = true) (t s : Nat) :
    melF (denoteDCH H.n H.one H.two H.c) t s = melF A t s :=
  getDCH_sound D hD tol h0 h1 A n? H hv la h (dchExact_real tol A hex) t s

end C08P
end OFV
