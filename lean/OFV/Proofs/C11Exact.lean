/- C11: the executable exact-regime probes imply the propositions assumed by the reconstruction theorems. -/
import OFV.Model.C11
import OFV.Proofs.C11Sweep
import OFV.Proofs.C11Left
import OFV.Proofs.C11Diag

namespace OFV
namespace Model
namespace C11

theorem stepExactB_sound {tol : Rat} {M : Mat} {i j : Nat} (h : stepExactB tol M i j = true) :
    StepExact tol M i j := by
  unfold stepExactB at h
  simp only [Bool.and_eq_true, Bool.or_eq_true, Bool.not_eq_true', decide_eq_true_eq] at h
  obtain ⟨⟨⟨h1, h2⟩, h3⟩, h4⟩ := h
  refine ⟨?_, ?_, ?_, ?_⟩
  · intro hs; rcases h1 with h | h
    · rw [hs] at h; cases h
    · exact h
  · intro hs; rcases h2 with h | h
    · rw [hs] at h; cases h
    · exact h
  · exact realExactB_sound h3
  · intro hb; rcases h4 with h | h
    · rw [hb] at h; cases h
    · exact h

theorem layerExactB_sound (tol : Rat) (ai : Bool) : ∀ (ps : List (Nat × Nat)) (M : Mat),
    layerExactB tol ai ps M = true → LayerExact tol ai ps M := by
  intro ps
  induction ps with
  | nil => intro M _; trivial
  | cons p ps ih =>
    intro M h
    obtain ⟨i, j⟩ := p
    unfold layerExactB at h
    simp only [Bool.and_eq_true] at h
    obtain ⟨hs, hrest⟩ := h
    refine ⟨stepExactB_sound hs, ?_, ?_⟩
    · intro G hc hG
      rw [if_pos hc, hG] at hrest
      exact ih _ hrest
    · intro hc
      rw [if_neg (by rw [hc]; simp)] at hrest
      exact ih _ hrest

theorem sweepExactB_sound (tol : Rat) (ai : Bool) (layerOf : Nat → List (Nat × Nat)) :
    ∀ (ks : List Nat) (M : Mat), sweepExactB tol ai layerOf ks M = true → SweepExact tol ai layerOf ks M := by
  intro ks
  induction ks with
  | nil => intro M _; trivial
  | cons k ks ih =>
    intro M h
    unfold sweepExactB at h
    simp only [Bool.and_eq_true] at h
    obtain ⟨hl, hrest⟩ := h
    refine ⟨layerExactB_sound tol ai _ M hl, ?_⟩
    intro ops M' hL
    rw [hL] at hrest
    exact ih M' hrest

theorem stepExactLB_sound {tol : Rat} {M : Mat} {l k : Nat} (h : stepExactLB tol M l k = true) :
    StepExactL tol M l k := by
  unfold stepExactLB at h
  simp only [Bool.and_eq_true, Bool.or_eq_true, Bool.not_eq_true', decide_eq_true_eq] at h
  obtain ⟨⟨⟨h1, h2⟩, h3⟩, h4⟩ := h
  refine ⟨?_, ?_, ?_, ?_⟩
  · intro hs; rcases h1 with h | h
    · rw [hs] at h; cases h
    · exact h
  · intro hs; rcases h2 with h | h
    · rw [hs] at h; cases h
    · exact h
  · exact realExactB_sound h3
  · intro hb; rcases h4 with h | h
    · rw [hb] at h; cases h
    · exact h

theorem leftExactB_sound (tol : Rat) : ∀ (ps : List (Nat × Nat)) (M : Mat),
    leftExactB tol ps M = true → LeftExact tol ps M := by
  intro ps
  induction ps with
  | nil => intro M _; trivial
  | cons p ps ih =>
    intro M h
    obtain ⟨l, k⟩ := p
    unfold leftExactB at h
    simp only [Bool.and_eq_true] at h
    obtain ⟨hs, hrest⟩ := h
    refine ⟨stepExactLB_sound hs, ?_, ?_⟩
    · intro G hb hG
      rw [if_pos hb, hG] at hrest
      exact ih _ hrest
    · intro hb
      rw [if_neg (by rw [hb]; simp)] at hrest
      exact ih _ hrest

theorem rect_of_all (Q : Mat) (n : Nat) (h : Q.all (fun row => row.length == n) = true) : Rect Q Q.length n := by
  refine ⟨rfl, ?_⟩
  intro row hrow
  have := List.all_eq_true.mp h row hrow
  simpa using this

theorem orthonormalB_sound (M : Mat) (m n : Nat) (h : orthonormalB M m n = true) : RowsOrthonormal M m n := by
  intro i i' hi hi'
  unfold orthonormalB at h
  have h1 := List.all_eq_true.mp h i (List.mem_range.mpr hi)
  have h2 := List.all_eq_true.mp h1 i' (List.mem_range.mpr hi')
  simp only [Bool.and_eq_true, decide_eq_true_eq] at h2
  exact h2

end C11
end Model
end OFV
