/-
C13 — operator-level soundness of the spinless `fermi_hubbard` Model: denotation (`den`, C01Hom) of the
site-loop fold as a sum over the Spec edge set, in the exact regime of `+=`.
-/
import OFV.Proofs.C01Hom
import OFV.Proofs.C13
import OFV.Model.C13Hubbard
import Mathlib.Data.List.Perm.Basic
set_option linter.unusedSimpArgs false
set_option linter.unusedVariables false
namespace OFV.C13
open OFV.Model OFV.Model.C13 OFV.Spec.C13 OFV.GQ

theorem bonds_perm_edges (x y : Nat) (p : Bool) :
    ((bonds x y p).map norm).Perm (edges adjNN x y p) := by
  rcases Nat.eq_zero_or_pos x with rfl | hx
  · simp [bonds, edges, pairs]
  · exact (List.perm_ext_iff_of_nodup (normBonds_nodup hx) ((pairs_nodup _).filter _)).2
      (fun _ => (mem_normBonds hx).trans (mem_edges_adjNN hx).symm)

/-- sum of a list of coefficients -/
def gsumL (l : List GQ) : GQ := l.foldr (· + ·) 0

theorem gsumL_append (l m : List GQ) : gsumL (l ++ m) = gsumL l + gsumL m := by
  induction l with
  | nil => simp [gsumL, zero_add']
  | cons a l ih => simp only [gsumL, List.cons_append, List.foldr_cons] at ih ⊢; rw [ih, add_assoc']

theorem gsumL_perm {l m : List GQ} (h : l.Perm m) : gsumL l = gsumL m := by
  induction h with
  | nil => rfl
  | cons a _ ih => simp only [gsumL, List.foldr_cons] at ih ⊢; rw [ih]
  | swap a b l => simp only [gsumL, List.foldr_cons]; exact add_left_comm' b a _
  | trans _ _ ih1 ih2 => exact ih1.trans ih2

/-- `pieces.foldl (+=)` started from `init` -/
def sumOps (tol : Rat) (pieces : List Op) (init : Op) : Op := pieces.foldl (iadd tol) init

/-- every `+=` of the fold is in the exact regime (no intermediate coefficient is non-zero and negligible) -/
def ExactSum (tol : Rat) : Op → List Op → Prop
  | _, [] => True
  | acc, p :: ps => ExactAdd tol acc p ∧ ExactSum tol (iadd tol acc p) ps

theorem den_sumOps (tol : Rat) (φ : Term → GQ) (pieces : List Op) (init : Op) (h : ExactSum tol init pieces) :
    den φ (sumOps tol pieces init) = den φ init + gsumL (pieces.map (den φ)) := by
  induction pieces generalizing init with
  | nil => simp [sumOps, gsumL, add_zero']
  | cons p ps ih =>
    obtain ⟨h1, h2⟩ := h
    simp only [sumOps, List.foldl_cons, List.map_cons, gsumL, List.foldr_cons] at ih ⊢
    rw [ih _ h2, den_iadd tol φ init p h1, add_assoc']

/-- the operators `_spinless_fermi_hubbard_model` adds for one site, in order -/
def spinlessPieces (tol : Rat) (a : HubbardArgs) (site : Nat) : List Op :=
  (siteBonds a.x a.y a.periodic site).flatMap (fun b =>
    [hoppingTerm tol .fermion b.1 b.2 (-a.t), coulombTerm tol .fermion b.1 b.2 a.u a.phs])
  ++ [numberOp .fermion site (-a.mu)]

theorem spinless_eq_sumOps (tol : Rat) (a : HubbardArgs) :
    spinlessFermiHubbard tol a =
      sumOps tol ((List.range (a.x * a.y)).flatMap (spinlessPieces tol a)) [] := by
  unfold spinlessFermiHubbard sumOps
  rw [List.foldl_flatMap]
  congr 1
  funext H site
  unfold spinlessPieces siteBonds
  cases h1 : (siteNeighbors site a.x a.y a.periodic).1 <;> cases h2 : (siteNeighbors site a.x a.y a.periodic).2 <;>
    simp [List.foldl_append, h1, h2]


theorem gsumL_flatMap {α : Type} (l : List α) (f : α → List GQ) :
    gsumL (l.flatMap f) = gsumL (l.map fun x => gsumL (f x)) := by
  induction l with
  | nil => rfl
  | cons a l ih =>
    simp only [List.flatMap_cons, List.map_cons, gsumL_append, ih]
    simp [gsumL]

theorem gsumL_map_add {α : Type} (l : List α) (A B : α → GQ) :
    gsumL (l.map fun x => A x + B x) = gsumL (l.map A) + gsumL (l.map B) := by
  induction l with
  | nil => simp [gsumL, zero_add']
  | cons a l ih =>
    simp only [List.map_cons, gsumL, List.foldr_cons] at ih ⊢
    rw [ih, add_assoc', add_assoc', add_left_comm' (B a)]

/-- contribution of one bond `(i, j)` of the spinless model: hopping plus nearest-neighbour repulsion -/
def bondDen (tol : Rat) (φ : Term → GQ) (a : HubbardArgs) (b : Nat × Nat) : GQ :=
  den φ (hoppingTerm tol .fermion b.1 b.2 (-a.t)) + den φ (coulombTerm tol .fermion b.1 b.2 a.u a.phs)

/-- in the exact regime the Model's spinless `fermi_hubbard` denotes, for every term functional `φ`,
the sum over the enumerated bonds of (hopping + repulsion) plus the chemical-potential terms -/
theorem spinless_den_bonds (tol : Rat) (φ : Term → GQ) (a : HubbardArgs)
    (hex : ExactSum tol [] ((List.range (a.x * a.y)).flatMap (spinlessPieces tol a))) :
    den φ (spinlessFermiHubbard tol a) =
      gsumL ((bonds a.x a.y a.periodic).map (bondDen tol φ a)) +
      gsumL ((List.range (a.x * a.y)).map fun s => den φ (numberOp .fermion s (-a.mu))) := by
  rw [spinless_eq_sumOps, den_sumOps tol φ _ _ hex, den_nil, zero_add', List.map_flatMap, gsumL_flatMap]
  have hsite : ∀ s, gsumL ((spinlessPieces tol a s).map (den φ)) =
      gsumL ((siteBonds a.x a.y a.periodic s).map (bondDen tol φ a)) + den φ (numberOp .fermion s (-a.mu)) := by
    intro s
    unfold spinlessPieces
    rw [List.map_append, gsumL_append, List.map_flatMap, gsumL_flatMap]
    simp [gsumL, add_zero']
    rfl
  simp only [hsite]
  rw [gsumL_map_add]
  congr 1
  unfold bonds
  rw [List.map_flatMap, gsumL_flatMap]

/-- **hubbard_sound (spinless fermi_hubbard, all lattice sizes).**  If the bond contribution does not
depend on the orientation of the bond (true for every matrix-element functional `φ`, where
`n_i n_j = n_j n_i` and the hopping term with a real amplitude is symmetric), the Model's output denotes
the docstring Hamiltonian summed over the *Spec edge set* of the lattice — each edge exactly once —
plus `-μ Σ_i n_i`. -/
theorem spinless_den_spec_edges (tol : Rat) (φ : Term → GQ) (a : HubbardArgs)
    (hex : ExactSum tol [] ((List.range (a.x * a.y)).flatMap (spinlessPieces tol a)))
    (hsym : ∀ i j, bondDen tol φ a (i, j) = bondDen tol φ a (j, i)) :
    den φ (spinlessFermiHubbard tol a) =
      gsumL ((edges adjNN a.x a.y a.periodic).map (bondDen tol φ a)) +
      gsumL ((List.range (a.x * a.y)).map fun s => den φ (numberOp .fermion s (-a.mu))) := by
  rw [spinless_den_bonds tol φ a hex]
  congr 1
  have hnorm : ∀ b, bondDen tol φ a (norm b) = bondDen tol φ a b := by
    intro b
    unfold norm
    split
    · rfl
    · exact hsym b.2 b.1
  have h1 : (bonds a.x a.y a.periodic).map (bondDen tol φ a) =
      ((bonds a.x a.y a.periodic).map norm).map (bondDen tol φ a) := by
    rw [List.map_map]; exact List.map_congr_left (fun b _ => (hnorm b).symm)
  rw [h1]
  exact gsumL_perm ((bonds_perm_edges a.x a.y a.periodic).map _)


/-! explicit denotations of the pieces -/

theorem den_numberOp (φ : Term → GQ) (s : Nat) (c : GQ) :
    den φ (numberOp .fermion s c) = c * φ [(s, 1), (s, 0)] := by
  simp [numberOp, Model.mk, simplify, den, mul_one', add_zero']

/-- `n_i n_j` as the code builds it (no particle-hole shift): the single term `i^ i j^ j` with coefficient `U` -/
theorem den_coulomb (tol : Rat) (φ : Term → GQ) (i j : Nat) (u : GQ) :
    den φ (coulombTerm tol .fermion i j u false) = u * φ [(i, 1), (i, 0), (j, 1), (j, 0)] := by
  simp [coulombTerm, numberOp, Model.mk, simplify, mulOp, Model.smul, accum, Dict.get?, Dict.set, den, mul_one', one_mul', add_zero']

/-- the hopping term `c a†_i a_j + conj(c) a†_j a_i` (`i ≠ j`; `conj c` not negligible unless zero) -/
theorem den_hopping (tol : Rat) (φ : Term → GQ) (i j : Nat) (c : GQ) (hij : i ≠ j)
    (hreg : GQ.isSmall tol c.conj = true → c.conj = 0) :
    den φ (hoppingTerm tol .fermion i j c) = c * φ [(i, 1), (j, 0)] + c.conj * φ [(j, 1), (i, 0)] := by
  unfold hoppingTerm
  have hk : ([(i, 1), (j, 0)] : Term) ≠ [(j, 1), (i, 0)] := by
    intro h; simp at h; exact hij h.1
  rw [den_iadd]
  · simp [Model.mk, simplify, den, mul_one', add_zero']
  · simp only [Model.mk, simplify, ExactAdd, Dict.getD, Dict.get?, hk, if_false, Option.getD, and_true, mul_one', zero_add']
    exact hreg


theorem conj_neg' (c : GQ) : (-c).conj = -(c.conj) := by
  apply GQ.ext <;> simp [GQ.conj]

/-- **hubbard_sound, explicit form** (spinless `fermi_hubbard`, no particle-hole shift, real hopping amplitude, every
lattice size and both boundary conditions): in the exact regime, for every term functional `φ` that does not
distinguish `n_i n_j` from `n_j n_i` (every matrix-element functional), the Model's output denotes
`-t Σ_{⟨i,j⟩} (a†_i a_j + a†_j a_i) + U Σ_{⟨i,j⟩} n_i n_j - μ Σ_i n_i`, the sums running over the Spec edge set. -/
theorem spinless_hubbard_sound' (tol : Rat) (φ : Term → GQ) (a : HubbardArgs) (hphs : a.phs = false)
    (hex : ExactSum tol [] ((List.range (a.x * a.y)).flatMap (spinlessPieces tol a)))
    (ht : a.t.conj = a.t) (hreg : GQ.isSmall tol (-a.t) = true → -a.t = 0)
    (hφ : ∀ i j, φ [(i, 1), (i, 0), (j, 1), (j, 0)] = φ [(j, 1), (j, 0), (i, 1), (i, 0)]) :
    den φ (spinlessFermiHubbard tol a) =
      gsumL ((edges adjNN a.x a.y a.periodic).map fun e =>
        (-a.t) * φ [(e.1, 1), (e.2, 0)] + (-a.t) * φ [(e.2, 1), (e.1, 0)] + a.u * φ [(e.1, 1), (e.1, 0), (e.2, 1), (e.2, 0)]) +
      gsumL ((List.range (a.x * a.y)).map fun s => (-a.mu) * φ [(s, 1), (s, 0)]) := by
  have hc : (-a.t).conj = -a.t := by rw [conj_neg', ht]
  have hreg' : GQ.isSmall tol (-a.t).conj = true → (-a.t).conj = 0 := by rw [hc]; exact hreg
  have hbond : ∀ i j, i ≠ j → bondDen tol φ a (i, j) =
      (-a.t) * φ [(i, 1), (j, 0)] + (-a.t) * φ [(j, 1), (i, 0)] + a.u * φ [(i, 1), (i, 0), (j, 1), (j, 0)] := by
    intro i j hij
    simp only [bondDen, hphs, den_coulomb, den_hopping tol φ i j (-a.t) hij hreg', hc]
  have hsym : ∀ i j, bondDen tol φ a (i, j) = bondDen tol φ a (j, i) := by
    intro i j
    by_cases hij : i = j
    · rw [hij]
    · rw [hbond i j hij, hbond j i (Ne.symm hij), hφ i j, add_comm' ((-a.t) * φ [(i, 1), (j, 0)])]
  rw [spinless_den_spec_edges tol φ a hex hsym]
  congr 1
  · congr 1
    apply List.map_congr_left
    intro e he
    have hlt : e.1 < e.2 := by
      simp only [edges, List.mem_filter, mem_pairs] at he
      exact he.1.1
    exact hbond e.1 e.2 (Nat.ne_of_lt hlt)
  · congr 1
    apply List.map_congr_left
    intro s _
    exact den_numberOp φ s (-a.mu)


end OFV.C13
