/- C11: the real / complex decision of `givens_matrix_elements` (repair 7be94873) — the executable test decides the exact
regime, and real inputs are always inside it. -/
import OFV.Proofs.C11Num

namespace OFV
namespace Model
namespace C11

/-- the executable test is complete as well: it holds whenever the exact regime does -/
theorem realExactB_complete {tol : Rat} {a b : GQ} (h : RealExact tol a b) : realExactB tol a b = true := by
  unfold realExactB
  cases hC : cosSinPhase tol a b with
  | error e => rfl
  | ok t =>
    obtain ⟨c, s, ph⟩ := t
    simp only [Bool.or_eq_true, Bool.not_eq_true', decide_eq_true_eq]
    by_cases hp : realPhase tol ph = true
    · exact Or.inr (h c s ph hC hp)
    · left; simpa using hp

theorem realExactB_iff {tol : Rat} {a b : GQ} : realExactB tol a b = true ↔ RealExact tol a b :=
  ⟨realExactB_sound, realExactB_complete⟩

/-- real entries: the relative phase is exactly real (`±1`), so the decision is always in the exact regime -/
theorem realExact_of_real {tol : Rat} (htol : 0 < tol) {a b : GQ}
    (hexa : small tol a = true → a = 0) (hexb : small tol b = true → b = 0)
    (ha : a.im = 0) (hb : b.im = 0) : RealExact tol a b := by
  intro c s ph hC _
  exact (cosSinPhase_spec htol hexa hexb hC).real ha hb

/-- purely imaginary pairs (and every pair with a common phase factor `a = z x`, `b = z y`, `x y` real) as well: what
matters since the repair is `Im(a conj b) = 0` -/
theorem realExact_of_real_ratio {tol : Rat} (htol : 0 < tol) {a b : GQ}
    (hexa : small tol a = true → a = 0) (hexb : small tol b = true → b = 0)
    (hab : a.im * b.re = a.re * b.im) : RealExact tol a b := by
  intro c s ph hC _
  have h := cosSinPhase_spec htol hexa hexb hC
  -- c a = ph s b  ⇒  c (a conj b) = ph s |b|²; imaginary part: c Im(a conj b) = Im(ph) s |b|²
  have r1 := h.rel_re
  have r2 := h.rel_im
  have key : ph.im * (s * (b.re * b.re + b.im * b.im)) = 0 := by
    have : c * (a.im * b.re - a.re * b.im) = ph.im * (s * (b.re * b.re + b.im * b.im)) := by
      linear_combination b.re * r2 - b.im * r1
    rw [← this, hab]; ring
  rcases mul_eq_zero.mp key with h0 | h0
  · exact h0
  · rcases mul_eq_zero.mp h0 with hs | hb2
    · have := h.s_zero hs; rw [this]; rfl
    · -- b = 0: then c a = 0 with ...
      have hbre : b.re = 0 := by nlinarith [mul_self_nonneg b.re, mul_self_nonneg b.im]
      have hbim : b.im = 0 := by nlinarith [mul_self_nonneg b.re, mul_self_nonneg b.im]
      have hca1 : c * a.re = 0 := by rw [r1, hbre, hbim]; ring
      have hca2 : c * a.im = 0 := by rw [r2, hbre, hbim]; ring
      by_cases hc : c = 0
      · have := h.c_zero hc; rw [this]; rfl
      · have a1 : a.re = 0 := by rcases mul_eq_zero.mp hca1 with h' | h'; exact absurd h' hc; exact h'
        have a2 : a.im = 0 := by rcases mul_eq_zero.mp hca2 with h' | h'; exact absurd h' hc; exact h'
        exact h.real a2 hbim

end C11
end Model
end OFV
