/-
C07 — the diagonal-Coulomb commutator, one-body with one-body case
(`_commutator_one_body_with_one_body`), for the index patterns with pairwise distinct modes:
the term added to `prior_terms` is the commutator of the two terms.  Core Lean only.
-/
import OFV.Proofs.C07Hop
import OFV.Model.C07DC

namespace OFV
namespace Proofs
namespace C07F
open OFV.Spec OFV.Model OFV.Model.C07 OFV.GQ

/-- `d[k] = d.get(k, 0.0) + c` adds `c · φ k` to the denotation -/
theorem den_bump (φ : Term → GQ) (d : Op) (k : Term) (c : GQ) : den φ (bump d k c) = den φ d + c * φ k := by
  unfold bump
  cases hg : Dict.get? d k with
  | none =>
    simp only [Dict.getD, hg, Option.getD_none, zero_add']
    exact den_set_absent φ d k c hg
  | some v =>
    simp only [Dict.getD, hg, Option.getD_some]
    have := den_set_present φ d k v (v + c) hg
    apply add_right_cancel' _ _ (v * φ k)
    rw [this, add_mul', add_assoc', add_comm' (c * φ k)]

/-- the contribution of the term pair `(a, b)` with coefficient `coef` to the true commutator -/
def pairComm (s u : Nat) (a b : Term) (coef : GQ) : GQ :=
  coef * (phiF s u (a ++ b) + -(phiF s u (b ++ a)))

/-- single pairing `a[1] = b[0]`: `[i^ j, j^ l] = i^ l` (distinct `i, j, l`) -/
theorem dcOneOne_chain (i j l : Nat) (coef : GQ) (prior : Op) (hij : i ≠ j) (hlj : l ≠ j) (hil : i ≠ l) (s u : Nat) :
    den (phiF s u) (dcOneOne [(i, 1), (j, 0)] [(j, 1), (l, 0)] coef prior) =
      den (phiF s u) prior + pairComm s u [(i, 1), (j, 0)] [(j, 1), (l, 0)] coef := by
  have h1 : ¬ (i = l ∧ j = j) := fun h => hil h.1
  have hc : dcOneOne [(i, 1), (j, 0)] [(j, 1), (l, 0)] coef prior = bump prior [(i, 1), (l, 0)] coef := by
    simp [dcOneOne, fIdx, hil]
  rw [hc, den_bump, pairComm, pair_ik_kj i j l s u hij hlj hil]

/-- the other single pairing `a[0] = b[1]`: `[i^ j, l^ i] = -(l^ j)` (distinct `i, j, l`) -/
theorem dcOneOne_chain' (i j l : Nat) (coef : GQ) (prior : Op) (hij : i ≠ j) (hli : l ≠ i) (hlj : l ≠ j) (s u : Nat) :
    den (phiF s u) (dcOneOne [(i, 1), (j, 0)] [(l, 1), (i, 0)] coef prior) =
      den (phiF s u) prior + pairComm s u [(i, 1), (j, 0)] [(l, 1), (i, 0)] coef := by
  have hjl : ¬ j = l := fun e => hlj e.symm
  have hc : dcOneOne [(i, 1), (j, 0)] [(l, 1), (i, 0)] coef prior = bump prior [(l, 1), (j, 0)] (-coef) := by
    simp [dcOneOne, fIdx, hjl, hli, hlj]
  rw [hc, den_bump, pairComm]
  have := pair_ik_kj l i j s u hli (Ne.symm hij) hlj
  rw [← this]
  apply GQ.ext <;> simp <;> grind

/-- no pairing: four distinct modes, nothing is added and the terms commute -/
theorem dcOneOne_disjoint (i j k l : Nat) (coef : GQ) (prior : Op)
    (h1 : i ≠ k) (h2 : i ≠ l) (h3 : j ≠ k) (h4 : j ≠ l) (s u : Nat) :
    den (phiF s u) (dcOneOne [(i, 1), (j, 0)] [(k, 1), (l, 0)] coef prior) =
      den (phiF s u) prior + pairComm s u [(i, 1), (j, 0)] [(k, 1), (l, 0)] coef := by
  have hc : dcOneOne [(i, 1), (j, 0)] [(k, 1), (l, 0)] coef prior = prior := by
    simp [dcOneOne, fIdx, h2, h3]
  have hcomm : actFTerm ([(i, 1), (j, 0)] ++ [(k, 1), (l, 0)]) = actFTerm ([(k, 1), (l, 0)] ++ [(i, 1), (j, 0)]) := by
    apply term_comm_disjoint_even _ _ _ (Or.inl (by simp))
    apply disjoint_of_lists
    simp; omega
  rw [hc, pairComm]
  simp only [phiF, hcomm]
  apply GQ.ext <;> simp <;> grind

/-! ### all index patterns of the one-body / one-body helper -/

theorem actFTerm_number (i : Nat) : actFTerm [(i, 1), (i, 0)] = projFull i := by
  rw [actFTerm_two]; rfl

/-- what a hopping term `p^ q` (`p ≠ q`) demands of the state and leaves behind -/
theorem hop_bits (p q : Nat) (hpq : p ≠ q) {s κ w : Nat} (h : actFTerm [(p, 1), (q, 0)] s = some (κ, w)) :
    s.testBit p = false ∧ w.testBit p = true ∧ s.testBit q = true ∧ w.testBit q = false := by
  have b1 := actFTerm_bit _ h p
  have b2 := actFTerm_bit _ h q
  have hqp : ¬ q = p := fun e => hpq e.symm
  simp only [net, hpq, hqp, if_true, if_false] at b1 b2
  have r1 := bitI_range s p
  have r2 := bitI_range w p
  have r3 := bitI_range s q
  have r4 := bitI_range w q
  simp only [bitI] at *
  refine ⟨?_, ?_, ?_, ?_⟩
  · cases hb : s.testBit p <;> simp [hb] at b1 r1 ⊢; split at b1 <;> omega
  · cases hb : w.testBit p <;> simp [hb] at b1 r2 ⊢; split at b1 <;> omega
  · cases hb : s.testBit q <;> simp [hb] at b2 r3 ⊢; split at b2 <;> omega
  · cases hb : w.testBit q <;> simp [hb] at b2 r4 ⊢; split at b2 <;> omega

theorem projFull_comp_id (p : Nat) (X : FMap) (hX : Red X) (h : ∀ s κ w, X s = some (κ, w) → w.testBit p = true) :
    fcomp (projFull p) X = X := by
  funext s
  simp only [fcomp]
  cases hs : X s with
  | none => rfl
  | some r =>
    obtain ⟨κ, w⟩ := r
    have := hX s κ w hs
    simp only [projFull_apply, h s κ w hs, if_true, Option.some.injEq, Prod.mk.injEq, and_true]
    omega

theorem projFull_comp_zero (p : Nat) (X : FMap) (h : ∀ s κ w, X s = some (κ, w) → w.testBit p = false) :
    fcomp (projFull p) X = fzero := by
  funext s
  simp only [fcomp, fzero]
  cases hs : X s with
  | none => rfl
  | some r =>
    obtain ⟨κ, w⟩ := r
    simp [projFull_apply, h s κ w hs]

theorem comp_projFull_id (p : Nat) (X : FMap) (hX : Red X) (h : ∀ s, s.testBit p = false → X s = none) :
    fcomp X (projFull p) = X := by
  funext s
  simp only [fcomp, projFull_apply]
  cases hb : s.testBit p
  · simp [h s hb]
  · simp only [if_true]
    cases hs : X s with
    | none => rfl
    | some r =>
      obtain ⟨κ, w⟩ := r
      have := hX s κ w hs
      simp only [Option.some.injEq, Prod.mk.injEq, and_true]
      omega

theorem comp_projFull_zero (p : Nat) (X : FMap) (h : ∀ s, s.testBit p = true → X s = none) :
    fcomp X (projFull p) = fzero := by
  funext s
  simp only [fcomp, projFull_apply, fzero]
  cases hb : s.testBit p
  · simp
  · simp [h s hb]

theorem hop_none_of_bit (p q : Nat) (hpq : p ≠ q) (s : Nat) :
    (s.testBit p = true → actFTerm [(p, 1), (q, 0)] s = none) ∧
    (s.testBit q = false → actFTerm [(p, 1), (q, 0)] s = none) := by
  constructor <;> intro hb <;>
    · cases hs : actFTerm [(p, 1), (q, 0)] s with
      | none => rfl
      | some r =>
        obtain ⟨κ, w⟩ := r
        have := hop_bits p q hpq hs
        simp_all

theorem gq_sub_zero (x : GQ) : x + -(0 : GQ) = x := by apply GQ.ext <;> simp <;> grind
theorem gq_zero_sub (x : GQ) : (0 : GQ) + -x = -x := by apply GQ.ext <;> simp <;> grind

/-- `[n_i, i^ l] = i^ l` -/
theorem pair_number_hop (i l s u : Nat) (hil : i ≠ l) :
    phiF s u ([(i, 1), (i, 0)] ++ [(i, 1), (l, 0)]) + -(phiF s u ([(i, 1), (l, 0)] ++ [(i, 1), (i, 0)])) =
      phiF s u [(i, 1), (l, 0)] := by
  simp only [phiF]
  rw [actFTerm_append, actFTerm_append, actFTerm_number,
    projFull_comp_id i _ (red_actFTerm _) (fun s κ w h => (hop_bits i l hil h).2.1),
    comp_projFull_zero i _ (fun s hb => (hop_none_of_bit i l hil s).1 hb)]
  exact gq_sub_zero _

/-- `[n_i, l^ i] = -(l^ i)` -/
theorem pair_number_hop' (i l s u : Nat) (hil : i ≠ l) :
    phiF s u ([(i, 1), (i, 0)] ++ [(l, 1), (i, 0)]) + -(phiF s u ([(l, 1), (i, 0)] ++ [(i, 1), (i, 0)])) =
      -(phiF s u [(l, 1), (i, 0)]) := by
  simp only [phiF]
  rw [actFTerm_append, actFTerm_append, actFTerm_number,
    projFull_comp_zero i _ (fun s κ w h => (hop_bits l i (Ne.symm hil) h).2.2.2),
    comp_projFull_id i _ (red_actFTerm _) (fun s hb => (hop_none_of_bit l i (Ne.symm hil) s).2 hb)]
  exact gq_zero_sub _

/-- `[i^ j, j^ i] = n_i - n_j` -/
theorem pair_double (i j s u : Nat) (hij : i ≠ j) :
    phiF s u ([(i, 1), (j, 0)] ++ [(j, 1), (i, 0)]) + -(phiF s u ([(j, 1), (i, 0)] ++ [(i, 1), (j, 0)])) =
      phiF s u [(i, 1), (i, 0)] + -(phiF s u [(j, 1), (j, 0)]) := by
  have hji : j ≠ i := Ne.symm hij
  -- i^ j j^ i = (i^ i)(j j^),   j^ i i^ j = (j^ j)(i i^)
  have e1 : actFTerm ([(i, 1), (j, 0)] ++ [(j, 1), (i, 0)]) = fcomp (projFull i) (projEmpty j) := by
    show actFTerm [(i, 1), (j, 0), (j, 1), (i, 0)] = _
    rw [actFTerm_four]
    -- move a_i to the left past a_j† and a_j
    rw [ffac_swap j 1 i 0 hji, fneg_fcomp_right, fneg_fcomp_right, swap3 (j, 0) (i, 0) _ hji, fneg_fcomp_right,
      fneg_fneg, projFull, projEmpty, ← fcomp_assoc]
    exact fneg_even 2 _ (red_fcomp _ _) rfl
  have e2 : actFTerm ([(j, 1), (i, 0)] ++ [(i, 1), (j, 0)]) = fcomp (projFull j) (projEmpty i) := by
    show actFTerm [(j, 1), (i, 0), (i, 1), (j, 0)] = _
    rw [actFTerm_four]
    rw [ffac_swap i 1 j 0 hij, fneg_fcomp_right, fneg_fcomp_right, swap3 (i, 0) (j, 0) _ hij, fneg_fcomp_right,
      fneg_fneg, projFull, projEmpty, ← fcomp_assoc]
    exact fneg_even 2 _ (red_fcomp _ _) rfl
  simp only [phiF, e1, e2, actFTerm_number, ampG, fcomp, projFull_apply, projEmpty_apply]
  have h0 : GQ.sgn 0 = 1 := rfl
  by_cases hu : s = u
  · subst hu
    cases hi : s.testBit i <;> cases hj : s.testBit j <;> simp [hi, hj, h0] <;> apply GQ.ext <;> simp <;> grind
  · cases hi : s.testBit i <;> cases hj : s.testBit j <;> simp [hi, hj, hu] <;> apply GQ.ext <;> simp <;> grind

/-- `[i^ l, n_l] = i^ l` -/
theorem pair_hop_number (i l s u : Nat) (hil : i ≠ l) :
    phiF s u ([(i, 1), (l, 0)] ++ [(l, 1), (l, 0)]) + -(phiF s u ([(l, 1), (l, 0)] ++ [(i, 1), (l, 0)])) =
      phiF s u [(i, 1), (l, 0)] := by
  simp only [phiF]
  rw [actFTerm_append, actFTerm_append, actFTerm_number,
    comp_projFull_id l _ (red_actFTerm _) (fun s hb => (hop_none_of_bit i l hil s).2 hb),
    projFull_comp_zero l _ (fun s κ w h => (hop_bits i l hil h).2.2.2)]
  exact gq_sub_zero _

/-- `[i^ j, n_i] = -(i^ j)` -/
theorem pair_hop_number' (i j s u : Nat) (hij : i ≠ j) :
    phiF s u ([(i, 1), (j, 0)] ++ [(i, 1), (i, 0)]) + -(phiF s u ([(i, 1), (i, 0)] ++ [(i, 1), (j, 0)])) =
      -(phiF s u [(i, 1), (j, 0)]) := by
  simp only [phiF]
  rw [actFTerm_append, actFTerm_append, actFTerm_number,
    comp_projFull_zero i _ (fun s hb => (hop_none_of_bit i j hij s).1 hb),
    projFull_comp_id i _ (red_actFTerm _) (fun s κ w h => (hop_bits i j hij h).2.1)]
  exact gq_zero_sub _

theorem pairComm_zero_of_net (s u : Nat) (a b : Term) (coef : GQ) (m : Nat)
    (h : 2 ≤ net m (a ++ b) ∨ net m (a ++ b) ≤ -2) : pairComm s u a b coef = 0 := by
  have h' : 2 ≤ net m (b ++ a) ∨ net m (b ++ a) ≤ -2 := by rw [net_append] at h ⊢; omega
  rw [pairComm, phiF_zero_of_net s u _ m h, phiF_zero_of_net s u _ m h']
  apply GQ.ext <;> simp <;> grind

/-- **`_commutator_one_body_with_one_body`, every index pattern**: for one-body terms `a = i^ j`,
`b = k^ l` (any coincidences among the four modes, `a ≠ b`) the helper adds exactly `coef · [a, b]` -/
theorem dcOneOne_sound (i j k l : Nat) (coef : GQ) (prior : Op) (hne : ¬ (i = k ∧ j = l)) (s u : Nat) :
    den (phiF s u) (dcOneOne [(i, 1), (j, 0)] [(k, 1), (l, 0)] coef prior) =
      den (phiF s u) prior + pairComm s u [(i, 1), (j, 0)] [(k, 1), (l, 0)] coef := by
  by_cases hjk : j = k
  · subst hjk
    by_cases hil : i = l
    · -- double pairing i^ j, j^ i
      subst hil
      have hij : i ≠ j := fun e => hne ⟨e, e.symm⟩
      have hc : dcOneOne [(i, 1), (j, 0)] [(j, 1), (i, 0)] coef prior =
          bump (bump prior [(i, 1), (i, 0)] coef) [(j, 1), (j, 0)] (-coef) := by
        simp [dcOneOne, fIdx]
      rw [hc, den_bump, den_bump, pairComm, pair_double i j s u hij]
      apply GQ.ext <;> simp <;> grind
    · -- chain a[1] = b[0]
      have hc : dcOneOne [(i, 1), (j, 0)] [(j, 1), (l, 0)] coef prior = bump prior [(i, 1), (l, 0)] coef := by
        simp [dcOneOne, fIdx, hil]
      rw [hc, den_bump, pairComm]
      congr 2
      by_cases hij : i = j
      · subst hij; exact (pair_number_hop i l s u hil).symm
      · by_cases hlj : l = j
        · subst hlj; exact (pair_hop_number i l s u hij).symm
        · exact (pair_ik_kj i j l s u hij hlj hil).symm
  · by_cases hil : i = l
    · -- chain a[0] = b[1]
      subst hil
      have hkj : ¬ k = j := fun e => hjk e.symm
      have hc : dcOneOne [(i, 1), (j, 0)] [(k, 1), (i, 0)] coef prior = bump prior [(k, 1), (j, 0)] (-coef) := by
        simp [dcOneOne, fIdx, hjk, hkj]
      rw [hc, den_bump, pairComm]
      have key : phiF s u ([(i, 1), (j, 0)] ++ [(k, 1), (i, 0)]) + -(phiF s u ([(k, 1), (i, 0)] ++ [(i, 1), (j, 0)])) =
          -(phiF s u [(k, 1), (j, 0)]) := by
        by_cases hij : i = j
        · subst hij; exact pair_number_hop' i k s u (fun e => hjk e)
        · by_cases hki : k = i
          · subst hki; exact pair_hop_number' k j s u hij
          · have := pair_ik_kj k i j s u hki (fun e => hij e.symm) hkj
            rw [← this]
            apply GQ.ext <;> simp <;> grind
      rw [key]
      apply GQ.ext <;> simp <;> grind
    · -- no pairing: nothing is added, and the terms commute
      have hc : dcOneOne [(i, 1), (j, 0)] [(k, 1), (l, 0)] coef prior = prior := by
        simp [dcOneOne, fIdx, hil, hjk]
      rw [hc]
      have hz : pairComm s u [(i, 1), (j, 0)] [(k, 1), (l, 0)] coef = 0 := by
        by_cases hik : i = k
        · subst hik
          have hjl : ¬ j = l := fun e => hne ⟨rfl, e⟩
          apply pairComm_zero_of_net _ _ _ _ _ i
          left
          have h1 : ¬ j = i := fun e => hjk e
          have h2 : ¬ l = i := fun e => hil e.symm
          simp [net, h1, h2]
        · by_cases hjl : j = l
          · subst hjl
            apply pairComm_zero_of_net _ _ _ _ _ j
            right
            have h1 : ¬ i = j := fun e => hil e
            have h2 : ¬ k = j := fun e => hjk e.symm
            simp [net, h1, h2]
          · have := dcOneOne_disjoint i j k l coef prior hik hil hjk hjl s u
            rw [hc] at this
            have h0 : den (phiF s u) prior + pairComm s u [(i, 1), (j, 0)] [(k, 1), (l, 0)] coef =
                den (phiF s u) prior + 0 := by rw [← this, add_zero']
            exact add_right_cancel' _ _ (den (phiF s u) prior) (by
              rw [add_comm' _ (den (phiF s u) prior), h0, add_comm'])
      rw [hz, add_zero']

/-! ### the main loop on one-body operators -/

/-- a one-body term `i^ j` -/
def OneBody (t : Term) : Prop := ∃ i j, t = [(i, 1), (j, 0)]

/-- `Σ_{b ∈ B} coef_a coef_b ⟨u| a b - b a |s⟩` -/
def commRow (s u : Nat) (a : Term) (ca : GQ) (B : Op) (init : GQ) : GQ :=
  B.foldl (fun acc (e : Term × GQ) => acc + pairComm s u a e.1 (ca * e.2)) init

theorem pairComm_self (s u : Nat) (a : Term) (c : GQ) : pairComm s u a a c = 0 := by
  unfold pairComm; apply GQ.ext <;> simp <;> grind

/-- the body of the double loop of the diagonal-Coulomb commutator -/
def dcStep (tol : Rat) (ta : Term) (ca : GQ) (acc : Op) (e : Term × GQ) : Op :=
  let coef := ca * e.2
  if ta == e.1 || ta.isEmpty || e.1.isEmpty then acc
  else if ta.length == 4 && e.1.length == 4 && fIdx ta 0 == fIdx ta 2 && fIdx ta 1 == fIdx ta 3 then
    dcTwoTwo ta e.1 coef acc
  else if (e.1.length == 4 && ta.length == 2) || (ta.length == 4 && e.1.length == 2) then
    dcOneTwo ta e.1 coef acc
  else if ta.length == 2 && e.1.length == 2 then
    dcOneOne ta e.1 coef acc
  else
    let additional : Op := Dict.set (Dict.set [] (ta ++ e.1) coef) (e.1 ++ ta) (-coef)
    iadd tol acc (normalOrdered tol additional)

theorem dcCommutator_eq (tol : Rat) (A B prior : Op) :
    dcCommutator tol A B prior = A.foldl (fun acc (ea : Term × GQ) => B.foldl (dcStep tol ea.1 ea.2) acc) prior := rfl

theorem dcStep_oneBody (tol : Rat) (i j k l : Nat) (ca cb : GQ) (acc : Op) :
    dcStep tol [(i, 1), (j, 0)] ca acc ([(k, 1), (l, 0)], cb) =
      if i = k ∧ j = l then acc else dcOneOne [(i, 1), (j, 0)] [(k, 1), (l, 0)] (ca * cb) acc := by
  by_cases hsame : i = k ∧ j = l
  · obtain ⟨rfl, rfl⟩ := hsame
    simp [dcStep]
  · have hneq : ([(i, 1), (j, 0)] == [(k, 1), (l, 0)]) = false := by
      simp only [beq_eq_false_iff_ne, ne_eq, List.cons.injEq, Prod.mk.injEq, and_true, not_and]
      intro h1 h2; exact hsame ⟨h1, h2⟩
    simp [dcStep, hneq, hsame]

theorem dcInner_oneBody (tol : Rat) (s u : Nat) (ta : Term) (ca : GQ) (ha : OneBody ta) (B : Op)
    (hB : ∀ e ∈ B, OneBody e.1) : ∀ (acc : Op),
    den (phiF s u) (B.foldl (dcStep tol ta ca) acc) = commRow s u ta ca B (den (phiF s u) acc) := by
  obtain ⟨i, j, rfl⟩ := ha
  induction B with
  | nil => intro acc; rfl
  | cons e B ih =>
    intro acc
    obtain ⟨k, l, hk⟩ := hB e (by simp)
    obtain ⟨tb, cb⟩ := e
    simp only at hk
    subst hk
    simp only [List.foldl_cons, commRow]
    have ihB := ih (fun e' he' => hB e' (by simp [he']))
    simp only [commRow] at ihB
    rw [ihB, dcStep_oneBody]
    by_cases hsame : i = k ∧ j = l
    · obtain ⟨rfl, rfl⟩ := hsame
      simp only [and_self, if_true]
      rw [pairComm_self, add_zero']
    · simp only [hsame, if_false]
      rw [dcOneOne_sound i j k l _ acc hsame s u]

/-- **the diagonal-Coulomb commutator on one-body operators**: if every term of `A` and `B` is a
one-body term `i^ j`, every matrix element of the result is that of `prior` plus
`Σ_{a ∈ A} Σ_{b ∈ B} c_a c_b ⟨u| a b - b a |s⟩` -/
theorem dcCommutator_oneBody (tol : Rat) (s u : Nat) (A B : Op) (hA : ∀ e ∈ A, OneBody e.1) (hB : ∀ e ∈ B, OneBody e.1) :
    ∀ (prior : Op), den (phiF s u) (dcCommutator tol A B prior) =
      A.foldl (fun acc (e : Term × GQ) => commRow s u e.1 e.2 B acc) (den (phiF s u) prior) := by
  intro prior
  rw [dcCommutator_eq]
  induction A generalizing prior with
  | nil => rfl
  | cons e A ih =>
    simp only [List.foldl_cons]
    rw [ih (fun e' he' => hA e' (by simp [he'])), dcInner_oneBody tol s u e.1 e.2 (hA e (by simp)) B hB prior]

end C07F
end Proofs
end OFV
