/-
C07 — the diagonal-Coulomb commutator, one-body with one-body case
(`_commutator_one_body_with_one_body`), for the index patterns with pairwise distinct modes:
the term added to `prior_terms` is the commutator of the two terms.  Core Lean only.
-/
import OFV.Proofs.C07Hop
import OFV.Model.C07DC

namespace OFV
namespace Proofs
namespace C07F
open OFV.Spec OFV.Model OFV.Model.C07 OFV.GQ

/-- `d[k] = d.get(k, 0.0) + c` adds `c · φ k` to the denotation -/
theorem den_bump (φ : Term → GQ) (d : Op) (k : Term) (c : GQ) : den φ (bump d k c) = den φ d + c * φ k := by
  unfold bump
  cases hg : Dict.get? d k with
  | none =>
    simp only [Dict.getD, hg, Option.getD_none, zero_add']
    exact den_set_absent φ d k c hg
  | some v =>
    simp only [Dict.getD, hg, Option.getD_some]
    have := den_set_present φ d k v (v + c) hg
    apply add_right_cancel' _ _ (v * φ k)
    rw [this, add_mul', add_assoc', add_comm' (c * φ k)]

/-- the contribution of the term pair `(a, b)` with coefficient `coef` to the true commutator -/
def pairComm (s u : Nat) (a b : Term) (coef : GQ) : GQ :=
  coef * (phiF s u (a ++ b) + -(phiF s u (b ++ a)))

/-- single pairing `a[1] = b[0]`: `[i^ j, j^ l] = i^ l` (distinct `i, j, l`) -/
theorem dcOneOne_chain (i j l : Nat) (coef : GQ) (prior : Op) (hij : i ≠ j) (hlj : l ≠ j) (hil : i ≠ l) (s u : Nat) :
    den (phiF s u) (dcOneOne [(i, 1), (j, 0)] [(j, 1), (l, 0)] coef prior) =
      den (phiF s u) prior + pairComm s u [(i, 1), (j, 0)] [(j, 1), (l, 0)] coef := by
  have h1 : ¬ (i = l ∧ j = j) := fun h => hil h.1
  have hc : dcOneOne [(i, 1), (j, 0)] [(j, 1), (l, 0)] coef prior = bump prior [(i, 1), (l, 0)] coef := by
    simp [dcOneOne, fIdx, hil]
  rw [hc, den_bump, pairComm, pair_ik_kj i j l s u hij hlj hil]

/-- the other single pairing `a[0] = b[1]`: `[i^ j, l^ i] = -(l^ j)` (distinct `i, j, l`) -/
theorem dcOneOne_chain' (i j l : Nat) (coef : GQ) (prior : Op) (hij : i ≠ j) (hli : l ≠ i) (hlj : l ≠ j) (s u : Nat) :
    den (phiF s u) (dcOneOne [(i, 1), (j, 0)] [(l, 1), (i, 0)] coef prior) =
      den (phiF s u) prior + pairComm s u [(i, 1), (j, 0)] [(l, 1), (i, 0)] coef := by
  have hjl : ¬ j = l := fun e => hlj e.symm
  have hc : dcOneOne [(i, 1), (j, 0)] [(l, 1), (i, 0)] coef prior = bump prior [(l, 1), (j, 0)] (-coef) := by
    simp [dcOneOne, fIdx, hjl, hli, hlj]
  rw [hc, den_bump, pairComm]
  have := pair_ik_kj l i j s u hli (Ne.symm hij) hlj
  rw [← this]
  apply GQ.ext <;> simp <;> grind

/-- no pairing: four distinct modes, nothing is added and the terms commute -/
theorem dcOneOne_disjoint (i j k l : Nat) (coef : GQ) (prior : Op)
    (h1 : i ≠ k) (h2 : i ≠ l) (h3 : j ≠ k) (h4 : j ≠ l) (s u : Nat) :
    den (phiF s u) (dcOneOne [(i, 1), (j, 0)] [(k, 1), (l, 0)] coef prior) =
      den (phiF s u) prior + pairComm s u [(i, 1), (j, 0)] [(k, 1), (l, 0)] coef := by
  have hc : dcOneOne [(i, 1), (j, 0)] [(k, 1), (l, 0)] coef prior = prior := by
    simp [dcOneOne, fIdx, h2, h3]
  have hcomm : actFTerm ([(i, 1), (j, 0)] ++ [(k, 1), (l, 0)]) = actFTerm ([(k, 1), (l, 0)] ++ [(i, 1), (j, 0)]) := by
    apply term_comm_disjoint_even _ _ _ (Or.inl (by simp))
    apply disjoint_of_lists
    simp; omega
  rw [hc, pairComm]
  simp only [phiF, hcomm]
  apply GQ.ext <;> simp <;> grind

end C07F
end Proofs
end OFV
