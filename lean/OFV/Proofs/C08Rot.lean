/-
C08 helper lemmas: general_basis_change as the adjoint action on weights
(`Σ_P M'[P] w(P) = Σ_a M[a] Σ_P Π_i R_i[a_i, P_i] w(P)`).
-/
import OFV.Proofs.C08Arith

namespace OFV
namespace C08P
open Spec Spec.C08 Model.C08

/-- `Σ_{P < n} f P` -/
def sumN : Nat → (Nat → GQ) → GQ
  | 0, _ => 0
  | n + 1, f => sumN n f + f n

theorem sumN_add (n : Nat) (f g : Nat → GQ) : sumN n (fun P => f P + g P) = sumN n f + sumN n g := by
  induction n with
  | zero => simp [sumN]
  | succ n ih => simp only [sumN, ih]; ring

theorem sumN_mul (n : Nat) (c : GQ) (f : Nat → GQ) : sumN n (fun P => c * f P) = c * sumN n f := by
  induction n with
  | zero => simp [sumN]
  | succ n ih => simp only [sumN, ih]; ring

theorem sumN_zero (n : Nat) : sumN n (fun _ => 0) = 0 := by
  induction n with
  | zero => simp [sumN]
  | succ n ih => simp [sumN, ih]

theorem sumN_congr (n : Nat) (f g : Nat → GQ) (h : ∀ P, P < n → f P = g P) : sumN n f = sumN n g := by
  induction n with
  | zero => simp [sumN]
  | succ n ih =>
    simp only [sumN]
    rw [ih (fun P hP => h P (by omega)), h n (by omega)]

theorem sumN_comm (n m : Nat) (f : Nat → Nat → GQ) :
    sumN n (fun P => sumN m (fun Q => f P Q)) = sumN m (fun Q => sumN n (fun P => f P Q)) := by
  induction n with
  | zero => simp [sumN, sumN_zero]
  | succ n ih => simp only [sumN, ih, sumN_add]

theorem sumIdx_append (F : Nat → Tensor → GQ) (l1 l2 : List Tensor) (i : Nat) :
    sumIdx F i (l1 ++ l2) = sumIdx F i l1 + sumIdx F (i + l1.length) l2 := by
  induction l1 generalizing i with
  | nil => simp [sumIdx]
  | cons t r ih =>
    simp only [List.cons_append, sumIdx, ih, List.length_cons]
    rw [show i + 1 + r.length = i + (r.length + 1) by omega]; ring

theorem sumIdx_range_map (F : Nat → Tensor → GQ) (g : Nat → Tensor) (n : Nat) :
    sumIdx F 0 ((List.range n).map g) = sumN n (fun P => F P (g P)) := by
  induction n with
  | zero => simp [sumIdx, sumN]
  | succ n ih =>
    rw [List.range_succ, List.map_append, sumIdx_append, ih]
    simp [sumIdx, sumN]

theorem sumIdx_sumN (n : Nat) (F : Nat → Tensor → Nat → GQ) (l : List Tensor) (i : Nat) :
    sumIdx (fun a t => sumN n (fun P => F a t P)) i l = sumN n (fun P => sumIdx (fun a t => F a t P) i l) := by
  induction l generalizing i with
  | nil => simp [sumIdx, sumN_zero]
  | cons t r ih => simp only [sumIdx, ih, sumN_add]

theorem sumIdx_congr (F G : Nat → Tensor → GQ) (l : List Tensor) (i : Nat)
    (h : ∀ a t, t ∈ l → F a t = G a t) : sumIdx F i l = sumIdx G i l := by
  induction l generalizing i with
  | nil => simp [sumIdx]
  | cons t r ih =>
    simp only [sumIdx]
    rw [h i t (by simp), ih (i + 1) (fun a t ht => h a t (by simp [ht]))]

/-! linearity of `evalT` in the weight -/

theorem evalT_weight_congr : ∀ (k : Nat) (w w' : List Nat → GQ) (T : Tensor), (∀ idx, w idx = w' idx) →
    evalT k w T = evalT k w' T := by
  intro k w w' T h
  have : w = w' := funext h
  rw [this]

theorem evalT_weight_add : ∀ (k : Nat) (w1 w2 : List Nat → GQ) (T : Tensor),
    evalT k (fun idx => w1 idx + w2 idx) T = evalT k w1 T + evalT k w2 T := by
  intro k
  induction k with
  | zero => intro w1 w2 T; cases T <;> simp [evalT]; ring
  | succ k ih =>
    intro w1 w2 T
    cases T with
    | s c => simp [evalT]
    | v l =>
      simp only [evalT]
      generalize (0 : Nat) = i
      induction l generalizing i with
      | nil => simp [sumIdx]
      | cons t r ihl => simp only [sumIdx]; rw [ihl, ih]; ring

theorem evalT_weight_mul : ∀ (k : Nat) (c : GQ) (w : List Nat → GQ) (T : Tensor),
    evalT k (fun idx => c * w idx) T = c * evalT k w T := by
  intro k
  induction k with
  | zero => intro c w T; cases T <;> simp [evalT]; ring
  | succ k ih =>
    intro c w T
    cases T with
    | s x => simp [evalT]
    | v l =>
      simp only [evalT]
      generalize (0 : Nat) = i
      induction l generalizing i with
      | nil => simp [sumIdx]
      | cons t r ihl => simp only [sumIdx]; rw [ihl, ih]; ring

theorem evalT_weight_zero : ∀ (k : Nat) (T : Tensor), evalT k (fun _ => 0) T = 0 := by
  intro k T
  have := evalT_weight_mul k 0 (fun _ => 0) T
  simpa using this

theorem evalT_weight_sumN (k n : Nat) (W : Nat → List Nat → GQ) (T : Tensor) :
    evalT k (fun idx => sumN n (fun P => W P idx)) T = sumN n (fun P => evalT k (W P) T) := by
  induction n with
  | zero => simp [sumN, evalT_weight_zero]
  | succ n ih => simp only [sumN, evalT_weight_add, ih]

/-! zeros, shapes -/

theorem sumIdx_replicate_zero (F : Nat → Tensor → GQ) (t : Tensor) (h : ∀ j, F j t = 0) :
    ∀ (m i : Nat), sumIdx F i (List.replicate m t) = 0 := by
  intro m
  induction m with
  | zero => intro i; simp [sumIdx]
  | succ m ih => intro i; simp [List.replicate_succ, sumIdx, h, ih]

theorem sumIdx_map_list (F : Nat → Tensor → GQ) (g : Tensor → Tensor) (l : List Tensor) (i : Nat) :
    sumIdx F i (l.map g) = sumIdx (fun a t => F a (g t)) i l := by
  induction l generalizing i with
  | nil => simp [sumIdx]
  | cons t r ih => simp only [List.map_cons, sumIdx, ih]


theorem Shaped_tzeros (n : Nat) : ∀ k, Shaped n k (tzeros n k) := by
  intro k
  induction k with
  | zero => simp [tzeros, Shaped]
  | succ k ih =>
    simp only [tzeros, Shaped, List.length_replicate, true_and]
    intro t ht
    rw [List.eq_of_mem_replicate ht]; exact ih

theorem evalT_tzeros (n : Nat) : ∀ (k : Nat) (w : List Nat → GQ), evalT k w (tzeros n k) = 0 := by
  intro k
  induction k with
  | zero => intro w; simp [tzeros, evalT]
  | succ k ih =>
    intro w
    simp only [tzeros, evalT]
    exact sumIdx_replicate_zero _ _ (fun j => ih _) n 0

theorem Shaped_tmap (f : GQ → GQ) (n : Nat) : ∀ (k : Nat) (T : Tensor), Shaped n k T → Shaped n k (tmap f k T) := by
  intro k
  induction k with
  | zero => intro T h; cases T <;> simp_all [tmap, Shaped]
  | succ k ih =>
    intro T h
    cases T with
    | s c => simp [Shaped] at h
    | v l =>
      simp only [Shaped] at h
      simp only [tmap, Shaped, List.length_map, h.1, true_and]
      intro t ht
      obtain ⟨u, hu, rfl⟩ := List.mem_map.mp ht
      exact ih u (h.2 u hu)

/-- value and shape of a linear combination of arrays -/
theorem lincomb_spec (n k : Nat) (coef : Nat → GQ) (w : List Nat → GQ) :
    ∀ (sub : List Tensor) (i : Nat) (acc : Tensor), Shaped n k acc → (∀ t ∈ sub, Shaped n k t) →
    let r := (sub.zipIdx i).foldl (fun acc (x : Tensor × Nat) => tadd k acc (tmap (fun y => coef x.2 * y) k x.1)) acc
    Shaped n k r ∧ evalT k w r = evalT k w acc + sumIdx (fun a t => coef a * evalT k w t) i sub := by
  intro sub
  induction sub with
  | nil => intro i acc ha _; simp [sumIdx, ha]
  | cons t r ih =>
    intro i acc ha hs
    simp only [List.zipIdx_cons, List.foldl_cons]
    have ht : Shaped n k t := hs t (by simp)
    have hm : Shaped n k (tmap (fun y => coef i * y) k t) := Shaped_tmap _ n k t ht
    have ha' : Shaped n k (tadd k acc (tmap (fun y => coef i * y) k t)) := Shaped_tzip _ n k _ _ ha hm
    obtain ⟨h1, h2⟩ := ih (i + 1) _ ha' (fun t ht => hs t (by simp [ht]))
    refine ⟨h1, ?_⟩
    rw [h2]
    simp only [sumIdx, tadd]
    rw [evalT_tzip (· + ·) 1 (by intros; ring) n k w _ _ ha hm, evalT_tmap _ (coef i) (fun _ => rfl)]
    ring

/-- the weight pulled back through the rotation:
`pull (x :: ks) w (a :: as) = Σ_P R_x[a, P] · pull ks (w (P :: ·)) as` -/
def pull (n : Nat) (R : Mat) : Key → (List Nat → GQ) → List Nat → GQ
  | [], w, idx => w idx
  | x :: ks, w, a :: as =>
    sumN n (fun P => matGet (if x ≠ 0 then conjMat R else R) a P * pull n R ks (fun Ps => w (P :: Ps)) as)
  | _ :: _, _, [] => 0

theorem basisChange_spec (n : Nat) (R : Mat) :
    ∀ (key : Key) (w : List Nat → GQ) (T : Tensor), Shaped n key.length T →
    Shaped n key.length (basisChange n R key T) ∧
    evalT key.length w (basisChange n R key T) = evalT key.length (pull n R key w) T := by
  intro key
  induction key with
  | nil =>
    intro w T h
    refine ⟨by simpa [basisChange] using h, ?_⟩
    simp only [basisChange, List.length_nil]
    exact evalT_weight_congr 0 _ _ T (fun idx => by simp [pull])
  | cons x ks ih =>
    intro w T h
    cases T with
    | s c => simp [Shaped] at h
    | v l =>
      simp only [List.length_cons, Shaped] at h
      have hsub : ∀ t ∈ l.map (basisChange n R ks), Shaped n ks.length t := by
        intro t ht
        obtain ⟨u, hu, rfl⟩ := List.mem_map.mp ht
        exact (ih (fun _ => 0) u (h.2 u hu)).1
      have hl := fun (P : Nat) (w' : List Nat → GQ) =>
        lincomb_spec n ks.length (fun a => matGet (if x ≠ 0 then conjMat R else R) a P) w'
          (l.map (basisChange n R ks)) 0 (tzeros n ks.length) (Shaped_tzeros n _) hsub
      constructor
      · simp only [basisChange, List.length_cons, Shaped, List.length_map, List.length_range, true_and]
        intro t ht
        obtain ⟨P, _, rfl⟩ := List.mem_map.mp ht
        exact (hl P (fun _ => 0)).1
      · simp only [basisChange, List.length_cons, evalT]
        rw [sumIdx_range_map]
        have e1 : ∀ P, evalT ks.length (fun idx => w (P :: idx))
            (lincomb n ks.length (fun a => matGet (if x ≠ 0 then conjMat R else R) a P) (l.map (basisChange n R ks)))
            = sumIdx (fun a t => matGet (if x ≠ 0 then conjMat R else R) a P *
                evalT ks.length (pull n R ks (fun idx => w (P :: idx))) t) 0 l := by
          intro P
          have := (hl P (fun idx => w (P :: idx))).2
          simp only [lincomb] at this ⊢
          rw [this, evalT_tzeros, zero_add]
          rw [sumIdx_map_list]
          apply sumIdx_congr
          intro a t ht
          rw [(ih _ t (h.2 t ht)).2]
        rw [sumN_congr _ _ _ (fun P _ => e1 P)]
        rw [← sumIdx_sumN]
        apply sumIdx_congr
        intro a t _
        simp only [pull]
        rw [evalT_weight_sumN]
        apply sumN_congr
        intro P _
        rw [evalT_weight_mul]

end C08P
end OFV
