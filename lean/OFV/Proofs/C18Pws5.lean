/- C18 — `pair_within_simultaneously`, part 5: every yield is a perfect matching of all labels
(pairs plus bare labels, every label exactly once). -/
import OFV.Proofs.C18Pws4
import Mathlib.Data.List.Forall2

namespace OFV.Proofs.C18Pws
open OFV.Model.C18 OFV.Spec.C18 OFV.Proofs.C18 List

/-- the pairing uses every label of `ls` exactly once and contains no error marker -/
def FullMatch (ls : List L) (y : Pairing L) : Prop := wellFormed y = true ∧ (labelsOf y).Perm ls

theorem FullMatch.append {l1 l2 : List L} {y1 y2 : Pairing L} (h1 : FullMatch l1 y1) (h2 : FullMatch l2 y2) :
    FullMatch (l1 ++ l2) (y1 ++ y2) :=
  ⟨by rw [wellFormed_append, h1.1, h2.1]; rfl, by rw [labelsOf_append]; exact h1.2.append h2.2⟩

theorem FullMatch.perm {l1 l2 : List L} {y : Pairing L} (h : FullMatch l1 y) (hp : l1.Perm l2) : FullMatch l2 y :=
  ⟨h.1, h.2.trans hp⟩

theorem pairWithin_full (v : List L) (hnd : v.Nodup) (hn : none ∉ v) : ∀ y ∈ pairWithin v, FullMatch v y := by
  intro y hy
  have g := (pairWithinAux_inv v.length v (Nat.le_refl _) hnd (fun h => hn (dropLast_subset _ h))).2 y hy
  exact ⟨g.shape.wellFormed, g.perm⟩

theorem pairBetween_full (f1 f2 : List L) (off : Nat) : ∀ y ∈ pairBetween f1 f2 off, FullMatch (f1 ++ f2) y := by
  intro y hy
  simp only [pairBetween, mem_map] at hy
  obtain ⟨io, _, rfl⟩ := hy
  obtain ⟨w, p, _⟩ := pairBetweenAt_matching f1 f2 io
  exact ⟨w, p⟩

theorem half_perm (A : List L) (x : Nat) (hx : x ≤ 1) : (half A x ++ half A (1 - x)).Perm A := by
  rcases half_cases x hx with ⟨rfl, e⟩ | ⟨rfl, e⟩
  · rw [e, half_append]
  · rw [e]; exact perm_append_comm.trans (by rw [half_append])

theorem perm4 (a b c d : List L) : (a ++ b ++ (c ++ d)).Perm ((a ++ c) ++ (b ++ d)) := by
  rw [perm_iff_count]
  intro x
  simp only [count_append]
  omega

/-- every yield of `_gen_pairings_between_partitions(A, B)` matches all labels of `A` and `B` -/
theorem gpb_full (A B : List L) (hAB : (A ++ B).Nodup) (hAn : none ∉ A) (hBn : none ∉ B)
    (hA2 : 2 ≤ A.length) (hB2 : 2 ≤ B.length) : ∀ g ∈ genPairingsBetween A B, FullMatch (A ++ B) g := by
  have hA : A.Nodup := (nodup_append.mp hAB).1
  have hB : B.Nodup := (nodup_append.mp hAB).2.1
  intro g hg
  simp only [genPairingsBetween, mem_append] at hg
  rcases hg with hg | hg
  · by_cases h5 : A.length + B.length < 5
    · simp only [h5, if_true, mem_singleton] at hg
      subst hg
      obtain ⟨a1, a2, rfl⟩ := length_eq_two.mp (show A.length = 2 by omega)
      obtain ⟨b1, b2, rfl⟩ := length_eq_two.mp (show B.length = 2 by omega)
      exact ⟨by simp [tupItem, wellFormed], by simp [tupItem, labelsOf]⟩
    · simp [h5] at hg
  · simp only [mem_flatMap] at hg
    obtain ⟨ab, hab, hg⟩ := hg
    have hx : ab.1 ≤ 1 ∧ ab.2 ≤ 1 := by
      simp only [mem_cons, not_mem_nil, or_false] at hab
      rcases hab with rfl | rfl | rfl | rfl <;> simp
    obtain ⟨x, y⟩ := ab
    simp only at hx hg
    split at hg
    · simp at hg
    · split at hg
      · simp at hg
      · simp only [mem_flatMap, mem_range] at hg
        obtain ⟨it, _, hit⟩ := hg
        have hxa_ne : half A x ≠ [] := by
          intro e
          rcases (show x = 0 ∨ x = 1 by omega) with rfl | rfl
          · have := half_length0 A; rw [e] at this; simp at this; omega
          · have := half_length1 A; rw [e] at this; simp at this; omega
        have hxb_ne : half B y ≠ [] := by
          intro e
          rcases (show y = 0 ∨ y = 1 by omega) with rfl | rfl
          · have := half_length0 B; rw [e] at this; simp at this; omega
          · have := half_length1 B; rw [e] at this; simp at this; omega
        have hxan : none ∉ half A x := fun h => hAn (mem_half h)
        have hxbn : none ∉ half B y := fun h => hBn (mem_half h)
        have ga := pairWithin_ne_nil (half A x) (half_nodup hA x) hxan hxa_ne
        have gb := pairWithin_ne_nil (half B y) (half_nodup hB y) hxbn hxb_ne
        obtain ⟨ba, hba⟩ := loopNth_some _ ga it
        obtain ⟨bb, hbb⟩ := loopNth_some _ gb it
        have hba' : loopNth (pairWithin ((halves A).getD x [])) it = some (_, ba) := hba
        have hbb' : loopNth (pairWithin ((halves B).getD y [])) it = some (_, bb) := hbb
        rw [hba', hbb'] at hit
        simp only [mem_map] at hit
        obtain ⟨pab, hpab, rfl⟩ := hit
        have f1 := pairWithin_full (half A x) (half_nodup hA x) hxan _ (getElem_mem (Nat.mod_lt it (length_pos_iff.mpr ga)))
        have f2 := pairWithin_full (half B y) (half_nodup hB y) hxbn _ (getElem_mem (Nat.mod_lt it (length_pos_iff.mpr gb)))
        have f3 := pairBetween_full _ _ 0 pab hpab
        refine ((f1.append f2).append f3).perm ?_
        -- xa ++ xb ++ (ya ++ yb) ~ A ++ B
        have pA := half_perm A x hx.1
        have pB := half_perm B y hx.2
        exact (perm4 (half A x) (half B y) (half A (1 - x)) (half B (1 - y))).trans (pA.append pB)


/-! ### concatenated rounds of several generators -/

theorem nextAll_full {gens : List (List (Pairing L))} {parts : List (List L)}
    (h : Forall₂ (fun g p => g ≠ [] ∧ ∀ y ∈ g, FullMatch p y) gens parts) (i : Nat) :
    FullMatch parts.flatten (nextAll gens i) := by
  induction h with
  | nil => exact ⟨rfl, by simp [nextAll, labelsOf]⟩
  | @cons g p gs ps hgp _ ih =>
    obtain ⟨b, hb⟩ := loopNth_some g hgp.1 i
    have e : nextAll (g :: gs) i = g[i % g.length]'(Nat.mod_lt _ (length_pos_iff.mpr hgp.1)) ++ nextAll gs i := by
      simp only [nextAll, flatMap_cons, hb]
    rw [e, flatten_cons]
    exact (hgp.2 _ (getElem_mem _)).append ih

theorem forall₂_map_pw (parts : List (List L)) (hgood : ∀ p ∈ parts, p.Nodup ∧ none ∉ p ∧ p ≠ []) :
    Forall₂ (fun g p => g ≠ [] ∧ ∀ y ∈ g, FullMatch p y) (parts.map pairWithin) parts := by
  induction parts with
  | nil => exact Forall₂.nil
  | cons p r ih =>
    obtain ⟨a, b, c⟩ := hgood p (by simp)
    exact Forall₂.cons ⟨pairWithin_ne_nil p a b c, pairWithin_full p a b⟩
      (ih (fun q hq => hgood q (mem_cons_of_mem _ hq)))

theorem evens_sub {β : Type} : ∀ (l : List β), ∀ x ∈ evens l, x ∈ l
  | [], _, h => by simp [evens] at h
  | [a], x, h => by simpa [evens] using h
  | a :: b :: r, x, h => by
    simp only [evens, mem_cons] at h
    rcases h with rfl | h
    · simp
    · exact mem_cons_of_mem _ (mem_cons_of_mem _ (evens_sub r x h))

theorem odds_sub {β : Type} : ∀ (l : List β), ∀ x ∈ odds l, x ∈ l
  | [], _, h => by simp [odds] at h
  | [a], x, h => by simp [odds] at h
  | a :: b :: r, x, h => by
    simp only [odds, mem_cons] at h
    rcases h with rfl | h
    · simp
    · exact mem_cons_of_mem _ (mem_cons_of_mem _ (odds_sub r x h))

theorem evens_odds_perm : ∀ (l : List (List L)), ((evens l).flatten ++ (odds l).flatten).Perm l.flatten
  | [] => by simp [evens, odds]
  | [a] => by simp [evens, odds]
  | a :: b :: r => by
    have ih := evens_odds_perm r
    simp only [evens, odds, flatten_cons]
    have : (a ++ (evens r).flatten ++ (b ++ (odds r).flatten)).Perm
        ((a ++ b) ++ ((evens r).flatten ++ (odds r).flatten)) := perm4 _ _ _ _
    refine this.trans ?_
    rw [append_assoc]
    exact (Perm.append_left _ (Perm.append_left _ ih))

/-- first stage of a level: every yield matches all labels -/
theorem stage1_full (partition : List (List L)) (hgood : ∀ p ∈ partition, p.Nodup ∧ none ∉ p ∧ p ≠ []) :
    ∀ y ∈ pwsStage1 partition, FullMatch partition.flatten y := by
  intro y hy
  simp only [pwsStage1, mem_flatMap, mem_map, mem_range] at hy
  obtain ⟨d1, _, d2, _, rfl⟩ := hy
  rw [evens_map, odds_map]
  have he := nextAll_full (forall₂_map_pw (evens partition) (fun p hp => hgood p (evens_sub _ p hp))) d1
  have ho := nextAll_full (forall₂_map_pw (odds partition) (fun p hp => hgood p (odds_sub _ p hp)))
    (d1 * rounds (partition.getD (partition.length - 1) []).length + d2)
  exact (he.append ho).perm (evens_odds_perm partition)


theorem partPairs_cons_pr (a b : List L) (r : Pairing (Option (List L))) :
    partPairs (Item.pr (some a) (some b) :: r) = (partPairs r).map ((a, b) :: ·) := by
  unfold partPairs
  rw [mapM_cons]
  simp only [bind, Option.bind, pure]
  split <;> simp_all

theorem partPairs_labels : ∀ (pp : Pairing (Option (List L))) (prs : List (List L × List L)),
    partPairs pp = some prs → labelsOf pp = (prs.flatMap (fun ab => [ab.1, ab.2])).map some := by
  intro pp
  induction pp with
  | nil => intro prs h; simp [partPairs] at h; subst h; rfl
  | cons it r ih =>
    intro prs h
    cases it with
    | pr u v =>
      cases u with
      | none => simp [partPairs] at h
      | some a =>
        cases v with
        | none => simp [partPairs] at h
        | some b =>
          rw [partPairs_cons_pr] at h
          cases hr : partPairs r with
          | none => simp [hr] at h
          | some prs' =>
            simp only [hr, Option.map_some, Option.some.injEq] at h
            subst h
            simp [labelsOf, ih prs' hr]
    | sg u => simp [partPairs] at h
    | bad => simp [partPairs] at h

theorem flatten_pairs (prs : List (List L × List L)) :
    (prs.map (fun ab => ab.1 ++ ab.2)).flatten = (prs.flatMap (fun ab => [ab.1, ab.2])).flatten := by
  induction prs with
  | nil => rfl
  | cons ab r ih => simp [ih]

/-- second stage of a level: every yield matches all labels -/
theorem stage2_full (partition : List (List L)) (hflat : partition.flatten.Nodup)
    (hnone : none ∉ partition.flatten) (hsz : ∀ p ∈ partition, 2 ≤ p.length)
    (heven : partition.length % 2 = 0) : ∀ y ∈ pwsStage2 partition, FullMatch partition.flatten y := by
  intro y hy
  have hpnd : partition.Nodup := by
    have := nodup_flatten.mp hflat
    refine this.2.imp_of_mem ?_
    intro a b ha hb hdis e
    subst e
    have h2 := hsz a ha
    obtain ⟨x, hx⟩ := exists_mem_of_ne_nil a (by intro e; rw [e] at h2; simp at h2)
    exact hdis hx hx
  have hlabels_nd : (partition.map some).Nodup := hpnd.map (fun a b h => by injection h)
  have hlabels_none : none ∉ partition.map some := by simp
  have hinv := pairWithinAux_inv (partition.map some).length (partition.map some) (Nat.le_refl _) hlabels_nd
    (fun h => hlabels_none (dropLast_subset _ h))
  simp only [pwsStage2, mem_flatMap] at hy
  obtain ⟨pp, hpp, hy⟩ := hy
  have hgood := hinv.2 pp hpp
  have hall : allPairs pp = true := shape_even hgood (by simp; omega)
  have hlab : ∀ l ∈ labelsOf pp, l ≠ none := by
    intro l hl e
    have := hgood.perm.subset hl
    rw [e] at this; exact hlabels_none this
  obtain ⟨prs, hprs, _, hout⟩ := partPairs_ok pp hall hlab
  have hlabels := partPairs_labels pp prs hprs
  have hperm : (prs.flatMap (fun ab => [ab.1, ab.2])).Perm partition := by
    have := hgood.perm
    rw [hlabels] at this
    exact (map_perm_map_iff (fun a b h => by injection h)).mp this
  have hmem : ∀ ab ∈ prs, ab.1 ∈ partition ∧ ab.2 ∈ partition := by
    intro ab hab
    refine ⟨hperm.subset ?_, hperm.subset ?_⟩ <;>
      (simp only [mem_flatMap]; exact ⟨ab, hab, by simp⟩)
  have hdistinct : ∀ ab ∈ prs, ab.1 ≠ ab.2 := by
    intro ab hab e
    have hnd : (prs.flatMap (fun ab => [ab.1, ab.2])).Nodup := hperm.nodup_iff.mpr hpnd
    obtain ⟨pre, post, hsplit⟩ := append_of_mem hab
    rw [hsplit] at hnd
    simp only [flatMap_append, flatMap_cons] at hnd
    have := (nodup_append.mp (nodup_append.mp hnd).2.1).1
    rw [e] at this; simp at this
  have hfull : Forall₂ (fun g p => g ≠ [] ∧ ∀ y ∈ g, FullMatch p y)
      (prs.map (fun ab => genPairingsBetween ab.1 ab.2)) (prs.map (fun ab => ab.1 ++ ab.2)) := by
    have key : ∀ (l : List (List L × List L)), (∀ ab ∈ l, ab ∈ prs) →
        Forall₂ (fun g p => g ≠ [] ∧ ∀ y ∈ g, FullMatch p y)
          (l.map (fun ab => genPairingsBetween ab.1 ab.2)) (l.map (fun ab => ab.1 ++ ab.2)) := by
      intro l
      induction l with
      | nil => intro _; exact Forall₂.nil
      | cons ab r ih =>
        intro hsub
        have hab := hsub ab (by simp)
        obtain ⟨m1, m2⟩ := hmem ab hab
        have hnd := parts_disjoint hflat ab.1 ab.2 m1 m2 (hdistinct ab hab)
        have n1 : none ∉ ab.1 := fun h => hnone (mem_flatten.mpr ⟨_, m1, h⟩)
        have n2 : none ∉ ab.2 := fun h => hnone (mem_flatten.mpr ⟨_, m2, h⟩)
        exact Forall₂.cons ⟨gpb_nonempty _ _ hnd n1 n2 (hsz _ m1) (hsz _ m2),
          gpb_full _ _ hnd n1 n2 (hsz _ m1) (hsz _ m2)⟩ (ih (fun x hx => hsub x (mem_cons_of_mem _ hx)))
    exact key prs (fun _ h => h)
  have hgens_ne : (prs.map (fun ab => genPairingsBetween ab.1 ab.2)).any (fun g => g.isEmpty) = false := by
    rw [Bool.eq_false_iff]
    intro hc
    simp only [any_eq_true, mem_map, List.isEmpty_iff] at hc
    obtain ⟨g, ⟨ab, hab, rfl⟩, hg⟩ := hc
    obtain ⟨m1, m2⟩ := hmem ab hab
    exact gpb_nonempty ab.1 ab.2 (parts_disjoint hflat _ _ m1 m2 (hdistinct ab hab))
      (fun h => hnone (mem_flatten.mpr ⟨_, m1, h⟩)) (fun h => hnone (mem_flatten.mpr ⟨_, m2, h⟩))
      (hsz _ m1) (hsz _ m2) hg
  simp only [hprs, hgens_ne, Bool.false_eq_true, if_false, mem_map, mem_range] at hy
  obtain ⟨i, _, rfl⟩ := hy
  refine (nextAll_full hfull i).perm ?_
  have e := flatten_pairs prs
  rw [e]
  exact hperm.flatten


/-! ### all yields along the chain of levels -/

theorem level_full (labels : List L) (hl : labels.Nodup) (hn : none ∉ labels) (parts : List (List L))
    (hlv : Lvl labels parts) (hne : ∀ p ∈ parts, p ≠ []) (heven : parts.length % 2 = 0) :
    ∀ y ∈ levelYields parts, FullMatch labels y := by
  intro y hy
  have hgood := hlv.good hl hn
  have hflat : parts.flatten.Nodup := by rw [hlv.flat]; exact hl
  have hnone : none ∉ parts.flatten := by rw [hlv.flat]; exact hn
  simp only [levelYields, mem_append] at hy
  rcases hy with hy | hy
  · have := stage1_full parts (fun p hp => ⟨(hgood p hp).1, (hgood p hp).2, hne p hp⟩) y hy
    rwa [hlv.flat] at this
  · by_cases h3 : lastLen parts < 3
    · simp [h3] at hy
    · rw [if_neg h3] at hy
      have hsz : ∀ p ∈ parts, 2 ≤ p.length := by
        intro p hp; have := (hlv.bal.2 p hp).2; omega
      have := stage2_full parts hflat hnone hsz heven y hy
      rwa [hlv.flat] at this

theorem chain_full (labels : List L) (hl : labels.Nodup) (hn : none ∉ labels) :
    ∀ (fuel : Nat) (parts : List (List L)), Lvl labels parts → (∀ p ∈ parts, p ≠ []) →
      parts.length % 2 = 0 → ∀ y ∈ chainYields fuel parts, FullMatch labels y := by
  intro fuel
  induction fuel with
  | zero =>
    intro parts hlv hne heven y hy
    simp only [chainYields, genPartitionsAux, flatMap_cons, flatMap_nil, append_nil] at hy
    exact level_full labels hl hn parts hlv hne heven y hy
  | succ fuel ih =>
    intro parts hlv hne heven y hy
    simp only [chainYields, genPartitionsAux_succ, flatMap_cons, mem_append] at hy
    rcases hy with hy | hy
    · exact level_full labels hl hn parts hlv hne heven y hy
    · by_cases h4 : lastLen parts < 4
      · simp [h4] at hy
      · rw [if_neg h4] at hy
        refine ih (parts.flatMap halves) hlv.step ?_ (by rw [length_flatMap_halves]; omega) y hy
        intro q hq
        simp only [mem_flatMap, halves_eq, mem_cons, not_mem_nil, or_false] at hq
        obtain ⟨p, hp, rfl | rfl⟩ := hq
        · have := (hlv.bal.2 p hp).2
          intro e
          have h0 : (p.take (p.length / 2)).length = 0 := by rw [e]; rfl
          rw [length_take] at h0; omega
        · have := (hlv.bal.2 p hp).2
          intro e
          have h0 : (p.drop (p.length / 2)).length = 0 := by rw [e]; rfl
          rw [length_drop] at h0; omega

/-- every yield of `pair_within_simultaneously` is a perfect matching of all labels -/
theorem pws_full (labels : List L) (hl : labels.Nodup) (hn : none ∉ labels) :
    ∀ y ∈ pairWithinSimultaneously labels, FullMatch labels y := by
  intro y hy
  by_cases h4 : 4 ≤ labels.length
  · rw [pws_eq labels h4] at hy
    have hlv : Lvl labels [labels] := by
      refine ⟨by simp, by simp, ?_⟩
      intro p hp; simp only [mem_singleton] at hp; subst hp; simp [lastLen]
    have hlv' := hlv.step
    have e : [labels].flatMap halves = halves labels := by simp
    rw [e] at hlv'
    refine chain_full labels hl hn labels.length (halves labels) hlv' ?_ (by simp [halves_eq]) y hy
    intro q hq
    simp only [halves_eq, mem_cons, not_mem_nil, or_false] at hq
    rcases hq with rfl | rfl
    · intro e'
      have h0 : (labels.take (labels.length / 2)).length = 0 := by rw [e']; rfl
      rw [length_take] at h0; omega
    · intro e'
      have h0 : (labels.drop (labels.length / 2)).length = 0 := by rw [e']; rfl
      rw [length_drop] at h0; omega
  · have : labels.length ≤ 3 := by omega
    simp [pairWithinSimultaneously, this] at hy


/-! ### the Spec predicate for one bin -/

theorem subsetsLen_sublist {β : Type} : ∀ (k : Nat) (l q : List β), q ∈ subsetsLen k l → q.Sublist l ∧ q.length = k := by
  intro k
  induction k with
  | zero =>
    intro l q h
    cases l <;> simp [subsetsLen] at h <;> subst h <;> simp
  | succ k ih =>
    intro l
    induction l with
    | nil => intro q h; simp [subsetsLen] at h
    | cons a r ihl =>
      intro q h
      simp only [subsetsLen, mem_append, mem_map] at h
      rcases h with ⟨s', hs', rfl⟩ | h
      · obtain ⟨h1, h2⟩ := ih r s' hs'
        exact ⟨h1.cons₂ a, by simp [h2]⟩
      · obtain ⟨h1, h2⟩ := ihl q h
        exact ⟨h1.cons a, h2⟩

theorem partial_of_full {labels : List L} (hl : labels.Nodup) {y : Pairing L} (h : FullMatch labels y) :
    isPartialMatchingOf labels y = true := by
  simp only [isPartialMatchingOf, Bool.and_eq_true, decide_eq_true_eq, all_eq_true, contains_iff_mem]
  exact ⟨⟨h.1, h.2.nodup_iff.mpr hl⟩, fun x hx => h.2.subset hx⟩

/-- `pair_within_simultaneously`: the full statement of the Spec (one bin): every yield is a matching of
the labels and every four labels have a co-scheduled split -/
theorem pws_spec (labels : List L) (hl : labels.Nodup) (hn : none ∉ labels) :
    quadsCovered [labels] (pairWithinSimultaneously labels) = true := by
  simp only [quadsCovered, Bool.and_eq_true, all_eq_true, flatten_cons, flatten_nil, append_nil]
  refine ⟨fun y hy => partial_of_full hl (pws_full labels hl hn y hy), ?_⟩
  intro q hq
  have hb : binned [labels] = labels.map (fun x => (x, 0)) := by simp [binned]
  rw [hb] at hq
  obtain ⟨hsub, hlen⟩ := subsetsLen_sublist 4 _ q hq
  match q, hlen with
  | [a, b, c, d], _ =>
    simp only [Bool.or_eq_true, bne_iff_ne, ne_eq]
    right
    have hmap : ([a, b, c, d].map (·.1)).Sublist labels := by
      have := hsub.map (·.1)
      have e : (labels.map (fun x => (x, 0))).map (fun (x : L × Nat) => x.1) = labels := by
        rw [map_map]; conv_rhs => rw [← map_id labels]
        rfl
      rwa [e] at this
    simp only [map_cons, map_nil] at hmap
    exact pws_covers labels hl hn a.1 b.1 c.1 d.1 (hl.sublist hmap) (fun s hs => hmap.subset hs)

end OFV.Proofs.C18Pws
