/-
Products: a qubit operator pair that acts like a fermionic pair has a product acting like the fermionic product
(both are the composition of the two actions).  Used for the multiplicativity of `jordan_wigner`.
-/
import OFV.Proofs.C04RevInv

set_option linter.unusedSimpArgs false
set_option linter.unusedVariables false
set_option linter.unnecessarySeqFocus false

namespace OFV
namespace Jel
open Model Model.C04 Spec Sem

theorem sum_pick (Z : List Nat) (hZ : Z.Nodup) (y : Nat) (hy : y ∈ Z) (f : Nat → GQ) :
    (Z.map fun z => if y = z then f z else 0).sum = f y := by
  induction Z with
  | nil => simp at hy
  | cons a Z ih =>
    rw [List.nodup_cons] at hZ
    simp only [List.map_cons, List.sum_cons]
    rcases List.mem_cons.1 hy with rfl | h
    · have : (Z.map fun z => if y = z then f z else 0).sum = 0 := by
        apply List.sum_eq_zero
        intro v hv
        simp only [List.mem_map] at hv
        obtain ⟨z, hz, rfl⟩ := hv
        have : ¬ y = z := fun e => hZ.1 (e ▸ hz)
        simp [this]
      simp [this]
    · have : ¬ y = a := fun e => hZ.1 (e ▸ h)
      simp [this, ih hZ.2 h]

theorem sum_map_add2 {α : Type} (L : List α) (f g : α → GQ) :
    (L.map fun a => f a + g a).sum = (L.map f).sum + (L.map g).sum := by
  induction L with
  | nil => simp
  | cons a L ih => simp only [List.map_cons, List.sum_cons, ih]; ring

/-- a qubit operator as a right factor: `Σ_r c_r i^{k_r} G(y_r) = Σ_z G(z) ⟨z|Y|m⟩` over any duplicate-free list of
states containing all images -/
theorem sumQ_through_images (Y : Model.Op) (G : Nat → GQ) (m : Nat) (Z : List Nat) (hZ : Z.Nodup)
    (hY : ∀ r ∈ Y, (actPTerm r.1 m).2 ∈ Z) :
    (Y.map fun r => r.2 * GQ.ipow (actPTerm r.1 m).1 * G (actPTerm r.1 m).2).sum
      = (Z.map fun z => G z * den .qubit Y [m] [z]).sum := by
  induction Y with
  | nil => simp [den_nil]
  | cons tc Y ih =>
    obtain ⟨t, c⟩ := tc
    simp only [List.map_cons, List.sum_cons]
    rw [ih (fun r hr => hY r (List.mem_cons_of_mem _ hr))]
    have hy := hY (t, c) List.mem_cons_self
    have e : (Z.map fun z => G z * den .qubit ((t, c) :: Y) [m] [z])
        = Z.map fun z => (if (actPTerm t m).2 = z then c * GQ.ipow (actPTerm t m).1 * G z else 0)
            + G z * den .qubit Y [m] [z] := by
      apply List.map_congr_left; intro z _
      rw [den_cons, termCoef_qubit]
      by_cases h : (actPTerm t m).2 = z <;> simp [h] <;> ring
    rw [e, sum_map_add2, sum_pick Z hZ _ hy (fun z => c * GQ.ipow (actPTerm t m).1 * G z)]

/-- the image state of a fermionic term (the input state when the term annihilates it) -/
def imgF (t : List (Nat × Nat)) (m : Nat) : Nat :=
  match actFTerm t m with
  | none => m
  | some (_, m') => m'

/-- a fermionic operator as a right factor -/
theorem sumF_through_images (B : Model.Op) (G : Nat → GQ) (m : Nat) (Z : List Nat) (hZ : Z.Nodup)
    (hB : ∀ r ∈ B, imgF r.1 m ∈ Z) :
    sumF B m G = (Z.map fun z => G z * den .fermion B [m] [z]).sum := by
  unfold sumF
  induction B with
  | nil => simp [den_nil]
  | cons tc B ih =>
    obtain ⟨t, c⟩ := tc
    simp only [List.map_cons, List.sum_cons]
    rw [ih (fun r hr => hB r (List.mem_cons_of_mem _ hr))]
    have hy := hB (t, c) List.mem_cons_self
    unfold imgF at hy
    cases h : actFTerm t m with
    | none =>
      have e : (Z.map fun z => G z * den .fermion ((t, c) :: B) [m] [z])
          = Z.map fun z => G z * den .fermion B [m] [z] := by
        apply List.map_congr_left; intro z _
        rw [den_cons, termCoef_fermion, h]; ring
      rw [e]; simp
    | some km =>
      obtain ⟨k, m'⟩ := km
      rw [h] at hy
      have e : (Z.map fun z => G z * den .fermion ((t, c) :: B) [m] [z])
          = Z.map fun z => (if m' = z then c * GQ.sgn k * G z else 0) + G z * den .fermion B [m] [z] := by
        apply List.map_congr_left; intro z _
        rw [den_cons, termCoef_fermion, h]
        by_cases hz : m' = z <;> simp [hz] <;> ring
      rw [e, sum_map_add2, sum_pick Z hZ _ hy (fun z => c * GQ.sgn k * G z)]
      simp only []
      ring

theorem le_foldr_max (L : List Nat) (y : Nat) (hy : y ∈ L) : y ≤ L.foldr max 0 := by
  induction L with
  | nil => simp at hy
  | cons a L ih =>
    simp only [List.foldr_cons]
    rcases List.mem_cons.1 hy with rfl | h
    · exact Nat.le_max_left _ _
    · exact Nat.le_trans (ih h) (Nat.le_max_right _ _)

/-- **products compose**: if the qubit operators `a'`, `b'` have the matrix elements of the fermionic operators
`a`, `b`, then `a' b'` (QubitOperator product) has the matrix elements of `a b` (FermionOperator product) -/
theorem mul_compose (a' b' a b : Model.Op) (ha' : ValidOp a') (hb' : ValidOp b')
    (ea : ∀ y x, den .qubit a' [y] [x] = den .fermion a [y] [x])
    (eb : ∀ y x, den .qubit b' [y] [x] = den .fermion b [y] [x]) (m x : Nat) :
    den .qubit (mulOp .qubit a' b') [m] [x] = den .fermion (mulOp .fermion a b) [m] [x] := by
  rw [den_mulOp_right a' b' ha' hb', den_mulOpF_sumF]
  let Z := List.range (((b'.map fun r => (actPTerm r.1 m).2) ++ (b.map fun r => imgF r.1 m)).foldr max 0 + 1)
  have hZ : Z.Nodup := List.nodup_range
  have h1 : ∀ r ∈ b', (actPTerm r.1 m).2 ∈ Z := by
    intro r hr
    rw [List.mem_range]
    have := le_foldr_max ((b'.map fun r => (actPTerm r.1 m).2) ++ (b.map fun r => imgF r.1 m)) _
      (List.mem_append_left _ (List.mem_map.2 ⟨r, hr, rfl⟩))
    omega
  have h2 : ∀ r ∈ b, imgF r.1 m ∈ Z := by
    intro r hr
    rw [List.mem_range]
    have := le_foldr_max ((b'.map fun r => (actPTerm r.1 m).2) ++ (b.map fun r => imgF r.1 m)) _
      (List.mem_append_right _ (List.mem_map.2 ⟨r, hr, rfl⟩))
    omega
  rw [sumQ_through_images b' (fun y => den .qubit a' [y] [x]) m Z hZ h1,
    sumF_through_images b (fun y => den .fermion a [y] [x]) m Z hZ h2]
  congr 1; apply List.map_congr_left; intro z _
  rw [ea, eb]

end Jel
end OFV
